package common

import (
	"context"
	"fmt"
	"os"
	"os/exec"
	"path/filepath"
	"regexp"
	"runtime"
	"strconv"
	"strings"
	"sync"
	"time"
)

// GoResult is what the compiled program did.
type GoResult struct {
	CompileErr string // non-empty: the toolchain rejected the program (first lines of the error)
	Stdout     string
	Stderr     string
	Exit       int
	Timeout    bool
}

// Panic returns the message of the "panic: …" line of stderr, or "" if the program did not panic.
func (g GoResult) Panic() string {
	for _, l := range strings.Split(g.Stderr, "\n") {
		if strings.HasPrefix(l, "panic: ") {
			return strings.TrimPrefix(l, "panic: ")
		}
		if strings.HasPrefix(l, "fatal error: ") {
			return l
		}
	}
	return ""
}

// batchCache returns a build cache used only for the reference batches of THIS process. Every batch
// consists of hundreds of packages that are never built again, so the cache is wiped every 30
// batches instead of growing without bound (the shared default cache reached 124 GB in one day of
// sweeps). Caches left behind by earlier processes are removed when they are older than two hours.
var batchCacheMu sync.Mutex
var batchCacheN int

func batchCache() string {
	batchCacheMu.Lock()
	defer batchCacheMu.Unlock()
	dir := filepath.Join(os.TempDir(), fmt.Sprintf("verif-batch-gocache-%d", os.Getpid()))
	if batchCacheN == 0 {
		if old, err := filepath.Glob(filepath.Join(os.TempDir(), "verif-batch-gocache-*")); err == nil {
			for _, d := range old {
				if st, err := os.Stat(d); err == nil && d != dir && time.Since(st.ModTime()) > 2*time.Hour {
					os.RemoveAll(d)
				}
			}
		}
	}
	if batchCacheN%30 == 0 {
		os.RemoveAll(dir)
	}
	batchCacheN++
	os.MkdirAll(dir, 0o755)
	return dir
}

// CleanBatchCache removes this process's batch cache (call it before exiting).
func CleanBatchCache() {
	os.RemoveAll(filepath.Join(os.TempDir(), fmt.Sprintf("verif-batch-gocache-%d", os.Getpid())))
}

var mainRe = regexp.MustCompile(`(?m)^func main\(\)`)
var pkgRe = regexp.MustCompile(`(?m)^package main\b`)
var pkgDirRe = regexp.MustCompile(`\bp(\d{5})/`)

// RunGoBatch compiles every program (each a complete `package main` with `func main()`) with the
// installed toolchain — all linked into one dispatcher binary per batch, so a few hundred
// programs cost one `go build` — and runs each in its own process. Scratch files live in a fresh
// temporary directory that is removed before returning.
func RunGoBatch(progs []string, perRun time.Duration) ([]GoResult, error) {
	res := make([]GoResult, len(progs))
	if len(progs) == 0 {
		return res, nil
	}
	dir, err := os.MkdirTemp("", "verif-gobatch-")
	if err != nil {
		return nil, err
	}
	defer os.RemoveAll(dir)
	if err := os.WriteFile(filepath.Join(dir, "go.mod"), []byte("module batch\n\ngo 1.22\n"), 0o644); err != nil {
		return nil, err
	}
	alive := map[int]bool{}
	for i, src := range progs {
		if !mainRe.MatchString(src) || !pkgRe.MatchString(src) {
			res[i].CompileErr = "harness: program lacks `package main` / `func main()`"
			continue
		}
		s := pkgRe.ReplaceAllString(src, fmt.Sprintf("package p%05d", i))
		s = mainRe.ReplaceAllString(s, "func Main()")
		d := filepath.Join(dir, fmt.Sprintf("p%05d", i))
		if err := os.MkdirAll(d, 0o755); err != nil {
			return nil, err
		}
		if err := os.WriteFile(filepath.Join(d, "p.go"), []byte(s), 0o644); err != nil {
			return nil, err
		}
		alive[i] = true
	}
	env := append(os.Environ(), "GOFLAGS=-mod=mod", "GOPROXY=off", "GOSUMDB=off", "GOTOOLCHAIN=local", "GO111MODULE=on",
		"GOCACHE="+batchCache())
	bin := filepath.Join(dir, "batch.bin")
	for attempt := 0; ; attempt++ {
		var b strings.Builder
		b.WriteString("package main\n\nimport (\n\t\"os\"\n\t\"strconv\"\n")
		for i := range progs {
			if alive[i] {
				fmt.Fprintf(&b, "\tp%05d \"batch/p%05d\"\n", i, i)
			}
		}
		b.WriteString(")\n\nfunc main() {\n\tn, _ := strconv.Atoi(os.Args[1])\n\tswitch n {\n")
		for i := range progs {
			if alive[i] {
				fmt.Fprintf(&b, "\tcase %d:\n\t\tp%05d.Main()\n", i, i)
			}
		}
		b.WriteString("\t}\n}\n")
		if err := os.WriteFile(filepath.Join(dir, "main.go"), []byte(b.String()), 0o644); err != nil {
			return nil, err
		}
		// The reference programs are compiled WITHOUT optimisation and inlining: go1.23.5's optimiser was
		// observed to miscompile `(n + id(math.MinInt64)) % 4` (it prints 1 where the specification, the
		// unoptimised build and the interpreter give -3), and to make recover() effective in a merely
		// called function literal once the deferred function is inlined into its wrapper.
		cmd := exec.Command("go", "build", "-gcflags=batch/...=-N -l", "-o", bin, ".")
		cmd.Dir = dir
		cmd.Env = env
		out, err := cmd.CombinedOutput()
		if err == nil {
			break
		}
		// attribute the errors to packages, drop those, retry
		bad := map[int][]string{}
		for _, l := range strings.Split(string(out), "\n") {
			if m := pkgDirRe.FindStringSubmatch(l); m != nil {
				n, _ := strconv.Atoi(m[1])
				bad[n] = append(bad[n], l)
			}
		}
		if len(bad) == 0 || attempt > 20 {
			return nil, fmt.Errorf("go build of batch failed: %v\n%s", err, out)
		}
		for n, ls := range bad {
			if len(ls) > 4 {
				ls = ls[:4]
			}
			res[n].CompileErr = strings.Join(ls, "\n")
			delete(alive, n)
		}
	}
	var wg sync.WaitGroup
	sem := make(chan struct{}, runtime.NumCPU())
	for i := range progs {
		if !alive[i] {
			continue
		}
		wg.Add(1)
		sem <- struct{}{}
		go func(i int) {
			defer wg.Done()
			defer func() { <-sem }()
			ctx, cancel := context.WithTimeout(context.Background(), perRun)
			defer cancel()
			cmd := exec.CommandContext(ctx, bin, strconv.Itoa(i))
			cmd.Env = append(os.Environ(), "GOTRACEBACK=single", "GOMEMLIMIT=512MiB")
			so, se := &capWriter{max: 1 << 20}, &capWriter{max: 1 << 20}
			cmd.Stdout, cmd.Stderr = so, se
			err := cmd.Run()
			r := &res[i]
			r.Stdout, r.Stderr = so.String(), se.String()
			if ctx.Err() != nil {
				r.Timeout = true
			}
			if ee, ok := err.(*exec.ExitError); ok {
				r.Exit = ee.ExitCode()
			} else if err != nil {
				r.Exit = -1
			}
		}(i)
	}
	wg.Wait()
	return res, nil
}
