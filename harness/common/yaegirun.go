package common

import (
	"bytes"
	"context"
	"fmt"
	"strings"
	"sync"
	"time"

	"github.com/traefik/yaegi/interp"
	"github.com/traefik/yaegi/stdlib"
)

// YResult is what the interpreter did with a whole program.
type YResult struct {
	Stdout  string
	Stderr  string
	Err     string // error returned by Eval ("" if none)
	Panic   string // value of an interp.Panic error, if that is what Eval returned
	Crash   string // a Go panic that escaped Eval (never acceptable)
	Timeout bool
}

// capWriter keeps at most max bytes and calls onFull once when the cap is hit (a runaway program
// must not exhaust the harness's memory).
type capWriter struct {
	mu     sync.Mutex
	buf    bytes.Buffer
	max    int
	onFull func()
	full   bool
}

func (w *capWriter) Write(p []byte) (int, error) {
	w.mu.Lock()
	defer w.mu.Unlock()
	if w.full {
		return len(p), nil
	}
	if w.buf.Len()+len(p) > w.max {
		w.full = true
		if w.onFull != nil {
			w.onFull()
		}
		return len(p), nil
	}
	return w.buf.Write(p)
}

func (w *capWriter) String() string {
	w.mu.Lock()
	defer w.mu.Unlock()
	return w.buf.String()
}

// RunYaegi evaluates a complete program (package main with func main) in a fresh interpreter.
func RunYaegi(src string, timeout time.Duration) (res YResult) {
	done := make(chan struct{})
	ctx, cancel := context.WithTimeout(context.Background(), timeout)
	defer cancel()
	so := &capWriter{max: 1 << 20, onFull: cancel}
	se := &capWriter{max: 1 << 20, onFull: cancel}
	go func() {
		defer close(done)
		defer func() {
			if r := recover(); r != nil {
				res.Crash = fmt.Sprint(r)
			}
		}()
		i := interp.New(interp.Options{Stdout: so, Stderr: se})
		if err := i.Use(stdlib.Symbols); err != nil {
			res.Err = err.Error()
			return
		}
		_, err := i.EvalWithContext(ctx, src)
		if err != nil {
			res.Err = err.Error()
			if p, ok := err.(interp.Panic); ok {
				res.Panic = fmt.Sprint(p.Value)
			}
			if ctx.Err() != nil {
				res.Timeout = true
			}
		}
	}()
	select {
	case <-done:
	case <-time.After(timeout + 5*time.Second):
		res.Timeout = true
		res.Err = "harness: interpreter did not return after cancellation"
	}
	res.Stdout, res.Stderr = so.String(), se.String()
	return res
}

// FirstLine returns the first line of s.
func FirstLine(s string) string {
	if i := strings.IndexByte(s, '\n'); i >= 0 {
		return s[:i]
	}
	return s
}
