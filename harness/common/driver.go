package common

import (
	"bufio"
	"fmt"
	"io"
	"os"
	"os/exec"
	"path/filepath"
	"strings"
)

// VerifDir is the root of the verification tree (overridable for snapshots).
func VerifDir() string {
	if d := os.Getenv("VERIF_DIR"); d != "" {
		return d
	}
	return "/verif"
}

// Driver is a running Lean line-protocol driver (lean/.lake/build/bin/driver).
type Driver struct {
	cmd *exec.Cmd
	in  io.WriteCloser
	out *bufio.Reader
	N   int
}

// StartDriver launches the compiled Lean driver of one property (lean/.lake/build/bin/driver-<pid>).
func StartDriver(pid string) (*Driver, error) {
	bin := filepath.Join(VerifDir(), "lean", ".lake", "build", "bin", "driver-"+pid)
	cmd := exec.Command(bin)
	in, err := cmd.StdinPipe()
	if err != nil {
		return nil, err
	}
	out, err := cmd.StdoutPipe()
	if err != nil {
		return nil, err
	}
	cmd.Stderr = os.Stderr
	if err := cmd.Start(); err != nil {
		return nil, err
	}
	return &Driver{cmd: cmd, in: in, out: bufio.NewReaderSize(out, 1<<20)}, nil
}

// Ask sends one line (without newline) and returns the answer line.
func (d *Driver) Ask(line string) (string, error) {
	if strings.ContainsAny(line, "\n\r") {
		return "", fmt.Errorf("protocol line contains a newline: %q", line)
	}
	if _, err := io.WriteString(d.in, line+"\n"); err != nil {
		return "", err
	}
	ans, err := d.out.ReadString('\n')
	if err != nil {
		return "", fmt.Errorf("driver died on %q: %v", line, err)
	}
	d.N++
	return strings.TrimRight(ans, "\n"), nil
}

// AskAll sends many lines with pipelining (writer goroutine) and returns all answers.
func (d *Driver) AskAll(lines []string) ([]string, error) {
	errc := make(chan error, 1)
	go func() {
		w := bufio.NewWriterSize(d.in, 1<<20)
		for _, l := range lines {
			if strings.ContainsAny(l, "\n\r") {
				errc <- fmt.Errorf("protocol line contains a newline: %q", l)
				return
			}
			w.WriteString(l)
			w.WriteByte('\n')
		}
		errc <- w.Flush()
	}()
	out := make([]string, 0, len(lines))
	for range lines {
		ans, err := d.out.ReadString('\n')
		if err != nil {
			return out, fmt.Errorf("driver died after %d answers: %v", len(out), err)
		}
		out = append(out, strings.TrimRight(ans, "\n"))
	}
	d.N += len(lines)
	return out, <-errc
}

// Close ends the driver.
func (d *Driver) Close() {
	d.in.Close()
	d.cmd.Wait()
}

// Fields parses "k=v k2=v2" answers.
func Fields(ans string) map[string]string {
	m := map[string]string{}
	for _, f := range strings.Fields(ans) {
		if i := strings.IndexByte(f, '='); i > 0 {
			m[f[:i]] = f[i+1:]
		}
	}
	return m
}
