package common

import (
	"encoding/json"
	"flag"
	"fmt"
	"math/rand"
	"os"
	"path/filepath"
	"sort"
	"strconv"
)

// Disagreement is one case on which two of {implementation, model, spec, reference} differ.
type Disagreement struct {
	// Kind: "impl-vs-ref" (the property fails on this input on the real code),
	// "impl-vs-model" (correspondence broken), "spec-vs-ref" (the harness's own spec is wrong).
	Kind    string      `json:"kind"`
	Input   interface{} `json:"input"`
	Impl    string      `json:"impl,omitempty"`
	Model   string      `json:"model,omitempty"`
	Spec    string      `json:"spec,omitempty"`
	Ref     string      `json:"ref,omitempty"`
	Finding string      `json:"finding,omitempty"` // id of the known finding whose signature this input satisfies
	Note    string      `json:"note,omitempty"`
}

// KnownReplay is the outcome of replaying one listed finding.
type KnownReplay struct {
	ID         string `json:"id"`
	Status     string `json:"status"` // finding | fixed
	What       string `json:"what"`
	StillFails bool   `json:"still_fails"`
	Detail     string `json:"detail,omitempty"`
}

// Result is what a harness hands back to ./check.
type Result struct {
	Property      string                 `json:"property"`
	Seed          int64                  `json:"seed"`
	Tier          string                 `json:"tier"`
	Evaluations   int                    `json:"evaluations"`
	Distinct      int                    `json:"distinct_nontrivial"`
	Rule          string                 `json:"rule"`
	Samples       []interface{}          `json:"samples"`
	Distribution  map[string]int         `json:"distribution"`
	Extra         map[string]interface{} `json:"extra,omitempty"`
	Disagreements []Disagreement         `json:"disagreements"`
	Known         []KnownReplay          `json:"known"`
	Errors        []string               `json:"errors,omitempty"` // harness-internal problems (never silently dropped)
}

// Run carries the standard flags of a harness.
type Run struct {
	Tier   string
	Seed   int64
	Out    string
	Replay string
	Rng    *rand.Rand
	Res    *Result
	seen   map[string]bool
}

// NewRun parses the standard flags: -tier quick|thorough -seed N -out file [-replay file].
func NewRun(property string) *Run {
	r := &Run{}
	flag.StringVar(&r.Tier, "tier", "quick", "quick|thorough")
	flag.Int64Var(&r.Seed, "seed", 1, "PRNG seed (VERIF_SEED)")
	flag.StringVar(&r.Out, "out", "", "result file")
	flag.StringVar(&r.Replay, "replay", "", "replay file: run only this input")
	flag.Parse()
	if s := os.Getenv("VERIF_SEED"); s != "" && !isFlagSet("seed") {
		if v, err := strconv.ParseInt(s, 10, 64); err == nil {
			r.Seed = v
		}
	}
	r.Rng = rand.New(rand.NewSource(r.Seed))
	r.Res = &Result{Property: property, Seed: r.Seed, Tier: r.Tier, Distribution: map[string]int{},
		Disagreements: []Disagreement{}, Known: []KnownReplay{}, Samples: []interface{}{}}
	r.seen = map[string]bool{}
	return r
}

func isFlagSet(name string) bool {
	set := false
	flag.Visit(func(f *flag.Flag) {
		if f.Name == name {
			set = true
		}
	})
	return set
}

// Thorough reports whether the thorough tier was requested.
func (r *Run) Thorough() bool { return r.Tier == "thorough" }

// Count records one evaluated case; key identifies it for distinctness; nontrivial by the harness's rule.
func (r *Run) Count(key string, nontrivial bool) {
	r.Res.Evaluations++
	if nontrivial && !r.seen[key] {
		r.seen[key] = true
		r.Res.Distinct++
	}
}

// Hit increments a distribution bucket.
func (r *Run) Hit(bucket string) { r.Res.Distribution[bucket]++ }

// Sample keeps up to max samples.
func (r *Run) Sample(v interface{}, max int) {
	if len(r.Res.Samples) < max {
		r.Res.Samples = append(r.Res.Samples, v)
	}
}

// Disagree records a disagreement (at most 50 per kind+finding are kept verbatim; all are counted).
func (r *Run) Disagree(d Disagreement) {
	k := "disagree:" + d.Kind
	if d.Finding != "" {
		k += ":" + d.Finding
	}
	r.Res.Distribution[k]++
	if r.Res.Distribution[k] <= 50 {
		r.Res.Disagreements = append(r.Res.Disagreements, d)
	}
}

// Errorf records a harness-internal error.
func (r *Run) Errorf(format string, a ...interface{}) {
	if len(r.Res.Errors) < 50 {
		r.Res.Errors = append(r.Res.Errors, fmt.Sprintf(format, a...))
	}
}

// Finish writes the result file.
func (r *Run) Finish() {
	CleanBatchCache()
	sort.SliceStable(r.Res.Disagreements, func(i, j int) bool { return r.Res.Disagreements[i].Kind < r.Res.Disagreements[j].Kind })
	b, err := json.MarshalIndent(r.Res, "", " ")
	if err != nil {
		fmt.Fprintln(os.Stderr, "result:", err)
		os.Exit(3)
	}
	if r.Out == "" {
		os.Stdout.Write(b)
		return
	}
	if err := os.WriteFile(r.Out, b, 0o644); err != nil {
		fmt.Fprintln(os.Stderr, "result:", err)
		os.Exit(3)
	}
}

// Finding is one entry of KNOWN_FINDINGS.json.
type Finding struct {
	ID       string          `json:"id"`
	Property string          `json:"property"`
	Status   string          `json:"status"` // finding | fixed
	Commit   string          `json:"commit,omitempty"`
	What     string          `json:"what"`
	Replay   json.RawMessage `json:"replay,omitempty"` // property-specific input that exhibits it
}

// LoadFindings returns the entries of KNOWN_FINDINGS.json for one property.
func LoadFindings(property string) ([]Finding, error) {
	b, err := os.ReadFile(filepath.Join(VerifDir(), "KNOWN_FINDINGS.json"))
	if err != nil {
		return nil, err
	}
	var all struct {
		Findings []Finding `json:"findings"`
	}
	if err := json.Unmarshal(b, &all); err != nil {
		return nil, err
	}
	var out []Finding
	for _, f := range all.Findings {
		if f.Property == property {
			out = append(out, f)
		}
	}
	return out, nil
}

// Listed reports whether id is listed with status "finding" (only those suppress a violation).
func Listed(fs []Finding, id string) bool {
	for _, f := range fs {
		if f.ID == id && f.Status == "finding" {
			return true
		}
	}
	return false
}
