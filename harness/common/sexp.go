// Package common holds what every property harness shares: the S-expression line
// protocol spoken with the Lean driver, the seeded PRNG, the result file, the
// known-findings file and the compiled-Go oracle.
package common

import (
	"fmt"
	"strings"
)

// Q renders a string as one protocol atom (quoted when needed).
func Q(s string) string {
	need := s == ""
	for i := 0; i < len(s) && !need; i++ {
		c := s[i]
		if c <= 32 || c > 126 || c == '(' || c == ')' || c == '"' || c == '\\' {
			need = true
		}
	}
	if !need {
		return s
	}
	var b strings.Builder
	b.WriteByte('"')
	for i := 0; i < len(s); i++ {
		c := s[i]
		switch {
		case c == '"':
			b.WriteString(`\"`)
		case c == '\\':
			b.WriteString(`\\`)
		case c < 32 || c > 126:
			fmt.Fprintf(&b, `\x%02x`, c)
		default:
			b.WriteByte(c)
		}
	}
	b.WriteByte('"')
	return b.String()
}

// L renders a list of already rendered items.
func L(items ...string) string { return "(" + strings.Join(items, " ") + ")" }

// QL renders a list of atoms.
func QL(items []string) string {
	out := make([]string, len(items))
	for i, s := range items {
		out[i] = Q(s)
	}
	return L(out...)
}

// B renders a bool.
func B(b bool) string {
	if b {
		return "1"
	}
	return "0"
}
