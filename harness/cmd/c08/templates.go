package main

// Streams B, C, D: the concurrent program templates of the property. Every template is data-race-free and
// prints a result that does not depend on scheduling (sums, sorted lists, per-worker slots), so the compiled
// program's output is THE expected output; where cheap the expectation is also computed sequentially here.
//
// Class labels (decidable from the template, not from the outcome):
//   ""              inside the domain of the isolation theorem

import (
	"fmt"
	"math/rand"
	"sort"
	"strings"
)

type Tmpl struct {
	Name    string
	Class   string
	Kind    string // prog | host
	Src     string
	Expect  string // "" when only the compiled program is the expectation
	RefSrc  string // what the toolchain compiles when it differs from Src (Src imports the host package verif)
	ForceP1 bool   // one configuration runs the program on a single processor (GOMAXPROCS=1, no hook)
	Parties int    // > 0: the program calls verif.Mark before the statement under test; one configuration runs it
	// under the lock-step barrier with that many goroutines
	// host
	Fn, Final string
	N, Calls  int
}

func f1(x int) int { return x*x + 3*x + 1 }

var templates = []func(r *rand.Rand) Tmpl{
	tPipeline, tWorkerPool, tSelectPrivate, tMutexCounter, tProducerConsumer, tFanInSlots, tClosureLoop,
	tGoArgCopy, tSelectMux, tPingPong, tParallelFib, tMethodGoroutines, tSemaphore, tSelectSharedSend,
	tGoBinArgs, tRWMutexMap, tOnceAtomic, tNestedSpawn, tSelectDefaultPoll, tGoBinNoReassign, tMethodViaClosure, tGoFuncVar, tClosureSlice,
	tPrivateRecv, tPrivateRecv2, tPrivateSend, tPrivateRange, tPrivateSelect, tPrivateSelectForms, tPrivateRecvForms,
	tSpawnLit, tSpawnFuncValue, tSpawnMethod, tSpawnDeclared, tSpawnHost, tMethodValueCalls, tFuncValueCalls,
}

func tPipeline(r *rand.Rand) Tmpl {
	n, k := 5+r.Intn(30), 1+r.Intn(5)
	sum := 0
	for i := 0; i < n; i++ {
		sum += (i*k+1)*(i*k+1) + 7
	}
	return Tmpl{Name: "pipeline", Kind: "prog", Expect: fmt.Sprintf("sum %d\n", sum), Src: fmt.Sprintf(`package main

import "fmt"

func gen(n, k int) <-chan int {
	out := make(chan int)
	go func() {
		for i := 0; i < n; i++ {
			out <- i*k + 1
		}
		close(out)
	}()
	return out
}

func sq(in <-chan int) <-chan int {
	out := make(chan int)
	go func() {
		for v := range in {
			out <- v * v
		}
		close(out)
	}()
	return out
}

func add(in <-chan int, d int) <-chan int {
	out := make(chan int, 2)
	go func() {
		for v := range in {
			out <- v + d
		}
		close(out)
	}()
	return out
}

func main() {
	sum := 0
	for v := range add(sq(gen(%d, %d)), 7) {
		sum += v
	}
	fmt.Println("sum", sum)
}
`, n, k)}
}

func tWorkerPool(r *rand.Rand) Tmpl {
	w, n := 2+r.Intn(6), 10+r.Intn(60)
	var res []int
	sum := 0
	for j := 0; j < n; j++ {
		res = append(res, f1(j))
		sum += f1(j)
	}
	sort.Ints(res)
	return Tmpl{Name: "worker-pool", Kind: "prog", Expect: fmt.Sprintf("sum %d\nfirst %d last %d n %d\n", sum, res[0], res[n-1], n), Src: fmt.Sprintf(`package main

import (
	"fmt"
	"sort"
	"sync"
)

func f(x int) int { return x*x + 3*x + 1 }

func worker(id int, jobs <-chan int, results chan<- int, wg *sync.WaitGroup) {
	defer wg.Done()
	for j := range jobs {
		results <- f(j)
	}
}

func main() {
	const W, N = %d, %d
	jobs := make(chan int, 4)
	results := make(chan int, N)
	var wg sync.WaitGroup
	for w := 0; w < W; w++ {
		wg.Add(1)
		go worker(w, jobs, results, &wg)
	}
	for j := 0; j < N; j++ {
		jobs <- j
	}
	close(jobs)
	wg.Wait()
	close(results)
	var all []int
	sum := 0
	for v := range results {
		all = append(all, v)
		sum += v
	}
	sort.Ints(all)
	fmt.Println("sum", sum)
	fmt.Println("first", all[0], "last", all[len(all)-1], "n", len(all))
}
`, w, n)}
}

// per-worker private channels used in the same select statement (F08, repaired: inside the domain)
func tSelectPrivate(r *rand.Rand) Tmpl {
	w, n := 2+r.Intn(4), 20+r.Intn(200)
	var b strings.Builder
	for i := 0; i < w; i++ {
		fmt.Fprintf(&b, "worker %d own %d wrong 0 ctl %d\n", i, n, 3)
	}
	return Tmpl{Name: "select-private", Kind: "prog", Expect: b.String(), Src: fmt.Sprintf(`package main

import (
	"fmt"
	"sync"
)

func worker(w int, in chan int, ctl chan int, res []int, wg *sync.WaitGroup) {
	own, wrong, nctl := 0, 0, 0
	open := 2
	for open > 0 {
		select {
		case v, ok := <-in:
			if !ok {
				in = nil
				open--
			} else if v/1000000 == w {
				own++
			} else {
				wrong++
			}
		case v, ok := <-ctl:
			if !ok {
				ctl = nil
				open--
			} else if v == w {
				nctl++
			} else {
				wrong++
			}
		}
	}
	res[3*w], res[3*w+1], res[3*w+2] = own, wrong, nctl
	wg.Done()
}

func main() {
	const W, N = %d, %d
	res := make([]int, 3*W)
	var wg sync.WaitGroup
	for w := 0; w < W; w++ {
		in := make(chan int, N)
		ctl := make(chan int, 3)
		for k := 0; k < N; k++ {
			in <- w*1000000 + k
		}
		for k := 0; k < 3; k++ {
			ctl <- w
		}
		close(in)
		close(ctl)
		wg.Add(1)
		go worker(w, in, ctl, res, &wg)
	}
	wg.Wait()
	for w := 0; w < W; w++ {
		fmt.Println("worker", w, "own", res[3*w], "wrong", res[3*w+1], "ctl", res[3*w+2])
	}
}
`, w, n)}
}

func tMutexCounter(r *rand.Rand) Tmpl {
	w, n := 2+r.Intn(7), 20+r.Intn(200)
	return Tmpl{Name: "mutex-counter", Kind: "prog", Expect: fmt.Sprintf("count %d sum %d\n", w*n, w*n*(n-1)/2), Src: fmt.Sprintf(`package main

import (
	"fmt"
	"sync"
)

type Counter struct {
	mu  sync.Mutex
	n   int
	sum int
}

func (c *Counter) Add(v int) {
	c.mu.Lock()
	c.n++
	c.sum += v
	c.mu.Unlock()
}

func bump(c *Counter, n int, wg *sync.WaitGroup) {
	defer wg.Done()
	for i := 0; i < n; i++ {
		c.Add(i)
	}
}

func main() {
	const W, N = %d, %d
	c := &Counter{}
	var wg sync.WaitGroup
	for w := 0; w < W; w++ {
		wg.Add(1)
		go bump(c, N, &wg)
	}
	wg.Wait()
	fmt.Println("count", c.n, "sum", c.sum)
}
`, w, n)}
}

func tProducerConsumer(r *rand.Rand) Tmpl {
	p, n, buf := 1+r.Intn(4), 5+r.Intn(40), r.Intn(4)
	sum := 0
	for q := 0; q < p; q++ {
		for i := 0; i < n; i++ {
			sum += q*1000 + i
		}
	}
	return Tmpl{Name: "producer-consumer", Kind: "prog", Expect: fmt.Sprintf("got %d sum %d\n", p*n, sum), Src: fmt.Sprintf(`package main

import (
	"fmt"
	"sync"
)

func produce(id, n int, out chan<- int, wg *sync.WaitGroup) {
	for i := 0; i < n; i++ {
		out <- id*1000 + i
	}
	wg.Done()
}

func main() {
	const P, N = %d, %d
	ch := make(chan int, %d)
	var wg sync.WaitGroup
	for p := 0; p < P; p++ {
		wg.Add(1)
		go produce(p, N, ch, &wg)
	}
	go func() {
		wg.Wait()
		close(ch)
	}()
	got, sum := 0, 0
	for v := range ch {
		got++
		sum += v
	}
	fmt.Println("got", got, "sum", sum)
}
`, p, n, buf)}
}

func tFanInSlots(r *rand.Rand) Tmpl {
	w, n := 2+r.Intn(8), 10+r.Intn(100)
	var parts []string
	for i := 0; i < w; i++ {
		s := 0
		for k := 0; k < n; k++ {
			s += (i + 1) * k
		}
		parts = append(parts, fmt.Sprint(s))
	}
	return Tmpl{Name: "waitgroup-fan-in", Kind: "prog", Expect: "[" + strings.Join(parts, " ") + "]\n", Src: fmt.Sprintf(`package main

import (
	"fmt"
	"sync"
)

func work(id, n int, res []int, wg *sync.WaitGroup) {
	defer wg.Done()
	s := 0
	for k := 0; k < n; k++ {
		s += (id + 1) * k
	}
	res[id] = s
}

func main() {
	const W, N = %d, %d
	res := make([]int, W)
	var wg sync.WaitGroup
	wg.Add(W)
	for w := 0; w < W; w++ {
		go work(w, N, res, &wg)
	}
	wg.Wait()
	fmt.Println(res)
}
`, w, n)}
}

// closures created in a loop and started as goroutines: each sees its own iteration's variables
func tClosureLoop(r *rand.Rand) Tmpl {
	w := 2 + r.Intn(10)
	var a, b []string
	for i := 0; i < w; i++ {
		a = append(a, fmt.Sprint(i*i+1))
		b = append(b, fmt.Sprint(i*3))
	}
	return Tmpl{Name: "closure-loop", Kind: "prog", Expect: "[" + strings.Join(a, " ") + "]\n[" + strings.Join(b, " ") + "]\n", Src: fmt.Sprintf(`package main

import (
	"fmt"
	"sync"
)

func main() {
	const W = %d
	a := make([]int, W)
	b := make([]int, W)
	var wg sync.WaitGroup
	for i := 0; i < W; i++ {
		x := i*i + 1
		k := i
		wg.Add(2)
		go func() {
			defer wg.Done()
			s := 0
			for j := 0; j < 50; j++ {
				s += j
			}
			a[k] = x + s - s
		}()
		go func(j int) {
			defer wg.Done()
			b[j] = j * 3
		}(i)
	}
	wg.Wait()
	fmt.Println(a)
	fmt.Println(b)
}
`, w)}
}

// the arguments of a go statement are evaluated by the go statement
func tGoArgCopy(r *rand.Rand) Tmpl {
	w := 2 + r.Intn(8)
	var a []string
	for i := 0; i < w; i++ {
		a = append(a, fmt.Sprint(i*7+1))
	}
	return Tmpl{Name: "go-arg-copy", Kind: "prog", Expect: "[" + strings.Join(a, " ") + "]\nid 9999 p {5 6}\n", Src: fmt.Sprintf(`package main

import (
	"fmt"
	"sync"
)

type P struct{ X, Y int }

func worker(slot int, id int, p P, res []int, wg *sync.WaitGroup) {
	s := 0
	for j := 0; j < 30; j++ {
		s += j
	}
	res[slot] = id + p.X - p.X + s - s
	wg.Done()
}

func main() {
	const W = %d
	res := make([]int, W)
	var wg sync.WaitGroup
	id := 0
	p := P{1, 2}
	for k := 0; k < W; k++ {
		id = k*7 + 1
		p.X = k
		wg.Add(1)
		go worker(k, id, p, res, &wg)
		id = -1
		p.X = -5
	}
	id = 9999
	p = P{5, 6}
	wg.Wait()
	fmt.Println(res)
	fmt.Println("id", id, "p", p)
}
`, w)}
}

// a function VALUE (a literal evaluated once) started many times by go statements: call's binary branch,
// "Goroutine's arguments should be copied"
func tGoFuncVar(r *rand.Rand) Tmpl {
	w := 2 + r.Intn(8)
	var a []string
	for i := 0; i < w; i++ {
		a = append(a, fmt.Sprint(i*7+1+i))
	}
	return Tmpl{Name: "go-func-value", Kind: "prog", Expect: "[" + strings.Join(a, " ") + "]\n", Src: fmt.Sprintf(`package main

import (
	"fmt"
	"sync"
)

type P struct{ X, Y int }

func main() {
	const W = %d
	res := make([]int, W)
	var wg sync.WaitGroup
	f := func(slot int, v int, p P) {
		s := 0
		for j := 0; j < 30; j++ {
			s += j
		}
		res[slot] = v + p.X + s - s
		wg.Done()
	}
	x := 0
	p := P{}
	for k := 0; k < W; k++ {
		x = k*7 + 1
		p.X = k
		wg.Add(1)
		go f(k, x, p)
		x = -100
		p.X = -100
	}
	wg.Wait()
	fmt.Println(res)
}
`, w)}
}

// closures made in a loop (each captures its iteration's variable), kept in a slice, run later by goroutines
func tClosureSlice(r *rand.Rand) Tmpl {
	w := 2 + r.Intn(8)
	var a []string
	for i := 0; i < w; i++ {
		a = append(a, fmt.Sprint(i*i+1+10*i))
	}
	return Tmpl{Name: "closure-slice", Kind: "prog", Expect: "[" + strings.Join(a, " ") + "]\n", Src: fmt.Sprintf(`package main

import (
	"fmt"
	"sync"
)

func run(k int, f func(int) int, res []int, wg *sync.WaitGroup) {
	res[k] = f(10)
	wg.Done()
}

func main() {
	const W = %d
	fs := make([]func(int) int, W)
	for i := 0; i < W; i++ {
		x := i*i + 1
		y := i
		fs[i] = func(m int) int { return x + m*y }
	}
	res := make([]int, W)
	var wg sync.WaitGroup
	for i := 0; i < W; i++ {
		wg.Add(1)
		go run(i, fs[i], res, &wg)
	}
	wg.Wait()
	fmt.Println(res)
}
`, w)}
}

// one goroutine multiplexes several channels with select (inside the domain: a single executor)
func tSelectMux(r *rand.Rand) Tmpl {
	n := 5 + r.Intn(40)
	sa, sb := 0, 0
	for i := 0; i < n; i++ {
		sa += i
		sb += 2 * i
	}
	return Tmpl{Name: "select-mux", Kind: "prog", Expect: fmt.Sprintf("a %d b %d n %d\n", sa, sb, 2*n), Src: fmt.Sprintf(`package main

import "fmt"

func feed(n, k int, out chan<- int) {
	for i := 0; i < n; i++ {
		out <- i * k
	}
	close(out)
}

func main() {
	const N = %d
	a := make(chan int)
	b := make(chan int, 3)
	go feed(N, 1, a)
	go feed(N, 2, b)
	sa, sb, n := 0, 0, 0
	for a != nil || b != nil {
		select {
		case v, ok := <-a:
			if !ok {
				a = nil
			} else {
				sa += v
				n++
			}
		case v, ok := <-b:
			if !ok {
				b = nil
			} else {
				sb += v
				n++
			}
		}
	}
	fmt.Println("a", sa, "b", sb, "n", n)
}
`, n)}
}

func tPingPong(r *rand.Rand) Tmpl {
	n := 5 + r.Intn(100)
	return Tmpl{Name: "ping-pong", Kind: "prog", Expect: fmt.Sprintf("last %d\n", 2*n), Src: fmt.Sprintf(`package main

import "fmt"

func player(in <-chan int, out chan<- int, done chan<- bool) {
	for v := range in {
		out <- v + 1
	}
	close(out)
	done <- true
}

func main() {
	const N = %d
	ping := make(chan int)
	pong := make(chan int)
	done := make(chan bool)
	go player(ping, pong, done)
	v := 0
	for i := 0; i < N; i++ {
		ping <- v + 1
		v = <-pong
	}
	close(ping)
	<-done
	fmt.Println("last", v)
}
`, n)}
}

func tParallelFib(r *rand.Rand) Tmpl {
	n := 6 + r.Intn(7)
	fib := func(n int) int {
		a, b := 0, 1
		for i := 0; i < n; i++ {
			a, b = b, a+b
		}
		return a
	}
	return Tmpl{Name: "parallel-fib", Kind: "prog", Expect: fmt.Sprintf("fib %d\n", fib(n)), Src: fmt.Sprintf(`package main

import "fmt"

func fib(n int, out chan<- int) {
	if n < 2 {
		out <- n
		return
	}
	c := make(chan int, 2)
	go fib(n-1, c)
	go fib(n-2, c)
	x := <-c
	y := <-c
	out <- x + y
}

func main() {
	out := make(chan int)
	go fib(%d, out)
	fmt.Println("fib", <-out)
}
`, n)}
}

func tMethodGoroutines(r *rand.Rand) Tmpl {
	w, n := 2+r.Intn(6), 5+r.Intn(50)
	var parts []string
	for i := 0; i < w; i++ {
		parts = append(parts, fmt.Sprint(n*(i+1)))
	}
	return Tmpl{Name: "method-goroutines", Kind: "prog", Expect: strings.Join(parts, " ") + "\n", Src: fmt.Sprintf(`package main

import (
	"fmt"
	"sync"
)

type Acc struct {
	id    int
	total int
	in    chan int
}

func (a *Acc) run(wg *sync.WaitGroup) {
	defer wg.Done()
	for v := range a.in {
		a.total += v * a.id
	}
}

func main() {
	const W, N = %d, %d
	accs := make([]*Acc, W)
	var wg sync.WaitGroup
	for w := 0; w < W; w++ {
		accs[w] = &Acc{id: w + 1, in: make(chan int, 2)}
		wg.Add(1)
		go accs[w].run(&wg)
	}
	for i := 0; i < N; i++ {
		for w := 0; w < W; w++ {
			accs[w].in <- 1
		}
	}
	for w := 0; w < W; w++ {
		close(accs[w].in)
	}
	wg.Wait()
	for w := 0; w < W; w++ {
		if w > 0 {
			fmt.Print(" ")
		}
		fmt.Print(accs[w].total)
	}
	fmt.Println()
}
`, w, n)}
}

// the same work with the receiver passed as an argument of a function literal: inside the domain
func tMethodViaClosure(r *rand.Rand) Tmpl {
	t := tMethodGoroutines(r)
	t.Name, t.Class = "method-via-function", ""
	t.Src = strings.Replace(t.Src, "go accs[w].run(&wg)", "go start(accs[w], &wg)", 1)
	t.Src = strings.Replace(t.Src, "func main() {", "func start(a *Acc, wg *sync.WaitGroup) { a.run(wg) }\n\nfunc main() {", 1)
	return t
}

func tSemaphore(r *rand.Rand) Tmpl {
	w, lim := 4+r.Intn(12), 1+r.Intn(3)
	return Tmpl{Name: "semaphore", Kind: "prog", Expect: fmt.Sprintf("done %d maxok true\n", w), Src: fmt.Sprintf(`package main

import (
	"fmt"
	"sync"
)

type state struct{ cur, max, done int }

func job(id int, sem chan struct{}, mu *sync.Mutex, st *state, wg *sync.WaitGroup) {
	defer wg.Done()
	sem <- struct{}{}
	mu.Lock()
	st.cur++
	if st.cur > st.max {
		st.max = st.cur
	}
	mu.Unlock()
	s := 0
	for j := 0; j < 40; j++ {
		s += j * id
	}
	mu.Lock()
	st.cur--
	st.done++
	mu.Unlock()
	<-sem
}

func main() {
	const W, L = %d, %d
	sem := make(chan struct{}, L)
	var mu sync.Mutex
	var wg sync.WaitGroup
	st := &state{}
	for w := 0; w < W; w++ {
		wg.Add(1)
		go job(w, sem, &mu, st, &wg)
	}
	wg.Wait()
	fmt.Println("done", st.done, "maxok", st.max <= L)
}
`, w, lim)}
}

// one select statement, several goroutines, one SHARED result channel but per-goroutine send values
func tSelectSharedSend(r *rand.Rand) Tmpl {
	w, n := 2+r.Intn(4), 20+r.Intn(100)
	sum := 0
	for i := 0; i < w; i++ {
		sum += (i + 1) * n
	}
	return Tmpl{Name: "select-shared-send", Kind: "prog", Expect: fmt.Sprintf("sum %d n %d\n", sum, w*n), Src: fmt.Sprintf(`package main

import (
	"fmt"
	"sync"
)

func worker(id int, n int, out chan int, quit chan bool, wg *sync.WaitGroup) {
	defer wg.Done()
	v := id + 1
	for i := 0; i < n; i++ {
		select {
		case out <- v:
		case <-quit:
			return
		}
	}
}

func main() {
	const W, N = %d, %d
	out := make(chan int, 8)
	quit := make(chan bool)
	var wg sync.WaitGroup
	for w := 0; w < W; w++ {
		wg.Add(1)
		go worker(w, N, out, quit, &wg)
	}
	go func() {
		wg.Wait()
		close(out)
	}()
	sum, n := 0, 0
	for v := range out {
		sum += v
		n++
	}
	fmt.Println("sum", sum, "n", n)
}
`, w, n)}
}

// go statement on a binary method, argument variable reassigned afterwards (F08-2, repaired: inside the domain)
func tGoBinArgs(r *rand.Rand) Tmpl {
	a, b := 1+r.Intn(50), 100+r.Intn(50)
	return Tmpl{Name: "go-bin-args", Kind: "prog", Expect: fmt.Sprintf("k %d\n", a), Src: fmt.Sprintf(`package main

import (
	"fmt"
	"sync"
)

func main() {
	var m sync.Map
	y := %d
	go m.Store("k", y)
	y = %d
	for {
		if v, ok := m.Load("k"); ok {
			fmt.Println("k", v)
			break
		}
	}
}
`, a, b)}
}

// the same without the reassignment: inside the domain
func tGoBinNoReassign(r *rand.Rand) Tmpl {
	w := 2 + r.Intn(6)
	sum := 0
	for i := 0; i < w; i++ {
		sum += i * 11
	}
	return Tmpl{Name: "go-bin-call", Kind: "prog", Expect: fmt.Sprintf("n %d sum %d\n", w, sum), Src: fmt.Sprintf(`package main

import (
	"fmt"
	"sync"
)

func main() {
	const W = %d
	var m sync.Map
	var wg sync.WaitGroup
	for i := 0; i < W; i++ {
		k, v := i, i*11
		wg.Add(1)
		go func() {
			m.Store(k, v)
			wg.Done()
		}()
	}
	wg.Wait()
	n, sum := 0, 0
	m.Range(func(k, v interface{}) bool {
		n++
		sum += v.(int)
		return true
	})
	fmt.Println("n", n, "sum", sum)
}
`, w)}
}

func tRWMutexMap(r *rand.Rand) Tmpl {
	w, n := 2+r.Intn(5), 10+r.Intn(60)
	return Tmpl{Name: "rwmutex-map", Kind: "prog", Expect: fmt.Sprintf("keys %d total %d\n", n, w*n*(n-1)/2), Src: fmt.Sprintf(`package main

import (
	"fmt"
	"sync"
)

type Store struct {
	mu sync.RWMutex
	m  map[int]int
}

func (s *Store) Add(k, v int) {
	s.mu.Lock()
	s.m[k] += v
	s.mu.Unlock()
}

func (s *Store) Get(k int) int {
	s.mu.RLock()
	defer s.mu.RUnlock()
	return s.m[k]
}

func fill(s *Store, n int, wg *sync.WaitGroup) {
	defer wg.Done()
	for k := 0; k < n; k++ {
		s.Add(k, k)
		_ = s.Get(k)
	}
}

func main() {
	const W, N = %d, %d
	s := &Store{m: map[int]int{}}
	var wg sync.WaitGroup
	for w := 0; w < W; w++ {
		wg.Add(1)
		go fill(s, N, &wg)
	}
	wg.Wait()
	total := 0
	for k := 0; k < N; k++ {
		total += s.Get(k)
	}
	fmt.Println("keys", len(s.m), "total", total)
}
`, w, n)}
}

func tOnceAtomic(r *rand.Rand) Tmpl {
	w, n := 2+r.Intn(8), 10+r.Intn(100)
	return Tmpl{Name: "once-atomic", Kind: "prog", Expect: fmt.Sprintf("inits 1 total %d\n", w*n), Src: fmt.Sprintf(`package main

import (
	"fmt"
	"sync"
	"sync/atomic"
)

var (
	once  sync.Once
	total int64
	inits int
)

func count(n int, wg *sync.WaitGroup) {
	defer wg.Done()
	once.Do(func() { inits++ })
	for i := 0; i < n; i++ {
		atomic.AddInt64(&total, 1)
	}
}

func main() {
	const W, N = %d, %d
	var wg sync.WaitGroup
	for w := 0; w < W; w++ {
		wg.Add(1)
		go count(N, &wg)
	}
	wg.Wait()
	fmt.Println("inits", inits, "total", atomic.LoadInt64(&total))
}
`, w, n)}
}

// goroutines that start goroutines; results through a channel of structs
func tNestedSpawn(r *rand.Rand) Tmpl {
	w, k := 2+r.Intn(4), 2+r.Intn(4)
	sum := 0
	for i := 0; i < w; i++ {
		for j := 0; j < k; j++ {
			sum += i*100 + j
		}
	}
	return Tmpl{Name: "nested-spawn", Kind: "prog", Expect: fmt.Sprintf("n %d sum %d\n", w*k, sum), Src: fmt.Sprintf(`package main

import (
	"fmt"
	"sync"
)

type R struct{ from, val int }

func leaf(i, j int, out chan<- R, wg *sync.WaitGroup) {
	defer wg.Done()
	out <- R{i, i*100 + j}
}

func branch(i, k int, out chan<- R, wg *sync.WaitGroup) {
	defer wg.Done()
	for j := 0; j < k; j++ {
		wg.Add(1)
		go leaf(i, j, out, wg)
	}
}

func main() {
	const W, K = %d, %d
	out := make(chan R, W*K)
	var wg sync.WaitGroup
	for i := 0; i < W; i++ {
		wg.Add(1)
		go branch(i, K, out, &wg)
	}
	wg.Wait()
	close(out)
	n, sum := 0, 0
	for r := range out {
		n++
		sum += r.val
	}
	fmt.Println("n", n, "sum", sum)
}
`, w, k)}
}

func tSelectDefaultPoll(r *rand.Rand) Tmpl {
	n := 3 + r.Intn(30)
	return Tmpl{Name: "select-default-poll", Kind: "prog", Expect: fmt.Sprintf("got %d sum %d\n", n, n*(n-1)/2), Src: fmt.Sprintf(`package main

import (
	"fmt"
	"runtime"
)

func main() {
	const N = %d
	ch := make(chan int, 1)
	go func() {
		for i := 0; i < N; i++ {
			ch <- i
		}
		close(ch)
	}()
	got, sum, idle := 0, 0, 0
	for open := true; open; {
		select {
		case v, ok := <-ch:
			if !ok {
				open = false
			} else {
				got++
				sum += v
			}
		default:
			idle++
			runtime.Gosched()
		}
	}
	fmt.Println("got", got, "sum", sum)
}
`, n)}
}

// One template per channel closure kind (recv, recv2, send, rangeChan, _select): W goroutines run the SAME function,
// each on PRIVATE channels (input filled and closed before the start, output drained by main afterwards); every
// value carries its owner, so a value delivered to or sent by the wrong goroutine is counted. The goroutines call
// verif.Mark right before the statement under test: under the lock-step schedule they execute its closure together.
func privateKind(r *rand.Rand, kind, loop string) Tmpl {
	w, n := 2, 150+r.Intn(400)
	if r.Intn(3) == 0 {
		w = 3 + r.Intn(3)
	}
	var exp strings.Builder
	for i := 0; i < w; i++ {
		fmt.Fprintf(&exp, "worker %d in %d out %d wrong 0\n", i, n, n)
	}
	body := func(imp, stub string) string {
		return fmt.Sprintf(`package main

import (
	"fmt"
	"sync"
%s)
%s
func worker(w int, n int, in chan int, out chan int, res []int, wg *sync.WaitGroup) {
	got, wrong := 0, 0
%s
	res[2*w], res[2*w+1] = got, wrong
	close(out)
	wg.Done()
}

func main() {
	const W, N = %d, %d
	res := make([]int, 2*W)
	ins := make([]chan int, W)
	outs := make([]chan int, W)
	var wg sync.WaitGroup
	for w := 0; w < W; w++ {
		ins[w] = make(chan int, N)
		outs[w] = make(chan int, N)
		for k := 0; k < N; k++ {
			ins[w] <- w*1000000 + k
		}
		close(ins[w])
	}
	for w := 0; w < W; w++ {
		wg.Add(1)
		go worker(w, N, ins[w], outs[w], res, &wg)
	}
	wg.Wait()
	for w := 0; w < W; w++ {
		o := outs[w]
		sent, wrong := 0, res[2*w+1]
		for k := len(o); k > 0; k-- {
			v := <-o
			sent++
			if v/1000000 != w {
				wrong++
			}
		}
		fmt.Println("worker", w, "in", res[2*w], "out", sent, "wrong", wrong)
	}
}
`, imp, stub, loop, w, n)
	}
	return Tmpl{Name: "private-" + kind, Kind: "prog", Expect: exp.String(), Parties: w,
		Src:    body("\t\"verif\"\n", ""),
		RefSrc: body("", "\ntype verifT struct{}\n\nfunc (verifT) Mark(int) {}\n\nvar verif verifT\n")}
}

const countOwn = `		if v/1000000 == w {
			got++
		} else {
			wrong++
		}
`

func tPrivateRecv(r *rand.Rand) Tmpl {
	return privateKind(r, "recv", `	for i := 0; i < n; i++ {
		verif.Mark(w)
		v := <-in
`+countOwn+`		out <- v
	}`)
}

func tPrivateRecv2(r *rand.Rand) Tmpl {
	return privateKind(r, "recv2", `	for {
		verif.Mark(w)
		v, ok := <-in
		if !ok {
			break
		}
`+countOwn+`		out <- v
	}`)
}

func tPrivateSend(r *rand.Rand) Tmpl {
	return privateKind(r, "send", `	for i := 0; i < n; i++ {
		v := <-in
`+countOwn+`		verif.Mark(w)
		out <- v
	}`)
}

func tPrivateRange(r *rand.Rand) Tmpl {
	return privateKind(r, "range", `	verif.Mark(w)
	for v := range in {
`+countOwn+`		out <- v
		verif.Mark(w)
	}`)
}

func tPrivateSelect(r *rand.Rand) Tmpl {
	return privateKind(r, "select", `	for open := true; open; {
		verif.Mark(w)
		select {
		case v, ok := <-in:
			if !ok {
				open = false
			} else {
				if v/1000000 == w {
					got++
				} else {
					wrong++
				}
				verif.Mark(w)
				select {
				case out <- v:
				}
			}
		}
	}`)
}

// the clause forms of F08-1, F08-3, F08-5 (all repaired) executed by several goroutines on private channels:
// two-value assignment with an indexed channel expression, single-value assignment, assignment with an empty body
func tPrivateSelectForms(r *rand.Rand) Tmpl {
	return privateKind(r, "select-forms", `	ins := []chan int{in}
	v, ok, k := 0, false, 0
	for open := true; open; k++ {
		verif.Mark(w)
		switch k % 3 {
		case 0:
			select {
			case v, ok = <-ins[0]:
			}
		case 1:
			ok = len(in) > 0
			if ok {
				select {
				case v = <-in:
					v += 0
				}
			}
		default:
			select {
			case v, ok = <-in:
				v += 0
			}
		}
		if !ok {
			open = false
		} else {
			if v/1000000 == w {
				got++
			} else {
				wrong++
			}
			out <- v
		}
	}`)
}

// the receive forms of F08-7, F08-8, F08-9 (all repaired), executed by several goroutines on private channels:
// non-identifier and blank destinations of single- and two-value receives, as plain statements and as select
// clauses, `return <-c`, and a receive into a variable whose address was taken
func tPrivateRecvForms(r *rand.Rand) Tmpl {
	return privateKind(r, "recv-forms", `	type dst struct {
		v  int
		ok bool
	}
	arr := []int{0, 0}
	oks := []bool{false, false}
	st := dst{}
	ps := &st
	m := map[string]int{}
	ins := []chan int{in}
	take := func(c chan int) int { return <-c }
	x, ok := 0, false
	for i := 0; i < n; i++ {
		verif.Mark(w)
		v, known := 0, true
		switch i % 15 {
		case 0:
			arr[1] = <-in
			v = arr[1]
		case 1:
			st.v = <-in
			v = st.v
		case 2:
			ps.v = <-in
			v = st.v
		case 3:
			arr[0], oks[0] = <-in
			v = arr[0]
		case 4:
			st.v, st.ok = <-in
			v = st.v
		case 5:
			x, _ = <-in
			v = x
		case 6:
			_, ok = <-in
			known = !ok
		case 7:
			select {
			case arr[1], oks[1] = <-in:
			}
			v = arr[1]
		case 8:
			select {
			case st.v, st.ok = <-ins[0]:
				v = st.v
			}
		case 9:
			select {
			case x, _ = <-in:
			}
			v = x
		case 10:
			select {
			case _, ok = <-in:
				known = !ok
			}
		case 11:
			v = take(in)
		case 12:
			p := &x
			x = <-in
			v = *p
		case 13:
			m["k"] = <-in
			v = m["k"]
		default:
			select {
			case arr[1] = <-ins[0]:
			}
			v = arr[1]
		}
		if !known {
			// the value was received into the blank identifier
			got++
			out <- w*1000000 + 999999
			continue
		}
`+countOwn+`		out <- v
	}`)
}

// Spawner loops: the operands of the go statement are variables of REFERENCE kinds (chan, pointer, map, func) declared
// outside the loop and reassigned at each iteration; the go statement evaluates them, so worker w owns channel w,
// slot w, map w and closure w whatever the schedule (on one processor every goroutine starts after the loop). One
// template per arm of the go statement: function literal, function value, method of a script type, declared function,
// host function.
func spawn(r *rand.Rand, arm, decl, stmt string, host bool) Tmpl {
	w := 3 + r.Intn(6)
	var exp strings.Builder
	for i := 0; i < w; i++ {
		fmt.Fprintf(&exp, "%d %d %d %d\n", i, i*100+i, i*100+i+1, i)
	}
	body := func(imp, stub string) string {
		return fmt.Sprintf(`package main

import (
	"fmt"
	"sync"
%s)
%s
type Obj struct{ base int }

func (o *Obj) run(c chan int, p *int, m map[string]int, f func() int, id int, wg *sync.WaitGroup) {
	work(c, p, m, f, id+o.base, wg)
}

func work(c chan int, p *int, m map[string]int, f func() int, id int, wg *sync.WaitGroup) {
	v := f()
	c <- v + id
	*p = v + id + 1
	m["k"] = id
	wg.Done()
}

func main() {
	const W = %d
	chans := make([]chan int, W)
	slots := make([]int, W)
	maps := make([]map[string]int, W)
	var ch chan int
	var p *int
	var m map[string]int
	var f func() int
	var wg sync.WaitGroup
	obj := &Obj{}
	_ = obj
%s
	for w := 0; w < W; w++ {
		ch = make(chan int, W)
		chans[w] = ch
		p = &slots[w]
		m = map[string]int{}
		maps[w] = m
		k := w * 100
		f = func() int { return k }
		wg.Add(1)
		%s
	}
	wg.Wait()
	for w := 0; w < W; w++ {
		got := -1
		if len(chans[w]) == 1 {
			got = <-chans[w]
		}
		fmt.Println(w, got, slots[w], maps[w]["k"])
	}
}
`, imp, stub, w, decl, stmt)
	}
	t := Tmpl{Name: "spawn-" + arm, Kind: "prog", Expect: exp.String(), ForceP1: true}
	if host {
		t.Src = body("\t\"verif\"\n", "")
		t.RefSrc = body("", `
type verifT struct{}

func (verifT) Work(c chan int, p *int, m map[string]int, f func() int, id int, wg *sync.WaitGroup) {
	work(c, p, m, f, id, wg)
}

var verif verifT
`)
	} else {
		t.Src = body("", "")
	}
	return t
}

func tSpawnLit(r *rand.Rand) Tmpl {
	return spawn(r, "literal", "", `go func(c chan int, p *int, m map[string]int, f func() int, id int, wg *sync.WaitGroup) {
			work(c, p, m, f, id, wg)
		}(ch, p, m, f, w, &wg)`, false)
}

func tSpawnFuncValue(r *rand.Rand) Tmpl {
	return spawn(r, "func-value", `	fv := func(c chan int, p *int, m map[string]int, f func() int, id int, wg *sync.WaitGroup) {
		work(c, p, m, f, id, wg)
	}`, `go fv(ch, p, m, f, w, &wg)`, false)
}

func tSpawnMethod(r *rand.Rand) Tmpl {
	return spawn(r, "method", "", `go obj.run(ch, p, m, f, w, &wg)`, false)
}

func tSpawnDeclared(r *rand.Rand) Tmpl {
	return spawn(r, "declared", "", `go work(ch, p, m, f, w, &wg)`, false)
}

func tSpawnHost(r *rand.Rand) Tmpl {
	return spawn(r, "host", "", `go verif.Work(ch, p, m, f, w, &wg)`, true)
}

// a method value of a method with a VALUE receiver that writes to its receiver copy, called twice in a row and then by
// W goroutines: every call works on a receiver variable of its own (the copy bound with the method value is only read)
func tMethodValueCalls(r *rand.Rand) Tmpl {
	w, n := 2+r.Intn(7), 200+r.Intn(1800)
	base := r.Intn(500)
	one := base + n*(n+1)/2
	var parts []string
	for i := 0; i < w; i++ {
		parts = append(parts, fmt.Sprint(one+i))
	}
	return Tmpl{Name: "method-value-calls", Kind: "prog", ForceP1: true,
		Expect: fmt.Sprintf("seq %d %d\n[%s]\nafter %d %d\n", base+55, base+55, strings.Join(parts, " "), base, base+55), Src: fmt.Sprintf(`package main

import (
	"fmt"
	"sync"
)

type Acc struct {
	total int
	pad   [3]int
}

func (a Acc) Sum(n int) int {
	for i := 1; i <= n; i++ {
		a.total += i
		a.pad[i%%3] = a.total
	}
	return a.total + a.pad[0] - a.pad[0]
}

func call(f func(int) int, n int, res []int, k int, wg *sync.WaitGroup) {
	res[k] = f(n) + k
	wg.Done()
}

func main() {
	const W, N = %d, %d
	a := Acc{total: %d}
	sum := a.Sum
	s1 := sum(10)
	s2 := sum(10)
	fmt.Println("seq", s1, s2)
	res := make([]int, W)
	var wg sync.WaitGroup
	for w := 0; w < W; w++ {
		wg.Add(1)
		go call(sum, N, res, w, &wg)
	}
	wg.Wait()
	fmt.Println(res)
	fmt.Println("after", a.total, sum(10))
}
`, w, n, base)}
}

// the same with a function literal whose parameter is a struct it modifies: the parameters of every call are its own
func tFuncValueCalls(r *rand.Rand) Tmpl {
	w, n := 2+r.Intn(7), 200+r.Intn(1800)
	one := n * (n + 1) / 2
	var parts []string
	for i := 0; i < w; i++ {
		parts = append(parts, fmt.Sprint(one+7+i))
	}
	return Tmpl{Name: "func-value-calls", Kind: "prog", ForceP1: true,
		Expect: fmt.Sprintf("seq %d %d\n[%s]\n", 62, 62, strings.Join(parts, " ")), Src: fmt.Sprintf(`package main

import (
	"fmt"
	"sync"
)

type Acc struct{ total int }

func call(f func(Acc, int) int, a Acc, n int, res []int, k int, wg *sync.WaitGroup) {
	res[k] = f(a, n) + k
	wg.Done()
}

func main() {
	const W, N = %d, %d
	sum := func(a Acc, n int) int {
		for i := 1; i <= n; i++ {
			a.total += i
		}
		return a.total
	}
	a := Acc{total: 7}
	fmt.Println("seq", sum(a, 10), sum(a, 10))
	res := make([]int, W)
	var wg sync.WaitGroup
	for w := 0; w < W; w++ {
		wg.Add(1)
		go call(sum, a, N, res, w, &wg)
	}
	wg.Wait()
	fmt.Println(res)
}
`, w, n)}
}

// ---- stream C: one exported function called by N host goroutines ----

var hostTemplates = []func(r *rand.Rand) Tmpl{hPure, hClosure, hInnerGoroutines, hRecursion, hSharedCounter, hSelectInside, hMethodValue}

func hostCommon(name, class, body, final string, r *rand.Rand) Tmpl {
	return Tmpl{Name: name, Class: class, Kind: "host", Src: "package main\n\n" + body, Fn: "F", Final: final, N: 2 + r.Intn(7), Calls: 3 + r.Intn(10)}
}

func hPure(r *rand.Rand) Tmpl {
	return hostCommon("host-pure", "", fmt.Sprintf(`func F(n int) int {
	s := 0
	for i := 0; i < n%%%d+10; i++ {
		s += i * n
		if s > 1000000 {
			s -= 999983
		}
	}
	return s
}
`, 20+r.Intn(60)), "", r)
}

func hClosure(r *rand.Rand) Tmpl {
	return hostCommon("host-closure", "", `func F(n int) int {
	acc := 0
	add := func(v int) { acc += v }
	mul := func(k int) func(int) int { return func(v int) int { return v * k } }
	m := mul(n%7 + 1)
	for i := 0; i < 25; i++ {
		add(m(i))
	}
	return acc + n
}
`, "", r)
}

func hInnerGoroutines(r *rand.Rand) Tmpl {
	return hostCommon("host-inner-goroutines", "", fmt.Sprintf(`func part(lo, hi, n int, out chan<- int) {
	s := 0
	for i := lo; i < hi; i++ {
		s += i * n
	}
	out <- s
}

func F(n int) int {
	const K = %d
	out := make(chan int, K)
	for k := 0; k < K; k++ {
		go part(k*10, k*10+10, n, out)
	}
	s := 0
	for k := 0; k < K; k++ {
		s += <-out
	}
	return s
}
`, 2+r.Intn(4)), "", r)
}

func hRecursion(r *rand.Rand) Tmpl {
	return hostCommon("host-recursion", "", `func g(n, d int) int {
	if d == 0 {
		return n
	}
	x := g(n+1, d-1)
	y := g(n+2, d-1)
	return (x + y) % 1000003
}

func F(n int) int { return g(n, 6) }
`, "", r)
}

func hSharedCounter(r *rand.Rand) Tmpl {
	return hostCommon("host-shared-counter", "", `import "sync"

var (
	mu    sync.Mutex
	calls int
	total int
)

func F(n int) int {
	mu.Lock()
	calls++
	total += n
	mu.Unlock()
	return n * 2
}

func Final() int {
	mu.Lock()
	defer mu.Unlock()
	return calls*1000000 + total%1000000
}
`, "Final", r)
}

// the host calls, from N goroutines, the method VALUE `Shared.Sum` of a package-level variable: a value receiver that
// accumulates into its copy; every call must start from the bound copy
func hMethodValue(r *rand.Rand) Tmpl {
	t := hostCommon("host-method-value", "", fmt.Sprintf(`type Acc struct {
	total int
	pad   [2]int
}

func (a Acc) Sum(n int) int {
	for i := 1; i <= n%%50+20; i++ {
		a.total += i
		a.pad[i%%2] = a.total
	}
	return a.total + n
}

var Shared = Acc{total: %d}
`, r.Intn(1000)), "", r)
	t.Fn = "Shared.Sum"
	return t
}

func hSelectInside(r *rand.Rand) Tmpl {
	return hostCommon("host-select-inside", "", `func F(n int) int {
	a := make(chan int, 1)
	b := make(chan int, 1)
	a <- n
	got := 0
	for i := 0; i < 20; i++ {
		select {
		case v := <-a:
			b <- v + 1
		case v := <-b:
			a <- v + 1
			got = v
		}
	}
	return got
}
`, "", r)
}

// hostRefMain renders the compiled reference of a host case: the same functions plus a main that performs
// the same calls from N goroutines.
func hostRefMain(t Tmpl) string {
	src := t.Src
	imports := map[string]bool{"fmt": true, "sort": true, "sync": true}
	var rest []string
	for _, l := range strings.Split(src, "\n") {
		if strings.HasPrefix(l, "import \"") {
			imports[strings.Trim(strings.TrimPrefix(l, "import "), "\"")] = true
			continue
		}
		if l == "package main" {
			continue
		}
		rest = append(rest, l)
	}
	var names []string
	for k := range imports {
		names = append(names, k)
	}
	sort.Strings(names)
	var b strings.Builder
	b.WriteString("package main\n\nimport (\n")
	for _, n := range names {
		fmt.Fprintf(&b, "\t%q\n", n)
	}
	b.WriteString(")\n")
	b.WriteString(strings.Join(rest, "\n"))
	fmt.Fprintf(&b, `
func main() {
	const G, C = %d, %d
	lines := make([][]string, G)
	var wg sync.WaitGroup
	for g := 0; g < G; g++ {
		wg.Add(1)
		go func(g int) {
			defer wg.Done()
			for k := 0; k < C; k++ {
				arg := g*100 + k
				lines[g] = append(lines[g], fmt.Sprintf("%%d->%%d", arg, HOSTFN(arg)))
			}
		}(g)
	}
	wg.Wait()
	var all []string
	for g := range lines {
		all = append(all, lines[g]...)
	}
	sort.Strings(all)
	for _, l := range all {
		fmt.Println(l)
	}
`, t.N, t.Calls)
	out := strings.Replace(b.String(), "HOSTFN(arg)", t.Fn+"(arg)", 1)
	b.Reset()
	b.WriteString(out)
	if t.Final != "" {
		fmt.Fprintf(&b, "\tfmt.Println(\"final\", %s())\n", t.Final)
	}
	b.WriteString("}\n")
	return b.String()
}
