package main

// Schedules imposed on the real interpreter through the step hook (interp.VerifSetStepHook): the hook runs
// in the goroutine that is about to execute one interpreted operation.
//
//   none      no hook
//   gosched   seeded: runtime.Gosched() before an operation with probability prob/1000
//   delay     seeded: some activations (chosen by a hash of the frame identity) are slow — they yield before
//             every operation and sleep now and then — so that parents run ahead of the goroutines they start
//             or the other way round
//   meet      the script calls verif.Mark(1000+k): at the k-th next operation of the calling goroutine the hook
//             closes the host channel verif.Gate (on which another goroutine of the script waits), waits until
//             that goroutine has called verif.Mark(1) (the last statement of its function literal) and has had
//             time to leave the interpreter, and only then lets the operation run (F08-6 replay)
//   lockstep  the script calls verif.Mark(id) right before a statement; the goroutines that did so meet at a
//             barrier in the hook call that precedes that statement and are released together, so that they
//             execute the statement's closure at the same time on different processors (F08 replay)
//
// gosched and delay must not synchronise the goroutines they perturb (the race detector would see
// happens-before edges that the interpreter does not provide): their state is updated without atomics in
// functions marked go:norace.

import (
	"bytes"
	"runtime"
	"strconv"
	"sync"
	"sync/atomic"
	"time"

	"github.com/traefik/yaegi/interp"
)

type sched struct {
	mode   string
	prob   uint64
	seed   uint64
	steps  int64
	yields int64
	meets  int64

	parties  int32
	mu       sync.Mutex
	marked   map[int64]bool
	arrive   int32
	gen      int32
	disabled int32
	first    int32
	late     int32

	gate      chan bool
	gateOnce  sync.Once
	childDone chan struct{}
	doneOnce  sync.Once
	countdown map[int64]int
}

func newSched(c Case) *sched {
	s := &sched{mode: c.Sched, prob: uint64(c.Prob), seed: uint64(c.Seed)*0x9e3779b97f4a7c15 + 1, parties: int32(c.N), marked: map[int64]bool{},
		gate: make(chan bool), childDone: make(chan struct{}), countdown: map[int64]int{}}
	if s.mode == "" {
		s.mode = "none"
	}
	return s
}

func installHook(s *sched) {
	if s == nil || s.mode == "none" {
		interp.VerifSetStepHook(nil)
		return
	}
	switch s.mode {
	case "gosched":
		interp.VerifSetStepHook(s.hookGosched)
	case "delay":
		interp.VerifSetStepHook(s.hookDelay)
	case "lockstep":
		interp.VerifSetStepHook(s.hookLockstep)
	case "meet":
		interp.VerifSetStepHook(s.hookMeet)
	default:
		interp.VerifSetStepHook(nil)
	}
}

func mix(x uint64) uint64 {
	x += 0x9e3779b97f4a7c15
	x = (x ^ (x >> 30)) * 0xbf58476d1ce4e5b9
	x = (x ^ (x >> 27)) * 0x94d049bb133111eb
	return x ^ (x >> 31)
}

//go:norace
func (s *sched) hookGosched(info interp.VerifStepInfo) {
	s.steps++
	if mix(s.seed^uint64(s.steps)^uint64(info.Frame)<<17)%1000 < s.prob {
		s.yields++
		runtime.Gosched()
	}
}

//go:norace
func (s *sched) hookDelay(info interp.VerifStepInfo) {
	s.steps++
	if mix(s.seed^uint64(info.Frame))%1000 < s.prob {
		s.yields++
		runtime.Gosched()
		if mix(s.seed^uint64(s.steps))%8 == 0 {
			time.Sleep(5 * time.Microsecond)
		}
	}
}

func curGID() int64 {
	var b [64]byte
	n := runtime.Stack(b[:], false)
	s := b[:n]
	s = s[len("goroutine "):]
	i := bytes.IndexByte(s, ' ')
	id, _ := strconv.ParseInt(string(s[:i]), 10, 64)
	return id
}

// mark is called by the script (verif.Mark): the calling goroutine meets the others before its next operation.
func (s *sched) mark(id int) {
	if s.mode == "meet" {
		switch {
		case id >= 1000:
			g := curGID()
			s.mu.Lock()
			s.countdown[g] = id - 1000
			s.mu.Unlock()
		case id == 1:
			s.doneOnce.Do(func() { close(s.childDone) })
		}
		return
	}
	if s.mode != "lockstep" || atomic.LoadInt32(&s.disabled) != 0 {
		return
	}
	g := curGID()
	s.mu.Lock()
	s.marked[g] = true
	s.mu.Unlock()
}

func (s *sched) hookLockstep(info interp.VerifStepInfo) {
	atomic.AddInt64(&s.steps, 1)
	if atomic.LoadInt32(&s.disabled) != 0 {
		return
	}
	g := curGID()
	s.mu.Lock()
	m := s.marked[g]
	if m {
		delete(s.marked, g)
	}
	s.mu.Unlock()
	if !m {
		return
	}
	// the hook call that follows the return of verif.Mark belongs to the call expression itself (the host
	// call is one operation, the hook precedes the NEXT one): meet here
	gen := atomic.LoadInt32(&s.gen)
	if atomic.AddInt32(&s.arrive, 1) == s.parties {
		atomic.StoreInt32(&s.arrive, 0)
		atomic.AddInt64(&s.meets, 1)
		atomic.AddInt32(&s.gen, 1)
		return
	}
	limit := 5 * time.Millisecond
	if atomic.CompareAndSwapInt32(&s.first, 0, 1) {
		limit = 200 * time.Millisecond
	}
	deadline := time.Now().Add(limit)
	for n := 0; atomic.LoadInt32(&s.gen) == gen; n++ {
		if n&1023 == 1023 && time.Now().After(deadline) {
			// the other parties are late (descheduled, or gone for good): withdraw and go on alone
			cur := atomic.LoadInt32(&s.arrive)
			if cur > 0 && atomic.LoadInt32(&s.gen) == gen && atomic.CompareAndSwapInt32(&s.arrive, cur, cur-1) {
				if atomic.AddInt32(&s.late, 1) > 40 {
					atomic.StoreInt32(&s.disabled, 1)
				}
				return
			}
		}
	}
	atomic.StoreInt32(&s.late, 0)
}

func (s *sched) hookMeet(info interp.VerifStepInfo) {
	atomic.AddInt64(&s.steps, 1)
	g := curGID()
	s.mu.Lock()
	n, ok := s.countdown[g]
	if ok {
		if n <= 1 {
			delete(s.countdown, g)
		} else {
			s.countdown[g] = n - 1
		}
	}
	s.mu.Unlock()
	if !ok || n > 1 {
		return
	}
	s.gateOnce.Do(func() { close(s.gate) })
	select {
	case <-s.childDone:
		atomic.AddInt64(&s.meets, 1)
	case <-time.After(2 * time.Second):
	}
	time.Sleep(50 * time.Millisecond)
}
