package main

// Child mode: the harness re-executes itself (`-child`, with GOMAXPROCS in the environment, and — in the
// thorough tier — as a binary built with -race) to run cases on the real interpreter. One JSON case per
// line on stdin, one JSON outcome per line on stdout. A fatal error of the Go runtime (deadlock, concurrent
// map writes, a panic in a goroutine of the script) kills only the child: the parent attributes it to the
// case that was running and restarts.

import (
	"bufio"
	"bytes"
	"context"
	"encoding/json"
	"fmt"
	"os"
	"reflect"
	"runtime"
	"sort"
	"strings"
	"sync"
	"time"

	"github.com/traefik/yaegi/interp"
	"github.com/traefik/yaegi/stdlib"
)

// Case is one run of the real interpreter.
type Case struct {
	ID    int      `json:"id"`
	Kind  string   `json:"kind"`           // prog | host | multi
	Src   string   `json:"src"`            // prog, host: the source; multi: unused
	Srcs  []string `json:"srcs,omitempty"` // multi: one program per interpreter
	Sched string   `json:"sched"`          // none | gosched | delay | lockstep
	Seed  int64    `json:"seed"`
	Prob  int      `json:"prob"`  // gosched / delay: probability in 1/1000 per operation
	N     int      `json:"n"`     // host: goroutines; lockstep: parties
	Calls int      `json:"calls"` // host: calls per goroutine
	Fn    string   `json:"fn"`    // host: exported function main.<Fn> of type func(int) int
	Final string   `json:"final"` // host: optional func() int evaluated at the end (state left behind)
	MS    int      `json:"ms"`    // deadline
}

// Out is what the interpreter did.
type Out struct {
	ID      int      `json:"id"`
	Stdout  string   `json:"stdout"`
	Outs    []string `json:"outs,omitempty"` // multi
	Err     string   `json:"err,omitempty"`
	Crash   string   `json:"crash,omitempty"`
	Timeout bool     `json:"timeout,omitempty"`
	Steps   int64    `json:"steps"`
	Yields  int64    `json:"yields"`
	Meets   int64    `json:"meets,omitempty"` // lockstep: barriers at which all parties met
}

type lockedBuf struct {
	mu sync.Mutex
	b  bytes.Buffer
}

func (l *lockedBuf) Write(p []byte) (int, error) {
	l.mu.Lock()
	defer l.mu.Unlock()
	if l.b.Len() > 1<<20 {
		return len(p), nil
	}
	return l.b.Write(p)
}
func (l *lockedBuf) String() string {
	l.mu.Lock()
	defer l.mu.Unlock()
	return l.b.String()
}

func newInterp(out *lockedBuf, sc *sched) (*interp.Interpreter, error) {
	i := interp.New(interp.Options{Stdout: out, Stderr: out})
	if err := i.Use(symbols()); err != nil {
		return nil, err
	}
	if err := i.Use(interp.Exports{"verif/verif": {
		"Mark": reflect.ValueOf(func(id int) { sc.mark(id) }),
		"Gate": reflect.ValueOf(sc.gate),
		"K":    reflect.ValueOf(int(sc.parties)),
		// a host function started by go statements of the script with operands of reference kinds
		"Work": reflect.ValueOf(func(c chan int, p *int, m map[string]int, f func() int, id int, wg *sync.WaitGroup) {
			v := f()
			c <- v + id
			*p = v + id + 1
			m["k"] = id
			wg.Done()
		}),
	}}); err != nil {
		return nil, err
	}
	return i, nil
}

var (
	symOnce sync.Once
	symSet  interp.Exports
)

// symbols is the part of stdlib.Symbols that the generated programs import (a new interpreter per case
// copies the table it is given: the full table costs a second per case under the race detector).
func symbols() interp.Exports {
	symOnce.Do(func() {
		symSet = interp.Exports{}
		for _, k := range []string{".", "fmt/fmt", "sync/sync", "sync/atomic/atomic", "sort/sort", "runtime/runtime", "time/time",
			"strings/strings", "errors/errors", "os/os", "io/io", "math/math", "strconv/strconv", "context/context"} {
			if v, ok := stdlib.Symbols[k]; ok {
				symSet[k] = v
			}
		}
	})
	return symSet
}

// evalGuarded evaluates src under recover with a deadline.
func evalGuarded(i *interp.Interpreter, src string, d time.Duration) (errs string, crash string, timeout bool) {
	ctx, cancel := context.WithTimeout(context.Background(), d)
	defer cancel()
	type res struct{ err, crash string }
	done := make(chan res, 1)
	go func() {
		var r res
		defer func() {
			if p := recover(); p != nil {
				r.crash = fmt.Sprint(p)
			}
			done <- r
		}()
		if _, err := i.EvalWithContext(ctx, src); err != nil {
			r.err = err.Error()
		}
	}()
	select {
	case r := <-done:
		return r.err, r.crash, ctx.Err() != nil
	case <-time.After(d + 3*time.Second):
		return "harness: the interpreter did not return after cancellation", "", true
	}
}

func runCase(c Case) (o Out) {
	o.ID = c.ID
	d := time.Duration(c.MS) * time.Millisecond
	if d == 0 {
		d = 10 * time.Second
	}
	sc := newSched(c)
	installHook(sc)
	defer installHook(nil)
	defer func() {
		o.Steps, o.Yields, o.Meets = sc.steps, sc.yields, sc.meets
	}()
	switch c.Kind {
	case "prog":
		var buf lockedBuf
		i, err := newInterp(&buf, sc)
		if err != nil {
			o.Err = err.Error()
			return
		}
		o.Err, o.Crash, o.Timeout = evalGuarded(i, c.Src, d)
		o.Stdout = buf.String()
	case "multi":
		outs := make([]string, len(c.Srcs))
		errs := make([]string, len(c.Srcs))
		var wg sync.WaitGroup
		for k := range c.Srcs {
			wg.Add(1)
			go func(k int) {
				defer wg.Done()
				var buf lockedBuf
				i, err := newInterp(&buf, sc)
				if err != nil {
					errs[k] = err.Error()
					return
				}
				e, cr, to := evalGuarded(i, c.Srcs[k], d)
				if cr != "" {
					e = "crash: " + cr
				}
				if to {
					e = "timeout " + e
				}
				errs[k] = e
				outs[k] = buf.String()
			}(k)
		}
		wg.Wait()
		o.Outs = outs
		o.Err = strings.Join(nonEmpty(errs), "; ")
	case "host":
		var buf lockedBuf
		i, err := newInterp(&buf, sc)
		if err != nil {
			o.Err = err.Error()
			return
		}
		o.Err, o.Crash, o.Timeout = evalGuarded(i, c.Src, d)
		if o.Err != "" || o.Crash != "" {
			return
		}
		v, err := i.Eval("main." + c.Fn)
		if err != nil {
			o.Err = err.Error()
			return
		}
		fn, ok := v.Interface().(func(int) int)
		if !ok {
			o.Err = "harness: " + c.Fn + " is not a func(int) int: " + v.Type().String()
			return
		}
		lines := make([][]string, c.N)
		crashes := make([]string, c.N)
		var wg sync.WaitGroup
		doneAll := make(chan struct{})
		for g := 0; g < c.N; g++ {
			wg.Add(1)
			go func(g int) {
				defer wg.Done()
				defer func() {
					if p := recover(); p != nil {
						crashes[g] = fmt.Sprint(p)
					}
				}()
				for k := 0; k < c.Calls; k++ {
					arg := g*100 + k
					lines[g] = append(lines[g], fmt.Sprintf("%d->%d", arg, fn(arg)))
				}
			}(g)
		}
		go func() { wg.Wait(); close(doneAll) }()
		select {
		case <-doneAll:
		case <-time.After(d):
			o.Timeout = true
			o.Stdout = buf.String()
			return
		}
		var all []string
		for g := range lines {
			all = append(all, lines[g]...)
		}
		sort.Strings(all)
		if cs := nonEmpty(crashes); len(cs) > 0 {
			o.Crash = strings.Join(cs, "; ")
		}
		res := buf.String() + strings.Join(all, "\n") + "\n"
		if c.Final != "" {
			v, err := i.Eval("main." + c.Final + "()")
			if err != nil {
				o.Err = err.Error()
			} else {
				res += fmt.Sprintf("final %v\n", v.Interface())
			}
		}
		o.Stdout = res
	default:
		o.Err = "harness: unknown case kind " + c.Kind
	}
	return
}

func nonEmpty(xs []string) []string {
	var out []string
	for _, x := range xs {
		if x != "" {
			out = append(out, x)
		}
	}
	return out
}

func childMain() {
	in := bufio.NewReaderSize(os.Stdin, 1<<20)
	w := bufio.NewWriter(os.Stdout)
	for {
		line, err := in.ReadBytes('\n')
		if len(bytes.TrimSpace(line)) > 0 {
			var c Case
			if e := json.Unmarshal(line, &c); e != nil {
				fmt.Fprintln(os.Stderr, "child: bad case:", e)
				os.Exit(3)
			}
			fmt.Fprintf(os.Stderr, "@@case %d begin\n", c.ID)
			o := runCase(c)
			// let goroutines that the case left behind finish reporting
			runtime.Gosched()
			fmt.Fprintf(os.Stderr, "@@case %d end\n", c.ID)
			b, _ := json.Marshal(o)
			w.Write(b)
			w.WriteByte('\n')
			w.Flush()
		}
		if err != nil {
			return
		}
	}
}
