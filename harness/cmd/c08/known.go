package main

// Replays: the listed findings (KNOWN_FINDINGS.json) are re-run first on the real interpreter against the
// compiled program; `./check C08 --replay file` re-runs the input of a reported violation.

import (
	"encoding/json"
	"fmt"
	"os"
	"strings"
	"time"

	"verif/harness/common"
)

type knownReplay struct {
	Kind     string `json:"kind"` // prog
	Class    string `json:"class"`
	Src      string `json:"src"` // what the interpreter evaluates
	Ref      string `json:"ref"` // what the toolchain compiles ("" = Src)
	P        int    `json:"gomaxprocs"`
	Sched    string `json:"sched"`
	N        int    `json:"parties,omitempty"`
	Attempts int    `json:"attempts"`
	MS       int    `json:"ms"`
	Model    string `json:"model,omitempty"` // arguments of the driver's xtalk command: the model must show cross-talk (x=1)
}

func known(run *common.Run, drv *common.Driver) {
	fs, err := common.LoadFindings("C08")
	if err != nil {
		run.Errorf("known findings: %v", err)
		return
	}
	self, _ := os.Executable()
	for _, f := range fs {
		var kr knownReplay
		if err := json.Unmarshal(f.Replay, &kr); err != nil || kr.Src == "" {
			run.Errorf("finding %s has no usable replay: %v", f.ID, err)
			continue
		}
		ref := kr.Ref
		if ref == "" {
			ref = kr.Src
		}
		refs, err := common.RunGoBatch([]string{ref}, 30*time.Second)
		if err != nil || refs[0].CompileErr != "" || refs[0].Exit != 0 || refs[0].Timeout {
			run.Errorf("finding %s: the reference program does not run: %v %s", f.ID, err, refs[0].CompileErr+refs[0].Stderr)
			continue
		}
		want := refs[0].Stdout
		fails, detail := false, ""
		att := kr.Attempts
		if att == 0 {
			att = 1
		}
		ms := kr.MS
		if ms == 0 {
			ms = 10000
		}
		for a := 0; a < att && !fails; a++ {
			P, n := kr.P, kr.N
			if a > 0 && kr.Sched == "lockstep" {
				P = []int{4, 8, 2, 6}[a%4]
			}
			if kr.Sched == "meet" {
				// the meeting point is counted in interpreted operations after verif.Mark: try the recorded
				// distance first, then its neighbours
				n = []int{kr.N, kr.N + 1, kr.N - 1, kr.N + 2, kr.N - 2, kr.N + 3, kr.N - 3, kr.N + 4}[a%8]
			}
			out, died, _ := runOne(self, Case{ID: 1, Kind: "prog", Src: kr.Src, Sched: kr.Sched, N: n, MS: ms}, P, false)
			got := implOutcome(&job{out: out, died: died})
			if got != want {
				fails = true
				detail = fmt.Sprintf("GOMAXPROCS=%d %s attempt %d: interpreter %q, compiled %q", P, kr.Sched, a+1, trunc(got, 300), trunc(want, 300))
			}
		}
		if kr.Model != "" {
			// a listed finding: the model must exhibit the cross-talk; a fixed one: it must not any more
			want := "1"
			if f.Status != "finding" {
				want = "0"
			}
			ans, err := drv.Ask("C08 xtalk " + kr.Model)
			if err != nil || common.Fields(ans)["x"] != want {
				run.Errorf("finding %s (%s): the model's answer on the replay's model program is not x=%s: %s %v", f.ID, f.Status, want, ans, err)
			} else {
				detail += " | model: " + ans
			}
		}
		run.Res.Known = append(run.Res.Known, common.KnownReplay{ID: f.ID, Status: f.Status, What: f.What, StillFails: fails, Detail: detail})
		run.Count("known:"+f.ID, true)
		run.Hit("known-replays")
	}
}

func replayFile(run *common.Run, drv *common.Driver) {
	b, err := os.ReadFile(run.Replay)
	if err != nil {
		run.Errorf("replay: %v", err)
		return
	}
	var rf struct {
		Class string      `json:"class"`
		Input replayInput `json:"input"`
	}
	if err := json.Unmarshal(b, &rf); err != nil || rf.Input.Case == nil {
		run.Errorf("replay: the file holds no runnable input (%v)", err)
		return
	}
	in := rf.Input
	srcs := []string{in.Ref}
	if in.Stream == "D" {
		srcs = in.Refs
	}
	refs, err := common.RunGoBatch(srcs, 30*time.Second)
	if err != nil {
		run.Errorf("replay: reference: %v", err)
		return
	}
	bin, _ := os.Executable()
	if in.Race {
		rb, note := buildRace()
		if rb == "" {
			run.Errorf("replay: %s", note)
			return
		}
		defer os.Remove(rb)
		bin = rb
	}
	for attempt := 0; attempt < 5; attempt++ {
		out, died, races := runOne(bin, *in.Case, in.P, in.Race)
		j := &job{out: out, died: died, c: *in.Case, P: in.P, race: in.Race}
		impl := implOutcome(j)
		run.Count(fmt.Sprintf("replay-%d", attempt), true)
		for _, r := range races {
			if r.Interp {
				run.Disagree(common.Disagreement{Kind: "impl-vs-ref", Input: in, Impl: "DATA RACE " + r.Top, Ref: "no data race in the interpreter's own state", Note: trunc(r.Text, 1800)})
				return
			}
		}
		bad := false
		switch in.Stream {
		case "A":
			ref := canonGo(refs[0].Stdout, in.NActs, in.NChans)
			got := impl
			if out != nil && died == "" && out.Crash == "" && !out.Timeout && out.Err == "" {
				got = canonGo(out.Stdout, in.NActs, in.NChans)
			}
			bad = got != ref
			impl = got
		case "D":
			if out == nil || len(out.Outs) != len(refs) || out.Err != "" {
				bad = true
			} else {
				for k := range refs {
					if out.Outs[k] != refs[k].Stdout {
						bad = true
					}
				}
				impl = strings.Join(out.Outs, "\x1e")
			}
		default:
			bad = impl != refs[0].Stdout
		}
		if bad {
			run.Disagree(common.Disagreement{Kind: "impl-vs-ref", Input: in, Impl: trunc(impl, 1500), Ref: trunc(refs[0].Stdout, 1500), Finding: ""})
			return
		}
	}
}
