// harness-C08: concurrent execution is correct and free of interpreter-induced races.
//
// What is compared (see props/C08.json):
//
//	stream A  programs of the Lean model's language (Model/Conc.lean): real interpreter (goroutines, under seeded
//	          schedules imposed through the step hook, several GOMAXPROCS) = Lean model with the extracted
//	          closure-write table (y) ; Lean model with the empty table (g) = compiled Go;
//	stream B  concurrent program templates of the property: interpreter = compiled Go = sequential expectation;
//	stream C  N host goroutines calling one exported script function: results = compiled Go;
//	stream D  N interpreters evaluating programs in parallel in one process: each = compiled Go;
//	race      (thorough) the same cases on a copy of this harness built with -race: every race report whose
//	          stacks lie in package interp is a disagreement (class of the input, or a violation).
//
// The interpreter runs in child processes of this binary (child.go), one per GOMAXPROCS value.
package main

import (
	"bufio"
	"bytes"
	"crypto/sha256"
	"encoding/json"
	"fmt"
	"io"
	"math/rand"
	"os"
	"os/exec"
	"path/filepath"
	"regexp"
	"sort"
	"strings"
	"sync"
	"sync/atomic"
	"time"

	"verif/harness/common"
)

type cfg struct {
	P     int
	Sched string
	Prob  int
}

// item is one program with its reference and its cases.
type item struct {
	Stream     string // A | B | C | D
	Name       string
	Class      string
	Tmpl       *Tmpl
	Model      *MProg
	Ref        string   // source of the compiled reference
	Refs       []string // D: one per interpreter
	refIdx     []int    // indices into the batch
	Expect     string
	Lean       string // A: driver answer
	Multi      []*item
	Goroutines int
}

type job struct {
	it    *item
	c     Case
	P     int
	race  bool
	out   *Out
	died  string
	races []raceReport
}

type raceReport struct {
	Text   string
	Interp bool
	Select bool
	Top    string
}

func main() {
	for _, a := range os.Args[1:] {
		if a == "-child" {
			childMain()
			return
		}
	}
	run := common.NewRun("C08")
	run.Res.Rule = "stream A: seeded programs of the model language (private-channel workers with loops/selects whose ready case is fixed by static buffer occupancy; Kahn pipelines) x (GOMAXPROCS, hook schedule, seed); streams B-D: 20 concurrent templates + 6 exported-function templates + groups of interpreters with seeded sizes x the same configurations. A case is one (program, configuration); distinct = distinct (source, configuration); non-trivial = at least two goroutines (or host goroutines / interpreters) run interpreted code concurrently"
	run.Res.Extra = map[string]interface{}{}
	defer run.Finish()

	drv, err := common.StartDriver("C08")
	if err != nil {
		run.Errorf("cannot start the Lean driver: %v", err)
		return
	}
	defer drv.Close()
	facts, _ := drv.Ask("C08 facts")
	run.Res.Extra["model_facts"] = facts

	if run.Replay != "" {
		replayFile(run, drv)
		return
	}
	known(run, drv)

	thorough := run.Thorough()
	nA, nBrounds, nCrounds, nD := 150, 4, 3, 8
	cfgsPer := 3
	if thorough {
		nA, nBrounds, nCrounds, nD = 1500, 30, 20, 80
		cfgsPer = 5
	}
	allCfgs := []cfg{{1, "none", 0}, {4, "none", 0}, {4, "gosched", 150}, {2, "delay", 300}, {8, "gosched", 40}, {1, "gosched", 300},
		{2, "gosched", 500}, {8, "delay", 200}, {4, "delay", 500}, {2, "none", 0}, {8, "none", 0}}

	// ---- generate
	var items []*item
	for k := 0; k < nA; k++ {
		var p *MProg
		switch {
		case k%4 == 3:
			p = genPipeline(run.Rng, 2+run.Rng.Intn(3))
		case k%4 == 2:
			p = genPrivate(run.Rng, 1+run.Rng.Intn(4), true)
		case k%4 == 1:
			p = genPrivate(run.Rng, 2+run.Rng.Intn(3), true)
		default:
			p = genPrivate(run.Rng, 2+run.Rng.Intn(3), false)
		}
		p.Spawn = []string{"", "fv", "lit"}[run.Rng.Intn(3)]
		it := &item{Stream: "A", Name: "model-" + p.Family, Model: p, Ref: p.Go(), Goroutines: len(p.Acts)}
		items = append(items, it)
	}
	for round := 0; round < nBrounds; round++ {
		for _, t := range templates {
			tm := t(run.Rng)
			ref := tm.Src
			if tm.RefSrc != "" {
				ref = tm.RefSrc
			}
			items = append(items, &item{Stream: "B", Name: tm.Name, Class: tm.Class, Tmpl: &tm, Ref: ref, Expect: tm.Expect, Goroutines: 2})
		}
	}
	for round := 0; round < nCrounds; round++ {
		for _, t := range hostTemplates {
			tm := t(run.Rng)
			items = append(items, &item{Stream: "C", Name: tm.Name, Class: tm.Class, Tmpl: &tm, Ref: hostRefMain(tm), Goroutines: tm.N})
		}
	}
	// D: groups of in-domain programs evaluated by parallel interpreters
	var pool []*item
	for _, it := range items {
		if it.Class == "" && it.Stream != "C" {
			pool = append(pool, it)
		}
	}
	for k := 0; k < nD && len(pool) > 0; k++ {
		g := &item{Stream: "D", Name: "multi-interp", Goroutines: 2}
		for j := 2 + run.Rng.Intn(5); j > 0; j-- {
			g.Multi = append(g.Multi, pool[run.Rng.Intn(len(pool))])
		}
		items = append(items, g)
	}

	// ---- the Lean side of stream A
	var lines []string
	var aItems []*item
	for _, it := range items {
		if it.Stream == "A" {
			lines = append(lines, fmt.Sprintf("C08 run %s %d %d", it.Model.Lean(), run.Rng.Intn(1<<30), 40+run.Rng.Intn(200)))
			aItems = append(aItems, it)
		}
	}
	answers, err := drv.AskAll(lines)
	if err != nil {
		run.Errorf("Lean driver: %v", err)
		return
	}
	for i, it := range aItems {
		it.Lean = answers[i]
	}

	// ---- reference: one batch of compiled programs
	var progs []string
	for _, it := range items {
		if it.Stream == "D" {
			continue
		}
		it.refIdx = []int{len(progs)}
		progs = append(progs, it.Ref)
	}
	t0 := time.Now()
	refs, err := common.RunGoBatch(progs, 30*time.Second)
	if err != nil {
		run.Errorf("compiled-Go reference: %v", err)
		return
	}
	run.Res.Extra["ref_seconds"] = int(time.Since(t0).Seconds())
	refOut := func(it *item) string {
		r := refs[it.refIdx[0]]
		switch {
		case r.CompileErr != "":
			return "compile-error: " + common.FirstLine(r.CompileErr)
		case r.Timeout:
			return "timeout"
		case r.Exit != 0:
			return fmt.Sprintf("exit %d: %s %s", r.Exit, r.Panic(), common.FirstLine(r.Stderr))
		}
		return r.Stdout
	}

	// ---- validate the spec side first: g = compiled Go (A), expectation = compiled Go (B)
	for _, it := range items {
		switch it.Stream {
		case "A":
			f := common.Fields(it.Lean)
			g, all := canonLean(f["g"])
			ref := canonGo(refOut(it), len(it.Model.Acts), len(it.Model.Heap))
			if !all || g != ref {
				run.Disagree(common.Disagreement{Kind: "spec-vs-ref", Input: inputOf(it, nil), Spec: f["g"], Ref: refOut(it), Note: "model with the empty closure-write table vs compiled Go"})
			}
			if f["d"] != "1" {
				// the regenerated closure-write table is not empty (closurewrites_tie is broken): reported once
				if run.Res.Extra["table_not_empty"] == nil {
					run.Res.Extra["table_not_empty"] = it.Lean
					run.Errorf("model: a statement kind of the program shares its operand variables (the regenerated closure-write table is not empty), first: %s", trunc(it.Lean, 300))
				}
			} else {
				// the theorems, observed: y = g, and for the private family every trace is the solo trace
				if f["y"] != f["g"] {
					run.Errorf("model: y differs from g inside the proved domain: %s", it.Lean)
				}
				if it.Model.Family == "private" {
					y, _ := canonLean(f["y"])
					if strings.SplitN(y, "~", 2)[0] != f["s"] {
						run.Errorf("model: trace differs from solo trace with private channels: %s", it.Lean)
					}
				}
			}
			if f["x"] == "1" {
				run.Hit("model:random-schedule-crosstalk")
			}
		case "B":
			if it.Expect != "" && refOut(it) != it.Expect {
				run.Disagree(common.Disagreement{Kind: "spec-vs-ref", Input: inputOf(it, nil), Spec: it.Expect, Ref: refOut(it), Note: "sequential expectation vs compiled Go"})
			}
		}
	}

	// ---- cases on the real interpreter
	var jobs []*job
	id := 0
	for _, it := range items {
		perm := run.Rng.Perm(len(allCfgs))
		n := cfgsPer
		if it.Stream == "D" {
			n = 2
		}
		for k := 0; k < n; k++ {
			cf := allCfgs[perm[k]]
			if k == 0 {
				cf = allCfgs[1] // every program runs at least once plainly on 4 processors
			}
			c := Case{ID: id, Sched: cf.Sched, Prob: cf.Prob, Seed: run.Rng.Int63(), MS: 12000}
			if it.Class != "" {
				c.MS = 5000 // outside the domain a dead-lock is a possible outcome
			}
			if it.Tmpl != nil && it.Tmpl.ForceP1 && k == 1 {
				// on one processor the goroutines start after the spawning loop has finished
				cf = cfg{1, "none", 0}
				c.Sched, c.Prob = "none", 0
			}
			if it.Model != nil && it.Model.Spawn != "" && k == 1 {
				cf = cfg{1, "none", 0}
				c.Sched, c.Prob = "none", 0
			}
			if it.Tmpl != nil && it.Tmpl.Parties > 0 && k == 0 {
				// the goroutines meet before every execution of the statement under test
				c.Sched, c.Prob, c.N = "lockstep", 0, it.Tmpl.Parties
				cf.P = 4
				if it.Tmpl.Parties > 3 {
					cf.P = 8
				}
			}
			id++
			switch it.Stream {
			case "A":
				c.Kind, c.Src = "prog", it.Ref
			case "B":
				c.Kind, c.Src = "prog", it.Tmpl.Src
			case "C":
				c.Kind, c.Src, c.Fn, c.Final, c.N, c.Calls = "host", it.Tmpl.Src, it.Tmpl.Fn, it.Tmpl.Final, it.Tmpl.N, it.Tmpl.Calls
			case "D":
				c.Kind = "multi"
				for _, m := range it.Multi {
					c.Srcs = append(c.Srcs, srcOf(m))
				}
			}
			jobs = append(jobs, &job{it: it, c: c, P: cf.P})
		}
	}
	self, _ := os.Executable()
	t0 = time.Now()
	runJobs(run, self, jobs, false)
	run.Res.Extra["interp_seconds"] = int(time.Since(t0).Seconds())

	// ---- race detector (thorough): the same programs, plain and yielding schedules
	var raceJobs []*job
	if thorough {
		bin, note := buildRace()
		run.Res.Extra["race_build"] = note
		if bin == "" {
			run.Errorf("race tier unavailable: %s", note)
		} else {
			defer os.Remove(bin)
			seen := map[*item]int{}
			for k := len(jobs) - 1; k >= 0; k-- {
				j := jobs[k]
				if seen[j.it] >= 1 || (j.it.Stream == "A" && j.c.ID%3 != 0) {
					continue
				}
				seen[j.it]++
				c := j.c
				c.ID = id
				id++
				c.MS = 60000
				if j.it.Class != "" {
					c.MS = 8000
				}
				if c.Sched == "delay" {
					c.Sched = "gosched"
				}
				P := j.P
				if P == 1 {
					P = 4
				}
				raceJobs = append(raceJobs, &job{it: j.it, c: c, P: P, race: true})
			}
			t0 = time.Now()
			runJobs(run, bin, raceJobs, true)
			run.Res.Extra["race_seconds"] = int(time.Since(t0).Seconds())
			run.Res.Extra["race_cases"] = len(raceJobs)
		}
	}

	// ---- compare
	for _, j := range append(jobs, raceJobs...) {
		judge(run, j, refOut)
	}
}

func srcOf(it *item) string {
	if it.Tmpl != nil {
		return it.Tmpl.Src
	}
	return it.Ref
}

func implOutcome(j *job) string {
	switch {
	case j.died != "":
		return "crash: " + j.died
	case j.out == nil:
		return "no-outcome"
	case j.out.Crash != "":
		return "crash: " + common.FirstLine(j.out.Crash)
	case j.out.Timeout:
		return "timeout (output so far: " + j.out.Stdout + ")"
	case j.out.Err != "":
		return "error: " + common.FirstLine(j.out.Err) + " | " + j.out.Stdout
	}
	return j.out.Stdout
}

type replayInput struct {
	Stream string   `json:"stream"`
	Name   string   `json:"name"`
	Class  string   `json:"class"`
	Case   *Case    `json:"case,omitempty"`
	P      int      `json:"gomaxprocs,omitempty"`
	Race   bool     `json:"race,omitempty"`
	Ref    string   `json:"ref_source"`
	Refs   []string `json:"ref_sources,omitempty"`
	Model  string   `json:"model,omitempty"`
	Expect string   `json:"expect,omitempty"`
	NActs  int      `json:"nacts,omitempty"`
	NChans int      `json:"nchans,omitempty"`
}

func inputOf(it *item, j *job) replayInput {
	in := replayInput{Stream: it.Stream, Name: it.Name, Class: it.Class, Ref: it.Ref, Expect: it.Expect}
	if it.Model != nil {
		in.Model = it.Model.Lean()
		in.NActs, in.NChans = len(it.Model.Acts), len(it.Model.Heap)
	}
	for _, m := range it.Multi {
		in.Refs = append(in.Refs, m.Ref)
	}
	if j != nil {
		c := j.c
		in.Case, in.P, in.Race = &c, j.P, j.race
	}
	return in
}

func judge(run *common.Run, j *job, refOut func(*item) string) {
	it := j.it
	h := sha256.Sum256([]byte(fmt.Sprintf("%s|%s|%v|%d|%s|%d|%v", j.c.Src, strings.Join(j.c.Srcs, "\x00"), j.race, j.P, j.c.Sched, j.c.Prob, j.c.N)))
	run.Count(fmt.Sprintf("%x", h[:12]), it.Goroutines >= 2)
	tag := ""
	if j.race {
		tag = "race:"
	}
	run.Hit(tag + "stream:" + it.Stream)
	run.Hit(tag + "template:" + it.Name)
	run.Hit(fmt.Sprintf("%sconfig:P%d/%s", tag, j.P, j.c.Sched))
	if it.Class != "" {
		run.Hit(tag + "class:" + it.Class)
	} else {
		run.Hit(tag + "class:in-domain")
	}
	if j.out != nil {
		run.Res.Distribution["interpreted-operations(hooked)"] += int(j.out.Steps)
		run.Res.Distribution["injected-yields"] += int(j.out.Yields)
	}
	impl := implOutcome(j)
	run.Sample(map[string]interface{}{"stream": it.Stream, "name": it.Name, "class": it.Class, "gomaxprocs": j.P, "sched": j.c.Sched, "race": j.race,
		"impl": trunc(impl, 200), "model": trunc(it.Lean, 200)}, 8)

	// race reports attributed to the case
	for _, r := range j.races {
		if !r.Interp {
			run.Hit("race:report-outside-interp")
			if l, _ := run.Res.Extra["race_reports_outside_interp_samples"].([]string); len(l) < 3 {
				run.Res.Extra["race_reports_outside_interp_samples"] = append(l, it.Name+": "+trunc(r.Text, 700))
			}
			continue
		}
		run.Hit("race:report-in-interp")
		// outside the domain the report is one more observation of the class's defect
		finding := it.Class
		run.Disagree(common.Disagreement{Kind: "impl-vs-ref", Input: inputOf(it, j), Impl: "DATA RACE " + r.Top, Ref: "no data race in the interpreter's own state",
			Finding: finding, Note: trunc(r.Text, 1800)})
	}

	switch it.Stream {
	case "A":
		f := common.Fields(it.Lean)
		ref := canonGo(refOut(it), len(it.Model.Acts), len(it.Model.Heap))
		got := impl
		if j.died == "" && j.out != nil && j.out.Crash == "" && !j.out.Timeout && j.out.Err == "" {
			got = canonGo(j.out.Stdout, len(it.Model.Acts), len(it.Model.Heap))
		}
		y, _ := canonLean(f["y"])
		if it.Class == "" {
			if got != y {
				run.Disagree(common.Disagreement{Kind: "impl-vs-model", Input: inputOf(it, j), Impl: got, Model: y, Ref: ref})
			}
			if got != ref {
				run.Disagree(common.Disagreement{Kind: "impl-vs-ref", Input: inputOf(it, j), Impl: got, Ref: ref, Model: y})
			}
		} else if got != ref {
			// outside the domain: the model says cross-talk is possible (xtalk), the run showed one
			run.Disagree(common.Disagreement{Kind: "impl-vs-ref", Input: inputOf(it, j), Impl: got, Ref: ref, Model: y, Finding: it.Class})
		}
	case "B", "C":
		ref := refOut(it)
		if impl != ref {
			run.Disagree(common.Disagreement{Kind: "impl-vs-ref", Input: inputOf(it, j), Impl: trunc(impl, 1500), Ref: trunc(ref, 1500), Finding: it.Class})
		}
	case "D":
		bad := false
		var want, got []string
		for k, m := range it.Multi {
			want = append(want, refOut(m))
			if j.out != nil && k < len(j.out.Outs) {
				got = append(got, j.out.Outs[k])
			}
		}
		if j.died != "" || j.out == nil || j.out.Err != "" || len(got) != len(want) {
			bad = true
		} else {
			for k := range want {
				if want[k] != got[k] {
					bad = true
				}
			}
		}
		if bad {
			run.Disagree(common.Disagreement{Kind: "impl-vs-ref", Input: inputOf(it, j), Impl: trunc(impl+strings.Join(got, "\x1e"), 1500), Ref: trunc(strings.Join(want, "\x1e"), 1500)})
		}
	}
}

func trunc(s string, n int) string {
	if len(s) > n {
		return s[:n] + "…"
	}
	return s
}

// ---- child processes ----

type child struct {
	cmd    *exec.Cmd
	in     io.WriteCloser
	lines  chan []byte
	stderr *lockedBuf
	dead   chan struct{}
}

func startChild(bin string, P int, race bool) (*child, error) {
	cmd := exec.Command(bin, "-child")
	cmd.Env = append(os.Environ(), fmt.Sprintf("GOMAXPROCS=%d", P), "GOMEMLIMIT=2GiB", "GOTRACEBACK=single")
	if race {
		cmd.Env = append(cmd.Env, "GORACE=halt_on_error=0 atexit_sleep_ms=0 history_size=2")
	}
	in, err := cmd.StdinPipe()
	if err != nil {
		return nil, err
	}
	out, err := cmd.StdoutPipe()
	if err != nil {
		return nil, err
	}
	c := &child{cmd: cmd, in: in, lines: make(chan []byte, 4), stderr: &lockedBuf{}, dead: make(chan struct{})}
	cmd.Stderr = &capBuf{b: c.stderr, max: 8 << 20}
	if err := cmd.Start(); err != nil {
		return nil, err
	}
	go func() {
		r := bufio.NewReaderSize(out, 1<<20)
		for {
			l, err := r.ReadBytes('\n')
			if len(l) > 0 {
				c.lines <- l
			}
			if err != nil {
				break
			}
		}
		cmd.Wait()
		close(c.dead)
	}()
	return c, nil
}

type capBuf struct {
	b   *lockedBuf
	max int
}

func (c *capBuf) Write(p []byte) (int, error) { return c.b.Write(p) }

func (c *child) kill() {
	c.in.Close()
	c.cmd.Process.Kill()
	<-c.dead
}

// runJobs runs the jobs in child processes: one child per (GOMAXPROCS value, shard), a few children at a time.
func runJobs(run *common.Run, bin string, jobs []*job, race bool) {
	groups := map[int][]*job{}
	for _, j := range jobs {
		groups[j.P] = append(groups[j.P], j)
	}
	type shard struct {
		P  int
		js []*job
	}
	var shards []shard
	per := 120
	if race {
		per = 40
	}
	for P, js := range groups {
		for len(js) > 0 {
			n := per
			if n > len(js) {
				n = len(js)
			}
			shards = append(shards, shard{P, js[:n]})
			js = js[n:]
		}
	}
	sort.Slice(shards, func(a, b int) bool {
		if len(shards[a].js) != len(shards[b].js) {
			return len(shards[a].js) > len(shards[b].js)
		}
		return shards[a].js[0].c.ID < shards[b].js[0].c.ID
	})
	var wg sync.WaitGroup
	sem := make(chan struct{}, 4)
	var mu sync.Mutex
	// when the interpreter under test dead-locks on many cases (a broken repository), the deadlines add up: after two
	// minutes of accumulated timeouts the remaining cases get a short deadline (never reached on a healthy tree)
	var lost int64
	for _, sh := range shards {
		wg.Add(1)
		go func(P int, js []*job) {
			defer wg.Done()
			sem <- struct{}{}
			defer func() { <-sem }()
			var c *child
			var stderrAll bytes.Buffer
			flush := func() {
				if c != nil {
					c.in.Close()
					select {
					case <-c.dead:
					case <-time.After(10 * time.Second):
						c.cmd.Process.Kill()
						<-c.dead
					}
					stderrAll.WriteString(c.stderr.String())
					c = nil
				}
			}
			for _, j := range js {
				if c == nil {
					var err error
					c, err = startChild(bin, P, race)
					if err != nil {
						mu.Lock()
						run.Errorf("cannot start a child process: %v", err)
						mu.Unlock()
						return
					}
				}
				if atomic.LoadInt64(&lost) > 120000 && j.c.MS > 1500 {
					j.c.MS = 1500
				}
				b, _ := json.Marshal(j.c)
				if _, err := c.in.Write(append(b, '\n')); err != nil {
					j.died = "child process gone before the case: " + tail(c.stderr.String(), 300)
					c.kill()
					stderrAll.WriteString(c.stderr.String())
					c = nil
					continue
				}
				limit := time.Duration(j.c.MS)*time.Millisecond + 25*time.Second
				select {
				case l := <-c.lines:
					var o Out
					if err := json.Unmarshal(l, &o); err != nil || o.ID != j.c.ID {
						j.died = "bad answer from the child: " + trunc(string(l), 200)
					} else {
						j.out = &o
						if o.Timeout {
							// goroutines of a dead-locked script stay behind: start afresh
							atomic.AddInt64(&lost, int64(j.c.MS))
							flush()
						}
					}
				case <-c.dead:
					j.died = "the process died: " + fatalLine(c.stderr.String())
					stderrAll.WriteString(c.stderr.String())
					c = nil
				case <-time.After(limit):
					j.died = "the process hung"
					c.kill()
					stderrAll.WriteString(c.stderr.String())
					c = nil
				}
			}
			flush()
			if race {
				attributeRaces(js, stderrAll.String())
			}
		}(sh.P, sh.js)
	}
	wg.Wait()
}

func tail(s string, n int) string {
	if len(s) > n {
		return s[len(s)-n:]
	}
	return s
}

func fatalLine(stderr string) string {
	for _, l := range strings.Split(stderr, "\n") {
		if strings.HasPrefix(l, "fatal error:") || strings.HasPrefix(l, "panic:") {
			return l
		}
	}
	return tail(stderr, 300)
}

var caseMark = regexp.MustCompile(`^@@case (\d+) (begin|end)$`)

// attributeRaces splits the stderr of race-enabled children into reports and attributes each to the case
// that was running (reports are printed by the racing goroutine at the moment of detection).
func attributeRaces(js []*job, stderr string) {
	byID := map[int]*job{}
	for _, j := range js {
		byID[j.c.ID] = j
	}
	cur := -1
	var rep []string
	in := false
	for _, l := range strings.Split(stderr, "\n") {
		if m := caseMark.FindStringSubmatch(l); m != nil {
			var id int
			fmt.Sscan(m[1], &id)
			if m[2] == "begin" {
				cur = id
			}
			continue
		}
		if l == "==================" {
			if in && len(rep) > 0 {
				if j := byID[cur]; j != nil {
					j.races = append(j.races, classifyRace(rep))
				}
				rep = nil
			}
			in = !in
			continue
		}
		if in {
			rep = append(rep, l)
		}
	}
}

func classifyRace(lines []string) raceReport {
	r := raceReport{Text: strings.Join(lines, "\n")}
	// the two access stacks come first; "Goroutine N (…) created at:" sections follow
	access := r.Text
	if k := strings.Index(access, "\nGoroutine "); k >= 0 {
		access = access[:k]
	}
	var tops []string
	for _, l := range strings.Split(access, "\n") {
		t := strings.TrimSpace(l)
		if strings.HasPrefix(t, "github.com/traefik/yaegi/interp.") {
			r.Interp = true
			fn := strings.TrimPrefix(t, "github.com/traefik/yaegi/interp.")
			if k := strings.IndexByte(fn, '('); k >= 0 {
				fn = fn[:k]
			}
			if strings.HasPrefix(fn, "_select") {
				r.Select = true
			}
			if len(tops) < 4 {
				tops = append(tops, fn)
			}
		}
	}
	// whose accesses are they: for each access stack take the first frame that is not in the standard library
	// (reflect.Select reading `cases`, sync primitives, the runtime); the report concerns the interpreter when
	// such a frame is in package interp and none is in the harness itself
	r.Interp = false
	ls := strings.Split(access, "\n")
	inHarness := false
	for i, l := range ls {
		if !(strings.HasSuffix(strings.TrimSpace(l), ":") && (strings.Contains(l, " by goroutine") || strings.Contains(l, " by main goroutine"))) {
			continue
		}
		for k := i + 1; k < len(ls); k++ {
			t := ls[k]
			if strings.TrimSpace(t) == "" {
				break
			}
			if !strings.HasPrefix(t, "  ") || strings.HasPrefix(t, "      ") {
				continue // a file:line line
			}
			fn := strings.TrimSpace(t)
			if strings.HasPrefix(fn, "github.com/traefik/yaegi/interp.") {
				r.Interp = true
				break
			}
			if strings.HasPrefix(fn, "main.") || strings.HasPrefix(fn, "verif/") {
				inHarness = true
				break
			}
			if strings.Contains(strings.SplitN(fn, "(", 2)[0], "/") && !strings.HasPrefix(fn, "internal/") && !strings.HasPrefix(fn, "sync/") {
				break // some other module
			}
		}
	}
	if inHarness {
		r.Interp = false
	}
	r.Top = strings.Join(tops, " <- ")
	return r
}

// buildRace builds this harness with the race detector (cgo is required).
func buildRace() (string, string) {
	verif := common.VerifDir()
	repo := os.Getenv("VERIF_REPO")
	if repo == "" {
		repo = "/repo"
	}
	dir, err := os.MkdirTemp("", "verif-c08-race-")
	if err != nil {
		return "", err.Error()
	}
	bin := filepath.Join(verif, "bin", fmt.Sprintf("harness-C08-race-%d", os.Getpid()))
	args := []string{"build", "-race", "-tags", "verif", "-o", bin}
	if real, _ := filepath.EvalSymlinks(repo); real != "/repo" && real != "" {
		mod, err := os.ReadFile(filepath.Join(verif, "harness", "go.mod"))
		if err != nil {
			return "", err.Error()
		}
		alt := filepath.Join(dir, "alt.mod")
		os.WriteFile(alt, []byte(strings.ReplaceAll(string(mod), "=> /repo", "=> "+real)), 0o644)
		if sum, err := os.ReadFile(filepath.Join(real, "go.sum")); err == nil {
			os.WriteFile(filepath.Join(dir, "alt.sum"), sum, 0o644)
		}
		args = append(args, "-modfile="+alt)
	}
	args = append(args, "./cmd/c08")
	cmd := exec.Command("go", args...)
	cmd.Dir = filepath.Join(verif, "harness")
	cmd.Env = append(os.Environ(), "CGO_ENABLED=1", "GOFLAGS=-mod=mod", "GOPROXY=off", "GOSUMDB=off", "GOTOOLCHAIN=local")
	t0 := time.Now()
	out, err := cmd.CombinedOutput()
	os.RemoveAll(dir)
	if err != nil {
		return "", "go build -race failed (cgo and the race runtime are required): " + trunc(string(out), 600)
	}
	return bin, fmt.Sprintf("go build -race ok in %d s (CGO_ENABLED=1)", int(time.Since(t0).Seconds()))
}

// ---- helpers used by known.go ----

func runOne(bin string, c Case, P int, race bool) (*Out, string, []raceReport) {
	j := &job{c: c, P: P, race: race}
	run := &common.Run{Res: &common.Result{}}
	runJobs(run, bin, []*job{j}, race)
	return j.out, j.died, j.races
}

func sortedKeys(m map[string]int) []string {
	var ks []string
	for k := range m {
		ks = append(ks, k)
	}
	sort.Strings(ks)
	return ks
}

var _ = rand.Int
