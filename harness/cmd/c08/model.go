package main

// Stream A: programs of the Lean model's statement language (Model/Conc.lean), generated in a structured
// form, flattened for the Lean driver and rendered as Go source for the interpreter and the toolchain.
//
// Two families, both schedule-independent by construction:
//   private   every activation (goroutine) has its own buffered channels; the generator tracks the buffer
//             occupancy statically, so no operation ever blocks and every select has exactly one ready case
//             (or none and a default);
//   pipeline  activation k receives from channel k until it is closed and sends to channel k+1 (a Kahn
//             network: one producer and one consumer per channel), channel 0 is pre-filled and closed.

import (
	"fmt"
	"math/rand"
	"strings"
)

type SCase struct {
	Dir  string // recv | send | dflt
	Ch   int
	Slot int
	Body []SStmt
	// recv: how the clause is written — 0 `case v := <-c: sK = v`, 1 `case sK = <-c:`, 2 `case sK, ok = <-c:`,
	// 3 `case v, k := <-c: sK = v`; Ok is the status slot of the two-value forms (else -1); Expr writes the channel
	// as the expression cs[N] instead of the identifier cN (the clause forms of F08-1, F08-3, F08-5, all repaired)
	Form int
	Ok   int
	Expr bool
}

type SStmt struct {
	Op    string // set add addc send recv close print loop recvloop rangeloop select
	A, B  int
	C     int
	V     int64
	Body  []SStmt
	Cases []SCase
}

type MAct struct {
	Slots []int64
	Chans []int
}

type MChan struct {
	Cap    int
	Closed bool
	Buf    []int64
}

type MProg struct {
	Family  string
	Body    []SStmt
	NSlots  int
	NChans  int // channel table size of one activation
	Acts    []MAct
	Heap    []MChan
	Selects int
	Ranges  int
	// how main starts the workers: "" `go worker(w, literals…)`; "fv" / "lit": through a function value / a function
	// literal, the operands being variables (slices, the first channel, a *sync.WaitGroup) reassigned at each start
	// and cleared after the last one
	Spawn string
}

// ---- flattening (the Lean side) ----

type flat struct{ s []string }

func (f *flat) emit(s string) int { f.s = append(f.s, s); return len(f.s) - 1 }

func (f *flat) stmts(body []SStmt) {
	for _, s := range body {
		switch s.Op {
		case "set":
			f.emit(fmt.Sprintf("(set %d %d)", s.A, s.V))
		case "add":
			f.emit(fmt.Sprintf("(add %d %d %d)", s.A, s.B, s.C))
		case "addc":
			f.emit(fmt.Sprintf("(addc %d %d %d)", s.A, s.B, s.V))
		case "send":
			f.emit(fmt.Sprintf("(send %d %d)", s.C, s.A))
		case "recv":
			f.emit(fmt.Sprintf("(recv %d %d %d)", s.A, s.B, s.C))
		case "close":
			f.emit(fmt.Sprintf("(close %d)", s.C))
		case "print":
			f.emit(fmt.Sprintf("(print %d)", s.A))
		case "loop": // for sA = 0; sA < sB; sA++ { body }
			f.emit(fmt.Sprintf("(set %d 0)", s.A))
			l := f.emit("") // jlt A B body
			j := f.emit("") // jmp end
			f.s[l] = fmt.Sprintf("(jlt %d %d %d)", s.A, s.B, j+1)
			f.stmts(s.Body)
			f.emit(fmt.Sprintf("(addc %d %d 1)", s.A, s.A))
			f.emit(fmt.Sprintf("(jmp %d)", l))
			f.s[j] = fmt.Sprintf("(jmp %d)", len(f.s))
		case "rangeloop": // for v := range cC { sA = v; body }
			l := f.emit("")
			f.stmts(s.Body)
			f.emit(fmt.Sprintf("(jmp %d)", l))
			f.s[l] = fmt.Sprintf("(range %d %d %d)", s.A, s.C, len(f.s))
		case "recvloop": // for { sA, ok(sB) = <-cC; if !ok break; body }
			l := f.emit(fmt.Sprintf("(recv %d %d %d)", s.A, s.B, s.C))
			t := f.emit("")
			j := f.emit("")
			f.s[t] = fmt.Sprintf("(jlt 0 %d %d)", s.B, j+1)
			f.stmts(s.Body)
			f.emit(fmt.Sprintf("(jmp %d)", l))
			f.s[j] = fmt.Sprintf("(jmp %d)", len(f.s))
		case "select":
			sel := f.emit("")
			var cs []string
			var jumps []int
			for _, c := range s.Cases {
				target := len(f.s)
				switch c.Dir {
				case "dflt":
					cs = append(cs, fmt.Sprintf("(dflt %d)", target))
				default:
					if c.Dir == "recv" && (c.Form == 2 || c.Form == 3 || c.Form == 4) {
						cs = append(cs, fmt.Sprintf("(recv2 %d %d %d %d)", c.Ch, c.Slot, c.Ok, target))
					} else {
						cs = append(cs, fmt.Sprintf("(%s %d %d %d)", c.Dir, c.Ch, c.Slot, target))
					}
				}
				f.stmts(c.Body)
				jumps = append(jumps, f.emit(""))
			}
			for _, j := range jumps {
				f.s[j] = fmt.Sprintf("(jmp %d)", len(f.s))
			}
			f.s[sel] = "(select " + strings.Join(cs, " ") + ")"
		}
	}
}

// Lean renders the three arguments PROG ACTS HEAP of the driver's run/xtalk commands.
func (p *MProg) Lean() string {
	var f flat
	f.stmts(p.Body)
	f.emit("(halt)")
	var acts []string
	for _, a := range p.Acts {
		var sl, ch []string
		for _, v := range a.Slots {
			sl = append(sl, fmt.Sprint(v))
		}
		for _, c := range a.Chans {
			ch = append(ch, fmt.Sprint(c))
		}
		acts = append(acts, "(("+strings.Join(sl, " ")+") ("+strings.Join(ch, " ")+"))")
	}
	var heap []string
	for _, c := range p.Heap {
		cl := "0"
		if c.Closed {
			cl = "1"
		}
		parts := []string{fmt.Sprint(c.Cap), cl}
		for _, v := range c.Buf {
			parts = append(parts, fmt.Sprint(v))
		}
		heap = append(heap, "("+strings.Join(parts, " ")+")")
	}
	return "(" + strings.Join(f.s, " ") + ") (" + strings.Join(acts, " ") + ") (" + strings.Join(heap, " ") + ")"
}

// ---- rendering (the Go side) ----

func (p *MProg) goStmts(b *strings.Builder, body []SStmt, ind string) {
	for _, s := range body {
		switch s.Op {
		case "set":
			fmt.Fprintf(b, "%ss%d = %d\n", ind, s.A, s.V)
		case "add":
			fmt.Fprintf(b, "%ss%d = s%d + s%d\n", ind, s.A, s.B, s.C)
		case "addc":
			fmt.Fprintf(b, "%ss%d = s%d + %d\n", ind, s.A, s.B, s.V)
		case "send":
			fmt.Fprintf(b, "%sc%d <- s%d\n", ind, s.C, s.A)
		case "recv":
			// the model's two-value receive, written with identifier, indexed, field or pointed-to destinations
			// (the destination forms of F08-7, all repaired)
			switch s.V % 4 {
			case 1:
				fmt.Fprintf(b, "%sarr[0], oks[0] = <-c%d\n%ss%d = arr[0]\n%ss%d = b2i(oks[0])\n", ind, s.C, ind, s.A, ind, s.B)
			case 2:
				fmt.Fprintf(b, "%sst.v, st.ok = <-c%d\n%ss%d = st.v\n%ss%d = b2i(st.ok)\n", ind, s.C, ind, s.A, ind, s.B)
			case 3:
				// single-value form: generated only where the buffer is known to hold a value (status 1)
				fmt.Fprintf(b, "%sarr[0] = <-c%d\n%ss%d = arr[0]\n%ss%d = 1\n", ind, s.C, ind, s.A, ind, s.B)
			default:
				fmt.Fprintf(b, "%ss%d, ok = <-c%d\n%ss%d = b2i(ok)\n", ind, s.A, s.C, ind, s.B)
			}
		case "close":
			fmt.Fprintf(b, "%sclose(c%d)\n", ind, s.C)
		case "print":
			fmt.Fprintf(b, "%sout = append(out, s%d)\n", ind, s.A)
		case "loop":
			fmt.Fprintf(b, "%sfor s%d = 0; s%d < s%d; s%d++ {\n", ind, s.A, s.A, s.B, s.A)
			p.goStmts(b, s.Body, ind+"\t")
			fmt.Fprintf(b, "%s}\n", ind)
		case "rangeloop":
			fmt.Fprintf(b, "%sfor v := range c%d {\n%s\ts%d = v\n", ind, s.C, ind, s.A)
			p.goStmts(b, s.Body, ind+"\t")
			fmt.Fprintf(b, "%s}\n", ind)
		case "recvloop":
			fmt.Fprintf(b, "%sfor {\n%s\ts%d, ok = <-c%d\n%s\ts%d = b2i(ok)\n%s\tif !ok {\n%s\t\tbreak\n%s\t}\n", ind, ind, s.A, s.C, ind, s.B, ind, ind, ind)
			p.goStmts(b, s.Body, ind+"\t")
			fmt.Fprintf(b, "%s}\n", ind)
		case "select":
			fmt.Fprintf(b, "%sselect {\n", ind)
			for _, c := range s.Cases {
				switch c.Dir {
				case "recv":
					ch := fmt.Sprintf("c%d", c.Ch)
					if c.Expr {
						ch = fmt.Sprintf("cs[%d]", c.Ch)
					}
					switch c.Form {
					case 1:
						fmt.Fprintf(b, "%scase s%d = <-%s:\n", ind, c.Slot, ch)
					case 2:
						fmt.Fprintf(b, "%scase s%d, ok = <-%s:\n%s\ts%d = b2i(ok)\n", ind, c.Slot, ch, ind, c.Ok)
					case 3:
						fmt.Fprintf(b, "%scase v, k := <-%s:\n%s\ts%d = v\n%s\ts%d = b2i(k)\n", ind, ch, ind, c.Slot, ind, c.Ok)
					case 4: // non-identifier destinations of a two-value clause (F08-9, repaired)
						fmt.Fprintf(b, "%scase arr[0], oks[0] = <-%s:\n%s\ts%d = arr[0]\n%s\ts%d = b2i(oks[0])\n", ind, ch, ind, c.Slot, ind, c.Ok)
					case 5: // blank status (F08-8, repaired)
						fmt.Fprintf(b, "%scase st.v, _ = <-%s:\n%s\ts%d = st.v\n", ind, ch, ind, c.Slot)
					default:
						fmt.Fprintf(b, "%scase v := <-%s:\n%s\ts%d = v\n", ind, ch, ind, c.Slot)
					}
				case "send":
					fmt.Fprintf(b, "%scase c%d <- s%d:\n", ind, c.Ch, c.Slot)
				default:
					fmt.Fprintf(b, "%sdefault:\n", ind)
				}
				p.goStmts(b, c.Body, ind+"\t")
			}
			fmt.Fprintf(b, "%s}\n", ind)
		}
	}
}

// Go renders the complete program: one goroutine per activation running the same worker function.
func (p *MProg) Go() string {
	var b strings.Builder
	b.WriteString("package main\n\nimport (\n\t\"fmt\"\n\t\"sync\"\n)\n\nfunc b2i(b bool) int {\n\tif b {\n\t\treturn 1\n\t}\n\treturn 0\n}\n\n")
	b.WriteString("type dst struct {\n\tv  int\n\tok bool\n}\n\nfunc worker(w int, init []int, cs []chan int, res [][]int, wg *sync.WaitGroup) {\n\tvar out []int\n\tvar ok bool\n\tarr := make([]int, 1)\n\toks := make([]bool, 1)\n\tst := dst{}\n\t_, _, _, _ = ok, arr, oks, st\n")
	for i := 0; i < p.NSlots; i++ {
		fmt.Fprintf(&b, "\ts%d := init[%d]\n\t_ = s%d\n", i, i, i)
	}
	for i := 0; i < p.NChans; i++ {
		fmt.Fprintf(&b, "\tc%d := cs[%d]\n\t_ = c%d\n", i, i, i)
	}
	p.goStmts(&b, p.Body, "\t")
	b.WriteString("\tres[w] = out\n\twg.Done()\n}\n\nfunc main() {\n")
	fmt.Fprintf(&b, "\theap := make([]chan int, %d)\n", len(p.Heap))
	for i, c := range p.Heap {
		fmt.Fprintf(&b, "\theap[%d] = make(chan int, %d)\n", i, c.Cap)
		for _, v := range c.Buf {
			fmt.Fprintf(&b, "\theap[%d] <- %d\n", i, v)
		}
		if c.Closed {
			fmt.Fprintf(&b, "\tclose(heap[%d])\n", i)
		}
	}
	fmt.Fprintf(&b, "\tres := make([][]int, %d)\n\tvar wg sync.WaitGroup\n", len(p.Acts))
	if p.Spawn != "" {
		b.WriteString("\tvar initv []int\n\tvar csv []chan int\n\tvar first chan int\n\tvar wgp *sync.WaitGroup\n")
		b.WriteString("\tstart := func(w int, init []int, cs []chan int, c0 chan int, res [][]int, wg *sync.WaitGroup) {\n\t\tif len(cs) > 0 {\n\t\t\tcs[0] = c0\n\t\t}\n\t\tworker(w, init, cs, res, wg)\n\t}\n\t_ = start\n")
	}
	for w, a := range p.Acts {
		var sl, ch []string
		for _, v := range a.Slots {
			sl = append(sl, fmt.Sprint(v))
		}
		for _, c := range a.Chans {
			ch = append(ch, fmt.Sprintf("heap[%d]", c))
		}
		switch p.Spawn {
		case "":
			fmt.Fprintf(&b, "\twg.Add(1)\n\tgo worker(%d, []int{%s}, []chan int{%s}, res, &wg)\n", w, strings.Join(sl, ", "), strings.Join(ch, ", "))
		default:
			fmt.Fprintf(&b, "\tinitv = []int{%s}\n\tcsv = []chan int{%s}\n\tfirst = nil\n\tif len(csv) > 0 {\n\t\tfirst = csv[0]\n\t\tcsv[0] = nil\n\t}\n\twgp = &wg\n\twg.Add(1)\n", strings.Join(sl, ", "), strings.Join(ch, ", "))
			if p.Spawn == "fv" {
				fmt.Fprintf(&b, "\tgo start(%d, initv, csv, first, res, wgp)\n", w)
			} else {
				fmt.Fprintf(&b, "\tgo func(w int, init []int, cs []chan int, c0 chan int, res [][]int, wg *sync.WaitGroup) {\n\t\tif len(cs) > 0 {\n\t\t\tcs[0] = c0\n\t\t}\n\t\tworker(w, init, cs, res, wg)\n\t}(%d, initv, csv, first, res, wgp)\n", w)
			}
		}
	}
	if p.Spawn != "" {
		b.WriteString("\tinitv = nil\n\tcsv = nil\n")
	}
	b.WriteString("\twg.Wait()\n\tfor w := range res {\n\t\tfmt.Println(\"trace\", w, res[w])\n\t}\n")
	b.WriteString("\tfor i := 0; i < len(heap); i++ {\n\t\tc := heap[i]\n\t\tn := len(c)\n\t\tvar vs []int\n\t\tfor k := 0; k < n; k++ {\n\t\t\tvs = append(vs, <-c)\n\t\t}\n\t\tfmt.Println(\"chan\", i, vs)\n\t}\n}\n")
	return b.String()
}

// canonGo turns the output of the rendered program into the driver's result format (without status letters).
func canonGo(stdout string, nacts, nchans int) string {
	traces := make([]string, nacts)
	chans := make([]string, nchans)
	for _, l := range strings.Split(stdout, "\n") {
		f := strings.SplitN(l, " ", 3)
		if len(f) < 3 {
			continue
		}
		var idx int
		fmt.Sscan(f[1], &idx)
		vals := strings.ReplaceAll(strings.Trim(f[2], "[]"), " ", ",")
		switch f[0] {
		case "trace":
			if idx < nacts {
				traces[idx] = vals
			}
		case "chan":
			if idx < nchans {
				chans[idx] = vals
			}
		}
	}
	return strings.Join(traces, "|") + "~" + strings.Join(chans, ";")
}

// canonLean strips the status letters of a driver result; allDone reports whether every activation finished.
func canonLean(r string) (string, bool) {
	parts := strings.SplitN(r, "~", 2)
	if len(parts) != 2 {
		return r, false
	}
	all := true
	acts := strings.Split(parts[0], "|")
	for i, a := range acts {
		if !strings.HasPrefix(a, "d:") {
			all = false
		}
		if k := strings.IndexByte(a, ':'); k >= 0 {
			acts[i] = a[k+1:]
		}
	}
	return strings.Join(acts, "|") + "~" + parts[1], all
}

// ---- generation ----

type occ struct {
	n      []int // buffer occupancy per channel-table index (the same for every activation)
	cap    []int
	closed []bool
}

func (o *occ) clone() *occ {
	return &occ{n: append([]int{}, o.n...), cap: o.cap, closed: append([]bool{}, o.closed...)}
}

type mgen struct {
	rng         *rand.Rand
	nslots      int
	selects     int
	allowSelect bool
	allowRange  bool
	ranges      int
}

// data slots: 0 is the constant zero, 1 is the scratch `ok`, 2.. are data
func (g *mgen) data() int { return 2 + g.rng.Intn(g.nslots-2) }

func (g *mgen) simple(o *occ, inLoop bool, depth int) []SStmt {
	r := g.rng
	switch k := r.Intn(13); {
	case k < 2:
		return []SStmt{{Op: "set", A: g.data(), V: int64(r.Intn(200) - 50)}}
	case k < 3:
		return []SStmt{{Op: "add", A: g.data(), B: g.data(), C: g.data()}}
	case k < 4:
		return []SStmt{{Op: "addc", A: g.data(), B: g.data(), V: int64(r.Intn(21) - 10)}}
	case k < 6:
		return []SStmt{{Op: "print", A: g.data()}}
	case k < 8: // send
		c := r.Intn(len(o.n))
		if o.n[c] < o.cap[c] && !o.closed[c] {
			o.n[c]++
			return []SStmt{{Op: "send", C: c, A: g.data()}}
		}
	case k < 10: // recv
		c := r.Intn(len(o.n))
		if o.n[c] > 0 {
			o.n[c]--
			return []SStmt{{Op: "recv", A: g.data(), B: 1, C: c, V: int64(r.Intn(4))}, {Op: "print", A: 1}}
		}
		if o.closed[c] {
			return []SStmt{{Op: "recv", A: g.data(), B: 1, C: c, V: int64(r.Intn(3))}, {Op: "print", A: 1}}
		}
	case k < 11: // close (never inside a loop: the second iteration would panic)
		c := r.Intn(len(o.n))
		if !inLoop && !o.closed[c] && r.Intn(3) == 0 {
			o.closed[c] = true
			return []SStmt{{Op: "close", C: c}}
		}
	case k < 12 && g.allowRange && !inLoop && depth == 0 && r.Intn(2) == 0:
		// for v := range own: the channel must be closed first; it is drained
		c := r.Intn(len(o.n))
		var out []SStmt
		if !o.closed[c] {
			o.closed[c] = true
			out = append(out, SStmt{Op: "close", C: c})
		}
		dst := g.data()
		body := []SStmt{{Op: "print", A: dst}}
		for j := r.Intn(3); j > 0; j-- {
			d := g.data()
			if d == dst {
				continue
			}
			body = append(body, SStmt{Op: "add", A: d, B: d, C: dst})
		}
		o.n[c] = 0
		g.ranges++
		return append(out, SStmt{Op: "rangeloop", A: dst, C: c, Body: body})
	default:
		if g.allowSelect && depth < 2 {
			if s, ok := g.sel(o); ok {
				g.selects++
				return []SStmt{s}
			}
		}
	}
	return []SStmt{{Op: "addc", A: g.data(), B: g.data(), V: 1}}
}

// form picks how a receive clause is written.
func (g *mgen) form(c SCase) SCase {
	c.Ok = -1
	if c.Dir != "recv" {
		return c
	}
	c.Form = g.rng.Intn(6)
	c.Expr = g.rng.Intn(3) == 0
	if c.Form == 2 || c.Form == 3 || c.Form == 4 {
		c.Ok = 1
	}
	return c
}

// sel builds a select with exactly one ready communication (or none and a default).
func (g *mgen) sel(o *occ) (SStmt, bool) {
	r := g.rng
	type cand struct {
		dir string
		ch  int
	}
	var ready, blocked []cand
	for c := range o.n {
		if o.n[c] > 0 || o.closed[c] {
			ready = append(ready, cand{"recv", c})
		} else {
			blocked = append(blocked, cand{"recv", c})
		}
		if !o.closed[c] {
			if o.n[c] < o.cap[c] {
				ready = append(ready, cand{"send", c})
			} else {
				blocked = append(blocked, cand{"send", c})
			}
		}
	}
	body := func() []SStmt {
		var b []SStmt
		for k := r.Intn(3); k >= 0; k-- {
			switch r.Intn(3) {
			case 0:
				b = append(b, SStmt{Op: "set", A: g.data(), V: int64(r.Intn(100))})
			case 1:
				b = append(b, SStmt{Op: "print", A: g.data()})
			default:
				b = append(b, SStmt{Op: "addc", A: g.data(), B: g.data(), V: int64(r.Intn(9))})
			}
		}
		return b
	}
	var cases []SCase
	useDefault := r.Intn(4) == 0 || len(ready) == 0
	if !useDefault {
		c := ready[r.Intn(len(ready))]
		slot := g.data()
		sc := g.form(SCase{Dir: c.dir, Ch: c.ch, Slot: slot, Body: append(body(), SStmt{Op: "print", A: slot})})
		if sc.Ok >= 0 {
			sc.Body = append(sc.Body, SStmt{Op: "print", A: sc.Ok})
		}
		cases = append(cases, sc)
		if c.dir == "recv" {
			if o.n[c.ch] > 0 {
				o.n[c.ch]--
			}
		} else {
			o.n[c.ch]++
		}
	}
	r.Shuffle(len(blocked), func(i, j int) { blocked[i], blocked[j] = blocked[j], blocked[i] })
	nb := r.Intn(3)
	if useDefault && len(blocked) == 0 {
		return SStmt{}, false
	}
	if useDefault && nb == 0 {
		nb = 1
	}
	for k := 0; k < nb && k < len(blocked); k++ {
		bc := g.form(SCase{Dir: blocked[k].dir, Ch: blocked[k].ch, Slot: g.data(), Body: body()})
		if bc.Dir == "recv" && (bc.Form == 1 || bc.Form == 2) && r.Intn(3) == 0 {
			bc.Body = nil // an assignment clause with an empty body
		}
		cases = append(cases, bc)
	}
	if useDefault {
		cases = append(cases, SCase{Dir: "dflt", Body: body(), Ok: -1})
	}
	r.Shuffle(len(cases), func(i, j int) { cases[i], cases[j] = cases[j], cases[i] })
	// Go requires default to be unique (it is) and allows it anywhere
	return SStmt{Op: "select", Cases: cases}, true
}

func (g *mgen) block(o *occ, n int, inLoop bool, depth int) []SStmt {
	var out []SStmt
	for k := 0; k < n; k++ {
		if !inLoop && depth == 0 && g.rng.Intn(6) == 0 {
			// a loop whose body leaves every buffer as it found it
			counter, limit := g.data(), g.data()
			for limit == counter {
				limit = g.data()
			}
			start := o.clone()
			var body []SStmt
			for tries := 0; tries < 4; tries++ {
				o2 := start.clone()
				body = nil
				for j := 1 + g.rng.Intn(4); j > 0; j-- {
					for _, s := range g.simple(o2, true, depth+1) {
						if (s.Op == "set" || s.Op == "add" || s.Op == "addc") && (s.A == counter || s.A == limit) {
							continue
						}
						if s.Op == "recv" && (s.A == counter || s.A == limit) {
							s.A = 1
						}
						body = append(body, s)
					}
				}
				body = fixSelectSlots(body, counter, limit)
				// drain / refill to restore the occupancy
				for c := range o2.n {
					for o2.n[c] > start.n[c] {
						o2.n[c]--
						body = append(body, SStmt{Op: "recv", A: 1, B: 1, C: c})
					}
					for o2.n[c] < start.n[c] && !o2.closed[c] {
						o2.n[c]++
						body = append(body, SStmt{Op: "send", C: c, A: 0})
					}
				}
				same := true
				for c := range o2.n {
					if o2.n[c] != start.n[c] {
						same = false
					}
				}
				if same {
					break
				}
				body = nil
			}
			if body != nil {
				out = append(out, SStmt{Op: "set", A: limit, V: int64(1 + g.rng.Intn(4))}, SStmt{Op: "loop", A: counter, B: limit, Body: body})
				continue
			}
		}
		out = append(out, g.simple(o, inLoop, depth)...)
	}
	return out
}

// fixSelectSlots keeps loop counters out of the slots a select inside the loop body writes.
func fixSelectSlots(body []SStmt, counter, limit int) []SStmt {
	for i := range body {
		if body[i].Op != "select" {
			continue
		}
		for j := range body[i].Cases {
			c := &body[i].Cases[j]
			if c.Dir == "recv" && (c.Slot == counter || c.Slot == limit) {
				c.Slot = 1
			}
			var nb []SStmt
			for _, s := range c.Body {
				if (s.Op == "set" || s.Op == "addc") && (s.A == counter || s.A == limit) {
					continue
				}
				nb = append(nb, s)
			}
			c.Body = nb
		}
	}
	return body
}

// genPrivate: W goroutines, each with its own channels.
func genPrivate(rng *rand.Rand, workers int, allowSelect bool) *MProg {
	g := &mgen{rng: rng, nslots: 4 + rng.Intn(4), allowSelect: allowSelect, allowRange: true}
	nch := 1 + rng.Intn(3)
	o := &occ{n: make([]int, nch), cap: make([]int, nch), closed: make([]bool, nch)}
	p := &MProg{Family: "private", NSlots: g.nslots, NChans: nch}
	pre := make([]int, nch)
	for c := 0; c < nch; c++ {
		o.cap[c] = 1 + rng.Intn(3)
		pre[c] = rng.Intn(o.cap[c] + 1)
		o.n[c] = pre[c]
	}
	for w := 0; w < workers; w++ {
		a := MAct{Slots: make([]int64, g.nslots)}
		for s := 2; s < g.nslots; s++ {
			a.Slots[s] = int64(w*1000 + rng.Intn(50))
		}
		for c := 0; c < nch; c++ {
			id := len(p.Heap)
			ch := MChan{Cap: o.cap[c]}
			for k := 0; k < pre[c]; k++ {
				ch.Buf = append(ch.Buf, int64(w*1000+500+c*10+k))
			}
			p.Heap = append(p.Heap, ch)
			a.Chans = append(a.Chans, id)
		}
		p.Acts = append(p.Acts, a)
	}
	p.Body = g.block(o, 4+rng.Intn(10), false, 0)
	p.Selects = g.selects
	p.Ranges = g.ranges
	return p
}

// genPipeline: stage k receives from channel k until closed, transforms, sends to channel k+1, closes it.
func genPipeline(rng *rand.Rand, stages int) *MProg {
	n := 2 + rng.Intn(6)
	p := &MProg{Family: "pipeline", NSlots: 5, NChans: 2}
	first := MChan{Cap: n, Closed: true}
	for k := 0; k < n; k++ {
		first.Buf = append(first.Buf, int64(rng.Intn(100)))
	}
	p.Heap = append(p.Heap, first)
	for s := 0; s < stages; s++ {
		c := MChan{Cap: 1 + rng.Intn(2)}
		if s == stages-1 {
			c.Cap = n
		}
		p.Heap = append(p.Heap, c)
		p.Acts = append(p.Acts, MAct{Slots: []int64{0, 0, 0, int64(s*7 + 1), 0}, Chans: []int{s, s + 1}})
	}
	var body []SStmt
	// slot 2: received value, slot 3: per-stage increment, slot 4: running sum
	body = append(body, SStmt{Op: "add", A: 2, B: 2, C: 3})
	if rng.Intn(2) == 0 {
		body = append(body, SStmt{Op: "add", A: 4, B: 4, C: 2})
	}
	if rng.Intn(2) == 0 {
		body = append(body, SStmt{Op: "print", A: 2})
	}
	body = append(body, SStmt{Op: "send", C: 1, A: 2})
	loop := SStmt{Op: "recvloop", A: 2, B: 1, C: 0, Body: body}
	if rng.Intn(2) == 0 {
		loop = SStmt{Op: "rangeloop", A: 2, C: 0, Body: body}
		p.Ranges = 1
	}
	p.Body = []SStmt{loop, {Op: "print", A: 4}, {Op: "close", C: 1}}
	return p
}
