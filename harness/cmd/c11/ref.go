package main

// Reference side: the Go toolchain.
//
//   - a program is compiled whole (one file, statements in main);
//   - a history (a session that redefines symbols) is compiled as the sequential program in which
//     every definition gets a version of its own and every mention names the version current when
//     the text that contains it is entered ("later evaluations see the new definition, code
//     compiled earlier keeps what it was compiled against").
//
// All programs of a batch are linked into one binary (harness/common RunGoBatch does the same);
// because package-level initialisers of every linked program run in every process, each printed
// line starts with the program's tag and the output is split by tag (as harness/cmd/c15 does).

import (
	"bytes"
	"context"
	"fmt"
	"os"
	"os/exec"
	"path/filepath"
	"regexp"
	"strconv"
	"strings"
	"time"
)

type refT struct {
	Reject string // non-empty: the toolchain rejects the program (first lines)
	Out    string // tag:value,…
	Died   string // the program panicked
}

func (r refT) key() string {
	switch {
	case r.Reject != "":
		return "reject"
	case r.Died != "":
		return "panic|" + r.Out
	}
	return "ok|" + r.Out
}

var mainRe = regexp.MustCompile(`(?m)^func main\(\)`)
var pkgRe = regexp.MustCompile(`(?m)^package main\b`)
var pkgDirRe = regexp.MustCompile(`\bp(\d{5})/`)

func runGoPrograms(progs []string, perRun time.Duration) ([]refT, error) {
	res := make([]refT, len(progs))
	if len(progs) == 0 {
		return res, nil
	}
	dir, err := os.MkdirTemp("", "verif-c11-gobatch-")
	if err != nil {
		return nil, err
	}
	defer os.RemoveAll(dir)
	if err := os.WriteFile(filepath.Join(dir, "go.mod"), []byte("module batch\n\ngo 1.21\n"), 0o644); err != nil {
		return nil, err
	}
	alive := map[int]bool{}
	for i, src := range progs {
		root := fmt.Sprintf("p%05d", i)
		s := strings.ReplaceAll(src, TAG, root+"|")
		s = pkgRe.ReplaceAllString(s, "package "+root)
		s = mainRe.ReplaceAllString(s, "func Main()")
		if err := os.MkdirAll(filepath.Join(dir, root), 0o755); err != nil {
			return nil, err
		}
		if err := os.WriteFile(filepath.Join(dir, root, "p.go"), []byte(s), 0o644); err != nil {
			return nil, err
		}
		alive[i] = true
	}
	env := append(os.Environ(), "GOFLAGS=-mod=mod", "GOPROXY=off", "GOSUMDB=off", "GOTOOLCHAIN=local", "GO111MODULE=on")
	bin := filepath.Join(dir, "batch.bin")
	for attempt := 0; ; attempt++ {
		var b strings.Builder
		b.WriteString("package main\n\nimport (\n\t\"os\"\n\t\"strconv\"\n")
		for i := range progs {
			if alive[i] {
				fmt.Fprintf(&b, "\tp%05d \"batch/p%05d\"\n", i, i)
			}
		}
		b.WriteString(")\n\nvar mains = map[int]func(){\n")
		for i := range progs {
			if alive[i] {
				fmt.Fprintf(&b, "\t%d: p%05d.Main,\n", i, i)
			}
		}
		b.WriteString("}\n\nfunc main() {\n\tif len(os.Args) > 1 {\n\t\tn, _ := strconv.Atoi(os.Args[1])\n\t\tmains[n]()\n\t\treturn\n\t}\n")
		for i := range progs {
			if alive[i] {
				fmt.Fprintf(&b, "\tp%05d.Main()\n", i)
			}
		}
		b.WriteString("}\n")
		if err := os.WriteFile(filepath.Join(dir, "main.go"), []byte(b.String()), 0o644); err != nil {
			return nil, err
		}
		cmd := exec.Command("go", "build", "-o", bin, ".")
		cmd.Dir = dir
		cmd.Env = env
		out, err := cmd.CombinedOutput()
		if err == nil {
			break
		}
		bad := map[int][]string{}
		for _, l := range strings.Split(string(out), "\n") {
			if m := pkgDirRe.FindStringSubmatch(l); m != nil {
				n, _ := strconv.Atoi(m[1])
				bad[n] = append(bad[n], l)
			}
		}
		if len(bad) == 0 || attempt > 60 {
			return nil, fmt.Errorf("go build of batch failed: %v\n%s", err, out)
		}
		for n, ls := range bad {
			if len(ls) > 4 {
				ls = ls[:4]
			}
			res[n].Reject = strings.Join(ls, "\n")
			delete(alive, n)
		}
	}
	if len(alive) == 0 {
		return res, nil
	}
	runBin := func(arg string, d time.Duration) (string, string, error) {
		ctx, cancel := context.WithTimeout(context.Background(), d)
		defer cancel()
		var cmd *exec.Cmd
		if arg == "" {
			cmd = exec.CommandContext(ctx, bin)
		} else {
			cmd = exec.CommandContext(ctx, bin, arg)
		}
		cmd.Env = append(os.Environ(), "GOTRACEBACK=single", "GOMEMLIMIT=1GiB")
		var so, se bytes.Buffer
		cmd.Stdout, cmd.Stderr = &so, &se
		err := cmd.Run()
		return so.String(), se.String(), err
	}
	splitByTag := func(stdout string, only int) (map[int]*strings.Builder, error) {
		outs := map[int]*strings.Builder{}
		for _, l := range strings.Split(stdout, "\n") {
			if len(l) >= 7 && l[0] == 'p' && l[6] == '|' {
				if n, err := strconv.Atoi(l[1:6]); err == nil && n < len(progs) {
					if only >= 0 && n != only {
						continue
					}
					if outs[n] == nil {
						outs[n] = &strings.Builder{}
					}
					outs[n].WriteString(l[7:] + "\n")
					continue
				}
			}
			if l != "" {
				return nil, fmt.Errorf("batch binary printed an untagged line: %q", l)
			}
		}
		return outs, nil
	}
	stdout, stderr, err := runBin("", perRun*time.Duration(len(progs)/50+1))
	if err == nil {
		outs, serr := splitByTag(stdout, -1)
		if serr != nil {
			return nil, serr
		}
		for i := range progs {
			if alive[i] {
				if outs[i] != nil {
					res[i].Out = outOf(outs[i].String())
				} else {
					res[i].Out = "-"
				}
			}
		}
		return res, nil
	}
	_ = stderr
	// some program died: one process per program (every process still initialises all packages,
	// the tags keep the outputs apart)
	for i := range progs {
		if !alive[i] {
			continue
		}
		so, se, err := runBin(strconv.Itoa(i), perRun)
		outs, serr := splitByTag(so, i)
		if serr != nil {
			return nil, serr
		}
		res[i].Out = "-"
		if outs[i] != nil {
			res[i].Out = outOf(outs[i].String())
		}
		if err != nil {
			res[i].Died = "died"
			for _, l := range strings.Split(se, "\n") {
				if strings.HasPrefix(l, "panic: ") || strings.HasPrefix(l, "fatal error: ") {
					res[i].Died = l
					break
				}
			}
		}
	}
	return res, nil
}

// histSrc renders a history as the sequential program with versioned definitions.
func histSrc(texts [][]itemT) string {
	ver := map[string]int{}
	rn := func(kind, name string) string {
		v := ver[kind+":"+name]
		if v == 0 {
			return name + "_undefined"
		}
		return fmt.Sprintf("%s_%d", name, v)
	}
	bump := func(kind, name string) { ver[kind+":"+name]++ }
	var decls, body strings.Builder
	nInit := 0
	iota := 0 // index of the next const spec in its declaration
	constSrc := func(it *itemT) string {
		if it.Open || !it.Paren {
			iota = 0
		}
		t := ""
		if it.Typ == "int" {
			t = " int"
		} else if it.Typ != "" {
			t = " " + rn("type", it.Typ)
		}
		s := fmt.Sprintf("const %s%s = %s\n", rn("var", it.X), t, it.KE.src(rn, iota))
		iota++
		return s
	}
	declare := func(it *itemT) {
		switch it.K {
		case "var", "closure", "define", "const":
			bump("var", it.X)
		case "func":
			bump("func", it.X)
		case "type":
			bump("type", it.X)
		case "method":
			bump("method:"+it.X, it.M)
		}
	}
	for _, t := range texts {
		if len(t) == 0 {
			continue
		}
		if !t[0].isStmt() {
			// a file: all its declarations are in scope of all its bodies
			for i := range t {
				declare(&t[i])
			}
			var inits, mains []string
			for i := range t {
				it := &t[i]
				switch it.K {
				case "const":
					decls.WriteString(constSrc(it))
				case "var":
					fmt.Fprintf(&decls, "var %s int\n", rn("var", it.X))
					fmt.Fprintf(&body, "\t%s = %s\n", rn("var", it.X), it.E.src(rn))
				case "closure":
					fmt.Fprintf(&decls, "var %s func(int) int\n", rn("var", it.X))
					fmt.Fprintf(&body, "\t%s = func(n int) int { %s }\n", rn("var", it.X), it.B.inner(rn, true))
				case "func":
					if it.X == "main" {
						name := rn("func", "main")
						fmt.Fprintf(&decls, "func %s() { %s }\n", name, it.B.inner(rn, false))
						mains = append(mains, name)
					} else {
						decls.WriteString(it.src(rn) + "\n")
					}
				case "type", "method":
					decls.WriteString(it.src(rn) + "\n")
				case "init":
					nInit++
					name := fmt.Sprintf("init_%d", nInit)
					fmt.Fprintf(&decls, "func %s() { %s }\n", name, it.B.inner(rn, false))
					inits = append(inits, name)
				}
			}
			for _, f := range append(inits, mains...) {
				fmt.Fprintf(&body, "\t%s()\n", f)
			}
			continue
		}
		for i := range t {
			it := &t[i]
			switch it.K {
			case "define":
				e := it.E.src(rn) // the right-hand side sees the previous version
				declare(it)
				fmt.Fprintf(&decls, "var %s int\n", rn("var", it.X))
				fmt.Fprintf(&body, "\t%s = %s\n", rn("var", it.X), e)
			case "stmt":
				fmt.Fprintf(&body, "\t%s\n", it.S.src(rn))
			case "var":
				e := it.E.src(rn)
				declare(it)
				fmt.Fprintf(&decls, "var %s int\n", rn("var", it.X))
				fmt.Fprintf(&body, "\t%s = %s\n", rn("var", it.X), e)
			case "closure":
				declare(it)
				fmt.Fprintf(&decls, "var %s func(int) int\n", rn("var", it.X))
				fmt.Fprintf(&body, "\t%s = func(n int) int { %s }\n", rn("var", it.X), it.B.inner(rn, true))
			case "type":
				declare(it)
				decls.WriteString(it.src(rn) + "\n")
			}
		}
	}
	return "package main\n\nimport \"fmt\"\n\nvar _ = fmt.Sprint\n\n" + decls.String() + "\nfunc main() {\n" + body.String() + "}\n"
}

// mixedAt returns the index of the first text the incremental parser must reject: it takes a text
// of declarations (a statement in it is a syntax error) or a text of statements (declarations of
// variables and types are statements too, function declarations are not). -1 if there is none.
func mixedAt(texts [][]itemT) int {
	for k, t := range texts {
		for i := range t {
			if (!t[0].isStmt() && t[i].isStmt()) || (t[0].isStmt() && (t[i].K == "func" || t[i].K == "method" || t[i].K == "init")) {
				return k
			}
		}
	}
	return -1
}

// cycleAt returns the index of the first text of declarations with an initialization cycle: a
// package-level variable whose initialiser refers to the variable itself, directly or through the
// functions and methods DECLARED IN THE SAME TEXT (those bind the text's own variables; a function
// compiled by an earlier text keeps the variables it was compiled against) or through other
// variables of the text. Go rejects such a file ("initialization cycle"); the sequential program of
// a history cannot express it (its initialisers are assignments), so the session is expected to
// stop at that text with "variable definition loop". -1 if there is none.
func cycleAt(texts [][]itemT) int {
	for k, t := range texts {
		if len(t) == 0 || t[0].isStmt() {
			continue
		}
		vars := map[string]*itemT{}
		funcs := map[string]*bodyT{}
		for i := range t {
			it := &t[i]
			switch it.K {
			case "var", "closure":
				vars[it.X] = it
			case "func":
				funcs["f:"+it.X] = it.B
			case "method":
				funcs["m:"+it.X+"."+it.M] = it.B
			}
		}
		// refs: the variables of the text an initialiser refers to, through the text's functions
		refsOf := func(it *itemT) map[string]bool {
			out := map[string]bool{}
			seen := map[string]bool{}
			var we func(e *exprT)
			var wb func(b *bodyT)
			follow := func(key string) {
				if b, ok := funcs[key]; ok && !seen[key] {
					seen[key] = true
					wb(b)
				}
			}
			we = func(e *exprT) {
				if e == nil {
					return
				}
				switch e.K {
				case "glob", "callv":
					if _, ok := vars[e.X]; ok {
						out[e.X] = true
					}
				case "call":
					follow("f:" + e.X)
				case "mcall":
					follow("m:" + e.X + "." + e.M)
				}
				we(e.A)
				we(e.B)
			}
			wb = func(b *bodyT) {
				if b == nil {
					return
				}
				we(b.Guard)
				we(b.Ret)
				for i := range b.Stmts {
					for st := &b.Stmts[i]; st != nil; st = st.S {
						if st.K == "set" {
							if _, ok := vars[st.X]; ok {
								out[st.X] = true
							}
						}
						we(st.E)
					}
				}
			}
			we(it.E)
			wb(it.B)
			return out
		}
		graph := map[string]map[string]bool{}
		for x, it := range vars {
			graph[x] = refsOf(it)
		}
		// a cycle: some variable reaches itself
		for x := range graph {
			seen := map[string]bool{}
			stack := []string{x}
			for len(stack) > 0 {
				y := stack[len(stack)-1]
				stack = stack[:len(stack)-1]
				for z := range graph[y] {
					if z == x {
						return k
					}
					if !seen[z] {
						seen[z] = true
						stack = append(stack, z)
					}
				}
			}
		}
	}
	return -1
}

// stopAt: the first text at which a session must stop, and how (parse | defloop); -1 if none.
func stopAt(texts [][]itemT) (int, string) {
	m, c := mixedAt(texts), cycleAt(texts)
	switch {
	case m >= 0 && (c < 0 || m <= c):
		return m, "parse"
	case c >= 0:
		return c, "defloop"
	}
	return -1, ""
}
