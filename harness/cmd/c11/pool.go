package main

// Worker subprocesses: the interpreter can die in ways that cannot be recovered in-process (a
// mutated interpreter that recurses for ever overflows the stack: a fatal error). Every
// evaluation therefore runs in a worker process of this same binary (`-worker`); a worker that
// dies or stays silent is an outcome ("crash", "timeout") of the task it was running, and is
// replaced.

import (
	"bufio"
	"encoding/json"
	"fmt"
	"io"
	"os"
	"os/exec"
	"runtime"
	"runtime/debug"
	"sync"
	"sync/atomic"
	"time"
)

type taskT struct {
	ID    int    `json:"id"`
	Kind  string `json:"kind"` // session | whole
	Entry string `json:"entry"`
	Case  caseT  `json:"case"`
}

type replyT struct {
	ID  int  `json:"id"`
	Obs obsT `json:"obs"`
}

func workerMain() {
	debug.SetMaxStack(128 << 20)
	tmp := os.Getenv("C11_TMP")
	in := bufio.NewReaderSize(os.Stdin, 1<<20)
	out := bufio.NewWriter(os.Stdout)
	for {
		line, err := in.ReadBytes('\n')
		if len(line) > 0 {
			var t taskT
			if jerr := json.Unmarshal(line, &t); jerr != nil {
				fmt.Fprintln(os.Stderr, "worker: bad task:", jerr)
				os.Exit(3)
			}
			var o obsT
			if t.Kind == "session" {
				o = runSession(t.Case.texts(), t.Entry)
			} else {
				o = runWhole(wholeSrc(t.Case.Items), t.Entry, tmp, t.ID)
			}
			b, _ := json.Marshal(replyT{t.ID, o})
			out.Write(b)
			out.WriteByte('\n')
			out.Flush()
		}
		if err != nil {
			return
		}
	}
}

type workerT struct {
	cmd   *exec.Cmd
	in    io.WriteCloser
	lines chan []byte
}

func startWorker(tmp string) (*workerT, error) {
	cmd := exec.Command(os.Args[0], "-worker")
	cmd.Env = append(os.Environ(), "C11_TMP="+tmp, "GOMEMLIMIT=1GiB", "GOTRACEBACK=none")
	in, err := cmd.StdinPipe()
	if err != nil {
		return nil, err
	}
	outp, err := cmd.StdoutPipe()
	if err != nil {
		return nil, err
	}
	cmd.Stderr = nil
	if err := cmd.Start(); err != nil {
		return nil, err
	}
	w := &workerT{cmd: cmd, in: in, lines: make(chan []byte, 1)}
	go func() {
		r := bufio.NewReaderSize(outp, 1<<20)
		for {
			l, err := r.ReadBytes('\n')
			if len(l) > 0 && err == nil {
				w.lines <- l
			}
			if err != nil {
				close(w.lines)
				return
			}
		}
	}()
	return w, nil
}

func (w *workerT) stop() {
	w.in.Close()
	w.cmd.Process.Kill()
	w.cmd.Wait()
}

// do runs one task; ok = false when the worker died or stayed silent (it must then be replaced).
func (w *workerT) do(t taskT, deadline time.Duration) (obsT, string) {
	b, err := json.Marshal(t)
	if err != nil {
		return obsT{}, "harness: " + err.Error()
	}
	if _, err := w.in.Write(append(b, '\n')); err != nil {
		return obsT{}, "crash"
	}
	select {
	case l, ok := <-w.lines:
		if !ok {
			return obsT{}, "crash"
		}
		var r replyT
		if err := json.Unmarshal(l, &r); err != nil || r.ID != t.ID {
			return obsT{}, "crash"
		}
		return r.Obs, ""
	case <-time.After(deadline):
		return obsT{}, "timeout"
	}
}

// runPool runs the tasks on one worker per core.
func runPool(tasks []taskT, tmp string) ([]obsT, error) {
	res := make([]obsT, len(tasks))
	ch := make(chan int, len(tasks))
	for i := range tasks {
		ch <- i
	}
	close(ch)
	var wg sync.WaitGroup
	var mu sync.Mutex
	var firstErr error
	var nBad int64
	n := runtime.NumCPU()
	if n > len(tasks) {
		n = len(tasks)
	}
	for k := 0; k < n; k++ {
		wg.Add(1)
		go func() {
			defer wg.Done()
			w, err := startWorker(tmp)
			if err != nil {
				mu.Lock()
				firstErr = err
				mu.Unlock()
				return
			}
			defer func() { w.stop() }()
			for i := range ch {
				// a broken interpreter can make every task time out: patience shrinks with the number of
				// workers lost, and after 300 of them the remaining tasks are not run
				nb := atomic.LoadInt64(&nBad)
				if nb > 300 {
					res[i] = obsT{Halt: "skipped", At: -1, Out: "-", Err: "too many evaluations crashed or timed out before this one"}
					continue
				}
				deadline := 45 * time.Second
				if nb > 16 {
					deadline = 8 * time.Second
				}
				o, bad := w.do(tasks[i], deadline)
				if bad != "" {
					atomic.AddInt64(&nBad, 1)
					res[i] = obsT{Halt: bad, At: -1, Out: "-", Err: "the worker process running this evaluation " + bad + "ed"}
					w.stop()
					if w, err = startWorker(tmp); err != nil {
						mu.Lock()
						firstErr = err
						mu.Unlock()
						return
					}
					continue
				}
				res[i] = o
			}
		}()
	}
	wg.Wait()
	return res, firstErr
}
