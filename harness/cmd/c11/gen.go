package main

// Seeded generator of sequential programs (as item lists), of cut positions, of out-of-domain
// perturbations and of redefinition histories.

import (
	"fmt"
	"math/rand"
)

// caseT is one input of the harness.
//
//	prog: a program (items) and a cut list (lengths of the successive chunks; the rest is the last
//	      chunk); the session hands every chunk to the interpreter as its maximal runs of
//	      declarations / statements; the reference is the whole program compiled with Go
//	hist: the texts of a session given explicitly (they redefine symbols); the reference is the
//	      sequential program in which every definition gets its own version
type caseT struct {
	Kind  string     `json:"kind"`
	Items []itemT    `json:"items,omitempty"`
	Cuts  []int      `json:"cuts,omitempty"`
	Texts [][]itemT  `json:"texts,omitempty"`
	Note  string     `json:"note,omitempty"`
}

func (c caseT) line() string {
	if c.Kind == "prog" {
		cs := make([]string, len(c.Cuts))
		for i, n := range c.Cuts {
			cs[i] = fmt.Sprint(n)
		}
		return "C11 prog (" + joinSp(cs) + ") " + itemsSexp(c.Items)
	}
	s := "C11 hist"
	for _, t := range c.Texts {
		s += " " + itemsSexp(t)
	}
	return s
}

func joinSp(xs []string) string {
	s := ""
	for i, x := range xs {
		if i > 0 {
			s += " "
		}
		s += x
	}
	return s
}

func (c caseT) texts() [][]itemT {
	if c.Kind == "prog" {
		return textsOf(c.Cuts, c.Items)
	}
	return c.Texts
}

type funcInfo struct {
	name      string
	recursive bool
}

type constInfo struct {
	name string
	typ  string // "", "int" or a named type
}

type methInfo struct {
	typ, name string
	recursive bool
}

type genT struct {
	rng      *rand.Rand
	vars     []string // package-level int variables
	locals   []string // variables defined by statements (x := e)
	closures []string
	consts   []constInfo // constants declared so far
	funcs    []funcInfo
	types    []string
	methods  []methInfo
	nTag     int
	nName    int
	direct   bool // initialisers and function literals may name variables directly
}

type ctxT struct {
	inFunc, inMethod bool
	vars             []string // variables that may be named
	noCalls          bool
}

func (g *genT) fresh(prefix string) string {
	g.nName++
	return fmt.Sprintf("%s%d", prefix, g.nName)
}

func (g *genT) tag() int {
	g.nTag++
	return g.nTag
}

func (g *genT) pick(n int) int { return g.rng.Intn(n) }

// constExpr: no variable is read.
func (g *genT) constExpr(c ctxT) *exprT {
	switch k := g.pick(4); {
	case k == 0 && c.inFunc:
		return &exprT{K: "arg"}
	case k == 1 && c.inMethod:
		return &exprT{K: "recv"}
	}
	return num(int64(g.pick(7)))
}

// pure: no call.
func (g *genT) constRef() *exprT {
	ci := g.consts[g.pick(len(g.consts))]
	return &exprT{K: "glob", X: ci.name, Conv: ci.typ != "" && ci.typ != "int"}
}

func (g *genT) pure(depth int, c ctxT) *exprT {
	k := g.pick(6)
	if len(g.consts) > 0 && g.pick(5) == 0 {
		return g.constRef()
	}
	switch {
	case k <= 1 && len(c.vars) > 0:
		return glob(c.vars[g.pick(len(c.vars))])
	case k == 2 && depth > 0:
		return bin([]string{"add", "sub"}[g.pick(2)], g.pure(depth-1, c), g.pure(depth-1, c))
	case k == 3 && depth > 0:
		return bin("mul", g.pure(depth-1, c), num(int64(2+g.pick(2))))
	}
	return g.constExpr(c)
}

// callExpr: exactly one chain of calls; variables are read only in the innermost argument, so
// that the order in which Go evaluates operands cannot matter.
func (g *genT) callExpr(depth int, c ctxT, self string) *exprT {
	type callee struct {
		kind      string
		a, b      string
		recursive bool
	}
	var cs []callee
	for _, f := range g.funcs {
		cs = append(cs, callee{"call", f.name, "", f.recursive})
	}
	for _, x := range g.closures {
		cs = append(cs, callee{"callv", x, "", false})
	}
	for _, m := range g.methods {
		cs = append(cs, callee{"mcall", m.typ, m.name, m.recursive})
	}
	if len(cs) == 0 {
		return nil
	}
	ce := cs[g.pick(len(cs))]
	var arg *exprT
	if ce.recursive {
		arg = num(int64(g.pick(5)))
	} else if depth > 0 && g.pick(4) == 0 {
		if inner := g.callExpr(depth-1, c, self); inner != nil {
			arg = inner
		}
	}
	if arg == nil {
		arg = g.pure(1, c)
	}
	var e *exprT
	switch ce.kind {
	case "call":
		e = call(ce.a, arg)
	case "callv":
		e = &exprT{K: "callv", X: ce.a, A: arg}
	default:
		// receiver: a constant when the argument contains a call (no variable read next to a call)
		rc := g.constExpr(c)
		if !containsCall(arg) && g.pick(2) == 0 {
			rc = g.pure(0, c)
		}
		e = &exprT{K: "mcall", X: ce.a, M: ce.b, A: rc, B: arg}
	}
	if g.pick(3) == 0 {
		e = bin([]string{"add", "sub", "mul"}[g.pick(3)], e, num(int64(1+g.pick(3))))
	}
	return e
}

func containsCall(e *exprT) bool {
	if e == nil {
		return false
	}
	if e.K == "call" || e.K == "callv" || e.K == "mcall" {
		return true
	}
	return containsCall(e.A) || containsCall(e.B)
}

func (g *genT) expr(depth int, c ctxT) *exprT {
	if !c.noCalls && g.pick(2) == 0 {
		if e := g.callExpr(depth, c, ""); e != nil {
			return e
		}
	}
	return g.pure(depth, c)
}

func (g *genT) stmts(n int, c ctxT, settable []string) []stmtT {
	var out []stmtT
	for i := 0; i < n; i++ {
		switch k := g.pick(5); {
		case k <= 1:
			out = append(out, stmtT{K: "print", Tag: g.tag(), E: g.expr(2, c)})
		case k <= 3 && len(settable) > 0:
			out = append(out, stmtT{K: "set", X: settable[g.pick(len(settable))], E: g.expr(2, c)})
		default:
			if e := g.callExpr(1, c, ""); e != nil {
				out = append(out, stmtT{K: "eval", E: e})
			} else {
				out = append(out, stmtT{K: "print", Tag: g.tag(), E: g.expr(1, c)})
			}
		}
	}
	return out
}

// body of a function / method / literal. vars = the variables it may name.
func (g *genT) body(self string, isMethod, mayRecurse bool, vars []string) (*bodyT, bool) {
	c := ctxT{inFunc: true, inMethod: isMethod, vars: vars}
	b := &bodyT{}
	recursive := mayRecurse && g.pick(10) < 3
	b.Stmts = g.stmts(g.pick(3), c, vars)
	if recursive {
		b.Guard = g.pure(1, ctxT{inFunc: true, inMethod: isMethod, vars: vars})
		var rec *exprT
		down := bin("sub", &exprT{K: "arg"}, num(1))
		if isMethod {
			rec = &exprT{K: "mcall", X: self[:indexByte(self, '.')], M: self[indexByte(self, '.')+1:], A: &exprT{K: "recv"}, B: down}
		} else {
			rec = call(self, down)
		}
		other := &exprT{K: "arg"}
		if g.pick(2) == 0 {
			other = num(int64(1 + g.pick(3)))
		}
		b.Ret = bin([]string{"add", "mul", "add"}[g.pick(3)], rec, other)
		return b, true
	}
	if g.pick(10) < 3 {
		b.Guard = g.pure(1, c)
	}
	b.Ret = g.expr(2, c)
	return b, false
}

func indexByte(s string, c byte) int {
	for i := 0; i < len(s); i++ {
		if s[i] == c {
			return i
		}
	}
	return -1
}

// initialiser of a package-level variable
func (g *genT) initExpr() *exprT {
	c := ctxT{}
	if g.direct {
		c.vars = g.vars
	}
	return g.expr(2, c)
}

func (g *genT) bodyVars() []string {
	// bodies of functions and methods may always name package-level variables
	return g.vars
}

// kexpr: a constant expression over iota (when inBlock), literals and earlier untyped constants.
func (g *genT) kexpr(depth int, useIota bool) *kexprT {
	var untyped []string
	for _, c := range g.consts {
		if c.typ == "" {
			untyped = append(untyped, c.name)
		}
	}
	switch k := g.pick(6); {
	case k <= 1 && useIota:
		return &kexprT{K: "iota"}
	case k == 2 && len(untyped) > 0:
		return &kexprT{K: "ref", X: untyped[g.pick(len(untyped))]}
	case k <= 4 && depth > 0:
		return &kexprT{K: "bin", Op: []string{"add", "mul", "sub", "add"}[g.pick(4)], A: g.kexpr(depth-1, useIota), B: &kexprT{K: "num", N: int64(1 + g.pick(3))}}
	}
	return &kexprT{K: "num", N: int64(g.pick(9))}
}

func containsIota(e *kexprT) bool {
	return e != nil && (e.K == "iota" || containsIota(e.A) || containsIota(e.B))
}

// constDecl: a single constant, or a parenthesised declaration using iota with implicit repetition.
func (g *genT) constDecl() []itemT {
	typ := ""
	switch k := g.pick(5); {
	case k == 0:
		typ = "int"
	case k == 1 && len(g.types) > 0:
		typ = g.types[g.pick(len(g.types))]
	}
	if g.pick(5) < 2 {
		x := g.fresh("K")
		it := itemT{K: "const", X: x, KE: g.kexpr(1, false), Last: true, Typ: typ}
		g.consts = append(g.consts, constInfo{x, typ})
		return []itemT{it}
	}
	n := 2 + g.pick(3)
	var out []itemT
	var names []constInfo
	var prev *kexprT
	for i := 0; i < n; i++ {
		x := g.fresh("K")
		it := itemT{K: "const", X: x, Paren: true, Open: i == 0, Last: i == n-1, Typ: typ}
		if i > 0 && g.pick(10) < 7 {
			it.Implicit, it.KE = true, prev
		} else {
			e := g.kexpr(2, true)
			if i == 0 && !containsIota(e) {
				e = &kexprT{K: "bin", Op: "add", A: &kexprT{K: "iota"}, B: e}
			}
			it.KE = e
			if i > 0 {
				// an explicit spec inside the declaration keeps the declaration's type
			}
		}
		prev = it.KE
		out = append(out, it)
		names = append(names, constInfo{x, typ})
	}
	// the constants become visible after the declaration (an expression of the block never names them)
	g.consts = append(g.consts, names...)
	return out
}

func (g *genT) declItem(inStmtSection bool) []itemT {
	if g.pick(8) == 0 {
		return g.constDecl()
	}
	for {
		switch k := g.pick(10); {
		case k <= 2 && !inStmtSection:
			x := g.fresh("v")
			it := itemT{K: "var", X: x, E: g.initExpr()}
			g.vars = append(g.vars, x)
			return []itemT{it}
		case k == 3 && !inStmtSection:
			x := g.fresh("c")
			var vs []string
			if g.direct {
				vs = g.vars
			}
			b, _ := g.body("", false, false, vs)
			g.closures = append(g.closures, x)
			return []itemT{{K: "closure", X: x, B: b}}
		case k <= 6:
			f := g.fresh("f")
			b, rec := g.body(f, false, true, g.bodyVars())
			g.funcs = append(g.funcs, funcInfo{f, rec})
			return []itemT{{K: "func", X: f, B: b}}
		case k == 7:
			if len(g.types) > 0 && g.pick(2) == 0 {
				continue
			}
			t := g.fresh("T")
			g.types = append(g.types, t)
			return []itemT{{K: "type", X: t}}
		default:
			var out []itemT
			if len(g.types) == 0 {
				t := g.fresh("T")
				g.types = append(g.types, t)
				out = append(out, itemT{K: "type", X: t})
			}
			t := g.types[g.pick(len(g.types))]
			m := g.fresh("M")
			b, rec := g.body(t+"."+m, true, true, g.bodyVars())
			g.methods = append(g.methods, methInfo{t, m, rec})
			return append(out, itemT{K: "method", X: t, M: m, B: b})
		}
	}
}

// stmtItem: a statement of main; one in seven is the call of a function literal, `func() { s }()`.
func (g *genT) stmtItem() itemT {
	it := g.plainStmtItem()
	if it.K == "stmt" && g.pick(7) == 0 {
		it.S = &stmtT{K: "lit", S: it.S}
	}
	return it
}

// litBlock: the shape of seed C11-4 — a statement that starts with a function literal followed by 1–3
// further simple statements (define, call with one argument, print), the last one ending in a
// one-argument call (the parser's error recovery on the first attempt then runs into the end of the
// text). With cutsFor's cut in front of it the block is the beginning of its own Eval.
func (g *genT) litBlock() []itemT {
	first := g.plainStmtItem()
	for first.K != "stmt" {
		g.locals = g.locals[:len(g.locals)-1] // the `x := e` that is dropped was never declared
		first = g.plainStmtItem()
	}
	first.S = &stmtT{K: "lit", S: first.S}
	out := []itemT{first}
	for n := g.pick(3); n > 0; n-- {
		out = append(out, g.plainStmtItem())
	}
	all := append(append([]string{}, g.vars...), g.locals...)
	c := ctxT{vars: all}
	if e := g.callExpr(0, c, ""); e != nil {
		for e.K == "bin" { // the bare call: the text ends with `f(arg)`
			e = e.A
		}
		if len(all) > 0 && g.pick(2) == 0 {
			out = append(out, itemT{K: "stmt", S: &stmtT{K: "set", X: all[g.pick(len(all))], E: e}})
		} else {
			out = append(out, itemT{K: "stmt", S: &stmtT{K: "eval", E: e}})
		}
	}
	return out
}

func (g *genT) plainStmtItem() itemT {
	all := append(append([]string{}, g.vars...), g.locals...)
	c := ctxT{vars: all}
	switch k := g.pick(6); {
	case k <= 1:
		return itemT{K: "stmt", S: &stmtT{K: "print", Tag: g.tag(), E: g.expr(2, c)}}
	case k == 2 && len(all) > 0:
		return itemT{K: "stmt", S: &stmtT{K: "set", X: all[g.pick(len(all))], E: g.expr(2, c)}}
	case k == 3:
		x := g.fresh("l")
		it := itemT{K: "define", X: x, E: g.expr(2, c)}
		g.locals = append(g.locals, x)
		return it
	case k == 4:
		if e := g.callExpr(1, c, ""); e != nil {
			return itemT{K: "stmt", S: &stmtT{K: "eval", E: e}}
		}
	}
	return itemT{K: "stmt", S: &stmtT{K: "print", Tag: g.tag(), E: g.expr(2, c)}}
}

func (g *genT) dump() []itemT {
	var out []itemT
	for _, x := range append(append([]string{}, g.vars...), g.locals...) {
		out = append(out, itemT{K: "stmt", S: &stmtT{K: "print", Tag: g.tag(), E: glob(x)}})
	}
	for _, c := range g.consts {
		out = append(out, itemT{K: "stmt", S: &stmtT{K: "print", Tag: g.tag(), E: &exprT{K: "glob", X: c.name, Conv: c.typ != "" && c.typ != "int"}}})
	}
	return out
}

// insideConstDecl: position j (between items j-1 and j) is inside a const declaration.
func insideConstDecl(items []itemT, j int) bool {
	return j > 0 && j < len(items) && items[j-1].K == "const" && !items[j-1].Last
}

// program builds an in-domain program: variables first, then init functions, then statements;
// functions, types and methods anywhere after what they mention.
func (g *genT) program(thorough bool) []itemT {
	var items []itemT
	nDecl := 2 + g.pick(7)
	if thorough {
		nDecl += g.pick(5)
	}
	for i := 0; i < nDecl; i++ {
		items = append(items, g.declItem(false)...)
	}
	for i := g.pick(3); i > 0; i-- {
		if g.pick(3) == 0 {
			items = append(items, g.declItem(true)...)
		}
		c := ctxT{vars: g.vars}
		items = append(items, itemT{K: "init", B: &bodyT{Stmts: g.stmts(1+g.pick(2), c, g.vars), Ret: num(0)}})
	}
	nStmt := 2 + g.pick(6)
	litAt := -1
	if g.pick(3) == 0 {
		litAt = 1 + g.pick(nStmt)
	}
	for i := 0; i < nStmt; i++ {
		if g.pick(6) == 0 {
			items = append(items, g.declItem(true)...)
		}
		items = append(items, g.stmtItem())
		if i+1 == litAt {
			items = append(items, g.litBlock()...)
		}
	}
	return append(items, g.dump()...)
}

// cutsFor picks cut positions among the item boundaries (a const declaration is one piece of text:
// no cut inside it) and returns the chunk lengths.
func cutsFor(rng *rand.Rand, items []itemT) []int {
	n := len(items)
	if n <= 1 {
		return nil
	}
	var allowed []int
	for b := 1; b < n; b++ {
		if !insideConstDecl(items, b) {
			allowed = append(allowed, b)
		}
	}
	if len(allowed) == 0 {
		return nil
	}
	var k int
	switch rng.Intn(3) {
	case 0:
		k = 1 + rng.Intn(2)
	case 1:
		k = 1 + rng.Intn(len(allowed))
	default:
		k = len(allowed)
	}
	if k > len(allowed) {
		k = len(allowed)
	}
	mark := make([]bool, n)
	for _, p := range rng.Perm(len(allowed))[:k] {
		mark[allowed[p]] = true
	}
	// a statement that starts with a function literal begins its own Eval (three times out of four)
	for b := 1; b < n; b++ {
		if items[b].K == "stmt" && items[b].S.K == "lit" && items[b-1].isStmt() && rng.Intn(4) > 0 {
			mark[b] = true
		}
	}
	var out []int
	last := 0
	for i := 1; i < n; i++ {
		if mark[i] {
			out = append(out, i-last)
			last = i
		}
	}
	return out
}

// direct: initialisers and function literals name package-level variables directly — cut anywhere,
// such an initialiser names a variable of an earlier Eval (the shape of F11-1, repaired): half of the cases
func newGen(rng *rand.Rand) *genT {
	return &genT{rng: rng, direct: rng.Intn(10) < 5}
}

// ---- out-of-domain perturbations of an in-domain program ----

func mentions(it *itemT, name string) bool {
	found := false
	var we func(e *exprT)
	we = func(e *exprT) {
		if e == nil {
			return
		}
		if (e.K == "glob" || e.K == "call" || e.K == "callv" || e.K == "mcall") && e.X == name {
			found = true
		}
		we(e.A)
		we(e.B)
	}
	var ws func(s *stmtT)
	ws = func(s *stmtT) {
		if s == nil {
			return
		}
		if s.K == "set" && s.X == name {
			found = true
		}
		we(s.E)
		ws(s.S)
	}
	we(it.E)
	if it.S != nil {
		ws(it.S)
	}
	if it.B != nil {
		we(it.B.Guard)
		we(it.B.Ret)
		for i := range it.B.Stmts {
			ws(&it.B.Stmts[i])
		}
	}
	if it.K == "method" && it.X == name {
		found = true
	}
	return found
}

func perturb(g *genT, items []itemT) ([]itemT, string) {
	rng := g.rng
	cp := append([]itemT{}, items...)
	switch rng.Intn(6) {
	case 5: // a variable whose initialiser depends on the variable itself: an initialization cycle for Go, a
		// definition loop for the interpreter, piecewise and whole. It comes first: a session has
		// run the texts before the faulty one, which a rejected whole program never does.
		{
			x := g.fresh("v")
			var its []itemT
			switch rng.Intn(3) {
			case 0:
				its = []itemT{{K: "var", X: x, E: bin("add", glob(x), num(1))}}
			case 1:
				its = []itemT{{K: "closure", X: x, B: &bodyT{Guard: num(0), Ret: bin("add", &exprT{K: "callv", X: x, A: bin("sub", &exprT{K: "arg"}, num(1))}, num(1))}}}
			default:
				// through a function of the same text
				f := g.fresh("f")
				its = []itemT{{K: "func", X: f, B: &bodyT{Ret: bin("add", glob(x), &exprT{K: "arg"})}}, {K: "var", X: x, E: call(f, num(0))}}
			}
			return append(its, cp...), "self-dependency"
		}
	case 0: // forward reference: move a function behind its first user
		for try := 0; try < 10; try++ {
			i := rng.Intn(len(cp))
			if cp[i].K != "func" {
				continue
			}
			for j := i + 1; j < len(cp); j++ {
				if cp[j].K != "type" && cp[j].K != "const" && mentions(&cp[j], cp[i].X) && !cp[j].isStmt() && !insideConstDecl(cp, j+1) {
					it := cp[i]
					copy(cp[i:j], cp[i+1:j+1])
					cp[j] = it
					return cp, "forward-reference"
				}
			}
		}
	case 1: // a variable initialiser that prints, declared after a statement
		if len(g.funcs) > 0 {
			for j := len(cp) - 1; j >= 0; j-- {
				if cp[j].isStmt() && cp[j].K == "stmt" && cp[j].S.K == "print" && cp[j].S.E.K == "glob" {
					continue // the final dump
				}
				f := g.funcs[rng.Intn(len(g.funcs))]
				a := num(int64(rng.Intn(4)))
				x := g.fresh("v")
				it := itemT{K: "var", X: x, E: call(f.name, a)}
				out := append(append(append([]itemT{}, cp[:j+1]...), it), cp[j+1:]...)
				out = append(out, itemT{K: "stmt", S: &stmtT{K: "print", Tag: g.tag(), E: glob(x)}})
				return out, "var-after-stmt"
			}
		}
	case 2: // a function that mentions a variable of main
		if len(g.locals) > 0 {
			l := g.locals[rng.Intn(len(g.locals))]
			for j := range cp {
				if cp[j].K == "define" && cp[j].X == l {
					f := g.fresh("f")
					it := itemT{K: "func", X: f, B: &bodyT{Ret: bin("add", glob(l), &exprT{K: "arg"})}}
					use := itemT{K: "stmt", S: &stmtT{K: "print", Tag: g.tag(), E: call(f, num(1))}}
					out := append(append(append([]itemT{}, cp[:j+1]...), it, use), cp[j+1:]...)
					return out, "decl-uses-main-local"
				}
			}
		}
	case 3: // the same name declared twice
		for try := 0; try < 10; try++ {
			i := rng.Intn(len(cp))
			if cp[i].K == "func" || cp[i].K == "var" {
				it := cp[i]
				if it.K == "func" {
					it.B = &bodyT{Ret: num(int64(40 + rng.Intn(9)))}
				} else if rng.Intn(3) == 0 {
					// the new declaration names the variable: across Evals this is the NEW variable
					// waiting for itself ("variable definition loop")
					it.E = bin("add", glob(it.X), num(int64(1+rng.Intn(3))))
				} else {
					it.E = num(int64(40 + rng.Intn(9)))
				}
				// a function: somewhere later in the declarations; a variable: right after the first
				// declaration (an initialiser in between that names it would depend on the later
				// declaration when both are in one text: reordering of initialisers is C15's subject)
				j := i + 1
				for it.K == "func" && j < len(cp) && !cp[j].isStmt() && cp[j].K != "init" && rng.Intn(3) > 0 {
					j++
				}
				for insideConstDecl(cp, j) {
					j++
				}
				out := append(append(append([]itemT{}, cp[:j]...), it), cp[j:]...)
				return out, "redefinition"
			}
		}
	default: // a statement that mentions a variable defined by a later statement
		for j := range cp {
			if cp[j].K == "define" {
				use := itemT{K: "stmt", S: &stmtT{K: "print", Tag: g.tag(), E: glob(cp[j].X)}}
				out := append(append(append([]itemT{}, cp[:j]...), use), cp[j:]...)
				return out, "use-before-define"
			}
		}
	}
	return items, ""
}

// ---- histories ----

func (g *genT) history(thorough bool) (texts [][]itemT, note string) {
	base := g.program(false)
	// drop the dump (re-made at the end)
	for len(base) > 0 && base[len(base)-1].K == "stmt" && base[len(base)-1].S.K == "print" && base[len(base)-1].S.E.K == "glob" {
		base = base[:len(base)-1]
	}
	texts = textsOf(cutsFor(g.rng, base), base)
	note = "redefine"
	rounds := 1 + g.pick(3)
	special := g.pick(12)
	for r := 0; r < rounds; r++ {
		all := append(append([]string{}, g.vars...), g.locals...)
		switch k := g.pick(10); {
		case k == 6 && len(g.methods) > 0: // declare a method again (F11-7, repaired: it replaces the earlier one)
			j := g.pick(len(g.methods))
			m := g.methods[j]
			// not itself: the new node is registered before the body is compiled
			saved := g.methods
			g.methods = append(append([]methInfo{}, saved[:j]...), saved[j+1:]...)
			b, _ := g.body(m.typ+"."+m.name, true, false, g.vars)
			g.methods = saved
			g.methods[j].recursive = false
			texts = append(texts, []itemT{{K: "method", X: m.typ, M: m.name, B: b}})
			texts = append(texts, []itemT{{K: "stmt", S: &stmtT{K: "print", Tag: g.tag(), E: &exprT{K: "mcall", X: m.typ, M: m.name, A: num(int64(1 + g.pick(4))), B: num(int64(g.pick(4)))}}}})
			note = "method-redefinition"
		case k == 7: // declare main, alone or among other declarations (F11-8, repaired: it runs with this text only)
			c := ctxT{vars: g.vars}
			mb := &bodyT{Stmts: append([]stmtT{{K: "print", Tag: g.tag(), E: num(int64(80 + g.pick(9)))}}, g.stmts(g.pick(2), c, g.vars)...), Ret: num(0)}
			t := []itemT{{K: "func", X: "main", B: mb}}
			if g.pick(2) == 0 {
				x := g.fresh("v")
				t = append([]itemT{{K: "var", X: x, E: g.initExpr()}}, t...)
				g.vars = append(g.vars, x)
			}
			if g.pick(3) == 0 {
				t = append(t, itemT{K: "init", B: &bodyT{Stmts: g.stmts(1, c, g.vars), Ret: num(0)}})
			}
			texts = append(texts, t)
			note = "main-declared"
		case k == 8 && len(g.vars) > 0: // declare a variable again with an initialiser over the session's variables and functions
			x := g.vars[g.pick(len(g.vars))]
			switch g.pick(4) {
			case 0: // …that names the variable itself: the new one, which waits for itself
				texts = append(texts, []itemT{{K: "var", X: x, E: bin("add", glob(x), num(int64(1 + g.pick(3))))}})
				texts = append(texts, []itemT{{K: "stmt", S: &stmtT{K: "print", Tag: g.tag(), E: glob(x)}}})
				return texts, "self-dependency"
			case 1: // …through a function of the same text
				f := g.fresh("f")
				texts = append(texts, []itemT{{K: "func", X: f, B: &bodyT{Ret: bin("add", glob(x), &exprT{K: "arg"})}}, {K: "var", X: x, E: call(f, num(int64(g.pick(3))))}})
				texts = append(texts, []itemT{{K: "stmt", S: &stmtT{K: "print", Tag: g.tag(), E: glob(x)}}})
				return texts, "self-dependency"
			default: // …over the other variables (F11-1, repaired) and the functions compiled earlier, which keep the old variable
				var others []string
				for _, v := range g.vars {
					if v != x {
						others = append(others, v)
					}
				}
				texts = append(texts, []itemT{{K: "var", X: x, E: g.expr(2, ctxT{vars: others})}})
			}
		case k <= 2 && len(g.funcs) > 0: // redefine a function
			i := g.pick(len(g.funcs))
			f := g.funcs[i]
			// the new body may call the other functions defined so far, not itself (the new symbol
			// is registered before the body is compiled: a call of its own name would be a recursion)
			saved := g.funcs
			g.funcs = append(append([]funcInfo{}, saved[:i]...), saved[i+1:]...)
			b, _ := g.body(f.name, false, false, g.vars)
			g.funcs = saved
			g.funcs[i].recursive = false
			texts = append(texts, []itemT{{K: "func", X: f.name, B: b}})
		case k == 3 && len(g.vars) > 0: // redeclare a variable
			x := g.vars[g.pick(len(g.vars))]
			texts = append(texts, []itemT{{K: "var", X: x, E: num(int64(50 + g.pick(9)))}})
		case k == 4 && len(all) > 0: // define again by a statement
			x := all[g.pick(len(all))]
			texts = append(texts, []itemT{{K: "define", X: x, E: num(int64(60 + g.pick(9)))}})
			found := false
			for _, l := range g.locals {
				if l == x {
					found = true
				}
			}
			if !found {
				g.locals = append(g.locals, x)
				// it is no longer a package-level `var` for the generator: both lists name it once
				for i, v := range g.vars {
					if v == x {
						g.vars = append(g.vars[:i:i], g.vars[i+1:]...)
						break
					}
				}
			}
		case k == 5 && len(g.closures) > 0: // a new literal in the same variable
			j := g.pick(len(g.closures))
			x := g.closures[j]
			// not itself: the new variable is registered before the literal is compiled
			saved := g.closures
			g.closures = append(append([]string{}, saved[:j]...), saved[j+1:]...)
			b, _ := g.body("", false, false, nil)
			g.closures = saved
			texts = append(texts, []itemT{{K: "closure", X: x, B: b}})
		default:
			f := g.fresh("f")
			b, rec := g.body(f, false, true, g.vars)
			g.funcs = append(g.funcs, funcInfo{f, rec})
			texts = append(texts, []itemT{{K: "func", X: f, B: b}})
		}
		// uses after the redefinition
		var use []itemT
		if g.pick(4) == 0 {
			use = append(use, g.litBlock()...)
		}
		for i := 1 + g.pick(3); i > 0; i-- {
			use = append(use, g.stmtItem())
		}
		// every function once: the old callers of a redefined function are exercised
		for _, f := range g.funcs {
			if g.pick(2) == 0 {
				use = append(use, itemT{K: "stmt", S: &stmtT{K: "print", Tag: g.tag(), E: call(f.name, num(int64(g.pick(4))))}})
			}
		}
		texts = append(texts, runs(use)...)
	}
	switch {
	case special == 0 && len(g.methods) > 0: // redefine a method
		m := g.methods[g.pick(len(g.methods))]
		texts = append(texts, []itemT{{K: "method", X: m.typ, M: m.name, B: &bodyT{Ret: bin("add", &exprT{K: "recv"}, num(int64(70 + g.pick(9))))}}})
		texts = append(texts, []itemT{{K: "stmt", S: &stmtT{K: "print", Tag: g.tag(), E: &exprT{K: "mcall", X: m.typ, M: m.name, A: num(2), B: num(1)}}}})
		note = "method-redefinition"
	case special == 1: // a text that declares main, followed by more texts
		mb := &bodyT{Stmts: []stmtT{{K: "print", Tag: g.tag(), E: num(int64(80 + g.pick(9)))}}, Ret: num(0)}
		texts = append(texts, []itemT{{K: "func", X: "main", B: mb}})
		texts = append(texts, []itemT{{K: "stmt", S: &stmtT{K: "print", Tag: g.tag(), E: num(1)}}})
		note = "main-declared"
	}
	switch {
	case special == 2 && len(g.funcs) > 0: // a text of statements that contains declarations of a variable and a type: runs in order
		f := g.funcs[g.pick(len(g.funcs))]
		x, t := g.fresh("v"), g.fresh("T")
		texts = append(texts, []itemT{
			{K: "stmt", S: &stmtT{K: "print", Tag: g.tag(), E: num(int64(g.pick(9)))}},
			{K: "var", X: x, E: call(f.name, num(int64(g.pick(4))))},
			{K: "type", X: t},
			{K: "stmt", S: &stmtT{K: "print", Tag: g.tag(), E: glob(x)}}})
		texts = append(texts, []itemT{{K: "method", X: t, M: "Get", B: &bodyT{Ret: bin("add", &exprT{K: "recv"}, glob(x))}}})
		texts = append(texts, []itemT{{K: "stmt", S: &stmtT{K: "print", Tag: g.tag(), E: &exprT{K: "mcall", X: t, M: "Get", A: num(1), B: num(0)}}}})
		g.vars = append(g.vars, x)
		note = "declarations-in-statement-text"
	case special == 3: // a statement inside a text of declarations: a syntax error
		x := g.fresh("v")
		texts = append(texts, []itemT{{K: "var", X: x, E: num(1)}, {K: "stmt", S: &stmtT{K: "print", Tag: g.tag(), E: glob(x)}}})
		return texts, "mixed-text"
	case special == 4: // a function declaration inside a text of statements: a syntax error
		f := g.fresh("f")
		texts = append(texts, []itemT{{K: "stmt", S: &stmtT{K: "print", Tag: g.tag(), E: num(2)}}, {K: "func", X: f, B: &bodyT{Ret: num(1)}}})
		return texts, "mixed-text"
	}
	if d := g.dump(); len(d) > 0 {
		texts = append(texts, d)
	}
	return texts, note
}

func generate(rng *rand.Rand, thorough bool) []caseT {
	nProg, nHist := 200, 80
	if thorough {
		nProg, nHist = 4000, 1000
	}
	var out []caseT
	for i := 0; i < nProg; i++ {
		g := newGen(rng)
		items := g.program(thorough)
		note := ""
		if rng.Intn(4) == 0 {
			items, note = perturb(g, items)
		}
		nCuts := 2
		if thorough {
			nCuts = 3
		}
		for k := 0; k < nCuts; k++ {
			out = append(out, caseT{Kind: "prog", Items: items, Cuts: cutsFor(rng, items), Note: note})
		}
	}
	for i := 0; i < nHist; i++ {
		g := newGen(rng)
		texts, note := g.history(thorough)
		out = append(out, caseT{Kind: "hist", Texts: texts, Note: note})
	}
	return out
}
