// C11 correspondence harness: evaluating a program piecewise equals evaluating it whole.
//
//	impl  = the real interpreter of /repo (built with -tags verif): ONE interpreter fed the texts of a
//	        session through Eval / Compile+Execute / CompileAST+Execute, and fresh interpreters fed the
//	        whole program through Eval / Compile+Execute / CompileAST+Execute / EvalPath on a real
//	        temporary file / EvalPath on an fstest.MapFS
//	model = Lean `evalPieces` (p=), `evalWhole` (w=), `evalText` folded over a history (h=), and the
//	        class label of the input (class=)
//	ref   = the Go toolchain: the whole program compiled and run; for a history the sequential
//	        program with one version per definition
//
// Checked on every case: impl = model for every entry point (correspondence), ref = model of the
// whole program (validation of the model's reading of a whole program), impl = ref (the property:
// output and final values of the variables; differences are labelled with the class of the input).
package main

import (
	"encoding/json"
	"fmt"
	"os"
	"path/filepath"
	"sort"
	"strings"
	"sync"
	"time"

	"verif/harness/common"
)

type implT struct {
	Session map[string]obsT // by entry point
	Whole   map[string]obsT
}

// names declared by `var` at package level, and all variables (with the `x := e` of statements)
func varNames(items []itemT) (top, all []string) {
	seenT, seenA := map[string]bool{}, map[string]bool{}
	for i := range items {
		it := &items[i]
		switch it.K {
		case "var", "const":
			if !seenT[it.X] {
				seenT[it.X] = true
				top = append(top, it.X)
			}
			fallthrough
		case "define":
			if !seenA[it.X] {
				seenA[it.X] = true
				all = append(all, it.X)
			}
		}
	}
	return top, all
}

func flatten(texts [][]itemT) []itemT {
	var out []itemT
	for _, t := range texts {
		out = append(out, t...)
	}
	return out
}

func compileKind(h string) bool {
	return h == "parse" || h == "redeclared" || h == "undefined" || h == "defloop"
}

// sameAsRef: the property on one evaluation.
func sameAsRef(o obsT, r refT) bool {
	if r.Reject != "" {
		return compileKind(o.Halt) && o.Out == "-"
	}
	if r.Died != "" {
		return o.Halt == "panic" && o.Out == r.Out
	}
	return o.Halt == "ok" && o.Out == r.Out
}

func sameAsModel(o, m obsT, names []string) bool {
	if o.Halt != m.Halt || o.Out != m.Out || o.At != m.At {
		return false
	}
	if o.Halt != "ok" {
		return true
	}
	return globalsStr(o.Globals, names) == globalsStr(m.Globals, names)
}

func listedClasses(id string) []string {
	b, err := os.ReadFile(filepath.Join(common.VerifDir(), "KNOWN_FINDINGS.json"))
	if err != nil {
		return nil
	}
	var all struct {
		Findings []struct {
			ID       string   `json:"id"`
			Property string   `json:"property"`
			Classes  []string `json:"classes"`
		} `json:"findings"`
	}
	if json.Unmarshal(b, &all) != nil {
		return nil
	}
	for _, f := range all.Findings {
		if f.ID == id && f.Property == "C11" {
			return f.Classes
		}
	}
	return nil
}

func contains(xs []string, s string) bool {
	for _, x := range xs {
		if x == s {
			return true
		}
	}
	return false
}

// classes on which piecewise and whole must agree. The classes of the findings repaired in round 3
// (var-names-earlier-chunk-var F11-1, method-redefinition F11-7, main-declared F11-8) no longer
// exist: their inputs are in-domain / history inputs and a residual divergence is a VIOLATION.
var agreeClasses = map[string]bool{"in-domain": true, "history": true, "history-plain": true, "forward-reference-within-chunk": true, "mixed-text": true}

func features(c caseT) []string {
	set := map[string]bool{}
	items := c.Items
	if c.Kind == "hist" {
		items = flatten(c.Texts)
	}
	var we func(e *exprT)
	we = func(e *exprT) {
		if e == nil {
			return
		}
		switch e.K {
		case "call", "callv", "mcall":
			set["expr-"+e.K] = true
		}
		we(e.A)
		we(e.B)
	}
	for i := range items {
		it := &items[i]
		set["item-"+it.K] = true
		we(it.E)
		for st := it.S; st != nil; st = st.S {
			we(st.E)
			if st.K == "lit" {
				set["stmt-func-literal-call"] = true
			}
		}
		if it.B != nil {
			we(it.B.Guard)
			we(it.B.Ret)
			for j := range it.B.Stmts {
				we(it.B.Stmts[j].E)
			}
			if it.B.Guard != nil && it.B.Ret.K == "bin" && it.B.Ret.A != nil && (it.B.Ret.A.K == "call" || it.B.Ret.A.K == "mcall") {
				set["recursion"] = true
			}
		}
	}
	var out []string
	for k := range set {
		out = append(out, k)
	}
	sort.Strings(out)
	return out
}

func hasCall(c caseT) bool {
	for _, f := range features(c) {
		if strings.HasPrefix(f, "expr-") {
			return true
		}
	}
	return false
}

func main() {
	if len(os.Args) > 1 && os.Args[1] == "-worker" {
		workerMain()
		return
	}
	run := common.NewRun("C11")
	run.Res.Rule = "cases = (a) generated sequential programs as item lists (package-level variables whose initialisers call logging functions, function literals over globals, functions incl. recursion, named types with methods, init functions, statements of main: prints, assignments, calls, x := e, one in seven as the call of a function literal `func() { s }()`; in a third of the programs a block that starts with such a literal call, goes on with 0–2 simple statements and ends in a one-argument call, with a cut in front of it three times out of four (the shape of seed C11-4: a statement text whose first token is `func`); a final dump of every variable) × seeded cut lists (1..all item boundaries) — half of them with initialisers and function literals that name package-level variables directly (cut anywhere: the shape of F11-1); a quarter perturbed out of the domain (forward reference, initialiser after a statement, declaration naming a variable of main, redeclaration — also `var x = x + k` —, use before define, a variable that depends on itself directly / in its literal / through a function); (b) histories = a session followed by rounds of redefinitions (function, variable by var with a constant / an expression over the session / itself, variable by :=, function literal, method declared again — the shape of F11-7 —, main declared alone or among variables and init functions, again and followed by more texts — the shape of F11-8) each followed by uses of every function; a history with an initialization cycle must stop there with a variable definition loop; every case is run through 3 session entry points and (programs) 5 whole-program entry points; one evaluation = one (case, entry point); non-trivial = at least two texts and at least one call; distinct = distinct protocol line + entry point"
	defer run.Finish()
	drv, err := common.StartDriver("C11")
	if err != nil {
		run.Errorf("driver: %v", err)
		return
	}
	defer drv.Close()
	findings, err := common.LoadFindings("C11")
	if err != nil {
		run.Errorf("known findings: %v", err)
	}
	tmp, err := os.MkdirTemp("", "verif-c11-files-")
	if err != nil {
		run.Errorf("temp dir: %v", err)
		return
	}
	defer os.RemoveAll(tmp)

	var cases []caseT
	var knownFs []common.Finding
	nKnown := 0
	if run.Replay != "" {
		b, err := os.ReadFile(run.Replay)
		if err != nil {
			run.Errorf("replay: %v", err)
			return
		}
		var rp struct {
			Input caseT `json:"input"`
		}
		if err := json.Unmarshal(b, &rp); err != nil {
			run.Errorf("replay: %v", err)
			return
		}
		cases = []caseT{rp.Input}
	} else {
		for _, f := range findings {
			var c caseT
			if err := json.Unmarshal(f.Replay, &c); err != nil {
				run.Errorf("finding %s: bad replay: %v", f.ID, err)
				continue
			}
			cases = append(cases, c)
			knownFs = append(knownFs, f)
			nKnown++
		}
		gen := generate(run.Rng, run.Thorough())
		// smallest first: the first failing input reported is then a small one
		size := func(c caseT) int { return len(c.Items) + len(flatten(c.Texts)) }
		sort.SliceStable(gen, func(a, b int) bool { return size(gen[a]) < size(gen[b]) })
		cases = append(cases, gen...)
	}

	lines := make([]string, len(cases))
	for i, c := range cases {
		lines[i] = c.line()
	}
	answers, err := drv.AskAll(lines)
	if err != nil {
		run.Errorf("driver: %v", err)
		return
	}

	// the real code: one task per (case, entry point), run by worker processes
	var tasks []taskT
	for i, c := range cases {
		for _, e := range sessionEntries {
			tasks = append(tasks, taskT{ID: len(tasks), Kind: "session", Entry: e, Case: c})
		}
		if c.Kind == "prog" {
			for _, e := range wholeEntries {
				tasks = append(tasks, taskT{ID: len(tasks), Kind: "whole", Entry: e, Case: c})
			}
		}
		_ = i
	}
	var obs []obsT
	var perr error
	var wg sync.WaitGroup
	wg.Add(1)
	go func() {
		defer wg.Done()
		obs, perr = runPool(tasks, tmp)
	}()
	// the reference, meanwhile (identical sources are compiled once)
	srcIdx := map[string]int{}
	var srcs []string
	refOf := make([]int, len(cases))
	for i, c := range cases {
		var s string
		if c.Kind == "prog" {
			s = wholeSrc(c.Items)
		} else if m, _ := stopAt(c.Texts); m >= 0 {
			s = histSrc(c.Texts[:m]) // the session stops there with a syntax error / an initialization cycle
		} else {
			s = histSrc(c.Texts)
		}
		k, ok := srcIdx[s]
		if !ok {
			k = len(srcs)
			srcIdx[s] = k
			srcs = append(srcs, s)
		}
		refOf[i] = k
	}
	refs := make([]refT, len(srcs))
	var rerr error
	const chunk = 250
	var rwg sync.WaitGroup
	var rmu sync.Mutex
	rsem := make(chan struct{}, 3)
	for lo := 0; lo < len(srcs); lo += chunk {
		hi := lo + chunk
		if hi > len(srcs) {
			hi = len(srcs)
		}
		rwg.Add(1)
		rsem <- struct{}{}
		go func(lo, hi int) {
			defer rwg.Done()
			defer func() { <-rsem }()
			rs, err := runGoPrograms(srcs[lo:hi], 30*time.Second)
			rmu.Lock()
			defer rmu.Unlock()
			if err != nil {
				rerr = err
				return
			}
			copy(refs[lo:hi], rs)
		}(lo, hi)
	}
	rwg.Wait()
	wg.Wait()
	if rerr != nil {
		run.Errorf("reference: %v", rerr)
		return
	}
	if perr != nil {
		run.Errorf("workers: %v", perr)
		return
	}
	impls := make([]implT, len(cases))
	{
		k := 0
		for i, c := range cases {
			im := implT{Session: map[string]obsT{}, Whole: map[string]obsT{}}
			for _, e := range sessionEntries {
				im.Session[e] = obs[k]
				k++
			}
			if c.Kind == "prog" {
				for _, e := range wholeEntries {
					im.Whole[e] = obs[k]
					k++
				}
			}
			impls[i] = im
		}
	}

	nDomDiff := 0
	var first, later []common.Disagreement
	defer func() {
		for _, d := range append(first, later...) {
			run.Disagree(d)
		}
	}()
	for i, c := range cases {
		ans := common.Fields(answers[i])
		class := ans["class"]
		if class == "" {
			run.Errorf("driver answered %q to %q", answers[i], lines[i])
			continue
		}
		im, rf := impls[i], refs[refOf[i]]
		texts := c.texts()
		var top, all []string
		var mSess, mWhole obsT
		if c.Kind == "prog" {
			top, all = varNames(c.Items)
			mSess = parseObs(ans["p"], ans["pat"])
			mWhole = parseObs(ans["w"], "-")
			// the driver's own partition must be the one rendered here
			var ps []string
			for _, t := range texts {
				ps = append(ps, fmt.Sprint(len(t)))
			}
			want := strings.Join(ps, ",")
			if want == "" {
				want = "-"
			}
			if ans["parts"] != want {
				run.Errorf("partition: driver %s, harness %s on %s", ans["parts"], want, lines[i])
				continue
			}
		} else {
			_, all = varNames(flatten(c.Texts))
			mSess = parseObs(ans["h"], ans["hat"])
		}

		type evalT struct {
			name  string
			o, m  obsT
			names []string
		}
		var evals []evalT
		for _, e := range sessionEntries {
			evals = append(evals, evalT{"session/" + e, im.Session[e], mSess, all})
		}
		if c.Kind == "prog" {
			for _, e := range wholeEntries {
				m := mWhole
				if m.Halt != "ok" {
					m.At = 0
				}
				evals = append(evals, evalT{"whole/" + e, im.Whole[e], m, top})
			}
		}
		// the model runs the initialisers of a text in the order written; a text in which an initialiser
		// names a variable declared later in the same text is reordered by the interpreter (C15's
		// subject): no prediction there. The generator does not produce such texts.
		unmodelled := ans["fwdvar"] == "1"
		if unmodelled {
			run.Hit("unmodelled:forward-dependency-between-initialisers")
		}
		// validation of the model's reading of the program against the toolchain
		specOK := true
		if c.Kind == "prog" {
			mSpec := parseObs(ans["g"], "-")
			specOK = unmodelled || sameAsRef(obsT{Halt: mSpec.Halt, Out: mSpec.Out}, rf)
			if rf.Reject != "" {
				specOK = compileKind(mSpec.Halt)
			}
		}

		known := i < nKnown
		stillFails := false
		detail := ""
		for _, ev := range evals {
			modelOK := unmodelled || sameAsModel(ev.o, ev.m, ev.names)
			same := sameAsRef(ev.o, rf)
			if m, how := stopAt(c.Texts); c.Kind == "hist" && m >= 0 {
				same = rf.Reject == "" && rf.Died == "" && ev.o.Halt == how && ev.o.At == m && ev.o.Out == rf.Out
			}
			if !known {
				run.Count(ev.name+" "+lines[i], len(texts) >= 2 && hasCall(c))
				run.Hit("entry:" + ev.name)
				run.Hit("impl:" + ev.o.Halt)
				if same {
					run.Hit("property:holds")
				} else {
					run.Hit("property:fails")
				}
			}
			input := map[string]interface{}{"case": c, "entry": ev.name}
			implS := ev.o.key(ev.names) + fmt.Sprintf(" at=%d %s", ev.o.At, ev.o.Err)
			modelS := ev.m.key(ev.names) + fmt.Sprintf(" at=%d", ev.m.At)
			if !modelOK {
				run.Disagree(common.Disagreement{Kind: "impl-vs-model", Input: input, Impl: implS, Model: modelS, Ref: rf.key(), Note: "class " + class})
			}
			if !same {
				stillFails = true
				if detail == "" {
					detail = fmt.Sprintf("%s: impl=%s ref=%s", ev.name, implS, rf.key())
				}
				if !known {
					d := common.Disagreement{Kind: "impl-vs-ref", Input: input, Impl: implS, Model: modelS, Ref: rf.key() + " " + common.FirstLine(rf.Reject), Finding: class}
					if agreeClasses[class] {
						d.Finding = ""
					}
					if !modelOK {
						d.Finding, d.Note = "", "differs from the reference and from the model of the unchanged code (class "+class+")"
					}
					// inputs on which the unchanged tree satisfies the property make the best replays: first
					if agreeClasses[class] {
						first = append(first, d)
					} else {
						later = append(later, d)
					}
				}
			}
		}
		if !specOK {
			run.Disagree(common.Disagreement{Kind: "spec-vs-ref", Input: c, Spec: ans["g"], Ref: rf.key() + " " + common.FirstLine(rf.Reject)})
		}
		if known {
			f := knownFs[i]
			// a repaired finding keeps its replay (it must pass now) and the class it had; the input is
			// labelled by what else it is
			if cl := listedClasses(f.ID); f.Status == "finding" && len(cl) > 0 && !contains(cl, class) {
				run.Errorf("finding %s: its replay input has class %q, the entry lists %v", f.ID, class, cl)
			}
			run.Res.Known = append(run.Res.Known, common.KnownReplay{ID: f.ID, Status: f.Status, What: f.What, StillFails: stillFails,
				Detail: fmt.Sprintf("class=%s %s", class, detail)})
			continue
		}
		run.Hit("class:" + class)
		run.Hit("kind:" + c.Kind)
		if ans["crossdep"] == "1" {
			run.Hit("shape:initialiser-names-a-variable-of-an-earlier-text (F11-1, repaired)")
		}
		if c.Note != "" {
			run.Hit("perturbation:" + c.Note)
		}
		run.Hit(fmt.Sprintf("texts:%02d", min(len(texts), 30)))
		switch ans["dom"] {
		case "2":
			run.Hit("dom:proved-for-every-cut-list")
		case "1":
			run.Hit("dom:proved-for-this-cut-list")
		}
		if c.Kind == "prog" && ans["dom"] != "0" && (ans["p"] != ans["w"] || ans["pat"] != "-") {
			// redundant with the theorem: a cheap check that the theorem says what the driver runs
			// (under a mutated source the regenerated facts are not `Good` and this fires: reported thrice)
			if nDomDiff++; nDomDiff <= 3 {
				run.Errorf("inside the proved domain the model's session and whole program differ: %s", answers[i])
			}
		}
		for _, k := range features(c) {
			run.Hit("feature:" + k)
		}
		run.Sample(map[string]interface{}{"case": c, "class": class, "session": im.Session["eval"].key(all), "model": mSess.key(all), "ref": rf.key()}, 8)
	}
}
