package main

// Running sessions and whole programs on the real interpreter, through every entry point.

import (
	"bytes"
	"errors"
	"fmt"
	"go/ast"
	"go/constant"
	"go/parser"
	"go/scanner"
	"os"
	"path/filepath"
	"sort"
	"strconv"
	"strings"
	"testing/fstest"
	"time"

	"github.com/traefik/yaegi/interp"
	"github.com/traefik/yaegi/stdlib"
	"verif/harness/common"
)

// obsT is what is observed of one evaluation (the same shape as the Lean driver's `obs`).
type obsT struct {
	Halt    string            // ok | parse | redeclared | undefined | defloop | panic | fuel | timeout | crash | other
	At      int               // index of the text at which the session stopped, -1 if it did not
	Out     string            // tag:value,… of the lines printed
	Globals map[string]string // integer variables of package main (nil when halted)
	Err     string
}

func (o obsT) key(names []string) string {
	return o.Halt + "|" + o.Out + "|" + globalsStr(o.Globals, names)
}

func globalsStr(g map[string]string, names []string) string {
	if g == nil {
		return "-"
	}
	var ps []string
	for _, n := range names {
		if v, ok := g[n]; ok {
			ps = append(ps, n+":"+v)
		} else {
			ps = append(ps, n+":?")
		}
	}
	sort.Strings(ps)
	if len(ps) == 0 {
		return "-"
	}
	return strings.Join(ps, ",")
}

// parseObs reads the driver's `halt|out|globals`.
func parseObs(s string, at string) obsT {
	f := strings.SplitN(s, "|", 3)
	o := obsT{At: -1}
	if len(f) != 3 {
		o.Halt = "bad:" + s
		return o
	}
	o.Halt, o.Out = f[0], f[1]
	if n, err := strconv.Atoi(at); err == nil {
		o.At = n
	}
	if o.Halt == "ok" {
		o.Globals = map[string]string{}
		if f[2] != "-" {
			for _, kv := range strings.Split(f[2], ",") {
				if i := strings.IndexByte(kv, ':'); i > 0 {
					o.Globals[kv[:i]] = kv[i+1:]
				}
			}
		}
	}
	return o
}

// outOf canonicalises stdout: lines "t<tag> <value>" → "tag:value,…".
func outOf(stdout string) string {
	var ps []string
	for _, l := range strings.Split(stdout, "\n") {
		if l == "" {
			continue
		}
		f := strings.Fields(l)
		if len(f) == 2 && strings.HasPrefix(f[0], "t") {
			ps = append(ps, f[0][1:]+":"+f[1])
		} else {
			ps = append(ps, "?"+strings.ReplaceAll(l, " ", "_"))
		}
	}
	if len(ps) == 0 {
		return "-"
	}
	return strings.Join(ps, ",")
}

func errKind(err error) string {
	if err == nil {
		return "ok"
	}
	msg := err.Error()
	var p interp.Panic
	switch {
	case strings.Contains(msg, "redeclared") || strings.Contains(msg, "no new variables"):
		return "redeclared"
	case strings.Contains(msg, "variable definition loop"):
		return "defloop"
	case strings.Contains(msg, "undefined"), strings.Contains(msg, "constant definition loop"):
		// gtaRetry gives up on a `var x = f()` whose f is not declared yet with this message
		return "undefined"
	case errors.As(err, &p):
		return "panic"
	}
	var se scanner.ErrorList
	if errors.As(err, &se) {
		return "parse"
	}
	return "other"
}


func init() {
	// only fmt is needed; loading every package of the standard library for each of the
	// thousands of interpreters would dominate the run
	m := interp.Exports{}
	m["fmt/fmt"] = stdlib.Symbols["fmt/fmt"]
	fmtSyms = m
}

var fmtSyms interp.Exports

func intGlobals(i *interp.Interpreter) (g map[string]string) {
	defer func() {
		if r := recover(); r != nil {
			g = map[string]string{"!": "globals-crash"}
		}
	}()
	g = map[string]string{}
	for k, v := range i.Globals() {
		switch {
		case !v.IsValid():
		case v.CanInt():
			g[k] = fmt.Sprint(v.Int())
		case v.CanInterface():
			// an untyped constant is kept as a go/constant value
			if cv, ok := v.Interface().(constant.Value); ok && cv.Kind() == constant.Int {
				if n, exact := constant.Int64Val(cv); exact {
					g[k] = fmt.Sprint(n)
				}
			}
		}
	}
	return g
}

// guarded runs f under recover and a deadline.
func guarded(timeout time.Duration, f func() obsT) obsT {
	ch := make(chan obsT, 1)
	go func() {
		defer func() {
			if r := recover(); r != nil {
				ch <- obsT{Halt: "crash", At: -1, Out: "-", Err: common.FirstLine(fmt.Sprint(r))}
			}
		}()
		ch <- f()
	}()
	select {
	case o := <-ch:
		return o
	case <-time.After(timeout):
		return obsT{Halt: "timeout", At: -1, Out: "-"}
	}
}

// evalOne evaluates one text through the chosen entry point.
func evalOne(i *interp.Interpreter, entry, src string, isStmt bool) (err error) {
	defer func() {
		if r := recover(); r != nil {
			err = interp.Panic{Value: r}
		}
	}()
	switch entry {
	case "eval":
		_, err = i.Eval(src)
	case "compile":
		var p *interp.Program
		p, err = i.Compile(src)
		if err == nil {
			_, err = i.Execute(p)
		}
	case "compileast":
		var n ast.Node
		if isStmt {
			f, perr := parser.ParseFile(i.FileSet(), "_.go", "package main; func main() {"+src+"\n}", parser.DeclarationErrors)
			if perr != nil {
				return perr
			}
			n = f.Decls[0].(*ast.FuncDecl).Body
		} else {
			if !strings.HasPrefix(src, "package ") {
				src = "package main;" + src
			}
			f, perr := parser.ParseFile(i.FileSet(), "_.go", src, parser.DeclarationErrors)
			if perr != nil {
				return perr
			}
			n = f
		}
		var p *interp.Program
		p, err = i.CompileAST(n)
		if err == nil {
			_, err = i.Execute(p)
		}
	}
	return err
}

// runSession evaluates the texts one after the other on ONE interpreter and stops at the first error.
func runSession(texts [][]itemT, entry string) obsT {
	return guarded(20*time.Second, func() obsT {
		var so bytes.Buffer
		i := interp.New(interp.Options{Stdout: &so, Stderr: &so})
		if err := i.Use(fmtSyms); err != nil {
			return obsT{Halt: "other", Err: err.Error(), At: -1}
		}
		if err := evalOne(i, entry, `import "fmt"`, false); err != nil {
			return obsT{Halt: "other", Err: "import: " + err.Error(), At: -1}
		}
		o := obsT{Halt: "ok", At: -1}
		for k, t := range texts {
			if len(t) == 0 {
				continue
			}
			err := evalOne(i, entry, forYaegi(textSrc(t)), t[0].isStmt())
			if err != nil {
				o.Halt, o.At, o.Err = errKind(err), k, common.FirstLine(err.Error())
				break
			}
		}
		o.Out = outOf(so.String())
		if o.Halt == "ok" {
			o.Globals = intGlobals(i)
		}
		return o
	})
}

var wholeEntries = []string{"eval", "compile", "compileast", "evalpath-file", "evalpath-mapfs"}
var sessionEntries = []string{"eval", "compile", "compileast"}

// runWhole evaluates the whole program in one piece.
func runWhole(src, entry, tmp string, id int) obsT {
	src = forYaegi(src)
	return guarded(20*time.Second, func() obsT {
		var so bytes.Buffer
		opts := interp.Options{Stdout: &so, Stderr: &so}
		var path string
		switch entry {
		case "evalpath-file":
			dir := filepath.Join(tmp, fmt.Sprintf("w%06d", id))
			if err := os.MkdirAll(dir, 0o755); err != nil {
				return obsT{Halt: "other", Err: err.Error(), At: -1}
			}
			defer os.RemoveAll(dir)
			path = filepath.Join(dir, "main.go")
			if err := os.WriteFile(path, []byte(src), 0o644); err != nil {
				return obsT{Halt: "other", Err: err.Error(), At: -1}
			}
		case "evalpath-mapfs":
			opts.SourcecodeFilesystem = fstest.MapFS{"main.go": &fstest.MapFile{Data: []byte(src)}}
			path = "main.go"
		}
		i := interp.New(opts)
		if err := i.Use(fmtSyms); err != nil {
			return obsT{Halt: "other", Err: err.Error(), At: -1}
		}
		var err error
		func() {
			defer func() {
				if r := recover(); r != nil {
					err = interp.Panic{Value: r}
				}
			}()
			switch entry {
			case "evalpath-file", "evalpath-mapfs":
				_, err = i.EvalPath(path)
			default:
				err = evalOne(i, entry, src, false)
			}
		}()
		o := obsT{Halt: errKind(err), At: -1, Out: outOf(so.String())}
		if err != nil {
			o.At, o.Err = 0, common.FirstLine(err.Error())
		} else {
			o.Globals = intGlobals(i)
		}
		return o
	})
}
