package main

// The item language of C11 (the same as lean/YaegiVerif/Model/Piecewise.lean) with its two
// renderings: the protocol term sent to the Lean driver and Go source text.

import (
	"fmt"
	"strings"

	"verif/harness/common"
)

// exprT: K = num | arg | recv | glob | bin | call | callv | mcall
type exprT struct {
	K  string  `json:"k"`
	N  int64   `json:"n,omitempty"`  // num
	X  string  `json:"x,omitempty"`  // glob / call / callv: name; mcall: type
	M  string  `json:"m,omitempty"`  // mcall: method
	Op string  `json:"op,omitempty"` // bin: add | sub | mul
	Conv bool  `json:"conv,omitempty"` // glob of a constant of a named type: rendered int(x)
	A  *exprT  `json:"a,omitempty"`  // bin left, call argument, mcall receiver
	B  *exprT  `json:"b,omitempty"`  // bin right, mcall argument
}

// stmtT: K = print | set | eval | lit (func() { S }(): the call of a function literal, a statement
// whose first token is `func`)
type stmtT struct {
	K   string `json:"k"`
	Tag int    `json:"tag,omitempty"`
	X   string `json:"x,omitempty"`
	E   *exprT `json:"e,omitempty"`
	S   *stmtT `json:"s,omitempty"`
}

type bodyT struct {
	Guard *exprT  `json:"guard,omitempty"`
	Stmts []stmtT `json:"stmts,omitempty"`
	Ret   *exprT  `json:"ret"`
}

// kexprT: a constant expression. K = num | iota | ref | bin
type kexprT struct {
	K  string  `json:"k"`
	N  int64   `json:"n,omitempty"`
	X  string  `json:"x,omitempty"`
	Op string  `json:"op,omitempty"`
	A  *kexprT `json:"a,omitempty"`
	B  *kexprT `json:"b,omitempty"`
}

func (e *kexprT) sexp() string {
	switch e.K {
	case "num":
		return common.L("num", fmt.Sprint(e.N))
	case "iota":
		return "iota"
	case "ref":
		return common.L("ref", common.Q(e.X))
	case "bin":
		return common.L("bin", e.Op, e.A.sexp(), e.B.sexp())
	}
	return "(bad)"
}

// src renders the expression; iota >= 0 replaces the identifier iota by that literal.
func (e *kexprT) src(rn renamer, iota int) string {
	switch e.K {
	case "num":
		if e.N < 0 {
			return fmt.Sprintf("(%d)", e.N)
		}
		return fmt.Sprint(e.N)
	case "iota":
		if iota >= 0 {
			return fmt.Sprint(iota)
		}
		return "iota"
	case "ref":
		return rn("var", e.X)
	case "bin":
		op := map[string]string{"add": "+", "sub": "-", "mul": "*"}[e.Op]
		return "(" + e.A.src(rn, iota) + " " + op + " " + e.B.src(rn, iota) + ")"
	}
	return "BAD"
}

// itemT: K = const | var | closure | func | type | method | init | stmt | define
//
// A const declaration is a run of const items: one per spec, `Last` on the final one. `Paren`: the
// declaration is written `const ( … )` (`Open` on its first spec); `Implicit`: the spec is written
// without type and expression (it repeats the previous ones, KE holds the repeated expression);
// `Typ`: "" (untyped), "int", or a named type.
type itemT struct {
	KE       *kexprT `json:"ke,omitempty"`
	Last     bool    `json:"last,omitempty"`
	Paren    bool    `json:"paren,omitempty"`
	Open     bool    `json:"open,omitempty"`
	Implicit bool    `json:"implicit,omitempty"`
	Typ      string  `json:"typ,omitempty"`
	K string `json:"k"`
	X string `json:"x,omitempty"` // declared name (var, closure, func, type, define); method: type
	M string `json:"m,omitempty"` // method name
	E *exprT `json:"e,omitempty"`
	B *bodyT `json:"b,omitempty"`
	S *stmtT `json:"s,omitempty"`
}

func num(n int64) *exprT              { return &exprT{K: "num", N: n} }
func glob(x string) *exprT            { return &exprT{K: "glob", X: x} }
func bin(op string, a, b *exprT) *exprT { return &exprT{K: "bin", Op: op, A: a, B: b} }
func call(f string, a *exprT) *exprT  { return &exprT{K: "call", X: f, A: a} }

// ---- protocol terms ----

func (e *exprT) sexp() string {
	switch e.K {
	case "num":
		return common.L("num", fmt.Sprint(e.N))
	case "arg", "recv":
		return e.K
	case "glob":
		return common.L("glob", common.Q(e.X))
	case "bin":
		return common.L("bin", e.Op, e.A.sexp(), e.B.sexp())
	case "call", "callv":
		return common.L(e.K, common.Q(e.X), e.A.sexp())
	case "mcall":
		return common.L("mcall", common.Q(e.X), common.Q(e.M), e.A.sexp(), e.B.sexp())
	}
	return "(bad)"
}

func (s *stmtT) sexp() string {
	switch s.K {
	case "print":
		return common.L("print", fmt.Sprint(s.Tag), s.E.sexp())
	case "set":
		return common.L("set", common.Q(s.X), s.E.sexp())
	case "eval":
		return common.L("eval", s.E.sexp())
	case "lit":
		return common.L("lit", s.S.sexp())
	}
	return "(bad)"
}

func (b *bodyT) sexp() string {
	g := "none"
	if b.Guard != nil {
		g = b.Guard.sexp()
	}
	ss := make([]string, len(b.Stmts))
	for i := range b.Stmts {
		ss[i] = b.Stmts[i].sexp()
	}
	return common.L("body", g, common.L(ss...), b.Ret.sexp())
}

func (it *itemT) sexp() string {
	switch it.K {
	case "const":
		return common.L("const", common.Q(it.X), it.KE.sexp(), common.B(it.Last))
	case "var", "define":
		return common.L(it.K, common.Q(it.X), it.E.sexp())
	case "closure", "func":
		return common.L(it.K, common.Q(it.X), it.B.sexp())
	case "type":
		return common.L("type", common.Q(it.X))
	case "method":
		return common.L("method", common.Q(it.X), common.Q(it.M), it.B.sexp())
	case "init":
		return common.L("init", it.B.sexp())
	case "stmt":
		return common.L("stmt", it.S.sexp())
	}
	return "(bad)"
}

func itemsSexp(items []itemT) string {
	ss := make([]string, len(items))
	for i := range items {
		ss[i] = items[i].sexp()
	}
	return common.L(ss...)
}

// ---- Go source ----

// rn renames an identifier (identity for plain programs; versions for the history reference).
type renamer func(kind, name string) string

func plain(_, name string) string { return name }

func (e *exprT) src(rn renamer) string {
	switch e.K {
	case "num":
		if e.N < 0 {
			return fmt.Sprintf("(%d)", e.N)
		}
		return fmt.Sprint(e.N)
	case "arg":
		return "n"
	case "recv":
		return "int(r)"
	case "glob":
		if e.Conv {
			return "int(" + rn("var", e.X) + ")"
		}
		return rn("var", e.X)
	case "bin":
		op := map[string]string{"add": "+", "sub": "-", "mul": "*"}[e.Op]
		return "(" + e.A.src(rn) + " " + op + " " + e.B.src(rn) + ")"
	case "call":
		return rn("func", e.X) + "(" + e.A.src(rn) + ")"
	case "callv":
		return rn("var", e.X) + "(" + e.A.src(rn) + ")"
	case "mcall":
		return rn("type", e.X) + "(" + e.A.src(rn) + ")." + rn("method:"+e.X, e.M) + "(" + e.B.src(rn) + ")"
	}
	return "BAD"
}

// TAG is replaced by the program's tag for the compiled batch and by "" for the interpreter.
const TAG = "TAGVALUE"

func (s *stmtT) src(rn renamer) string {
	switch s.K {
	case "print":
		return fmt.Sprintf("fmt.Println(%q, %s)", fmt.Sprintf("%st%d", TAG, s.Tag), s.E.src(rn))
	case "set":
		return rn("var", s.X) + " = " + s.E.src(rn)
	case "eval":
		return "_ = " + s.E.src(rn)
	case "lit":
		return "func() { " + s.S.src(rn) + " }()"
	}
	return "BAD"
}

// inner renders the inside of a function body; withRet = false for init and main.
func (b *bodyT) inner(rn renamer, withRet bool) string {
	var sb strings.Builder
	if b.Guard != nil && withRet {
		sb.WriteString("if n <= 0 { return " + b.Guard.src(rn) + " }; ")
	}
	for i := range b.Stmts {
		sb.WriteString(b.Stmts[i].src(rn) + "; ")
	}
	if withRet {
		sb.WriteString("return " + b.Ret.src(rn))
	}
	return sb.String()
}

// src renders one item as the text a user would type (one line).
func (it *itemT) src(rn renamer) string {
	switch it.K {
	case "const":
		spec := rn("var", it.X)
		if !it.Implicit {
			if it.Typ != "" {
				t := it.Typ
				if t != "int" {
					t = rn("type", t)
				}
				spec += " " + t
			}
			spec += " = " + it.KE.src(rn, -1)
		}
		if !it.Paren {
			return "const " + spec
		}
		s := "\t" + spec
		if it.Open {
			s = "const (\n" + s
		}
		if it.Last {
			s += "\n)"
		}
		return s
	case "var":
		return "var " + rn("var", it.X) + " = " + it.E.src(rn)
	case "define":
		return rn("var", it.X) + " := " + it.E.src(rn)
	case "closure":
		return "var " + rn("var", it.X) + " = func(n int) int { " + it.B.inner(rn, true) + " }"
	case "func":
		if it.X == "main" {
			return "func main() { " + it.B.inner(rn, false) + " }"
		}
		return "func " + rn("func", it.X) + "(n int) int { " + it.B.inner(rn, true) + " }"
	case "type":
		return "type " + rn("type", it.X) + " int"
	case "method":
		return "func (r " + rn("type", it.X) + ") " + rn("method:"+it.X, it.M) + "(n int) int { " + it.B.inner(rn, true) + " }"
	case "init":
		return "func init() { " + it.B.inner(rn, false) + " }"
	case "stmt":
		return it.S.src(rn)
	}
	return "BAD"
}

func (it *itemT) isStmt() bool { return it.K == "stmt" || it.K == "define" }

// textSrc renders one text of a session (a run of declarations, or a run of statements).
func textSrc(items []itemT) string {
	ls := make([]string, len(items))
	for i := range items {
		ls[i] = items[i].src(plain)
	}
	return strings.Join(ls, "\n")
}

// wholeSrc renders the program as one file: declarations at package level, statements in main.
func wholeSrc(items []itemT) string {
	var sb strings.Builder
	sb.WriteString("package main\n\nimport \"fmt\"\n\n")
	for i := range items {
		if !items[i].isStmt() {
			sb.WriteString(items[i].src(plain) + "\n")
		}
	}
	sb.WriteString("\nfunc main() {\n")
	for i := range items {
		if items[i].isStmt() {
			sb.WriteString("\t" + items[i].src(plain) + "\n")
		}
	}
	sb.WriteString("}\n")
	return sb.String()
}

// split = Piecewise.split: the chunks of a cut list (lengths), the rest is the last chunk.
func split(cuts []int, items []itemT) [][]itemT {
	var out [][]itemT
	for _, n := range cuts {
		if n > len(items) {
			n = len(items)
		}
		out = append(out, items[:n])
		items = items[n:]
	}
	return append(out, items)
}

// runs = Piecewise.runs: maximal runs of declarations / of statements.
func runs(items []itemT) [][]itemT {
	var out [][]itemT
	for i := 0; i < len(items); {
		j := i + 1
		for j < len(items) && items[j].isStmt() == items[i].isStmt() {
			j++
		}
		out = append(out, items[i:j])
		i = j
	}
	return out
}

func textsOf(cuts []int, items []itemT) [][]itemT {
	var out [][]itemT
	for _, c := range split(cuts, items) {
		out = append(out, runs(c)...)
	}
	return out
}

func forYaegi(src string) string { return strings.ReplaceAll(src, TAG, "") }
