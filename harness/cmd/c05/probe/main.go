package main

import (
	"fmt"
	"os"
	"os/exec"
	"time"

	"verif/harness/common"
)

func main() {
	for _, f := range os.Args[1:] {
		b, _ := os.ReadFile(f)
		y := common.RunYaegi(string(b), 10*time.Second)
		fmt.Printf("=== %s\n--- yaegi: err=%q crash=%q\n%s", f, y.Err, y.Crash, y.Stdout)
		out, err := exec.Command("go", "run", f).CombinedOutput()
		fmt.Printf("--- go: %v\n%s", err, out)
	}
}
