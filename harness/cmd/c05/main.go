// C05 correspondence harness (see the header of check.go for the comparison performed).
package main

import (
	"flag"
	"fmt"
	"os"
	"runtime"
	"sort"
	"strings"
	"sync"
	"time"

	"verif/harness/common"
)

var exploreFlag = flag.Bool("explore", false, "developer mode: interpreter vs toolchain only, statistics per form")
var formsFlag = flag.String("forms", "", "developer mode: comma separated forms")
var showFlag = flag.Int("show", 3, "developer mode: disagreements shown per form")
var showClassFlag = flag.String("showclass", "", "developer mode: also show the inputs of this class on which the interpreter differs from the toolchain")

func runAllImpl(progs []Prog) []implT {
	out := make([]implT, len(progs))
	var wg sync.WaitGroup
	sem := make(chan struct{}, runtime.NumCPU())
	for i := range progs {
		wg.Add(1)
		sem <- struct{}{}
		go func(i int) {
			defer wg.Done()
			defer func() { <-sem }()
			out[i] = runImpl(progs[i].source(), 10*time.Second)
		}(i)
	}
	wg.Wait()
	return out
}

type refT struct{ Out, Err string }

func runAllRef(progs []Prog) ([]refT, error) {
	out := make([]refT, len(progs))
	const chunk = 250
	for lo := 0; lo < len(progs); lo += chunk {
		hi := lo + chunk
		if hi > len(progs) {
			hi = len(progs)
		}
		srcs := make([]string, hi-lo)
		for i := lo; i < hi; i++ {
			srcs[i-lo] = progs[i].source()
		}
		rs, err := common.RunGoBatch(srcs, 20*time.Second)
		if err != nil {
			return nil, err
		}
		for i, r := range rs {
			o, e := refOutcome(r)
			out[lo+i] = refT{o, e}
		}
	}
	return out, nil
}

func explore(run *common.Run) {
	fl := forms
	if *formsFlag != "" {
		fl = strings.Split(*formsFlag, ",")
	}
	o := genOpts{plain: true, funcFld: true, sigs: true, maxDepth: 3}
	progs := generate(run.Rng, run.Thorough(), o, fl)
	drv, err := common.StartDriver("C05")
	if err != nil {
		fmt.Println("driver:", err)
		return
	}
	defer drv.Close()
	lines := make([]string, len(progs))
	for i, p := range progs {
		lines[i] = p.line()
	}
	answers, err := drv.AskAll(lines)
	if err != nil {
		fmt.Println("driver:", err)
		return
	}
	impls := runAllImpl(progs)
	refs, err := runAllRef(progs)
	if err != nil {
		fmt.Println("ref:", err)
		return
	}
	type st struct{ n, bad, ym, gm int }
	stats := map[string]*st{}
	shown := map[string]int{}
	classes := map[string][2]int{}
	for i, p := range progs {
		s := stats[p.Form]
		if s == nil {
			s = &st{}
			stats[p.Form] = s
		}
		s.n++
		ans := common.Fields(answers[i])
		if strings.HasPrefix(p.Form, "host-") {
			ans["class"], ans["y"], ans["g"] = hostClass(p), impls[i].Out, refs[i].Out
		}
		differ := impls[i].Out != refs[i].Out
		c := classes[ans["class"]]
		c[0]++
		if differ {
			s.bad++
			c[1]++
		}
		classes[ans["class"]] = c
		ybad := impls[i].Out != ans["y"]
		gbad := refs[i].Out != ans["g"]
		unl := differ && ans["class"] == "in-domain"
		if ybad {
			s.ym++
		}
		if gbad {
			s.gm++
		}
		if (ybad || gbad || unl || (differ && *showClassFlag != "" && ans["class"] == *showClassFlag)) && shown[p.Form] < *showFlag {
			shown[p.Form]++
			fmt.Printf("=========== %s  ybad=%v gbad=%v unlisted=%v\n%s\n--- impl: %s   (%s)\n--- y:    %s\n--- ref:  %s   (%s)\n--- g:    %s\n--- class %s\n", p.Form, ybad, gbad, unl, p.source(), impls[i].Out, impls[i].Err, ans["y"], refs[i].Out, refs[i].Err, ans["g"], ans["class"])
			if ans["y"] == "" {
				fmt.Println("LINE", lines[i], "ANSWER", answers[i])
			}
		}
	}
	var ks []string
	for k := range stats {
		ks = append(ks, k)
	}
	sort.Strings(ks)
	for _, k := range ks {
		fmt.Printf("%-18s %5d cases, %5d impl!=ref, %5d impl!=y, %5d ref!=g\n", k, stats[k].n, stats[k].bad, stats[k].ym, stats[k].gm)
	}
	ks = ks[:0]
	for k := range classes {
		ks = append(ks, k)
	}
	sort.Strings(ks)
	for _, k := range ks {
		fmt.Printf("class %-36s %5d cases, %5d impl!=ref\n", k, classes[k][0], classes[k][1])
	}
}

func main() {
	run := common.NewRun("C05")
	if *exploreFlag {
		explore(run)
		return
	}
	defer run.Finish()
	check(run)
}

var _ = os.Exit
