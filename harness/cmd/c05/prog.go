package main

// Structured inputs of the C05 harness: a declaration set (struct types with ordered fields,
// embedded by value or by pointer, methods with value or pointer receivers, interface types with
// embedding) and a straight-line scenario over it. The same structure is rendered to Go source
// (for the interpreter and for the toolchain) and to one protocol line (for the Lean models).

import (
	"fmt"
	"sort"
	"strings"

	"verif/harness/common"
)

// Field kinds: int | func | plain (struct-typed, not embedded) | emb (embedded by value) | embptr (embedded *T).
type Field struct {
	Name string `json:"name"`
	Kind string `json:"kind"`
	Typ  int    `json:"typ,omitempty"`
}

// Method of a struct type (Ptr = pointer receiver) or of an interface type; Sig 0 = `()`, 1 = `() int`.
type Method struct {
	Name string `json:"name"`
	Ptr  bool   `json:"ptr,omitempty"`
	Sig  int    `json:"sig,omitempty"`
}

// TypeDecl is one declared type; types refer to each other by index.
type TypeDecl struct {
	Name    string   `json:"name"`
	Iface   bool     `json:"iface,omitempty"`
	Fields  []Field  `json:"fields,omitempty"`
	Methods []Method `json:"methods,omitempty"`
	Embeds  []int    `json:"embeds,omitempty"` // interface types embedded in an interface type
	Host    []Method `json:"host,omitempty"`   // methods of host interfaces (String, Error, Write, Len, Less, Swap); see host.go
}

// TyRef is a type used in an assertion or a type-switch clause.
//
//	named T (struct or interface type) | ptr *T | anon interface{ methods } | nil | empty interface{}
type TyRef struct {
	Kind    string   `json:"kind"`
	Typ     int      `json:"typ,omitempty"`
	Methods []Method `json:"methods,omitempty"`
}

// Recv is the operand of a selector or the source of an interface assignment:
//
//	var v | addr (&v) | ptrvar p | tmp (mkT()) | ifc i | nil
type Recv struct {
	Kind string `json:"kind"`
	Name string `json:"name,omitempty"`
	Typ  int    `json:"typ,omitempty"`  // tmp: the struct type
	Base int    `json:"base,omitempty"` // tmp: first value of the int fields
}

// Stmt is one statement of the scenario.
//
//	var X T Base          X := T{…}                       (int fields Base, Base+1, … in declaration order, depth first)
//	ptr X Y               X := &Y
//	bump Y                every int reachable from Y += 10
//	call R M              R.M()
//	mval X R M            X := R.M
//	callf X               X()
//	mexpr T Ptr M Y       T.M(Y) | (*T).M(&Y)
//	iface X I R           var X I = R                      (I = -1: interface{})
//	assert X Y Ty Two M   X, ok := Y.(Ty) …  |  X := Y.(Ty); then X.M() if M != ""
//	tswitch Y Bind Cl     switch [v :=] Y.(type) { … }     (a clause without types is `default`)
//	dump Y                print every int reachable from Y
//	host F Y              pass Y to a host function (see host.go)
type Stmt struct {
	Op      string    `json:"op"`
	X       string    `json:"x,omitempty"`
	Y       string    `json:"y,omitempty"`
	T       int       `json:"t,omitempty"`
	Base    int       `json:"base,omitempty"`
	R       *Recv     `json:"r,omitempty"`
	M       string    `json:"m,omitempty"`
	Ptr     bool      `json:"ptr,omitempty"`
	Ty      *TyRef    `json:"ty,omitempty"`
	Two     bool      `json:"two,omitempty"`
	Bind    bool      `json:"bind,omitempty"`
	Clauses [][]TyRef `json:"clauses,omitempty"`
	F       string    `json:"f,omitempty"`
}

// Prog is one case.
type Prog struct {
	Types []TypeDecl `json:"types"`
	Stmts []Stmt     `json:"stmts"`
	Form  string     `json:"form,omitempty"` // generator's label of the scenario (statistics only)
}

// ---------------------------------------------------------------- protocol line

func (f Field) sexp() string {
	return common.L(common.Q(f.Name), f.Kind, fmt.Sprint(f.Typ))
}

func (m Method) sexp() string {
	return common.L(common.Q(m.Name), common.B(m.Ptr), fmt.Sprint(m.Sig))
}

func methodsSexp(ms []Method) string {
	s := make([]string, len(ms))
	for i, m := range ms {
		s[i] = m.sexp()
	}
	return common.L(s...)
}

func (t TypeDecl) sexp() string {
	if t.Iface {
		es := make([]string, len(t.Embeds))
		for i, e := range t.Embeds {
			es[i] = fmt.Sprint(e)
		}
		return common.L("iface", common.Q(t.Name), methodsSexp(t.Methods), common.L(es...))
	}
	fs := make([]string, len(t.Fields))
	for i, f := range t.Fields {
		fs[i] = f.sexp()
	}
	return common.L("struct", common.Q(t.Name), common.L(fs...), methodsSexp(t.Methods))
}

func typesSexp(ts []TypeDecl) string {
	s := make([]string, len(ts))
	for i, t := range ts {
		s[i] = t.sexp()
	}
	return common.L(s...)
}

func (t TyRef) sexp() string {
	switch t.Kind {
	case "named", "ptr":
		return common.L(t.Kind, fmt.Sprint(t.Typ))
	case "anon":
		return common.L("anon", methodsSexp(t.Methods))
	}
	return common.L(t.Kind)
}

func (r *Recv) sexp() string {
	if r == nil {
		return common.L("nil")
	}
	switch r.Kind {
	case "tmp":
		return common.L("tmp", fmt.Sprint(r.Typ), fmt.Sprint(r.Base))
	case "nil":
		return common.L("nil")
	}
	return common.L(r.Kind, r.Name)
}

func (s Stmt) sexp() string {
	switch s.Op {
	case "var":
		return common.L("var", s.X, fmt.Sprint(s.T), fmt.Sprint(s.Base))
	case "ptr":
		return common.L("ptr", s.X, s.Y)
	case "bump", "dump":
		return common.L(s.Op, s.Y)
	case "call":
		return common.L("call", s.R.sexp(), common.Q(s.M))
	case "mval":
		return common.L("mval", s.X, s.R.sexp(), common.Q(s.M))
	case "callf":
		return common.L("callf", s.X)
	case "mexpr":
		return common.L("mexpr", fmt.Sprint(s.T), common.B(s.Ptr), common.Q(s.M), s.Y)
	case "iface":
		return common.L("iface", s.X, fmt.Sprint(s.T), s.R.sexp())
	case "assert":
		return common.L("assert", s.X, s.Y, s.Ty.sexp(), common.B(s.Two), common.Q(s.M))
	case "tswitch":
		cs := make([]string, len(s.Clauses))
		for i, c := range s.Clauses {
			ts := make([]string, len(c))
			for j, t := range c {
				ts[j] = t.sexp()
			}
			cs[i] = common.L(ts...)
		}
		return common.L("tswitch", s.Y, common.B(s.Bind), common.L(cs...))
	case "host":
		return common.L("host", s.F, s.R.sexp())
	}
	return common.L("bad")
}

func (p Prog) line() string {
	ss := make([]string, len(p.Stmts))
	for i, s := range p.Stmts {
		ss[i] = s.sexp()
	}
	return "C05 run " + typesSexp(p.Types) + " " + common.L(ss...)
}

// ---------------------------------------------------------------- Go source

func sigText(sig int) string {
	if sig == 1 {
		return "() int"
	}
	return "()"
}

// intPaths lists, depth first in declaration order, the selector paths (explicit field names) of
// every int field reachable from a value of struct type t.
func intPaths(ts []TypeDecl, t int) []string {
	var out []string
	var walk func(t int, prefix string, depth int)
	walk = func(t int, prefix string, depth int) {
		if depth > 12 {
			return
		}
		for _, f := range ts[t].Fields {
			switch f.Kind {
			case "int":
				out = append(out, prefix+"."+f.Name)
			case "plain", "emb", "embptr":
				walk(f.Typ, prefix+"."+f.Name, depth+1)
			}
		}
	}
	walk(t, "", 0)
	return out
}

// literal renders T{…} with the int fields numbered from *next on.
func literal(ts []TypeDecl, t int, next *int, depth int) string {
	var parts []string
	for _, f := range ts[t].Fields {
		switch f.Kind {
		case "int":
			parts = append(parts, fmt.Sprintf("%s: %d", f.Name, *next))
			*next++
		case "func":
			parts = append(parts, fmt.Sprintf("%s: func() { fmt.Println(\"%s.f.%s\") }", f.Name, ts[t].Name, f.Name))
		case "plain", "emb":
			if depth < 12 {
				parts = append(parts, fmt.Sprintf("%s: %s", f.Name, literal(ts, f.Typ, next, depth+1)))
			}
		case "embptr":
			if depth < 12 {
				parts = append(parts, fmt.Sprintf("%s: &%s", f.Name, literal(ts, f.Typ, next, depth+1)))
			}
		}
	}
	return ts[t].Name + "{" + strings.Join(parts, ", ") + "}"
}

func (t TyRef) text(ts []TypeDecl) string {
	switch t.Kind {
	case "named":
		return ts[t.Typ].Name
	case "ptr":
		return "*" + ts[t.Typ].Name
	case "anon":
		ms := make([]string, len(t.Methods))
		for i, m := range t.Methods {
			ms[i] = m.Name + sigText(m.Sig)
		}
		return "interface{ " + strings.Join(ms, "; ") + " }"
	case "nil":
		return "nil"
	case "empty":
		return "interface{}"
	}
	return "BAD"
}

func (r *Recv) text(ts []TypeDecl) string {
	switch r.Kind {
	case "var", "ptrvar", "ifc":
		return r.Name
	case "addr":
		return "(&" + r.Name + ")"
	case "tmp":
		return fmt.Sprintf("mk%s%d()", ts[r.Typ].Name, r.Base)
	case "nil":
		return "nil"
	}
	return "BAD"
}

// source renders the whole program. hostSrc: see host.go.
func (p Prog) source() string {
	ts := p.Types
	var b strings.Builder
	imports := map[string]bool{"fmt": true}
	var body strings.Builder
	usedStruct := map[int]bool{}
	varType := map[string]int{}
	tmps := map[string]string{}
	for _, s := range p.Stmts {
		switch s.Op {
		case "var":
			next := s.Base
			fmt.Fprintf(&body, "\t%s := %s\n\t_ = %s\n", s.X, literal(ts, s.T, &next, 0), s.X)
			varType[s.X] = s.T
		case "ptr":
			fmt.Fprintf(&body, "\t%s := &%s\n\t_ = %s\n", s.X, s.Y, s.X)
		case "bump":
			usedStruct[varType[s.Y]] = true
			fmt.Fprintf(&body, "\tbump%s(&%s)\n", ts[varType[s.Y]].Name, s.Y)
		case "dump":
			usedStruct[varType[s.Y]] = true
			fmt.Fprintf(&body, "\tdump%s(\"%s\", &%s)\n", ts[varType[s.Y]].Name, s.Y, s.Y)
		case "call":
			fmt.Fprintf(&body, "\t%s.%s()\n", s.R.text(ts), s.M)
		case "mval":
			fmt.Fprintf(&body, "\t%s := %s.%s\n", s.X, s.R.text(ts), s.M)
		case "callf":
			fmt.Fprintf(&body, "\t%s()\n", s.X)
		case "mexpr":
			if s.Ptr {
				fmt.Fprintf(&body, "\t(*%s).%s(&%s)\n", ts[s.T].Name, s.M, s.Y)
			} else {
				fmt.Fprintf(&body, "\t%s.%s(%s)\n", ts[s.T].Name, s.M, s.Y)
			}
		case "iface":
			it := "interface{}"
			if s.T >= 0 {
				it = ts[s.T].Name
			}
			fmt.Fprintf(&body, "\tvar %s %s = %s\n\t_ = %s\n", s.X, it, s.R.text(ts), s.X)
		case "assert":
			if s.Two {
				fmt.Fprintf(&body, "\t%s, ok%s := %s.(%s)\n\tfmt.Println(\"ok\", ok%s)\n", s.X, s.X, s.Y, s.Ty.text(ts), s.X)
				if s.M != "" {
					fmt.Fprintf(&body, "\tif ok%s {\n\t\t%s.%s()\n\t}\n", s.X, s.X, s.M)
				}
				fmt.Fprintf(&body, "\t_ = %s\n", s.X)
			} else {
				fmt.Fprintf(&body, "\t%s := %s.(%s)\n\tfmt.Println(\"asserted\")\n", s.X, s.Y, s.Ty.text(ts))
				if s.M != "" {
					fmt.Fprintf(&body, "\t%s.%s()\n", s.X, s.M)
				}
				fmt.Fprintf(&body, "\t_ = %s\n", s.X)
			}
		case "tswitch":
			if s.Bind {
				fmt.Fprintf(&body, "\tswitch w := %s.(type) {\n", s.Y)
			} else {
				fmt.Fprintf(&body, "\tswitch %s.(type) {\n", s.Y)
			}
			for k, c := range s.Clauses {
				if len(c) == 0 {
					fmt.Fprintf(&body, "\tdefault:\n")
				} else {
					xs := make([]string, len(c))
					for j, t := range c {
						xs[j] = t.text(ts)
					}
					fmt.Fprintf(&body, "\tcase %s:\n", strings.Join(xs, ", "))
				}
				fmt.Fprintf(&body, "\t\tfmt.Println(\"case\", %d)\n", k)
				if s.Bind {
					fmt.Fprintf(&body, "\t\t_ = w\n")
				}
			}
			fmt.Fprintf(&body, "\t}\n")
		case "host":
			body.WriteString(hostStmt(ts, s, imports))
		}
		if s.R != nil && s.R.Kind == "tmp" {
			next := s.R.Base
			name := fmt.Sprintf("mk%s%d", ts[s.R.Typ].Name, s.R.Base)
			tmps[name] = fmt.Sprintf("func %s() %s { return %s }\n", name, ts[s.R.Typ].Name, literal(ts, s.R.Typ, &next, 0))
		}
	}
	b.WriteString("package main\n\nimport (\n")
	var imps []string
	for k := range imports {
		imps = append(imps, k)
	}
	sort.Strings(imps)
	for _, k := range imps {
		fmt.Fprintf(&b, "\t%q\n", k)
	}
	b.WriteString(")\n\n")
	b.WriteString(declSource(ts))
	b.WriteString(hostDecls(ts))
	// helpers
	var us []int
	for t := range usedStruct {
		us = append(us, t)
	}
	sort.Ints(us)
	for _, t := range us {
		paths := intPaths(ts, t)
		fmt.Fprintf(&b, "func bump%s(p *%s) {\n", ts[t].Name, ts[t].Name)
		for _, q := range paths {
			fmt.Fprintf(&b, "\tp%s += 10\n", q)
		}
		fmt.Fprintf(&b, "}\n\nfunc dump%s(s string, p *%s) {\n\tfmt.Println(s", ts[t].Name, ts[t].Name)
		for _, q := range paths {
			fmt.Fprintf(&b, ", p%s", q)
		}
		b.WriteString(")\n}\n\n")
	}
	var tn []string
	for k := range tmps {
		tn = append(tn, k)
	}
	sort.Strings(tn)
	for _, k := range tn {
		b.WriteString(tmps[k] + "\n")
	}
	b.WriteString("func main() {\n" + body.String() + "}\n")
	return b.String()
}

// declSource renders the type and method declarations.
func declSource(ts []TypeDecl) string {
	var b strings.Builder
	for ti, t := range ts {
		if t.Iface {
			fmt.Fprintf(&b, "type %s interface {\n", t.Name)
			for _, m := range t.Methods {
				fmt.Fprintf(&b, "\t%s%s\n", m.Name, sigText(m.Sig))
			}
			for _, e := range t.Embeds {
				fmt.Fprintf(&b, "\t%s\n", ts[e].Name)
			}
			b.WriteString("}\n\n")
			continue
		}
		fmt.Fprintf(&b, "type %s struct {\n", t.Name)
		for _, f := range t.Fields {
			switch f.Kind {
			case "int":
				fmt.Fprintf(&b, "\t%s int\n", f.Name)
			case "func":
				fmt.Fprintf(&b, "\t%s func()\n", f.Name)
			case "plain":
				fmt.Fprintf(&b, "\t%s %s\n", f.Name, ts[f.Typ].Name)
			case "emb":
				fmt.Fprintf(&b, "\t%s\n", ts[f.Typ].Name)
			case "embptr":
				fmt.Fprintf(&b, "\t*%s\n", ts[f.Typ].Name)
			}
		}
		b.WriteString("}\n\n")
		paths := intPaths(ts, ti)
		own := ""
		for _, f := range t.Fields {
			if f.Kind == "int" {
				own = f.Name
				break
			}
		}
		for _, m := range t.Methods {
			star := ""
			if m.Ptr {
				star = "*"
			}
			ret := ""
			if m.Sig == 1 {
				ret = " int"
			}
			fmt.Fprintf(&b, "func (r %s%s) %s()%s {\n", star, t.Name, m.Name, ret)
			if own != "" {
				fmt.Fprintf(&b, "\tr.%s++\n", own)
			}
			fmt.Fprintf(&b, "\tfmt.Println(\"%s.%s\"", t.Name, m.Name)
			for _, q := range paths {
				fmt.Fprintf(&b, ", r%s", q)
			}
			b.WriteString(")\n")
			if m.Sig == 1 {
				if own != "" {
					fmt.Fprintf(&b, "\treturn r.%s\n", own)
				} else {
					b.WriteString("\treturn 0\n")
				}
			}
			b.WriteString("}\n\n")
		}
	}
	return b.String()
}
