package main

import (
	"bytes"
	"fmt"
	"strings"
	"time"

	"github.com/traefik/yaegi/interp"
	"github.com/traefik/yaegi/stdlib"
	"verif/harness/common"
)

// outcome is the canonical form of what a program did: the printed lines (words joined by ',',
// lines by ';') followed by a status: "" (ran to completion), "!panic" (stopped by a run-time
// panic or error), "!reject" (not accepted: nothing ran), "!crash", "!timeout".
func canon(stdout, status string) string {
	var ls []string
	for _, l := range strings.Split(stdout, "\n") {
		if f := strings.Fields(l); len(f) > 0 {
			ls = append(ls, strings.Join(f, ","))
		}
	}
	if status == "!reject" {
		return "!reject"
	}
	if status != "" {
		ls = append(ls, status)
	}
	if len(ls) == 0 {
		return "-"
	}
	return strings.Join(ls, ";")
}

type implT struct {
	Out string
	Err string
}

// runImpl compiles and executes src in a fresh interpreter. Compile and Execute are separate so
// that a compile-time rejection is told from a run-time failure.
func runImpl(src string, timeout time.Duration) (res implT) {
	var so, se bytes.Buffer
	type r struct {
		status, err string
	}
	done := make(chan r, 1)
	go func() {
		var out r
		defer func() {
			if e := recover(); e != nil {
				out = r{"!crash", common.FirstLine(fmt.Sprint(e))}
			}
			done <- out
		}()
		i := interp.New(interp.Options{Stdout: &so, Stderr: &se})
		if err := i.Use(stdlib.Symbols); err != nil {
			out = r{"!crash", err.Error()}
			return
		}
		p, err := i.Compile(src)
		if err != nil {
			out = r{"!reject", common.FirstLine(err.Error())}
			return
		}
		if _, err = i.Execute(p); err != nil {
			out = r{"!panic", common.FirstLine(err.Error())}
		}
	}()
	select {
	case o := <-done:
		return implT{Out: canon(so.String(), o.status), Err: o.err}
	case <-time.After(timeout):
		return implT{Out: canon("", "!timeout"), Err: "timeout"}
	}
}

func refOutcome(g common.GoResult) (string, string) {
	switch {
	case g.CompileErr != "":
		return "!reject", common.FirstLine(g.CompileErr)
	case g.Timeout:
		return canon(g.Stdout, "!timeout"), "timeout"
	case g.Exit != 0:
		return canon(g.Stdout, "!panic"), g.Panic()
	}
	return canon(g.Stdout, ""), ""
}
