package main

// Host interfaces: script types implementing error, fmt.Stringer, io.Writer and sort.Interface
// through the generated hierarchies, handed to host functions. Compared behaviourally (interpreter
// vs compiled program) only; the Lean models do not cover them.

import (
	"fmt"
	"math/rand"
	"strings"
)

var hostMethods = map[string][]string{
	"stringer": {"String"},
	"println":  {"String"},
	"error":    {"Error"},
	"writer":   {"Write"},
	"fprint":   {"Write"},
	"sort":     {"Len", "Less", "Swap"},
	// the converted value is used after the variable it was taken from has changed (F05-18, repaired by 32d4f06)
	"stringer-bump":     {"String"}, // var s fmt.Stringer = SRC; every int of v += 10; fmt.Println(s)
	"error-bump":        {"Error"},
	"stringer-reassign": {"String"}, // var s fmt.Stringer = SRC; the converted variable is assigned another value; fmt.Println(s)
	"assert-stringer":   {"String"}, // var x interface{} = SRC; every int of v += 10; s, ok := x.(fmt.Stringer); fmt.Println(ok, s)
}

var hostForms = []string{"host-stringer", "host-println", "host-error", "host-writer", "host-fprint", "host-sort",
	"host-stringer-bump", "host-error-bump", "host-stringer-reassign", "host-assert-stringer"}

// hostMethodSource renders one host method of struct type t.
func hostMethodSource(ts []TypeDecl, ti int, m Method) string {
	t := ts[ti]
	star := ""
	if m.Ptr {
		star = "*"
	}
	own := ""
	for _, f := range t.Fields {
		if f.Kind == "int" {
			own = f.Name
			break
		}
	}
	var ints []string
	for _, q := range intPaths(ts, ti) {
		ints = append(ints, "r"+q)
	}
	args := strings.Join(ints, ", ")
	inc := ""
	if own != "" {
		inc = "\tr." + own + "++\n"
	}
	switch m.Name {
	case "String", "Error":
		return fmt.Sprintf("func (r %s%s) %s() string {\n%s\treturn fmt.Sprint(\"%s.%s\", \" \", %s)\n}\n\n", star, t.Name, m.Name, inc, t.Name, m.Name, strings.Join(ints, ", \" \", "))
	case "Write":
		return fmt.Sprintf("func (r %s%s) Write(p []byte) (int, error) {\n%s\tfmt.Println(\"%s.Write\", string(p), %s)\n\treturn len(p), nil\n}\n\n", star, t.Name, inc, t.Name, args)
	case "Len":
		return fmt.Sprintf("func (r %s%s) Len() int {\n%s\treturn len(data)\n}\n\n", star, t.Name, inc)
	case "Less":
		return fmt.Sprintf("func (r %s%s) Less(i, j int) bool {\n%s\treturn data[i] < data[j]\n}\n\n", star, t.Name, inc)
	case "Swap":
		return fmt.Sprintf("func (r %s%s) Swap(i, j int) {\n%s\tdata[i], data[j] = data[j], data[i]\n\tfmt.Println(\"%s.Swap\", i, j, %s)\n}\n\n", star, t.Name, inc, t.Name, args)
	}
	return ""
}

func hostDecls(ts []TypeDecl) string {
	var b strings.Builder
	sortUsed := false
	for ti, t := range ts {
		for _, m := range t.Host {
			b.WriteString(hostMethodSource(ts, ti, m))
			if m.Name == "Len" {
				sortUsed = true
			}
		}
	}
	if sortUsed {
		b.WriteString("var data = []int{3, 1, 2, 5, 4}\n\n")
	}
	return b.String()
}

func hostStmt(ts []TypeDecl, s Stmt, imports map[string]bool) string {
	src := s.R.text(ts)
	switch s.F {
	case "stringer":
		return fmt.Sprintf("\tvar s fmt.Stringer = %s\n\tfmt.Println(s)\n\tfmt.Printf(\"%%v|%%s|%%d\\n\", s, s, 7)\n", src)
	case "println":
		return fmt.Sprintf("\tfmt.Println(%s)\n\tfmt.Printf(\"%%v|%%d\\n\", %s, 7)\n", src, src)
	case "error":
		return fmt.Sprintf("\tvar e error = %s\n\tfmt.Println(e)\n\tfmt.Println(fmt.Errorf(\"w: %%w\", e))\n", src)
	case "writer":
		imports["io"] = true
		return fmt.Sprintf("\tvar w io.Writer = %s\n\tfmt.Fprintf(w, \"a%%db\", 7)\n\tio.WriteString(w, \"cd\")\n", src)
	case "fprint":
		return fmt.Sprintf("\tfmt.Fprint(%s, \"xy\", 3)\n", src)
	case "sort":
		imports["sort"] = true
		return fmt.Sprintf("\tsort.Sort(%s)\n\tfmt.Println(data)\n", src)
	case "stringer-bump":
		return fmt.Sprintf("\tvar s fmt.Stringer = %s\n\tbump%s(&v)\n\tfmt.Println(s)\n\tfmt.Println(s)\n", src, ts[s.T].Name)
	case "error-bump":
		return fmt.Sprintf("\tvar e error = %s\n\tbump%s(&v)\n\tfmt.Println(e)\n", src, ts[s.T].Name)
	case "stringer-reassign":
		next := 50
		lit := literal(ts, s.T, &next, 0)
		re := "v = " + lit
		if s.R.Kind == "ptrvar" {
			re = "p = &" + lit
		}
		return fmt.Sprintf("\tvar s fmt.Stringer = %s\n\t%s\n\tfmt.Println(s)\n", src, re)
	case "assert-stringer":
		return fmt.Sprintf("\tvar x interface{} = %s\n\tbump%s(&v)\n\ts, ok := x.(fmt.Stringer)\n\tfmt.Println(ok)\n\tif ok {\n\t\tfmt.Println(s)\n\t}\n", src, ts[s.T].Name)
	}
	return ""
}

// embedClosure: struct types reachable from t through embedded fields (t included).
func embedClosure(ts []TypeDecl, t int) []int {
	seen := map[int]bool{}
	var out []int
	var walk func(t, d int)
	walk = func(t, d int) {
		if seen[t] || d > 12 {
			return
		}
		seen[t] = true
		out = append(out, t)
		for _, f := range ts[t].Fields {
			if f.Kind == "emb" || f.Kind == "embptr" {
				walk(f.Typ, d+1)
			}
		}
	}
	walk(t, 0)
	return out
}

func genHost(r *rand.Rand, ts0 []TypeDecl, t int, form string) Prog {
	kind := strings.TrimPrefix(form, "host-")
	ts := make([]TypeDecl, len(ts0))
	copy(ts, ts0)
	cl := embedClosure(ts, t)
	place := func(name string) {
		o := t
		if r.Intn(100) < 60 {
			o = cl[r.Intn(len(cl))]
		}
		m := Method{Name: name, Ptr: r.Intn(100) < 40}
		for _, x := range ts[o].Host {
			if x.Name == name {
				return
			}
		}
		h := append([]Method{}, ts[o].Host...)
		ts[o].Host = append(h, m)
	}
	for _, name := range hostMethods[kind] {
		place(name)
		if r.Intn(100) < 15 {
			place(name) // possibly a second provider (shadowing / ambiguity)
		}
	}
	p := Prog{Types: ts, Form: form}
	p.Stmts = append(p.Stmts, Stmt{Op: "var", X: "v", T: t, Base: 1})
	src := ifaceSrc(r)
	if src.Kind == "ptrvar" {
		p.Stmts = append(p.Stmts, Stmt{Op: "ptr", X: "p", Y: "v"})
	}
	// passing a value directly to Println is generated only when the method will be found by the
	// toolchain (otherwise the struct is printed field by field, pointers included)
	if kind == "println" {
		ok := false
		for _, m := range hostMethodSet(ts, t, src.Kind != "var") {
			if m.Name == "String" {
				ok = true
			}
		}
		if !ok {
			kind = "stringer"
		}
	}
	p.Stmts = append(p.Stmts, Stmt{Op: "host", F: kind, R: src, T: t})
	p.Stmts = append(p.Stmts, Stmt{Op: "dump", Y: "v"})
	return p
}

// hostOcc: occurrences of the name (host method, ordinary method or field) by depth, as the Go
// specification counts them, and the first method found depth first (what lookupMethod finds).
type hostOcc struct {
	owner  int
	depth  int
	meth   bool
	ptr    bool
	viaPtr bool
}

func hostOccs(ts []TypeDecl, t int, name string) []hostOcc {
	var out []hostOcc
	var walk func(t, d int, via bool)
	walk = func(t, d int, via bool) {
		if d > 12 {
			return
		}
		for _, m := range ts[t].Host {
			if m.Name == name {
				out = append(out, hostOcc{t, d, true, m.Ptr, via})
			}
		}
		for _, f := range ts[t].Fields {
			if f.Name == name {
				out = append(out, hostOcc{t, d, false, false, via})
			}
		}
		for _, f := range ts[t].Fields {
			switch f.Kind {
			case "emb":
				walk(f.Typ, d+1, via)
			case "embptr":
				walk(f.Typ, d+1, true)
			}
		}
	}
	walk(t, 0, false)
	return out
}

// hostMethodSet: host methods in the method set of t / *t by the Go rules.
func hostMethodSet(ts []TypeDecl, t int, ptr bool) []Method {
	var out []Method
	for _, name := range []string{"String", "Error", "Write", "Len", "Less", "Swap"} {
		os := hostOccs(ts, t, name)
		if len(os) == 0 {
			continue
		}
		min, cnt := 1<<30, 0
		var at hostOcc
		for _, o := range os {
			if o.depth < min {
				min, cnt, at = o.depth, 1, o
			} else if o.depth == min {
				cnt++
			}
		}
		if cnt == 1 && at.meth && (ptr || !at.ptr || at.viaPtr) {
			out = append(out, Method{Name: name, Ptr: at.ptr})
		}
	}
	return out
}

// hostClass: class label of a host case (a predicate of the input).
func hostClass(p Prog) string {
	var t int
	var src *Recv
	kind := ""
	for _, s := range p.Stmts {
		if s.Op == "var" {
			t = s.T
		}
		if s.Op == "host" {
			src, kind = s.R, s.F
		}
	}
	if src == nil {
		return "in-domain"
	}
	ptr := src.Kind != "var"
	ms := map[string]bool{}
	for _, m := range hostMethodSet(p.Types, t, ptr) {
		ms[m.Name] = true
	}
	recvPtr := map[string]bool{}
	for _, m := range hostMethodSet(p.Types, t, ptr) {
		recvPtr[m.Name] = m.Ptr
	}
	for _, name := range hostMethods[kind] {
		os := hostOccs(p.Types, t, name)
		anyMeth := false
		for _, o := range os {
			if o.meth {
				anyMeth = true
			}
		}
		if !ms[name] {
			if anyMeth {
				return "host-implements-names-only"
			}
			return "host-missing-method"
		}
	}
	if kind == "assert-stringer" {
		// `var x interface{} = SRC; …; x.(fmt.Stringer)`: is the value wrapped in a valueInterface when it
		// is stored in interface{} (genDestValue: only when its type has a method attached to it)
		wrapped := false
		for _, m := range append(append([]Method{}, p.Types[t].Methods...), p.Types[t].Host...) {
			if !ptr || m.Ptr {
				wrapped = true
			}
		}
		if !wrapped {
			// F06 in its host form: an unwrapped value has no methods for the host-side check.
			// (A wrapped non-pointer value was re-read from its source variable up to ccca582: F05-19, fixed.)
			return "host-assert-unwrapped"
		}
	}
	return "in-domain"
}
