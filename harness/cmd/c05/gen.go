package main

// Seeded generators: declaration sets and scenarios.

import (
	"fmt"
	"math/rand"
	"strings"
)

var methodPool = []string{"Get", "Inc", "Name", "Put"}

type genOpts struct {
	plain    bool // struct-typed fields that are not embedded
	funcFld  bool // func() fields named like methods
	sigs     bool // methods returning int (signature mismatches with interfaces)
	maxDepth int
}

// genTypes builds a declaration set: nS struct types (type i may embed types j < i) followed by
// interface types.
func genTypes(r *rand.Rand, o genOpts) []TypeDecl {
	nS := 3 + r.Intn(4)
	ts := make([]TypeDecl, 0, nS+4)
	depth := make([]int, nS)
	for i := 0; i < nS; i++ {
		name := string(rune('A' + i))
		t := TypeDecl{Name: name}
		t.Fields = append(t.Fields, Field{Name: "n" + strings.ToLower(name), Kind: "int"})
		// methods
		have := map[string]bool{}
		for _, m := range methodPool {
			if r.Intn(100) < 38 {
				sig := 0
				if o.sigs && r.Intn(100) < 15 {
					sig = 1
				}
				t.Methods = append(t.Methods, Method{Name: m, Ptr: r.Intn(100) < 45, Sig: sig})
				have[m] = true
			}
		}
		// struct-typed fields
		if i > 0 {
			k := r.Intn(4)
			if i == nS-1 && k == 0 {
				k = 1 + r.Intn(2)
			}
			perm := r.Perm(i)
			for _, j := range perm {
				if k == 0 {
					break
				}
				if depth[j]+1 > o.maxDepth {
					continue
				}
				k--
				kind := "emb"
				switch x := r.Intn(100); {
				case x < 35:
					kind = "embptr"
				case x < 45 && o.plain:
					kind = "plain"
				}
				fn := ts[j].Name
				if kind == "plain" {
					fn = "x" + strings.ToLower(ts[j].Name)
				}
				t.Fields = append(t.Fields, Field{Name: fn, Kind: kind, Typ: j})
				if depth[j]+1 > depth[i] {
					depth[i] = depth[j] + 1
				}
			}
		}
		// sometimes two of the embedded types get a func() field of the same name: a selector that is
		// ambiguous between two FIELDS at one depth (F05-17, repaired by f4dfaf4)
		if o.funcFld && r.Intn(100) < 12 {
			var embs []int
			for _, f := range t.Fields {
				if f.Kind == "emb" || f.Kind == "embptr" {
					embs = append(embs, f.Typ)
				}
			}
			if len(embs) >= 2 {
				m := methodPool[r.Intn(len(methodPool))]
				free := func(j int) bool {
					for _, x := range ts[j].Methods {
						if x.Name == m {
							return false
						}
					}
					for _, x := range ts[j].Fields {
						if x.Name == m {
							return false
						}
					}
					return true
				}
				if free(embs[0]) && free(embs[1]) {
					for _, j := range embs[:2] {
						ts[j].Fields = append(append([]Field{}, ts[j].Fields...), Field{Name: m, Kind: "func"})
					}
				}
			}
		}
		if o.funcFld && r.Intn(100) < 14 {
			m := methodPool[r.Intn(len(methodPool))]
			if !have[m] {
				// position: before or after the struct-typed fields
				f := Field{Name: m, Kind: "func"}
				if r.Intn(2) == 0 {
					t.Fields = append(t.Fields, f)
				} else {
					t.Fields = append([]Field{t.Fields[0], f}, t.Fields[1:]...)
				}
			}
		}
		ts = append(ts, t)
	}
	// interface types: mostly subsets of the method set (as the Go specification defines it) of one of
	// the struct types or of its pointer type, so that assignments are usually legal; sometimes a
	// signature is changed or a foreign name is added
	nI := 2 + r.Intn(2)
	for k := 0; k < nI; k++ {
		t := TypeDecl{Name: "I" + string(rune('A'+k)), Iface: true}
		st := nS - 1 - r.Intn((nS+1)/2)
		ms := genMethodSet(ts, st, r.Intn(100) < 60)
		if len(ms) == 0 || r.Intn(100) < 8 {
			for _, j := range r.Perm(len(methodPool))[:1+r.Intn(2)] {
				t.Methods = append(t.Methods, Method{Name: methodPool[j]})
			}
		} else {
			n := 1 + r.Intn(2)
			for _, j := range r.Perm(len(ms)) {
				if n == 0 {
					break
				}
				n--
				m := Method{Name: ms[j].Name, Sig: ms[j].Sig}
				if o.sigs && r.Intn(100) < 6 {
					m.Sig = 1 - m.Sig
				}
				t.Methods = append(t.Methods, m)
			}
		}
		ts = append(ts, t)
	}
	// one interface that embeds others (no method declared twice with different signatures)
	{
		t := TypeDecl{Name: "IZ", Iface: true}
		sig := map[string]int{}
		try := func(e int) {
			for _, x := range ts[e].Methods {
				if s, ok := sig[x.Name]; ok && s != x.Sig {
					return
				}
			}
			for _, x := range ts[e].Methods {
				sig[x.Name] = x.Sig
			}
			t.Embeds = append(t.Embeds, e)
		}
		e := nS + r.Intn(nI)
		try(e)
		if r.Intn(2) == 0 {
			if e2 := nS + r.Intn(nI); e2 != e {
				try(e2)
			}
		}
		if r.Intn(3) == 0 {
			m := methodPool[r.Intn(len(methodPool))]
			if _, dup := sig[m]; !dup {
				t.Methods = append(t.Methods, Method{Name: m})
			}
		}
		ts = append(ts, t)
	}
	return ts
}

func structIDs(ts []TypeDecl) (ss, is []int) {
	for i, t := range ts {
		if t.Iface {
			is = append(is, i)
		} else {
			ss = append(ss, i)
		}
	}
	return
}

// reachableNames: names of methods and func fields reachable from struct type t through embedded fields.
func reachableNames(ts []TypeDecl, t int) []string {
	set := map[string]bool{}
	var walk func(t, d int)
	walk = func(t, d int) {
		if d > 12 {
			return
		}
		for _, m := range ts[t].Methods {
			set[m.Name] = true
		}
		for _, f := range ts[t].Fields {
			switch f.Kind {
			case "func":
				set[f.Name] = true
			case "emb", "embptr":
				walk(f.Typ, d+1)
			}
		}
	}
	walk(t, 0)
	var out []string
	for _, m := range methodPool {
		if set[m] {
			out = append(out, m)
		}
	}
	return out
}

func ifaceNames(ts []TypeDecl, i int) []Method {
	var out []Method
	seen := map[string]bool{}
	var walk func(i, d int)
	walk = func(i, d int) {
		if d > 12 {
			return
		}
		for _, m := range ts[i].Methods {
			if !seen[m.Name] {
				seen[m.Name] = true
				out = append(out, m)
			}
		}
		for _, e := range ts[i].Embeds {
			walk(e, d+1)
		}
	}
	walk(i, 0)
	return out
}

func pick(r *rand.Rand, xs []string) string { return xs[r.Intn(len(xs))] }

// pickName: mostly a reachable name, sometimes any name of the pool (possibly undefined).
func pickName(r *rand.Rand, ts []TypeDecl, t int) string {
	rn := reachableNames(ts, t)
	if len(rn) == 0 || r.Intn(100) < 6 {
		return pick(r, methodPool)
	}
	return pick(r, rn)
}

// pickIface: an interface type, preferring one that the type (ptr: its pointer type) implements.
func pickIface(r *rand.Rand, ts []TypeDecl, t int, ptr bool) int {
	_, is := structIDs(ts)
	ms := map[string]int{}
	for _, m := range genMethodSet(ts, t, ptr) {
		ms[m.Name] = m.Sig
	}
	var good []int
	for _, i := range is {
		ok := true
		for _, m := range ifaceNames(ts, i) {
			if s, have := ms[m.Name]; !have || s != m.Sig {
				ok = false
			}
		}
		if ok {
			good = append(good, i)
		}
	}
	if len(good) > 0 && r.Intn(100) < 80 {
		return good[r.Intn(len(good))]
	}
	return is[r.Intn(len(is))]
}

func randTyRef(r *rand.Rand, ts []TypeDecl, allowNil bool) TyRef {
	ss, is := structIDs(ts)
	switch x := r.Intn(100); {
	case x < 30:
		return TyRef{Kind: "named", Typ: ss[r.Intn(len(ss))]}
	case x < 55:
		return TyRef{Kind: "ptr", Typ: ss[r.Intn(len(ss))]}
	case x < 85:
		return TyRef{Kind: "named", Typ: is[r.Intn(len(is))]}
	case x < 93 && allowNil:
		return TyRef{Kind: "nil"}
	default:
		i := is[r.Intn(len(is))]
		return TyRef{Kind: "anon", Methods: ifaceNames(ts, i)}
	}
}

var forms = []string{
	"call-var", "call-ptr", "call-addr", "call-tmp",
	"mval-var", "mval-ptr", "mval-var-bump", "mval-ptr-bump", "mval-iface", "mval-iface-bump",
	"mexpr-val", "mexpr-ptr",
	"iface-val", "iface-addr", "iface-val-bump", "iface-addr-bump",
	"assert-typed", "assert-empty", "assert-anon",
	"tswitch-typed", "tswitch-empty", "tswitch-overlap",
	"recv-ptrvar", "recv-embptr", "recv-iface-ptr", "recv-mval-ptr",
	"nil-call", "nil-assert", "nil-tswitch",
}

func ifaceSrc(r *rand.Rand) *Recv {
	switch r.Intn(3) {
	case 0:
		return &Recv{Kind: "var", Name: "v"}
	case 1:
		return &Recv{Kind: "addr", Name: "v"}
	}
	return &Recv{Kind: "ptrvar", Name: "p"}
}

// genScenario builds one scenario of the given form over ts.
func genScenario(r *rand.Rand, ts []TypeDecl, form string) Prog {
	if strings.HasPrefix(form, "recv-") {
		return genRecv(r, ts, form)
	}
	ss, _ := structIDs(ts)
	// prefer the upper half of the hierarchy (deeper embedding)
	t := ss[len(ss)-1-r.Intn((len(ss)+1)/2)]
	if r.Intn(4) == 0 {
		t = ss[r.Intn(len(ss))]
	}
	m := pickName(r, ts, t)
	p := Prog{Types: ts, Form: form}
	add := func(s ...Stmt) { p.Stmts = append(p.Stmts, s...) }
	add(Stmt{Op: "var", X: "v", T: t, Base: 1})
	needP := false
	end := func() { add(Stmt{Op: "dump", Y: "v"}) }
	switch form {
	case "call-var":
		add(Stmt{Op: "call", R: &Recv{Kind: "var", Name: "v"}, M: m})
		if r.Intn(2) == 0 {
			add(Stmt{Op: "call", R: &Recv{Kind: "var", Name: "v"}, M: pickName(r, ts, t)})
		}
	case "call-ptr":
		add(Stmt{Op: "ptr", X: "p", Y: "v"})
		add(Stmt{Op: "call", R: &Recv{Kind: "ptrvar", Name: "p"}, M: m})
	case "call-addr":
		add(Stmt{Op: "call", R: &Recv{Kind: "addr", Name: "v"}, M: m})
	case "call-tmp":
		add(Stmt{Op: "call", R: &Recv{Kind: "tmp", Typ: t, Base: 50}, M: m})
	case "mval-var", "mval-var-bump":
		add(Stmt{Op: "mval", X: "g", R: &Recv{Kind: "var", Name: "v"}, M: m})
		if form == "mval-var-bump" {
			add(Stmt{Op: "bump", Y: "v"})
		}
		add(Stmt{Op: "callf", X: "g"})
		if r.Intn(3) == 0 {
			add(Stmt{Op: "callf", X: "g"})
		}
	case "mval-ptr", "mval-ptr-bump":
		add(Stmt{Op: "ptr", X: "p", Y: "v"})
		add(Stmt{Op: "mval", X: "g", R: &Recv{Kind: "ptrvar", Name: "p"}, M: m})
		if form == "mval-ptr-bump" {
			add(Stmt{Op: "bump", Y: "v"})
		}
		add(Stmt{Op: "callf", X: "g"})
	case "mval-iface", "mval-iface-bump":
		// f := i.M on a script interface value holding v or &v; F05-18 in its script form
		src := ifaceSrc(r)
		it := pickIface(r, ts, t, src.Kind != "var")
		ms := ifaceNames(ts, it)
		if src.Kind == "ptrvar" {
			add(Stmt{Op: "ptr", X: "p", Y: "v"})
		}
		add(Stmt{Op: "iface", X: "i", T: it, R: src})
		add(Stmt{Op: "mval", X: "g", R: &Recv{Kind: "ifc", Name: "i"}, M: ms[r.Intn(len(ms))].Name})
		if form == "mval-iface-bump" {
			add(Stmt{Op: "bump", Y: "v"})
		}
		add(Stmt{Op: "callf", X: "g"})
		if r.Intn(3) == 0 {
			add(Stmt{Op: "callf", X: "g"})
		}
	case "mexpr-val":
		add(Stmt{Op: "mexpr", T: t, M: m, Y: "v"})
	case "mexpr-ptr":
		add(Stmt{Op: "mexpr", T: t, Ptr: true, M: m, Y: "v"})
	case "iface-val", "iface-addr", "iface-val-bump", "iface-addr-bump":
		src := &Recv{Kind: "var", Name: "v"}
		if strings.HasPrefix(form, "iface-addr") {
			src = &Recv{Kind: "addr", Name: "v"}
			if r.Intn(3) == 0 {
				needP = true
				src = &Recv{Kind: "ptrvar", Name: "p"}
			}
		}
		it := pickIface(r, ts, t, src.Kind != "var")
		ms := ifaceNames(ts, it)
		if needP {
			add(Stmt{Op: "ptr", X: "p", Y: "v"})
		}
		add(Stmt{Op: "iface", X: "i", T: it, R: src})
		if strings.HasSuffix(form, "-bump") {
			add(Stmt{Op: "bump", Y: "v"})
		}
		for k, mm := range ms {
			if k < 2 {
				add(Stmt{Op: "call", R: &Recv{Kind: "ifc", Name: "i"}, M: mm.Name})
			}
		}
	case "assert-typed", "assert-empty", "assert-anon":
		src := ifaceSrc(r)
		it := -1
		if form != "assert-empty" {
			it = pickIface(r, ts, t, src.Kind != "var")
		}
		if src.Kind == "ptrvar" {
			add(Stmt{Op: "ptr", X: "p", Y: "v"})
		}
		add(Stmt{Op: "iface", X: "i", T: it, R: src})
		var ty TyRef
		if form == "assert-anon" {
			_, is := structIDs(ts)
			ty = TyRef{Kind: "anon", Methods: ifaceNames(ts, is[r.Intn(len(is))])}
		} else {
			ty = randTyRef(r, ts, false)
			if r.Intn(3) == 0 {
				// the dynamic type itself
				if src.Kind == "var" {
					ty = TyRef{Kind: "named", Typ: t}
				} else {
					ty = TyRef{Kind: "ptr", Typ: t}
				}
			}
		}
		mm := ""
		if r.Intn(100) < 70 {
			switch ty.Kind {
			case "named":
				if ts[ty.Typ].Iface {
					if ms := ifaceNames(ts, ty.Typ); len(ms) > 0 {
						mm = ms[r.Intn(len(ms))].Name
					}
				} else if rn := reachableNames(ts, ty.Typ); len(rn) > 0 {
					mm = pick(r, rn)
				}
			case "ptr":
				if rn := reachableNames(ts, ty.Typ); len(rn) > 0 {
					mm = pick(r, rn)
				}
			case "anon":
				if len(ty.Methods) > 0 {
					mm = ty.Methods[r.Intn(len(ty.Methods))].Name
				}
			}
		}
		add(Stmt{Op: "assert", X: "j", Y: "i", Ty: &ty, Two: r.Intn(100) < 65, M: mm})
	case "tswitch-typed", "tswitch-empty":
		src := ifaceSrc(r)
		it := -1
		if form == "tswitch-typed" {
			it = pickIface(r, ts, t, src.Kind != "var")
		}
		if src.Kind == "ptrvar" {
			add(Stmt{Op: "ptr", X: "p", Y: "v"})
		}
		add(Stmt{Op: "iface", X: "i", T: it, R: src})
		add(genSwitch(r, ts, t, "i", it))
	case "tswitch-overlap":
		// interface{} operand, binding form, clauses naming interface types (several may match)
		src := ifaceSrc(r)
		if src.Kind == "ptrvar" {
			add(Stmt{Op: "ptr", X: "p", Y: "v"})
		}
		add(Stmt{Op: "iface", X: "i", T: -1, R: src})
		_, is := structIDs(ts)
		sw := Stmt{Op: "tswitch", Y: "i", Bind: r.Intn(100) < 85}
		for _, k := range r.Perm(len(is)) {
			sw.Clauses = append(sw.Clauses, []TyRef{{Kind: "named", Typ: is[k]}})
		}
		// a default clause at any position, first and middle ones included (F05-16, repaired by ff01288)
		if r.Intn(3) != 0 {
			at := r.Intn(len(sw.Clauses) + 1)
			cl := append([][]TyRef{}, sw.Clauses[:at]...)
			cl = append(cl, []TyRef{})
			sw.Clauses = append(cl, sw.Clauses[at:]...)
		}
		add(sw)
	case "nil-call":
		it := pickIface(r, ts, t, true)
		add(Stmt{Op: "iface", X: "i", T: it, R: &Recv{Kind: "nil"}})
		ms := ifaceNames(ts, it)
		add(Stmt{Op: "call", R: &Recv{Kind: "ifc", Name: "i"}, M: ms[r.Intn(len(ms))].Name})
	case "nil-assert":
		it := -1
		if r.Intn(2) == 0 {
			it = pickIface(r, ts, t, true)
		}
		add(Stmt{Op: "iface", X: "i", T: it, R: &Recv{Kind: "nil"}})
		ty := randTyRef(r, ts, false)
		add(Stmt{Op: "assert", X: "j", Y: "i", Ty: &ty, Two: r.Intn(100) < 70})
	case "nil-tswitch":
		it := -1
		if r.Intn(2) == 0 {
			it = pickIface(r, ts, t, true)
		}
		add(Stmt{Op: "iface", X: "i", T: it, R: &Recv{Kind: "nil"}})
		add(genSwitch(r, ts, t, "i", it))
	default:
		if strings.HasPrefix(form, "host-") {
			return genHost(r, ts, t, form)
		}
		panic("unknown form " + form)
	}
	end()
	return p
}

// ---------------------------------------------------------------- receiver passing

// selHit: what the Go selector rule finds for a name (generator steering only; no verdict depends on it).
type selHit struct {
	meth   Method
	path   []int
	isMeth bool
}

// goSelect: the field or method named name at the shallowest depth of struct type t, if unique.
func goSelect(ts []TypeDecl, t int, name string) (selHit, bool) {
	type node struct {
		t    int
		path []int
	}
	level := []node{{t, nil}}
	for d := 0; d < 12 && len(level) > 0; d++ {
		var hits []selHit
		var next []node
		for _, nd := range level {
			for _, m := range ts[nd.t].Methods {
				if m.Name == name {
					hits = append(hits, selHit{m, nd.path, true})
				}
			}
			for i, f := range ts[nd.t].Fields {
				if f.Name == name {
					hits = append(hits, selHit{})
				}
				if f.Kind == "emb" || f.Kind == "embptr" {
					next = append(next, node{f.Typ, append(append([]int{}, nd.path...), i)})
				}
			}
		}
		if len(hits) == 1 {
			return hits[0], true
		}
		if len(hits) > 1 {
			return selHit{}, false
		}
		level = next
	}
	return selHit{}, false
}

// lastEmbPtr: the last field of the index path is embedded by pointer.
func lastEmbPtr(ts []TypeDecl, t int, path []int) bool {
	for k, i := range path {
		f := ts[t].Fields[i]
		if k == len(path)-1 {
			return f.Kind == "embptr"
		}
		t = f.Typ
	}
	return false
}

type recvCand struct {
	t    int
	m    Method
	path []int
}

// recvCands: (struct type, value-receiver method selected by the Go rule) pairs. own: the method is
// declared on the type itself; viaPtr: the last field of the promotion path is embedded by pointer.
func recvCands(ts []TypeDecl) (own, viaPtr []recvCand) {
	ss, _ := structIDs(ts)
	for _, t := range ss {
		for _, name := range methodPool {
			h, ok := goSelect(ts, t, name)
			if !ok || !h.isMeth || h.meth.Ptr {
				continue
			}
			switch {
			case len(h.path) == 0:
				own = append(own, recvCand{t, h.meth, h.path})
			case lastEmbPtr(ts, t, h.path):
				viaPtr = append(viaPtr, recvCand{t, h.meth, h.path})
			}
		}
	}
	return
}

// recvTypes: a small hierarchy made for the receiver forms when the random one has no candidate:
// C with a value method and a pointer method, M embedding *C, O embedding M (by value or by pointer).
func recvTypes(r *rand.Rand) []TypeDecl {
	perm := r.Perm(len(methodPool))
	vm := Method{Name: methodPool[perm[0]], Sig: r.Intn(2)}
	pm := Method{Name: methodPool[perm[1]], Ptr: true}
	c := TypeDecl{Name: "C", Fields: []Field{{Name: "nc", Kind: "int"}}, Methods: []Method{vm, pm}}
	if r.Intn(2) == 0 {
		c.Fields = append(c.Fields, Field{Name: "kc", Kind: "int"})
	}
	m := TypeDecl{Name: "M", Fields: []Field{{Name: "nm", Kind: "int"}, {Name: "C", Kind: "embptr", Typ: 0}}}
	if r.Intn(2) == 0 {
		m.Fields[0], m.Fields[1] = m.Fields[1], m.Fields[0]
	}
	kind := "emb"
	if r.Intn(3) == 0 {
		kind = "embptr"
	}
	o := TypeDecl{Name: "O", Fields: []Field{{Name: "no", Kind: "int"}, {Name: "M", Kind: kind, Typ: 1}}}
	return []TypeDecl{c, m, o}
}

// genRecv: a method with a value receiver — its body assigns to the receiver, as every generated
// method does — reached through a pointer in one of four ways; the operand is dumped afterwards, so a
// receiver that is not a copy shows.
//
//	recv-ptrvar     p := &v; p.M()                         (M declared on the type of v)
//	recv-embptr     v.M() / p.M()                          (M promoted, the last field of the path is an embedded *T)
//	recv-iface-ptr  var i interface{ M() } = &v; i.M()
//	recv-mval-ptr   p := &v; g := p.M; g(); g()
func genRecv(r *rand.Rand, ts []TypeDecl, form string) Prog {
	own, via := recvCands(ts)
	if (form == "recv-embptr" && len(via) == 0) || (form != "recv-embptr" && len(own)+len(via) == 0) || r.Intn(8) == 0 {
		ts = recvTypes(r)
		own, via = recvCands(ts)
	}
	var c recvCand
	switch {
	case form == "recv-embptr":
		c = via[r.Intn(len(via))]
	case len(via) > 0 && (len(own) == 0 || r.Intn(3) == 0):
		c = via[r.Intn(len(via))]
	default:
		c = own[r.Intn(len(own))]
	}
	p := Prog{Types: ts, Form: form}
	add := func(s ...Stmt) { p.Stmts = append(p.Stmts, s...) }
	add(Stmt{Op: "var", X: "v", T: c.t, Base: 1 + r.Intn(5)})
	calls := 1 + r.Intn(2)
	switch form {
	case "recv-ptrvar":
		add(Stmt{Op: "ptr", X: "p", Y: "v"})
		for k := 0; k < calls; k++ {
			add(Stmt{Op: "call", R: &Recv{Kind: "ptrvar", Name: "p"}, M: c.m.Name})
		}
	case "recv-embptr":
		op := &Recv{Kind: "var", Name: "v"}
		switch r.Intn(3) {
		case 0:
			add(Stmt{Op: "ptr", X: "p", Y: "v"})
			op = &Recv{Kind: "ptrvar", Name: "p"}
		case 1:
			op = &Recv{Kind: "addr", Name: "v"}
		}
		for k := 0; k < calls; k++ {
			add(Stmt{Op: "call", R: op, M: c.m.Name})
		}
	case "recv-iface-ptr":
		// an interface type declared for this program: exactly the method under test
		p.Types = append(append([]TypeDecl{}, ts...), TypeDecl{Name: "IR", Iface: true, Methods: []Method{{Name: c.m.Name, Sig: c.m.Sig}}})
		src := &Recv{Kind: "addr", Name: "v"}
		if r.Intn(2) == 0 {
			add(Stmt{Op: "ptr", X: "p", Y: "v"})
			src = &Recv{Kind: "ptrvar", Name: "p"}
		}
		add(Stmt{Op: "iface", X: "i", T: len(p.Types) - 1, R: src})
		for k := 0; k < calls; k++ {
			add(Stmt{Op: "call", R: &Recv{Kind: "ifc", Name: "i"}, M: c.m.Name})
		}
	case "recv-mval-ptr":
		add(Stmt{Op: "ptr", X: "p", Y: "v"})
		add(Stmt{Op: "mval", X: "g", R: &Recv{Kind: "ptrvar", Name: "p"}, M: c.m.Name})
		for k := 0; k <= calls; k++ {
			add(Stmt{Op: "callf", X: "g"})
		}
	default:
		panic("unknown form " + form)
	}
	add(Stmt{Op: "dump", Y: "v"})
	return p
}

// implementsGo: does struct type t (ptr: *t) implement interface type it by the Go rules (generator steering only).
func implementsGo(ts []TypeDecl, t int, ptr bool, it int) bool {
	ms := map[string]int{}
	for _, m := range genMethodSet(ts, t, ptr) {
		ms[m.Name] = m.Sig
	}
	for _, m := range ifaceNames(ts, it) {
		if s, ok := ms[m.Name]; !ok || s != m.Sig {
			return false
		}
	}
	return true
}

// genSwitch: a type switch on y. it: static interface type of y (-1: interface{}).
func genSwitch(r *rand.Rand, ts []TypeDecl, t int, y string, it int) Stmt {
	s := Stmt{Op: "tswitch", Y: y, Bind: r.Intn(2) == 0}
	n := 2 + r.Intn(4)
	used := map[string]bool{}
	hasDefault := false
	concreteOnly := r.Intn(100) < 60
	ss, _ := structIDs(ts)
	// concrete types that may legally appear in a clause
	var legal []TyRef
	for _, st := range ss {
		for _, ptr := range []bool{false, true} {
			if it < 0 || implementsGo(ts, st, ptr, it) {
				k := "named"
				if ptr {
					k = "ptr"
				}
				legal = append(legal, TyRef{Kind: k, Typ: st})
			}
		}
	}
	for k := 0; k < n; k++ {
		if !hasDefault && r.Intn(100) < 18 {
			hasDefault = true
			s.Clauses = append(s.Clauses, []TyRef{})
			continue
		}
		nt := 1
		if r.Intn(100) < 25 {
			nt = 2
		}
		var c []TyRef
		for tries := 0; len(c) < nt && tries < 20; tries++ {
			ty := randTyRef(r, ts, true)
			if ty.Kind == "anon" {
				continue
			}
			if (ty.Kind == "named" && !ts[ty.Typ].Iface) || ty.Kind == "ptr" || concreteOnly {
				// a concrete type: mostly a legal one
				if len(legal) > 0 && (concreteOnly || r.Intn(100) < 85) {
					ty = legal[r.Intn(len(legal))]
				}
			}
			if r.Intn(5) == 0 {
				if r.Intn(2) == 0 {
					ty = TyRef{Kind: "named", Typ: t}
				} else {
					ty = TyRef{Kind: "ptr", Typ: t}
				}
			}
			key := ty.text(ts)
			if used[key] {
				continue
			}
			used[key] = true
			c = append(c, ty)
		}
		if len(c) > 0 {
			s.Clauses = append(s.Clauses, c)
		}
	}
	if len(s.Clauses) == 0 {
		s.Clauses = [][]TyRef{{}}
	}
	return s
}

func generate(r *rand.Rand, thorough bool, o genOpts, formList []string) []Prog {
	nH := 40
	if thorough {
		nH = 300
	}
	var out []Prog
	for h := 0; h < nH; h++ {
		ts := genTypes(r, o)
		for _, f := range formList {
			reps := 1
			if thorough && (strings.HasPrefix(f, "call") || strings.HasPrefix(f, "tswitch") || strings.HasPrefix(f, "assert") || strings.HasPrefix(f, "recv")) {
				reps = 2
			}
			for k := 0; k < reps; k++ {
				out = append(out, genScenario(r, ts, f))
			}
		}
	}
	return out
}

// genMethodSet: the method set of struct type t (ptr: of *t) by the rules of the Go specification.
// Used only to steer the generator towards legal programs; no verdict depends on it.
func genMethodSet(ts []TypeDecl, t int, ptr bool) []Method {
	type occ struct {
		meth   bool
		m      Method
		viaPtr bool
	}
	type item struct {
		t      int
		viaPtr bool
	}
	found := map[string][]occ{}
	done := map[string]bool{}
	level := []item{{t, false}}
	for d := 0; d < 12 && len(level) > 0; d++ {
		cur := map[string][]occ{}
		var next []item
		for _, it := range level {
			for _, m := range ts[it.t].Methods {
				cur[m.Name] = append(cur[m.Name], occ{true, m, it.viaPtr})
			}
			for _, f := range ts[it.t].Fields {
				cur[f.Name] = append(cur[f.Name], occ{false, Method{}, it.viaPtr})
				switch f.Kind {
				case "emb":
					next = append(next, item{f.Typ, it.viaPtr})
				case "embptr":
					next = append(next, item{f.Typ, true})
				}
			}
		}
		for k, v := range cur {
			if !done[k] {
				done[k] = true
				found[k] = v
			}
		}
		level = next
	}
	var out []Method
	for _, name := range methodPool {
		v := found[name]
		if len(v) == 1 && v[0].meth && (ptr || !v[0].m.Ptr || v[0].viaPtr) {
			out = append(out, v[0].m)
		}
	}
	return out
}

var _ = fmt.Sprint
