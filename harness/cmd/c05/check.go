package main

// C05 correspondence harness: method calls and interface operations.
//
//	impl  = the real code of /repo (built with -tags verif):
//	          structural: interp.VerifCompileTypes + Select / Methods / Implements — what lookupField,
//	                      lookupMethod, methodDepth, methods() and implements() answer for the
//	                      generated declarations;
//	          behavioural: the generated program is compiled and executed (Compile, then Execute)
//	model = Lean `lookupFieldY`, `lookupMethodY`, `methodDepthY`, `methodsY`, `implementsY` (sel / mset /
//	        impl lines) and `run .yaegi` (y=); the Lean reading of the Go specification `select`,
//	        `methodSet`, `implements`, `run .go` (g=); `classify` (class=)
//	ref   = structural: go/types (LookupFieldOrMethod, NewMethodSet, Implements) on the same declarations;
//	        behavioural: the same source compiled with the Go toolchain and run
//
// Checked on every case: impl = model (correspondence), ref = spec model (spec validation), impl = ref
// (the property; differences are labelled with the class of the input). Host-interface cases
// (error, fmt.Stringer, io.Writer, sort.Interface) are compared behaviourally only.

import (
	"encoding/json"
	"fmt"
	"go/ast"
	"go/importer"
	"go/parser"
	"go/token"
	"go/types"
	"os"
	"path/filepath"
	"sort"
	"strings"

	"github.com/traefik/yaegi/interp"
	"github.com/traefik/yaegi/stdlib"
	"verif/harness/common"
)

var _ = importer.Default

// ---------------------------------------------------------------- structural correspondence

// bareDecls renders the declarations with empty method bodies (no import needed).
func bareDecls(ts []TypeDecl) string {
	var b strings.Builder
	b.WriteString("package main\n\n")
	for _, t := range ts {
		if t.Iface {
			fmt.Fprintf(&b, "type %s interface {\n", t.Name)
			for _, m := range t.Methods {
				fmt.Fprintf(&b, "\t%s%s\n", m.Name, sigText(m.Sig))
			}
			for _, e := range t.Embeds {
				fmt.Fprintf(&b, "\t%s\n", ts[e].Name)
			}
			b.WriteString("}\n\n")
			continue
		}
		fmt.Fprintf(&b, "type %s struct {\n", t.Name)
		for _, f := range t.Fields {
			switch f.Kind {
			case "int":
				fmt.Fprintf(&b, "\t%s int\n", f.Name)
			case "func":
				fmt.Fprintf(&b, "\t%s func()\n", f.Name)
			case "plain":
				fmt.Fprintf(&b, "\t%s %s\n", f.Name, ts[f.Typ].Name)
			case "emb":
				fmt.Fprintf(&b, "\t%s\n", ts[f.Typ].Name)
			case "embptr":
				fmt.Fprintf(&b, "\t*%s\n", ts[f.Typ].Name)
			}
		}
		b.WriteString("}\n\n")
		for _, m := range t.Methods {
			star := ""
			if m.Ptr {
				star = "*"
			}
			if m.Sig == 1 {
				fmt.Fprintf(&b, "func (r %s%s) %s() int { return 0 }\n\n", star, t.Name, m.Name)
			} else {
				fmt.Fprintf(&b, "func (r %s%s) %s() {}\n\n", star, t.Name, m.Name)
			}
		}
	}
	b.WriteString("func main() {}\n")
	return b.String()
}

func pathStr(p []int) string {
	if len(p) == 0 {
		return "-"
	}
	s := make([]string, len(p))
	for i, x := range p {
		s[i] = fmt.Sprint(x)
	}
	return strings.Join(s, ".")
}

func namesStr(xs []string) string {
	if len(xs) == 0 {
		return "-"
	}
	return strings.Join(xs, ",")
}

type structQuery struct {
	line string // protocol line
	impl string // what the hooks answer, in the format of the model's answer (its impl part)
	ref  string // what go/types answers (spec part)
	key  string
	nontrivial bool
}

// selector names worth asking about: the method pool and the names of func fields.
func queryNames(ts []TypeDecl) []string {
	set := map[string]bool{}
	for _, m := range methodPool {
		set[m] = true
	}
	for _, t := range ts {
		for _, f := range t.Fields {
			if f.Kind == "func" {
				set[f.Name] = true
			}
		}
	}
	var out []string
	for k := range set {
		out = append(out, k)
	}
	sort.Strings(out)
	return out
}

// goTypesInfo type-checks the bare declarations.
func goTypesInfo(src string) (*types.Package, error) {
	fset := token.NewFileSet()
	f, err := parser.ParseFile(fset, "p.go", src, 0)
	if err != nil {
		return nil, err
	}
	conf := types.Config{}
	return conf.Check("main", fset, []*ast.File{f}, nil)
}

func ownerName(t types.Type) string {
	if p, ok := t.(*types.Pointer); ok {
		t = p.Elem()
	}
	if n, ok := t.(*types.Named); ok {
		return n.Obj().Name()
	}
	return "?"
}

// structural builds, for one declaration set, the queries with the hook's and go/types' answers.
func structural(ts []TypeDecl) (qs []structQuery, err error) {
	src := bareDecls(ts)
	defer func() {
		if r := recover(); r != nil {
			err = fmt.Errorf("hook crashed: %v", r)
		}
	}()
	i := interp.New(interp.Options{})
	if e := i.Use(stdlib.Symbols); e != nil {
		return nil, e
	}
	set, e := i.VerifCompileTypes(src)
	if e != nil {
		return nil, fmt.Errorf("the interpreter rejects the declarations: %v", e)
	}
	pkg, e := goTypesInfo(src)
	if e != nil {
		return nil, fmt.Errorf("go/types rejects the declarations: %v", e)
	}
	tsx := typesSexp(ts)
	names := queryNames(ts)
	ss, is := structIDs(ts)
	for _, t := range ss {
		tn := ts[t].Name
		obj := pkg.Scope().Lookup(tn)
		named := obj.Type()
		hasEmb := false
		for _, f := range ts[t].Fields {
			if f.Kind == "emb" || f.Kind == "embptr" {
				hasEmb = true
			}
		}
		for _, name := range names {
			s, ok := set.Select(tn, false, name)
			if !ok {
				return nil, fmt.Errorf("hook: type %s not found", tn)
			}
			sp, _ := set.Select(tn, true, name)
			if pathStr(sp.FieldPath) != pathStr(s.FieldPath) || pathStr(sp.MethodPath) != pathStr(s.MethodPath) || sp.MethodOwner != s.MethodOwner || sp.MethodDepth != s.MethodDepth {
				return nil, fmt.Errorf("hook: resolution of %s.%s differs between the type and its pointer type", tn, name)
			}
			mo, mp := "-", "-"
			if s.MethodOwner != "" {
				mo, mp = s.MethodOwner, pathStr(s.MethodPath)
			}
			impl := fmt.Sprintf("field=%s mowner=%s mpath=%s mptr=%s depth=%d", pathStr(s.FieldPath), mo, mp, common.B(s.MethodPtr), s.MethodDepth)
			// reference: go/types on the addressable value (so that pointer methods are found)
			ref := "undefined"
			o, idx, _ := types.LookupFieldOrMethod(named, true, pkg, name)
			switch x := o.(type) {
			case *types.Var:
				ref = "field:" + ownerOfField(pkg, ts, t, idx) + ":" + pathStr(idx)
			case *types.Func:
				recv := x.Type().(*types.Signature).Recv().Type()
				ref = "method:" + ownerName(recv) + ":" + pathStr(idx[:len(idx)-1])
			default:
				if len(idx) > 0 {
					ref = "ambiguous"
				}
			}
			qs = append(qs, structQuery{
				line: "C05 sel " + tsx + " " + fmt.Sprint(t) + " " + common.Q(name),
				impl: impl, ref: ref, key: "sel", nontrivial: hasEmb,
			})
		}
		for _, ptr := range []bool{false, true} {
			ms, _ := set.Methods(tn, ptr)
			var typ types.Type = named
			if ptr {
				typ = types.NewPointer(named)
			}
			mset := types.NewMethodSet(typ)
			var gn []string
			for k := 0; k < mset.Len(); k++ {
				gn = append(gn, mset.At(k).Obj().Name())
			}
			sort.Strings(gn)
			key := "gv"
			if ptr {
				key = "gp"
			}
			qs = append(qs, structQuery{
				line: "C05 mset " + tsx + " " + fmt.Sprint(t),
				impl: "y=" + namesStr(ms), ref: key + "=" + namesStr(gn), key: "mset", nontrivial: hasEmb,
			})
			for _, it := range is {
				r, ok := set.Implements(tn, ptr, ts[it].Name)
				if !ok {
					return nil, fmt.Errorf("hook: implements(%s, %s) not available", tn, ts[it].Name)
				}
				iface := pkg.Scope().Lookup(ts[it].Name).Type().Underlying().(*types.Interface)
				qs = append(qs, structQuery{
					line: "C05 impl " + tsx + " " + fmt.Sprint(t) + " " + common.B(ptr) + " " + fmt.Sprint(it),
					impl: "y=" + common.B(r), ref: "g=" + common.B(types.Implements(typ, iface)), key: "impl", nontrivial: hasEmb,
				})
			}
		}
	}
	return qs, nil
}

// ownerOfField: name of the struct type that declares the field reached by the index path.
func ownerOfField(pkg *types.Package, ts []TypeDecl, t int, idx []int) string {
	cur := t
	for k, i := range idx {
		if k == len(idx)-1 {
			return ts[cur].Name
		}
		if i >= len(ts[cur].Fields) {
			return "?"
		}
		cur = ts[cur].Fields[i].Typ
	}
	return ts[cur].Name
}

// ---------------------------------------------------------------- the run

func listedClasses(id string) []string {
	b, err := os.ReadFile(filepath.Join(common.VerifDir(), "KNOWN_FINDINGS.json"))
	if err != nil {
		return nil
	}
	var all struct {
		Findings []struct {
			ID       string   `json:"id"`
			Property string   `json:"property"`
			Classes  []string `json:"classes"`
		} `json:"findings"`
	}
	if json.Unmarshal(b, &all) != nil {
		return nil
	}
	for _, f := range all.Findings {
		if f.ID == id && f.Property == "C05" {
			return f.Classes
		}
	}
	return nil
}

func contains(xs []string, s string) bool {
	for _, x := range xs {
		if x == s {
			return true
		}
	}
	return false
}

func isHost(p Prog) bool {
	for _, s := range p.Stmts {
		if s.Op == "host" {
			return true
		}
	}
	return false
}

func maxDepth(ts []TypeDecl, t int) int {
	d := 0
	for _, f := range ts[t].Fields {
		if f.Kind == "emb" || f.Kind == "embptr" {
			if x := 1 + maxDepth(ts, f.Typ); x > d {
				d = x
			}
		}
	}
	return d
}

func progDepth(p Prog) int {
	for _, s := range p.Stmts {
		if s.Op == "var" {
			return maxDepth(p.Types, s.T)
		}
	}
	return 0
}

func check(run *common.Run) {
	run.Res.Rule = "cases = (a) structural queries: for every generated declaration set (3–6 struct types embedding earlier ones by value / by pointer / as a plain field, up to depth 3, value- and pointer-receiver methods drawn from four names with two signatures, func() fields named like methods — also two of them at one depth —, 3–4 interface types with embedding) every (struct type, selector name), every method set of T and *T, every (T or *T, interface) pair; (b) programs: the same sets crossed with 42 scenario forms (call on variable / pointer / &v / function result, method value with and without a later mutation, method value taken from an interface value holding v or &v with and without a later mutation, method expression, interface assignment by value and by pointer with and without a later mutation, assertion from a typed / empty interface to named, pointer, interface and anonymous-interface types in both result forms, type switches with and without binding, with overlapping interface clauses and a default clause at every position, a value-receiver method reached through a pointer variable / a promotion over an embedded pointer / an interface holding a pointer / a method value bound from a pointer with the operand dumped afterwards, nil interface values, error / fmt.Stringer / io.Writer / sort.Interface handed to host functions, also with the converted variable mutated or reassigned between the conversion and the use, interface{} asserted to fmt.Stringer after a mutation, io.Copy / io.WriteString on script readers and writers whose optional WriteTo / ReadFrom / WriteString is own, promoted through an embedded value or pointer, of either receiver kind, or absent — compared by the call log, and the probe outcome with the Lean model of getWrapper); every method increments and prints its receiver state, every program dumps its variable at the end; non-trivial = the type under test embeds at least one struct; distinct = distinct protocol line"
	drv, err := common.StartDriver("C05")
	if err != nil {
		run.Errorf("driver: %v", err)
		return
	}
	defer drv.Close()
	findings, err := common.LoadFindings("C05")
	if err != nil {
		run.Errorf("known findings: %v", err)
	}

	var progs []Prog
	var knownFs []common.Finding
	nKnown := 0
	var hierarchies [][]TypeDecl
	if run.Replay != "" {
		b, err := os.ReadFile(run.Replay)
		if err != nil {
			run.Errorf("replay: %v", err)
			return
		}
		var rp struct {
			Input Prog `json:"input"`
		}
		if err := json.Unmarshal(b, &rp); err != nil || len(rp.Input.Types) == 0 {
			run.Errorf("replay: no program in %s (%v)", run.Replay, err)
			return
		}
		progs = []Prog{rp.Input}
	} else {
		for _, f := range findings {
			var p Prog
			if err := json.Unmarshal(f.Replay, &p); err != nil || len(p.Types) == 0 {
				run.Errorf("finding %s: bad replay: %v", f.ID, err)
				continue
			}
			progs = append(progs, p)
			knownFs = append(knownFs, f)
			nKnown++
		}
		o := genOpts{plain: true, funcFld: true, sigs: true, maxDepth: 3}
		nH := 60
		if run.Thorough() {
			nH = 300
		}
		all := append(append([]string{}, forms...), hostForms...)
		for h := 0; h < nH; h++ {
			ts := genTypes(run.Rng, o)
			hierarchies = append(hierarchies, ts)
			for _, f := range all {
				reps := 1
				if run.Thorough() && (strings.HasPrefix(f, "call") || strings.HasPrefix(f, "tswitch") || strings.HasPrefix(f, "assert") || strings.HasPrefix(f, "recv")) {
					reps = 2
				}
				for k := 0; k < reps; k++ {
					progs = append(progs, genScenario(run.Rng, ts, f))
				}
			}
		}
	}

	// ---- (a) structural
	for hi, ts := range hierarchies {
		qs, err := structural(ts)
		if err != nil {
			run.Disagree(common.Disagreement{Kind: "impl-vs-model", Input: map[string]interface{}{"types": ts}, Note: "structural: " + err.Error()})
			continue
		}
		lines := make([]string, len(qs))
		for i, q := range qs {
			lines[i] = q.line
		}
		answers, err := drv.AskAll(lines)
		if err != nil {
			run.Errorf("driver: %v", err)
			return
		}
		for i, q := range qs {
			ans := answers[i]
			run.Count(q.line+"|"+q.ref[:2], q.nontrivial)
			run.Hit("struct:" + q.key)
			af := common.Fields(ans)
			switch q.key {
			case "sel":
				model := fmt.Sprintf("field=%s mowner=%s mpath=%s mptr=%s depth=%s", af["field"], af["mowner"], af["mpath"], af["mptr"], af["depth"])
				if model != q.impl {
					run.Disagree(common.Disagreement{Kind: "impl-vs-model", Input: map[string]interface{}{"types": ts, "query": q.line[strings.LastIndex(q.line, ")")+1:]}, Impl: q.impl, Model: model, Note: "lookupField / lookupMethod / methodDepth"})
				}
				if af["gsel"] != q.ref {
					run.Disagree(common.Disagreement{Kind: "spec-vs-ref", Input: map[string]interface{}{"types": ts, "query": q.line[strings.LastIndex(q.line, ")")+1:]}, Spec: af["gsel"], Ref: q.ref, Note: "selector rule vs go/types.LookupFieldOrMethod"})
				}
				if af["ysel"] != af["gsel"] {
					run.Hit("struct:sel-interpreter-differs-from-spec")
				}
				if hi < 2 && i < 3 {
					run.Sample(map[string]interface{}{"query": q.line[strings.LastIndex(q.line, ")")+1:], "types": ts, "impl": q.impl, "model": ans, "ref": q.ref}, 3)
				}
			case "mset":
				if "y="+af["y"] != q.impl {
					run.Disagree(common.Disagreement{Kind: "impl-vs-model", Input: map[string]interface{}{"types": ts, "query": q.line[strings.LastIndex(q.line, ")")+1:]}, Impl: q.impl, Model: "y=" + af["y"], Note: "methods()"})
				}
				k := q.ref[:2]
				if k+"="+af[k] != q.ref {
					run.Disagree(common.Disagreement{Kind: "spec-vs-ref", Input: map[string]interface{}{"types": ts, "query": q.line[strings.LastIndex(q.line, ")")+1:]}, Spec: k + "=" + af[k], Ref: q.ref, Note: "method set vs go/types.NewMethodSet"})
				}
				if af["y"] != af[k] {
					run.Hit("struct:mset-interpreter-differs-from-spec")
				}
			case "impl":
				if "y="+af["y"] != q.impl {
					run.Disagree(common.Disagreement{Kind: "impl-vs-model", Input: map[string]interface{}{"types": ts, "query": q.line[strings.LastIndex(q.line, ")")+1:]}, Impl: q.impl, Model: "y=" + af["y"], Note: "implements()"})
				}
				if "g="+af["g"] != q.ref {
					run.Disagree(common.Disagreement{Kind: "spec-vs-ref", Input: map[string]interface{}{"types": ts, "query": q.line[strings.LastIndex(q.line, ")")+1:]}, Spec: "g=" + af["g"], Ref: q.ref, Note: "implements vs go/types.Implements"})
				}
				if af["y"] != af["g"] {
					run.Hit("struct:implements-interpreter-differs-from-spec")
				}
			}
		}
	}

	// ---- (b) behavioural
	lines := make([]string, len(progs))
	for i, p := range progs {
		lines[i] = p.line()
	}
	answers, err := drv.AskAll(lines)
	if err != nil {
		run.Errorf("driver: %v", err)
		return
	}
	impls := runAllImpl(progs)
	refs, rerr := runAllRef(progs)
	if rerr != nil {
		run.Errorf("reference: %v", rerr)
		return
	}
	// host-side probes of optional interfaces: what the Lean models predict, against the call logs
	for i, p := range progs {
		line, opt, ok := probeQuery(p)
		if !ok {
			continue
		}
		a, err := drv.AskAll([]string{line})
		if err != nil || len(a) != 1 {
			run.Errorf("driver: probe: %v", err)
			continue
		}
		af := common.Fields(a[0])
		if af["y"] == "" || af["g"] == "" {
			run.Errorf("driver answered %q to %q", a[0], line)
			continue
		}
		run.Hit("struct:probe")
		called := func(out string) (bool, bool) { // (the optional method was called, the program ran to its end)
			return strings.Contains(out, "."+opt+","), !strings.Contains(out, "!")
		}
		if c, ran := called(impls[i].Out); ran && common.B(c) != af["y"] {
			run.Disagree(common.Disagreement{Kind: "impl-vs-model", Input: p, Impl: impls[i].Out, Model: "probe y=" + af["y"] + " w=" + af["w"], Note: "host-side probe of " + opt + ": getWrapper / composed wrappers"})
		}
		if c, ran := called(refs[i].Out); ran && common.B(c) != af["g"] {
			run.Disagree(common.Disagreement{Kind: "spec-vs-ref", Input: p, Spec: "probe g=" + af["g"], Ref: refs[i].Out, Note: "host-side probe of " + opt})
		}
		if af["y"] != af["g"] {
			run.Hit("struct:probe-interpreter-differs-from-spec")
		}
	}
	for i, p := range progs {
		ans := common.Fields(answers[i])
		host := isHost(p)
		if host {
			ans["class"], ans["y"], ans["g"], ans["wf"] = hostClass(p), impls[i].Out, refs[i].Out, "1"
		}
		if ans["class"] == "" || ans["y"] == "" || ans["g"] == "" {
			run.Errorf("driver answered %q to %q", answers[i], lines[i])
			continue
		}
		if ans["wf"] != "1" {
			run.Errorf("generated declaration set is not well formed: %q", lines[i])
		}
		im, rf := impls[i], refs[i]
		class := ans["class"]
		modelOK := im.Out == ans["y"]
		specOK := rf.Out == ans["g"]
		same := im.Out == rf.Out
		if i < nKnown {
			f := knownFs[i]
			// a repaired finding keeps the class it had; its replay input is in another class (or none) now
			if cl := listedClasses(f.ID); f.Status != "fixed" && len(cl) > 0 && !contains(cl, class) {
				run.Errorf("finding %s: its replay input has class %q, the entry lists %v", f.ID, class, cl)
			}
			run.Res.Known = append(run.Res.Known, common.KnownReplay{ID: f.ID, Status: f.Status, What: f.What, StillFails: !same,
				Detail: fmt.Sprintf("class=%s impl=%s ref=%s model=%s spec=%s", class, im.Out, rf.Out, ans["y"], ans["g"])})
			if !modelOK {
				run.Disagree(common.Disagreement{Kind: "impl-vs-model", Input: p, Impl: im.Out + " " + im.Err, Model: ans["y"], Note: "replay of " + f.ID})
			}
			if !specOK {
				run.Disagree(common.Disagreement{Kind: "spec-vs-ref", Input: p, Spec: ans["g"], Ref: rf.Out + " " + rf.Err, Note: "replay of " + f.ID})
			}
			if !modelOK && !same {
				// the finding's own input now behaves differently from the model of the unchanged code
				run.Disagree(common.Disagreement{Kind: "impl-vs-ref", Input: p, Impl: im.Out + " " + im.Err, Model: ans["y"], Ref: rf.Out + " " + rf.Err,
					Note: "replay of " + f.ID + ": differs from the reference and from the model of the unchanged code"})
			}
			continue
		}
		run.Count(lines[i], progDepth(p) >= 1)
		run.Hit("class:" + class)
		run.Hit("form:" + p.Form)
		run.Hit(fmt.Sprintf("embedding-depth:%d", progDepth(p)))
		for _, st := range p.Stmts {
			if st.Op != "tswitch" {
				continue
			}
			pos := "none"
			for k, c := range st.Clauses {
				switch {
				case len(c) > 0:
				case k == len(st.Clauses)-1:
					pos = "last"
				case k == 0:
					pos = "first"
				default:
					pos = "middle"
				}
			}
			run.Hit("tswitch-default:" + pos)
			if class == "in-domain" {
				run.Hit("tswitch-default:" + pos + ",in-domain")
			}
		}
		switch {
		case im.Out == "!reject":
			run.Hit("impl:rejects")
		case strings.HasSuffix(im.Out, "!panic"):
			run.Hit("impl:panics")
		case strings.Contains(im.Out, "!"):
			run.Hit("impl:crash-or-timeout")
		default:
			run.Hit("impl:runs")
		}
		switch {
		case rf.Out == "!reject":
			run.Hit("ref:rejects")
		case strings.HasSuffix(rf.Out, "!panic"):
			run.Hit("ref:panics")
		default:
			run.Hit("ref:runs")
		}
		if same {
			run.Hit("property:holds")
		} else {
			run.Hit("property:fails")
		}
		run.Sample(map[string]interface{}{"form": p.Form, "source": p.source(), "class": class, "impl": im.Out, "model": ans["y"], "spec": ans["g"], "ref": rf.Out}, 8)
		if !modelOK {
			run.Disagree(common.Disagreement{Kind: "impl-vs-model", Input: p, Impl: im.Out + " " + im.Err, Model: ans["y"], Ref: rf.Out})
		}
		if !specOK {
			run.Disagree(common.Disagreement{Kind: "spec-vs-ref", Input: p, Spec: ans["g"], Ref: rf.Out + " " + rf.Err})
		}
		if !same {
			d := common.Disagreement{Kind: "impl-vs-ref", Input: p, Impl: im.Out + " " + im.Err, Model: ans["y"], Ref: rf.Out + " " + rf.Err, Finding: class}
			if class == "in-domain" {
				d.Finding = ""
			}
			if !modelOK {
				d.Finding, d.Note = "", "differs from the reference and from the model of the unchanged code (class "+class+")"
			}
			run.Disagree(d)
		}
	}
}
