package main

import (
	"fmt"
	"strings"

	"verif/harness/common"
)

// argT is one operand of an initialiser (or of a function body).
//
//	var      b                               reference to a package-level int variable
//	call     f0()                            call of a function without parameter
//	callarg  g0(b)                           call of a function with one parameter (W = the variable passed)
//	method   t0.m0()                         method call on a package-level struct variable (V = variable, W = method)
//	mexpr    T.m0(t0)                        method expression (V = variable, W = method)
//	callvar  mv0()                           call of a package-level variable holding a method value
//	funclit  func() int { return b }()       reference inside a function literal
//	shadow   func() int { b := 7; return b }()  a local variable with the name of a package-level one
//	fieldkey rec{b: 7}.b                     a struct field key with the name of a package-level variable
//	lit      7
//	pkgvar   liba.X                          exported variable of an imported package (V = import path)
type argT struct {
	K string `json:"k"`
	V string `json:"v,omitempty"`
	W string `json:"w,omitempty"`
}

// varT is one variable specification.
//
//	int      var a = lg("a", args…)
//	novalue  var z int
//	multi    var p, q = two("p", args…)
//	paired   var p, q = lg("p", args0…), lg("q", args1…)
//	struct   var t0 = T{fx: lg("t0", args…)}
//	mvalue   var mv0 = lgf("mv0", t0.m0)         (Recv = t0, Meth = m0)
//	blank    var _ = lg("x0", args…)             (Label = x0)
type varT struct {
	Kind  string   `json:"kind"`
	Names []string `json:"names"`
	Label string   `json:"label,omitempty"`
	Args  [][]argT `json:"args,omitempty"` // one list per initialisation expression
	Recv  string   `json:"recv,omitempty"`
	Meth  string   `json:"meth,omitempty"`
}

// funcT is a function (`func f0() int`, `func g0(x int) int`) or a method (`func (r T) m0() int`);
// the body returns 1 + the sum of its operands.
type funcT struct {
	Name  string `json:"name"`
	Param bool   `json:"param,omitempty"`
	Meth  bool   `json:"meth,omitempty"`
	Args  []argT `json:"args"`
}

// itemT places a declaration in the file: v<i>, f<i>, i<i> (the i-th init function).
type caseT struct {
	Vars    []varT   `json:"vars"`
	Funcs   []funcT  `json:"funcs"`
	Inits   int      `json:"inits"`
	Layout  []string `json:"layout"`             // e.g. ["v0","f0","i0","v1"]; variables appear in the order of Vars
	Files   []int    `json:"files,omitempty"`    // dir mode: number of layout items per file (in order)
	LateTwo bool     `json:"late_two,omitempty"` // the helper `two` is declared after everything else
	Mode    string   `json:"mode"`
	// several packages: Subs are imported packages (each declares `var X`), Imports what the main
	// package imports, in source order. Prefix is put before every label ("liba.").
	Subs    []subT   `json:"subs,omitempty"`
	Imports []string `json:"imports,omitempty"`
	Prefix  string   `json:"prefix,omitempty"` // "file": Eval of one file; "dir": importSrc of a directory with several files
	Note    string   `json:"note,omitempty"`
}

// subT is an imported package.
type subT struct {
	Path    string   `json:"path"`
	Imports []string `json:"imports"`
	Body    caseT    `json:"body"`
}

func (c caseT) hasStruct() bool {
	for _, v := range c.Vars {
		if v.Kind == "struct" || v.Kind == "mvalue" {
			return true
		}
	}
	for _, f := range c.Funcs {
		if f.Meth {
			return true
		}
	}
	return false
}

// intNames lists every package-level int variable (fields of `rec`).
func (c caseT) intNames() []string {
	var out []string
	for _, v := range c.Vars {
		switch v.Kind {
		case "int", "novalue", "multi", "paired":
			out = append(out, v.Names...)
		}
	}
	return out
}

func (c caseT) usesFieldKey() bool {
	chk := func(as []argT) bool {
		for _, a := range as {
			if a.K == "fieldkey" {
				return true
			}
		}
		return false
	}
	for _, v := range c.Vars {
		for _, as := range v.Args {
			if chk(as) {
				return true
			}
		}
	}
	for _, f := range c.Funcs {
		if chk(f.Args) {
			return true
		}
	}
	return false
}

// ---- rendering to Go source ----

func argSrc(a argT) string {
	switch a.K {
	case "var":
		return a.V
	case "call":
		return a.V + "()"
	case "callarg":
		return a.V + "(" + a.W + ")"
	case "method":
		return a.V + "." + a.W + "()"
	case "mexpr":
		return "T." + a.W + "(" + a.V + ")"
	case "callvar":
		return a.V + "()"
	case "funclit":
		return "func() int { return " + a.V + " }()"
	case "shadow":
		return "func() int { " + a.V + " := 7; return " + a.V + " }()"
	case "fieldkey":
		return "rec{" + a.V + ": 7}." + a.V
	case "pkgvar":
		return a.V + ".X"
	}
	return "7"
}

func argsSrc(as []argT) string {
	var b strings.Builder
	for _, a := range as {
		b.WriteString(", " + argSrc(a))
	}
	return b.String()
}

func argsOf(v varT, i int) []argT {
	if i < len(v.Args) {
		return v.Args[i]
	}
	return nil
}

func varSrc(v varT, px string) string {
	switch v.Kind {
	case "int":
		return fmt.Sprintf("var %s = lg(%q%s)", v.Names[0], px+v.Names[0], argsSrc(argsOf(v, 0)))
	case "blank":
		return fmt.Sprintf("var _ = lg(%q%s)", px+v.Label, argsSrc(argsOf(v, 0)))
	case "novalue":
		return fmt.Sprintf("var %s int", strings.Join(v.Names, ", "))
	case "multi":
		return fmt.Sprintf("var %s = two(%q%s)", strings.Join(v.Names, ", "), px+v.Names[0], argsSrc(argsOf(v, 0)))
	case "paired":
		var es []string
		for i, n := range v.Names {
			es = append(es, fmt.Sprintf("lg(%q%s)", px+n, argsSrc(argsOf(v, i))))
		}
		return fmt.Sprintf("var %s = %s", strings.Join(v.Names, ", "), strings.Join(es, ", "))
	case "struct":
		return fmt.Sprintf("var %s = T{fx: lg(%q%s)}", v.Names[0], px+v.Names[0], argsSrc(argsOf(v, 0)))
	case "mvalue":
		return fmt.Sprintf("var %s = lgf(%q, %s.%s)", v.Names[0], px+v.Names[0], v.Recv, v.Meth)
	}
	return "// ?"
}

func funcSrc(f funcT) string {
	sum := "1"
	for _, a := range f.Args {
		sum += " + " + argSrc(a)
	}
	switch {
	case f.Meth:
		return fmt.Sprintf("func (r T) %s() int { return r.fx + %s }", f.Name, sum)
	case f.Param:
		return fmt.Sprintf("func %s(x int) int { return x + %s }", f.Name, sum)
	}
	return fmt.Sprintf("func %s() int { return %s }", f.Name, sum)
}

// every line the program prints goes through say, which prefixes the tag of the program (empty for
// the interpreter; the compiled batch links all programs into one binary, see gobatch.go)
const prelude = `
const tag = "TAGVALUE"

func say(a ...interface{}) {
	fmt.Print(tag)
	fmt.Println(a...)
}

func lg(s string, xs ...int) int {
	r := 1
	for _, x := range xs {
		r += x
	}
	say(s, xs)
	return r % 1000
}

func lgf(s string, f func() int) func() int {
	say(s)
	return f
}
`

const twoSrc = `func two(s string, xs ...int) (int, int) {
	r := lg(s, xs...)
	return r, r + 1
}
`

func (c caseT) itemSrc(it string) string {
	var k int
	fmt.Sscanf(it[1:], "%d", &k)
	switch it[0] {
	case 'v':
		return varSrc(c.Vars[k], c.Prefix)
	case 'f':
		return funcSrc(c.Funcs[k])
	case 'i':
		return fmt.Sprintf("func init() { say(\"%sinit%d\") }", c.Prefix, k)
	}
	return ""
}

func (c caseT) typesSrc() string {
	var b strings.Builder
	if c.hasStruct() {
		b.WriteString("type T struct{ fx int }\n\n")
	}
	if c.usesFieldKey() {
		b.WriteString("type rec struct{ " + strings.Join(c.intNames(), ", ") + " int }\n\n")
	}
	return b.String()
}

func (c caseT) mainSrc() string {
	var b strings.Builder
	b.WriteString("func main() {\n\tsay(\"main\"")
	for _, n := range c.intNames() {
		b.WriteString(", " + n)
	}
	for _, v := range c.Vars {
		switch v.Kind {
		case "struct":
			b.WriteString(", " + v.Names[0] + ".fx")
		case "mvalue":
			b.WriteString(", " + v.Names[0] + "()")
		}
	}
	for _, im := range c.Imports {
		b.WriteString(", " + im + ".X")
	}
	b.WriteString(")\n}\n")
	return b.String()
}

func (c caseT) importsSrc() string {
	var b strings.Builder
	for _, im := range c.Imports {
		b.WriteString("import \"IMPORTROOT/" + im + "\"\n")
	}
	return b.String()
}

// usesPkg reports whether the items it[lo:hi] mention an imported package.
func (c caseT) itemsUse(items []string, im string) bool {
	for _, it := range items {
		if strings.Contains(c.itemSrc(it), im+".X") {
			return true
		}
	}
	return false
}

// tree renders the program: mode "file" = one file main.go; mode "dir" = aa.go with the helpers and the types,
// files b.go, c.go, … holding the declarations in order, zz.go with main.
func (c caseT) tree() treeT {
	t := treeT{}
	for _, sp := range c.Subs {
		t[sp.Path+"/"+sp.Path+".go"] = sp.source()
	}
	tail := "import \"fmt\"\n" + prelude + "\n" + c.typesSrc()
	if c.Mode != "dir" {
		var b strings.Builder
		b.WriteString("package main\n\n" + c.importsSrc() + tail)
		if !c.LateTwo {
			b.WriteString(twoSrc + "\n")
		}
		for _, it := range c.Layout {
			b.WriteString(c.itemSrc(it) + "\n\n")
		}
		b.WriteString(c.mainSrc())
		if c.LateTwo {
			b.WriteString("\n" + twoSrc)
		}
		t["main.go"] = b.String()
		return t
	}
	k := 0
	for i, n := range c.Files {
		var b strings.Builder
		b.WriteString("package main\n\n")
		hi := k + n
		if hi > len(c.Layout) {
			hi = len(c.Layout)
		}
		for _, im := range c.Imports {
			if c.itemsUse(c.Layout[k:hi], im) {
				b.WriteString("import \"IMPORTROOT/" + im + "\"\n")
			}
		}
		for ; k < hi; k++ {
			b.WriteString(c.itemSrc(c.Layout[k]) + "\n\n")
		}
		t[string(rune('b'+i))+".go"] = b.String()
	}
	// helpers and types in the first file, main (and whatever is left) in the last
	first := "package main\n\n" + tail
	if !c.LateTwo {
		first += twoSrc
	}
	t["aa.go"] = first
	var b strings.Builder
	b.WriteString("package main\n\n" + c.importsSrc())
	for ; k < len(c.Layout); k++ {
		b.WriteString(c.itemSrc(c.Layout[k]) + "\n\n")
	}
	b.WriteString(c.mainSrc())
	if c.LateTwo {
		b.WriteString("\n" + twoSrc)
	}
	t["zz.go"] = b.String()
	return t
}

// source renders an imported package as one file.
func (sp subT) source() string {
	c := sp.Body
	var b strings.Builder
	b.WriteString("package " + sp.Path + "\n\n")
	for _, im := range sp.Imports {
		b.WriteString("import \"IMPORTROOT/" + im + "\"\n")
	}
	b.WriteString("import \"fmt\"\n" + prelude + "\n" + twoSrc + "\n" + c.typesSrc())
	for _, it := range c.Layout {
		b.WriteString(c.itemSrc(it) + "\n\n")
	}
	return b.String()
}

// forYaegi instantiates the placeholders for the interpreter.
func forYaegi(src string) string {
	return strings.ReplaceAll(strings.ReplaceAll(src, "TAGVALUE", ""), "IMPORTROOT/", "")
}

// ---- rendering to the protocol line ----

func id(name string, pkgLevel bool) string { return common.L(common.Q(name), common.B(pkgLevel)) }

// argIds lists the identifiers of an operand in source order (only those that can matter:
// package-level variables, functions, methods as "T.m").
func argIds(a argT) []string {
	switch a.K {
	case "var":
		return []string{id(a.V, true)}
	case "call":
		return []string{id(a.V, true)}
	case "callarg":
		return []string{id(a.V, true), id(a.W, true)}
	case "method":
		return []string{id(a.V, true), id("T."+a.W, true)}
	case "mexpr":
		return []string{id("T."+a.W, true), id(a.V, true)}
	case "callvar":
		return []string{id(a.V, true)}
	case "funclit":
		return []string{id(a.V, true)}
	case "shadow":
		return []string{id(a.V, false), id(a.V, false)}
	case "fieldkey":
		return []string{id(a.V, false)}
	}
	return nil
}

func idsOf(head string, as []argT) string {
	var items []string
	if head != "" {
		items = append(items, id(head, true))
	}
	for _, a := range as {
		items = append(items, argIds(a)...)
	}
	return common.L(items...)
}

func varSexp(v varT, late bool, px string) string {
	items := []string{common.QL(v.Names), common.B(late && v.Kind == "multi")}
	switch v.Kind {
	case "int", "struct":
		items = append(items, common.L(common.Q(px+v.Names[0]), idsOf("lg", argsOf(v, 0))))
	case "blank":
		items = append(items, common.L(common.Q(px+v.Label), idsOf("lg", argsOf(v, 0))))
	case "multi":
		items = append(items, common.L(common.Q(px+v.Names[0]), idsOf("two", argsOf(v, 0))))
	case "paired":
		for i, n := range v.Names {
			items = append(items, common.L(common.Q(px+n), idsOf("lg", argsOf(v, i))))
		}
	case "mvalue":
		items = append(items, common.L(common.Q(px+v.Names[0]), common.L(id("lgf", true), id(v.Recv, true), id("T."+v.Meth, true))))
	}
	return common.L(items...)
}

// pkgSexp renders VARS FUNCS INITS of one package.
func (c caseT) pkgSexp() string {
	var vs, fs, is []string
	for _, v := range c.Vars {
		vs = append(vs, varSexp(v, c.LateTwo, c.Prefix))
	}
	fs = append(fs, common.L("lg", "()"), common.L("two", common.L(id("lg", true))), common.L("lgf", "()"))
	for _, f := range c.Funcs {
		name := f.Name
		if f.Meth {
			name = "T." + name
		}
		fs = append(fs, common.L(common.Q(name), idsOf("", f.Args)))
	}
	// init functions in layout order
	for _, it := range c.Layout {
		if it[0] == 'i' {
			is = append(is, c.Prefix+"init"+it[1:])
		}
	}
	return common.L(vs...) + " " + common.L(fs...) + " " + common.L(is...)
}

// importOrder lists the import specifications of the main package in source order (directory
// mode: file by file; a file imports what it uses, zz.go everything).
func (c caseT) importOrder() []string {
	if c.Mode != "dir" {
		return c.Imports
	}
	var out []string
	k := 0
	for _, n := range c.Files {
		hi := k + n
		if hi > len(c.Layout) {
			hi = len(c.Layout)
		}
		for _, im := range c.Imports {
			if c.itemsUse(c.Layout[k:hi], im) {
				out = append(out, im)
			}
		}
		k = hi
	}
	return append(out, c.Imports...)
}

func (c caseT) line() string {
	if len(c.Subs) == 0 {
		return "C15 pkg " + c.pkgSexp() + " (main)"
	}
	var ss []string
	for _, sp := range c.Subs {
		ss = append(ss, common.L(common.Q(sp.Path), common.QL(sp.Imports), sp.Body.pkgSexp()))
	}
	return "C15 prog " + common.B(c.Mode == "dir") + " " + common.L(ss...) + " " + common.QL(c.importOrder()) + " " + c.pkgSexp() + " (main)"
}
