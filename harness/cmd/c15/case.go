package main

import (
	"fmt"
	"strings"

	"verif/harness/common"
)

// argT is one operand of an initialiser (or of a function body).
//
//	var      b                               reference to a package-level int variable
//	call     f0()                            call of a function without parameter
//	callarg  g0(b)                           call of a function with one parameter (W = the variable passed)
//	method   t0.m0()                         method call on a package-level struct variable (V = variable, W = method)
//	mexpr    T.m0(t0)                        method expression (V = variable, W = method)
//	callvar  mv0()                           call of a package-level variable holding a method value
//	funclit  func() int { return b }()       reference inside a function literal
//	shadow   func() int { b := 7; return b }()  a local variable with the name of a package-level one
//	param    func(b int) int { return b }(7)  a parameter of a function literal with the name of a package-level variable
//	fieldkey rec{b: 7}.b                     a struct field key with the name of a package-level variable
//	callfv   fv0()                           call of a package-level variable initialised by a function literal
//	passfv   usefn(fv0)                      such a variable passed as a value, not called
//	lit      7
//	pkgvar   liba.X                          exported variable of an imported package (V = import path)
type argT struct {
	K string `json:"k"`
	V string `json:"v,omitempty"`
	W string `json:"w,omitempty"`
}

// varT is one variable specification.
//
//	int      var a = lg("a", args…)
//	novalue  var z int
//	multi    var p, q = two("p", args…)         (Label, when set, is logged instead of the first name: var _, q = two("u0", …))
//	paired   var p, q = lg("p", args0…), lg("q", args1…)
//	struct   var t0 = T{fx: lg("t0", args…)}
//	mvalue   var mv0 = lgf("mv0", t0.m0)         (Recv = t0, Meth = m0)
//	blank    var _ = lg("x0", args…)             (Label = x0)
//	mapvar   var mp0 = map[int]int{7: lg("mp0", args…)}
//	funcvar  var fv0 = func() int { return 1 + args… }   (a function literal: evaluating it logs nothing)
//	commaok  var v0, ok0 = mp0[lg("v0", args…)]    (Recv = mp0; package-level comma-ok declaration, accepted since e4c80e1)
type varT struct {
	Kind  string   `json:"kind"`
	Names []string `json:"names"`
	Label string   `json:"label,omitempty"`
	Args  [][]argT `json:"args,omitempty"` // one list per initialisation expression
	Recv  string   `json:"recv,omitempty"`
	Meth  string   `json:"meth,omitempty"`
}

// funcT is a function (`func f0() int`, `func g0(x int) int`) or a method (`func (r T) m0() int`);
// the body returns 1 + the sum of its operands.
type funcT struct {
	Name  string `json:"name"`
	Param bool   `json:"param,omitempty"`
	Meth  bool   `json:"meth,omitempty"`
	Args  []argT `json:"args"`
}

// lookT is a declaration that looks like an init function but is not one (it logs its label only
// when main calls it, after main logged `main`):
//
//	vmethod  func (r rv) init() { say("rv_init") }            main: rv{}.init()
//	pmethod  func (r *rp) init() { say("rp_init") }           main: (&rp{}).init()
//	Init     func Init() { say("Init") }                      main: Init()
//	init_    func init_() { say("init_") }                    main: init_()
//	initX    func initX() { say("initX") }                    main: initX()
//	local    func locinit() { init := 7; say("locinit", init) }   main: locinit()
//	field    type rf struct{ init int }                       main: say("rf", rf{init: 1}.init)
//
// An imported package has no main: there they are never called.
type lookT struct {
	Kind string `json:"kind"`
}

var lookKinds = []string{"vmethod", "pmethod", "Init", "init_", "initX", "local", "field"}

func (l lookT) label() string {
	switch l.Kind {
	case "vmethod":
		return "rv_init"
	case "pmethod":
		return "rp_init"
	case "local":
		return "locinit"
	case "field":
		return "rf"
	}
	return l.Kind
}

// itemT places a declaration in the file: v<i>, f<i>, i<i> (the i-th init function), l<i> (the i-th look-alike).
type caseT struct {
	Vars    []varT   `json:"vars"`
	Funcs   []funcT  `json:"funcs"`
	Inits   int      `json:"inits"`
	Looks   []lookT  `json:"looks,omitempty"`
	Layout  []string `json:"layout"`             // e.g. ["v0","f0","i0","v1"]; variables appear in the order of Vars
	Files   []int    `json:"files,omitempty"`    // dir mode: number of layout items per file (in order)
	LateTwo bool     `json:"late_two,omitempty"` // the helper `two` is declared after everything else
	Mode    string   `json:"mode"`
	// several packages: Subs are imported packages (each declares `var X`), Imports what the main
	// package imports, in source order. Prefix is put before every label ("liba.").
	Subs    []subT   `json:"subs,omitempty"`
	Imports []string `json:"imports,omitempty"`
	Prefix  string   `json:"prefix,omitempty"` // "file": Eval of one file; "dir": importSrc of a directory with several files
	Note    string   `json:"note,omitempty"`
}

// subT is an imported package.
type subT struct {
	Path    string   `json:"path"`
	Imports []string `json:"imports"`
	Body    caseT    `json:"body"`
}

func (c caseT) hasStruct() bool {
	for _, v := range c.Vars {
		if v.Kind == "struct" || v.Kind == "mvalue" {
			return true
		}
	}
	for _, f := range c.Funcs {
		if f.Meth {
			return true
		}
	}
	return false
}

// intNames lists every package-level int variable (fields of `rec`).
func (c caseT) intNames() []string {
	var out []string
	for _, v := range c.Vars {
		switch v.Kind {
		case "commaok":
			out = append(out, v.Names[0])
		case "int", "novalue", "multi", "paired":
			for _, n := range v.Names {
				if n != "_" {
					out = append(out, n)
				}
			}
		}
	}
	return out
}

// multiLabel: what the expression of a multi-value declaration logs.
func multiLabel(v varT) string {
	if v.Label != "" {
		return v.Label
	}
	return v.Names[0]
}

func (c caseT) usesFieldKey() bool {
	chk := func(as []argT) bool {
		for _, a := range as {
			if a.K == "fieldkey" {
				return true
			}
		}
		return false
	}
	for _, v := range c.Vars {
		for _, as := range v.Args {
			if chk(as) {
				return true
			}
		}
	}
	for _, f := range c.Funcs {
		if chk(f.Args) {
			return true
		}
	}
	return false
}

// ---- rendering to Go source ----

func argSrc(a argT) string {
	switch a.K {
	case "var":
		return a.V
	case "call":
		return a.V + "()"
	case "callarg":
		return a.V + "(" + a.W + ")"
	case "method":
		return a.V + "." + a.W + "()"
	case "mexpr":
		return "T." + a.W + "(" + a.V + ")"
	case "callvar":
		return a.V + "()"
	case "funclit":
		return "func() int { return " + a.V + " }()"
	case "shadow":
		return "func() int { " + a.V + " := 7; return " + a.V + " }()"
	case "callfv":
		return a.V + "()"
	case "passfv":
		return "usefn(" + a.V + ")"
	case "param":
		return "func(" + a.V + " int) int { return " + a.V + " }(7)"
	case "fieldkey":
		return "rec{" + a.V + ": 7}." + a.V
	case "pkgvar":
		return a.V + ".X"
	}
	return "7"
}

func argsSrc(as []argT) string {
	var b strings.Builder
	for _, a := range as {
		b.WriteString(", " + argSrc(a))
	}
	return b.String()
}

func argsOf(v varT, i int) []argT {
	if i < len(v.Args) {
		return v.Args[i]
	}
	return nil
}

func varSrc(v varT, px string) string {
	switch v.Kind {
	case "int":
		return fmt.Sprintf("var %s = lg(%q%s)", v.Names[0], px+v.Names[0], argsSrc(argsOf(v, 0)))
	case "blank":
		return fmt.Sprintf("var _ = lg(%q%s)", px+v.Label, argsSrc(argsOf(v, 0)))
	case "novalue":
		return fmt.Sprintf("var %s int", strings.Join(v.Names, ", "))
	case "multi":
		return fmt.Sprintf("var %s = two(%q%s)", strings.Join(v.Names, ", "), px+multiLabel(v), argsSrc(argsOf(v, 0)))
	case "paired":
		var es []string
		for i, n := range v.Names {
			es = append(es, fmt.Sprintf("lg(%q%s)", px+n, argsSrc(argsOf(v, i))))
		}
		return fmt.Sprintf("var %s = %s", strings.Join(v.Names, ", "), strings.Join(es, ", "))
	case "struct":
		return fmt.Sprintf("var %s = T{fx: lg(%q%s)}", v.Names[0], px+v.Names[0], argsSrc(argsOf(v, 0)))
	case "mvalue":
		return fmt.Sprintf("var %s = lgf(%q, %s.%s)", v.Names[0], px+v.Names[0], v.Recv, v.Meth)
	case "mapvar":
		return fmt.Sprintf("var %s = map[int]int{7: lg(%q%s)}", v.Names[0], px+v.Names[0], argsSrc(argsOf(v, 0)))
	case "funcvar":
		sum := "1"
		for _, a := range argsOf(v, 0) {
			sum += " + " + argSrc(a)
		}
		return fmt.Sprintf("var %s = func() int { return %s }", v.Names[0], sum)
	case "commaok":
		return fmt.Sprintf("var %s = %s[lg(%q%s)]", strings.Join(v.Names, ", "), v.Recv, px+v.Names[0], argsSrc(argsOf(v, 0)))
	}
	return "// ?"
}

func funcSrc(f funcT) string {
	sum := "1"
	for _, a := range f.Args {
		sum += " + " + argSrc(a)
	}
	switch {
	case f.Meth:
		return fmt.Sprintf("func (r T) %s() int { return r.fx + %s }", f.Name, sum)
	case f.Param:
		return fmt.Sprintf("func %s(x int) int { return x + %s }", f.Name, sum)
	}
	return fmt.Sprintf("func %s() int { return %s }", f.Name, sum)
}

// every line the program prints goes through say, which prefixes the tag of the program (empty for
// the interpreter; the compiled batch links all programs into one binary, see gobatch.go)
const prelude = `
const tag = "TAGVALUE"

func say(a ...interface{}) {
	fmt.Print(tag)
	fmt.Println(a...)
}

func lg(s string, xs ...int) int {
	r := 1
	for _, x := range xs {
		r += x
	}
	say(s, xs)
	return r % 1000
}

func lgf(s string, f func() int) func() int {
	say(s)
	return f
}

func usefn(f func() int) int {
	if f == nil {
		return 0
	}
	return 7
}
`

const twoSrc = `func two(s string, xs ...int) (int, int) {
	r := lg(s, xs...)
	return r, r + 1
}
`

func (c caseT) itemSrc(it string) string {
	var k int
	fmt.Sscanf(it[1:], "%d", &k)
	switch it[0] {
	case 'v':
		return varSrc(c.Vars[k], c.Prefix)
	case 'f':
		return funcSrc(c.Funcs[k])
	case 'i':
		return fmt.Sprintf("func init() { say(\"%sinit%d\") }", c.Prefix, k)
	case 'l':
		l := c.Looks[k]
		lb := c.Prefix + l.label()
		switch l.Kind {
		case "vmethod":
			return fmt.Sprintf("func (r rv) init() { say(%q) }", lb)
		case "pmethod":
			return fmt.Sprintf("func (r *rp) init() { say(%q) }", lb)
		case "local":
			return fmt.Sprintf("func locinit() { init := 7; say(%q, init) }", lb)
		case "field":
			return "type rf struct{ init int }"
		}
		return fmt.Sprintf("func %s() { say(%q) }", l.Kind, lb)
	}
	return ""
}

func (c caseT) hasLook(kind string) bool {
	for _, l := range c.Looks {
		if l.Kind == kind {
			return true
		}
	}
	return false
}

// afterCalls: the calls main makes after it logged `main`, and what they log.
func (c caseT) afterCalls() (src []string, labels []string) {
	for _, l := range c.Looks {
		switch l.Kind {
		case "vmethod":
			src = append(src, "rv{}.init()")
		case "pmethod":
			src = append(src, "(&rp{}).init()")
		case "local":
			src = append(src, "locinit()")
		case "field":
			src = append(src, fmt.Sprintf("say(%q, rf{init: 1}.init)", c.Prefix+l.label()))
		default:
			src = append(src, l.Kind+"()")
		}
		labels = append(labels, c.Prefix+l.label())
	}
	return src, labels
}

func (c caseT) typesSrc() string {
	var b strings.Builder
	if c.hasStruct() {
		b.WriteString("type T struct{ fx int }\n\n")
	}
	if c.usesFieldKey() {
		b.WriteString("type rec struct{ " + strings.Join(c.intNames(), ", ") + " int }\n\n")
	}
	if c.hasLook("vmethod") {
		b.WriteString("type rv struct{ n int }\n\n")
	}
	if c.hasLook("pmethod") {
		b.WriteString("type rp struct{ n int }\n\n")
	}
	return b.String()
}

// typesSexp: the same declarations for the protocol line.
func (c caseT) typesSexp() []string {
	var out []string
	if c.hasStruct() {
		out = append(out, common.L("type", "T", common.L("fx")))
	}
	if c.usesFieldKey() {
		out = append(out, common.L("type", "rec", common.QL(c.intNames())))
	}
	if c.hasLook("vmethod") {
		out = append(out, common.L("type", "rv", common.L("n")))
	}
	if c.hasLook("pmethod") {
		out = append(out, common.L("type", "rp", common.L("n")))
	}
	return out
}

func (c caseT) mainSrc() string {
	var b strings.Builder
	b.WriteString("func main() {\n\tsay(\"main\"")
	for _, n := range c.intNames() {
		b.WriteString(", " + n)
	}
	for _, v := range c.Vars {
		switch v.Kind {
		case "struct":
			b.WriteString(", " + v.Names[0] + ".fx")
		case "mvalue":
			b.WriteString(", " + v.Names[0] + "()")
		case "mapvar":
			b.WriteString(", len(" + v.Names[0] + ")")
		case "funcvar":
			b.WriteString(", " + v.Names[0] + "()")
		case "commaok":
			b.WriteString(", " + v.Names[1])
		}
	}
	for _, im := range c.Imports {
		b.WriteString(", " + im + ".X")
	}
	b.WriteString(")\n")
	calls, _ := c.afterCalls()
	for _, cs := range calls {
		b.WriteString("\t" + cs + "\n")
	}
	b.WriteString("}\n")
	return b.String()
}

func (c caseT) importsSrc() string {
	var b strings.Builder
	for _, im := range c.Imports {
		b.WriteString("import \"IMPORTROOT/" + im + "\"\n")
	}
	return b.String()
}

// itemsUse reports whether the items mention an imported package.
func (c caseT) itemsUse(items []string, im string) bool {
	for _, it := range items {
		if isItem(it) && strings.Contains(c.itemSrc(it), im+".X") {
			return true
		}
	}
	return false
}

// fileT is one source file of a package: the packages it imports (besides fmt) and its
// declarations as codes — "P" the helpers say, lg, lgf and the types (with `import "fmt"`),
// "T" the helper two, "M" main, otherwise a layout item.
type fileT struct {
	Name    string
	Imports []string
	Codes   []string
}

func isItem(code string) bool { return code != "P" && code != "T" && code != "M" }

// split cuts the layout into the pieces given by Files (what is left over is returned last).
func (c caseT) split() (pieces [][]string, rest []string) {
	k := 0
	for _, n := range c.Files {
		hi := k + n
		if hi > len(c.Layout) {
			hi = len(c.Layout)
		}
		pieces = append(pieces, c.Layout[k:hi])
		k = hi
	}
	return pieces, c.Layout[k:]
}

func (c caseT) used(items []string, imports []string) []string {
	var out []string
	for _, im := range imports {
		if c.itemsUse(items, im) {
			out = append(out, im)
		}
	}
	return out
}

// mainFiles lists the files of the main package in the order in which they are read (by name):
// mode "file" = one file main.go; mode "dir" = aa.go with the helpers and the types, files b.go,
// c.go, … holding the declarations in order, zz.go with what is left and main.
func (c caseT) mainFiles() []fileT {
	if c.Mode != "dir" {
		f := fileT{Name: "main.go", Imports: c.Imports, Codes: []string{"P"}}
		if !c.LateTwo {
			f.Codes = append(f.Codes, "T")
		}
		f.Codes = append(f.Codes, c.Layout...)
		f.Codes = append(f.Codes, "M")
		if c.LateTwo {
			f.Codes = append(f.Codes, "T")
		}
		return []fileT{f}
	}
	first := fileT{Name: "aa.go", Codes: []string{"P"}}
	if !c.LateTwo {
		first.Codes = append(first.Codes, "T")
	}
	out := []fileT{first}
	pieces, rest := c.split()
	for i, items := range pieces {
		out = append(out, fileT{Name: string(rune('b'+i)) + ".go", Imports: c.used(items, c.Imports), Codes: items})
	}
	last := fileT{Name: "zz.go", Imports: c.Imports, Codes: append(append([]string{}, rest...), "M")}
	if c.LateTwo {
		last.Codes = append(last.Codes, "T")
	}
	return append(out, last)
}

// files lists the files of an imported package: one file, or (Body.Files set) aa.go with the
// helpers and b.go, c.go, … with the declarations.
func (sp subT) files() []fileT {
	c := sp.Body
	if len(c.Files) == 0 {
		return []fileT{{Name: sp.Path + ".go", Imports: sp.Imports, Codes: append([]string{"P", "T"}, c.Layout...)}}
	}
	out := []fileT{{Name: "aa.go", Codes: []string{"P", "T"}}}
	pieces, rest := c.split()
	if len(pieces) > 0 {
		pieces[len(pieces)-1] = append(append([]string{}, pieces[len(pieces)-1]...), rest...)
	}
	for i, items := range pieces {
		out = append(out, fileT{Name: string(rune('b'+i)) + ".go", Imports: c.used(items, sp.Imports), Codes: items})
	}
	return out
}

// render gives the source text of a file.
func (c caseT) render(pkg string, f fileT) string {
	var b strings.Builder
	b.WriteString("package " + pkg + "\n\n")
	for _, im := range f.Imports {
		b.WriteString("import \"IMPORTROOT/" + im + "\"\n")
	}
	for i, code := range f.Codes {
		switch code {
		case "P":
			b.WriteString("import \"fmt\"\n" + prelude + "\n" + c.typesSrc())
		case "T":
			if i > 0 && f.Codes[i-1] == "M" {
				b.WriteString("\n")
			}
			b.WriteString(twoSrc + "\n")
		case "M":
			b.WriteString(c.mainSrc())
		default:
			b.WriteString(c.itemSrc(code) + "\n\n")
		}
	}
	return b.String()
}

// tree renders the program: the files of the main package in the root, every imported package
// in a directory of its own.
func (c caseT) tree() treeT {
	t := treeT{}
	for _, sp := range c.Subs {
		for _, f := range sp.files() {
			t[sp.Path+"/"+f.Name] = sp.Body.render(sp.Path, f)
		}
	}
	for _, f := range c.mainFiles() {
		t[f.Name] = c.render("main", f)
	}
	return t
}

// forYaegi instantiates the placeholders for the interpreter.
func forYaegi(src string) string {
	return strings.ReplaceAll(strings.ReplaceAll(src, "TAGVALUE", ""), "IMPORTROOT/", "")
}

// ---- rendering to the protocol line ----

func id(name string, pkgLevel bool) string { return common.L(common.Q(name), common.B(pkgLevel)) }

// idMexpr: a reference to a method through a method expression T.m (third flag of the protocol).
func idMexpr(name string) string { return common.L(common.Q(name), common.B(true), common.B(true)) }

// argIds lists the identifiers of an operand in the order in which a pre-order walk of the
// expression meets what they stand for (only those that can matter: package-level variables,
// functions, methods as "T.m"). A method selector `t0.m0` is one node, met before its operand `t0`:
// the reference to the method comes first.
func argIds(a argT) []string {
	switch a.K {
	case "var":
		return []string{id(a.V, true)}
	case "call":
		return []string{id(a.V, true)}
	case "callarg":
		return []string{id(a.V, true), id(a.W, true)}
	case "method":
		return []string{id("T."+a.W, true), id(a.V, true)}
	case "mexpr":
		return []string{idMexpr("T." + a.W), id(a.V, true)}
	case "callvar", "callfv":
		return []string{id(a.V, true)}
	case "passfv":
		return []string{id("usefn", true), id(a.V, true)}
	case "funclit":
		return []string{id(a.V, true)}
	case "shadow", "param":
		return []string{id(a.V, false), id(a.V, false)}
	case "fieldkey":
		return []string{id(a.V, false)}
	}
	return nil
}

func argIdsAll(as []argT) []string {
	var items []string
	for _, a := range as {
		items = append(items, argIds(a)...)
	}
	return items
}

// operandLater: the comma-ok declaration k stands before the declaration of its map operand, in the
// order in which the declarations of the package are read (the layout; files are consecutive pieces of it).
func (c caseT) operandLater(k int) bool {
	v := c.Vars[k]
	if v.Kind != "commaok" {
		return false
	}
	pos := func(code string) int {
		for i, it := range c.Layout {
			if it == code {
				return i
			}
		}
		return -1
	}
	for j, w := range c.Vars {
		if w.Kind == "mapvar" && w.Names[0] == v.Recv {
			return pos(fmt.Sprintf("v%d", j)) > pos(fmt.Sprintf("v%d", k))
		}
	}
	return false
}

func idsOf(head string, as []argT) string {
	var items []string
	if head != "" {
		items = append(items, id(head, true))
	}
	for _, a := range as {
		items = append(items, argIds(a)...)
	}
	return common.L(items...)
}

func varSexp(v varT, late, opLate bool, px string) string {
	items := []string{common.QL(v.Names), common.B(late && v.Kind == "multi"), common.B(opLate && v.Kind == "commaok")}
	switch v.Kind {
	case "commaok":
		// m[k]: the map operand is met first, then the index expression
		ids := append([]string{id(v.Recv, true), id("lg", true)}, argIdsAll(argsOf(v, 0))...)
		items = append(items, common.L(common.Q(px+v.Names[0]), common.L(ids...)))
	case "funcvar":
		// the empty label: a function literal logs nothing; the identifiers are those of its body
		items = append(items, common.L(common.Q(""), idsOf("", argsOf(v, 0))))
	case "int", "struct", "mapvar":
		items = append(items, common.L(common.Q(px+v.Names[0]), idsOf("lg", argsOf(v, 0))))
	case "blank":
		items = append(items, common.L(common.Q(px+v.Label), idsOf("lg", argsOf(v, 0))))
	case "multi":
		items = append(items, common.L(common.Q(px+multiLabel(v)), idsOf("two", argsOf(v, 0))))
	case "paired":
		for i, n := range v.Names {
			items = append(items, common.L(common.Q(px+n), idsOf("lg", argsOf(v, i))))
		}
	case "mvalue":
		items = append(items, common.L(common.Q(px+v.Names[0]), common.L(id("lgf", true), id("T."+v.Meth, true), id(v.Recv, true))))
	}
	return common.L(items...)
}

// funcSexp renders (func NAME RECV RTYPE TPARAMS PARAMS RESULTS LABEL IDS LOCALS).
func funcSexp(name, recv, rtype string, params, results int, label, ids string, locals ...string) string {
	return common.L("func", common.Q(name), recv, rtype, "0", fmt.Sprint(params), fmt.Sprint(results), common.Q(label), ids, common.QL(locals))
}

// declSexp renders the declarations a code stands for.
func (c caseT) declSexp(code string) []string {
	switch code {
	case "P":
		out := []string{
			funcSexp("say", "n", "-", 1, 0, "-", "()"),
			funcSexp("lg", "n", "-", 2, 1, "-", common.L(id("say", true))),
			funcSexp("lgf", "n", "-", 2, 1, "-", common.L(id("say", true))),
			funcSexp("usefn", "n", "-", 1, 1, "-", "()"),
		}
		return append(out, c.typesSexp()...)
	case "T":
		return []string{funcSexp("two", "n", "-", 2, 2, "-", common.L(id("lg", true)))}
	case "M":
		return []string{funcSexp("main", "n", "-", 0, 0, "main", "()")}
	}
	var k int
	fmt.Sscanf(code[1:], "%d", &k)
	switch code[0] {
	case 'v':
		v := varSexp(c.Vars[k], c.LateTwo, c.operandLater(k), c.Prefix)
		return []string{"(var " + v[1:]}
	case 'f':
		f := c.Funcs[k]
		switch {
		case f.Meth:
			return []string{funcSexp(f.Name, "v", "T", 0, 1, "-", idsOf("", f.Args))}
		case f.Param:
			return []string{funcSexp(f.Name, "n", "-", 1, 1, "-", idsOf("", f.Args))}
		}
		return []string{funcSexp(f.Name, "n", "-", 0, 1, "-", idsOf("", f.Args))}
	case 'i':
		return []string{funcSexp("init", "n", "-", 0, 0, c.Prefix+"init"+code[1:], "()")}
	case 'l':
		l := c.Looks[k]
		lb := c.Prefix + l.label()
		switch l.Kind {
		case "vmethod":
			return []string{funcSexp("init", "v", "rv", 0, 0, lb, "()")}
		case "pmethod":
			return []string{funcSexp("init", "p", "rp", 0, 0, lb, "()")}
		case "local":
			return []string{funcSexp("locinit", "n", "-", 0, 0, lb, "()", "init")}
		case "field":
			return []string{common.L("type", "rf", common.L("init"))}
		}
		return []string{funcSexp(l.Kind, "n", "-", 0, 0, lb, "()")}
	}
	return nil
}

// filesSexp renders FILES: the declarations of every file, in source order.
func (c caseT) filesSexp(files []fileT) string {
	var fs []string
	for _, f := range files {
		var ds []string
		for _, code := range f.Codes {
			ds = append(ds, c.declSexp(code)...)
		}
		fs = append(fs, common.L(ds...))
	}
	return common.L(fs...)
}

// importOrder lists the import specifications of the main package in source order (directory
// mode: file by file; a file imports what it uses, zz.go everything).
func (c caseT) importOrder() []string {
	var out []string
	for _, f := range c.mainFiles() {
		out = append(out, f.Imports...)
	}
	return out
}

// importOrder of an imported package: file by file.
func (sp subT) importOrder() []string {
	out := []string{}
	for _, f := range sp.files() {
		out = append(out, f.Imports...)
	}
	return out
}

func (c caseT) line() string {
	_, after := c.afterCalls()
	mainPart := c.filesSexp(c.mainFiles()) + " (main) " + common.QL(after)
	if len(c.Subs) == 0 {
		return "C15 pkg " + mainPart
	}
	var ss []string
	for _, sp := range c.Subs {
		ss = append(ss, common.L(common.Q(sp.Path), common.QL(sp.importOrder()), sp.Body.filesSexp(sp.files())))
	}
	return "C15 prog " + common.B(c.Mode == "dir") + " " + common.L(ss...) + " " + common.QL(c.importOrder()) + " " + mainPart
}
