package main

// A variant of common.RunGoBatch for programs made of several files and several packages
// (kept here because harness/common is shared). Every program is a directory tree: files in
// the root are `package main` (with `func main()`), sub-directories are imported packages. The
// text "IMPORTROOT/" in the sources is replaced by the import path of the program's root.

import (
	"bytes"
	"context"
	"fmt"
	"os"
	"os/exec"
	"path/filepath"
	"regexp"
	"strconv"
	"strings"
	"time"

	"verif/harness/common"
)

type treeT map[string]string // relative path → source

var mainRe = regexp.MustCompile(`(?m)^func main\(\)`)
var pkgRe = regexp.MustCompile(`(?m)^package main\b`)
var pkgDirRe = regexp.MustCompile(`\bp(\d{5})/`)

func runGoTrees(progs []treeT, perRun time.Duration) ([]common.GoResult, error) {
	res := make([]common.GoResult, len(progs))
	if len(progs) == 0 {
		return res, nil
	}
	dir, err := os.MkdirTemp("", "verif-c15-gobatch-")
	if err != nil {
		return nil, err
	}
	defer os.RemoveAll(dir)
	if err := os.WriteFile(filepath.Join(dir, "go.mod"), []byte("module batch\n\ngo 1.21\n"), 0o644); err != nil {
		return nil, err
	}
	alive := map[int]bool{}
	for i, tree := range progs {
		root := fmt.Sprintf("p%05d", i)
		for rel, src := range tree {
			s := strings.ReplaceAll(src, "IMPORTROOT/", "batch/"+root+"/")
			s = strings.ReplaceAll(s, "TAGVALUE", root+"|")
			if !strings.Contains(rel, "/") {
				s = pkgRe.ReplaceAllString(s, "package "+root)
				s = mainRe.ReplaceAllString(s, "func Main()")
			}
			p := filepath.Join(dir, root, rel)
			if err := os.MkdirAll(filepath.Dir(p), 0o755); err != nil {
				return nil, err
			}
			if err := os.WriteFile(p, []byte(s), 0o644); err != nil {
				return nil, err
			}
		}
		alive[i] = true
	}
	env := append(os.Environ(), "GOFLAGS=-mod=mod", "GOPROXY=off", "GOSUMDB=off", "GOTOOLCHAIN=local", "GO111MODULE=on")
	bin := filepath.Join(dir, "batch.bin")
	for attempt := 0; ; attempt++ {
		var b strings.Builder
		b.WriteString("package main\n\nimport (\n")
		for i := range progs {
			if alive[i] {
				fmt.Fprintf(&b, "\tp%05d \"batch/p%05d\"\n", i, i)
			}
		}
		b.WriteString(")\n\nfunc main() {\n")
		for i := range progs {
			if alive[i] {
				fmt.Fprintf(&b, "\tp%05d.Main()\n", i)
			}
		}
		b.WriteString("}\n")
		if err := os.WriteFile(filepath.Join(dir, "main.go"), []byte(b.String()), 0o644); err != nil {
			return nil, err
		}
		cmd := exec.Command("go", "build", "-o", bin, ".")
		cmd.Dir = dir
		cmd.Env = env
		out, err := cmd.CombinedOutput()
		if err == nil {
			break
		}
		bad := map[int][]string{}
		for _, l := range strings.Split(string(out), "\n") {
			if m := pkgDirRe.FindStringSubmatch(l); m != nil {
				n, _ := strconv.Atoi(m[1])
				bad[n] = append(bad[n], l)
			}
		}
		if len(bad) == 0 || attempt > 40 {
			return nil, fmt.Errorf("go build of batch failed: %v\n%s", err, out)
		}
		for n, ls := range bad {
			if len(ls) > 6 {
				ls = ls[:6]
			}
			res[n].CompileErr = strings.Join(ls, "\n")
			delete(alive, n)
		}
	}
	// All programs are linked into one binary, so the package-level variables and init functions
	// of *every* program run at start-up of the process, whichever program is then selected.
	// Every line a program prints therefore starts with its own tag ("TAGVALUE" in the sources is
	// replaced by "pNNNNN|"): one process initialises all packages, then calls every Main in turn,
	// and the output is split by tag.
	ctx, cancel := context.WithTimeout(context.Background(), perRun*time.Duration(len(progs)/50+1))
	defer cancel()
	cmd := exec.CommandContext(ctx, bin)
	cmd.Env = append(os.Environ(), "GOTRACEBACK=single", "GOMEMLIMIT=1GiB")
	var so, se bytes.Buffer
	cmd.Stdout, cmd.Stderr = &so, &se
	err = cmd.Run()
	if err != nil {
		return nil, fmt.Errorf("batch binary failed: %v\n%s", err, firstLines(se.String(), 10))
	}
	outs := make([]strings.Builder, len(progs))
	for _, l := range strings.Split(so.String(), "\n") {
		if len(l) >= 7 && l[0] == 'p' && l[6] == '|' {
			if n, err := strconv.Atoi(l[1:6]); err == nil && n < len(progs) {
				outs[n].WriteString(l[7:] + "\n")
				continue
			}
		}
		if l != "" {
			return nil, fmt.Errorf("batch binary printed an untagged line: %q", l)
		}
	}
	for i := range progs {
		if alive[i] {
			res[i].Stdout = outs[i].String()
		}
	}
	return res, nil
}

func firstLines(s string, n int) string {
	ls := strings.Split(s, "\n")
	if len(ls) > n {
		ls = ls[:n]
	}
	return strings.Join(ls, "\n")
}
