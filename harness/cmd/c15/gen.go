package main

import (
	"fmt"
	"math/rand"
	"sort"
)

// entity of the generator: something that can be referenced by later entities (in the hidden
// "true" order, which guarantees that the generated program has no initialisation cycle)
type entT struct {
	kind string // int novalue multi paired struct mvalue blank func funcp meth
	v    *varT
	f    *funcT
}

type pools struct {
	ints, structs, mvals, funcs, funcps, meths, maps, fvars []string
	multis                                     map[string]bool // names declared by `var a, b = f()`
}

// forBody: what a function body may name. Since the repair of F15-2 that is everything: the
// variables of a multi-value specification are global symbols like the others (before, a function
// body read a wrong cell, and the generator kept them out of function bodies).
func (p *pools) forBody() *pools { return p }

func pickS(r *rand.Rand, xs []string) string { return xs[r.Intn(len(xs))] }

// genArg draws one operand over what exists so far; direct=true restricts to what the proved
// domain contains (plain references to variables, calls of functions that reach no variable).
func genArg(r *rand.Rand, p *pools, profile string) (argT, bool) {
	// what needs two things to exist already is rare in the table below: draw it first now and then
	// (references to methods are dependencies since the repair of F14)
	switch {
	case len(p.fvars) > 0 && r.Intn(4) == 0:
		// a package-level function value: called, or (control) passed without being called
		if r.Intn(10) < 7 {
			return argT{K: "callfv", V: pickS(r, p.fvars)}, true
		}
		return argT{K: "passfv", V: pickS(r, p.fvars)}, true
	case len(p.structs) > 0 && len(p.meths) > 0 && r.Intn(4) == 0:
		if r.Intn(5) < 3 {
			return argT{K: "method", V: pickS(r, p.structs), W: pickS(r, p.meths)}, true
		}
		return argT{K: "mexpr", V: pickS(r, p.structs), W: pickS(r, p.meths)}, true
	case len(p.mvals) > 0 && r.Intn(5) == 0:
		return argT{K: "callvar", V: pickS(r, p.mvals)}, true
	case len(p.funcps) > 0 && len(p.ints) > 0 && r.Intn(6) == 0:
		return argT{K: "callarg", V: pickS(r, p.funcps), W: pickS(r, p.ints)}, true
	}
	for try := 0; try < 8; try++ {
		k := r.Intn(100)
		switch {
		case k < 38:
			if len(p.ints) > 0 {
				return argT{K: "var", V: pickS(r, p.ints)}, true
			}
		case k < 50:
			if len(p.funcs) > 0 {
				return argT{K: "call", V: pickS(r, p.funcs)}, true
			}
		case k < 57:
			if len(p.funcps) > 0 && len(p.ints) > 0 {
				return argT{K: "callarg", V: pickS(r, p.funcps), W: pickS(r, p.ints)}, true
			}
		case k < 65:
			if len(p.structs) > 0 && len(p.meths) > 0 {
				return argT{K: "method", V: pickS(r, p.structs), W: pickS(r, p.meths)}, true
			}
		case k < 69:
			if len(p.structs) > 0 && len(p.meths) > 0 {
				return argT{K: "mexpr", V: pickS(r, p.structs), W: pickS(r, p.meths)}, true
			}
		case k < 73:
			if len(p.mvals) > 0 {
				return argT{K: "callvar", V: pickS(r, p.mvals)}, true
			}
		case k < 80:
			if len(p.ints) > 0 {
				return argT{K: "funclit", V: pickS(r, p.ints)}, true
			}
		case k < 85:
			if profile != "direct" && len(p.ints) > 0 {
				return argT{K: "shadow", V: pickS(r, p.ints)}, true
			}
		case k < 89:
			if profile != "direct" && len(p.ints) > 0 {
				return argT{K: "param", V: pickS(r, p.ints)}, true
			}
		case k < 94:
			if profile != "direct" && len(p.ints) > 0 {
				return argT{K: "fieldkey", V: pickS(r, p.ints)}, true
			}
		default:
			return argT{K: "lit"}, true
		}
	}
	return argT{}, false
}

func genArgs(r *rand.Rand, p *pools, profile string, max int) []argT {
	n := r.Intn(max + 1)
	if len(p.ints) > 0 && n == 0 && r.Intn(3) != 0 {
		n = 1
	}
	out := []argT{}
	for i := 0; i < n; i++ {
		if a, ok := genArg(r, p, profile); ok {
			out = append(out, a)
		}
	}
	return out
}

// pureArgs: operands for a function body that must not reach any variable (profile "direct")
func pureArgs(r *rand.Rand, p *pools, pure map[string]bool) []argT {
	out := []argT{}
	for n := r.Intn(3); n > 0; n-- {
		var cand []string
		for _, f := range p.funcs {
			if pure[f] {
				cand = append(cand, f)
			}
		}
		if len(cand) > 0 && r.Intn(2) == 0 {
			out = append(out, argT{K: "call", V: pickS(r, cand)})
		} else {
			out = append(out, argT{K: "lit"})
		}
	}
	return out
}

// genCase draws one program.
//
//	profile "direct": variables refer to variables directly; functions reach no variable (what was the proved
//	                  domain before the repairs of round 3; shuffled declaration orders keep exercising F15)
//	profile "all":    every construct (dependencies through functions and methods — F14 —, multi-value and paired
//	                  declarations — F15-1, -2, -3, -7 —, variables without value (one or two names), locals,
//	                  parameters and field keys named like a variable — F15-4 —, several blank variables — F15-5 —,
//	                  a blank name in a multi-value declaration)
//	profile "names":  like "all", but mostly int variables and specifications that declare several variables
//	                  (`var p, q = two(…)`, `var z0, z1 int`): the shapes of F15-8
//	order   "decl":   declared in the hidden true order (no forward reference)
//	        "shuffle": declared in a random order
//	        "near":   true order with a few transpositions
//	cycle:  add one reference against the true order (makes a cycle or, through a function, a hidden one)
func genCase(r *rand.Rand, profile, order string, cycle bool, size int, mode string) caseT {
	c := caseT{Mode: mode}
	p := &pools{multis: map[string]bool{}}
	pure := map[string]bool{}
	var ents []entT
	nInt, nZ, nT, nMv, nF, nG, nM, nX, nP, nU, nMp, nV, nFv := 0, 0, 0, 0, 0, 0, 0, 0, 0, 0, 0, 0, 0
	letter := func() string {
		s := string(rune('a' + nInt%26))
		if nInt >= 26 {
			s += fmt.Sprint(nInt / 26)
		}
		nInt++
		return s
	}
	if profile == "all" && r.Intn(5) == 0 {
		// a struct variable and a method to begin with: what follows can refer to the method
		// (method call, method expression, method value)
		f := &funcT{Name: "m0", Meth: true, Args: []argT{}}
		nM++
		ents = append(ents, entT{kind: "meth", f: f})
		p.meths = append(p.meths, "m0")
		v := &varT{Kind: "struct", Names: []string{"t0"}, Args: [][]argT{{}}}
		nT++
		ents = append(ents, entT{kind: "struct", v: v})
		p.structs = append(p.structs, "t0")
		size += 2
	}
	for len(ents) < size {
		k := r.Intn(100)
		if profile == "all" && r.Intn(100) < 9 {
			// package-level comma-ok declaration (e4c80e1) and the map it reads
			if len(p.maps) == 0 || r.Intn(4) == 0 {
				n := fmt.Sprintf("mp%d", nMp)
				nMp++
				v := &varT{Kind: "mapvar", Names: []string{n}, Args: [][]argT{genArgs(r, p, profile, 2)}}
				ents = append(ents, entT{kind: "mapvar", v: v})
				p.maps = append(p.maps, n)
			}
			if r.Intn(4) != 0 {
				a, b := fmt.Sprintf("v%d", nV), fmt.Sprintf("ok%d", nV)
				nV++
				v := &varT{Kind: "commaok", Names: []string{a, b}, Recv: pickS(r, p.maps), Args: [][]argT{genArgs(r, p, profile, 2)}}
				ents = append(ents, entT{kind: "commaok", v: v})
				p.ints = append(p.ints, a)
			}
			continue
		}
		if r.Intn(100) < 11 {
			// a variable of function type initialised by a function literal whose body refers to what
			// exists so far (after the shuffle: to variables declared later), directly or through
			// functions, methods and other such variables (seeded change C15-3)
			n := fmt.Sprintf("fv%d", nFv)
			nFv++
			v := &varT{Kind: "funcvar", Names: []string{n}, Args: [][]argT{genArgs(r, p, profile, 2)}}
			ents = append(ents, entT{kind: "funcvar", v: v})
			p.fvars = append(p.fvars, n)
			continue
		}
		if profile == "names" {
			// ints 45, functions 10, multi-value 22, no value 23 (mostly two names)
			switch {
			case k < 45:
				k = 0
			case k < 55:
				k = 50
			case k < 77:
				k = 85
			default:
				k = 95
			}
		}
		if profile == "direct" {
			// ints 70, pure functions 15, struct 8, blank 7
			switch {
			case k < 70:
				k = 0
			case k < 85:
				k = 50
			case k < 93:
				k = 75
			default:
				k = 97
			}
		}
		switch {
		case k < 42: // int
			n := letter()
			v := &varT{Kind: "int", Names: []string{n}, Args: [][]argT{genArgs(r, p, profile, 3)}}
			ents = append(ents, entT{kind: "int", v: v})
			p.ints = append(p.ints, n)
		case k < 53: // func
			n := fmt.Sprintf("f%d", nF)
			nF++
			f := &funcT{Name: n}
			if profile == "direct" {
				f.Args = pureArgs(r, p, pure)
				pure[n] = true
			} else {
				f.Args = genArgs(r, p.forBody(), profile, 2)
			}
			ents = append(ents, entT{kind: "func", f: f})
			p.funcs = append(p.funcs, n)
		case k < 59: // func with parameter
			n := fmt.Sprintf("g%d", nG)
			nG++
			f := &funcT{Name: n, Param: true, Args: genArgs(r, p.forBody(), profile, 2)}
			ents = append(ents, entT{kind: "funcp", f: f})
			p.funcps = append(p.funcps, n)
		case k < 68: // method
			n := fmt.Sprintf("m%d", nM)
			nM++
			f := &funcT{Name: n, Meth: true, Args: genArgs(r, p.forBody(), profile, 2)}
			ents = append(ents, entT{kind: "meth", f: f})
			p.meths = append(p.meths, n)
		case k < 77: // struct variable
			n := fmt.Sprintf("t%d", nT)
			nT++
			v := &varT{Kind: "struct", Names: []string{n}, Args: [][]argT{genArgs(r, p, profile, 2)}}
			ents = append(ents, entT{kind: "struct", v: v})
			p.structs = append(p.structs, n)
		case k < 83: // method value
			if len(p.structs) == 0 || len(p.meths) == 0 {
				continue
			}
			n := fmt.Sprintf("mv%d", nMv)
			nMv++
			v := &varT{Kind: "mvalue", Names: []string{n}, Recv: pickS(r, p.structs), Meth: pickS(r, p.meths)}
			ents = append(ents, entT{kind: "mvalue", v: v})
			p.mvals = append(p.mvals, n)
		case k < 89: // multi-value
			a, b := fmt.Sprintf("p%d", nP), fmt.Sprintf("q%d", nP)
			nP++
			v := &varT{Kind: "multi", Names: []string{a, b}, Args: [][]argT{genArgs(r, p, profile, 2)}}
			if r.Intn(6) == 0 {
				// var _, q = two("u0", …): the blank name declares nothing
				v.Names[0], v.Label = "_", fmt.Sprintf("u%d", nU)
				nU++
				p.ints = append(p.ints, b)
			} else {
				p.ints = append(p.ints, a, b)
			}
			ents = append(ents, entT{kind: "multi", v: v})
			p.multis[a], p.multis[b] = true, true
		case k < 93: // paired
			a, b := fmt.Sprintf("p%d", nP), fmt.Sprintf("q%d", nP)
			nP++
			v := &varT{Kind: "paired", Names: []string{a, b}, Args: [][]argT{genArgs(r, p, profile, 2), genArgs(r, p, profile, 2)}}
			ents = append(ents, entT{kind: "paired", v: v})
			p.ints = append(p.ints, a, b)
		case k < 97: // no value
			n := fmt.Sprintf("z%d", nZ)
			nZ++
			v := &varT{Kind: "novalue", Names: []string{n}}
			p.ints = append(p.ints, n)
			if r.Intn(5) < 2 || (profile == "names" && r.Intn(4) != 0) {
				// var z0, z1 int: one specification, two variables
				n2 := fmt.Sprintf("z%d", nZ)
				nZ++
				v.Names = append(v.Names, n2)
				p.ints = append(p.ints, n2)
			}
			ents = append(ents, entT{kind: "novalue", v: v})
		default: // blank
			v := &varT{Kind: "blank", Names: []string{"_"}, Label: fmt.Sprintf("x%d", nX), Args: [][]argT{genArgs(r, p, profile, 2)}}
			nX++
			ents = append(ents, entT{kind: "blank", v: v})
		}
	}
	if cycle {
		// one reference against the true order: from an early int variable (or a function, or a method) to a later int variable
		var early []int
		for i, e := range ents {
			if (e.kind == "int" || e.kind == "funcvar" || (profile != "direct" && (e.kind == "func" || e.kind == "meth"))) && i < len(ents)-1 {
				early = append(early, i)
			}
		}
		if len(early) > 0 {
			i := early[r.Intn(len(early))]
			var later []string
			for _, e := range ents[i:] { // includes itself: self reference
				if e.kind == "int" {
					later = append(later, e.v.Names[0])
				}
			}
			if ents[i].kind == "funcvar" && r.Intn(3) == 0 {
				// var fv0 = func() int { return 1 + usefn(fv0) }: refers to itself (an initialization cycle
				// for the toolchain). Not `fv0()`: were the package accepted (a mutated interpreter), running it
				// would recurse until the Go stack overflows, which no recover can catch.
				ents[i].v.Args[0] = append(ents[i].v.Args[0], argT{K: "passfv", V: ents[i].v.Names[0]})
			} else if len(later) > 0 {
				a := argT{K: "var", V: pickS(r, later)}
				if ents[i].v != nil {
					ents[i].v.Args[0] = append(ents[i].v.Args[0], a)
				} else {
					ents[i].f.Args = append(ents[i].f.Args, a)
				}
			}
		}
	}
	// declaration order
	perm := make([]int, len(ents))
	for i := range perm {
		perm[i] = i
	}
	switch order {
	case "shuffle":
		r.Shuffle(len(perm), func(i, j int) { perm[i], perm[j] = perm[j], perm[i] })
	case "near":
		for n := 1 + r.Intn(3); n > 0 && len(perm) > 1; n-- {
			i := r.Intn(len(perm) - 1)
			j := i + 1 + r.Intn(len(perm)-i-1)
			perm[i], perm[j] = perm[j], perm[i]
		}
	}
	var layout []string
	for _, pi := range perm {
		e := ents[pi]
		if e.v != nil {
			layout = append(layout, fmt.Sprintf("v%d", len(c.Vars)))
			c.Vars = append(c.Vars, *e.v)
		} else {
			layout = append(layout, fmt.Sprintf("f%d", len(c.Funcs)))
			c.Funcs = append(c.Funcs, *e.f)
		}
	}
	c.Inits = r.Intn(4)
	for i := 0; i < c.Inits; i++ {
		// init functions keep their relative order (init0 before init1 …)
		pos := r.Intn(len(layout) + 1)
		layout = append(layout[:pos], append([]string{"i?"}, layout[pos:]...)...)
	}
	k := 0
	for i, it := range layout {
		if it == "i?" {
			layout[i] = fmt.Sprintf("i%d", k)
			k++
		}
	}
	// declarations that look like init functions (each kind at most once), anywhere among the others
	if r.Intn(100) < 55 {
		kinds := append([]string{}, lookKinds...)
		r.Shuffle(len(kinds), func(i, j int) { kinds[i], kinds[j] = kinds[j], kinds[i] })
		n := 1 + r.Intn(3)
		if r.Intn(5) == 0 {
			n = 1 + r.Intn(len(kinds))
		}
		for i := 0; i < n; i++ {
			c.Looks = append(c.Looks, lookT{Kind: kinds[i]})
			pos := r.Intn(len(layout) + 1)
			layout = append(layout[:pos], append([]string{fmt.Sprintf("l%d", i)}, layout[pos:]...)...)
		}
	}
	c.Layout = layout
	if c.Funcs == nil {
		c.Funcs = []funcT{}
	}
	if c.Vars == nil {
		c.Vars = []varT{}
	}
	if profile != "direct" && r.Intn(5) == 0 {
		c.LateTwo = true
	}
	if mode == "dir" && len(layout) > 0 {
		nf := 1 + r.Intn(3)
		rest := len(layout)
		for i := 0; i < nf-1; i++ {
			n := r.Intn(rest + 1)
			c.Files = append(c.Files, n)
			rest -= n
		}
		c.Files = append(c.Files, rest)
	}
	return c
}

// genNames draws a package around one specification that declares two variables (`var p0, q0 = two(…)`
// or `var z0, z1 int`): two to four variables that each wait for one of the two names (sometimes
// through a function), declared before or after it in a random order, and a few bystanders. The
// toolchain gives each name its own node, the interpreter one node to the specification (F15-8).
func genNames(r *rand.Rand, mode string) caseT {
	c := caseT{Mode: mode, Funcs: []funcT{}}
	spec := varT{Kind: "multi", Names: []string{"p0", "q0"}, Args: [][]argT{{}}}
	if r.Intn(2) == 0 {
		spec = varT{Kind: "novalue", Names: []string{"z0", "z1"}}
	}
	type item struct {
		v *varT
		f *funcT
	}
	items := []item{{v: &spec}}
	n := 2 + r.Intn(3)
	for i := 0; i < n; i++ {
		name := string(rune('a' + i))
		target := spec.Names[r.Intn(2)]
		v := &varT{Kind: "int", Names: []string{name}, Args: [][]argT{{}}}
		switch r.Intn(4) {
		case 0: // through a function
			fn := fmt.Sprintf("f%d", len(c.Funcs))
			f := &funcT{Name: fn, Args: []argT{{K: "var", V: target}}}
			items = append(items, item{f: f})
			c.Funcs = append(c.Funcs, *f)
			v.Args[0] = append(v.Args[0], argT{K: "call", V: fn})
		case 1:
			v.Args[0] = append(v.Args[0], argT{K: "funclit", V: target})
		default:
			v.Args[0] = append(v.Args[0], argT{K: "var", V: target})
		}
		if i > 0 && r.Intn(3) == 0 {
			v.Args[0] = append(v.Args[0], argT{K: "var", V: string(rune('a' + r.Intn(i)))})
		}
		items = append(items, item{v: v})
	}
	if r.Intn(2) == 0 {
		items = append(items, item{v: &varT{Kind: "int", Names: []string{"k"}, Args: [][]argT{{}}}})
	}
	r.Shuffle(len(items), func(i, j int) { items[i], items[j] = items[j], items[i] })
	c.Funcs = []funcT{}
	for _, it := range items {
		if it.v != nil {
			c.Layout = append(c.Layout, fmt.Sprintf("v%d", len(c.Vars)))
			c.Vars = append(c.Vars, *it.v)
		} else {
			c.Layout = append(c.Layout, fmt.Sprintf("f%d", len(c.Funcs)))
			c.Funcs = append(c.Funcs, *it.f)
		}
	}
	c.Inits = r.Intn(2)
	for i := 0; i < c.Inits; i++ {
		c.Layout = append(c.Layout, fmt.Sprintf("i%d", i))
	}
	if mode == "dir" {
		k := r.Intn(len(c.Layout) + 1)
		c.Files = []int{k, len(c.Layout) - k}
	}
	if spec.Kind == "multi" && r.Intn(4) == 0 {
		c.LateTwo = true
	}
	return c
}

// genProg wraps a main package with 1–4 imported packages forming a DAG; every imported package is
// a small "direct" package plus `var X = lg("<path>.X", own variables…, X of its imports…)`.
func genProg(r *rand.Rand, main caseT) caseT {
	// (before the repair of F15-9 gta panicked at a comma-ok declaration standing before its operand, and
	// the generator kept that shape out of programs with several packages)
	// (before the repair of F15-7 a multi-value declaration whose callee is declared later stopped
	// gta, and the generator kept that shape out of programs with several packages)
	names := []string{"liba", "libb", "libc", "libd", "libe"}
	r.Shuffle(len(names), func(i, j int) { names[i], names[j] = names[j], names[i] })
	n := 1 + r.Intn(4)
	for i := 0; i < n; i++ {
		body := genCase(r, "direct", []string{"shuffle", "near", "decl"}[r.Intn(3)], false, 1+r.Intn(3), "file")
		body.Prefix = names[i] + "."
		body.Mode = ""
		sp := subT{Path: names[i], Imports: []string{}}
		for j := 0; j < i; j++ {
			if r.Intn(3) == 0 {
				sp.Imports = append(sp.Imports, names[j])
			}
		}
		r.Shuffle(len(sp.Imports), func(a, b int) { sp.Imports[a], sp.Imports[b] = sp.Imports[b], sp.Imports[a] })
		x := varT{Kind: "int", Names: []string{"X"}, Args: [][]argT{{}}}
		for _, nm := range body.intNames() {
			x.Args[0] = append(x.Args[0], argT{K: "var", V: nm})
		}
		for _, im := range sp.Imports {
			x.Args[0] = append(x.Args[0], argT{K: "pkgvar", V: im})
		}
		body.Layout = append(body.Layout, fmt.Sprintf("v%d", len(body.Vars)))
		body.Vars = append(body.Vars, x)
		// half of the imported packages are split over two or three files
		if r.Intn(2) == 0 {
			rest := len(body.Layout)
			for nf := 1 + r.Intn(2); nf > 0; nf-- {
				k := r.Intn(rest + 1)
				body.Files = append(body.Files, k)
				rest -= k
			}
			body.Files = append(body.Files, rest)
		}
		sp.Body = body
		main.Subs = append(main.Subs, sp)
	}
	// the main package imports a non-empty subset, in random order
	for i := 0; i < n; i++ {
		if r.Intn(2) == 0 {
			main.Imports = append(main.Imports, names[i])
		}
	}
	if len(main.Imports) == 0 {
		main.Imports = []string{names[r.Intn(n)]}
	}
	r.Shuffle(len(main.Imports), func(a, b int) { main.Imports[a], main.Imports[b] = main.Imports[b], main.Imports[a] })
	// some initialisers of the main package read an imported X
	for i := range main.Vars {
		v := &main.Vars[i]
		if (v.Kind == "int" || v.Kind == "blank" || v.Kind == "struct") && r.Intn(3) == 0 {
			v.Args[0] = append(v.Args[0], argT{K: "pkgvar", V: pickS(r, main.Imports)})
		}
	}
	return main
}

// generate draws the cases of a run.
func generate(r *rand.Rand, thorough bool) []caseT {
	n := 1500
	if thorough {
		n = 20000
	}
	var out []caseT
	for i := 0; i < n; i++ {
		profile := "direct"
		switch k := r.Intn(100); {
		case k < 57:
			profile = "all"
		case k < 65:
			profile = "names"
		}
		order := []string{"shuffle", "shuffle", "near", "near", "decl"}[r.Intn(5)]
		cycle := r.Intn(100) < 15
		size := 2 + r.Intn(7)
		if thorough && r.Intn(4) == 0 {
			size = 6 + r.Intn(9)
		}
		mode := "file"
		if r.Intn(100) < 25 {
			mode = "dir"
		}
		c := genCase(r, profile, order, cycle, size, mode)
		if r.Intn(100) < 5 {
			c = genNames(r, mode)
		}
		if r.Intn(100) < 20 {
			c = genProg(r, c)
		}
		out = append(out, c)
	}
	// small cases first: the disagreements kept verbatim (and the replay written by ./check) are
	// then among the smallest failing inputs of the run
	sort.SliceStable(out, func(i, j int) bool { return caseSize(out[i]) < caseSize(out[j]) })
	return out
}

func caseSize(c caseT) int {
	n := len(c.Vars) + len(c.Funcs) + c.Inits + len(c.Looks)
	for _, v := range c.Vars {
		for _, as := range v.Args {
			n += len(as)
		}
	}
	for _, sp := range c.Subs {
		n += 5 + caseSize(sp.Body)
	}
	if c.Mode == "dir" {
		n += 2
	}
	return n
}
