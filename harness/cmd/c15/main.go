// C15 correspondence harness: initialisation order of package-level variables, init functions, main.
//
//	impl  = the real code of /repo (built with -tags verif):
//	          structural: interp.VerifGlobalVarOrder — the dependencies getVarDependencies collects and the
//	                      order genGlobalVars decides, for the generated source;
//	          behavioural: the program is run (Eval of one file, or EvalPath of a directory with several
//	                      files), every initialiser / init function / main logs its label
//	model = Lean `collectDepsY`, `orderY`, `runY` / `runImportY` (deps= yorder= ylog= ilog=) and the Lean
//	        reading of the Go specification `goDeps`, `orderGo`, `runGo` (glog=), `classify` (class=)
//	ref   = the same sources compiled with the Go toolchain and run
//
// Checked on every case: impl = model (correspondence, structural and behavioural), ref = spec model
// (spec validation), impl = ref (the property; differences are labelled with the class of the input).
package main

import (
	"encoding/json"
	"fmt"
	"os"
	"path/filepath"
	"runtime"
	"strings"
	"sync"
	"testing/fstest"
	"time"

	"github.com/traefik/yaegi/interp"
	"github.com/traefik/yaegi/stdlib"
	"verif/harness/common"
)

// implT is what the real code did with one case.
type implT struct {
	Deps   string // "i:d,d;…" as collected by getVarDependencies ("" when not applicable)
	Order  string // "i,i,…" | "loop" | "err:…"
	Regs   string // the init nodes Execute will run: "init@5,init@7,main" (VerifInitNodes; "" when not applicable)
	Syms   string // sorted function symbols of the package scope
	Log    string // labels, comma separated, "!error" appended when Eval returned an error
	Stdout string
	Err    string
}

func commaInts(xs []int) string {
	s := make([]string, len(xs))
	for i, x := range xs {
		s[i] = fmt.Sprint(x)
	}
	return strings.Join(s, ",")
}

func labelsOf(stdout string) []string {
	var out []string
	for _, l := range strings.Split(stdout, "\n") {
		if f := strings.Fields(l); len(f) > 0 {
			out = append(out, f[0])
		}
	}
	return out
}

func showLog(labels []string, errored bool) string {
	if errored {
		labels = append(labels, "!error")
	}
	if len(labels) == 0 {
		return "-"
	}
	return strings.Join(labels, ",")
}

// structural runs the hook on the one-file rendering.
func structural(src string) (deps, order string) {
	defer func() {
		if r := recover(); r != nil {
			// a Go panic of the compiler (the message is in the behavioural run's Err)
			deps, order = "crash", "crash"
		}
	}()
	i := interp.New(interp.Options{})
	if err := i.Use(stdlib.Symbols); err != nil {
		return "err", "err:" + err.Error()
	}
	specs, ord, oerr, err := i.VerifGlobalVarOrder(src)
	if err != nil {
		return "err", "err"
	}
	parts := make([]string, len(specs))
	for k, s := range specs {
		parts[k] = fmt.Sprintf("%d:%s", k, commaInts(s.Deps))
	}
	deps = strings.Join(parts, ";")
	if deps == "" {
		deps = "-"
	}
	switch {
	case oerr != nil && strings.Contains(oerr.Error(), "variable definition loop"):
		order = "loop"
	case oerr != nil:
		order = "err:" + common.FirstLine(oerr.Error())
	case len(ord) == 0:
		order = "-"
	default:
		order = commaInts(ord)
	}
	return deps, order
}

// registration runs the hook VerifInitNodes on the one-file rendering: which function declarations
// cfg collected as init nodes (in the order Execute runs them), which got a function symbol.
func registration(src string) (regs, syms string) {
	defer func() {
		if r := recover(); r != nil {
			regs, syms = "crash", "crash"
		}
	}()
	i := interp.New(interp.Options{})
	if err := i.Use(stdlib.Symbols); err != nil {
		return "err", "err"
	}
	rs, ss, err := i.VerifInitNodes(src)
	if err != nil {
		return "err", "err"
	}
	regs, syms = strings.Join(rs, ","), strings.Join(ss, ",")
	if regs == "" {
		regs = "-"
	}
	if syms == "" {
		syms = "-"
	}
	return regs, syms
}

// runTree runs the program in a fresh interpreter: Eval of the file, or EvalPath of the directory
// (files under prog/), imported packages under the GOPATH of an in-memory file system.
func runTree(c caseT, timeout time.Duration) (res common.YResult) {
	tree := c.tree()
	fsys := fstest.MapFS{}
	for rel, src := range tree {
		if strings.Contains(rel, "/") {
			fsys["_gopath/src/"+rel] = &fstest.MapFile{Data: []byte(forYaegi(src))}
		} else {
			fsys["prog/"+rel] = &fstest.MapFile{Data: []byte(forYaegi(src))}
		}
	}
	var so, se strings.Builder
	done := make(chan struct{})
	go func() {
		defer close(done)
		defer func() {
			if r := recover(); r != nil {
				res.Crash = fmt.Sprint(r)
			}
		}()
		i := interp.New(interp.Options{Stdout: &so, Stderr: &se, SourcecodeFilesystem: fsys, GoPath: "./_gopath"})
		if err := i.Use(stdlib.Symbols); err != nil {
			res.Err = err.Error()
			return
		}
		// EvalWithContext / EvalPathWithContext run the evaluation in a goroutine of their own (the
		// latter without recover: a Go panic of the interpreter would kill the harness). Eval and
		// EvalPath are called directly; the generated programs terminate, the deadline is enforced
		// by the select below.
		var err error
		if c.Mode == "dir" {
			_, err = i.EvalPath("./prog")
		} else {
			_, err = i.Eval(string(fsys["prog/main.go"].Data))
		}
		if err != nil {
			res.Err = err.Error()
		}
	}()
	select {
	case <-done:
	case <-time.After(timeout):
		res.Timeout = true
		res.Err = "harness: interpreter did not return"
		return res
	}
	res.Stdout, res.Stderr = so.String(), se.String()
	return res
}

func runImpl(c caseT) implT {
	var im implT
	if c.Mode != "dir" && len(c.Subs) == 0 {
		im.Deps, im.Order = structural(forYaegi(c.tree()["main.go"]))
		im.Regs, im.Syms = registration(forYaegi(c.tree()["main.go"]))
	}
	y := runTree(c, 10*time.Second)
	im.Stdout = y.Stdout
	switch {
	case y.Crash != "":
		im.Err = "crash: " + common.FirstLine(y.Crash)
		im.Log = showLog(append(labelsOf(y.Stdout), "!crash"), false)
	case y.Timeout:
		im.Err = "timeout"
		im.Log = showLog(append(labelsOf(y.Stdout), "!timeout"), false)
	default:
		im.Err = common.FirstLine(y.Err)
		im.Log = showLog(labelsOf(y.Stdout), y.Err != "")
	}
	return im
}

type refT struct {
	Log    string
	Stdout string
	Err    string
}

func runRef(cases []caseT) ([]refT, error) {
	out := make([]refT, len(cases))
	const chunk = 300
	for lo := 0; lo < len(cases); lo += chunk {
		hi := lo + chunk
		if hi > len(cases) {
			hi = len(cases)
		}
		trees := make([]treeT, hi-lo)
		for i := lo; i < hi; i++ {
			trees[i-lo] = cases[i].tree()
		}
		rs, err := runGoTrees(trees, 20*time.Second)
		if err != nil {
			return nil, err
		}
		for i, r := range rs {
			o := &out[lo+i]
			if r.CompileErr != "" {
				o.Err = r.CompileErr
				o.Log = "!error"
				if !strings.Contains(r.CompileErr, "initialization cycle") {
					o.Log = "!compile:" + strings.ReplaceAll(common.FirstLine(r.CompileErr), " ", "_")
				}
				continue
			}
			o.Stdout = r.Stdout
			o.Log = showLog(labelsOf(r.Stdout), false)
		}
	}
	return out, nil
}

// sameBehaviour: the property on one case — same log (labels and values), same accept/reject.
func sameBehaviour(im implT, rf refT) bool {
	if rf.Err != "" || im.Err != "" {
		return rf.Err != "" && im.Err != "" && im.Stdout == ""
	}
	return im.Stdout == rf.Stdout
}

// blocksOf splits a log by package (label prefix "liba." = package liba, no prefix = main): the
// packages in order of first appearance, the lines of each, and whether each package's lines are
// contiguous.
func blocksOf(stdout string) (seq []string, blocks map[string][]string, contiguous bool) {
	blocks = map[string][]string{}
	contiguous = true
	last := ""
	for _, l := range strings.Split(stdout, "\n") {
		f := strings.Fields(l)
		if len(f) == 0 {
			continue
		}
		pk := "main"
		if i := strings.IndexByte(f[0], '.'); i > 0 {
			pk = f[0][:i]
		}
		if _, seen := blocks[pk]; !seen {
			seq = append(seq, pk)
		} else if last != pk {
			contiguous = false
		}
		blocks[pk] = append(blocks[pk], l)
		last = pk
	}
	return seq, blocks, contiguous
}

// sameProgram: the property on a program of several packages — every package logs the same lines
// in the same order as in the compiled program; each package is initialised once, in one piece,
// after the packages it imports. (The relative order of unrelated packages is not compared: the
// interpreter imports depth-first in source order, the toolchain sorts by import path.)
func sameProgram(c caseT, im implT, rf refT) (bool, string) {
	if rf.Err != "" || im.Err != "" {
		// the toolchain rejects at compile time; the interpreter may already have initialised the
		// imported packages when it finds the error in the importer: both reject = agreement
		return rf.Err != "" && im.Err != "", "one side rejects the program"
	}
	iseq, ib, icont := blocksOf(im.Stdout)
	_, rb, _ := blocksOf(rf.Stdout)
	if !icont {
		return false, "a package is initialised in several pieces"
	}
	if len(ib) != len(rb) {
		return false, "different sets of packages"
	}
	for pk, ls := range rb {
		if strings.Join(ls, "\n") != strings.Join(ib[pk], "\n") {
			return false, "package " + pk + " logs differently"
		}
	}
	imports := map[string][]string{"main": c.Imports}
	for _, sp := range c.Subs {
		imports[sp.Path] = sp.Imports
	}
	pos := map[string]int{}
	for i, pk := range iseq {
		pos[pk] = i
	}
	for pk, i := range pos {
		for _, q := range imports[pk] {
			if j, ok := pos[q]; !ok || j > i {
				return false, "package " + pk + " initialised before its import " + q
			}
		}
	}
	return true, ""
}

func nontrivial(c caseT, ans map[string]string) bool {
	n := 0
	for _, v := range c.Vars {
		n += len(v.Args)
		if v.Kind == "mvalue" {
			n++
		}
	}
	if n < 3 {
		return false
	}
	if len(c.Subs) > 0 {
		return true
	}
	if ans["class"] != "in-domain" {
		return true
	}
	// a forward reference: i:d with d > i
	for _, part := range strings.Split(ans["gdeps"], ";") {
		var i int
		kv := strings.SplitN(part, ":", 2)
		if len(kv) != 2 || kv[1] == "" {
			continue
		}
		fmt.Sscan(kv[0], &i)
		for _, ds := range strings.Split(kv[1], ",") {
			var d int
			fmt.Sscan(ds, &d)
			if d > i {
				return true
			}
		}
	}
	return false
}

func main() {
	run := common.NewRun("C15")
	run.Res.Rule = "cases = generated packages (2–14 declarations: int/struct/method-value/blank variables, multi-value declarations (also with a blank name, also with the callee declared after everything else) and paired declarations, package-level comma-ok declarations `var v, ok = mp[…]` with their map declared before or after them, variables of function type initialised by function literals whose bodies refer to other variables / functions / such variables (11% of the entities, main and imported packages) and that other initialisers and bodies call or pass as values, variables without value (one or two names), functions, functions with parameter, methods, function literals, locals / parameters of function literals / field keys named like a package-level variable, references to any variable from function and method bodies, 0–3 init functions anywhere among them — in several files in directory mode —, main; 55% also declare 1–7 things that look like init functions and are not: methods named init with value / pointer receiver, functions Init, init_, initX, a function with a local variable init, a struct type with a field init, each logging when — and only when — main calls it after it logged itself) built over a hidden acyclic order and declared in that order / slightly permuted / shuffled; 10% get one extra reference against the hidden order (cycles, self references); 25% are split over several files and loaded as a directory (importSrc); 20% import 1–4 generated packages forming a DAG (each with its own init functions and look-alikes, half of them split over several files); every initialiser logs its label and its operands, every init function and main log; 57% use every construct, 8% mostly variables and specifications declaring several variables, 35% only direct references between variables; non-trivial = at least three initialisation expressions and (a forward reference, or a class other than in-domain, or several packages); distinct = distinct protocol line + mode"
	defer run.Finish()
	drv, err := common.StartDriver("C15")
	if err != nil {
		run.Errorf("driver: %v", err)
		return
	}
	defer drv.Close()
	findings, err := common.LoadFindings("C15")
	if err != nil {
		run.Errorf("known findings: %v", err)
	}

	var cases []caseT
	var knownFs []common.Finding
	nKnown := 0
	if run.Replay != "" {
		b, err := os.ReadFile(run.Replay)
		if err != nil {
			run.Errorf("replay: %v", err)
			return
		}
		var rp struct {
			Input caseT `json:"input"`
		}
		if err := json.Unmarshal(b, &rp); err != nil {
			run.Errorf("replay: %v", err)
			return
		}
		cases = []caseT{rp.Input}
	} else {
		for _, f := range findings {
			var c caseT
			if err := json.Unmarshal(f.Replay, &c); err != nil {
				run.Errorf("finding %s: bad replay: %v", f.ID, err)
				continue
			}
			cases = append(cases, c)
			knownFs = append(knownFs, f)
			nKnown++
		}
		cases = append(cases, generate(run.Rng, run.Thorough())...)
	}

	lines := make([]string, len(cases))
	for i, c := range cases {
		lines[i] = c.line()
	}
	answers, err := drv.AskAll(lines)
	if err != nil {
		run.Errorf("driver: %v", err)
		return
	}
	// the real code, in parallel
	impls := make([]implT, len(cases))
	var wg sync.WaitGroup
	sem := make(chan struct{}, runtime.NumCPU())
	for i := range cases {
		wg.Add(1)
		sem <- struct{}{}
		go func(i int) {
			defer wg.Done()
			defer func() { <-sem }()
			impls[i] = runImpl(cases[i])
		}(i)
	}
	refs, rerr := runRef(cases)
	wg.Wait()
	if rerr != nil {
		run.Errorf("reference: %v", rerr)
		return
	}

	for i, c := range cases {
		ans := common.Fields(answers[i])
		if ans["class"] == "" || ans["ylog"] == "" || ans["glog"] == "" {
			run.Errorf("driver answered %q to %q", answers[i], lines[i])
			continue
		}
		im, rf := impls[i], refs[i]
		class := ans["class"]
		mlog := ans["ylog"]
		if c.Mode == "dir" && len(c.Subs) == 0 {
			mlog = ans["ilog"]
		}
		modelOK := im.Log == mlog
		if c.Mode != "dir" && len(c.Subs) == 0 && (im.Deps != ans["deps"] || im.Order != ans["yorder"]) {
			modelOK = false
		}
		// registration of the init functions: compared whenever the file compiles (an `err` is the
		// gta / cfg error the behavioural comparison already sees)
		if c.Mode != "dir" && len(c.Subs) == 0 && im.Regs != "err" && (im.Regs != ans["regs"] || im.Syms != ans["syms"]) {
			modelOK = false
		}
		same := sameBehaviour(im, rf)
		why := ""
		if len(c.Subs) > 0 {
			same, why = sameProgram(c, im, rf)
		}
		if i < nKnown {
			f := knownFs[i]
			switch cl := listedClasses(f.ID); {
			case f.Status == "fixed":
				// a repaired finding: its class is gone from the classification, the replay input
				// must now lie in the domain of the theorem (and pass: StillFails is reported as a
				// VIOLATION by tools/check.py)
				if class != "in-domain" {
					run.Errorf("fixed finding %s: its replay input has class %q, expected in-domain", f.ID, class)
				}
			case len(cl) > 0 && !contains(cl, class):
				run.Errorf("finding %s: its replay input has class %q, the entry lists %v", f.ID, class, cl)
			}
			run.Res.Known = append(run.Res.Known, common.KnownReplay{ID: f.ID, Status: f.Status, What: f.What, StillFails: !same,
				Detail: fmt.Sprintf("class=%s impl=%s ref=%s model=%s", class, im.Log, rf.Log, mlog)})
			if !modelOK {
				run.Disagree(common.Disagreement{Kind: "impl-vs-model", Input: c, Impl: im.Deps + " " + im.Order + " " + im.Log + " regs=" + im.Regs + " syms=" + im.Syms,
					Model: ans["deps"] + " " + ans["yorder"] + " " + mlog + " regs=" + ans["regs"] + " syms=" + ans["syms"], Note: "replay of " + f.ID})
			}
			if rf.Log != ans["glog"] {
				run.Disagree(common.Disagreement{Kind: "spec-vs-ref", Input: c, Spec: ans["glog"], Ref: rf.Log, Note: "replay of " + f.ID})
			}
			continue
		}
		run.Count(c.Mode+" "+lines[i], nontrivial(c, ans))
		run.Hit("class:" + class)
		run.Hit("mode:" + c.Mode)
		if len(c.Subs) > 0 {
			run.Hit(fmt.Sprintf("packages:%d", len(c.Subs)+1))
			if ans["yseq"] != ans["gseq"] {
				run.Hit("packages:order-differs-from-toolchain(not-compared)")
			}
		}
		run.Hit(fmt.Sprintf("specs:%02d", len(c.Vars)))
		switch {
		case strings.HasSuffix(im.Log, "!error"):
			run.Hit("impl:rejects")
		case strings.Contains(im.Log, "!"):
			run.Hit("impl:crash-or-timeout")
		default:
			run.Hit("impl:runs")
		}
		if rf.Err != "" {
			run.Hit("ref:rejects")
		} else {
			run.Hit("ref:runs")
		}
		if same {
			run.Hit("property:holds")
		} else {
			run.Hit("property:fails")
		}
		for _, k := range features(c) {
			run.Hit("feature:" + k)
		}
		run.Sample(map[string]interface{}{"case": c, "class": class, "impl": im.Log, "model": mlog, "spec": ans["glog"], "ref": rf.Log}, 8)
		if !modelOK {
			run.Disagree(common.Disagreement{Kind: "impl-vs-model", Input: c, Impl: im.Deps + " " + im.Order + " " + im.Log + " " + im.Err + " regs=" + im.Regs + " syms=" + im.Syms,
				Model: ans["deps"] + " " + ans["yorder"] + " " + mlog + " regs=" + ans["regs"] + " syms=" + ans["syms"], Ref: rf.Log})
		}
		if rf.Log != ans["glog"] {
			run.Disagree(common.Disagreement{Kind: "spec-vs-ref", Input: c, Spec: ans["glog"], Ref: rf.Log + " " + common.FirstLine(rf.Err)})
		}
		if !same {
			d := common.Disagreement{Kind: "impl-vs-ref", Input: c, Impl: im.Log, Model: mlog, Ref: rf.Log, Finding: class, Note: why}
			if class == "in-domain" {
				d.Finding = ""
			}
			if !modelOK {
				d.Finding, d.Note = "", "differs from the reference and from the model of the unchanged code (class "+class+")"
			}
			run.Disagree(d)
		}
	}
}

func contains(xs []string, s string) bool {
	for _, x := range xs {
		if x == s {
			return true
		}
	}
	return false
}

// listedClasses reads the "classes" of one entry of KNOWN_FINDINGS.json.
func listedClasses(id string) []string {
	b, err := os.ReadFile(filepath.Join(common.VerifDir(), "KNOWN_FINDINGS.json"))
	if err != nil {
		return nil
	}
	var all struct {
		Findings []struct {
			ID       string   `json:"id"`
			Property string   `json:"property"`
			Classes  []string `json:"classes"`
		} `json:"findings"`
	}
	if json.Unmarshal(b, &all) != nil {
		return nil
	}
	for _, f := range all.Findings {
		if f.ID == id && f.Property == "C15" {
			return f.Classes
		}
	}
	return nil
}

func features(c caseT) []string {
	set := map[string]bool{}
	for _, v := range c.Vars {
		set["var-"+v.Kind] = true
		for _, as := range v.Args {
			for _, a := range as {
				set["arg-"+a.K] = true
			}
		}
	}
	for _, f := range c.Funcs {
		switch {
		case f.Meth:
			set["method"] = true
		case f.Param:
			set["func-param"] = true
		default:
			set["func"] = true
		}
		for _, a := range f.Args {
			set["body-"+a.K] = true
		}
	}
	for k, v := range c.Vars {
		if !c.operandLater(k) {
			continue
		}
		set["commaok-before-operand"] = true
		if c.Mode == "dir" {
			file := func(code string) int {
				for i, f := range c.mainFiles() {
					for _, cd := range f.Codes {
						if cd == code {
							return i
						}
					}
				}
				return -1
			}
			for j, w := range c.Vars {
				if w.Kind == "mapvar" && w.Names[0] == v.Recv && file(fmt.Sprintf("v%d", j)) > file(fmt.Sprintf("v%d", k)) {
					set["commaok-operand-in-later-file"] = true
				}
			}
		}
	}
	if c.Inits > 0 {
		set["init-func"] = true
	}
	if c.Inits > 1 {
		set["init-func-several"] = true
	}
	if c.Mode == "dir" && c.Inits > 1 {
		fi := map[int]bool{}
		for k, f := range c.mainFiles() {
			for _, code := range f.Codes {
				if code[0] == 'i' {
					fi[k] = true
				}
			}
		}
		if len(fi) > 1 {
			set["init-func-in-several-files"] = true
		}
	}
	for _, l := range c.Looks {
		set["look-"+l.Kind] = true
	}
	for _, sp := range c.Subs {
		for _, l := range sp.Body.Looks {
			set["imported-look-"+l.Kind] = true
		}
		if len(sp.Body.Files) > 0 {
			set["imported-several-files"] = true
		}
		if sp.Body.Inits > 0 {
			set["imported-init-func"] = true
		}
	}
	var out []string
	for k := range set {
		out = append(out, k)
	}
	return out
}
