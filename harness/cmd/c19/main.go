// C19 correspondence harness: running under the debugger does not change program behaviour.
//
//	impl  = the real Debugger of /repo (built with -tags verif): interp.Debug, SetBreakpoints before the start,
//	        Continue / Step(into, over, out) / Terminate at every stop; observed: stdout, stderr, result, error,
//	        every DebugEvent (reason, line of the frame position, number of closures executed so far — step hook)
//	        and, after the session, the real control-flow graph of the compiled program (hook VerifC19Dump)
//	model = Lean `drun` on the dumped graph (y=: the debugger of yaegi, which re-derives the node from the identity
//	        of the closure objects — of their code, if the extracted facts say so; marks=: SetBreakpoints), driven
//	        by a tape of what every closure did, recorded by an
//	        instrumented plain run of the same program (hook VerifC19Instrument); g= the reference debugger that
//	        knows the executing node (`ideal`)
//	ref   = a plain run of the same program (output, result, panic), and the reference debugger written in Go
//
// Checked on every case: impl = plain (the core of the property); session framing (… exitG, terminate last);
// impl events = y and breakpoint placement = marks (correspondence); Go reference = g (spec validation);
// break events of impl = break events of the reference (the property). No class of inputs is excused any more
// (F20: fixed by d1e6c4c, F19-1: 3d77a98, F19-2 … F19-7: 0a3a691) except the methods of generic types (F19-8): every
// other difference is a VIOLATION. The Go reference (ref.go) reads the requested *lines*, the Lean reference (g=) the
// nodes SetBreakpoints marks according to the expected facts: their agreement on every case is the check that the
// nodes which execute are among the marked ones.
package main

import (
	"encoding/json"
	"fmt"
	"os"
	"sort"
	"strings"

	"github.com/traefik/yaegi/interp"
	"verif/harness/common"
)

type caseT struct {
	Src  string `json:"src"`
	Bps  []bpT  `json:"bps"`
	Cmds string `json:"cmds"`
}

type checker struct {
	run       *common.Run
	drv       *common.Driver
	tramp     uintptr
	plain     map[string]outcomeT
	compErr   map[string]string
	traceKey  map[string]traceT
	stmtKinds map[string]map[int]string
}

type traceT struct {
	tape    []itemT
	out     outcomeT
	problem string
}

func bpKey(bps []bpT) string {
	b, _ := json.Marshal(bps)
	return string(b)
}

type verdictT struct {
	BreaksImpl, BreaksRef string
	Class                 string
	Stops                 int
	Same                  bool // break events as the reference
	SameCode              bool // some branch has two successors made by the same generator (the shape of F20)
	Forwards              int  // hand-overs through forwarding closures (back edges, the shape of F19-1)
	Crash                 bool // SetBreakpoints did not return
	LineFindings          []string
}

// check runs one case; record=false is used for the replay of known findings.
func (ck *checker) check(c caseT, record bool) (v verdictT, ok bool) {
	run := ck.run
	pl, seen := ck.plain[c.Src]
	if !seen {
		var ce string
		pl, ce = runPlain(c.Src)
		if pl.Crash == "hang" {
			// a loaded machine can starve the run past the deadline: a real hang shows again
			pl, ce = runPlain(c.Src)
		}
		ck.plain[c.Src], ck.compErr[c.Src] = pl, ce
	}
	if ce := ck.compErr[c.Src]; ce != "" {
		run.Errorf("generated program does not compile: %s\n%s", ce, c.Src)
		return v, false
	}
	disagree := func(d common.Disagreement) {
		if record {
			d.Input = c
			run.Disagree(d)
		}
	}
	s := runDebug(c.Src, c.Bps, c.Cmds)
	if s.Problem != "" && s.Out.Crash == "" {
		s.Out.Crash = s.Problem
	}
	if s.BpCrash && s.Out.Crash != "" {
		// SetBreakpoints did not return: there is no session to compare and nothing for the model to predict
		// (the instrumented run, which applies the same requests, dies in the same way)
		class := ""
		if hasGenericFunc(c.Src) && hasLineRequest(c.Bps) {
			class = "bp-line-request-with-generic-function"
		}
		disagree(common.Disagreement{Kind: "impl-vs-ref", Impl: "SetBreakpoints: " + s.Out.Crash, Ref: pl.String(), Finding: class,
			Note: "SetBreakpoints does not return; the plain run of the program is fine"})
		return verdictT{Class: class, Crash: true, BreaksImpl: "SetBreakpoints: " + s.Out.Crash, BreaksRef: "-"}, true
	}
	tk := c.Src + "\x00" + bpKey(c.Bps)
	tr, seen := ck.traceKey[tk]
	if !seen {
		tr.tape, tr.out, tr.problem = runTrace(c.Src, c.Bps)
		ck.traceKey[tk] = tr
	}
	if tr.problem != "" {
		run.Errorf("instrumented run: %s\n%s", tr.problem, c.Src)
		return v, false
	}
	if tr.out.Stdout != pl.Stdout || tr.out.Err != pl.Err || tr.out.Crash != pl.Crash {
		run.Errorf("instrumented run differs from the plain run: %v vs %v", tr.out, pl)
		return v, false
	}
	terminated := strings.Contains(c.Cmds[:min(s.CmdsUsed, len(c.Cmds))], "t")

	if path := os.Getenv("C19_EVENTS_OUT"); path != "" && len(c.Bps) == 0 && record {
		// for comparisons of stepping traces between two trees (no breakpoints: stops of the step modes only)
		if f, err := os.OpenFile(path, os.O_APPEND|os.O_CREATE|os.O_WRONLY, 0o644); err == nil {
			var ev []string
			for _, e := range s.Events {
				if isStop(e.Reason) {
					ev = append(ev, fmt.Sprintf("%s:%d", e.Reason, e.Line))
				}
			}
			b, _ := json.Marshal(map[string]interface{}{"src": c.Src, "cmds": c.Cmds, "events": strings.Join(ev, ",")})
			f.Write(append(b, '\n'))
			f.Close()
		}
	}
	// (a) behaviour as the plain run
	same := s.Out.Stdout == pl.Stdout && s.Out.Stderr == pl.Stderr && s.Out.Res == pl.Res && s.Out.Err == pl.Err && s.Out.Crash == pl.Crash
	if terminated {
		same = strings.HasPrefix(pl.Stdout, s.Out.Stdout) && s.Out.Crash == ""
	}
	if !same {
		disagree(common.Disagreement{Kind: "impl-vs-ref", Impl: s.Out.String(), Ref: pl.String(),
			Note: "output, result or panic under the debugger differ from the plain run"})
	}
	// session framing
	var stops []eventT
	frame := ""
	for i, e := range s.Events {
		switch {
		case isStop(e.Reason):
			stops = append(stops, e)
		case e.Reason == "enterG" && i != 0, e.Reason == "exitG" && i != len(s.Events)-2, e.Reason == "terminate" && i != len(s.Events)-1:
			frame = fmt.Sprintf("event %d of %d is %s", i, len(s.Events), e.Reason)
		}
	}
	n := len(s.Events)
	if s.Out.Crash == "" && (n < 3 || s.Events[0].Reason != "enterG" || s.Events[n-2].Reason != "exitG" || s.Events[n-1].Reason != "terminate") {
		frame = "the session is not framed by enterG … exitG, terminate"
	}
	if frame != "" {
		disagree(common.Disagreement{Kind: "impl-vs-ref", Impl: joinEvents(s.Events), Ref: "enterG, stops…, exitG, terminate", Note: frame})
	}
	if s.Dump == nil {
		return v, false
	}

	// model and reference
	line := protocolLine(s.Dump, ck.tramp, c.Bps, c.Cmds, tr.tape)
	ansS, err := ck.drv.Ask(line)
	if err != nil {
		run.Errorf("driver: %v", err)
		return v, false
	}
	ans := common.Fields(ansS)
	if ans["y"] == "" || ans["g"] == "" {
		run.Errorf("driver answered %q", ansS)
		return v, false
	}
	if os.Getenv("C19_DEBUG") != "" {
		fmt.Fprintln(os.Stderr, "TAPE:")
		for _, it := range tr.tape {
			if it.Kind == 'c' || it.Kind == 'n' {
				n := s.Dump[it.Node]
				fmt.Fprintf(os.Stderr, "  %c %d %s/%s L%d tramp=%v\n", it.Kind, it.Node, n.Kind, n.Action, n.Line, it.Tramp)
			} else {
				fmt.Fprintf(os.Stderr, "  %c\n", it.Kind)
			}
		}
		fmt.Fprintln(os.Stderr, "GRAPH:")
		for i, n := range s.Dump {
			if n.Code != 0 || os.Getenv("C19_DEBUG") == "2" {
				fmt.Fprintf(os.Stderr, "  %d %s/%s L%d pv=%v code=%x clo=%x fwd=%x t=%d f=%d parent=%d brk=%v/%v\n", i, n.Kind, n.Action, n.Line, n.PosValid, n.Code, n.Clo, n.Forward, n.Tnext, n.Fnext, n.Parent, n.BrkLine, n.BrkCall)
			}
		}
		fmt.Fprintln(os.Stderr, "IMPL:", joinEvents(s.Events))
		fmt.Fprintln(os.Stderr, "ANS:", ansS)
		fmt.Fprintln(os.Stderr, "PLAIN:", pl, "DEBUG:", s.Out)
	}
	marksS, cmarksS := marksOf(s.Dump)
	ref, executedLines := refEvents(s.Dump, c.Bps, c.Cmds, tr.tape)
	class := classOf(s.Dump, tr.tape)
	// the decidable hypotheses, computed twice
	sep, idsep := "1", "1"
	if ambiguousBranch(s.Dump) {
		sep = "0"
	}
	if sharedClosure(s.Dump) {
		idsep = "0"
	}
	resp, forwards := followsEdges(s.Dump, tr.tape)
	if ans["sep"] != sep || ans["idsep"] != idsep || ans["resp"] != resp {
		run.Errorf("hypothesis predicates differ: lean sep=%s idsep=%s resp=%s, go sep=%s idsep=%s resp=%s", ans["sep"], ans["idsep"], ans["resp"], sep, idsep, resp)
	}
	implS, refS := joinEvents(stops), joinEvents(ref)
	if implS != ans["y"] {
		disagree(common.Disagreement{Kind: "impl-vs-model", Impl: implS, Model: ans["y"], Ref: refS, Note: "events (reason:line:step)"})
	}
	if !terminated && s.Out.Crash == "" && implS == ans["y"] {
		// (when the events differ the model may have consumed other commands, a terminate included)
		wantOut := "halt0"
		if strings.HasPrefix(pl.Err, "panic") {
			wantOut = "halt1"
		}
		if ans["out"] != wantOut || ans["left"] != "0" {
			run.Errorf("the tape does not replay through the model: out=%s left=%s steps=%s (plain err %q)", ans["out"], ans["left"], ans["steps"], pl.Err)
		}
	}
	validS := validBits(c.Bps, s.BpValid)
	if marksS != ans["marks"] || cmarksS != ans["cmarks"] || validS != ans["valid"] {
		disagree(common.Disagreement{Kind: "impl-vs-model", Impl: marksS + " / " + cmarksS + " / " + validS,
			Model: ans["marks"] + " / " + ans["cmarks"] + " / " + ans["valid"], Note: "nodes marked by SetBreakpoints (breakOnLine / breakOnCall) / Valid of the line requests"})
	}
	if ans["gmarks"] != ans["marks"] {
		// the placement of the expected facts differs from that of the extracted ones: the source changed
		run.Hit("marks:differ-from-expected-placement")
	}
	if refS != ans["g"] {
		disagree(common.Disagreement{Kind: "spec-vs-ref", Spec: ans["g"], Ref: refS})
	}
	v = verdictT{BreaksImpl: breaks(stops), BreaksRef: breaks(ref), Class: class, Stops: len(stops), SameCode: sep == "0", Forwards: forwards}
	v.Same = v.BreaksImpl == v.BreaksRef
	if !v.Same {
		d := common.Disagreement{Kind: "impl-vs-ref", Impl: v.BreaksImpl, Model: breaks(parseEvents(ans["y"])), Ref: v.BreaksRef, Finding: class,
			Note: "break events (line@step) differ from the marked lines that execute"}
		if implS != ans["y"] {
			d.Finding, d.Note = "", d.Note+"; differs from the model too (class "+class+")"
		}
		disagree(d)
	}
	// line level: what the requests mean, read off the source (lines.go)
	if kinds, ok := ck.kinds(c.Src); ok && len(s.BpValid) == len(c.Bps) {
		modelAgrees := implS == ans["y"] && marksS == ans["marks"] && validS == ans["valid"]
		label := func(class string) string {
			if !modelAgrees {
				return ""
			}
			return class
		}
		inv := invalidStatementLines(kinds, c.Bps, s.BpValid)
		for _, class := range sortedKeys(inv) {
			v.LineFindings = append(v.LineFindings, class)
			disagree(common.Disagreement{Kind: "impl-vs-ref", Impl: fmt.Sprintf("invalid: lines %v", inv[class]), Model: "marks " + ans["marks"],
				Ref: "a statement begins on each of these lines", Finding: label(class), Note: "a line breakpoint on a statement line is refused"})
		}
		// a requested line on which a step executed (tape) must be valid
		var refused []int
		k := 0
		for _, b := range c.Bps {
			if b.Func == "" {
				if executedLines[b.Line] && !(k < len(s.BpValid) && s.BpValid[k]) {
					refused = append(refused, b.Line)
				}
			}
			k++
		}
		if len(refused) > 0 {
			v.LineFindings = append(v.LineFindings, "bp-invalid-on-executed-line")
			disagree(common.Disagreement{Kind: "impl-vs-ref", Impl: fmt.Sprintf("invalid: lines %v", refused), Model: "marks " + ans["marks"],
				Ref: "a step of the program executes on each of these lines", Finding: label("bp-invalid-on-executed-line"),
				Note: "a line breakpoint on a line that executes is refused"})
		}
	}
	if class == "" && implS != refS {
		// the whole event sequence is the reference's (theorem debug_eq_reference)
		disagree(common.Disagreement{Kind: "impl-vs-ref", Impl: implS, Ref: refS, Note: "events differ from the reference debugger"})
	}
	return v, true
}

// validBits: Valid of the line requests, in order, as the driver prints it.
func validBits(bps []bpT, valid []bool) string {
	var out []string
	for k, b := range bps {
		if b.Func != "" {
			continue
		}
		if k < len(valid) && valid[k] {
			out = append(out, "1")
		} else {
			out = append(out, "0")
		}
	}
	if len(out) == 0 {
		return "-"
	}
	return strings.Join(out, ".")
}

func sortedKeys[T any](m map[string]T) []string {
	var ks []string
	for k := range m {
		ks = append(ks, k)
	}
	sort.Strings(ks)
	return ks
}

func (ck *checker) kinds(src string) (map[int]string, bool) {
	if k, seen := ck.stmtKinds[src]; seen {
		return k, k != nil
	}
	k, ok := stmtLines(src)
	if !ok {
		k = nil
	}
	ck.stmtKinds[src] = k
	return k, ok
}

func parseEvents(s string) []eventT {
	var out []eventT
	if s == "-" || s == "" {
		return out
	}
	for _, p := range strings.Split(s, ",") {
		f := strings.Split(p, ":")
		if len(f) != 3 {
			continue
		}
		var e eventT
		e.Reason = f[0]
		fmt.Sscan(f[1], &e.Line)
		fmt.Sscan(f[2], &e.Step)
		out = append(out, e)
	}
	return out
}

func min(a, b int) int {
	if a < b {
		return a
	}
	return b
}

func main() {
	run := common.NewRun("C19")
	run.Res.Rule = "case = (program, breakpoint requests set before the start, resume commands: one per stop, Continue when exhausted); programs: a fixed corpus (the replays of the repaired findings F20 and F19-1, the regression programs of their repairs: two loops, nested loops, labelled continue, goto loops, else-if chains, switches, type switch, short circuits, a generic function) plus seeded sequential programs (if/else whose arms are made by one generator: constant assignments, ++, +=, calls, prints, returns; else-if chains; short-circuit conditions; three-clause, condition-only and condition-less loops with break/continue, twin loops of one shape, continue of an outer loop, label+goto loops, loops in helpers entered several times, range, switch, calls of helpers incl. recursion, two results, closures capturing variables, plain switch tags, one-line methods with a pointer receiver, two statements on a line, one-line ifs with jumps, a generic helper (instantiated at two types) in 1 program of 8, the regression programs of 0a3a691, final panic); breakpoint sets: none, every line, random lines, function breakpoints (incl. an unknown name), mixed; commands: continue only, step-entry then into/over all the way, seeded mixes of continue/into/over/out, terminate only as last command; line level: the reference debugger reads the requested lines only (one break stop each time an activation enters a requested line, before anything on it runs); a request on a line where a statement that evaluates something begins (go/parser; dead code under constant tests and generic templates left out), or on which a step executes during the run, must be valid; non-trivial = the session has at least one stop; distinct = distinct (program, breakpoints, commands)"
	defer run.Finish()
	drv, err := common.StartDriver("C19")
	if err != nil {
		run.Errorf("driver: %v", err)
		return
	}
	defer drv.Close()
	findings, err := common.LoadFindings("C19")
	if err != nil {
		run.Errorf("known findings: %v", err)
	}
	ck := &checker{run: run, drv: drv, tramp: interp.VerifC19TrampolineCode(), plain: map[string]outcomeT{}, compErr: map[string]string{},
		traceKey: map[string]traceT{}, stmtKinds: map[string]map[int]string{}}

	if run.Replay != "" {
		b, err := os.ReadFile(run.Replay)
		if err != nil {
			run.Errorf("replay: %v", err)
			return
		}
		var rp struct {
			Input caseT `json:"input"`
		}
		if err := json.Unmarshal(b, &rp); err != nil || rp.Input.Src == "" {
			run.Errorf("replay: no input in %s (%v)", run.Replay, err)
			return
		}
		v, ok := ck.check(rp.Input, true)
		run.Count(rp.Input.Src+bpKey(rp.Input.Bps)+rp.Input.Cmds, ok && v.Stops > 0)
		run.Sample(map[string]interface{}{"case": rp.Input, "verdict": v}, 8)
		return
	}

	// listed findings are replayed first
	for _, f := range findings {
		var c caseT
		if err := json.Unmarshal(f.Replay, &c); err != nil || c.Src == "" {
			run.Errorf("finding %s: bad replay: %v", f.ID, err)
			continue
		}
		v, ok := ck.check(c, false)
		run.Res.Known = append(run.Res.Known, common.KnownReplay{ID: f.ID, Status: f.Status, What: f.What, StillFails: ok && (!v.Same || v.Crash || len(v.LineFindings) > 0),
			Detail: fmt.Sprintf("reported %s, executed %s (class %s) %s", v.BreaksImpl, v.BreaksRef, v.Class, strings.Join(v.LineFindings, " "))})
	}

	nprog := 80
	if run.Thorough() {
		nprog = 1200
	}
	var progs []progT
	for _, src := range fixedCorpus {
		progs = append(progs, fixedProg(src))
	}
	for k := 0; k < nprog; k++ {
		progs = append(progs, genProgram(run.Rng))
	}
	bpNames := []string{"none", "every-line", "random-lines", "functions", "mixed"}
	cmdNames := []string{"continue", "step-into-all", "step-over-all", "mixed"}
	for pi, p := range progs {
		for bk := 0; bk < 5; bk++ {
			bps := genBps(run.Rng, p, bk)
			var kinds []int
			switch bk {
			case 0:
				kinds = []int{0, 1, 2, 3, 3}
			case 1:
				kinds = []int{0, 3}
			default:
				kinds = []int{0, 3, 3}
			}
			for _, ckind := range kinds {
				c := caseT{Src: p.Src, Bps: bps, Cmds: genCmds(run.Rng, ckind)}
				v, ok := ck.check(c, true)
				run.Count(fmt.Sprintf("%d|%s|%s", pi, bpKey(bps), c.Cmds), ok && v.Stops > 0)
				if !ok {
					run.Hit("skipped")
					continue
				}
				run.Hit("bps:" + bpNames[bk])
				run.Hit("cmds:" + cmdNames[ckind])
				if v.Class == "" {
					run.Hit("hyps:hold")
				} else {
					run.Hit("hyps:" + v.Class)
				}
				if v.SameCode {
					run.Hit("shape:same-generator-successors")
				}
				switch {
				case v.Forwards == 0:
					run.Hit("shape:no-back-edge-taken")
				case v.Forwards < 10:
					run.Hit("shape:back-edges-1-9")
				default:
					run.Hit("shape:back-edges-10+")
				}
				if v.SameCode && v.Forwards > 0 {
					run.Hit("shape:same-generator-successors+back-edges")
				}
				if v.Crash {
					run.Hit("setbreakpoints:crash")
					continue
				}
				for _, lf := range v.LineFindings {
					run.Hit("line:" + lf)
				}
				if v.Same {
					run.Hit("breaks:as-reference")
				} else {
					run.Hit("breaks:differ")
				}
				switch {
				case v.Stops == 0:
					run.Hit("stops:0")
				case v.Stops < 10:
					run.Hit("stops:1-9")
				case v.Stops < 100:
					run.Hit("stops:10-99")
				default:
					run.Hit("stops:100+")
				}
				if strings.Contains(c.Cmds, "t") {
					run.Hit("cmds:with-terminate")
				}
				if (pi+bk)%7 == 0 {
					run.Sample(map[string]interface{}{"case": c, "verdict": v}, 8)
				}
			}
		}
		for _, f := range p.Feat {
			run.Hit("feature:" + f)
		}
	}
	run.Res.Extra = map[string]interface{}{"programs": len(progs)}
}
