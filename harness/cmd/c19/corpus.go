package main

import "strings"

// fixedCorpus: hand-written programs that are always run (the shapes of the known findings first).
var fixedCorpus = []string{
	// F20: both arms are constant assignments
	`package main

import "fmt"

func main() {
	c := false
	x := 0
	if c {
		x = 1
	} else {
		x = 2
	}
	fmt.Println(x)
}
`,
	// breakpoint on a loop condition reached through the back edge
	`package main

import "fmt"

func main() {
	x := 0
	for x < 3 {
		x++
	}
	fmt.Println(x)
}
`,
	// two loops with the same shape: after a back edge the node of the other loop is found
	`package main

import "fmt"

func main() {
	x := 0
	y := 0
	for i := 0; i < 2; i++ {
		y = 1
	}
	for j := 0; j < 2; j++ {
		x = 2
	}
	fmt.Println(x, y)
}
`,
	// straight line with calls and recursion
	`package main

import "fmt"

func fact(n int) int {
	if n <= 1 {
		return 1
	}
	return n * fact(n-1)
}

func show(a int) {
	fmt.Println("show", a)
}

func main() {
	a := fact(3)
	show(a)
	b := a + 1
	show(b)
}
`,
	// arms with different code
	`package main

import "fmt"

func two() int {
	return 2
}

func main() {
	x := 0
	y := 3
	if y > 5 {
		x = 1
	} else {
		x = two()
	}
	fmt.Println(x, y)
}
`,
	// closures
	`package main

import "fmt"

func seed() int {
	return 4
}

func main() {
	x := seed()
	add := func(d int) int {
		return x + d
	}
	inc := func() {
		x = x + 2
	}
	inc()
	x = add(3)
	fmt.Println(x)
}
`,
	// panic in a callee
	`package main

import "fmt"

func bad(a int) int {
	var s []int
	return s[a]
}

func main() {
	fmt.Println("start")
	x := bad(2)
	fmt.Println(x)
}
`,
	// regression program of the repair of F19-1: two loops (F19-1/v1_two_loops.go)
	`package main

import "fmt"

func main() {
	x := 0
	for x < 2 { // BP
		x++
	}
	y := 0
	for y < 3 { // BP
		y++
	}
	fmt.Println(x, y)
}

// want: brk:7 brk:7 brk:7 brk:11 brk:11 brk:11 brk:11
`,
	// nested loops (F19-1/v2_nested.go)
	`package main

import "fmt"

func main() {
	n := 0
	i := 0
	for i < 2 { // BP
		j := 0
		for j < 2 { // BP
			n += i + j
			j++
		}
		i++
	}
	fmt.Println(n)
}

// want: brk:8 brk:10 brk:10 brk:10 brk:8 brk:10 brk:10 brk:10 brk:8
`,
	// labelled continue, loop without condition (F19-1/v5_continue_label.go)
	`package main

import "fmt"

func main() {
	n := 0
outer:
	for i := 0; i < 3; i++ {
		j := 0
		for j < 3 { // BP
			j++
			if j == 2 {
				n += 10 // BP
				continue outer
			}
			n++
		}
	}
	fmt.Println(n)
	k := 0
	for {
		k++ // BP
		if k == 3 {
			break
		}
	}
	fmt.Println(k)
}

// want: brk:10 brk:10 brk:13 brk:10 brk:10 brk:13 brk:10 brk:10 brk:13 brk:22 brk:22 brk:22
`,
	// a loop in a function entered several times, goto loop (F19-1/v6_goto_func.go)
	`package main

import "fmt"

func count(n int) int {
	c := 0
	for c < n { // BP
		c++
	}
	return c
}

func main() {
	fmt.Println(count(1), count(0), count(2))
	i := 0
loop:
	if i < 2 { // BP
		i++
		goto loop
	}
	fmt.Println(i)
}

// want: brk:7 brk:7 brk:7 brk:7 brk:7 brk:7 brk:17 brk:17 brk:17
`,
	// three-clause loop with its clauses on three lines (F19-1/v3_three_clause.go)
	`package main

import "fmt"

func main() {
	s := 0.0
	for i := 0.5; // BP
	i < 3;        // BP
	i++ {         // BP
		s += i
	}
	fmt.Println(s)
}

// want: brk:7 brk:8 brk:9 brk:8 brk:9 brk:8 brk:9 brk:8
`,
	// range loops (F19-1/v4_body_range.go)
	`package main

import "fmt"

func main() {
	t := ""
	for _, s := range []string{"a", "b", "c"} {
		t += s // BP
	}
	for k := range map[int]bool{1: true} {
		t += fmt.Sprint(k) // BP
	}
	for _, r := range "xy" {
		t += string(r) // BP
	}
	fmt.Println(t)
}

// want: brk:8 brk:8 brk:8 brk:11 brk:14 brk:14
`,
	// regression program of the repair of F20: else-if chain (F20/v2_elseif_chain.go)
	`package main

import "fmt"

func classify(n int) string {
	r := ""
	if n < 0 {
		r = "neg" // BP
	} else if n == 0 {
		r = "zero" // BP
	} else if n < 10 {
		r = "small" // BP
	} else {
		r = "big" // BP
	}
	return r
}

func main() {
	fmt.Println(classify(5), classify(-1), classify(100), classify(0))
}

// want: brk:12 brk:8 brk:14 brk:10
`,
	// switch (F20/v3_switch.go)
	`package main

import "fmt"

func main() {
	x := 0.0
	for _, k := range []int{2, 0, 3, 1} {
		switch k {
		case 0:
			x = 1.5 // BP
		case 1:
			x = 2.5 // BP
		case 2:
			x = 3.5 // BP
		default:
			x = 4.5 // BP
		}
		fmt.Println(x)
	}
}

// want: brk:14 brk:10 brk:16 brk:12
`,
	// calls in both arms (F20/v4_calls.go)
	`package main

import "fmt"

type T struct{ n int }

func (t *T) inc() { t.n++ }
func (t *T) dec() { t.n-- }

func main() {
	t := &T{}
	for _, up := range []bool{false, true, true, false, false} {
		if up {
			t.inc() // BP
		} else {
			t.dec() // BP
		}
	}
	if t.n < 0 {
		fmt.Println("negative", t.n) // BP
	} else {
		fmt.Println("positive", t.n) // BP
	}
}

// want: brk:16 brk:14 brk:14 brk:16 brk:16 brk:20
`,
	// short circuits, returns in both arms (F20/v6_shortcircuit_return.go)
	`package main

import "fmt"

func f(a, b int) int {
	if a > 0 && b > 0 || a < -5 {
		return 1 // BP
	}
	return 2 // BP
}

func g(m map[string]int, k string) int {
	if v, ok := m[k]; ok {
		return v // BP
	} else {
		return -1 // BP
	}
}

func main() {
	fmt.Println(f(1, 1), f(1, 0), f(-6, 0), f(0, 3))
	m := map[string]int{"a": 7}
	fmt.Println(g(m, "b"), g(m, "a"))
}

// want: brk:7 brk:9 brk:7 brk:9 brk:16 brk:14
`,
	// type switch, break and continue in both arms (F20/v7_typeswitch_break.go)
	`package main

import "fmt"

func main() {
	n := 0
	for _, v := range []interface{}{"s", 1, 2.0, 3, "t"} {
		switch v.(type) {
		case int:
			n += 1 // BP
		case string:
			n += 10 // BP
		default:
			n += 100 // BP
		}
	}
	fmt.Println(n)
	for i := 0; ; i++ {
		if i > 2 {
			n-- // BP
			break
		} else {
			n++ // BP
			continue
		}
	}
}

// want: brk:12 brk:10 brk:14 brk:10 brk:12 brk:23 brk:23 brk:23 brk:20
`,
	// a generic function (F19-2: line requests make SetBreakpoints panic) (F19-1/v8_generic.go)
	`package main

import "fmt"

func index[T comparable](a []T, v T) int {
	r := -1
	i := 0
	for i < len(a) {
		if a[i] == v {
			r = i
		} else {
			r = -2
		}
		i++
	}
	return r
}

func main() {
	fmt.Println(index([]int{1, 2}, 1))
	fmt.Println(index([]string{"x"}, "x"))
	fmt.Println(index([]int{3}, 4))
}

// No line breakpoint here: SetBreakpoints panics on a program with a generic
// function (it generates the closures of the template), before and after the patch.
// want i*: entry:20 into:20 into:20 into:6 into:6 into:7 into:8 into:8 into:9 into:9 into:10 into:9 into:9 into:14 into:8 into:8 into:8 into:9 into:9 into:12 into:12 into:11 into:9 into:14 into:8 into:8 into:8 into:8 into:16 into:20 into:20 into:21 into:21 into:21 into:6 into:6 into:7 into:8 into:8 into:9 into:9 into:10 into:9 into:9 into:14 into:8 into:8 into:8 into:8 into:16 into:21 into:21 into:22 into:22 into:22 into:6 into:6 into:7 into:8 into:8 into:9 into:9 into:12 into:12 into:11 into:9 into:14 into:8 into:8 into:8 into:8 into:16 into:22 into:22 into:19
`,
	// a loop and same-generator arms inside a function literal (generated while compiling)
	`package main

import "fmt"

func main() {
	x := 1
	f := func(d int) int {
		s := 0
		for s < d {
			s++
		}
		if s > 2 {
			x = 5
		} else {
			x = 6
		}
		return x + s
	}
	fmt.Println(f(2), f(3), x)
}
`,
}

func fixedProg(src string) progT {
	p := progT{Src: src, Lines: strings.Count(src, "\n"), Feat: []string{"fixed"}}
	for _, l := range strings.Split(src, "\n") {
		if strings.HasPrefix(l, "func ") {
			name := strings.TrimPrefix(l, "func ")
			if i := strings.IndexAny(name, "(["); i > 0 {
				p.Funcs = append(p.Funcs, name[:i])
			}
		}
	}
	return p
}
