package main

import "strings"

// fixedCorpus: hand-written programs that are always run (the shapes of the known findings first).
var fixedCorpus = []string{
	// F20: both arms are constant assignments
	`package main

import "fmt"

func main() {
	c := false
	x := 0
	if c {
		x = 1
	} else {
		x = 2
	}
	fmt.Println(x)
}
`,
	// breakpoint on a loop condition reached through the back edge
	`package main

import "fmt"

func main() {
	x := 0
	for x < 3 {
		x++
	}
	fmt.Println(x)
}
`,
	// two loops with the same shape: after a back edge the node of the other loop is found
	`package main

import "fmt"

func main() {
	x := 0
	y := 0
	for i := 0; i < 2; i++ {
		y = 1
	}
	for j := 0; j < 2; j++ {
		x = 2
	}
	fmt.Println(x, y)
}
`,
	// straight line with calls and recursion
	`package main

import "fmt"

func fact(n int) int {
	if n <= 1 {
		return 1
	}
	return n * fact(n-1)
}

func show(a int) {
	fmt.Println("show", a)
}

func main() {
	a := fact(3)
	show(a)
	b := a + 1
	show(b)
}
`,
	// arms with different code
	`package main

import "fmt"

func two() int {
	return 2
}

func main() {
	x := 0
	y := 3
	if y > 5 {
		x = 1
	} else {
		x = two()
	}
	fmt.Println(x, y)
}
`,
	// closures
	`package main

import "fmt"

func seed() int {
	return 4
}

func main() {
	x := seed()
	add := func(d int) int {
		return x + d
	}
	inc := func() {
		x = x + 2
	}
	inc()
	x = add(3)
	fmt.Println(x)
}
`,
	// panic in a callee
	`package main

import "fmt"

func bad(a int) int {
	var s []int
	return s[a]
}

func main() {
	fmt.Println("start")
	x := bad(2)
	fmt.Println(x)
}
`,
	// regression program of the repair of F19-1: two loops (F19-1/v1_two_loops.go)
	`package main

import "fmt"

func main() {
	x := 0
	for x < 2 { // BP
		x++
	}
	y := 0
	for y < 3 { // BP
		y++
	}
	fmt.Println(x, y)
}

// want: brk:7 brk:7 brk:7 brk:11 brk:11 brk:11 brk:11
`,
	// nested loops (F19-1/v2_nested.go)
	`package main

import "fmt"

func main() {
	n := 0
	i := 0
	for i < 2 { // BP
		j := 0
		for j < 2 { // BP
			n += i + j
			j++
		}
		i++
	}
	fmt.Println(n)
}

// want: brk:8 brk:10 brk:10 brk:10 brk:8 brk:10 brk:10 brk:10 brk:8
`,
	// labelled continue, loop without condition (F19-1/v5_continue_label.go)
	`package main

import "fmt"

func main() {
	n := 0
outer:
	for i := 0; i < 3; i++ {
		j := 0
		for j < 3 { // BP
			j++
			if j == 2 {
				n += 10 // BP
				continue outer
			}
			n++
		}
	}
	fmt.Println(n)
	k := 0
	for {
		k++ // BP
		if k == 3 {
			break
		}
	}
	fmt.Println(k)
}

// want: brk:10 brk:10 brk:13 brk:10 brk:10 brk:13 brk:10 brk:10 brk:13 brk:22 brk:22 brk:22
`,
	// a loop in a function entered several times, goto loop (F19-1/v6_goto_func.go)
	`package main

import "fmt"

func count(n int) int {
	c := 0
	for c < n { // BP
		c++
	}
	return c
}

func main() {
	fmt.Println(count(1), count(0), count(2))
	i := 0
loop:
	if i < 2 { // BP
		i++
		goto loop
	}
	fmt.Println(i)
}

// want: brk:7 brk:7 brk:7 brk:7 brk:7 brk:7 brk:17 brk:17 brk:17
`,
	// three-clause loop with its clauses on three lines (F19-1/v3_three_clause.go)
	`package main

import "fmt"

func main() {
	s := 0.0
	for i := 0.5; // BP
	i < 3;        // BP
	i++ {         // BP
		s += i
	}
	fmt.Println(s)
}

// want: brk:7 brk:8 brk:9 brk:8 brk:9 brk:8 brk:9 brk:8
`,
	// range loops (F19-1/v4_body_range.go)
	`package main

import "fmt"

func main() {
	t := ""
	for _, s := range []string{"a", "b", "c"} {
		t += s // BP
	}
	for k := range map[int]bool{1: true} {
		t += fmt.Sprint(k) // BP
	}
	for _, r := range "xy" {
		t += string(r) // BP
	}
	fmt.Println(t)
}

// want: brk:8 brk:8 brk:8 brk:11 brk:14 brk:14
`,
	// regression program of the repair of F20: else-if chain (F20/v2_elseif_chain.go)
	`package main

import "fmt"

func classify(n int) string {
	r := ""
	if n < 0 {
		r = "neg" // BP
	} else if n == 0 {
		r = "zero" // BP
	} else if n < 10 {
		r = "small" // BP
	} else {
		r = "big" // BP
	}
	return r
}

func main() {
	fmt.Println(classify(5), classify(-1), classify(100), classify(0))
}

// want: brk:12 brk:8 brk:14 brk:10
`,
	// switch (F20/v3_switch.go)
	`package main

import "fmt"

func main() {
	x := 0.0
	for _, k := range []int{2, 0, 3, 1} {
		switch k {
		case 0:
			x = 1.5 // BP
		case 1:
			x = 2.5 // BP
		case 2:
			x = 3.5 // BP
		default:
			x = 4.5 // BP
		}
		fmt.Println(x)
	}
}

// want: brk:14 brk:10 brk:16 brk:12
`,
	// calls in both arms (F20/v4_calls.go)
	`package main

import "fmt"

type T struct{ n int }

func (t *T) inc() { t.n++ }
func (t *T) dec() { t.n-- }

func main() {
	t := &T{}
	for _, up := range []bool{false, true, true, false, false} {
		if up {
			t.inc() // BP
		} else {
			t.dec() // BP
		}
	}
	if t.n < 0 {
		fmt.Println("negative", t.n) // BP
	} else {
		fmt.Println("positive", t.n) // BP
	}
}

// want: brk:16 brk:14 brk:14 brk:16 brk:16 brk:20
`,
	// short circuits, returns in both arms (F20/v6_shortcircuit_return.go)
	`package main

import "fmt"

func f(a, b int) int {
	if a > 0 && b > 0 || a < -5 {
		return 1 // BP
	}
	return 2 // BP
}

func g(m map[string]int, k string) int {
	if v, ok := m[k]; ok {
		return v // BP
	} else {
		return -1 // BP
	}
}

func main() {
	fmt.Println(f(1, 1), f(1, 0), f(-6, 0), f(0, 3))
	m := map[string]int{"a": 7}
	fmt.Println(g(m, "b"), g(m, "a"))
}

// want: brk:7 brk:9 brk:7 brk:9 brk:16 brk:14
`,
	// type switch, break and continue in both arms (F20/v7_typeswitch_break.go)
	`package main

import "fmt"

func main() {
	n := 0
	for _, v := range []interface{}{"s", 1, 2.0, 3, "t"} {
		switch v.(type) {
		case int:
			n += 1 // BP
		case string:
			n += 10 // BP
		default:
			n += 100 // BP
		}
	}
	fmt.Println(n)
	for i := 0; ; i++ {
		if i > 2 {
			n-- // BP
			break
		} else {
			n++ // BP
			continue
		}
	}
}

// want: brk:12 brk:10 brk:14 brk:10 brk:12 brk:23 brk:23 brk:23 brk:20
`,
	// a generic function (F19-2: line requests make SetBreakpoints panic) (F19-1/v8_generic.go)
	`package main

import "fmt"

func index[T comparable](a []T, v T) int {
	r := -1
	i := 0
	for i < len(a) {
		if a[i] == v {
			r = i
		} else {
			r = -2
		}
		i++
	}
	return r
}

func main() {
	fmt.Println(index([]int{1, 2}, 1))
	fmt.Println(index([]string{"x"}, "x"))
	fmt.Println(index([]int{3}, 4))
}

// No line breakpoint here: SetBreakpoints panics on a program with a generic
// function (it generates the closures of the template), before and after the patch.
// want i*: entry:20 into:20 into:20 into:6 into:6 into:7 into:8 into:8 into:9 into:9 into:10 into:9 into:9 into:14 into:8 into:8 into:8 into:9 into:9 into:12 into:12 into:11 into:9 into:14 into:8 into:8 into:8 into:8 into:16 into:20 into:20 into:21 into:21 into:21 into:6 into:6 into:7 into:8 into:8 into:9 into:9 into:10 into:9 into:9 into:14 into:8 into:8 into:8 into:8 into:16 into:21 into:21 into:22 into:22 into:22 into:6 into:6 into:7 into:8 into:8 into:9 into:9 into:12 into:12 into:11 into:9 into:14 into:8 into:8 into:8 into:8 into:16 into:22 into:22 into:19
`,
	// a loop and same-generator arms inside a function literal (generated while compiling)
	`package main

import "fmt"

func main() {
	x := 1
	f := func(d int) int {
		s := 0
		for s < d {
			s++
		}
		if s > 2 {
			x = 5
		} else {
			x = 6
		}
		return x + s
	}
	fmt.Println(f(2), f(3), x)
}
`,
	// regression program of 0a3a691 (F19-2/v1_generic_multi.go), without the methods of its generic type: the nodes of
	// their instances are not below the root of the program (neither dumped nor instrumented; F19-8)
	`package main

import "fmt"

type Number interface {
	~int | ~float64
}

func sum[T Number](a []T) T {
	var s T
	for _, v := range a {
		s += v
	}
	return s
}

func mapf[T, U any](a []T, f func(T) U) []U {
	r := make([]U, 0, len(a))
	for _, v := range a {
		r = append(r, f(v))
	}
	return r
}

func unused[T any](x T) T {
	return x
}

func main() {
	fmt.Println(sum([]int{1, 2, 3}))
	fmt.Println(sum([]float64{1.5, 2}))
	fmt.Println(mapf([]int{1, 2}, func(i int) int { return i * 2 }))
}
`,
	// regression program of 0a3a691 (F19-3/v1_return_goto.go)
	`package main

import "fmt"

func f(n int) {
	if n > 2 {
		return
	}
	fmt.Println("f", n)
}

func g(n int) (r int) {
	r = n * 2
	if r > 4 {
		return
	}
	r++
	return
}

func main() {
	i := 0
loop:
	if i < 3 {
		i++
		goto loop
	}
	f(1)
	f(3)
	fmt.Println(g(1), g(3), i)
	k := 2
	switch k {
	case 1:
		fmt.Println("one")
	case 2:
		fmt.Println("two")
		fallthrough
	case 3:
		fmt.Println("three")
	}
}
`,
	// regression program of 0a3a691 (F19-3/v2_plain_conds.go)
	`package main

import "fmt"

type T struct{ ok bool }

func main() {
	ok := true
	t := T{ok: true}
	n := 0
	if ok {
		n++
	}
	if t.ok {
		n++
	}
	for ok {
		n++
		ok = false
	}
	k := 2
	switch k {
	case 2:
		n += 10
	}
	switch 3 {
	case 3:
		n += 100
	}
	switch x := k + 1; x {
	case 3:
		n += 1000
	}
	var i interface{} = n
	switch i.(type) {
	case int:
		n++
	}
	for {
		n++
		break
	}
	fmt.Println(n)
}
`,
	// regression program of 0a3a691 (F19-4/v1_for_variants.go)
	`package main

import "fmt"

func main() {
	s := 0
	for i := 0; i < 3; i++ {
		s += i
	}
	j := 0
	for ; j < 2; j++ {
		s += 10
	}
	for k := 0; k < 2; {
		k++
		s += 100
	}
	for i := 0; i < 2; i++ {
		for j := 0; j < 2; j++ {
			s += 1000
		}
	}
	for i := 0; i < 4; i++ {
		if i == 1 {
			continue
		}
		if i == 3 {
			break
		}
		s += 10000
	}
	for i := 0; i < 2; i++ {
		s += 100000
	}
	for i, n := 0, 2; i < n; i, n = i+1, n {
		s += 1000000
	}
	for i := range 2 {
		s += i
	}
	for _, v := range []int{1, 2, 3} {
		s += v
	}
	m := map[string]int{"a": 1}
	for k, v := range m {
		s += v + len(k)
	}
	fmt.Println(s)
}
`,
	// regression program of 0a3a691 (F19-5/v1_tagless.go)
	`package main

import "fmt"

func classify(n int) string {
	switch {
	case n < 0:
		return "neg"
	case n == 0 || n == 1:
		return "small"
	case n > 100 && n < 200:
		return "mid"
	default:
		return "other"
	}
}

func main() {
	for _, n := range []int{-1, 0, 1, 150, 7} {
		fmt.Println(classify(n))
	}
	x := 3
	switch y := x * 2; {
	case y > 5:
		fmt.Println("big")
		fallthrough
	case y > 100:
		fmt.Println("huge")
	}
	switch x {
	case 1, 2:
		fmt.Println("12")
	case 3:
		fmt.Println("3")
	}
	switch {
	case x > 0:
		switch {
		case x > 2:
			fmt.Println("x>2")
		}
	}
	var i interface{} = "s"
	switch v := i.(type) {
	case int:
		fmt.Println("int", v)
	case string:
		fmt.Println("string", v)
	}
}
`,
	// regression program of 0a3a691 (F19-6/v2_panic_callee.go)
	`package main

import "fmt"

func boom(m map[string]int, k string) int {
	if m == nil {
		panic("nil map " + k)
	}
	return m[k]
}

func main() {
	fmt.Println("start")
	v := boom(nil, "a") + 1
	fmt.Println(v)
}
`,
	// regression program of 0a3a691 (F19-7/v1_oneliners.go)
	`package main

import "fmt"

type T struct{ n int }

func (t *T) inc()                      { t.n++ }
func (t T) get() int                   { return t.n }
func add(a *int, b int)                { *a += b }
func twice(f func(int) int, v int) int { return f(f(v)) }
func nothing()                         {}

func main() {
	t := &T{}
	t.inc()
	t.inc()
	fmt.Println(t.get())
	v := 1
	add(&v, 2)
	fmt.Println(twice(func(i int) int { return i * 3 }, v))
	nothing()
	g := func(p *T) { p.n = 10 }
	g(t)
	fmt.Println(t.n)
	if t.n > 5 {
		fmt.Println("big")
	} else {
		fmt.Println("small")
	}
}
`,
	// a loop whose body is empty: the call of the condition and the empty block (a leaf placed in the control flow: a step)
	// alternate on one line: one visit, one stop
	`package main

import "fmt"

func main() {
	k := 0
	t := func() bool {
		k++
		return k < 4
	}
	for t() {
	}
	fmt.Println(k)
}
`,
}

func fixedProg(src string) progT {
	p := progT{Src: src, Lines: strings.Count(src, "\n"), Feat: []string{"fixed"}}
	for _, l := range strings.Split(src, "\n") {
		if strings.HasPrefix(l, "func ") {
			name := strings.TrimPrefix(l, "func ")
			if i := strings.IndexAny(name, "(["); i > 0 {
				p.Funcs = append(p.Funcs, name[:i])
			}
		}
	}
	return p
}
