package main

import "strings"

// fixedCorpus: hand-written programs that are always run (the shapes of the known findings first).
var fixedCorpus = []string{
	// F20: both arms are constant assignments
	`package main

import "fmt"

func main() {
	c := false
	x := 0
	if c {
		x = 1
	} else {
		x = 2
	}
	fmt.Println(x)
}
`,
	// breakpoint on a loop condition reached through the back edge
	`package main

import "fmt"

func main() {
	x := 0
	for x < 3 {
		x++
	}
	fmt.Println(x)
}
`,
	// two loops with the same shape: after a back edge the node of the other loop is found
	`package main

import "fmt"

func main() {
	x := 0
	y := 0
	for i := 0; i < 2; i++ {
		y = 1
	}
	for j := 0; j < 2; j++ {
		x = 2
	}
	fmt.Println(x, y)
}
`,
	// straight line with calls and recursion
	`package main

import "fmt"

func fact(n int) int {
	if n <= 1 {
		return 1
	}
	return n * fact(n-1)
}

func show(a int) {
	fmt.Println("show", a)
}

func main() {
	a := fact(3)
	show(a)
	b := a + 1
	show(b)
}
`,
	// arms with different code
	`package main

import "fmt"

func two() int {
	return 2
}

func main() {
	x := 0
	y := 3
	if y > 5 {
		x = 1
	} else {
		x = two()
	}
	fmt.Println(x, y)
}
`,
	// closures
	`package main

import "fmt"

func seed() int {
	return 4
}

func main() {
	x := seed()
	add := func(d int) int {
		return x + d
	}
	inc := func() {
		x = x + 2
	}
	inc()
	x = add(3)
	fmt.Println(x)
}
`,
	// panic in a callee
	`package main

import "fmt"

func bad(a int) int {
	var s []int
	return s[a]
}

func main() {
	fmt.Println("start")
	x := bad(2)
	fmt.Println(x)
}
`,
}

func fixedProg(src string) progT {
	p := progT{Src: src, Lines: strings.Count(src, "\n"), Feat: []string{"fixed"}}
	for _, l := range strings.Split(src, "\n") {
		if strings.HasPrefix(l, "func ") {
			name := strings.TrimPrefix(l, "func ")
			if i := strings.IndexByte(name, '('); i > 0 {
				p.Funcs = append(p.Funcs, name[:i])
			}
		}
	}
	return p
}
