package main

import (
	"fmt"
	"os"
	"strings"

	"github.com/traefik/yaegi/interp"
	"verif/harness/common"
)

// ---- the reference debugger: it is told which node executes (written independently of the Lean model) ----

type refDbg struct {
	mode   string // run pause entry into over out terminate
	depth  int
	fstep  int
	steps  int64
	cmds   string
	ci     int
	events []eventT
}

func (r *refDbg) apply(c byte) {
	switch c {
	case 'c':
		r.mode = "run"
	case 't':
		r.mode = "terminate"
	default:
		if r.mode == "terminate" || (r.mode == "entry" && c == 'e') {
			return
		}
		switch c {
		case 'i':
			r.mode, r.fstep = "into", r.depth
		case 'o':
			r.mode, r.fstep = "over", r.depth
		case 'u':
			r.mode, r.fstep = "out", r.depth
		default:
			r.mode = "pause"
		}
	}
}

// before reports whether the loop must end (terminate) before node n executes.
func (r *refDbg) before(n interp.VerifC19Node, marked bool) bool {
	if !n.PosValid {
		return false
	}
	if r.mode == "terminate" {
		return true
	}
	reason := ""
	switch {
	case marked:
		reason = "brk"
	case r.mode == "run":
	case r.mode == "out":
		if r.depth < r.fstep {
			reason = "out"
		}
	case r.mode == "over":
		if r.depth <= r.fstep {
			reason = "over"
		}
	default:
		reason = r.mode
	}
	if reason == "" {
		return false
	}
	r.events = append(r.events, eventT{Reason: reason, Line: n.Line, Step: r.steps})
	c := byte('c')
	if r.ci < len(r.cmds) {
		c = r.cmds[r.ci]
		r.ci++
	}
	r.apply(c)
	return false
}

// isStepNode: the node, when it executes, is a step of the program at a source position (a statement or an
// operation, as opposed to the join points of compound statements, which execute after their parts).
func isStepNode(dump []interp.VerifC19Node, i int) bool {
	n := dump[i]
	if !n.PosValid {
		return false
	}
	switch n.Kind {
	case "breakStmt", "continueStmt", "fallthroughStmt", "gotoStmt":
		return true
	}
	return n.Action != "nop" || (n.Start == i && len(n.Children) == 0)
}

// funcStarts: the entry node of the first declaration of every requested function.
func funcStarts(dump []interp.VerifC19Node, bps []bpT) map[int]bool {
	out := map[int]bool{}
	done := map[string]bool{}
	want := map[string]bool{}
	for _, b := range bps {
		if b.Func != "" {
			want[b.Func] = true
		}
	}
	for _, n := range dump {
		if n.Func != "" && want[n.Func] && !done[n.Func] && n.Start >= 0 {
			done[n.Func] = true
			out[n.Start] = true
		}
	}
	return out
}

// refEvents: the stops a debugger with exact knowledge of the executing node makes on this tape. Line
// breakpoints are read at the level of lines, without any notion of marked node: **one stop each time an
// activation enters a requested line, before anything on the line runs** — the step about to execute is on
// the line and the previous step of the activation is not (or there is none, or it is this very node);
// a function breakpoint stops whenever the entry node of the function is about to run.
// Returns also the requested lines on which a step executed.
func refEvents(dump []interp.VerifC19Node, bps []bpT, cmds string, tape []itemT) ([]eventT, map[int]bool) {
	lines := map[int]bool{}
	for _, b := range bps {
		if b.Func == "" {
			lines[b.Line] = true
		}
	}
	calls := funcStarts(dump, bps)
	executed := map[int]bool{}
	r := &refDbg{mode: "entry", cmds: cmds}
	first := byte('c')
	if len(cmds) > 0 {
		first = cmds[0]
		r.ci = 1
	}
	r.apply(first)
	var prev []int // last step of every live activation (-1: none)
	exec := func(node int) bool {
		n := dump[node]
		top := len(prev) - 1
		hit := calls[node]
		if isStepNode(dump, node) {
			if lines[n.Line] {
				executed[n.Line] = true
				if top < 0 || prev[top] < 0 || prev[top] == node || dump[prev[top]].Line != n.Line {
					hit = true
				}
			}
		}
		stop := r.before(n, hit)
		if top >= 0 && isStepNode(dump, node) {
			prev[top] = node
		}
		return stop
	}
	for _, it := range tape {
		switch it.Kind {
		case 'c':
			if dump[it.Node].Code == 0 {
				continue
			}
			r.depth++
			prev = append(prev, -1)
			if exec(it.Node) {
				return r.events, executed
			}
			r.steps++
		case 'n':
			if exec(it.Node) {
				return r.events, executed
			}
			r.steps++
		case 'z':
			if r.depth > 0 {
				r.depth--
			}
			if len(prev) > 0 {
				prev = prev[:len(prev)-1]
			}
		case 'p':
			return r.events, executed
		}
	}
	return r.events, executed
}

// ---- hypotheses of the tracking theorems, computed on the input (program graph and its run) ----

func idsOf(n interp.VerifC19Node) []uintptr {
	if n.Code == 0 {
		return nil // no closure generated (yet)
	}
	ids := []uintptr{n.Clo}
	if n.Forward != 0 {
		ids = append(ids, n.Forward)
	}
	return ids
}

// sharedClosure: some node has two different successors that are represented by one closure object
// (idSeparates of the model fails). Closures made by a generator, and forwarding closures, are objects of
// their own: this is expected never to hold.
func sharedClosure(dump []interp.VerifC19Node) bool {
	for _, n := range dump {
		if n.Tnext >= 0 && n.Fnext >= 0 && n.Tnext != n.Fnext {
			for _, a := range idsOf(dump[n.Tnext]) {
				for _, b := range idsOf(dump[n.Fnext]) {
					if a == b {
						if os.Getenv("C19_DEBUG") != "" {
							t, f := dump[n.Tnext], dump[n.Fnext]
							fmt.Fprintf(os.Stderr, "SHARED: %s/%s L%d -> %d %s/%s L%d clo=%x fwd=%x | %d %s/%s L%d clo=%x fwd=%x\n", n.Kind, n.Action, n.Line,
								n.Tnext, t.Kind, t.Action, t.Line, t.Clo, t.Forward, n.Fnext, f.Kind, f.Action, f.Line, f.Clo, f.Forward)
						}
						return true
					}
				}
			}
		}
	}
	return false
}

// ambiguousBranch: some node has two different successors whose closures share their code (the domain
// restriction of the code before d1e6c4c; now only a coverage bucket).
func ambiguousBranch(dump []interp.VerifC19Node) bool {
	for _, n := range dump {
		if n.Tnext >= 0 && n.Fnext >= 0 && n.Tnext != n.Fnext {
			a, b := dump[n.Tnext].Code, dump[n.Fnext].Code
			if a == b {
				return true
			}
		}
	}
	return false
}

// followsEdges: "ok", "unrecorded" (a back edge is taken through a forwarding closure that is not recorded on
// its node) or "nonedge" (a closure hands over to something that is not its node's tnext or fnext).
// forwards counts the hand-overs through forwarding closures.
func followsEdges(dump []interp.VerifC19Node, tape []itemT) (res string, forwards int) {
	var stack []int
	for _, it := range tape {
		switch it.Kind {
		case 'c':
			if dump[it.Node].Code != 0 {
				stack = append(stack, it.Node)
			}
		case 'n':
			if len(stack) == 0 {
				return "nonedge", forwards
			}
			top := dump[stack[len(stack)-1]]
			if dump[it.Node].Code == 0 || (top.Tnext != it.Node && top.Fnext != it.Node) {
				return "nonedge", forwards
			}
			if it.Tramp {
				forwards++
				if dump[it.Node].Forward == 0 {
					return "unrecorded", forwards
				}
			}
			stack[len(stack)-1] = it.Node
		case 'z':
			if len(stack) == 0 {
				return "ok", forwards
			}
			stack = stack[:len(stack)-1]
		case 'p':
			return "ok", forwards
		}
	}
	return "ok", forwards
}

// classOf: "" when the hypotheses of breakpoints_reported_in_order hold on this input. None of the other
// labels is a listed class: a difference from the reference debugger there is a VIOLATION too.
func classOf(dump []interp.VerifC19Node, tape []itemT) string {
	switch r, _ := followsEdges(dump, tape); r {
	case "unrecorded":
		return "unrecorded-forwarding-closure"
	case "nonedge":
		return "non-edge-successor"
	}
	if sharedClosure(dump) {
		return "shared-closure-object"
	}
	return ""
}

// ---- protocol line ----

func optIdx(i int) string {
	if i < 0 {
		return "-1"
	}
	return fmt.Sprint(i)
}

func protocolLine(dump []interp.VerifC19Node, tramp uintptr, bps []bpT, cmds string, tape []itemT) string {
	var b strings.Builder
	b.WriteString("C19 run (g")
	for _, n := range dump {
		ch := make([]string, len(n.Children))
		for i, c := range n.Children {
			ch[i] = fmt.Sprint(c)
		}
		fn := "-"
		if n.Func != "" {
			fn = common.Q(n.Func)
		}
		fmt.Fprintf(&b, " (%d %d %d %s %s %d %s %s %s (%s) %s %s %s)", n.Code, n.Clo, n.Forward, optIdx(n.Tnext), optIdx(n.Fnext), n.Line,
			common.B(n.PosValid), common.B(n.Action == "nop"), optIdx(n.Parent), strings.Join(ch, " "), fn, optIdx(n.Start), n.Kind)
	}
	fmt.Fprintf(&b, ") %d (b", tramp)
	for _, bp := range bps {
		if bp.Func != "" {
			fmt.Fprintf(&b, " (f %s)", common.Q(bp.Func))
		} else {
			fmt.Fprintf(&b, " (l %d)", bp.Line)
		}
	}
	b.WriteString(") (c")
	for i := 0; i < len(cmds); i++ {
		b.WriteByte(' ')
		b.WriteByte(cmds[i])
	}
	b.WriteString(") (t")
	for _, it := range tape {
		switch it.Kind {
		case 'c':
			fmt.Fprintf(&b, " (c %d)", it.Node)
		case 'n':
			fmt.Fprintf(&b, " (n %d %s)", it.Node, common.B(it.Tramp))
		case 'z':
			b.WriteString(" (z)")
		case 'p':
			b.WriteString(" (p)")
		}
	}
	b.WriteString(")")
	return b.String()
}

// marksOf: the nodes with breakOnLine / breakOnCall in the dump, as sorted id lists.
func marksOf(dump []interp.VerifC19Node) (line, call string) {
	show := func(ids []int) string {
		if len(ids) == 0 {
			return "-"
		}
		s := make([]string, len(ids))
		for i, id := range ids {
			s[i] = fmt.Sprint(id)
		}
		return strings.Join(s, ".")
	}
	var l, c []int
	for i, n := range dump {
		if n.BrkLine {
			l = append(l, i)
		}
		if n.BrkCall {
			c = append(c, i)
		}
	}
	return show(l), show(c)
}

// breaks keeps the break events (line and step).
func breaks(es []eventT) string {
	var out []string
	for _, e := range es {
		if e.Reason == "brk" {
			out = append(out, fmt.Sprintf("%d@%d", e.Line, e.Step))
		}
	}
	if len(out) == 0 {
		return "-"
	}
	return strings.Join(out, ",")
}
