package main

import (
	"fmt"
	"sort"
	"strings"

	"github.com/traefik/yaegi/interp"
	"verif/harness/common"
)

// ---- the reference debugger: it is told which node executes (written independently of the Lean model) ----

type refDbg struct {
	mode   string // run pause entry into over out terminate
	depth  int
	fstep  int
	steps  int64
	cmds   string
	ci     int
	events []eventT
}

func (r *refDbg) apply(c byte) {
	switch c {
	case 'c':
		r.mode = "run"
	case 't':
		r.mode = "terminate"
	default:
		if r.mode == "terminate" || (r.mode == "entry" && c == 'e') {
			return
		}
		switch c {
		case 'i':
			r.mode, r.fstep = "into", r.depth
		case 'o':
			r.mode, r.fstep = "over", r.depth
		case 'u':
			r.mode, r.fstep = "out", r.depth
		default:
			r.mode = "pause"
		}
	}
}

// before reports whether the loop must end (terminate) before node n executes.
func (r *refDbg) before(n interp.VerifC19Node, marked bool) bool {
	if !n.PosValid {
		return false
	}
	if r.mode == "terminate" {
		return true
	}
	reason := ""
	switch {
	case marked:
		reason = "brk"
	case r.mode == "run":
	case r.mode == "out":
		if r.depth < r.fstep {
			reason = "out"
		}
	case r.mode == "over":
		if r.depth <= r.fstep {
			reason = "over"
		}
	default:
		reason = r.mode
	}
	if reason == "" {
		return false
	}
	r.events = append(r.events, eventT{Reason: reason, Line: n.Line, Step: r.steps})
	c := byte('c')
	if r.ci < len(r.cmds) {
		c = r.cmds[r.ci]
		r.ci++
	}
	r.apply(c)
	return false
}

// refEvents: the stops a debugger with exact knowledge of the executing node makes on this tape.
func refEvents(dump []interp.VerifC19Node, marks map[int]bool, cmds string, tape []itemT) []eventT {
	r := &refDbg{mode: "entry", cmds: cmds}
	first := byte('c')
	if len(cmds) > 0 {
		first = cmds[0]
		r.ci = 1
	}
	r.apply(first)
	for _, it := range tape {
		switch it.Kind {
		case 'c':
			if dump[it.Node].Code == 0 {
				continue
			}
			r.depth++
			if r.before(dump[it.Node], marks[it.Node]) {
				return r.events
			}
			r.steps++
		case 'n':
			if r.before(dump[it.Node], marks[it.Node]) {
				return r.events
			}
			r.steps++
		case 'z':
			if r.depth > 0 {
				r.depth--
			}
		case 'p':
			return r.events
		}
	}
	return r.events
}

// ---- classes: decidable predicates of the input (program graph and its run) ----

// ambiguousBranch: some node has two different successors whose closures share their code.
func ambiguousBranch(dump []interp.VerifC19Node) bool {
	for _, n := range dump {
		if n.Tnext >= 0 && n.Fnext >= 0 && n.Tnext != n.Fnext {
			a, b := dump[n.Tnext].Code, dump[n.Fnext].Code
			if a == b {
				return true
			}
		}
	}
	return false
}

// followsEdges: "ok", "tramp" (a forwarding closure of setExec is executed: a back edge of the graph is taken)
// or "nonedge" (a closure hands over to something that is not its node's tnext or fnext).
func followsEdges(dump []interp.VerifC19Node, tape []itemT) string {
	var stack []int
	for _, it := range tape {
		switch it.Kind {
		case 'c':
			if dump[it.Node].Code != 0 {
				stack = append(stack, it.Node)
			}
		case 'n':
			if len(stack) == 0 {
				return "nonedge"
			}
			if it.Tramp {
				return "tramp"
			}
			top := dump[stack[len(stack)-1]]
			if dump[it.Node].Code == 0 || (top.Tnext != it.Node && top.Fnext != it.Node) {
				return "nonedge"
			}
			stack[len(stack)-1] = it.Node
		case 'z':
			if len(stack) == 0 {
				return "ok"
			}
			stack = stack[:len(stack)-1]
		case 'p':
			return "ok"
		}
	}
	return "ok"
}

func classOf(dump []interp.VerifC19Node, tape []itemT) string {
	switch followsEdges(dump, tape) {
	case "tramp":
		return "back-edge-forwarding"
	case "nonedge":
		return "non-edge-successor"
	}
	if ambiguousBranch(dump) {
		return "code-ambiguous-branch"
	}
	return ""
}

// ---- protocol line ----

func optIdx(i int) string {
	if i < 0 {
		return "-1"
	}
	return fmt.Sprint(i)
}

func protocolLine(dump []interp.VerifC19Node, tramp uintptr, bps []bpT, cmds string, tape []itemT) string {
	var b strings.Builder
	b.WriteString("C19 run (g")
	for _, n := range dump {
		ch := make([]string, len(n.Children))
		for i, c := range n.Children {
			ch[i] = fmt.Sprint(c)
		}
		fn := "-"
		if n.Func != "" {
			fn = common.Q(n.Func)
		}
		fmt.Fprintf(&b, " (%d %s %s %d %s %s %s (%s) %s %s)", n.Code, optIdx(n.Tnext), optIdx(n.Fnext), n.Line,
			common.B(n.PosValid), common.B(n.Action == "nop"), optIdx(n.Parent), strings.Join(ch, " "), fn, optIdx(n.Start))
	}
	fmt.Fprintf(&b, ") %d (b", tramp)
	for _, bp := range bps {
		if bp.Func != "" {
			fmt.Fprintf(&b, " (f %s)", common.Q(bp.Func))
		} else {
			fmt.Fprintf(&b, " (l %d)", bp.Line)
		}
	}
	b.WriteString(") (c")
	for i := 0; i < len(cmds); i++ {
		b.WriteByte(' ')
		b.WriteByte(cmds[i])
	}
	b.WriteString(") (t")
	for _, it := range tape {
		switch it.Kind {
		case 'c':
			fmt.Fprintf(&b, " (c %d)", it.Node)
		case 'n':
			fmt.Fprintf(&b, " (n %d %s)", it.Node, common.B(it.Tramp))
		case 'z':
			b.WriteString(" (z)")
		case 'p':
			b.WriteString(" (p)")
		}
	}
	b.WriteString(")")
	return b.String()
}

func marksOf(dump []interp.VerifC19Node) (map[int]bool, string) {
	m := map[int]bool{}
	var ids []int
	for i, n := range dump {
		if n.BrkLine || n.BrkCall {
			m[i] = true
			ids = append(ids, i)
		}
	}
	sort.Ints(ids)
	if len(ids) == 0 {
		return m, "-"
	}
	s := make([]string, len(ids))
	for i, id := range ids {
		s[i] = fmt.Sprint(id)
	}
	return m, strings.Join(s, ".")
}

// breaks keeps the break events (line and step).
func breaks(es []eventT) string {
	var out []string
	for _, e := range es {
		if e.Reason == "brk" {
			out = append(out, fmt.Sprintf("%d@%d", e.Line, e.Step))
		}
	}
	if len(out) == 0 {
		return "-"
	}
	return strings.Join(out, ",")
}
