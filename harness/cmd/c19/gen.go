package main

import (
	"fmt"
	"math/rand"
	"strings"
)

// ---- generated programs: sequential, terminating, one statement per line ----

type helper struct {
	name  string
	arity int
	rets  int // 0, 1 or 2 results
}

type pg struct {
	r        *rand.Rand
	lines    []string
	nv       int
	helpers  []helper
	counter  string   // name of a struct type with one-line methods inc/dec on its pointer ("" if none)
	generics []string // names of generic helpers (SetBreakpoints with a line request dies on such programs: F19-2)
	feat     map[string]bool
	noLoops  bool // straight-line and branching programs only (the domain of the partial theorem)
}

func (p *pg) emit(ind int, format string, a ...interface{}) {
	p.lines = append(p.lines, strings.Repeat("\t", ind)+fmt.Sprintf(format, a...))
}

func (p *pg) fresh(prefix string) string {
	p.nv++
	return fmt.Sprintf("%s%d", prefix, p.nv)
}

func (p *pg) pickVar(vars []string) string { return vars[p.r.Intn(len(vars))] }

func (p *pg) atom(vars []string) string {
	if len(vars) > 0 && p.r.Intn(3) != 0 {
		return p.pickVar(vars)
	}
	return fmt.Sprint(p.r.Intn(7))
}

func (p *pg) expr(vars []string) string {
	switch p.r.Intn(6) {
	case 0:
		return p.atom(vars)
	case 1:
		return p.atom(vars) + " + " + p.atom(vars)
	case 2:
		return p.atom(vars) + " - " + fmt.Sprint(1+p.r.Intn(3))
	case 3:
		return p.atom(vars) + " * " + fmt.Sprint(2+p.r.Intn(2))
	case 4:
		return p.atom(vars) + "%" + fmt.Sprint(2+p.r.Intn(3))
	default:
		return p.atom(vars) + " + " + p.atom(vars) + " * 2"
	}
}

func (p *pg) cond(vars, bools []string) string {
	if len(bools) > 0 && p.r.Intn(3) == 0 {
		return bools[p.r.Intn(len(bools))]
	}
	switch p.r.Intn(6) {
	case 0:
		return p.atom(vars) + " < " + fmt.Sprint(p.r.Intn(6))
	case 1:
		return p.atom(vars) + "%2 == 0"
	case 2:
		return p.atom(vars) + " > " + p.atom(vars)
	case 3:
		return p.atom(vars) + " != " + fmt.Sprint(p.r.Intn(4))
	case 4:
		return p.atom(vars) + " > 1 && " + p.atom(vars) + " < 9"
	default:
		// short circuits: several branching nodes on one line
		return p.atom(vars) + " > 3 || " + p.atom(vars) + " < 2 && " + p.atom(vars) + " != 1"
	}
}

// callExpr returns a call of a helper with the wanted number of results ("" if none is available).
func (p *pg) callExpr(vars []string, rets int) string {
	var cand []helper
	for _, h := range p.helpers {
		if h.rets == rets {
			cand = append(cand, h)
		}
	}
	if len(cand) == 0 {
		return ""
	}
	h := cand[p.r.Intn(len(cand))]
	args := make([]string, h.arity)
	for i := range args {
		if strings.HasPrefix(h.name, "rec") {
			args[i] = fmt.Sprint(1 + p.r.Intn(4)) // bounded recursion depth
		} else {
			args[i] = p.atom(vars)
		}
	}
	p.feat["call"] = true
	if strings.HasPrefix(h.name, "rec") {
		p.feat["recursion"] = true
	}
	return h.name + "(" + strings.Join(args, ", ") + ")"
}

// block emits n statements. vars: assignable int variables in scope; ro: readable only (loop counters);
// bools: bool variables; depth: nesting depth; inLoop: break/continue allowed.
func (p *pg) block(ind int, vars, ro, bools []string, depth, n int, inLoop bool) {
	vars = append([]string(nil), vars...)
	bools = append([]string(nil), bools...)
	all := func() []string { return append(append([]string(nil), vars...), ro...) }
	var defined []string
	for k := 0; k < n; k++ {
		choice := p.r.Intn(31)
		if depth >= 3 && (choice >= 8 && choice <= 13 || choice >= 20) {
			choice = p.r.Intn(8)
		}
		if p.noLoops && (choice == 10 || choice == 11 || choice == 15 || choice == 16 || (choice >= 20 && choice <= 23)) {
			choice = []int{8, 12, 24, 25}[p.r.Intn(4)] // a branch or a switch instead
		}
		switch {
		case choice == 0 || len(vars) == 0:
			v := p.fresh("v")
			p.emit(ind, "%s := %s", v, p.expr(all()))
			vars = append(vars, v)
			defined = append(defined, v)
		case choice == 1:
			p.emit(ind, "%s = %d", p.pickVar(vars), p.r.Intn(9))
		case choice == 2:
			p.emit(ind, "%s = %s", p.pickVar(vars), p.expr(all()))
		case choice == 3:
			v := p.pickVar(vars)
			switch p.r.Intn(3) {
			case 0:
				p.emit(ind, "%s++", v)
			case 1:
				p.emit(ind, "%s += %s", v, p.atom(all()))
			default:
				p.emit(ind, "%s = %s + 1", v, v)
			}
		case choice == 4 || choice == 5:
			p.emit(ind, "fmt.Println(%q, %s)", p.fresh("p"), strings.Join(all(), ", "))
		case choice == 6:
			b := p.fresh("b")
			p.emit(ind, "%s := %s", b, p.cond(all(), nil))
			bools = append(bools, b)
			p.emit(ind, "fmt.Println(%q, %s)", b, b)
		case choice == 7:
			if c := p.callExpr(all(), 1); c != "" {
				p.emit(ind, "%s = %s", p.pickVar(vars), c)
			} else if c := p.callExpr(all(), 0); c != "" {
				p.emit(ind, "%s", c)
			} else {
				p.emit(ind, "%s = %s", p.pickVar(vars), p.expr(all()))
			}
		case choice == 8 || choice == 9:
			// if / else (constant assignments in both arms are the F20 shape)
			p.feat["if"] = true
			p.emit(ind, "if %s {", p.cond(all(), bools))
			if p.r.Intn(3) == 0 {
				p.emit(ind+1, "%s = %d", p.pickVar(vars), 1+p.r.Intn(5))
			} else {
				p.block(ind+1, vars, ro, bools, depth+1, 1+p.r.Intn(2), inLoop)
			}
			switch p.r.Intn(4) {
			case 0:
				p.emit(ind, "}")
			case 1:
				p.emit(ind, "} else if %s {", p.cond(all(), bools))
				p.block(ind+1, vars, ro, bools, depth+1, 1, inLoop)
				p.emit(ind, "} else {")
				p.block(ind+1, vars, ro, bools, depth+1, 1, inLoop)
				p.emit(ind, "}")
			default:
				p.emit(ind, "} else {")
				if p.r.Intn(3) == 0 {
					p.emit(ind+1, "%s = %d", p.pickVar(vars), 1+p.r.Intn(5))
				} else {
					p.block(ind+1, vars, ro, bools, depth+1, 1+p.r.Intn(2), inLoop)
				}
				p.emit(ind, "}")
			}
		case choice == 10:
			// three-clause loop
			p.feat["for3"] = true
			i := p.fresh("i")
			p.emit(ind, "for %s := 0; %s < %d; %s++ {", i, i, 1+p.r.Intn(3), i)
			p.block(ind+1, vars, append(append([]string(nil), ro...), i), bools, depth+1, 1+p.r.Intn(3), true)
			p.emit(ind, "}")
		case choice == 11:
			// condition-only loop with its own counter
			p.feat["forc"] = true
			c := p.fresh("n")
			p.emit(ind, "%s := %d", c, 1+p.r.Intn(3))
			p.emit(ind, "for %s > 0 {", c)
			p.emit(ind+1, "%s--", c)
			p.block(ind+1, vars, append(append([]string(nil), ro...), c), bools, depth+1, 1+p.r.Intn(2), true)
			p.emit(ind, "}")
		case choice == 12:
			p.feat["switch"] = true
			if p.r.Intn(2) == 0 {
				if p.r.Intn(3) == 0 {
					p.emit(ind, "switch %s {", p.pickVar(all())) // a plain tag: no operation on the line
				} else {
					p.emit(ind, "switch %s %% 3 {", p.pickVar(all()))
				}
				p.emit(ind, "case 0:")
				p.block(ind+1, vars, ro, bools, depth+1, 1, inLoop)
				p.emit(ind, "case 1:")
				p.block(ind+1, vars, ro, bools, depth+1, 1, inLoop)
				if p.r.Intn(2) == 0 {
					p.emit(ind, "default:")
					p.block(ind+1, vars, ro, bools, depth+1, 1, inLoop)
				}
				p.emit(ind, "}")
			} else {
				p.emit(ind, "switch {")
				p.emit(ind, "case %s:", p.cond(all(), bools))
				p.block(ind+1, vars, ro, bools, depth+1, 1, inLoop)
				p.emit(ind, "case %s:", p.cond(all(), bools))
				p.block(ind+1, vars, ro, bools, depth+1, 1, inLoop)
				p.emit(ind, "default:")
				p.block(ind+1, vars, ro, bools, depth+1, 1, inLoop)
				p.emit(ind, "}")
			}
		case choice == 13:
			// closure: captures a variable of the enclosing function
			p.feat["closure"] = true
			f := p.fresh("fn")
			v := p.pickVar(vars)
			if k := p.r.Intn(4); k == 0 {
				p.emit(ind, "%s := func(d int) int {", f)
				p.emit(ind+1, "return %s + d", v)
				p.emit(ind, "}")
				p.emit(ind, "%s = %s(%s)", p.pickVar(vars), f, p.atom(all()))
			} else if k == 1 && !p.noLoops {
				// a loop and twin arms inside a function literal: its closures are generated while compiling,
				// before a debug session exists
				p.feat["closure-loop"] = true
				p.emit(ind, "%s := func(d int) int {", f)
				p.emit(ind+1, "s := 0")
				if p.r.Intn(2) == 0 {
					p.emit(ind+1, "for i := 0; i < d%%3+1; i++ {")
					p.emit(ind+2, "s += i")
					p.emit(ind+1, "}")
				} else {
					p.emit(ind+1, "for s < d%%4 {")
					p.emit(ind+2, "s++")
					p.emit(ind+1, "}")
				}
				p.emit(ind+1, "if s > 1 {")
				p.emit(ind+2, "s = 7")
				p.emit(ind+1, "} else {")
				p.emit(ind+2, "s = 8")
				p.emit(ind+1, "}")
				p.emit(ind+1, "return %s + s", v)
				p.emit(ind, "}")
				p.emit(ind, "%s = %s(%s)", p.pickVar(vars), f, p.atom(all()))
				p.emit(ind, "%s = %s(%d)", p.pickVar(vars), f, 2+p.r.Intn(3))
			} else {
				p.emit(ind, "%s := func() {", f)
				p.emit(ind+1, "%s = %s + 2", v, v)
				p.emit(ind, "}")
				p.emit(ind, "%s()", f)
				if p.r.Intn(2) == 0 {
					p.emit(ind, "%s()", f)
				}
			}
		case choice == 14:
			if c := p.callExpr(all(), 2); c != "" && len(vars) >= 2 {
				p.emit(ind, "%s, %s = %s", vars[0], vars[len(vars)-1], c)
			} else if c := p.callExpr(all(), 0); c != "" {
				p.emit(ind, "%s", c)
			} else {
				p.emit(ind, "%s = %s", p.pickVar(vars), p.expr(all()))
			}
		case choice == 15:
			p.feat["range"] = true
			v := p.fresh("e")
			if p.r.Intn(3) == 0 {
				p.emit(ind, "for %s := range %d {", v, 1+p.r.Intn(3))
			} else {
				p.emit(ind, "for _, %s := range []int{%d, %d} {", v, p.r.Intn(5), p.r.Intn(5))
			}
			p.block(ind+1, vars, append(append([]string(nil), ro...), v), bools, depth+1, 1, true)
			p.emit(ind, "}")
		case choice == 16 && inLoop:
			p.emit(ind, "if %s {", p.cond(all(), bools))
			if p.r.Intn(2) == 0 {
				p.emit(ind+1, "break")
			} else {
				p.emit(ind+1, "continue")
			}
			p.emit(ind, "}")
		case choice == 17:
			if c := p.callExpr(all(), 0); c != "" {
				p.emit(ind, "%s", c)
			} else {
				p.emit(ind, "fmt.Println(%q, %s)", p.fresh("p"), strings.Join(all(), ", "))
			}
		case choice == 20:
			// two loops of the same shape, one after the other (after a back edge the unchanged code could
			// resume on the node of the other loop)
			p.feat["twin-loops"] = true
			a, b := p.pickVar(vars), p.pickVar(vars)
			n := 1 + p.r.Intn(2)
			for _, v := range []string{a, b} {
				i := p.fresh("i")
				p.emit(ind, "for %s := 0; %s < %d; %s++ {", i, i, n, i)
				p.emit(ind+1, "%s = %d", v, 1+p.r.Intn(5))
				p.emit(ind, "}")
			}
		case choice == 21:
			// loop without condition, left by break
			p.feat["for-break"] = true
			k := p.fresh("k")
			p.emit(ind, "%s := 0", k)
			p.emit(ind, "for {")
			p.emit(ind+1, "%s++", k)
			// (the exit test comes before the body: a `continue` of the body must not skip it)
			p.emit(ind+1, "if %s > %d {", k, 1+p.r.Intn(3))
			p.emit(ind+2, "break")
			p.emit(ind+1, "}")
			p.block(ind+1, vars, append(append([]string(nil), ro...), k), bools, depth+1, 1, true)
			p.emit(ind, "}")
		case choice == 22:
			// continue of an outer loop from an inner one
			p.feat["continue-label"] = true
			l, i, j := p.fresh("outer"), p.fresh("i"), p.fresh("j")
			p.emit(ind, "%s:", l)
			p.emit(ind, "for %s := 0; %s < 2; %s++ {", i, i, i)
			p.emit(ind+1, "for %s := 0; %s < 3; %s++ {", j, j, j)
			p.emit(ind+2, "if %s == %d {", j, 1+p.r.Intn(2))
			p.emit(ind+3, "continue %s", l)
			p.emit(ind+2, "}")
			p.block(ind+2, vars, append(append([]string(nil), ro...), i, j), bools, depth+2, 1, false)
			p.emit(ind+1, "}")
			p.emit(ind, "}")
		case choice == 23:
			// a loop made of a label and a backward goto
			p.feat["goto-loop"] = true
			l, g := p.fresh("again"), p.fresh("g")
			p.emit(ind, "%s := 0", g)
			p.emit(ind, "%s:", l)
			p.emit(ind, "if %s < %d {", g, 1+p.r.Intn(3))
			p.emit(ind+1, "%s++", g)
			p.emit(ind+1, "%s = %s", p.pickVar(vars), p.expr(append(all(), g)))
			p.emit(ind+1, "goto %s", l)
			p.emit(ind, "}")
		case choice == 24:
			// both arms are made by the same generator (the shape of F20), in several flavours
			p.feat["twin-arms"] = true
			a, b := p.pickVar(vars), p.pickVar(vars)
			p.emit(ind, "if %s {", p.cond(all(), bools))
			switch k := p.r.Intn(4); {
			case k == 0:
				p.emit(ind+1, "%s++", a)
				p.emit(ind, "} else {")
				p.emit(ind+1, "%s++", b)
			case k == 1:
				p.emit(ind+1, "%s += %d", a, 1+p.r.Intn(3))
				p.emit(ind, "} else {")
				p.emit(ind+1, "%s += %d", b, 1+p.r.Intn(3))
			case k == 2 && p.callExpr(all(), 0) != "":
				p.emit(ind+1, "%s", p.callExpr(all(), 0))
				p.emit(ind, "} else {")
				p.emit(ind+1, "%s", p.callExpr(all(), 0))
			default:
				p.emit(ind+1, "fmt.Println(%q, %s)", p.fresh("t"), a)
				p.emit(ind, "} else {")
				p.emit(ind+1, "fmt.Println(%q, %s)", p.fresh("e"), b)
			}
			p.emit(ind, "}")
		case choice == 25:
			// else-if chain of constant assignments
			p.feat["twin-arms"] = true
			v := p.pickVar(vars)
			p.emit(ind, "if %s {", p.cond(all(), bools))
			p.emit(ind+1, "%s = 1", v)
			for n := 1 + p.r.Intn(3); n > 0; n-- {
				p.emit(ind, "} else if %s {", p.cond(all(), bools))
				p.emit(ind+1, "%s = %d", v, 2+n)
			}
			p.emit(ind, "} else {")
			p.emit(ind+1, "%s = 9", v)
			p.emit(ind, "}")
		case choice == 26 && len(p.generics) > 0:
			g := p.generics[p.r.Intn(len(p.generics))]
			p.emit(ind, "%s = %s(%s)", p.pickVar(vars), g, p.atom(all()))
			if p.r.Intn(2) == 0 {
				p.emit(ind, "fmt.Println(%s(%q))", g, p.fresh("s")) // a second instance
			}
		case choice == 27 && p.counter != "":
			// a method written on one line: signature (with a *T) and body share the line
			p.emit(ind, "ct.%s()", []string{"inc", "dec"}[p.r.Intn(2)])
		case choice == 28:
			// two statements on one line: one visit of the line, one stop
			p.feat["two-on-a-line"] = true
			p.emit(ind, "%s++; %s += %d", p.pickVar(vars), p.pickVar(vars), 1+p.r.Intn(3))
		case choice == 29:
			// a whole if on one line
			p.feat["one-line-if"] = true
			p.emit(ind, "if %s { %s = %d }", p.cond(all(), bools), p.pickVar(vars), p.r.Intn(9))
		case choice == 30 && inLoop:
			// the jump statement shares its line with the test
			p.emit(ind, "if %s { %s }", p.cond(all(), bools), []string{"break", "continue"}[p.r.Intn(2)])
		default:
			p.emit(ind, "%s = %s", p.pickVar(vars), p.expr(all()))
		}
	}
	if len(defined) > 0 {
		p.emit(ind, "fmt.Println(%q, %s)", p.fresh("d"), strings.Join(defined, ", "))
	}
}

func (p *pg) genHelper() {
	kind := p.r.Intn(9)
	if p.noLoops && (kind == 3 || kind == 8) {
		kind = 5
	}
	switch kind {
	case 0: // arithmetic with branches
		name := p.fresh("ari")
		p.emit(0, "func %s(a int, b int) int {", name)
		p.emit(1, "r := a")
		p.block(1, []string{"r"}, []string{"a", "b"}, nil, 1, 1+p.r.Intn(3), false)
		p.emit(1, "return r + b")
		p.emit(0, "}")
		p.helpers = append(p.helpers, helper{name, 2, 1})
	case 1: // recursion
		name := p.fresh("rec")
		p.emit(0, "func %s(n int) int {", name)
		p.emit(1, "if n <= 1 {")
		p.emit(2, "return 1")
		p.emit(1, "}")
		if p.r.Intn(2) == 0 {
			p.emit(1, "return n * %s(n-1)", name)
		} else {
			p.emit(1, "return %s(n-1) + %s(n-2)", name, name)
		}
		p.emit(0, "}")
		p.helpers = append(p.helpers, helper{name, 1, 1})
	case 2: // procedure that prints
		name := p.fresh("prt")
		p.emit(0, "func %s(a int) {", name)
		p.emit(1, "if a > 2 {")
		p.emit(2, "fmt.Println(%q, a)", name+"+")
		p.emit(2, "return")
		p.emit(1, "}")
		p.emit(1, "fmt.Println(%q, a)", name)
		p.emit(0, "}")
		p.helpers = append(p.helpers, helper{name, 1, 0})
	case 3: // loop
		name := p.fresh("sum")
		p.emit(0, "func %s(n int) int {", name)
		p.emit(1, "s := 0")
		p.emit(1, "for i := 0; i < n%%4; i++ {")
		p.emit(2, "s += i")
		p.emit(1, "}")
		p.emit(1, "return s")
		p.emit(0, "}")
		p.helpers = append(p.helpers, helper{name, 1, 1})
	case 4: // two results
		name := p.fresh("two")
		p.emit(0, "func %s(a int) (int, int) {", name)
		p.emit(1, "if a%%2 == 0 {")
		p.emit(2, "return a + 1, a * 2")
		p.emit(1, "}")
		p.emit(1, "return a, a - 1")
		p.emit(0, "}")
		p.helpers = append(p.helpers, helper{name, 1, 2})
	case 5: // early returns in both arms
		name := p.fresh("max")
		p.emit(0, "func %s(a int, b int) int {", name)
		p.emit(1, "if a > b {")
		p.emit(2, "return a")
		p.emit(1, "}")
		p.emit(1, "return b")
		p.emit(0, "}")
		p.helpers = append(p.helpers, helper{name, 2, 1})
	case 7: // a return in every arm (closures of one generator)
		name := p.fresh("sgn")
		p.emit(0, "func %s(a int) int {", name)
		p.emit(1, "if a > 3 {")
		p.emit(2, "return 1")
		p.emit(1, "} else if a > 1 {")
		p.emit(2, "return 2")
		p.emit(1, "} else {")
		p.emit(2, "return 3")
		p.emit(1, "}")
		p.emit(0, "}")
		p.helpers = append(p.helpers, helper{name, 1, 1})
	case 8: // a loop that is entered several times (one forwarding closure, many activations)
		name := p.fresh("cnt")
		p.emit(0, "func %s(n int) int {", name)
		p.emit(1, "c := 0")
		p.emit(1, "for c < n%%3 {")
		p.emit(2, "c++")
		p.emit(1, "}")
		p.emit(1, "return c")
		p.emit(0, "}")
		p.helpers = append(p.helpers, helper{name, 1, 1})
	default: // calls another helper
		if c := p.callExpr([]string{"a"}, 1); c != "" {
			name := p.fresh("via")
			p.emit(0, "func %s(a int) int {", name)
			p.emit(1, "t := %s", c)
			p.emit(1, "return t + 1")
			p.emit(0, "}")
			p.helpers = append(p.helpers, helper{name, 1, 1})
		}
	}
}

type progT struct {
	Src   string
	Lines int
	Funcs []string
	Feat  []string
}

func genProgram(r *rand.Rand) progT {
	p := &pg{r: r, feat: map[string]bool{}}
	p.noLoops = r.Intn(5) < 2
	if p.noLoops {
		p.feat["loop-free"] = true
	}
	p.emit(0, "package main")
	p.emit(0, "")
	p.emit(0, "import \"fmt\"")
	p.emit(0, "")
	for n := p.r.Intn(4); n > 0; n-- {
		p.genHelper()
		p.emit(0, "")
	}
	if p.r.Intn(3) == 0 {
		p.feat["one-line-method"] = true
		p.counter = p.fresh("ctr")
		p.emit(0, "type %s struct{ n int }", p.counter)
		p.emit(0, "")
		p.emit(0, "func (c *%s) inc() { c.n++ }", p.counter)
		p.emit(0, "func (c *%s) dec() { c.n-- }", p.counter)
		p.emit(0, "")
	}
	if p.r.Intn(8) == 0 {
		p.feat["generic"] = true
		name := p.fresh("gid")
		p.emit(0, "func %s[T any](a T) T {", name)
		p.emit(1, "return a")
		p.emit(0, "}")
		p.emit(0, "")
		p.generics = append(p.generics, name)
	}
	p.emit(0, "func main() {")
	p.emit(1, "x := %d", p.r.Intn(5))
	p.emit(1, "y := %d", 1+p.r.Intn(5))
	if p.counter != "" {
		p.emit(1, "ct := &%s{}", p.counter)
	}
	p.block(1, []string{"x", "y"}, nil, nil, 1, 3+p.r.Intn(5), false)
	p.emit(1, "fmt.Println(\"end\", x, y)")
	if p.counter != "" {
		p.emit(1, "fmt.Println(ct.n)")
	}
	switch p.r.Intn(14) {
	case 0:
		p.feat["panic"] = true
		p.emit(1, "panic(\"boom\")")
	case 1:
		p.feat["panic"] = true
		p.emit(1, "var arr []int")
		p.emit(1, "fmt.Println(arr[x%%1+3])")
	}
	p.emit(0, "}")
	out := progT{Src: strings.Join(p.lines, "\n") + "\n", Lines: len(p.lines)}
	for _, h := range p.helpers {
		out.Funcs = append(out.Funcs, h.name)
	}
	out.Funcs = append(out.Funcs, "main")
	for f := range p.feat {
		out.Feat = append(out.Feat, f)
	}
	return out
}

// ---- breakpoint sets and resume sequences ----

type bpT struct {
	Line int    `json:"line,omitempty"`
	Func string `json:"func,omitempty"`
}

func genBps(r *rand.Rand, p progT, kind int) []bpT {
	var out []bpT
	switch kind {
	case 0: // none
	case 1: // every line
		for l := 1; l <= p.Lines; l++ {
			out = append(out, bpT{Line: l})
		}
	case 2: // random lines
		for l := 1; l <= p.Lines; l++ {
			if r.Intn(4) == 0 {
				out = append(out, bpT{Line: l})
			}
		}
		if len(out) == 0 {
			out = append(out, bpT{Line: 1 + r.Intn(p.Lines)})
		}
	case 3: // function breakpoints
		for _, f := range p.Funcs {
			if r.Intn(2) == 0 {
				out = append(out, bpT{Func: f})
			}
		}
		if len(out) == 0 {
			out = append(out, bpT{Func: p.Funcs[r.Intn(len(p.Funcs))]})
		}
		if r.Intn(4) == 0 {
			out = append(out, bpT{Func: "nosuch"})
		}
	default: // mixed
		for l := 1; l <= p.Lines; l++ {
			if r.Intn(6) == 0 {
				out = append(out, bpT{Line: l})
			}
		}
		out = append(out, bpT{Func: p.Funcs[r.Intn(len(p.Funcs))]})
	}
	return out
}

// genCmds: the first command starts the session (c continue, e step-entry, i into, o over, u out);
// terminate (t) only as the last command.
func genCmds(r *rand.Rand, kind int) string {
	switch kind {
	case 0:
		return "c"
	case 1: // step into all the way
		return "e" + strings.Repeat("i", 400)
	case 2: // step over all the way
		return "e" + strings.Repeat("o", 400)
	}
	var b strings.Builder
	b.WriteByte("ceeiou"[r.Intn(6)])
	n := r.Intn(40)
	for k := 0; k < n; k++ {
		b.WriteByte("cciiioooouu"[r.Intn(11)])
	}
	switch r.Intn(10) {
	case 0:
		b.WriteByte('t')
	case 1, 2:
		b.WriteString(strings.Repeat("i", 400))
	case 3:
		b.WriteString(strings.Repeat("u", 50))
	}
	return b.String()
}
