package main

import (
	"bytes"
	"context"
	"fmt"
	"reflect"
	"strings"
	"sync"
	"sync/atomic"
	"time"

	"github.com/traefik/yaegi/interp"
	"github.com/traefik/yaegi/stdlib"
	"verif/harness/common"
)

const runTimeout = 20 * time.Second

var fmtOnly = interp.Exports{"fmt/fmt": stdlib.Symbols["fmt/fmt"]}

// outcomeT is what a run of a program produced.
type outcomeT struct {
	Stdout string
	Stderr string
	Res    string
	Err    string
	Crash  string // a Go panic that escaped the interpreter API, or a hang
}

func (o outcomeT) String() string {
	return fmt.Sprintf("stdout=%q stderr=%q res=%s err=%q crash=%q", o.Stdout, o.Stderr, o.Res, o.Err, o.Crash)
}

func showRes(v reflect.Value) string {
	if !v.IsValid() {
		return "invalid"
	}
	switch v.Kind() {
	case reflect.Int, reflect.Int64, reflect.String, reflect.Bool:
		return fmt.Sprintf("%s:%v", v.Kind(), v)
	}
	return v.Kind().String()
}

func showErr(err error) string {
	if err == nil {
		return ""
	}
	if p, ok := err.(interp.Panic); ok {
		return "panic: " + fmt.Sprint(p.Value)
	}
	return common.FirstLine(err.Error())
}

func newInterp(so, se *bytes.Buffer) (*interp.Interpreter, error) {
	i := interp.New(interp.Options{Stdout: so, Stderr: se})
	if err := i.Use(fmtOnly); err != nil {
		return nil, err
	}
	return i, nil
}

func bpRequests(bps []bpT) []interp.BreakpointRequest {
	var out []interp.BreakpointRequest
	for _, b := range bps {
		if b.Func != "" {
			out = append(out, interp.FunctionBreakpoint(b.Func))
		} else {
			out = append(out, interp.LineBreakpoint(b.Line))
		}
	}
	return out
}

// guarded runs f in a goroutine under recover and with a deadline.
func guarded(f func()) (crash string) {
	done := make(chan string, 1)
	go func() {
		defer func() {
			if r := recover(); r != nil {
				done <- "go panic: " + common.FirstLine(fmt.Sprint(r))
				return
			}
			done <- ""
		}()
		f()
	}()
	select {
	case c := <-done:
		return c
	case <-time.After(runTimeout):
		return "hang"
	}
}

// runPlain executes the program without debugger.
func runPlain(src string) (out outcomeT, compileErr string) {
	installStepHook()
	atomic.StoreInt64(&runSteps, 0)
	var so, se bytes.Buffer
	out.Crash = guarded(func() {
		i, err := newInterp(&so, &se)
		if err != nil {
			compileErr = err.Error()
			return
		}
		prog, err := i.Compile(src)
		if err != nil {
			compileErr = common.FirstLine(err.Error())
			return
		}
		res, err := i.Execute(prog)
		out.Res, out.Err = showRes(res), showErr(err)
	})
	out.Stdout, out.Stderr = so.String(), se.String()
	return out, compileErr
}

// ---- the tape: what every closure did, from an instrumented plain run ----

type itemT struct {
	Kind  byte // 'c' call, 'n' next, 'z' nil, 'p' panic
	Node  int
	Tramp bool
}

// runTrace executes the program with instrumented closures (after the same SetBreakpoints requests,
// which generate closures) and converts the enter/exit records into the tape.
func runTrace(src string, bps []bpT) (tape []itemT, out outcomeT, problem string) {
	installStepHook()
	atomic.StoreInt64(&runSteps, 0)
	var so, se bytes.Buffer
	var tr []interp.VerifC19Trace
	out.Crash = guarded(func() {
		i, err := newInterp(&so, &se)
		if err != nil {
			problem = err.Error()
			return
		}
		prog, err := i.Compile(src)
		if err != nil {
			problem = "compile: " + common.FirstLine(err.Error())
			return
		}
		if err := i.VerifC19Instrument(prog, func(t interp.VerifC19Trace) { tr = append(tr, t) }); err != nil {
			problem = "instrument: " + err.Error()
			return
		}
		if len(bps) > 0 {
			i.VerifC19SetBreakpoints(prog, bpRequests(bps)...)
		}
		res, err := i.Execute(prog)
		out.Res, out.Err = showRes(res), showErr(err)
	})
	out.Stdout, out.Stderr = so.String(), se.String()
	if problem != "" {
		return nil, out, problem
	}
	// convert
	pos := 0
	panicked := false
	var activation func() bool // returns false when the record stream is malformed
	activation = func() bool {
		for {
			if pos >= len(tr) || !tr[pos].Enter {
				return false
			}
			m := tr[pos]
			pos++
			for pos < len(tr) && tr[pos].Enter {
				tape = append(tape, itemT{Kind: 'c', Node: tr[pos].Node})
				if !activation() {
					return false
				}
				if panicked {
					return true
				}
			}
			if pos >= len(tr) || tr[pos].Node != m.Node {
				return false
			}
			x := tr[pos]
			pos++
			switch {
			case x.Panic:
				if !panicked {
					tape = append(tape, itemT{Kind: 'p'})
					panicked = true
				}
				return true
			case x.Nil:
				tape = append(tape, itemT{Kind: 'z'})
				return true
			default:
				if pos >= len(tr) || !tr[pos].Enter {
					return false
				}
				tape = append(tape, itemT{Kind: 'n', Node: tr[pos].Node, Tramp: tr[pos].Tramp})
			}
		}
	}
	for pos < len(tr) && !panicked {
		if !tr[pos].Enter {
			return nil, out, "trace: unexpected end record at top level"
		}
		tape = append(tape, itemT{Kind: 'c', Node: tr[pos].Node})
		if !activation() {
			lo, hi := pos-6, pos+4
			if lo < 0 {
				lo = 0
			}
			if hi > len(tr) {
				hi = len(tr)
			}
			return nil, out, fmt.Sprintf("trace: malformed record stream at %d of %d: %+v", pos, len(tr), tr[lo:hi])
		}
	}
	if !panicked {
		tape = append(tape, itemT{Kind: 'z'})
	}
	return tape, out, ""
}

// ---- a debug session on the real Debugger ----

type eventT struct {
	Reason string
	Line   int
	Step   int64
}

func (e eventT) String() string { return fmt.Sprintf("%s:%d:%d", e.Reason, e.Line, e.Step) }

var reasonNames = map[interp.DebugEventReason]string{
	interp.DebugPause: "pause", interp.DebugBreak: "brk", interp.DebugEntry: "entry", interp.DebugStepInto: "into",
	interp.DebugStepOver: "over", interp.DebugStepOut: "out", interp.DebugTerminate: "terminate",
	interp.DebugEnterGoRoutine: "enterG", interp.DebugExitGoRoutine: "exitG",
}

func isStop(r string) bool {
	switch r {
	case "pause", "brk", "entry", "into", "over", "out":
		return true
	}
	return false
}

type sessionT struct {
	Out      outcomeT
	Events   []eventT // every event delivered to the callback, in order
	BpValid  []bool
	BpLines  []int
	Dump     []interp.VerifC19Node
	Problem  string // harness-side trouble (compile error, …)
	CmdsUsed int
	BpCrash  bool // the Go panic (or hang) happened inside SetBreakpoints
}

var stepCount int64
var hookOnce sync.Once

// runSteps counts the closures executed since the start of the current run (plain, instrumented or debug);
// a run that exceeds stepBudget is aborted by a Go panic (a generated program that does not terminate must
// not fill the memory with its tape).
var runSteps int64

const stepBudget = 3_000_000

func installStepHook() {
	hookOnce.Do(func() {
		interp.VerifSetStepHook(func(interp.VerifStepInfo) {
			atomic.AddInt64(&stepCount, 1)
			if atomic.AddInt64(&runSteps, 1) > stepBudget {
				panic("C19 harness: step budget exceeded")
			}
		})
	})
}

// runDebug executes the program through the Debugger: SetBreakpoints before the start, then one
// command of cmds per stop (Continue when the list is exhausted).
func runDebug(src string, bps []bpT, cmds string) (s sessionT) {
	installStepHook()
	var so, se bytes.Buffer
	var mu sync.Mutex
	s.Out.Crash = guarded(func() {
		i, err := newInterp(&so, &se)
		if err != nil {
			s.Problem = err.Error()
			return
		}
		prog, err := i.Compile(src)
		if err != nil {
			s.Problem = "compile: " + common.FirstLine(err.Error())
			return
		}
		atomic.StoreInt64(&stepCount, 0)
		atomic.StoreInt64(&runSteps, 0)
		evc := make(chan eventT, 1<<16)
		dbg := i.Debug(context.Background(), prog, func(e *interp.DebugEvent) {
			ev := eventT{Reason: reasonNames[e.Reason()], Step: atomic.LoadInt64(&stepCount)}
			func() {
				defer func() {
					if r := recover(); r != nil {
						ev.Line = -2
					}
				}()
				if isStop(ev.Reason) {
					if fr := e.Frames(0, 1); len(fr) > 0 {
						ev.Line = fr[0].Position().Line
					} else {
						ev.Line = -1
					}
				}
			}()
			mu.Lock()
			s.Events = append(s.Events, ev)
			mu.Unlock()
			evc <- ev
		}, nil)
		if len(bps) > 0 {
			s.BpCrash = true
			for _, b := range dbg.SetBreakpoints(interp.ProgramBreakpointTarget(prog), bpRequests(bps)...) {
				s.BpValid = append(s.BpValid, b.Valid)
				s.BpLines = append(s.BpLines, b.Position.Line)
			}
			s.BpCrash = false
		}
		ci := 0
		terminated := false
		send := func() bool {
			c := byte('c')
			if ci < len(cmds) {
				c = cmds[ci]
				ci++
			}
			deadline := time.Now().Add(5 * time.Second)
			for {
				var err error
				switch c {
				case 'c':
					err = dbg.Continue(0)
				case 'e':
					err = dbg.Step(0, interp.DebugEntry)
				case 'i':
					err = dbg.Step(0, interp.DebugStepInto)
				case 'o':
					err = dbg.Step(0, interp.DebugStepOver)
				case 'u':
					err = dbg.Step(0, interp.DebugStepOut)
				case 'p':
					err = dbg.Step(0, interp.DebugPause)
				case 't':
					dbg.Terminate()
					terminated = true
				}
				if err == nil {
					return true
				}
				if err != interp.ErrRunning || time.Now().After(deadline) {
					s.Problem = fmt.Sprintf("command %c: %v", c, err)
					return false
				}
				time.Sleep(20 * time.Microsecond)
			}
		}
		if !send() {
			dbg.Terminate()
			return
		}
		timeout := time.After(runTimeout - 2*time.Second)
	loop:
		for {
			select {
			case ev := <-evc:
				if ev.Reason == "terminate" {
					break loop
				}
				if isStop(ev.Reason) && !terminated {
					if !send() {
						dbg.Terminate()
						terminated = true
					}
				}
			case <-timeout:
				s.Problem = "session timeout"
				dbg.Terminate()
				break loop
			}
		}
		s.CmdsUsed = ci
		res, err := dbg.Wait()
		s.Out.Res, s.Out.Err = showRes(res), showErr(err)
		s.Dump = i.VerifC19Dump(prog)
	})
	mu.Lock()
	defer mu.Unlock()
	s.Out.Stdout, s.Out.Stderr = so.String(), se.String()
	return s
}

func joinEvents(es []eventT) string {
	if len(es) == 0 {
		return "-"
	}
	parts := make([]string, len(es))
	for i, e := range es {
		parts[i] = e.String()
	}
	return strings.Join(parts, ",")
}
