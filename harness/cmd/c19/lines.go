package main

import (
	"fmt"
	"go/ast"
	"go/parser"
	"go/token"
	"sort"
	"strings"

	"github.com/traefik/yaegi/interp"
)

// ---- line-level reference for line breakpoints (go/parser reading of the program + the tape) ----
//
// The node-level property (a marked node that executes is reported) takes the marks SetBreakpoints
// makes for granted. What a *line* request should mean is read off the source instead:
//
//	validity: a request on a line where a statement begins is valid;
//	visits:   every visit of a requested line is reported. A visit is a maximal run of consecutively
//	          executed nodes of one runCfg activation that lie on the line (activations of callees in
//	          between do not end it; nodes without position or without action — the join nodes of
//	          compound statements — are transparent); it is reported when the
//	          debugger stops with reason break before one of its nodes.

type stmtT struct {
	Kind string // assign incdec expr return return0 branch if for0 forc for3 range switch switch0 switchid typeswitch select decl go defer send case case0
}

// stmtLines maps a line to the kind of the first (outermost) statement that begins on it, inside function bodies.
func stmtLines(src string) (map[int]string, bool) {
	fset := token.NewFileSet()
	f, err := parser.ParseFile(fset, "p.go", src, 0)
	if err != nil {
		return nil, false
	}
	out := map[int]string{}
	oneLine := map[int]bool{} // lines that hold a function signature and the first statement of its body
	sameLine := func(typ *ast.FuncType, body *ast.BlockStmt) {
		if typ != nil && body != nil && len(body.List) > 0 && fset.Position(typ.Pos()).Line == fset.Position(body.List[0].Pos()).Line {
			oneLine[fset.Position(typ.Pos()).Line] = true
		}
	}
	defer func() {
		for l := range oneLine {
			if out[l] != "" {
				out[l] = "onelinefunc"
			}
		}
	}()
	ast.Inspect(f, func(n ast.Node) bool {
		switch x := n.(type) {
		case *ast.FuncDecl:
			sameLine(x.Type, x.Body)
		case *ast.FuncLit:
			sameLine(x.Type, x.Body)
		}
		st, ok := n.(ast.Stmt)
		if !ok {
			return true
		}
		kind := ""
		switch x := st.(type) {
		case *ast.AssignStmt:
			kind = "assign"
		case *ast.IncDecStmt:
			kind = "incdec"
		case *ast.ExprStmt:
			kind = "expr"
		case *ast.ReturnStmt:
			kind = "return"
			if len(x.Results) == 0 {
				kind = "return0"
			}
		case *ast.BranchStmt:
			kind = "branch"
		case *ast.IfStmt:
			kind = "if"
		case *ast.ForStmt:
			switch {
			case x.Init != nil || x.Post != nil:
				kind = "for3"
			case x.Cond != nil:
				kind = "forc"
			default:
				kind = "for0" // nothing is evaluated on the line of `for {`
			}
		case *ast.RangeStmt:
			kind = "range"
		case *ast.SwitchStmt:
			kind = "switch"
			if x.Init == nil && x.Tag == nil {
				kind = "switch0" // nothing is evaluated on the line of `switch {`
			}
			if x.Init == nil && x.Tag != nil {
				switch x.Tag.(type) {
				case *ast.Ident, *ast.BasicLit:
					kind = "switchid" // the tag is a plain operand: no closure is generated for it
				}
			}
			if x.Tag == nil {
				for _, cl := range x.Body.List {
					if cc, ok := cl.(*ast.CaseClause); ok && len(cc.List) > 0 {
						if l := fset.Position(cc.Pos()).Line; out[l] == "" {
							out[l] = "case0" // `case cond:` of a switch without tag
						}
					}
				}
			}
		case *ast.TypeSwitchStmt:
			kind = "typeswitch"
		case *ast.SelectStmt:
			kind = "select"
		case *ast.GoStmt:
			kind = "go"
		case *ast.DeferStmt:
			kind = "defer"
		case *ast.SendStmt:
			kind = "send"
		case *ast.DeclStmt:
			if gd, ok := x.Decl.(*ast.GenDecl); ok && gd.Tok == token.VAR {
				for _, sp := range gd.Specs {
					if vs, ok := sp.(*ast.ValueSpec); ok && len(vs.Values) > 0 {
						kind = "decl"
					}
				}
			}
		case *ast.CaseClause:
			if len(x.List) > 0 {
				kind = "case"
			}
		}
		if kind != "" {
			l := fset.Position(st.Pos()).Line
			if _, seen := out[l]; !seen {
				out[l] = kind
			}
		}
		return true
	})
	return out, true
}

// hasGenericFunc: the program declares a function with type parameters.
func hasGenericFunc(src string) bool {
	fset := token.NewFileSet()
	f, err := parser.ParseFile(fset, "p.go", src, 0)
	if err != nil {
		return false
	}
	for _, d := range f.Decls {
		if fd, ok := d.(*ast.FuncDecl); ok && fd.Type.TypeParams != nil && len(fd.Type.TypeParams.List) > 0 {
			return true
		}
	}
	return false
}

func hasLineRequest(bps []bpT) bool {
	for _, b := range bps {
		if b.Func == "" {
			return true
		}
	}
	return false
}

// jumpKind: a statement for which no closure is generated (a pure edge of the control-flow graph).
func jumpKind(kind string) bool { return kind == "branch" || kind == "return0" }

// invalidStatementLines: the requested lines where a statement of the kinds the validity rule covers begins
// and the request came back invalid; by class of the input line.
func invalidStatementLines(kinds map[int]string, bps []bpT, valid []bool) map[string][]int {
	out := map[string][]int{}
	k := 0
	for _, b := range bps {
		if b.Func != "" {
			k++
			continue
		}
		ok := k < len(valid) && valid[k]
		k++
		kind := kinds[b.Line]
		if kind == "" || kind == "case" || kind == "case0" || kind == "switch0" || kind == "for0" || ok {
			continue
		}
		class := "bp-invalid-on-" + kind + "-line"
		switch {
		case jumpKind(kind):
			class = "bp-on-jump-statement-line"
		case kind == "switchid":
			class = "bp-on-switch-with-plain-tag-line"
		}
		out[class] = append(out[class], b.Line)
	}
	return out
}

// unreportedVisits: for every requested line that is valid, the visits (see above) during which the debugger
// made no break stop; by class of the input line. Returns also the number of visits looked at.
func unreportedVisits(dump []interp.VerifC19Node, kinds map[int]string, bps []bpT, valid []bool, tape []itemT, stops []eventT) (out map[string][]string, visits, late int) {
	want := map[int]bool{}
	k := 0
	for _, b := range bps {
		if b.Func == "" && k < len(valid) && valid[k] {
			want[b.Line] = true
		}
		k++
	}
	out = map[string][]string{}
	if len(want) == 0 {
		return out, 0, 0
	}
	brkAt := map[int64]bool{}
	for _, e := range stops {
		if e.Reason == "brk" {
			brkAt[e.Step] = true
		}
	}
	type act struct {
		line     int  // line of the last positioned node executed in this activation (0: none yet)
		reported bool // the current visit has a break stop
		from     int64
	}
	var stack []*act
	missing := map[int][]int64{}
	panicked := map[int][]int64{} // visits that end with the panic of the program
	closeVisit := func(a *act, byPanic bool) {
		if a.line != 0 && want[a.line] {
			visits++
			switch {
			case a.reported:
			case byPanic:
				panicked[a.line] = append(panicked[a.line], a.from)
			default:
				missing[a.line] = append(missing[a.line], a.from)
			}
		}
	}
	var step int64
	exec := func(a *act, node int) {
		n := dump[node]
		if n.PosValid && n.Action != "nop" {
			if n.Line != a.line {
				closeVisit(a, false)
				a.line, a.reported, a.from = n.Line, false, step
			}
			if brkAt[step] {
				if !a.reported && a.from != step && want[a.line] {
					late++ // the stop comes after nodes of the line have executed
				}
				a.reported = true
			}
		}
		step++
	}
	for _, it := range tape {
		switch it.Kind {
		case 'c':
			if dump[it.Node].Code == 0 {
				continue
			}
			a := &act{}
			stack = append(stack, a)
			exec(a, it.Node)
		case 'n':
			if len(stack) > 0 {
				exec(stack[len(stack)-1], it.Node)
			}
		case 'z':
			if len(stack) > 0 {
				closeVisit(stack[len(stack)-1], false)
				stack = stack[:len(stack)-1]
			}
		case 'p':
			for i := len(stack) - 1; i >= 0; i-- {
				closeVisit(stack[i], true)
			}
			stack = nil
		}
	}
	var lines []int
	for l := range missing {
		lines = append(lines, l)
	}
	sort.Ints(lines)
	for _, l := range lines {
		kind := kinds[l]
		class := "bp-visit-unreported-on-" + kind + "-line"
		switch kind {
		case "for3":
			class = "bp-on-for-clause-line"
		case "case0":
			class = "bp-on-tagless-case-line"
		case "onelinefunc":
			class = "bp-on-line-of-function-signature"
		case "":
			class = "bp-visit-unreported-on-continuation-line"
		}
		var at []string
		for _, s := range missing[l] {
			at = append(at, fmt.Sprint(s))
		}
		out[class] = append(out[class], fmt.Sprintf("%d@%s", l, strings.Join(at, "/")))
	}
	lines = lines[:0]
	for l := range panicked {
		lines = append(lines, l)
	}
	sort.Ints(lines)
	for _, l := range lines {
		// decidable on the input: the plain run panics while a requested line is being visited
		out["bp-line-panics-before-stop"] = append(out["bp-line-panics-before-stop"], fmt.Sprintf("%d@%d", l, panicked[l][0]))
	}
	return out, visits, late
}
