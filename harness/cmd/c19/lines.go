package main

import (
	"go/ast"
	"go/parser"
	"go/token"
	"strings"
)

// ---- line-level reference for line breakpoints (go/parser reading of the program + the tape) ----
//
// The node-level property (a marked node that executes is reported) takes the marks SetBreakpoints
// makes for granted. What a *line* request should mean is read off the source instead:
//
//	validity: a request on a line where a statement begins that evaluates something is valid (`switch {`,
//	          `for {`, a condition made of constants, labels, `default:`, `func f() {` evaluate nothing);
//	          so is a request on a line on which a step of the program executes during the run (main.go);
//	stops:    one break stop each time an activation enters a requested line, before anything on the
//	          line runs: this is the reference debugger of ref.go.

type stmtT struct {
	Kind string // assign incdec expr return return0 branch if for0 forc for3 range switch switch0 switchid typeswitch select decl go defer send case case0
}

// stmtLines maps a line to the kind of the first (outermost) statement that begins on it, inside function bodies.
func stmtLines(src string) (map[int]string, bool) {
	fset := token.NewFileSet()
	f, err := parser.ParseFile(fset, "p.go", src, 0)
	if err != nil {
		return nil, false
	}
	out := map[int]string{}
	oneLine := map[int]bool{} // lines that hold a function signature and the first statement of its body
	sameLine := func(typ *ast.FuncType, body *ast.BlockStmt) {
		if typ != nil && body != nil && len(body.List) > 0 && fset.Position(typ.Pos()).Line == fset.Position(body.List[0].Pos()).Line {
			oneLine[fset.Position(typ.Pos()).Line] = true
		}
	}
	defer func() {
		for l := range oneLine {
			if out[l] != "" {
				out[l] = "onelinefunc"
			}
		}
	}()
	// Statements under a condition that folds to a constant may be dead code, for which nothing is generated
	// (as in compiled Go): the lines of such a statement are left out of the validity rule.
	unsure := map[int]bool{}
	exclude := func(n ast.Node) {
		for l := fset.Position(n.Pos()).Line; l <= fset.Position(n.End()).Line; l++ {
			unsure[l] = true
		}
	}
	genericMethod := map[int]bool{}
	defer func() {
		for l := range unsure {
			delete(out, l)
		}
		for l := range genericMethod {
			if out[l] != "" {
				out[l] = "gm:" + out[l]
			}
		}
	}()
	ast.Inspect(f, func(n ast.Node) bool {
		switch x := n.(type) {
		case *ast.FuncDecl:
			sameLine(x.Type, x.Body)
			if x.Recv != nil && len(x.Recv.List) == 1 && x.Body != nil {
				t := x.Recv.List[0].Type
				if st, ok := t.(*ast.StarExpr); ok {
					t = st.X
				}
				switch t.(type) {
				case *ast.IndexExpr, *ast.IndexListExpr:
					// a method of a generic type (the receiver names its type parameters)
					for l := fset.Position(x.Body.Pos()).Line; l <= fset.Position(x.Body.End()).Line; l++ {
						genericMethod[l] = true
					}
				}
			}
			if x.Type.TypeParams != nil && len(x.Type.TypeParams.List) > 0 {
				exclude(x) // a template: only its instances execute (the executed-line rule covers them)
			}
		case *ast.FuncLit:
			sameLine(x.Type, x.Body)
		case *ast.BlockStmt:
			// a jump under a constant test makes the rest of the block dead as well
			for _, st := range x.List {
				if is, ok := st.(*ast.IfStmt); ok && hasConstantTest(is.Cond) {
					for l := fset.Position(st.Pos()).Line; l <= fset.Position(x.End()).Line; l++ {
						unsure[l] = true
					}
					break
				}
			}
		case *ast.IfStmt:
			if hasConstantTest(x.Cond) {
				exclude(x)
			}
		case *ast.ForStmt:
			if x.Cond != nil && hasConstantTest(x.Cond) {
				exclude(x)
			}
		case *ast.SwitchStmt:
			if x.Tag == nil {
				for _, cl := range x.Body.List {
					for _, e := range cl.(*ast.CaseClause).List {
						if hasConstantTest(e) {
							exclude(x)
						}
					}
				}
			}
		}
		st, ok := n.(ast.Stmt)
		if !ok {
			return true
		}
		kind := ""
		switch x := st.(type) {
		case *ast.AssignStmt:
			kind = "assign"
		case *ast.IncDecStmt:
			kind = "incdec"
		case *ast.ExprStmt:
			kind = "expr"
		case *ast.ReturnStmt:
			kind = "return"
			if len(x.Results) == 0 {
				kind = "return0"
			}
		case *ast.BranchStmt:
			kind = "branch"
		case *ast.IfStmt:
			kind = "if"
			if x.Init == nil && constantExpr(x.Cond) {
				kind = "if0" // the condition is folded: nothing is evaluated on the line
			}
		case *ast.ForStmt:
			switch {
			case x.Init != nil || x.Post != nil:
				kind = "for3"
			case x.Cond != nil:
				kind = "forc"
			default:
				kind = "for0" // nothing is evaluated on the line of `for {`
			}
		case *ast.RangeStmt:
			kind = "range"
		case *ast.SwitchStmt:
			kind = "switch"
			if x.Init == nil && x.Tag == nil {
				kind = "switch0" // nothing is evaluated on the line of `switch {`
			}
			if x.Init == nil && x.Tag != nil {
				switch x.Tag.(type) {
				case *ast.Ident, *ast.BasicLit:
					kind = "switchid" // the tag is a plain operand: no closure is generated for it
				}
			}
			if x.Tag == nil {
				for _, cl := range x.Body.List {
					if cc, ok := cl.(*ast.CaseClause); ok && len(cc.List) > 0 {
						if l := fset.Position(cc.Pos()).Line; out[l] == "" {
							out[l] = "case0" // `case cond:` of a switch without tag
						}
					}
				}
			}
		case *ast.TypeSwitchStmt:
			kind = "typeswitch"
		case *ast.SelectStmt:
			kind = "select"
		case *ast.GoStmt:
			kind = "go"
		case *ast.DeferStmt:
			kind = "defer"
		case *ast.SendStmt:
			kind = "send"
		case *ast.DeclStmt:
			if gd, ok := x.Decl.(*ast.GenDecl); ok && gd.Tok == token.VAR {
				for _, sp := range gd.Specs {
					if vs, ok := sp.(*ast.ValueSpec); ok && len(vs.Values) > 0 {
						kind = "decl"
					}
				}
			}
		case *ast.CaseClause:
			if len(x.List) > 0 {
				kind = "case"
			}
		}
		if kind != "" {
			l := fset.Position(st.Pos()).Line
			if _, seen := out[l]; !seen {
				out[l] = kind
			}
		}
		return true
	})
	return out, true
}

// constantExpr: the expression mentions no variable and no call (literals, true/false and operators only).
func constantExpr(e ast.Expr) bool {
	c := true
	ast.Inspect(e, func(n ast.Node) bool {
		switch x := n.(type) {
		case *ast.Ident:
			if x.Name != "true" && x.Name != "false" {
				c = false
			}
		case *ast.CallExpr, *ast.FuncLit, *ast.CompositeLit:
			c = false
		}
		return c
	})
	return c
}

// hasConstantTest: the condition is, or contains as an operand of && or ||, an expression made of constants.
func hasConstantTest(e ast.Expr) bool {
	if constantExpr(e) {
		return true
	}
	switch x := e.(type) {
	case *ast.ParenExpr:
		return hasConstantTest(x.X)
	case *ast.UnaryExpr:
		return hasConstantTest(x.X)
	case *ast.BinaryExpr:
		if x.Op == token.LAND || x.Op == token.LOR {
			return hasConstantTest(x.X) || hasConstantTest(x.Y)
		}
	}
	return false
}

// hasGenericFunc: the program declares a function with type parameters.
func hasGenericFunc(src string) bool {
	fset := token.NewFileSet()
	f, err := parser.ParseFile(fset, "p.go", src, 0)
	if err != nil {
		return false
	}
	for _, d := range f.Decls {
		if fd, ok := d.(*ast.FuncDecl); ok && fd.Type.TypeParams != nil && len(fd.Type.TypeParams.List) > 0 {
			return true
		}
	}
	return false
}

func hasLineRequest(bps []bpT) bool {
	for _, b := range bps {
		if b.Func == "" {
			return true
		}
	}
	return false
}

// jumpKind: a statement for which no closure is generated (a pure edge of the control-flow graph).
func jumpKind(kind string) bool { return kind == "branch" || kind == "return0" }

// invalidStatementLines: the requested lines where a statement of the kinds the validity rule covers begins
// and the request came back invalid; by class of the input line.
func invalidStatementLines(kinds map[int]string, bps []bpT, valid []bool) map[string][]int {
	out := map[string][]int{}
	k := 0
	for _, b := range bps {
		if b.Func != "" {
			k++
			continue
		}
		ok := k < len(valid) && valid[k]
		k++
		kind := kinds[b.Line]
		if kind == "" || kind == "case" || kind == "case0" || kind == "switch0" || kind == "for0" || kind == "if0" || ok {
			continue
		}
		class := "bp-invalid-on-" + kind + "-line"
		switch {
		case strings.HasPrefix(kind, "gm:"):
			class = "bp-in-method-of-generic-type"
		case jumpKind(kind):
			class = "bp-on-jump-statement-line"
		case kind == "switchid":
			class = "bp-on-switch-with-plain-tag-line"
		}
		out[class] = append(out[class], b.Line)
	}
	return out
}
