package main

// Seeded generator of Go packages exercising every kind of package-level declaration.
// It only has to produce valid Go: what the package "is" is read back with go/types.

import (
	"fmt"
	"math/big"
	"math/rand"
	"sort"
	"strconv"
	"strings"
)

// job is one package handed to the extractor.
type job struct {
	Mode       string            `json:"mode"`        // std | module | relative
	ImportPath string            `json:"import_path"` // std: path in GOROOT; otherwise gen.test/<dir>
	Dir        string            `json:"dir,omitempty"`
	Files      map[string]string `json:"files,omitempty"`
	Dest       string            `json:"dest"`
	Tags       []string          `json:"tags,omitempty"`
	// a second package with the same declarations whose import path differs in punctuation only; its
	// wrapper is generated into the same destination package
	Sibling *job `json:"sibling,omitempty"`
}

// helper packages of the generated module (fixed).
var helperPkgs = map[string]map[string]string{
	"h1/tpl": {"t.go": "package tpl\n\ntype T struct{ A int }\n\ntype R interface{ Read([]byte) (int, error) }\n"},
	"h2/tpl": {"t.go": "package tpl\n\ntype T int\n"},
	"internal/it": {"t.go": "package it\n\ntype T struct{ X int }\n"},
	"h3/other": {"t.go": "package other\n\ntype U[T any] struct{ V T }\n\ntype S []int\n\ntype E interface{}\n\ntype Fn func(int) string\n"},
	// far is imported by mid only: the methods of mid's interfaces mention its types, and a package that
	// embeds (or renames) one of them inherits a method whose types come from a package it does not import
	"h4/far": {"t.go": "package far\n\ntype Conn interface{ Close() error }\n\ntype Buf struct{ B []byte }\n\ntype Mode int\n"},
	"h5/mid": {"t.go": "package mid\n\nimport \"gen.test/h4/far\"\n\ntype Mode int\n\ntype Taker interface {\n\tTake(m Mode) (far.Conn, *far.Buf, error)\n}\n\ntype Fetcher interface {\n\tFetch(k string, ms ...far.Mode) far.Buf\n}\n\ntype Both interface {\n\tTaker\n\tFetcher\n}\n"},
}

type tyGen struct {
	r        *rand.Rand
	own      []string // exported own types usable in type expressions
	ownUnexp []string
	used     map[string]bool // import clauses needed
	rare     int             // 1/rare chance of the exotic choices (the classes of the findings still open)
	odd      int             // 1/odd chance of the unusual shapes that lie inside the domain (repaired findings)
}

var importClause = map[string]string{
	"io":      `"io"`,
	"reflect": `"reflect"`,
	"unsafe":  `"unsafe"`,
	"tpl":     `"gen.test/h1/tpl"`,
	"tpl2":    `tpl2 "gen.test/h2/tpl"`,
	"it":      `"gen.test/internal/it"`,
	"other":   `"gen.test/h3/other"`,
	"mid":     `"gen.test/h5/mid"`,
	"http":    `"net/http"`,
}

func (g *tyGen) use(p, t string) string {
	g.used[p] = true
	return t
}

func (g *tyGen) basic() string {
	return pick(g.r, []string{"int", "string", "bool", "byte", "rune", "float64", "error", "uint8", "int64", "complex128", "uintptr", "any", "interface{}", "uint", "float32"})
}

func (g *tyGen) typ(depth int) string {
	r := g.r
	if depth <= 0 {
		return g.basic()
	}
	switch r.Intn(26) {
	case 0, 1, 2, 3, 4, 5:
		return g.basic()
	case 6:
		return "[]" + g.typ(depth-1)
	case 7:
		return fmt.Sprintf("[%d]%s", r.Intn(4), g.typ(depth-1))
	case 8:
		return "map[" + pick(r, []string{"string", "int", "rune", "[2]int"}) + "]" + g.typ(depth-1)
	case 9:
		return "*" + g.typ(depth-1)
	case 10:
		return pick(r, []string{"chan ", "<-chan ", "chan<- "}) + g.typ(depth-1)
	case 11:
		switch r.Intn(4) {
		case 0:
			return "func()"
		case 1:
			return "func(" + g.typ(depth-1) + ") " + g.typ(depth-1)
		case 2:
			return "func(x " + g.typ(depth-1) + ", ys ..." + g.typ(depth-1) + ") (int, error)"
		default:
			return "func(..." + g.typ(depth-1) + ")"
		}
	case 12:
		switch r.Intn(3) {
		case 0:
			return "struct{}"
		case 1:
			if g.r.Intn(g.rare) == 0 {
				return "struct{ A " + g.typ(depth-1) + "; b int }"
			}
			return "struct{ A " + g.typ(depth-1) + "; B int }"
		default:
			return "struct{ X, Y " + g.typ(depth-1) + " `json:\"x\"` }"
		}
	case 13:
		return pick(r, []string{"interface{ M() int }", "interface{ Close() error }", "interface{ error }"})
	case 14, 15:
		return g.use("io", pick(r, []string{"io.Reader", "io.Writer", "*io.PipeReader", "io.ReadWriteCloser"}))
	case 16:
		return g.use("reflect", pick(r, []string{"reflect.Value", "reflect.Type", "reflect.Kind"}))
	case 17:
		return g.use("unsafe", "unsafe.Pointer")
	case 18, 19, 20:
		if len(g.own) > 0 {
			return pick(r, g.own)
		}
		return g.basic()
	case 21:
		return g.use("tpl", pick(r, []string{"tpl.T", "*tpl.T", "tpl.R"}))
	case 22:
		return g.use("other", pick(r, []string{"other.U[int]", "other.S", "other.E", "other.Fn", "*other.U[string]"}))
	case 23:
		if r.Intn(g.rare) == 0 && len(g.ownUnexp) > 0 {
			return pick(r, g.ownUnexp)
		}
		return g.basic()
	case 24:
		if r.Intn(g.rare) == 0 {
			return g.use("tpl2", "tpl2.T")
		}
		return g.basic()
	default:
		if r.Intn(g.rare) == 0 {
			return g.use("it", "it.T")
		}
		return g.basic()
	}
}

func pick(r *rand.Rand, xs []string) string { return xs[r.Intn(len(xs))] }

func randBig(r *rand.Rand, bits int) *big.Int {
	n := new(big.Int).Lsh(big.NewInt(1), uint(bits))
	n.Add(n, big.NewInt(int64(r.Intn(1000))-500))
	if r.Intn(3) == 0 {
		n.Neg(n)
	}
	return n
}

func randBytes(r *rand.Rand) string {
	n := r.Intn(12)
	if r.Intn(8) == 0 {
		// long strings: lengths around and well beyond the 70-character limit of constant.Value.String
		n = []int{60, 69, 70, 71, 72, 100, 128, 300}[r.Intn(8)] + r.Intn(3)
	}
	b := make([]byte, n)
	for i := range b {
		switch r.Intn(6) {
		case 0:
			b[i] = byte(r.Intn(256))
		case 1:
			b[i] = "\"\\\n\t`'\x00\x7f"[r.Intn(8)]
		default:
			b[i] = byte(32 + r.Intn(95))
		}
	}
	s := string(b)
	if r.Intn(5) == 0 {
		s += pick(r, []string{"é", "日本", " ", "\U0001F600", "\xff\xfe"})
	}
	return s
}

// constExpr returns an initialiser of an untyped or typed constant.
func constExpr(r *rand.Rand, ownInt, ownUnexpInt string) (typ, expr string) {
	switch r.Intn(30) {
	case 0:
		return "", fmt.Sprint(r.Intn(2000) - 1000)
	case 1:
		return "", randBig(r, 20+r.Intn(300)).String()
	case 2:
		return "", fmt.Sprintf("1 << %d", r.Intn(200))
	case 3:
		return "", pick(r, []string{"0x7fffffffffffffff", "-0x8000000000000000", "0xffffffffffffffff", "1<<64", "0", "-1", "0b1011", "0o777", "1_000_000"})
	case 4, 5:
		// dyadic floats
		return "", pick(r, []string{"0.5", "1.25", "3.0", "2.0", "1e3", "-0.375", "0x1p-30", "0x1.8p100", "1.0 / 1024", "0x1p-1074",
			"0x1.fffffffffffffp1023", "1<<70 + 0.5", "0.0", "6.25e2", "0x1p-200", "123456789.0", "0x1.123456789abcdefp-70", "1 / 4.0", "340282346638528859811704183484516925440.0"})
	case 6:
		return "", fmt.Sprintf("%d.0 / %d", r.Intn(1<<20)-(1<<19), 1<<uint(r.Intn(60)))
	case 7, 8:
		// non-dyadic floats
		return "", pick(r, []string{"0.1", "1.0 / 3", "3.14159265358979323846264338327950288419716939937510582097494459", "1e-7", "2.71828182845904523536028747135266249775724709369995957496696763",
			"1e100 / 3", "-0.7", "1e23", "0.3", "1.1", "100.0 / 7", "1e-320", "4.940656458412465441765687928682213723651e-324 / 3", "1.7976931348623157e308 * 1.1"})
	case 9:
		return "", fmt.Sprintf("%d.0 / %d", r.Intn(1000)+1, 2*r.Intn(500)+3)
	case 10:
		return "", pick(r, []string{"1e400", "1e-400", "1e2000", "1e-2000", "1e1233", "0x1p4000", "0x1p5000", "0x1p-5000"})
	case 11, 12:
		return "", pick(r, []string{"'a'", "'\\n'", "'\\x00'", "'\\u00e9'", "'\\U0001F600'", "'\\''", "'a' + 1", "'z' - 'a'", "'\\\\'"})
	case 13, 14, 15:
		if r.Intn(4) == 0 {
			s := strings.ReplaceAll(randBytes(r), "`", "")
			s = strings.ToValidUTF8(strings.ReplaceAll(s, "\r", ""), "?")
			s = strings.ReplaceAll(s, "\x00", "0")
			return "", "`" + s + "`"
		}
		if r.Intn(4) == 0 {
			return "", strconv.Quote(randBytes(r)) + " + " + strconv.Quote(randBytes(r))
		}
		return "", strconv.Quote(randBytes(r))
	case 16:
		return "", pick(r, []string{"true", "false", "1 < 2", "\"a\" == \"b\"", "!true"})
	case 17:
		return "", pick(r, []string{"1i", "1 + 2i", "0.1i", "-3.5 + 0x1p-3i", "1e400i", "(1 + 2i) * (3 - 1i)", "2i * 2i", "0i", "1<<2000 + 1i",
			"0x1p-5000 - 0x1p4000i", "1e400 + 1e-400i", "0.5i", "-2.25 - 1024i", "1.0 / 3 + 2i", "1e1233i * 1e-1233"})
	case 18:
		return "int8", fmt.Sprint(r.Intn(256) - 128)
	case 19:
		return "uint64", pick(r, []string{"1 << 63", "0", "18446744073709551615"})
	case 20:
		return pick(r, []string{"float32", "float64"}), pick(r, []string{"0.1", "1.5", "1e30", "-2"})
	case 21:
		return "string", strconv.Quote(randBytes(r))
	case 22:
		return "bool", pick(r, []string{"true", "false"})
	case 23:
		return pick(r, []string{"rune", "byte", "uintptr", "int", "uint16"}), pick(r, []string{"'x'", "7", "0"})
	case 24:
		return "complex128", pick(r, []string{"1i", "2", "0.5 + 0.25i"})
	case 25, 26:
		if ownInt != "" {
			return ownInt, fmt.Sprint(r.Intn(10))
		}
		return "int", "1"
	case 27:
		if ownUnexpInt != "" {
			return ownUnexpInt, fmt.Sprint(r.Intn(10))
		}
		return "int64", "-1"
	default:
		return "", fmt.Sprint(r.Int63())
	}
}

type nameGen struct {
	r    *rand.Rand
	used map[string]bool
}

func (n *nameGen) fresh(prefix string, exported bool) string {
	for i := 0; ; i++ {
		s := prefix + fmt.Sprint(n.r.Intn(90)+i)
		if n.r.Intn(25) == 0 {
			s = pick(n.r, []string{"Ärger", "Ωmega", "Élan", "Z_", "X_y", "A", "ID", "URL2"}) + fmt.Sprint(i)
			if !exported {
				s = pick(n.r, []string{"ärger", "_hidden", "ωmega", "x_y", "_"}) + fmt.Sprint(i)
			}
		} else if !exported {
			s = strings.ToLower(prefix[:1]) + prefix[1:] + fmt.Sprint(n.r.Intn(90)+i)
		}
		if !n.used[s] && s != "_0" {
			n.used[s] = true
			return s
		}
	}
}

func (g *tyGen) params(n int, style int, variadic bool) string {
	// style: 0 unnamed, 1 named, 2 named with a blank, 3 grouped names
	var ps []string
	names := []string{"a", "b", "c", "d", "e"}
	switch g.r.Intn(g.odd * 3) {
	case 0:
		names = []string{"W", "io", "a0", "tpl", "reflect"}
	case 1:
		names = []string{"a1", "a0", "W", "a0_", "_"}
	}
	for i := 0; i < n; i++ {
		t := g.typ(2)
		if variadic && i == n-1 {
			t = "..." + t
		}
		switch style {
		case 0:
			ps = append(ps, t)
		case 2:
			if i == n/2 {
				ps = append(ps, "_ "+t)
			} else {
				ps = append(ps, names[i%5]+" "+t)
			}
		default:
			ps = append(ps, names[i%5]+" "+t)
		}
	}
	return strings.Join(ps, ", ")
}

func (g *tyGen) results(n int, named int) string {
	switch {
	case n == 0:
		return ""
	case named == 0 && n == 1:
		return " " + g.typ(2)
	case named == 0:
		ts := make([]string, n)
		for i := range ts {
			ts[i] = g.typ(2)
		}
		return " (" + strings.Join(ts, ", ") + ")"
	default:
		names := []string{"r", "err", "n", "ok"}
		if named == 2 {
			names = [][]string{{"a0", "_", "a1", "W"}, {"W", "r0", "a2", "_"}, {"a1_", "a0", "W", "r0"}}[g.r.Intn(3)]
		}
		ts := make([]string, n)
		for i := range ts {
			ts[i] = names[i%4] + " " + g.typ(2)
		}
		return " (" + strings.Join(ts, ", ") + ")"
	}
}

func (g *tyGen) signature() string {
	r := g.r
	n := r.Intn(5)
	variadic := n > 0 && r.Intn(3) == 0
	style := 1
	switch r.Intn(8) {
	case 0, 1, 2:
		style = 0
	case 3:
		if r.Intn(g.odd) == 0 {
			style = 2
		}
	}
	nres := []int{0, 0, 1, 1, 1, 2, 2, 3}[r.Intn(8)]
	named := 0
	switch r.Intn(6) {
	case 0, 1:
		named = 1
	case 2:
		if style == 0 && r.Intn(g.odd) == 0 {
			named = 2
		}
	}
	return "(" + g.params(n, style, variadic) + ")" + g.results(nres, named)
}

// genPackage builds one random package.
func genPackage(r *rand.Rand, idx int) job {
	// exotic shapes (the listed divergence classes) are drawn in every third package only, so that most
	// packages lie entirely inside the domain of the theorems and must come out right as a whole
	rare := 1000000
	exotic := r.Intn(3) == 0
	if exotic {
		rare = 4
	}
	dirs := []string{"p%04d", "a-b/p%04d", "x.y/q%04d", "t~z/p%04d", "under_score/p%04d", "deep/er/path/p%04d", "go-pkg%04d", "v2/p%04d", "UP/Per%04d", "d-.~_/p%04d"}
	dir := fmt.Sprintf(dirs[r.Intn(len(dirs))], idx)
	if r.Intn(15) == 0 {
		// legal in import paths, not in identifiers
		dir = fmt.Sprintf(pick(r, []string{"c++/p%04d", "a+b/p%04d", "x+/q%04d+"}), idx)
	}
	name := dir[strings.LastIndex(dir, "/")+1:]
	name = strings.NewReplacer("-", "", ".", "", "~", "", "+", "").Replace(name)
	switch r.Intn(25) {
	case 0, 3:
		name = "pkg"
	case 1:
		name = "os"
	case 2:
		name = "log"
	case 4:
		if exotic {
			// called like one of the packages a wrapper file imports for itself (open finding)
			name = pick(r, []string{"constant", "token", "reflect"})
		}
	}
	ng := &nameGen{r: r, used: map[string]bool{}}
	g := &tyGen{r: r, used: map[string]bool{}, rare: rare, odd: 5}
	var b strings.Builder
	if r.Intn(20) == 0 {
		// a package of constants only (plus unexported helpers)
		fmt.Fprintf(&b, "package %s\n\nconst (\n", name)
		for i := 1 + r.Intn(6); i > 0; i-- {
			t, e := constExpr(r, "", "")
			if t == "" {
				fmt.Fprintf(&b, "\t%s = %s\n", ng.fresh("C", r.Intn(8) != 0), e)
			} else {
				fmt.Fprintf(&b, "\t%s %s = %s\n", ng.fresh("c", false), t, e)
			}
		}
		b.WriteString(")\n\nfunc helper() {}\n\nvar state int\n")
		return job{Mode: "module", Dir: dir, ImportPath: "gen.test/" + dir, Files: map[string]string{"p.go": b.String()}, Dest: "lib"}
	}

	// named types first (so that later declarations can mention them)
	nTypes := r.Intn(6)
	ownInt, ownUnexpInt := "", ""
	var ifaces []string
	var decls []string
	for i := 0; i < nTypes; i++ {
		exported := r.Intn(5) != 0
		n := ng.fresh("T", exported)
		switch r.Intn(12) {
		case 0, 1:
			decls = append(decls, fmt.Sprintf("type %s struct {\n\tA %s\n\tb %s\n}\n\nfunc (x %s) Method%d() {}\n", n, g.typ(2), g.typ(1), n, i))
		case 2, 3:
			decls = append(decls, fmt.Sprintf("type %s int\n", n))
			if exported {
				ownInt = n
			} else {
				ownUnexpInt = n
			}
		case 4:
			decls = append(decls, fmt.Sprintf("type %s %s\n", n, pick(r, []string{"string", "[]byte", "map[string]int", "func(int) error", "chan int", "*int", "[4]uint8", "float64"})))
		case 5:
			decls = append(decls, fmt.Sprintf("type %s = %s\n", n, pick(r, []string{"int", "[]string", "struct{ X int }", "map[string][]int", "func()", "error", "interface{ Len() int }", "any"})))
			if r.Intn(2) == 0 {
				continue // aliases of basic types print as the basic type: do not use them in signatures half of the time
			}
		case 6:
			decls = append(decls, fmt.Sprintf("type %s[T any] struct{ V T }\n\nfunc (x *%s[T]) Get() T { return x.V }\n", n, n))
			if exported {
				g.own = append(g.own, n+"[int]", "*"+n+"[string]")
			}
			continue
		case 7:
			decls = append(decls, fmt.Sprintf("type %s[K comparable, V any] interface{ Get(K) V }\n", n))
			continue
		case 8:
			g.used["io"] = true
			decls = append(decls, fmt.Sprintf("type %s = %s\n", n, pick(r, []string{"io.Reader", "io.ReadCloser", "io.Writer"})))
		case 9:
			if r.Intn(2) == 0 {
				// a foreign interface under a new name (alias or defined type): its methods come with it
				e := pick(r, []string{"mid.Taker", "mid.Fetcher", "mid.Both", "http.Hijacker"})
				g.used[e[:strings.Index(e, ".")]] = true
				decls = append(decls, fmt.Sprintf("type %s %s%s\n", n, pick(r, []string{"", "= "}), e))
				if exported {
					g.own = append(g.own, n)
					ifaces = append(ifaces, n)
				} else {
					g.ownUnexp = append(g.ownUnexp, n)
				}
				continue
			}
			g.used["other"] = true
			decls = append(decls, fmt.Sprintf("type %s = %s\n", n, pick(r, []string{"other.U[int]", "other.S", "other.E"})))
		default:
			decls = append(decls, fmt.Sprintf("type %s struct{}\n", n))
		}
		if exported {
			g.own = append(g.own, n)
		} else {
			g.ownUnexp = append(g.ownUnexp, n)
		}
	}

	// interfaces
	nIfaces := 1 + r.Intn(4)
	for i := 0; i < nIfaces; i++ {
		exported := r.Intn(8) != 0
		n := ng.fresh("I", exported)
		var ms []string
		k := r.Intn(40)
		switch {
		case k == 0:
			// nothing: the empty interface
		case k == 1:
			ms = append(ms, pick(r, []string{"any", "interface{}"}))
		case k == 2 && len(ifaces) > 0:
			ms = append(ms, pick(r, ifaces))
		case k == 3:
			ms = append(ms, pick(r, []string{"~int | ~string", "comparable", "int", "~float64"}))
		case k == 4:
			ms = append(ms, pick(r, []string{"~int", "comparable", "int | string"}), "String() string")
		case k == 5:
			ms = append(ms, pick(r, []string{"~int", "comparable"}), "M"+g.signature())
		case k == 6:
			g.used["other"] = true
			ms = append(ms, "other.E")
		default:
			mn := &nameGen{r: r, used: map[string]bool{}}
			for j := r.Intn(6); j > 0; j-- {
				switch q := r.Intn(24); {
				case q == 0:
					ms = append(ms, "String() string")
				case q == 1:
					if r.Intn(g.odd) < 3 {
						ms = append(ms, pick(r, []string{"String() (string, error)", "String(x int) string", "String()", "String() []byte", "String() Str", "String(...string) string", "String() int", "String() rune", "String() any", "String() *string"}))
					} else {
						ms = append(ms, "Error() string")
					}
				case q == 2 || q == 3:
					if exotic && r.Intn(2) == 0 {
						ms = append(ms, mn.fresh("M", false)+g.signature())
					}
				case q == 4 && len(ifaces) > 0:
					ms = append(ms, pick(r, ifaces))
				case q == 5:
					g.used["io"] = true
					ms = append(ms, pick(r, []string{"io.Reader", "io.Closer", "io.Writer"}))
				case q == 6:
					ms = append(ms, "error")
				case q == 7:
					ms = append(ms, "interface{ Flush() error }")
				case q == 8:
					ms = append(ms, "any")
				case q == 9 || q == 10:
					// an interface of another package whose methods mention types of a third one
					e := pick(r, []string{"mid.Taker", "mid.Fetcher", "mid.Both", "mid.Taker", "http.Hijacker", "http.ResponseWriter"})
					g.used[e[:strings.Index(e, ".")]] = true
					ms = append(ms, e)
				default:
					ms = append(ms, mn.fresh("M", true)+g.signature())
				}
			}
			// duplicate or conflicting method names are a compile error of the input: drop repeats of the fixed names
			seen := map[string]bool{}
			var out []string
			for _, m := range ms {
				key := m
				if i := strings.IndexAny(m, "( "); i > 0 {
					key = m[:i]
				}
				if seen[key] {
					continue
				}
				seen[key] = true
				out = append(out, m)
			}
			ms = out
		}
		for _, m := range ms {
			if strings.HasSuffix(m, " Str") && !ng.used["Str"] {
				ng.used["Str"] = true
				decls = append(decls, "type Str string\n")
			}
		}
		decls = append(decls, fmt.Sprintf("type %s interface {\n\t%s\n}\n", n, strings.Join(ms, "\n\t")))
		usable := true
		for _, m := range ms {
			if strings.ContainsAny(m, "~|") || strings.HasPrefix(m, "comparable") || m == "int" {
				usable = false
			}
		}
		if usable {
			ifaces = append(ifaces, n)
			if exported {
				g.own = append(g.own, n)
			}
		}
	}

	// constants
	var consts []string
	for i := r.Intn(10); i > 0; i-- {
		n := ng.fresh("C", r.Intn(6) != 0)
		t, e := constExpr(r, ownInt, ownUnexpInt)
		if t == "" {
			consts = append(consts, fmt.Sprintf("\t%s = %s", n, e))
		} else {
			consts = append(consts, fmt.Sprintf("\t%s %s = %s", n, t, e))
		}
	}
	if r.Intn(3) == 0 {
		t := ""
		if ownInt != "" && r.Intn(2) == 0 {
			t = " " + ownInt
		}
		consts = append(consts, fmt.Sprintf("\t%s%s = iota", ng.fresh("K", true), t), "\t"+ng.fresh("K", true), "\t"+ng.fresh("K", r.Intn(2) == 0))
	}
	if len(consts) > 0 {
		decls = append(decls, "const (\n"+strings.Join(consts, "\n")+"\n)\n")
	}

	// variables
	for i := r.Intn(5); i > 0; i-- {
		n := ng.fresh("V", r.Intn(6) != 0)
		switch r.Intn(4) {
		case 0:
			decls = append(decls, fmt.Sprintf("var %s = %s\n", n, pick(r, []string{"1", "\"s\"", "1.5", "map[string]int{}", "[]byte(nil)", "func() {}", "'r'", "1i", "struct{ A int }{1}"})))
		case 1:
			decls = append(decls, fmt.Sprintf("var %s, %s = 1, \"x\"\n", n, ng.fresh("V", true)))
		default:
			decls = append(decls, fmt.Sprintf("var %s %s\n", n, g.typ(2)))
		}
	}

	// functions
	for i := r.Intn(5); i > 0; i-- {
		n := ng.fresh("F", r.Intn(6) != 0)
		switch r.Intn(6) {
		case 0:
			decls = append(decls, fmt.Sprintf("func %s[T any](x T) T { return x }\n", n))
		case 1:
			decls = append(decls, fmt.Sprintf("func %s[K comparable, V any](m map[K]V, ks ...K) []V { return nil }\n", n))
		default:
			decls = append(decls, fmt.Sprintf("func %s%s { panic(0) }\n", n, g.signature()))
		}
	}

	// packages named os / log: the names the extractor treats specially
	if name == "constant" || name == "token" {
		decls = append(decls, fmt.Sprintf("const %s = %d\n", ng.fresh("Lit", true), r.Intn(100)))
	}
	if name == "os" || name == "log" {
		for _, fn := range []string{"Exit", "FindProcess", "Fatal", "Fatalf", "Fatalln", "New"} {
			if r.Intn(2) == 0 && !ng.used[fn] {
				ng.used[fn] = true
				decls = append(decls, fmt.Sprintf("func %s(args ...interface{}) {}\n", fn))
			}
		}
		if r.Intn(2) == 0 && !ng.used["Logger"] {
			decls = append(decls, "type Logger struct{}\n")
		}
	}

	r.Shuffle(len(decls), func(i, j int) { decls[i], decls[j] = decls[j], decls[i] })
	fmt.Fprintf(&b, "package %s\n\n", name)
	var imps []string
	for p := range g.used {
		imps = append(imps, importClause[p])
	}
	sort.Strings(imps)
	if len(imps) > 0 {
		b.WriteString("import (\n")
		for _, i := range imps {
			b.WriteString("\t" + i + "\n")
		}
		b.WriteString(")\n\n")
		// keep every import used whatever the random choices were
		uses := map[string]string{"io": "io.Reader", "reflect": "reflect.Value", "unsafe": "unsafe.Pointer", "tpl": "tpl.T", "tpl2": "tpl2.T", "it": "it.T", "other": "other.S", "mid": "mid.Mode", "http": "http.Handler"}
		var ks []string
		for p := range g.used {
			ks = append(ks, p)
		}
		sort.Strings(ks)
		for _, p := range ks {
			fmt.Fprintf(&b, "var _ %s\n", uses[p])
		}
		b.WriteString("\n")
	}
	b.WriteString(strings.Join(decls, "\n"))

	j := job{Mode: "module", Dir: dir, ImportPath: "gen.test/" + dir, Files: map[string]string{"p.go": b.String()},
		Dest: pick(r, []string{"stdlib", "symbols", "lib", "main"})}
	if r.Intn(10) == 0 {
		j.Mode = "relative" // in the domain unless an interface mentions a type of the package itself
	} else if exotic && strings.ContainsAny(dir, "-.~+") && r.Intn(3) == 0 {
		// a sibling: the same package under an import path that differs in punctuation only (open finding:
		// the two wrappers declare the same wrapper type names)
		k := strings.IndexAny(dir, "-.~+")
		sd := dir[:k] + pick(r, []string{"+", "-", ".", "~", "_"}) + dir[k+1:]
		if sd != dir {
			j.Sibling = &job{Mode: "module", Dir: sd, ImportPath: "gen.test/" + sd, Files: j.Files, Dest: j.Dest}
		}
	}
	for n := r.Intn(3); n > 0; n-- {
		j.Tags = append(j.Tags, pick(r, []string{"foo", "bar", "", "!windows", "linux"}))
	}
	return j
}
