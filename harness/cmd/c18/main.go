// C18 correspondence harness: `extract` emits complete, compilable, faithful wrappers.
//
//   impl  = the real extract.Extractor of /repo, run on installed standard-library packages and on
//           seeded generated packages; its output is parsed back (go/parser) into an abstract wrapper
//   y     = Lean Model/Extract.lean `genY` applied to the go/types view of the same package, with the
//           switches derived from the regenerated facts (y0: from the hand-written expectation, i.e.
//           the model of the unchanged code: a listed class suppresses a difference only if impl = y0)
//   g     = Lean Spec/GoExtract.lean (what the property demands)
//   ref   = an independent Go rendering of the property from go/types (view.go refFile), plus
//           "the wrapper compiles and each wrapper type implements its interface", decided by
//           type-checking the generated file with go/types (importer "source")
//
// Checked per package-level object: impl = y (correspondence), ref = g (spec validation),
// impl = ref and no type error attributed to the object (the property).
package main

import (
	"bytes"
	"encoding/json"
	"fmt"
	"go/constant"
	"go/token"
	"os"
	"os/exec"
	"path/filepath"
	"regexp"
	"runtime"
	"sort"
	"strconv"
	"strings"
	"sync"

	"github.com/traefik/yaegi/extract"
	"verif/harness/common"
)

// caseT is the input recorded with a disagreement (and read back from a replay file).
type caseT struct {
	Job    job    `json:"job"`
	Object string `json:"object,omitempty"` // "" = package level
	View   *VObj  `json:"view,omitempty"`
}

type outcome struct {
	j      job
	src    []byte
	err    error
	view   *VPkg
	verr   error
	impl   *File
	parsed *parsed
	comp   *compileResult
	// the sibling package (same declarations, an import path that differs in punctuation only),
	// extracted into the same destination package
	sibSrc  []byte
	sibErr  error
	pairErr []string // type errors of the two wrapper files taken together
}

type env struct {
	run        *common.Run
	drv        *common.Driver
	chk        *checker
	root       string // module root of the generated packages
	repo       string
	provided   []string
	restricted []string
	minor      int
}

func goMinor() int {
	parts := strings.Split(runtime.Version(), ".")
	if len(parts) < 2 {
		return 0
	}
	n, _ := strconv.Atoi(extract.GetMinor(parts[1]))
	return n
}

// runExtract calls the real extractor (the process's working directory is the generated module's root).
func runExtract(j job) (out []byte, err error) {
	defer func() {
		if r := recover(); r != nil {
			err = fmt.Errorf("panic: %v", r)
		}
	}()
	e := extract.Extractor{Dest: j.Dest, Tag: j.Tags}
	var b bytes.Buffer
	switch j.Mode {
	case "relative":
		_, err = e.Extract("./"+j.Dir, j.ImportPath, &b)
	default:
		_, err = e.Extract(j.ImportPath, "", &b)
	}
	return b.Bytes(), err
}

func (e *env) writeModule(jobs []job) error {
	write := func(dir string, files map[string]string) error {
		d := filepath.Join(e.root, filepath.FromSlash(dir))
		if err := os.MkdirAll(d, 0o755); err != nil {
			return err
		}
		for n, s := range files {
			if err := os.WriteFile(filepath.Join(d, n), []byte(s), 0o644); err != nil {
				return err
			}
		}
		return nil
	}
	if err := os.WriteFile(filepath.Join(e.root, "go.mod"), []byte("module gen.test\n\ngo 1.21\n"), 0o644); err != nil {
		return err
	}
	for d, fs := range helperPkgs {
		if err := write(d, fs); err != nil {
			return err
		}
	}
	for _, j := range jobs {
		if j.Mode == "std" {
			continue
		}
		if err := write(j.Dir, j.Files); err != nil {
			return err
		}
		if j.Sibling != nil {
			if err := write(j.Sibling.Dir, j.Sibling.Files); err != nil {
				return err
			}
		}
	}
	return nil
}

// viewJob computes the go/types view of a job's package.
func (e *env) viewJob(j job) (*VPkg, error) {
	var v *VPkg
	if j.Mode == "std" {
		p, err := e.chk.importStd(j.ImportPath)
		if err != nil {
			return nil, err
		}
		v = viewOf(p, j.ImportPath)
	} else {
		p, err := e.chk.checkSource(j.ImportPath, j.Files)
		if err != nil {
			return nil, err
		}
		v = viewOf(p, j.ImportPath)
		if j.Mode == "relative" {
			// the extractor's importer names the package by the relative path it was given
			v.Path = "./" + j.Dir
			for i := range v.Objs {
				for k := range v.Objs[i].Methods {
					m := &v.Objs[i].Methods[k]
					for _, ps := range [][]VParam{m.Params, m.Results} {
						for q := range ps {
							for d := range ps[q].Deps {
								if ps[q].Deps[d] == j.ImportPath {
									ps[q].Deps[d] = v.Path
								}
							}
						}
					}
				}
			}
		}
	}
	v.Dest, v.Tags, v.Minor = j.Dest, j.Tags, e.minor
	if v.Tags == nil {
		v.Tags = []string{}
	}
	return v, nil
}

// execute runs the extractor on all jobs (in parallel) and everything else per job.
func (e *env) execute(jobs []job) []*outcome {
	outs := make([]*outcome, len(jobs))
	var wg sync.WaitGroup
	sem := make(chan struct{}, 12)
	for i := range jobs {
		outs[i] = &outcome{j: jobs[i]}
		wg.Add(1)
		go func(o *outcome) {
			defer wg.Done()
			sem <- struct{}{}
			o.src, o.err = runExtract(o.j)
			if o.j.Sibling != nil {
				o.sibSrc, o.sibErr = runExtract(*o.j.Sibling)
			}
			<-sem
		}(outs[i])
	}
	wg.Wait()
	for _, o := range outs {
		o.view, o.verr = e.viewJob(o.j)
		if o.verr != nil {
			continue
		}
		if o.err != nil {
			o.impl = &File{Err: "extract"}
			continue
		}
		p, err := parseWrapper(o.src, o.view.Name)
		if err != nil {
			o.impl = &File{Err: "unparsable output"}
			continue
		}
		o.parsed, o.impl = p, p.file
		o.comp = e.chk.compile(o.src, o.view, p)
		if o.j.Sibling != nil && o.sibErr == nil {
			if _, err := e.chk.checkSource(o.j.Sibling.ImportPath, o.j.Sibling.Files); err == nil {
				o.pairErr = e.chk.compilePair(o.src, o.sibSrc)
			}
		}
	}
	return outs
}

// floatsAgree: a FLOAT literal is faithful when go/constant reads it back as the constant itself.
func floatsAgree(o *VObj, raw string) bool {
	if o.cval == nil || raw == "" {
		return false
	}
	v := constant.MakeFromLiteral(raw, token.FLOAT, 0)
	return v.Kind() != constant.Unknown && constant.Compare(v, token.EQL, o.cval)
}

// complexAgrees: the two nested literals ("TOK:text;TOK:text") are faithful when go/constant builds the
// constant itself from them, the way the generated expression does.
func complexAgrees(o *VObj, raw string) bool {
	parts := strings.Split(raw, ";")
	if o.cval == nil || len(parts) != 2 {
		return false
	}
	var vs [2]constant.Value
	for i, p := range parts {
		k := strings.IndexByte(p, ':')
		if k < 0 {
			return false
		}
		tok := token.INT
		if p[:k] == "FLOAT" {
			tok = token.FLOAT
		}
		vs[i] = constant.MakeFromLiteral(p[k+1:], tok, 0)
		if vs[i].Kind() == constant.Unknown {
			return false
		}
	}
	v := constant.BinaryOp(vs[0], token.ADD, constant.MakeImag(vs[1]))
	return v.Kind() != constant.Unknown && constant.Compare(constant.ToComplex(v), token.EQL, constant.ToComplex(o.cval))
}

// fixedImportNames are the names of the packages every wrapper file may import itself.
func fixedImportClash(v *VPkg) bool {
	if v.Name == "reflect" && v.ImportPath != "reflect" {
		return true
	}
	if (v.Name == "constant" && v.ImportPath != "go/constant") || (v.Name == "token" && v.ImportPath != "go/token") {
		// go/constant and go/token are imported when a constant is bound as a literal
		for i := range v.Objs {
			o := &v.Objs[i]
			if o.Exported && o.Kind == "const" && o.Untyped && o.CKind != "bool" {
				return true
			}
		}
	}
	return false
}

// packageClass names the listed class a package as a whole belongs to ("" = none): the classes whose
// effect shows in the import block or in the text as a whole.
func (e *env) packageClass(v *VPkg, j job) string {
	for _, ic := range importClasses {
		for i := range v.Objs {
			if contains(v.classesOf(&v.Objs[i], e.restricted), ic) {
				return ic
			}
		}
	}
	// the package is called like one of the packages the wrapper file imports for itself
	if fixedImportClash(v) {
		return "package-named-like-wrapper-import"
	}
	// two packages whose import paths differ in punctuation only, wrapped into one destination package
	if j.Sibling != nil && mangle(j.Sibling.ImportPath) == mangle(j.ImportPath) && j.Sibling.Dest == j.Dest {
		return "wrapper-prefix-collision"
	}
	return ""
}

// repairedShapes names the shapes of the repaired findings an object has (distribution buckets: the
// default stream must keep producing them, now as inputs inside the domain).
func repairedShapes(v *VPkg, o *VObj) []string {
	var out []string
	if !o.Exported {
		return nil
	}
	if contains([]string{"osExit", "osFindProcess", "logFatal", "logFatalf", "logFatalln", "logLogger", "logNew"}, v.Name+o.Name) && v.ImportPath != v.Name {
		out = append(out, "os/log symbol of a package outside the standard library")
	}
	if !goIdent(strings.NewReplacer("/", "_", "-", "_", ".", "_", "~", "_").Replace("_" + v.ImportPath + "_")) && o.Kind == "iface" && !o.Generic && o.MethodSet {
		out = append(out, "interface of a package whose import path has other punctuation than / - . ~")
	}
	switch o.Kind {
	case "const":
		if o.Untyped && o.CKind == "complex" {
			out = append(out, "untyped complex constant")
			for _, n := range []*VNum{o.Re, o.Im} {
				if len(n.Int) > 300 || len(n.Num) > 300 || len(n.Den) > 300 {
					out = append(out, "untyped complex constant beyond complex128")
				}
			}
		}
	case "iface":
		if o.Generic {
			return out
		}
		if !o.MethodSet && len(o.Methods) > 0 {
			out = append(out, "constraint interface with methods")
		}
		if o.MethodSet && len(o.Methods) == 0 && o.Embeds > 0 {
			out = append(out, "interface that only embeds empty interfaces")
		}
		if !o.MethodSet {
			return out
		}
		for _, m := range o.Methods {
			if !m.Exported {
				continue
			}
			names := map[string]bool{"W": true}
			for i, p := range m.Params {
				n := p.Name
				switch n {
				case "_":
					out = append(out, "blank parameter")
					continue
				case "W":
					out = append(out, "parameter called W")
				case "":
					n = fmt.Sprintf("a%d", i)
				}
				names[n] = true
			}
			for _, p := range m.Results {
				if p.Name == "W" {
					out = append(out, "result called W")
				} else if p.Name != "" && p.Name != "_" && names[p.Name] {
					out = append(out, "result called like a generated parameter name")
				}
			}
			if m.Name == "String" && !(len(m.Params) == 0 && len(m.Results) == 1 && m.Results[0].IsStr) {
				out = append(out, "String method of another signature")
			}
			for _, p := range append(append([]VParam{}, m.Params...), m.Results...) {
				for _, d := range p.Deps {
					if d != v.ImportPath && d != v.Path && !contains(v.Direct, d) {
						out = append(out, "wrapper method naming a package the extracted package does not import")
					}
				}
			}
		}
	}
	return out
}

// judge compares the four renderings of one job and returns the failing items as "object:class"
// (object "" = package level). record=false is used for the replay of listed findings.
func (e *env) judge(o *outcome, answer string, record bool, only string) (failing []string) {
	run := e.run
	j := o.j
	if o.verr != nil {
		// not a package (does not type-check / not importable on this platform): no case
		if record {
			run.Hit("skipped:" + j.Mode + ":not-a-valid-package")
		}
		return nil
	}
	v := o.view
	xs, err := parseAll(answer)
	var y, y0, g *File
	if err == nil && len(xs) == 3 && xs[0].head() == "y" && xs[1].head() == "y0" && xs[2].head() == "g" {
		func() {
			defer func() {
				if r := recover(); r != nil {
					err = fmt.Errorf("malformed answer: %v", r)
				}
			}()
			if y, err = decodeFile(xs[0].at(1)); err != nil {
				return
			}
			if y0, err = decodeFile(xs[1].at(1)); err != nil {
				return
			}
			g, err = decodeFile(xs[2].at(1))
		}()
	} else if err == nil {
		err = fmt.Errorf("unexpected answer %.200q", answer)
	}
	if err != nil {
		run.Errorf("driver answer for %s: %v", j.ImportPath, err)
		return nil
	}
	ref := refFile(v, e.provided)
	impl := o.impl
	pclass := e.packageClass(v, j)
	disagree := func(d common.Disagreement) {
		if record {
			run.Disagree(d)
		}
	}
	if record {
		run.Hit("package:" + j.Mode)
		switch {
		case impl.Err != "":
			run.Hit("extract:" + impl.Err)
		case o.comp.ok():
			run.Hit("compile:ok")
		default:
			run.Hit("compile:errors")
		}
	}
	pin := caseT{Job: j}

	// ---- per object
	objectFails := 0
	for i := range v.Objs {
		ob := &v.Objs[i]
		if only != "" && ob.Name != only {
			continue
		}
		io, yo, gobj, ro := impl.object(ob.Name), y.object(ob.Name), g.object(ob.Name), ref.object(ob.Name)
		class := v.classOf(ob, e.restricted)
		in := caseT{Job: j, Object: ob.Name, View: ob}
		if record {
			run.Count(j.ImportPath+"."+ob.Name, ob.Exported)
			run.Hit("object:" + shape(ob))
			for _, s := range repairedShapes(v, ob) {
				run.Hit("shape:" + s)
			}
			if class != "" {
				run.Hit("class:" + class)
			} else {
				run.Hit("class:in-domain")
			}
			if ob.Exported && (ob.Kind == "iface" || (ob.Untyped && ob.CKind != "int")) {
				run.Sample(map[string]interface{}{"package": j.ImportPath, "object": ob.Name, "impl": io, "model": yo, "spec": gobj, "ref": ro, "class": class}, 8)
			}
		}
		if gobj != ro {
			disagree(common.Disagreement{Kind: "spec-vs-ref", Input: in, Spec: gobj, Ref: ro})
		}
		if impl.Err != "" || y.Err != "" {
			continue // no file / no file predicted: judged at package level
		}
		if io != yo {
			disagree(common.Disagreement{Kind: "impl-vs-model", Input: in, Impl: io, Model: yo, Ref: ro})
		}
		same := io == ro
		if !same && ob.Kind == "const" && (ob.CKind == "float" || ob.CKind == "complex") {
			// the decimal text may denote another rational and still be read back as the same constant
			for _, en := range impl.Vals {
				if en.Key == ob.Name && en.Form == "lit" && en.Tok == "FLOAT" && ob.CKind == "float" && floatsAgree(ob, en.Raw) {
					same = true
				}
				if en.Key == ob.Name && en.Form == "lit" && en.Tok == "COMPLEX" && ob.CKind == "complex" && complexAgrees(ob, en.Raw) {
					same = true
				}
			}
		}
		cerrs := o.comp.perObject[ob.Name]
		if same && len(cerrs) == 0 {
			if record && ob.Kind == "iface" && ob.Exported && !ob.Generic && ob.MethodSet {
				run.Hit("wrapper:as-specified+compiles+implements")
			}
			continue
		}
		objectFails++
		d := common.Disagreement{Kind: "impl-vs-ref", Input: in, Impl: io, Model: yo, Ref: ro, Finding: class}
		if len(cerrs) > 0 {
			d.Note = "type errors: " + strings.Join(cerrs, "; ")
			if len(d.Note) > 600 {
				d.Note = d.Note[:600]
			}
		}
		// a listed class explains the difference only when the implementation still behaves as the model
		// of the unchanged code (the one the theorems and the findings are about) predicts
		if y0.Err != "" || io != y0.object(ob.Name) {
			d.Finding, d.Note = "", "differs from the reference and from the model of the unchanged code (class "+class+") "+d.Note
		}
		failing = append(failing, ob.Name+":"+d.Finding)
		disagree(d)
	}
	if only != "" {
		return failing
	}

	// ---- package level
	if g.header() != ref.header() || g.order() != ref.order() {
		disagree(common.Disagreement{Kind: "spec-vs-ref", Input: pin, Spec: g.header() + " " + g.order(), Ref: ref.header() + " " + ref.order()})
	}
	if record {
		run.Count(j.ImportPath, true)
		if pclass != "" {
			run.Hit("class:package:" + pclass)
		}
		if onlyLiterals(v) {
			run.Hit("shape:package whose bindings are all literals")
		}
	}
	if impl.Err != "" || y.Err != "" {
		// the extractor produced no file, or the model says it cannot
		if (impl.Err != "") != (y.Err != "") {
			disagree(common.Disagreement{Kind: "impl-vs-model", Input: pin, Impl: impl.header(), Model: y.header()})
		}
		if impl.Err != "" {
			d := common.Disagreement{Kind: "impl-vs-ref", Input: pin, Impl: impl.header(), Ref: ref.header(), Finding: pclass}
			if o.err != nil {
				d.Note = o.err.Error()
				if len(d.Note) > 300 {
					d.Note = d.Note[:300]
				}
			}
			if y0.Err == "" {
				d.Finding = ""
			}
			failing = append(failing, ":"+d.Finding)
			disagree(d)
		}
		return failing
	}
	// names the file binds that the package does not declare
	for _, n := range impl.mentioned() {
		found := false
		for i := range v.Objs {
			if v.Objs[i].Name == n {
				found = true
			}
		}
		if !found {
			disagree(common.Disagreement{Kind: "impl-vs-ref", Input: caseT{Job: j, Object: n}, Impl: impl.object(n), Ref: "", Note: "the wrapper binds a name the package does not declare"})
			failing = append(failing, n+":")
		}
	}
	modelOK := impl.header() == y.header() && impl.order() == y.order()
	if !modelOK {
		disagree(common.Disagreement{Kind: "impl-vs-model", Input: pin, Impl: impl.header() + " " + impl.order(), Model: y.header() + " " + y.order()})
	}
	// a header that differs only because some object diverges is not counted a second time
	headerDiffers := (impl.header() != ref.header() || impl.order() != ref.order()) && objectFails == 0
	perr := append([]string{}, o.comp.pkgLevel...)
	for _, pe := range o.pairErr {
		perr = append(perr, "together with the wrapper of "+j.Sibling.ImportPath+": "+pe)
	}
	if record && j.Sibling != nil {
		run.Hit("package:with-sibling")
	}
	if headerDiffers || len(perr) > 0 {
		d := common.Disagreement{Kind: "impl-vs-ref", Input: pin, Impl: impl.header() + " " + impl.order(), Ref: ref.header() + " " + ref.order(), Finding: pclass}
		if len(perr) > 0 {
			d.Note = "type errors: " + strings.Join(perr, "; ")
			if len(d.Note) > 600 {
				d.Note = d.Note[:600]
			}
		}
		if y0.Err != "" || impl.header() != y0.header() || impl.order() != y0.order() {
			d.Finding = ""
		}
		failing = append(failing, ":"+d.Finding)
		disagree(d)
	}
	return failing
}

// onlyLiterals: every binding of the package is an untyped constant bound as a literal (nothing names the package).
func onlyLiterals(v *VPkg) bool {
	lits, named := 0, 0
	for i := range v.Objs {
		o := &v.Objs[i]
		if !o.Exported {
			continue
		}
		switch o.Kind {
		case "const":
			if o.Untyped && o.CKind != "bool" {
				lits++
			} else {
				named++
			}
		case "var":
			named++
		case "func", "type":
			if !o.Generic {
				named++
			}
		case "iface":
			if !o.Generic && o.MethodSet {
				named++
			}
		}
	}
	return lits > 0 && named == 0
}

var identRE = regexp.MustCompile(`^[\p{L}_][\p{L}\p{Nd}_]*$`)

func goIdent(s string) bool { return identRE.MatchString(s) }

// shape names the declaration shape of an object (distribution bucket).
func shape(o *VObj) string {
	ex := "exported"
	if !o.Exported {
		ex = "unexported"
	}
	switch o.Kind {
	case "const":
		if o.Untyped {
			return ex + " untyped " + o.CKind + " const"
		}
		return ex + " typed const"
	case "func", "type":
		if o.Generic {
			return ex + " generic " + o.Kind
		}
		return ex + " " + o.Kind
	case "iface":
		s := ex + " interface"
		if o.Generic {
			return s + " generic"
		}
		if !o.MethodSet {
			return s + " constraint"
		}
		variadic, unexp, unnamed := false, false, false
		for _, m := range o.Methods {
			variadic = variadic || m.Variadic
			unexp = unexp || !m.Exported
			for _, p := range m.Params {
				unnamed = unnamed || p.Name == ""
			}
		}
		if len(o.Methods) == 0 {
			s += " empty"
		}
		if o.Embeds > 0 {
			s += " embedding"
		}
		if variadic {
			s += " variadic"
		}
		if unexp {
			s += " unexported-method"
		}
		if unnamed {
			s += " unnamed-params"
		}
		return s
	}
	return ex + " " + o.Kind
}

// stdPackages lists the importable packages of the installed standard library.
func stdPackages() ([]string, error) {
	cmd := exec.Command("go", "list", "std")
	cmd.Env = append(os.Environ(), "GOFLAGS=")
	out, err := cmd.Output()
	if err != nil {
		return nil, err
	}
	var ps []string
	for _, p := range strings.Fields(string(out)) {
		if strings.HasPrefix(p, "vendor/") || internalPath(p) || strings.HasPrefix(p, "cmd/") {
			continue
		}
		ps = append(ps, p)
	}
	sort.Strings(ps)
	return ps, nil
}

var quickStd = []string{"math", "os", "log", "io", "fmt", "errors", "strings", "bytes", "sort", "time", "reflect", "context", "sync",
	"unicode/utf8", "encoding/json", "encoding/binary", "net/http", "go/ast", "go/token", "go/constant", "math/big", "math/bits",
	"container/heap", "database/sql/driver", "hash", "image", "image/color", "io/fs", "text/template", "crypto", "syscall", "cmp",
	"flag", "testing", "log/slog"}

func main() {
	run := common.NewRun("C18")
	run.Res.Rule = "cases = package-level objects (one per name of the package scope, plus one package-level case per package) of (a) packages of the installed standard library (quick: a fixed selection, thorough: every importable one) and (b) seeded generated packages spanning every declaration kind; each is extracted by the real extract.Extractor, the output parsed back and compared with the Lean model of genContent (y), the Lean spec (g) and the go/types reference, and type-checked; non-trivial = exported object (something must be bound, or deliberately not); distinct = distinct (import path, object name)"
	defer run.Finish()
	repo := os.Getenv("VERIF_REPO")
	if repo == "" {
		repo = "/repo"
	}
	e := &env{run: run, repo: repo, minor: goMinor()}
	var err error
	if e.provided, err = providedByStdlib(repo); err != nil {
		run.Errorf("restricted.go: %v", err)
		return
	}
	for _, p := range e.provided {
		if len(p) > 0 && (strings.HasPrefix(p, "os") || strings.HasPrefix(p, "log")) {
			e.restricted = append(e.restricted, p)
		}
	}
	// newest release the repository's stdlib directory has wrappers for
	if ms, _ := filepath.Glob(filepath.Join(repo, "stdlib", "go1_*_*.go")); len(ms) > 0 {
		newestMinor = 0
		for _, m := range ms {
			parts := strings.Split(filepath.Base(m), "_")
			if n, err := strconv.Atoi(parts[1]); err == nil && n > newestMinor {
				newestMinor = n
			}
		}
	}
	var drv *common.Driver
	if os.Getenv("C18_NOLEAN") == "" {
		drv, err = common.StartDriver("C18")
		if err != nil {
			run.Errorf("driver: %v", err)
			return
		}
		defer drv.Close()
		e.drv = drv
	}
	e.chk = newChecker(repo)
	root, err := os.MkdirTemp("", "c18-mod-")
	if err != nil {
		run.Errorf("temp dir: %v", err)
		return
	}
	defer os.RemoveAll(root)
	e.root = root
	cwd, _ := os.Getwd()
	defer os.Chdir(cwd)

	findings, err := common.LoadFindings("C18")
	if err != nil {
		run.Errorf("known findings: %v", err)
	}

	var jobs []job
	var only string
	var replays []caseT
	if run.Replay != "" {
		b, err := os.ReadFile(run.Replay)
		if err != nil {
			run.Errorf("replay: %v", err)
			return
		}
		var rp struct {
			Input caseT `json:"input"`
		}
		if err := json.Unmarshal(b, &rp); err != nil {
			run.Errorf("replay: %v", err)
			return
		}
		jobs = []job{rp.Input.Job}
		only = rp.Input.Object
	} else {
		for _, f := range findings {
			var c caseT
			if err := json.Unmarshal(f.Replay, &c); err != nil {
				run.Errorf("finding %s: bad replay: %v", f.ID, err)
				continue
			}
			replays = append(replays, c)
			jobs = append(jobs, c.Job)
		}
		nKnown := len(jobs)
		std := quickStd
		nGen := 160
		if run.Thorough() {
			nGen = 1500
			if all, err := stdPackages(); err == nil {
				std = all
			} else {
				run.Errorf("go list std: %v", err)
			}
		}
		for _, p := range std {
			jobs = append(jobs, job{Mode: "std", ImportPath: p, Dest: "stdlib"})
		}
		for i := 0; i < nGen; i++ {
			jobs = append(jobs, genPackage(run.Rng, i))
		}
		_ = nKnown
	}
	if err := e.writeModule(jobs); err != nil {
		run.Errorf("writing the generated module: %v", err)
		return
	}
	if err := os.Chdir(root); err != nil {
		run.Errorf("chdir: %v", err)
		return
	}
	outs := e.execute(jobs)
	var lines []string
	var idx []int
	for i, o := range outs {
		if o.verr == nil {
			lines = append(lines, o.view.line(e.provided))
			idx = append(idx, i)
		}
	}
	var answers []string
	if os.Getenv("C18_NOLEAN") != "" {
		// self-check of the harness without the Lean driver: y := impl, g := ref
		for _, i := range idx {
			o := outs[i]
			im := o.impl
			if im == nil {
				im = &File{Err: "none"}
			}
			answers = append(answers, "(y "+encodeFile(im)+") (y0 "+encodeFile(im)+") (g "+encodeFile(refFile(o.view, e.provided))+")")
		}
	} else {
		answers, err = drv.AskAll(lines)
	}
	if err != nil {
		run.Errorf("driver: %v", err)
		return
	}
	ans := make([]string, len(outs))
	for k, i := range idx {
		ans[i] = answers[k]
	}
	for i, o := range outs {
		if i < len(replays) {
			// listed findings: replayed, not counted as cases
			c := replays[i]
			f := findings[i]
			if o.verr != nil {
				run.Res.Known = append(run.Res.Known, common.KnownReplay{ID: f.ID, Status: f.Status, What: f.What, StillFails: false, Detail: "replay package is not valid: " + o.verr.Error()})
				continue
			}
			failing := e.judge(o, ans[i], false, c.Object)
			if c.Object == "" {
				// package-level replay: only the package-level verdict counts
				var pk []string
				for _, s := range e.judge(o, ans[i], false, "") {
					if strings.HasPrefix(s, ":") {
						pk = append(pk, s)
					}
				}
				failing = pk
			}
			run.Res.Known = append(run.Res.Known, common.KnownReplay{ID: f.ID, Status: f.Status, What: f.What, StillFails: len(failing) > 0,
				Detail: fmt.Sprintf("%s %s: %v", c.Job.ImportPath, c.Object, failing)})
			continue
		}
		e.judge(o, ans[i], true, only)
	}
}
