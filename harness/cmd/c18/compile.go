package main

// "The wrapper compiles and every wrapper type implements its interface", decided by go/types
// (importer "source"). This is the reference for the compile part of the property; nothing in
// Lean models the type checker.

import (
	"fmt"
	"go/ast"
	"go/importer"
	"go/parser"
	"go/token"
	"go/types"
	"math/big"
	"path/filepath"
	"strings"
	"sync"
)

// checker holds the one shared source importer (it caches every package it has type-checked).
type checker struct {
	mu    sync.Mutex
	fset  *token.FileSet
	base  types.ImporterFrom
	extra map[string]*types.Package // packages the harness type-checked itself (generated module)
	repo  string
}

func newChecker(repo string) *checker {
	fset := token.NewFileSet()
	return &checker{fset: fset, base: importer.ForCompiler(fset, "source", nil).(types.ImporterFrom), extra: map[string]*types.Package{}, repo: repo}
}

// wimp is the importer seen by a wrapper file: it lives outside the extracted package's module.
type wimp struct{ c *checker }

func (w wimp) Import(path string) (*types.Package, error) { return w.ImportFrom(path, "", 0) }
func (w wimp) ImportFrom(path, dir string, mode types.ImportMode) (*types.Package, error) {
	if p, ok := w.c.extra[path]; ok {
		if internalPath(path) {
			return nil, fmt.Errorf("use of internal package %s not allowed", path)
		}
		return p, nil
	}
	if strings.HasPrefix(path, ".") {
		return nil, fmt.Errorf("relative import %q is not supported in a wrapper package", path)
	}
	if internalPath(path) {
		return nil, fmt.Errorf("use of internal package %s not allowed", path)
	}
	return w.c.base.ImportFrom(path, dir, 0)
}

// gimp is the importer seen by a package of the generated module.
type gimp struct{ c *checker }

func (g gimp) Import(path string) (*types.Package, error) {
	if p, ok := g.c.extra[path]; ok {
		return p, nil
	}
	return g.c.base.ImportFrom(path, "", 0)
}

// importStd type-checks (once) a package of the installed standard library.
func (c *checker) importStd(path string) (*types.Package, error) {
	c.mu.Lock()
	defer c.mu.Unlock()
	return c.base.ImportFrom(path, "", 0)
}

// checkSource type-checks a package of the generated module from its file contents and registers it.
func (c *checker) checkSource(path string, files map[string]string) (*types.Package, error) {
	c.mu.Lock()
	defer c.mu.Unlock()
	var afs []*ast.File
	for name, src := range files {
		af, err := parser.ParseFile(c.fset, path+"/"+name, src, 0)
		if err != nil {
			return nil, err
		}
		afs = append(afs, af)
	}
	conf := types.Config{Importer: gimp{c}}
	p, err := conf.Check(path, c.fset, afs, nil)
	if err != nil {
		return nil, err
	}
	c.extra[path] = p
	return p, nil
}

type compileResult struct {
	perObject map[string][]string // object name -> error messages
	pkgLevel  []string
}

func (r *compileResult) ok() bool { return len(r.perObject) == 0 && len(r.pkgLevel) == 0 }

// compile type-checks the generated file together with a companion file that declares Symbols and
// asserts, for every interface the property wants wrapped, that the wrapper type implements it.
func (c *checker) compile(src []byte, v *VPkg, p *parsed) *compileResult {
	c.mu.Lock()
	defer c.mu.Unlock()
	res := &compileResult{perObject: map[string][]string{}}
	// re-parse into the shared file set so that positions can be attributed
	fset := token.NewFileSet()
	wf, err := parser.ParseFile(fset, "wrapper.go", src, parser.ParseComments)
	if err != nil {
		res.pkgLevel = append(res.pkgLevel, "parse: "+err.Error())
		return res
	}
	var comp strings.Builder
	lineObj := map[int]string{}
	fmt.Fprintf(&comp, "package %s\n\nimport \"reflect\"\n", wf.Name.Name)
	line := 3
	var asserts []string
	for i := range v.Objs {
		o := &v.Objs[i]
		// (when the wrapper prefix is not an identifier no wrapper type can exist, and none can be named)
		if o.Kind == "iface" && o.Exported && !o.Generic && o.MethodSet && goIdent(mangle(v.ImportPath)) {
			asserts = append(asserts, o.Name)
		}
	}
	if len(asserts) > 0 {
		fmt.Fprintf(&comp, "import x_ %q\n", v.ImportPath)
		line++
	}
	fmt.Fprintf(&comp, "var Symbols = map[string]map[string]reflect.Value{}\n")
	line++
	for _, n := range asserts {
		fmt.Fprintf(&comp, "var _ x_.%s = %s%s{}\n", n, mangle(v.ImportPath), n)
		line++
		lineObj[line] = n
	}
	cf, err := parser.ParseFile(fset, "companion.go", comp.String(), 0)
	if err != nil {
		res.pkgLevel = append(res.pkgLevel, "companion: "+err.Error())
		return res
	}
	files := []*ast.File{wf, cf}
	if v.ImportPath == "os" || v.ImportPath == "log" {
		// the sandboxed replacements live next to the wrappers in the stdlib package
		rf, err := parser.ParseFile(fset, filepath.Join(c.repo, "stdlib", "restricted.go"), nil, 0)
		if err == nil {
			rf.Name.Name = wf.Name.Name
			files = append(files, rf)
		}
	}
	conf := types.Config{Importer: wimp{c}, Error: func(err error) {
		te, ok := err.(types.Error)
		if !ok {
			res.pkgLevel = append(res.pkgLevel, err.Error())
			return
		}
		pos := fset.Position(te.Pos)
		switch pos.Filename {
		case "wrapper.go":
			// positions of the re-parse equal those of the first parse (same text)
			obj, what := p.attribute(token.Pos(int(te.Pos) - fset.File(te.Pos).Base() + p.fset.File(p.ast.Pos()).Base()))
			if obj == "" {
				res.pkgLevel = append(res.pkgLevel, what+": "+te.Msg)
			} else {
				res.perObject[obj] = append(res.perObject[obj], what+": "+te.Msg)
			}
		case "companion.go":
			if obj, ok := lineObj[pos.Line]; ok {
				res.perObject[obj] = append(res.perObject[obj], "does not implement: "+te.Msg)
			} else {
				res.pkgLevel = append(res.pkgLevel, "companion: "+te.Msg)
			}
		default:
			res.pkgLevel = append(res.pkgLevel, pos.String()+": "+te.Msg)
		}
	}}
	conf.Check("wrapper.test/"+wf.Name.Name, fset, files, nil)
	return res
}

func reduceFrac(s string) string {
	r, ok := new(big.Rat).SetString(s)
	if !ok {
		return "bad:" + s
	}
	return r.Num().String() + "/" + r.Denom().String()
}

// compilePair type-checks two wrapper files as files of one destination package (plus the
// declaration of Symbols) and returns the errors that mention a redeclaration.
func (c *checker) compilePair(a, b []byte) []string {
	c.mu.Lock()
	defer c.mu.Unlock()
	fset := token.NewFileSet()
	fa, err := parser.ParseFile(fset, "wrapper_a.go", a, 0)
	if err != nil {
		return []string{"parse: " + err.Error()}
	}
	fb, err := parser.ParseFile(fset, "wrapper_b.go", b, 0)
	if err != nil {
		return []string{"parse: " + err.Error()}
	}
	cf, err := parser.ParseFile(fset, "companion.go", "package "+fa.Name.Name+"\n\nimport \"reflect\"\n\nvar Symbols = map[string]map[string]reflect.Value{}\n", 0)
	if err != nil {
		return []string{"companion: " + err.Error()}
	}
	var out []string
	conf := types.Config{Importer: wimp{c}, Error: func(err error) {
		if strings.Contains(err.Error(), "redeclared") {
			out = append(out, err.Error())
		}
	}}
	conf.Check("wrapper.test/"+fa.Name.Name, fset, []*ast.File{fa, fb, cf}, nil)
	if len(out) > 3 {
		out = out[:3]
	}
	return out
}
