package main

// Parse a wrapper file produced by the real extractor back into the abstract File.
// Anything that does not have the expected shape is recorded as "odd" (and therefore differs
// from every model), never dropped.

import (
	"encoding/hex"
	"go/ast"
	"go/constant"
	"go/parser"
	"go/token"
	"math/big"
	"strconv"
	"strings"
)

// span attributes a source range of the generated file to a package-level object.
type span struct {
	from, to token.Pos
	obj      string // object name, "" = package level
	what     string
}

type parsed struct {
	file  *File
	fset  *token.FileSet
	ast   *ast.File
	spans []span
}

// attribute returns the object a position of the generated file belongs to.
func (p *parsed) attribute(pos token.Pos) (string, string) {
	for _, s := range p.spans {
		if s.from <= pos && pos <= s.to {
			return s.obj, s.what
		}
	}
	return "", "package"
}

func isSel(e ast.Expr, x, sel string) bool {
	s, ok := e.(*ast.SelectorExpr)
	if !ok || s.Sel.Name != sel {
		return false
	}
	id, ok := s.X.(*ast.Ident)
	return ok && id.Name == x
}

// identOf reads `name` or `pkg.name`.
func identOf(e ast.Expr) (pkg, name string, ok bool) {
	switch x := e.(type) {
	case *ast.Ident:
		return "", x.Name, true
	case *ast.SelectorExpr:
		if id, ok := x.X.(*ast.Ident); ok {
			return id.Name, x.Sel.Name, true
		}
	}
	return "", "", false
}

// litValue canonicalises the text handed to constant.MakeFromLiteral.
func litValue(tok, text string) string {
	switch tok {
	case "INT":
		n, ok := new(big.Int).SetString(text, 0)
		if !ok {
			return "bad:" + text
		}
		return n.String()
	case "FLOAT":
		// the exact rational denoted by the literal text
		r, ok := new(big.Rat).SetString(text)
		if !ok {
			// beyond big.Rat's exponent limit: fall back to go/constant
			v := constant.MakeFromLiteral(text, token.FLOAT, 0)
			if v.Kind() == constant.Unknown {
				return "bad:" + text
			}
			return "big:" + v.ExactString()
		}
		return r.Num().String() + "/" + r.Denom().String()
	case "STRING":
		s, err := strconv.Unquote(text)
		if err != nil {
			return "bad:" + text
		}
		return hex.EncodeToString([]byte(s))
	}
	return "bad-token:" + text
}

// literalCall reads constant.MakeFromLiteral("text", token.TOK, 0).
func literalCall(c *ast.CallExpr) (tok, text string, ok bool) {
	if !isSel(c.Fun, "constant", "MakeFromLiteral") || len(c.Args) != 3 {
		return "", "", false
	}
	bl, ok1 := c.Args[0].(*ast.BasicLit)
	ts, ok2 := c.Args[1].(*ast.SelectorExpr)
	z, ok3 := c.Args[2].(*ast.BasicLit)
	if !ok1 || !ok2 || !ok3 || bl.Kind != token.STRING || z.Value != "0" {
		return "", "", false
	}
	x, ok := ts.X.(*ast.Ident)
	if !ok || x.Name != "token" {
		return "", "", false
	}
	text, err := strconv.Unquote(bl.Value)
	if err != nil {
		return "", "", false
	}
	return ts.Sel.Name, text, true
}

// entryOf reads the value of one map element.
func entryOf(key string, v ast.Expr) Entry {
	e := Entry{Key: key, Form: "odd", Name: exprText(v)}
	call, ok := v.(*ast.CallExpr)
	if !ok {
		return e
	}
	// reflect.ValueOf(&X).Elem()
	if s, ok := call.Fun.(*ast.SelectorExpr); ok && s.Sel.Name == "Elem" && len(call.Args) == 0 {
		inner, ok := s.X.(*ast.CallExpr)
		if !ok || !isSel(inner.Fun, "reflect", "ValueOf") || len(inner.Args) != 1 {
			return e
		}
		u, ok := inner.Args[0].(*ast.UnaryExpr)
		if !ok || u.Op != token.AND {
			return e
		}
		if p, n, ok := identOf(u.X); ok {
			return Entry{Key: key, Form: "addr", Pkg: p, Name: n}
		}
		return e
	}
	if !isSel(call.Fun, "reflect", "ValueOf") || len(call.Args) != 1 {
		return e
	}
	arg := call.Args[0]
	// (*X)(nil)
	if c, ok := arg.(*ast.CallExpr); ok {
		if par, ok := c.Fun.(*ast.ParenExpr); ok {
			if st, ok := par.X.(*ast.StarExpr); ok && len(c.Args) == 1 {
				if id, ok := c.Args[0].(*ast.Ident); ok && id.Name == "nil" {
					if p, n, ok := identOf(st.X); ok {
						form := "type"
						if strings.HasPrefix(key, "_") {
							form = "wrap"
						}
						return Entry{Key: key, Form: form, Pkg: p, Name: n}
					}
				}
			}
			return e
		}
		// constant.MakeFromLiteral("text", token.TOK, 0)
		if tok, text, ok := literalCall(c); ok {
			return Entry{Key: key, Form: "lit", Tok: tok, Val: litValue(tok, text), Raw: text}
		}
		// constant.BinaryOp(RE, token.ADD, constant.MakeImag(IM)), RE and IM INT or FLOAT literals
		if isSel(c.Fun, "constant", "BinaryOp") && len(c.Args) == 3 && isSel(c.Args[1], "token", "ADD") {
			re, ok1 := c.Args[0].(*ast.CallExpr)
			mi, ok2 := c.Args[2].(*ast.CallExpr)
			if ok1 && ok2 && isSel(mi.Fun, "constant", "MakeImag") && len(mi.Args) == 1 {
				if im, ok := mi.Args[0].(*ast.CallExpr); ok {
					rt, rtext, okr := literalCall(re)
					it, itext, oki := literalCall(im)
					if okr && oki && (rt == "INT" || rt == "FLOAT") && (it == "INT" || it == "FLOAT") {
						return Entry{Key: key, Form: "lit", Tok: "COMPLEX", Val: rt + ":" + litValue(rt, rtext) + ";" + it + ":" + litValue(it, itext),
							Raw: rt + ":" + rtext + ";" + it + ":" + itext}
					}
				}
			}
		}
		return e
	}
	if p, n, ok := identOf(arg); ok {
		return Entry{Key: key, Form: "value", Pkg: p, Name: n}
	}
	return e
}

func fieldsOf(fl *ast.FieldList) []WParam {
	var out []WParam
	if fl == nil {
		return out
	}
	for _, f := range fl.List {
		t := f.Type
		variadic := false
		if el, ok := t.(*ast.Ellipsis); ok {
			variadic = true
			t = el.Elt
		}
		ts := exprText(t)
		if len(f.Names) == 0 {
			out = append(out, WParam{Typ: ts, Variadic: variadic})
		}
		for _, n := range f.Names {
			out = append(out, WParam{Name: n.Name, Typ: ts, Variadic: variadic})
		}
	}
	return out
}

func sameParams(a, b []WParam) bool {
	if len(a) != len(b) {
		return false
	}
	for i := range a {
		if a[i] != b[i] {
			return false
		}
	}
	return true
}

// parseWrapper turns generated source into the abstract file.
func parseWrapper(src []byte, pkgName string) (*parsed, error) {
	fset := token.NewFileSet()
	af, err := parser.ParseFile(fset, "wrapper.go", src, parser.ParseComments)
	if err != nil {
		return nil, err
	}
	f := &File{Dest: af.Name.Name}
	p := &parsed{file: f, fset: fset, ast: af}

	// header: the `// +build` line
	for _, cg := range af.Comments {
		if cg.Pos() > af.Package {
			break
		}
		for _, c := range cg.List {
			if strings.HasPrefix(c.Text, "// +build ") {
				f.Tags = strings.TrimSpace(strings.TrimPrefix(c.Text, "// +build "))
			}
		}
	}

	// imports
	nReflect := 0
	var imps []string
	for _, is := range af.Imports {
		path, _ := strconv.Unquote(is.Path.Value)
		if is.Name != nil {
			f.Odd = append(f.Odd, "named import "+is.Name.Name)
		}
		if path == "reflect" {
			nReflect++
		}
		imps = append(imps, path)
		p.spans = append(p.spans, span{is.Pos(), is.End(), "", "import " + path})
	}
	if nReflect == 0 {
		f.Odd = append(f.Odd, "reflect not imported")
	}
	f.Imports = sortedSet(imps)

	wtypes := map[string]*WType{}
	var wtOrder []string
	for _, d := range af.Decls {
		switch d := d.(type) {
		case *ast.GenDecl:
			if d.Tok == token.IMPORT {
				continue
			}
			if d.Tok != token.TYPE || len(d.Specs) != 1 {
				f.Odd = append(f.Odd, "unexpected declaration "+d.Tok.String())
				continue
			}
			ts := d.Specs[0].(*ast.TypeSpec)
			w := &WType{Name: ts.Name.Name}
			// "// NAME is an interface wrapper for KEY type"
			if d.Doc != nil {
				t := strings.TrimSpace(d.Doc.Text())
				pre := ts.Name.Name + " is an interface wrapper for "
				if strings.HasPrefix(t, pre) && strings.HasSuffix(t, " type") {
					w.Iface = strings.TrimSuffix(strings.TrimPrefix(t, pre), " type")
				}
			}
			if w.Iface == "" {
				w.Odd = "no wrapper comment"
			}
			st, ok := ts.Type.(*ast.StructType)
			if !ok {
				w.Odd = "not a struct"
			} else {
				for i, fld := range st.Fields.List {
					if i == 0 {
						if len(fld.Names) != 1 || fld.Names[0].Name != "IValue" || exprText(fld.Type) != "interface{}" {
							w.Odd = "first field is not IValue interface{}"
						}
						continue
					}
					ft, ok := fld.Type.(*ast.FuncType)
					if len(fld.Names) != 1 || !ok || !strings.HasPrefix(fld.Names[0].Name, "W") {
						w.Odd = "unexpected field"
						continue
					}
					w.Methods = append(w.Methods, WMethod{Name: fld.Names[0].Name[1:], Params: fieldsOf(ft.Params), Results: fieldsOf(ft.Results),
						Odd: "field without method"})
				}
			}
			wtypes[w.Name] = w
			wtOrder = append(wtOrder, w.Name)
			p.spans = append(p.spans, span{d.Pos(), d.End(), w.Iface, "wrapper struct"})
		case *ast.FuncDecl:
			if d.Recv == nil {
				if d.Name.Name != "init" {
					f.Odd = append(f.Odd, "unexpected function "+d.Name.Name)
					continue
				}
				p.readInit(d)
				continue
			}
			// func (W NAME) M(params) results { [guard] [return] W.WM(args) }
			rt := ""
			if len(d.Recv.List) == 1 && len(d.Recv.List[0].Names) == 1 && d.Recv.List[0].Names[0].Name == "W" {
				rt = exprText(d.Recv.List[0].Type)
			}
			w := wtypes[rt]
			if w == nil {
				f.Odd = append(f.Odd, "method "+d.Name.Name+" of unknown receiver "+rt)
				continue
			}
			p.spans = append(p.spans, span{d.Pos(), d.End(), w.Iface, "method " + d.Name.Name})
			var m *WMethod
			for i := range w.Methods {
				if w.Methods[i].Name == d.Name.Name && w.Methods[i].Odd == "field without method" {
					m = &w.Methods[i]
					break
				}
			}
			if m == nil {
				w.Methods = append(w.Methods, WMethod{Name: d.Name.Name, Odd: "method without field"})
				continue
			}
			m.Odd = ""
			if !sameParams(m.Params, fieldsOf(d.Type.Params)) || !sameParams(m.Results, fieldsOf(d.Type.Results)) {
				m.Odd = "field and method signatures differ"
			}
			readBody(m, d.Body)
		}
	}
	for _, n := range wtOrder {
		f.WTypes = append(f.WTypes, *wtypes[n])
	}
	return p, nil
}

// readBody reads `[if W.WM == nil { return "" }] [return] W.WM(args...)`.
func readBody(m *WMethod, b *ast.BlockStmt) {
	stmts := b.List
	if len(stmts) == 2 {
		ifs, ok := stmts[0].(*ast.IfStmt)
		good := false
		if ok && ifs.Init == nil && ifs.Else == nil && len(ifs.Body.List) == 1 {
			if be, ok := ifs.Cond.(*ast.BinaryExpr); ok && be.Op == token.EQL && isSel(be.X, "W", "W"+m.Name) && exprText(be.Y) == "nil" {
				if rs, ok := ifs.Body.List[0].(*ast.ReturnStmt); ok && len(rs.Results) == 1 && exprText(rs.Results[0]) == `""` {
					good = true
				}
			}
		}
		if !good {
			m.Odd = "unexpected first statement"
			return
		}
		m.Guard = true
		stmts = stmts[1:]
	}
	if len(stmts) != 1 {
		m.Odd = "unexpected body"
		return
	}
	var call *ast.CallExpr
	switch s := stmts[0].(type) {
	case *ast.ReturnStmt:
		if len(s.Results) == 1 {
			call, _ = s.Results[0].(*ast.CallExpr)
			m.Ret = true
		}
	case *ast.ExprStmt:
		call, _ = s.X.(*ast.CallExpr)
	}
	if call == nil || !isSel(call.Fun, "W", "W"+m.Name) {
		m.Odd = "body does not forward to W.W" + m.Name
		return
	}
	for i, a := range call.Args {
		m.Args = append(m.Args, WArg{Name: exprText(a), Ellipsis: call.Ellipsis.IsValid() && i == len(call.Args)-1})
	}
}

// readInit reads `Symbols[KEY] = map[string]reflect.Value{...}`.
func (p *parsed) readInit(d *ast.FuncDecl) {
	f := p.file
	if len(d.Body.List) != 1 {
		f.Odd = append(f.Odd, "init has not exactly one statement")
		return
	}
	as, ok := d.Body.List[0].(*ast.AssignStmt)
	if !ok || len(as.Lhs) != 1 || len(as.Rhs) != 1 || as.Tok != token.ASSIGN {
		f.Odd = append(f.Odd, "init: not an assignment")
		return
	}
	ix, ok := as.Lhs[0].(*ast.IndexExpr)
	if !ok || exprText(ix.X) != "Symbols" {
		f.Odd = append(f.Odd, "init: not Symbols[...]")
		return
	}
	if bl, ok := ix.Index.(*ast.BasicLit); ok && bl.Kind == token.STRING {
		f.SymKey, _ = strconv.Unquote(bl.Value)
	} else {
		f.Odd = append(f.Odd, "init: key is not a string literal")
	}
	cl, ok := as.Rhs[0].(*ast.CompositeLit)
	if !ok || exprText(cl.Type) != "map[string]reflect.Value" {
		f.Odd = append(f.Odd, "init: not a map[string]reflect.Value literal")
		return
	}
	// section comments tell which of the three template ranges an element came from
	type mark struct {
		pos token.Pos
		sec string
	}
	var marks []mark
	for _, cg := range p.ast.Comments {
		for _, c := range cg.List {
			if c.Pos() < cl.Pos() || c.Pos() > cl.End() {
				continue
			}
			switch strings.TrimSpace(strings.TrimPrefix(c.Text, "//")) {
			case "function, constant and variable definitions":
				marks = append(marks, mark{c.Pos(), "val"})
			case "type definitions":
				marks = append(marks, mark{c.Pos(), "typ"})
			case "interface wrapper definitions":
				marks = append(marks, mark{c.Pos(), "wrap"})
			}
		}
	}
	for _, el := range cl.Elts {
		kv, ok := el.(*ast.KeyValueExpr)
		if !ok {
			f.Odd = append(f.Odd, "map element without key")
			continue
		}
		kl, ok := kv.Key.(*ast.BasicLit)
		if !ok || kl.Kind != token.STRING {
			f.Odd = append(f.Odd, "map key is not a string literal")
			continue
		}
		key, _ := strconv.Unquote(kl.Value)
		sec := ""
		for _, m := range marks {
			if m.pos < kv.Pos() {
				sec = m.sec
			}
		}
		e := entryOf(key, kv.Value)
		obj := key
		switch sec {
		case "val":
			f.Vals = append(f.Vals, e)
		case "typ":
			f.Typs = append(f.Typs, e)
		case "wrap":
			f.Wraps = append(f.Wraps, e)
			obj = strings.TrimPrefix(key, "_")
		default:
			f.Odd = append(f.Odd, "map element outside the three sections: "+key)
		}
		p.spans = append(p.spans, span{kv.Pos(), kv.End(), obj, sec + " entry"})
	}
}
