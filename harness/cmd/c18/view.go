package main

// The go/types view of an input package (what both Lean models are applied to), its protocol
// rendering, the divergence classes (decidable predicates of the input) and the reference
// rendering of the property (ref), written directly from the property text and independent of
// extract.go and of the Lean files.

import (
	"encoding/hex"
	"fmt"
	"go/ast"
	"go/constant"
	"go/parser"
	"go/token"
	"go/types"
	"math/big"
	"path/filepath"
	"strings"
	"unicode"

	"verif/harness/common"
)

type VParam struct {
	Name    string   `json:"name"`
	Typ     string   `json:"typ"`
	Elem    string   `json:"elem,omitempty"` // element type string when Typ is a slice type literal
	IsSlice bool     `json:"is_slice,omitempty"`
	Deps    []string `json:"deps,omitempty"` // paths of the packages named in Typ
	IsStr   bool     `json:"is_string,omitempty"` // the underlying type is the basic type string

	unexportedType bool              // names a non-exported type, field or method of some package
	internalType   bool              // names a type of an internal/ or vendor/ package
	depNames       map[string]string // path -> package name, for Deps
}

type VMethod struct {
	Name     string   `json:"name"`
	Exported bool     `json:"exported"`
	Variadic bool     `json:"variadic"`
	Params   []VParam `json:"params"`
	Results  []VParam `json:"results"`
}

// VNum is the real or imaginary part of an untyped complex constant.
type VNum struct {
	Kind string `json:"kind"` // int | float
	Int  string `json:"int,omitempty"`
	Num  string `json:"num,omitempty"`
	Den  string `json:"den,omitempty"`
	Prec uint   `json:"prec,omitempty"`
}

func (n *VNum) sexp() string {
	if n.Kind == "int" {
		return common.L("int", n.Int)
	}
	return common.L("flt", n.Num, n.Den, fmt.Sprint(n.Prec))
}

// exact renders the value the part must be bound to ("INT:n" | "FLOAT:num/den").
func (n *VNum) exact() string {
	if n.Kind == "int" {
		return "INT:" + n.Int
	}
	return "FLOAT:" + n.Num + "/" + n.Den
}

// rounded: fixConst's float printing does not preserve this part (F18-1).
func (n *VNum) rounded() bool {
	return n.Kind == "float" && (!isPow2(n.Den) || n.Prec != 0)
}

// numView renders an Int or Float constant (nil: neither).
func numView(v constant.Value) *VNum {
	switch v.Kind() {
	case constant.Int:
		return &VNum{Kind: "int", Int: v.ExactString()}
	case constant.Float:
		n := &VNum{Kind: "float"}
		var r *big.Rat
		switch x := constant.Val(v).(type) {
		case *big.Rat:
			r = x
		case *big.Float:
			r, _ = x.Rat(nil)
			n.Prec = x.Prec()
		}
		if r == nil {
			return nil
		}
		n.Num, n.Den = r.Num().String(), r.Denom().String()
		return n
	}
	return nil
}

type VObj struct {
	Name     string `json:"name"`
	Exported bool   `json:"exported"`
	Kind     string `json:"kind"` // const | func | var | type | iface
	// constants
	Untyped bool   `json:"untyped,omitempty"`
	CKind   string `json:"ckind,omitempty"` // int | float | string | bool | complex (untyped only)
	Int     string `json:"int,omitempty"`
	Num     string `json:"num,omitempty"`
	Den     string `json:"den,omitempty"`
	Prec    uint   `json:"prec,omitempty"` // 0: go/constant holds a rational; else the precision of its big.Float
	Str     string `json:"str,omitempty"`  // hex
	Bool    bool   `json:"bool,omitempty"`
	Re      *VNum  `json:"re,omitempty"` // complex
	Im      *VNum  `json:"im,omitempty"`
	// functions, types
	Generic bool `json:"generic,omitempty"`
	// interfaces
	Embeds    int       `json:"embeds,omitempty"`
	MethodSet bool      `json:"method_set,omitempty"`
	Methods   []VMethod `json:"methods,omitempty"`

	cval constant.Value
}

type VPkg struct {
	ImportPath string   `json:"import_path"` // what the extractor is told the package is imported as
	Path       string   `json:"path"`        // types.Package.Path() as the extractor's importer sees it
	Name       string   `json:"name"`
	Dest       string   `json:"dest"`
	Minor      int      `json:"minor"`
	Tags       []string `json:"tags"`
	Objs       []VObj   `json:"objs"`
	Direct     []string `json:"direct_imports"` // types.Package.Imports(): what the package imports itself

	names map[string][]string // package name -> paths, over everything the wrapper file would have to import
}

// nameTable maps a package name to the import paths that carry it among: the packages named in the
// signatures of exported methods of exported non-generic interfaces, the package itself, and the
// fixed imports of a wrapper file.
func (v *VPkg) nameTable() map[string][]string {
	if v.names != nil {
		return v.names
	}
	t := map[string][]string{}
	add := func(name, path string) {
		if !contains(t[name], path) {
			t[name] = append(t[name], path)
		}
	}
	add("reflect", "reflect")
	add("constant", "go/constant")
	add("token", "go/token")
	add(v.Name, v.ImportPath)
	for i := range v.Objs {
		o := &v.Objs[i]
		if o.Kind != "iface" || !o.Exported || o.Generic {
			continue
		}
		for _, m := range o.Methods {
			if !m.Exported {
				continue
			}
			for _, p := range append(append([]VParam{}, m.Params...), m.Results...) {
				for path, name := range p.depNames {
					if path == v.Path {
						path = v.ImportPath
					}
					add(name, path)
				}
			}
		}
	}
	v.names = t
	return t
}

func internalPath(p string) bool {
	for _, el := range strings.Split(p, "/") {
		if el == "internal" {
			return true
		}
	}
	return strings.HasPrefix(p, "vendor/")
}

// paramView renders one parameter or result.
func paramView(v *types.Var) VParam {
	p := VParam{Name: v.Name()}
	seen := map[string]bool{}
	q := func(pkg *types.Package) string {
		if !seen[pkg.Path()] {
			seen[pkg.Path()] = true
			p.Deps = append(p.Deps, pkg.Path())
			if p.depNames == nil {
				p.depNames = map[string]string{}
			}
			p.depNames[pkg.Path()] = pkg.Name()
		}
		if internalPath(pkg.Path()) {
			p.internalType = true
		}
		return pkg.Name()
	}
	p.Typ = types.TypeString(v.Type(), q)
	if sl, ok := v.Type().(*types.Slice); ok {
		p.IsSlice = true
		p.Elem = types.TypeString(sl.Elem(), func(pkg *types.Package) string { return pkg.Name() })
	}
	if b, ok := v.Type().Underlying().(*types.Basic); ok && b.Kind() == types.String {
		p.IsStr = true
	}
	p.unexportedType = namesUnexported(v.Type(), map[types.Type]bool{})
	return p
}

// namesUnexported: does the printed form of t mention a non-exported type, struct field or method of a package?
func namesUnexported(t types.Type, seen map[types.Type]bool) bool {
	if seen[t] {
		return false
	}
	seen[t] = true
	switch t := t.(type) {
	case *types.Named:
		if t.Obj().Pkg() != nil && !t.Obj().Exported() {
			return true
		}
		if ta := t.TypeArgs(); ta != nil {
			for i := 0; i < ta.Len(); i++ {
				if namesUnexported(ta.At(i), seen) {
					return true
				}
			}
		}
		return false
	case *types.Pointer:
		return namesUnexported(t.Elem(), seen)
	case *types.Slice:
		return namesUnexported(t.Elem(), seen)
	case *types.Array:
		return namesUnexported(t.Elem(), seen)
	case *types.Chan:
		return namesUnexported(t.Elem(), seen)
	case *types.Map:
		return namesUnexported(t.Key(), seen) || namesUnexported(t.Elem(), seen)
	case *types.Signature:
		for _, tu := range []*types.Tuple{t.Params(), t.Results()} {
			for i := 0; i < tu.Len(); i++ {
				if namesUnexported(tu.At(i).Type(), seen) {
					return true
				}
			}
		}
		return false
	case *types.Struct:
		for i := 0; i < t.NumFields(); i++ {
			// a non-exported field of a struct type literal belongs to the declaring package
			if !t.Field(i).Exported() || namesUnexported(t.Field(i).Type(), seen) {
				return true
			}
		}
		return false
	case *types.Interface:
		for i := 0; i < t.NumMethods(); i++ {
			if !t.Method(i).Exported() || namesUnexported(t.Method(i).Type(), seen) {
				return true
			}
		}
		for i := 0; i < t.NumEmbeddeds(); i++ {
			if namesUnexported(t.EmbeddedType(i), seen) {
				return true
			}
		}
		return false
	}
	return false
}

func tupleView(t *types.Tuple) []VParam {
	out := make([]VParam, t.Len())
	for i := range out {
		out[i] = paramView(t.At(i))
	}
	return out
}

// viewOf builds the view of a type-checked package.
func viewOf(p *types.Package, importPath string) *VPkg {
	v := &VPkg{ImportPath: importPath, Path: p.Path(), Name: p.Name(), Direct: []string{}}
	for _, ip := range p.Imports() {
		v.Direct = append(v.Direct, ip.Path())
	}
	sc := p.Scope()
	for _, name := range sc.Names() {
		o := sc.Lookup(name)
		vo := VObj{Name: name, Exported: o.Exported()}
		switch o := o.(type) {
		case *types.Const:
			vo.Kind = "const"
			if b, ok := o.Type().(*types.Basic); ok && b.Info()&types.IsUntyped != 0 {
				vo.Untyped = true
				vo.cval = o.Val()
				switch o.Val().Kind() {
				case constant.Int:
					vo.CKind, vo.Int = "int", o.Val().ExactString()
				case constant.Float:
					vo.CKind = "float"
					var r *big.Rat
					switch x := constant.Val(o.Val()).(type) {
					case *big.Rat:
						r = x
					case *big.Float:
						r, _ = x.Rat(nil)
						vo.Prec = x.Prec()
					}
					if r == nil {
						vo.CKind = "complex" // cannot happen; rendered as something no literal matches
					} else {
						vo.Num, vo.Den = r.Num().String(), r.Denom().String()
					}
				case constant.String:
					vo.CKind, vo.Str = "string", hex.EncodeToString([]byte(constant.StringVal(o.Val())))
				case constant.Bool:
					vo.CKind, vo.Bool = "bool", constant.BoolVal(o.Val())
				default:
					vo.CKind = "complex"
					vo.Re, vo.Im = numView(constant.Real(o.Val())), numView(constant.Imag(o.Val()))
					if vo.Re == nil || vo.Im == nil {
						vo.CKind = "unknown" // cannot happen; rendered as something no binding matches
					}
				}
			}
		case *types.Func:
			vo.Kind = "func"
			vo.Generic = o.Type().(*types.Signature).TypeParams().Len() > 0
		case *types.Var:
			vo.Kind = "var"
		case *types.TypeName:
			vo.Kind = "type"
			// (the module's go version keeps gotypesalias=0, as for the yaegi binary: aliases are resolved)
			if t, ok := o.Type().(*types.Named); ok {
				vo.Generic = t.TypeParams().Len() > 0
			}
			if it, ok := o.Type().Underlying().(*types.Interface); ok {
				vo.Kind = "iface"
				vo.Embeds = it.NumEmbeddeds()
				vo.MethodSet = it.IsMethodSet()
				for i := 0; i < it.NumMethods(); i++ {
					m := it.Method(i)
					sg := m.Type().(*types.Signature)
					vo.Methods = append(vo.Methods, VMethod{Name: m.Name(), Exported: m.Exported(), Variadic: sg.Variadic(),
						Params: tupleView(sg.Params()), Results: tupleView(sg.Results())})
				}
			}
		default:
			vo.Kind = "other"
		}
		v.Objs = append(v.Objs, vo)
	}
	return v
}

// ---- protocol rendering ----

func paramsSexp(ps []VParam) string {
	items := make([]string, len(ps))
	for i, p := range ps {
		el := "()"
		if p.IsSlice {
			el = common.L(common.Q(p.Elem))
		}
		items[i] = common.L(common.Q(p.Name), common.Q(p.Typ), el, common.QL(p.Deps), common.B(p.IsStr))
	}
	return common.L(items...)
}

func (o *VObj) sexp() string {
	var k string
	switch o.Kind {
	case "const":
		cv := "(typed)"
		if o.Untyped {
			switch o.CKind {
			case "int":
				cv = common.L("int", o.Int)
			case "float":
				cv = common.L("flt", o.Num, o.Den, fmt.Sprint(o.Prec))
			case "string":
				cv = common.L("str", common.Q(o.Str))
			case "bool":
				cv = common.L("bool", common.B(o.Bool))
			case "complex":
				cv = common.L("cplx", o.Re.sexp(), o.Im.sexp())
			default:
				cv = "(unknown)"
			}
		}
		k = common.L("const", common.B(o.Untyped), cv)
	case "func":
		k = common.L("func", common.B(o.Generic))
	case "var":
		k = "(var)"
	case "type":
		k = common.L("type", common.B(o.Generic))
	case "iface":
		ms := []string{"iface", common.B(o.Generic), fmt.Sprint(o.Embeds), common.B(o.MethodSet)}
		for _, m := range o.Methods {
			ms = append(ms, common.L("m", common.Q(m.Name), common.B(m.Exported), common.B(m.Variadic), paramsSexp(m.Params), paramsSexp(m.Results)))
		}
		k = common.L(ms...)
	default:
		k = "(other)"
	}
	return common.L("o", common.Q(o.Name), common.B(o.Exported), k)
}

// line is the protocol line: both models applied to the view.
func (v *VPkg) line(provided []string) string {
	parts := []string{"C18", "gen", common.QL(provided), fmt.Sprint(newestMinor),
		common.L("pkg", common.Q(v.ImportPath), common.Q(v.Path), common.Q(v.Name), common.Q(v.Dest), fmt.Sprint(v.Minor), common.QL(v.Tags), common.QL(v.Direct))}
	for i := range v.Objs {
		parts = append(parts, v.Objs[i].sexp())
	}
	return strings.Join(parts, " ")
}

// ---- divergence classes: decidable predicates of the input ----

func isPow2(s string) bool {
	n, ok := new(big.Int).SetString(s, 10)
	if !ok || n.Sign() <= 0 {
		return false
	}
	return new(big.Int).And(n, new(big.Int).Sub(n, big.NewInt(1))).Sign() == 0
}

func contains(xs []string, s string) bool {
	for _, x := range xs {
		if x == s {
			return true
		}
	}
	return false
}

// classesOf lists every divergence class (decidable predicate of the input) an object belongs to,
// in a fixed order; the first one is the label used when the object diverges. Empty = inside the
// domain of the theorems, where the implementation must agree with the reference.
// (The classes of the findings repaired by 7677ad0, 2873e96, a2117ce, 87ef90c, eb1f965, 169d4db and
// 246eb1c are gone: blank / W / clashing parameter names, String methods of other signatures,
// constant-only packages, interface{ any }, constraint interfaces with methods, untyped complex
// constants, import paths that are not identifiers, packages called os / log outside the standard
// library all lie inside the domain now.)
func (v *VPkg) classesOf(o *VObj, restricted []string) []string {
	var cs []string
	add := func(c string) {
		if !contains(cs, c) {
			cs = append(cs, c)
		}
	}
	if !o.Exported {
		return nil
	}
	switch o.Kind {
	case "const":
		if o.Untyped && o.CKind == "float" && (!isPow2(o.Den) || o.Prec != 0) {
			add("float-const-rounded")
		}
		if o.Untyped && o.CKind == "complex" && (o.Re.rounded() || o.Im.rounded()) {
			add("float-const-rounded") // the parts of a complex constant are printed like float constants
		}
	case "iface":
		if o.Generic || !o.MethodSet {
			return cs
		}
		for _, m := range o.Methods {
			if !m.Exported {
				continue
			}
			all := append(append([]VParam{}, m.Params...), m.Results...)
			for _, p := range all {
				if v.Path != v.ImportPath && contains(p.Deps, v.Path) {
					add("relative-path-self-import")
				}
			}
			for _, p := range all {
				if p.internalType {
					add("iface-method-internal-type")
				}
			}
			for _, p := range all {
				if p.unexportedType {
					add("iface-method-unexported-name")
				}
			}
			for _, p := range all {
				for _, name := range p.depNames {
					if len(v.nameTable()[name]) > 1 {
						add("iface-method-package-name-clash")
					}
				}
			}
		}
		for _, m := range o.Methods {
			if !m.Exported {
				add("iface-unexported-method")
			}
		}
	}
	// the package is called like a package the wrapper file imports for itself: every line that names
	// reflect / constant / token (or the package) may be the one the compiler complains about
	if fixedImportClash(v) {
		add("package-named-like-wrapper-import")
	}
	return cs
}

func (v *VPkg) classOf(o *VObj, restricted []string) string {
	if cs := v.classesOf(o, restricted); len(cs) > 0 {
		return cs[0]
	}
	return ""
}

// importClasses are the classes whose effect shows in the import block of the wrapper.
var importClasses = []string{"relative-path-self-import", "iface-method-internal-type", "iface-method-package-name-clash"}

// ---- the reference rendering of the property ----

func refParam(p VParam, name string, variadic bool) WParam {
	if variadic {
		return WParam{Name: name, Typ: p.Elem, Variadic: true}
	}
	return WParam{Name: name, Typ: p.Typ}
}

// mangle: the wrapper type prefix must be an identifier whatever the import path is: letters and
// digits are kept, every other character becomes `_`.
func mangle(importPath string) string {
	return strings.Map(func(r rune) rune {
		if unicode.IsLetter(r) || unicode.IsDigit(r) {
			return r
		}
		return '_'
	}, "_"+importPath+"_")
}

// refNames: the names of the parameters and results of a wrapper method. A name that can be kept is
// kept; a parameter that has none, is blank or is called like the receiver gets a<i>, a result called
// like the receiver r<i>, followed by as many `_` as it takes to differ from every other name of the method.
func refNames(m VMethod) (pn, rn []string) {
	taken := map[string]bool{"W": true}
	for _, p := range m.Params {
		taken[p.Name] = true
	}
	for _, p := range m.Results {
		taken[p.Name] = true
	}
	invent := func(pre string, i int) string {
		n := pre + fmt.Sprint(i)
		for taken[n] {
			n += "_"
		}
		taken[n] = true
		return n
	}
	for i, p := range m.Params {
		switch p.Name {
		case "", "_", "W":
			pn = append(pn, invent("a", i))
		default:
			pn = append(pn, p.Name)
		}
	}
	for i, p := range m.Results {
		if p.Name == "W" {
			rn = append(rn, invent("r", i))
		} else {
			rn = append(rn, p.Name)
		}
	}
	return pn, rn
}

// refFile says what the wrapper of the package must contain according to the property:
// every exported, non-generic object that can be bound, under its own name; variables by address;
// untyped constants as exact literals; for every exported interface a wrapper with exactly its
// exported methods, parameters named (refNames), the last one `...T` and forwarded with `...` iff the
// method is variadic, results preserved, the nil guard on `String() string` only; imports = what the
// emitted text names.
func refFile(v *VPkg, provided []string) *File {
	f := &File{Dest: v.Dest, SymKey: v.ImportPath + "/" + v.Name}
	imps := []string{"reflect"}
	id := func(name string) (string, string) {
		if v.ImportPath == v.Name && contains(provided, v.Name+name) {
			return "", v.Name + name // the stdlib wrapper package provides a sandboxed replacement
		}
		return v.Name, name
	}
	usesPkg := false
	for i := range v.Objs {
		o := &v.Objs[i]
		if !o.Exported {
			continue
		}
		pk, nm := id(o.Name)
		switch o.Kind {
		case "const":
			e := Entry{Key: o.Name, Form: "value", Pkg: pk, Name: nm}
			if o.Untyped {
				switch o.CKind {
				case "int":
					e = Entry{Key: o.Name, Form: "lit", Tok: "INT", Val: o.Int}
				case "float":
					e = Entry{Key: o.Name, Form: "lit", Tok: "FLOAT", Val: o.Num + "/" + o.Den}
				case "string":
					e = Entry{Key: o.Name, Form: "lit", Tok: "STRING", Val: o.Str}
				case "complex":
					e = Entry{Key: o.Name, Form: "lit", Tok: "COMPLEX", Val: o.Re.exact() + ";" + o.Im.exact()}
				}
			}
			if e.Form == "lit" {
				imps = append(imps, "go/constant", "go/token")
			}
			f.Vals = append(f.Vals, e)
			usesPkg = usesPkg || (e.Form != "lit" && e.Pkg != "")
		case "func":
			if !o.Generic {
				f.Vals = append(f.Vals, Entry{Key: o.Name, Form: "value", Pkg: pk, Name: nm})
				usesPkg = usesPkg || pk != ""
			}
		case "var":
			f.Vals = append(f.Vals, Entry{Key: o.Name, Form: "addr", Pkg: pk, Name: nm})
			usesPkg = usesPkg || pk != ""
		case "type":
			if !o.Generic {
				f.Typs = append(f.Typs, Entry{Key: o.Name, Form: "type", Pkg: pk, Name: nm})
				usesPkg = usesPkg || pk != ""
			}
		case "iface":
			if o.Generic || !o.MethodSet {
				continue
			}
			f.Typs = append(f.Typs, Entry{Key: o.Name, Form: "type", Pkg: pk, Name: nm})
			usesPkg = usesPkg || pk != ""
			wn := mangle(v.ImportPath) + o.Name
			f.Wraps = append(f.Wraps, Entry{Key: "_" + o.Name, Form: "wrap", Name: wn})
			w := WType{Name: wn, Iface: o.Name}
			for _, m := range o.Methods {
				if !m.Exported {
					continue
				}
				// `return ""` is a statement of the method only for String() string
				wm := WMethod{Name: m.Name, Ret: len(m.Results) > 0,
					Guard: m.Name == "String" && len(m.Params) == 0 && len(m.Results) == 1 && m.Results[0].IsStr}
				pn, rn := refNames(m)
				for j, p := range m.Params {
					n := pn[j]
					last := m.Variadic && j == len(m.Params)-1
					wm.Params = append(wm.Params, refParam(p, n, last))
					wm.Args = append(wm.Args, WArg{Name: n, Ellipsis: last})
					for _, d := range p.Deps {
						if d != v.ImportPath && d != v.Path {
							imps = append(imps, d)
						}
					}
				}
				for j, p := range m.Results {
					wm.Results = append(wm.Results, refParam(p, rn[j], false))
					for _, d := range p.Deps {
						if d != v.ImportPath && d != v.Path {
							imps = append(imps, d)
						}
					}
				}
				w.Methods = append(w.Methods, wm)
			}
			f.WTypes = append(f.WTypes, w)
		}
	}
	if usesPkg {
		imps = append(imps, v.ImportPath) // imported iff some binding names it (an unused import does not compile)
	}
	f.Imports = sortedSet(imps)
	f.Tags = refTags(v)
	return f
}

// refTags: wrappers of standard-library packages are guarded by the Go release they were
// generated with (`go1.N`, with `,!go1.N+1` below the newest release the tree knows), plus the
// tags given by the user. (Not part of the property text; compared as a side condition.)
func refTags(v *VPkg) string {
	var parts []string
	if !strings.Contains(v.ImportPath, ".") {
		parts = append(parts, fmt.Sprintf("go1.%d", v.Minor))
		if v.Minor < newestMinor {
			parts = append(parts, fmt.Sprintf("!go1.%d", v.Minor+1))
		}
	}
	if v.ImportPath == "log/syslog" {
		parts = append(parts, "!windows", "!nacl", "!plan9")
	}
	for _, t := range v.Tags {
		if t != "" {
			parts = append(parts, t)
		}
	}
	return strings.Join(parts, ",")
}

// newestMinor is the newest Go release the stdlib directory of the repository has wrappers for.
var newestMinor = 22

// providedByStdlib lists the identifiers /repo/stdlib/restricted.go declares (the sandboxed
// replacements the wrapper of os and log may be bound to).
func providedByStdlib(repo string) ([]string, error) {
	fset := token.NewFileSet()
	f, err := parser.ParseFile(fset, filepath.Join(repo, "stdlib", "restricted.go"), nil, 0)
	if err != nil {
		return nil, err
	}
	var out []string
	for _, d := range f.Decls {
		switch d := d.(type) {
		case *ast.FuncDecl:
			if d.Recv == nil {
				out = append(out, d.Name.Name)
			}
		case *ast.GenDecl:
			if d.Tok == token.TYPE {
				for _, s := range d.Specs {
					out = append(out, s.(*ast.TypeSpec).Name.Name)
				}
			}
		}
	}
	return out, nil
}
