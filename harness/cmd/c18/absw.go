package main

// The abstract wrapper file: what a generated wrapper says, with layout, comments and the
// spelling of literals removed. Four producers render into this one shape:
//   impl  – the output of the real extract.Extractor parsed back with go/parser (parse.go)
//   y     – Lean Model/Extract.lean genY applied to the go/types view of the package
//   g     – Lean Spec/GoExtract.lean (what the property demands)
//   ref   – an independent Go rendering of the property from go/types (ref.go)

import (
	"fmt"
	"bytes"
	"go/ast"
	"go/parser"
	"go/printer"
	"go/token"
	"sort"
	"strings"
)

// Entry is one "key": reflect.ValueOf(...) line of the Symbols map.
type Entry struct {
	Key  string
	Form string // value | addr | lit | type | wrap | odd
	Pkg  string // qualifier of the bound identifier ("" = bare identifier)
	Name string // bound identifier (value, addr, type, wrap)
	Tok  string // lit: INT | FLOAT | STRING | COMPLEX
	Val  string // lit: canonical value (INT decimal, FLOAT reduced "num/den", STRING hex of the bytes, COMPLEX "TOK:re;TOK:im")
	Raw  string // lit: the text handed to constant.MakeFromLiteral (COMPLEX: "TOK:text;TOK:text"; not part of the rendering)
}

func (e Entry) String() string {
	id := e.Name
	if e.Pkg != "" {
		id = e.Pkg + "." + e.Name
	}
	switch e.Form {
	case "lit":
		return fmt.Sprintf("%q: lit %s %s", e.Key, e.Tok, e.Val)
	default:
		return fmt.Sprintf("%q: %s %s", e.Key, e.Form, id)
	}
}

// WParam is a parameter or result of a wrapper method.
type WParam struct {
	Name     string
	Typ      string // for a variadic parameter: the element type
	Variadic bool
}

func (p WParam) String() string {
	t := normType(p.Typ)
	if p.Variadic {
		t = "..." + t
	}
	if p.Name == "" {
		return t
	}
	return p.Name + " " + t
}

// WArg is one forwarded argument.
type WArg struct {
	Name     string
	Ellipsis bool
}

// WMethod is one forwarding method (and the W-field of the same name).
type WMethod struct {
	Name    string
	Params  []WParam
	Results []WParam
	Args    []WArg
	Ret     bool // the call is returned
	Guard   bool // preceded by `if W.W<name> == nil { return "" }`
	Odd     string
}

func (m WMethod) String() string {
	ps := make([]string, len(m.Params))
	for i, p := range m.Params {
		ps[i] = p.String()
	}
	rs := make([]string, len(m.Results))
	for i, p := range m.Results {
		rs[i] = p.String()
	}
	as := make([]string, len(m.Args))
	for i, a := range m.Args {
		as[i] = a.Name
		if a.Ellipsis {
			as[i] += "..."
		}
	}
	s := fmt.Sprintf("%s(%s) (%s) {", m.Name, strings.Join(ps, ", "), strings.Join(rs, ", "))
	if m.Guard {
		s += " nilguard;"
	}
	if m.Ret {
		s += " return"
	}
	s += fmt.Sprintf(" W.W%s(%s) }", m.Name, strings.Join(as, ", "))
	if m.Odd != "" {
		s += " ODD:" + m.Odd
	}
	return s
}

// WType is one interface wrapper struct with its methods.
type WType struct {
	Name    string
	Iface   string
	Methods []WMethod
	Odd     string
}

func (w WType) String() string {
	ms := make([]string, len(w.Methods))
	for i, m := range w.Methods {
		ms[i] = m.String()
	}
	s := "type " + w.Name + " wraps " + w.Iface + " [" + strings.Join(ms, "; ") + "]"
	if w.Odd != "" {
		s += " ODD:" + w.Odd
	}
	return s
}

// File is the abstract wrapper file.
type File struct {
	Err     string // non-empty: no file was produced (Extract returned an error)
	Dest    string
	SymKey  string
	Tags    string
	Imports []string // the set of imported paths, sorted
	Vals    []Entry
	Typs    []Entry
	Wraps   []Entry
	WTypes  []WType
	Odd     []string
}

// header renders the package-level part.
func (f *File) header() string {
	if f.Err != "" {
		return "error:" + f.Err
	}
	s := fmt.Sprintf("dest=%s symkey=%q tags=%q imports=%v", f.Dest, f.SymKey, f.Tags, f.Imports)
	if len(f.Odd) > 0 {
		s += " ODD:" + strings.Join(f.Odd, ";")
	}
	return s
}

// order renders the order of keys of the three sections and of the wrapper types.
func (f *File) order() string {
	k := func(es []Entry) string {
		out := make([]string, len(es))
		for i, e := range es {
			out[i] = e.Key
		}
		return strings.Join(out, ",")
	}
	w := make([]string, len(f.WTypes))
	for i, t := range f.WTypes {
		w[i] = t.Iface
	}
	return "vals:" + k(f.Vals) + " typs:" + k(f.Typs) + " wraps:" + k(f.Wraps) + " wtypes:" + strings.Join(w, ",")
}

// object renders everything the file says about the package-level object `name`
// ("" when the file does not mention it). Duplicated keys are all rendered.
func (f *File) object(name string) string {
	if f.Err != "" {
		return "error"
	}
	var parts []string
	for _, e := range f.Vals {
		if e.Key == name {
			parts = append(parts, "val "+e.String())
		}
	}
	for _, e := range f.Typs {
		if e.Key == name {
			parts = append(parts, "typ "+e.String())
		}
	}
	for _, e := range f.Wraps {
		if e.Key == "_"+name {
			parts = append(parts, "wrap "+e.String())
		}
	}
	for _, w := range f.WTypes {
		if w.Iface == name {
			parts = append(parts, w.String())
		}
	}
	return strings.Join(parts, " | ")
}

// mentioned lists the object names the file has something about.
func (f *File) mentioned() []string {
	m := map[string]bool{}
	for _, e := range f.Vals {
		m[e.Key] = true
	}
	for _, e := range f.Typs {
		m[e.Key] = true
	}
	for _, e := range f.Wraps {
		m[strings.TrimPrefix(e.Key, "_")] = true
	}
	for _, w := range f.WTypes {
		m[w.Iface] = true
	}
	out := make([]string, 0, len(m))
	for k := range m {
		out = append(out, k)
	}
	sort.Strings(out)
	return out
}

var normCache = map[string]string{}

// normType puts a type string (types.TypeString output or go/printer output) into one spelling:
// the go/printer rendering of its parse.
func normType(s string) string {
	if v, ok := normCache[s]; ok {
		return v
	}
	out := s
	if e, err := parser.ParseExpr(s); err == nil {
		out = exprText(e)
	}
	out = strings.Join(strings.Fields(out), " ")
	normCache[s] = out
	return out
}

func sortedSet(xs []string) []string {
	m := map[string]bool{}
	for _, x := range xs {
		m[x] = true
	}
	out := make([]string, 0, len(m))
	for x := range m {
		out = append(out, x)
	}
	sort.Strings(out)
	return out
}

// exprText is the go/printer rendering of an expression on one line.
func exprText(e ast.Expr) string {
	var b bytes.Buffer
	if err := printer.Fprint(&b, token.NewFileSet(), e); err != nil {
		return "unprintable"
	}
	return strings.Join(strings.Fields(b.String()), " ")
}
