package main

// Reader for the S-expression answers of the Lean driver, and decoding into the abstract File.

import (
	"fmt"
	"strings"
)

type sx struct {
	atom string
	list []*sx
	isL  bool
}

func hexv(c byte) byte {
	switch {
	case c >= '0' && c <= '9':
		return c - '0'
	case c >= 'a' && c <= 'f':
		return c - 'a' + 10
	case c >= 'A' && c <= 'F':
		return c - 'A' + 10
	}
	return 0
}

type sxReader struct {
	s string
	i int
}

func (r *sxReader) ws() {
	for r.i < len(r.s) && (r.s[r.i] == ' ' || r.s[r.i] == '\t') {
		r.i++
	}
}

func (r *sxReader) read() (*sx, error) {
	r.ws()
	if r.i >= len(r.s) {
		return nil, fmt.Errorf("unexpected end")
	}
	switch c := r.s[r.i]; {
	case c == '(':
		r.i++
		out := &sx{isL: true}
		for {
			r.ws()
			if r.i >= len(r.s) {
				return nil, fmt.Errorf("unclosed list")
			}
			if r.s[r.i] == ')' {
				r.i++
				return out, nil
			}
			x, err := r.read()
			if err != nil {
				return nil, err
			}
			out.list = append(out.list, x)
		}
	case c == ')':
		return nil, fmt.Errorf("unexpected )")
	case c == '"':
		r.i++
		var b strings.Builder
		for {
			if r.i >= len(r.s) {
				return nil, fmt.Errorf("unclosed string")
			}
			c := r.s[r.i]
			switch {
			case c == '"':
				r.i++
				return &sx{atom: b.String()}, nil
			case c == '\\' && r.i+3 < len(r.s) && r.s[r.i+1] == 'x':
				b.WriteByte(hexv(r.s[r.i+2])<<4 | hexv(r.s[r.i+3]))
				r.i += 4
			case c == '\\' && r.i+1 < len(r.s):
				switch r.s[r.i+1] {
				case 'n':
					b.WriteByte('\n')
				case 't':
					b.WriteByte('\t')
				default:
					b.WriteByte(r.s[r.i+1])
				}
				r.i += 2
			default:
				b.WriteByte(c)
				r.i++
			}
		}
	default:
		j := r.i
		for j < len(r.s) && !strings.ContainsRune(" \t()\"", rune(r.s[j])) {
			j++
		}
		a := r.s[r.i:j]
		r.i = j
		return &sx{atom: a}, nil
	}
}

func parseAll(s string) ([]*sx, error) {
	r := &sxReader{s: s}
	var out []*sx
	for {
		r.ws()
		if r.i >= len(r.s) {
			return out, nil
		}
		x, err := r.read()
		if err != nil {
			return nil, err
		}
		out = append(out, x)
	}
}

func (x *sx) head() string {
	if x.isL && len(x.list) > 0 && !x.list[0].isL {
		return x.list[0].atom
	}
	return ""
}

func (x *sx) at(i int) *sx {
	if x != nil && x.isL && i < len(x.list) {
		return x.list[i]
	}
	return &sx{}
}

func (x *sx) strs() []string {
	var out []string
	if x != nil {
		for _, e := range x.list {
			out = append(out, e.atom)
		}
	}
	return out
}

func decParams(x *sx) []WParam {
	var out []WParam
	for _, p := range x.list {
		out = append(out, WParam{Name: p.at(0).atom, Typ: p.at(1).atom, Variadic: p.at(2).atom == "1"})
	}
	return out
}

func decEntries(x *sx) []Entry {
	var out []Entry
	for _, e := range x.list[1:] {
		// (e key form pkg name tok val)
		out = append(out, Entry{Key: e.at(1).atom, Form: e.at(2).atom, Pkg: e.at(3).atom, Name: e.at(4).atom, Tok: e.at(5).atom, Val: e.at(6).atom})
	}
	return out
}

// decodeFile reads (file dest symkey tags (imports…) (vals E…) (typs E…) (wraps E…) (wtypes W…)) or (err msg).
func decodeFile(x *sx) (*File, error) {
	switch x.head() {
	case "err":
		return &File{Err: x.at(1).atom}, nil
	case "file":
	default:
		return nil, fmt.Errorf("not a file: %q", x.head())
	}
	if len(x.list) != 9 {
		return nil, fmt.Errorf("file with %d items", len(x.list))
	}
	f := &File{Dest: x.at(1).atom, SymKey: x.at(2).atom, Tags: x.at(3).atom}
	f.Imports = sortedSet(x.at(4).strs())
	f.Vals, f.Typs, f.Wraps = decEntries(x.at(5)), decEntries(x.at(6)), decEntries(x.at(7))
	for _, w := range x.at(8).list[1:] {
		// (w name iface M…), M = (m name ret guard (P…) (R…) (A…))
		wt := WType{Name: w.at(1).atom, Iface: w.at(2).atom}
		for _, m := range w.list[3:] {
			wm := WMethod{Name: m.at(1).atom, Ret: m.at(2).atom == "1", Guard: m.at(3).atom == "1",
				Params: decParams(m.at(4)), Results: decParams(m.at(5))}
			for _, a := range m.at(6).list {
				wm.Args = append(wm.Args, WArg{Name: a.at(0).atom, Ellipsis: a.at(1).atom == "1"})
			}
			wt.Methods = append(wt.Methods, wm)
		}
		f.WTypes = append(f.WTypes, wt)
	}
	// literal values travel as decimal atoms; floats as "num/den" (reduced by the receiver)
	for i := range f.Vals {
		if f.Vals[i].Form == "lit" && f.Vals[i].Tok == "FLOAT" {
			f.Vals[i].Val = reduceFrac(f.Vals[i].Val)
		}
		if f.Vals[i].Form == "lit" && f.Vals[i].Tok == "COMPLEX" {
			f.Vals[i].Val = reduceParts(f.Vals[i].Val)
		}
	}
	return f, nil
}

// encodeFile is the inverse of decodeFile (used by the self-check mode that runs without Lean).
func encodeFile(f *File) string {
	if f.Err != "" {
		return "(err " + qa(f.Err) + ")"
	}
	ents := func(tag string, es []Entry) string {
		items := []string{tag}
		for _, e := range es {
			items = append(items, "(e "+strings.Join([]string{qa(e.Key), qa(e.Form), qa(e.Pkg), qa(e.Name), qa(e.Tok), qa(e.Val)}, " ")+")")
		}
		return "(" + strings.Join(items, " ") + ")"
	}
	ps := func(ps []WParam) string {
		items := []string{}
		for _, p := range ps {
			v := "0"
			if p.Variadic {
				v = "1"
			}
			items = append(items, "("+qa(p.Name)+" "+qa(p.Typ)+" "+v+")")
		}
		return "(" + strings.Join(items, " ") + ")"
	}
	b := func(x bool) string {
		if x {
			return "1"
		}
		return "0"
	}
	wts := []string{"wtypes"}
	for _, w := range f.WTypes {
		items := []string{"w", qa(w.Name), qa(w.Iface)}
		for _, m := range w.Methods {
			as := []string{}
			for _, a := range m.Args {
				as = append(as, "("+qa(a.Name)+" "+b(a.Ellipsis)+")")
			}
			items = append(items, "(m "+qa(m.Name)+" "+b(m.Ret)+" "+b(m.Guard)+" "+ps(m.Params)+" "+ps(m.Results)+" ("+strings.Join(as, " ")+"))")
		}
		wts = append(wts, "("+strings.Join(items, " ")+")")
	}
	imps := []string{}
	for _, i := range f.Imports {
		imps = append(imps, qa(i))
	}
	return "(file " + qa(f.Dest) + " " + qa(f.SymKey) + " " + qa(f.Tags) + " (" + strings.Join(imps, " ") + ") " +
		ents("vals", f.Vals) + " " + ents("typs", f.Typs) + " " + ents("wraps", f.Wraps) + " (" + strings.Join(wts, " ") + "))"
}

func qa(s string) string {
	var b strings.Builder
	b.WriteByte('"')
	for i := 0; i < len(s); i++ {
		c := s[i]
		switch {
		case c == '"' || c == '\\':
			b.WriteByte('\\')
			b.WriteByte(c)
		case c < 32 || c > 126:
			fmt.Fprintf(&b, "\\x%02x", c)
		default:
			b.WriteByte(c)
		}
	}
	b.WriteByte('"')
	return b.String()
}

// reduceParts canonicalises "TOK:v;TOK:v" (FLOAT parts travel as unreduced fractions).
func reduceParts(s string) string {
	parts := strings.Split(s, ";")
	for i, p := range parts {
		if strings.HasPrefix(p, "FLOAT:") {
			parts[i] = "FLOAT:" + reduceFrac(strings.TrimPrefix(p, "FLOAT:"))
		}
	}
	return strings.Join(parts, ";")
}
