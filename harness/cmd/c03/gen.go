package main

import (
	"fmt"
	"math/big"
	"math/rand"
	"strconv"
	"strings"

	"verif/harness/common"
)

func (c caseT) line() string {
	switch c.Kind {
	case "repr":
		return "C03 repr " + c.Type + " " + c.Value
	case "prog":
		return c.progLine()
	}
	return "C03 bad"
}

func (c caseT) source() string {
	switch c.Kind {
	case "repr":
		return "representableConst(" + c.Value + ", " + c.Type + ")"
	case "prog":
		d, _ := c.decl()
		if c.Form != "" {
			d += "  [" + c.Form + "]"
		}
		return d
	case "cplx":
		return "var c0 = " + c.Type + "(" + c.Expr.src() + ")"
	case "raw":
		return c.Ctx + ": " + c.Src
	}
	return ""
}

func implOfLocal(c caseT) outcome {
	switch c.Kind {
	case "repr":
		return implRepr(c)
	case "prog", "cplx", "raw":
		return implProg(c)
	}
	return "bad-case"
}

func refOf(c caseT) outcome {
	switch c.Kind {
	case "repr":
		return refRepr(c)
	case "prog":
		return refProg(c)
	case "cplx":
		return refCplx(c)
	case "raw":
		return refRaw(c)
	}
	return "bad-case"
}

func nontrivial(c caseT) bool {
	switch c.Kind {
	case "repr":
		return reprNontrivial(c)
	case "prog":
		if c.Ctx == "block" {
			return len(c.Block) >= 2
		}
		return c.Expr.depth() >= 2
	}
	return false
}

func describe(run *common.Run, c caseT) {
	switch c.Kind {
	case "repr":
		run.Hit("repr:kind=" + c.Type)
	case "prog":
		count := func(e *exprT) {
			e.walk(func(x *exprT) {
				switch x.Op {
				case "un", "bin":
					run.Hit("op:" + x.K)
				case "conv":
					run.Hit("conv:" + x.K)
				case "lit":
					run.Hit("lit:" + x.K)
					if x.K == "int" && len(x.V) > 19 {
						run.Hit("lit:int>2^63")
					}
				default:
					run.Hit("node:" + x.Op)
				}
			})
		}
		if c.Ctx == "block" {
			run.Hit(fmt.Sprintf("block:len=%d", len(c.Block)))
			for _, s := range c.Block {
				if s.Expr == nil {
					run.Hit("block:implicit")
				} else {
					count(s.Expr)
				}
			}
		} else {
			run.Hit(fmt.Sprintf("depth=%d", c.Expr.depth()))
			count(c.Expr)
		}
	}
}

// ---------------------------------------------------------------------------------------------
// seeded, type-directed generator of constant expressions

type gen struct {
	r    *rand.Rand
	iota bool // iota allowed (const contexts)
}

var floatKinds = []string{"float32", "float64"}

func lit(k, v string) *exprT      { return &exprT{Op: "lit", K: k, V: v} }
func un(a string, x *exprT) *exprT { return &exprT{Op: "un", K: a, X: x} }
func bin(a string, x, y *exprT) *exprT {
	return &exprT{Op: "bin", K: a, X: x, Y: y}
}
func conv(t string, x *exprT) *exprT { return &exprT{Op: "conv", K: t, X: x} }
func par(x *exprT) *exprT            { return &exprT{Op: "par", X: x} }

// fixParens inserts the parentheses the printer needs to keep the tree shape.
func fixParens(e *exprT) *exprT {
	if e.X != nil {
		e.X = fixParens(e.X)
	}
	if e.Y != nil {
		e.Y = fixParens(e.Y)
	}
	switch e.Op {
	case "un":
		if e.X.Op == "bin" || (e.X.Op == "un" && e.K == e.X.K && (e.K == "neg" || e.K == "pos")) {
			e.X = par(e.X)
		}
	case "bin":
		p := prec[e.K]
		if e.X.Op == "bin" && prec[e.X.K] < p {
			e.X = par(e.X)
		}
		if e.Y.Op == "bin" && prec[e.Y.K] <= p {
			e.Y = par(e.Y)
		}
	}
	return e
}

// intLit: small, boundary or huge (up to 2^200) non-negative integer literal
func (g *gen) intLit(maxBits int) *exprT {
	var v *big.Int
	switch g.r.Intn(10) {
	case 0, 1, 2, 3:
		v = big.NewInt(int64(g.r.Intn(10)))
	case 4, 5:
		v = big.NewInt(int64(g.r.Intn(300)))
	case 6:
		// boundary of some width; with the 512-bit limit of the toolchain among them (2^512 - 1 is the largest
		// literal it accepts; the interpreter has no limit on literals, F03-21)
		b := []uint{7, 8, 15, 16, 31, 32, 63, 64, 7, 8, 15, 16, 31, 32, 63, 64, 511, 512}[g.r.Intn(18)]
		if b > 64 && maxBits < 200 {
			b = 64
		}
		v = new(big.Int).Lsh(big.NewInt(1), b)
		v.Add(v, big.NewInt(int64(g.r.Intn(3)-1)))
		if b >= 511 {
			if g.r.Intn(3) == 0 {
				v.Lsh(v, uint(g.r.Intn(100))) // well beyond the limit
			}
			return lit("int", v.String())
		}
	default:
		bits := 1 + g.r.Intn(maxBits)
		v = new(big.Int).Rand(g.r, new(big.Int).Lsh(big.NewInt(1), uint(bits)))
	}
	if maxBits < 200 && v.BitLen() > maxBits {
		v.Rsh(v, uint(v.BitLen()-maxBits))
	}
	return lit("int", v.String())
}

func (g *gen) runeLit() *exprT {
	rs := []rune{'a', 'z', 'A', '0', ' ', '~', 0, 0x7f, 0xe9, 0x4e16, 0x1f600, 0x10ffff}
	return lit("rune", fmt.Sprint(int64(rs[g.r.Intn(len(rs))])))
}

func (g *gen) floatLit() *exprT {
	switch g.r.Intn(8) {
	case 0:
		return lit("float", fmt.Sprintf("%d.0", g.r.Intn(20)))
	case 1:
		return lit("float", []string{"0.5", "0.25", "1.5", "2.5", "0.125", "3.75"}[g.r.Intn(6)])
	case 2:
		return lit("float", []string{"0.1", "0.2", "0.3", "1.1", "3.14159", "2.718281828"}[g.r.Intn(6)])
	case 3:
		return lit("float", fmt.Sprintf("%de%d", 1+g.r.Intn(9), g.r.Intn(40)))
	case 4:
		return lit("float", fmt.Sprintf("%d.%de-%d", g.r.Intn(10), g.r.Intn(100), 1+g.r.Intn(30)))
	case 5:
		return lit("float", fmt.Sprintf("%d.%d", g.r.Intn(1000), g.r.Intn(1000)))
	case 6:
		// huge / tiny
		return lit("float", []string{"1e38", "3.4e38", "3.5e38", "1e39", "1.7e308", "1.8e308", "1e-45", "1e-46", "5e-324", "1e-330", "16777217.0", "9007199254740993.0"}[g.r.Intn(12)])
	default:
		v := new(big.Int).Rand(g.r, new(big.Int).Lsh(big.NewInt(1), uint(1+g.r.Intn(200))))
		return lit("float", v.String()+".0")
	}
}

// classes: "I" untyped integer (int or rune kind), "F" untyped float, "B" untyped bool, "S" untyped string,
// any other string: that basic type (typed)
func isIntType(t string) bool   { _, ok := kindBits[t]; return ok }
func isFloatType(t string) bool { return t == "float32" || t == "float64" }

func (g *gen) typedIntLit(t string) *exprT {
	b := int(kindBits[t])
	if kindSigned(t) {
		b--
	}
	switch g.r.Intn(6) {
	case 0:
		// at the boundary: max, max+1, 2^bits-1, 2^bits
		one := big.NewInt(1)
		v := new(big.Int).Lsh(one, uint(b))
		switch g.r.Intn(5) {
		case 0:
			v.Sub(v, one)
		case 1:
		case 2:
			v.Lsh(one, kindBits[t]).Sub(v, one)
		case 3:
			v.Lsh(one, kindBits[t])
		case 4:
			v.Sub(v, big.NewInt(2))
		}
		return lit("int", v.String())
	case 1:
		return g.intLit(200)
	default:
		return g.intLit(b)
	}
}

func (g *gen) num(cls string, d int) *exprT {
	r := g.r
	if d <= 0 {
		switch {
		case cls == "I":
			switch x := r.Intn(20); {
			case x < 3:
				return g.runeLit()
			case x < 5 && g.iota:
				return &exprT{Op: "iota"}
			}
			return g.intLit(200)
		case cls == "F":
			if r.Intn(4) == 0 {
				return g.num("I", 0)
			}
			return g.floatLit()
		case isIntType(cls):
			switch x := r.Intn(10); {
			case x < 5:
				return conv(cls, g.typedIntLit(cls))
			case x < 6:
				return conv(cls, lit("float", fmt.Sprintf("%d.0", r.Intn(100))))
			case x < 7 && g.iota:
				return &exprT{Op: "iota"}
			case x < 8:
				return g.runeLit()
			}
			return g.typedIntLit(cls) // untyped operand, converted implicitly
		case isFloatType(cls):
			switch x := r.Intn(10); {
			case x < 5:
				return conv(cls, g.num("F", 0))
			case x < 6:
				return conv(cls, g.intLit(60))
			}
			return g.num("F", 0)
		}
		return g.intLit(60)
	}
	x := r.Intn(100)
	switch {
	case cls == "I":
		switch {
		case x < 40:
			return bin([]string{"add", "sub", "mul", "quo"}[r.Intn(4)], g.num("I", d-1), g.num("I", r.Intn(d)))
		case x < 55:
			return bin([]string{"rem", "and", "or", "xor", "andNot"}[r.Intn(5)], g.num("I", d-1), g.num("I", r.Intn(d)))
		case x < 72:
			return g.shift("I", d)
		case x < 84:
			return un([]string{"neg", "pos", "bitNot"}[r.Intn(3)], g.num("I", d-1))
		case x < 92:
			return par(g.num("I", d-1))
		case x < 95:
			return &exprT{Op: "len", X: g.str(d - 1)}
		default:
			return g.num("I", d-1)
		}
	case cls == "F":
		switch {
		case x < 60:
			a, b := g.num("F", d-1), g.num([]string{"F", "I"}[r.Intn(2)], r.Intn(d))
			if r.Intn(2) == 0 {
				a, b = b, a
			}
			return bin([]string{"add", "sub", "mul", "quo"}[r.Intn(4)], a, b)
		case x < 75:
			return un([]string{"neg", "pos"}[r.Intn(2)], g.num("F", d-1))
		case x < 85:
			return par(g.num("F", d-1))
		default:
			return g.num("F", d-1)
		}
	case isIntType(cls):
		switch {
		case x < 35:
			a, b := g.num(cls, d-1), g.num([]string{cls, cls, "I"}[r.Intn(3)], r.Intn(d))
			if r.Intn(2) == 0 {
				a, b = b, a
			}
			return bin([]string{"add", "sub", "mul", "quo"}[r.Intn(4)], a, b)
		case x < 50:
			a, b := g.num(cls, d-1), g.num([]string{cls, cls, "I"}[r.Intn(3)], r.Intn(d))
			if r.Intn(2) == 0 {
				a, b = b, a
			}
			if r.Intn(12) == 0 {
				// a constant zero divisor of the type: converted (`T(0)`), folded (`T(3) - T(3)`) or untyped (F03-4)
				z := []*exprT{conv(cls, lit("int", "0")), par(bin("sub", conv(cls, lit("int", "3")), conv(cls, lit("int", "3")))), lit("int", "0")}[r.Intn(3)]
				return bin([]string{"quo", "rem"}[r.Intn(2)], a, z)
			}
			return bin([]string{"rem", "and", "or", "xor", "andNot"}[r.Intn(5)], a, b)
		case x < 62:
			return g.shift(cls, d)
		case x < 72:
			return un([]string{"neg", "pos", "bitNot"}[r.Intn(3)], g.num(cls, d-1))
		case x < 78:
			return par(g.num(cls, d-1))
		default:
			// conversion from another class
			from := []string{"I", "I", "F", intKinds[r.Intn(len(intKinds))], floatKinds[r.Intn(2)]}[r.Intn(5)]
			return conv(cls, g.num(from, d-1))
		}
	case isFloatType(cls):
		switch {
		case x < 50:
			a, b := g.num(cls, d-1), g.num([]string{cls, cls, "F", "I"}[r.Intn(4)], r.Intn(d))
			if r.Intn(2) == 0 {
				a, b = b, a
			}
			return bin([]string{"add", "sub", "mul", "quo"}[r.Intn(4)], a, b)
		case x < 62:
			return un([]string{"neg", "pos"}[r.Intn(2)], g.num(cls, d-1))
		case x < 70:
			return par(g.num(cls, d-1))
		default:
			from := []string{"I", "F", "F", intKinds[r.Intn(len(intKinds))], floatKinds[r.Intn(2)]}[r.Intn(5)]
			return conv(cls, g.num(from, d-1))
		}
	}
	return g.intLit(60)
}

func (g *gen) shift(cls string, d int) *exprT {
	r := g.r
	var cnt *exprT
	switch x := r.Intn(12); {
	case x < 6:
		cnt = lit("int", fmt.Sprint(r.Intn(70)))
	case x < 7:
		cnt = lit("int", fmt.Sprint(r.Intn(210)))
	case x < 8:
		switch r.Intn(3) {
		case 0:
			// the limits of the toolchain: results of more than 512 bits, counts above 1074 (F03-9)
			cnt = lit("int", fmt.Sprint([]int{500, 509, 510, 511, 512, 513, 1023, 1073, 1074, 1075, 1076, 2000}[r.Intn(12)]))
		default:
			cnt = lit("int", fmt.Sprint(200+r.Intn(1000)))
		}
	case x < 9:
		switch r.Intn(4) {
		case 0:
			// a typed floating-point count with an integral (or not) value (F03-13)
			cnt = conv(floatKinds[r.Intn(2)], []*exprT{lit("int", fmt.Sprint(r.Intn(66))), lit("float", fmt.Sprintf("%d.0", r.Intn(40))),
				lit("float", "2.5"), un("neg", lit("int", "1"))}[r.Intn(4)])
		case 1:
			// a typed count of signed type, possibly negative
			cnt = conv([]string{"int", "int8", "int64"}[r.Intn(3)], un("neg", lit("int", fmt.Sprint(r.Intn(5)))))
		default:
			cnt = conv([]string{"uint", "uint8", "int", "uint64"}[r.Intn(4)], lit("int", fmt.Sprint(r.Intn(66))))
		}
	case x < 10:
		cnt = lit("float", fmt.Sprintf("%d.0", r.Intn(40)))
	case x < 11:
		cnt = g.num("I", r.Intn(d))
	default:
		cnt = lit("rune", fmt.Sprint(r.Intn(64)))
	}
	left := g.num(cls, d-1)
	if cls == "I" && r.Intn(8) == 0 {
		// the result of a constant shift is an untyped integer constant whatever the kind of the shifted constant
		left = floatIntLit(r)
	}
	return bin([]string{"shl", "shr"}[r.Intn(2)], left, cnt)
}

func (g *gen) str(d int) *exprT {
	r := g.r
	if d <= 0 || r.Intn(3) == 0 {
		return lit("str", strconv.QuoteToASCII([]string{"", "a", "abc", "héllo", "x y", "\x00\xff", "日本語", "Z"}[r.Intn(8)]))
	}
	switch x := r.Intn(10); {
	case x < 6:
		return bin("add", g.str(d-1), g.str(r.Intn(d)))
	case x < 7:
		return par(g.str(d - 1))
	case x < 8:
		return conv("string", g.str(d-1))
	case x < 9:
		if r.Intn(3) == 0 {
			// string(<integer constant expression>): in the later walks of a constant declaration the operator node
			// still has the type string that the conversion left on it (F03-14)
			return conv("string", bin([]string{"add", "sub", "or"}[r.Intn(3)], g.runeLit(), lit("int", fmt.Sprint(r.Intn(20)))))
		}
		if r.Intn(4) == 0 {
			// string(<integer constant>): code points outside the int32 range (F03-22), typed and untyped
			e := g.intLit(40)
			if r.Intn(3) == 0 {
				e = conv([]string{"int64", "uint32", "int32", "uint64"}[r.Intn(4)], e)
			}
			return conv("string", e)
		}
		return conv("string", g.runeLit())
	}
	return g.str(d - 1)
}

func (g *gen) boolean(d int) *exprT {
	r := g.r
	if d <= 0 {
		return lit("bool", []string{"true", "false"}[r.Intn(2)])
	}
	switch x := r.Intn(20); {
	case x < 10:
		cls := []string{"I", "I", "F", "S", intKinds[r.Intn(len(intKinds))], floatKinds[r.Intn(2)]}[r.Intn(6)]
		op := []string{"eq", "ne", "lt", "le", "gt", "ge"}[r.Intn(6)]
		if cls == "S" {
			return bin(op, g.str(d-1), g.str(r.Intn(d)))
		}
		other := cls
		if r.Intn(3) == 0 {
			other = []string{"I", "F"}[r.Intn(2)]
		}
		return bin(op, g.num(cls, d-1), g.num(other, r.Intn(d)))
	case x < 13:
		return bin([]string{"eq", "ne"}[r.Intn(2)], g.boolean(d-1), g.boolean(r.Intn(d)))
	case x < 16:
		return bin([]string{"land", "lor"}[r.Intn(2)], g.boolean(d-1), g.boolean(r.Intn(d)))
	case x < 18:
		return un("not", g.boolean(d-1))
	case x < 19:
		if r.Intn(6) == 0 {
			// an ill-typed shift of a boolean constant: a compile error for Go (F03-19)
			return bin([]string{"shl", "shr"}[r.Intn(2)], g.boolean(0), lit("int", fmt.Sprint(r.Intn(4))))
		}
		return par(g.boolean(d - 1))
	}
	return conv("bool", g.boolean(d-1))
}

// mutate: with small probability break the typing discipline somewhere (malformed stream)
func (g *gen) mutate(e *exprT) {
	var nodes []*exprT
	e.walk(func(x *exprT) {
		if x.Op == "bin" || x.Op == "un" || x.Op == "conv" {
			nodes = append(nodes, x)
		}
	})
	if len(nodes) == 0 {
		return
	}
	n := nodes[g.r.Intn(len(nodes))]
	switch n.Op {
	case "bin":
		all := []string{"add", "sub", "mul", "quo", "rem", "and", "or", "xor", "andNot", "shl", "shr", "eq", "lt", "land"}
		n.K = all[g.r.Intn(len(all))]
	case "un":
		n.K = []string{"neg", "pos", "bitNot", "not"}[g.r.Intn(4)]
	case "conv":
		all := append(append([]string{"string", "bool"}, intKinds...), floatKinds...)
		n.K = all[g.r.Intn(len(all))]
	}
}

// one generated program case
func (g *gen) progCase(maxDepth int) caseT {
	r := g.r
	c := caseT{Kind: "prog"}
	rootClasses := []string{"I", "I", "I", "F", "F", "B", "S", "T", "T", "T", "TF"}
	pick := func() (string, *exprT) {
		cls := rootClasses[r.Intn(len(rootClasses))]
		d := 1 + r.Intn(maxDepth)
		if r.Intn(8) == 0 {
			d = 0
		}
		var e *exprT
		switch cls {
		case "B":
			e = g.boolean(d)
		case "S":
			e = g.str(d)
		case "T":
			cls = intKinds[r.Intn(len(intKinds))]
			e = g.num(cls, d)
		case "TF":
			cls = floatKinds[r.Intn(2)]
			e = g.num(cls, d)
		default:
			e = g.num(cls, d)
		}
		if r.Intn(25) == 0 {
			g.mutate(e)
		}
		return cls, fixParens(e)
	}
	switch x := r.Intn(20); {
	case x < 6:
		c.Ctx = "var"
		g.iota = false
		_, c.Expr = pick()
		// how the real program uses the declaration: as written, `c0 := e` inside main, or with an interface destination
		// (`var c0 interface{} = e` at package level / inside main: the interface holds the constant converted to its
		// default type; constant expressions are folded there too since 7171cc6 / 674fd4c / 287aa9d)
		switch r.Intn(8) {
		case 0:
			c.Form = "iface"
		case 1:
			c.Form = "ifacelocal"
		case 2:
			c.Form = "short"
		}
	case x < 12:
		c.Ctx = "const"
		g.iota = r.Intn(4) == 0
		_, c.Expr = pick()
	case x < 14:
		g.iota = false
		c.Ctx = "varT"
		var cls string
		cls, c.Expr = pick()
		c.Type = declType(r, cls)
	case x < 16:
		g.iota = r.Intn(4) == 0
		c.Ctx = "constT"
		var cls string
		cls, c.Expr = pick()
		c.Type = declType(r, cls)
	default:
		c.Ctx = "block"
		g.iota = true
		n := 1 + r.Intn(6)
		for i := 0; i < n; i++ {
			if i > 0 && r.Intn(2) == 0 {
				c.Block = append(c.Block, specT{})
				continue
			}
			cls, e := pick()
			s := specT{Expr: e}
			if r.Intn(4) == 0 {
				s.Type = declType(r, cls)
			}
			c.Block = append(c.Block, s)
		}
	}
	return c
}

// declType: a declared type that fits the class of the expression (mostly)
func declType(r *rand.Rand, cls string) string {
	if r.Intn(12) == 0 {
		all := append(append([]string{"string", "bool"}, intKinds...), floatKinds...)
		return all[r.Intn(len(all))]
	}
	switch cls {
	case "I":
		return append(append([]string{}, intKinds...), "float64", "float32")[r.Intn(len(intKinds)+2)]
	case "F":
		return []string{"float32", "float64", "float64", "int", "int8"}[r.Intn(5)]
	case "B":
		return "bool"
	case "S":
		return "string"
	}
	return cls
}

func generate(run *common.Run) []caseT {
	cases := genRepr(run)
	cases = append(cases, fixedProgCases()...)
	if run.Thorough() {
		cases = append(cases, froundCases(run.Rng, 6000)...)
		cases = append(cases, dtypeCases(run.Rng, 3000)...)
	} else {
		cases = append(cases, froundCases(run.Rng, 400)...)
		cases = append(cases, dtypeCases(run.Rng, 300)...)
	}
	n := 3000
	if run.Thorough() {
		n = 120000
	}
	g := &gen{r: run.Rng}
	seen := map[string]bool{}
	for i := 0; i < n; i++ {
		var c caseT
		for try := 0; try < 6; try++ {
			c = g.progCase(5)
			// prefer programs the Go type checker accepts (3 out of 4), keep a share of rejected ones
			if hugeShift(c) {
				try--
				continue
			}
			if refProg(c) != "reject" || run.Rng.Intn(4) == 0 {
				break
			}
		}
		k := c.line()
		if seen[k] || len(k) > 6000 {
			continue
		}
		seen[k] = true
		cases = append(cases, c)
	}
	return cases
}

// fixedProgCases: the enumerated boundary literals of every width in the declaration forms
// `var x T = lit`, `const x T = lit`, `T(lit)`.
func fixedProgCases() []caseT {
	var out []caseT
	one := big.NewInt(1)
	for _, k := range intKinds {
		b := kindBits[k]
		var vals []*big.Int
		for _, base := range []*big.Int{new(big.Int).Lsh(one, b-1), new(big.Int).Lsh(one, b)} {
			for d := int64(-1); d <= 1; d++ {
				vals = append(vals, new(big.Int).Add(base, big.NewInt(d)))
			}
		}
		vals = append(vals, big.NewInt(0), big.NewInt(1))
		for _, v := range vals {
			for _, neg := range []bool{false, true} {
				e := lit("int", v.String())
				if neg {
					e = un("neg", e)
				}
				out = append(out,
					caseT{Kind: "prog", Ctx: "varT", Type: k, Expr: e},
					caseT{Kind: "prog", Ctx: "constT", Type: k, Expr: e},
					caseT{Kind: "prog", Ctx: "var", Expr: conv(k, e)},
					caseT{Kind: "prog", Ctx: "const", Expr: conv(k, e)})
			}
		}
	}
	return out
}

// signature returns the divergence class of the input ("" = inside the proved domain).
func signature(c caseT, ans map[string]string) string {
	switch c.Kind {
	case "repr":
		// representableConst is exact for every kind and every integer since the repair of F03
		// (representable_correct): every repr case lies inside the proved domain
	case "prog":
		if cl := ans["cls"]; cl != "" && cl != "-" {
			return cl
		}
	}
	return ""
}

var _ = strings.Join
