package main

import (
	"bytes"
	"context"
	"fmt"
	"go/ast"
	"go/constant"
	"go/token"
	"go/types"
	"math/big"
	"os"
	"strconv"
	"strings"
	"time"

	"github.com/traefik/yaegi/interp"
	"github.com/traefik/yaegi/stdlib"
	"verif/harness/common"
)

// canonical value forms:  i<decimal>  f<num>/<den>  b<true|false>  s<hex bytes>
// outcome of a program:   ok:<val>:<type>[,<val>:<type>…] | reject | crash:<first line> | timeout

func canonFromPrinted(val, typ string) (string, error) {
	switch typ {
	case "bool":
		return "b" + val, nil
	case "string":
		s, err := strconv.Unquote(val)
		if err != nil {
			return "", err
		}
		return fmt.Sprintf("s%x", s), nil
	case "float32", "float64":
		bits := 64
		if typ == "float32" {
			bits = 32
		}
		f, err := strconv.ParseFloat(val, bits)
		if err != nil {
			return "", err
		}
		r := new(big.Rat)
		if r.SetFloat64(f) == nil {
			return "fnan", nil
		}
		return "f" + r.Num().String() + "/" + r.Denom().String(), nil
	case "int", "int8", "int16", "int32", "int64", "uint", "uint8", "uint16", "uint32", "uint64", "uintptr":
		n, ok := new(big.Int).SetString(val, 0)
		if !ok {
			return "", fmt.Errorf("bad integer %q", val)
		}
		return "i" + n.String(), nil
	}
	return "", fmt.Errorf("unexpected type %q", typ)
}

// implProg evaluates the program with the interpreter.
func implProg(c caseT) (out outcome) {
	src := c.progSource()
	var so, se bytes.Buffer
	done := make(chan struct{})
	ctx, cancel := context.WithTimeout(context.Background(), 10*time.Second)
	defer cancel()
	var evalErr error
	crash := ""
	go func() {
		defer close(done)
		defer func() {
			if r := recover(); r != nil {
				crash = common.FirstLine(fmt.Sprint(r))
				if crash == "" {
					crash = "panic"
				}
			}
		}()
		i := interp.New(interp.Options{Stdout: &so, Stderr: &se})
		if err := i.Use(stdlib.Symbols); err != nil {
			evalErr = err
			return
		}
		_, evalErr = i.EvalWithContext(ctx, src)
	}()
	select {
	case <-done:
	case <-time.After(15 * time.Second):
		return "timeout"
	}
	if crash != "" {
		if os.Getenv("VERIF_C03_DUMP") != "" {
			fmt.Fprintf(os.Stderr, "CRASH %s :: %s\n", c.source(), crash)
		}
		return "crash"
	}
	if evalErr != nil {
		if ctx.Err() != nil {
			return "timeout"
		}
		if p, ok := evalErr.(interp.Panic); ok {
			// A Go panic. Execute recovers the panics of code generation and of the run and returns them as an
			// error (the program is rejected with an error); a panic of the compile phase (gta, cfg) escapes
			// Eval — only EvalWithContext, used here for its deadline, catches it.
			if os.Getenv("VERIF_C03_DUMP") != "" {
				fmt.Fprintf(os.Stderr, "RTPANIC %s :: %s\n", c.source(), common.FirstLine(evalErr.Error()))
			}
			if strings.Contains(string(p.Stack), "(*Interpreter).Execute.func1") {
				return "reject"
			}
			return "crash"
		}
		return "reject"
	}
	lines := strings.Split(strings.TrimRight(so.String(), "\n"), "\n")
	var parts []string
	for _, l := range lines {
		i := strings.LastIndexByte(l, '|')
		if i < 0 {
			return "garbled:" + strconv.Quote(l)
		}
		v, err := canonFromPrinted(l[:i], l[i+1:])
		if err != nil {
			return "garbled:" + strconv.Quote(l)
		}
		parts = append(parts, v+":"+l[i+1:])
	}
	return "ok:" + strings.Join(parts, ",")
}

func typeName(t types.Type) string {
	b, ok := t.Underlying().(*types.Basic)
	if !ok {
		return t.String()
	}
	switch b.Kind() {
	case types.UntypedBool:
		return "bool"
	case types.UntypedInt:
		return "int"
	case types.UntypedRune:
		return "int32"
	case types.UntypedFloat:
		return "float64"
	case types.UntypedString:
		return "string"
	case types.UntypedComplex:
		return "complex128"
	case types.Uint8:
		return "uint8"
	case types.Int32:
		return "int32"
	}
	return b.Name()
}

// canonFromConst converts a go/constant value to the canonical form at type typ (a concrete basic type name).
func canonFromConst(v constant.Value, typ string) (string, error) {
	switch typ {
	case "bool":
		if v.Kind() != constant.Bool {
			return "", fmt.Errorf("not bool")
		}
		return fmt.Sprintf("b%v", constant.BoolVal(v)), nil
	case "string":
		if v.Kind() != constant.String {
			return "", fmt.Errorf("not string")
		}
		return fmt.Sprintf("s%x", constant.StringVal(v)), nil
	case "float32":
		f, _ := constant.Float32Val(constant.ToFloat(v))
		r := new(big.Rat)
		if r.SetFloat64(float64(f)) == nil {
			return "", fmt.Errorf("inf")
		}
		return "f" + r.Num().String() + "/" + r.Denom().String(), nil
	case "float64":
		f, _ := constant.Float64Val(constant.ToFloat(v))
		r := new(big.Rat)
		if r.SetFloat64(f) == nil {
			return "", fmt.Errorf("inf")
		}
		return "f" + r.Num().String() + "/" + r.Denom().String(), nil
	case "int", "int8", "int16", "int32", "int64", "uint", "uint8", "uint16", "uint32", "uint64", "uintptr":
		x := constant.ToInt(v)
		if x.Kind() != constant.Int {
			return "", fmt.Errorf("not int")
		}
		return "i" + x.ExactString(), nil
	}
	return "", fmt.Errorf("unexpected type %q", typ)
}

// refProg asks go/types and go/constant.
func refProg(c caseT) outcome {
	d, names := c.decl()
	src := "package main\n" + d + "\n"
	for _, n := range names {
		src += "var _ interface{} = " + n + "\n" // the use site converts to the default type
	}
	pkg, info, file, err := typeCheck(src)
	if err != nil {
		if strings.HasPrefix(err.Error(), "parse:") {
			return "bad-source:" + err.Error()
		}
		return "reject"
	}
	var parts []string
	for _, n := range names {
		obj := pkg.Scope().Lookup(n)
		var v constant.Value
		var t types.Type
		switch o := obj.(type) {
		case *types.Const:
			v, t = o.Val(), types.Default(o.Type())
		case *types.Var:
			t = o.Type()
			// the initialiser is a constant expression: find its value
			v = varInit(info, file, n)
			if v == nil {
				return "ref-not-constant"
			}
		default:
			return "ref-no-object"
		}
		tn := typeName(t)
		cv, err := canonFromConst(v, tn)
		if err != nil {
			return "ref-bad-value:" + err.Error()
		}
		parts = append(parts, cv+":"+tn)
	}
	return "ok:" + strings.Join(parts, ",")
}

// varInit returns the constant value of the initialiser of `var <name> [T] = <expr>`.
func varInit(info *types.Info, file *ast.File, name string) constant.Value {
	for _, d := range file.Decls {
		gd, ok := d.(*ast.GenDecl)
		if !ok {
			continue
		}
		for _, s := range gd.Specs {
			vs, ok := s.(*ast.ValueSpec)
			if !ok {
				continue
			}
			for i, n := range vs.Names {
				if n.Name == name && i < len(vs.Values) {
					return info.Types[vs.Values[i]].Value
				}
			}
		}
	}
	return nil
}

// hugeShift: some shift count of the program is a constant above 4096 (the type checker rejects counts above
// 1074; the interpreter would build the gigantic integer). Such programs are not generated.
func hugeShift(c caseT) bool {
	d, _ := c.decl()
	_, info, file, err := typeCheck("package main\n" + d + "\n")
	if file == nil || info == nil {
		return err != nil
	}
	huge := false
	limit := constant.MakeInt64(4096)
	ast.Inspect(file, func(n ast.Node) bool {
		be, ok := n.(*ast.BinaryExpr)
		if !ok || (be.Op != token.SHL && be.Op != token.SHR) {
			return true
		}
		tv, ok := info.Types[be.Y]
		if !ok || tv.Value == nil {
			// the count did not type-check: be careful, drop the program if it contains big literals
			ast.Inspect(be.Y, func(m ast.Node) bool {
				if bl, ok := m.(*ast.BasicLit); ok && len(bl.Value) > 4 {
					huge = true
				}
				return true
			})
			return true
		}
		v := constant.ToInt(tv.Value)
		if v.Kind() != constant.Int {
			v = constant.ToFloat(tv.Value)
			if v.Kind() == constant.Float && constant.Compare(v, token.GTR, constant.ToFloat(limit)) {
				huge = true
			}
			return true
		}
		if constant.Compare(v, token.GTR, limit) || constant.Sign(v) < 0 && tv.Type != nil && isTypedBasic(tv.Type) {
			huge = true
		}
		return true
	})
	return huge
}

func isTypedBasic(t types.Type) bool {
	b, ok := t.Underlying().(*types.Basic)
	return ok && b.Info()&types.IsUntyped == 0
}
