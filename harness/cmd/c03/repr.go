package main

import (
	"fmt"
	"go/ast"
	"go/constant"
	"go/parser"
	"go/token"
	"go/types"
	"math/big"
	"reflect"

	"github.com/traefik/yaegi/interp"
	"verif/harness/common"
)

var intKinds = []string{"int", "int8", "int16", "int32", "int64", "uint", "uint8", "uint16", "uint32", "uint64", "uintptr"}

var kindBits = map[string]uint{"int": 64, "int8": 8, "int16": 16, "int32": 32, "int64": 64,
	"uint": 64, "uint8": 8, "uint16": 16, "uint32": 32, "uint64": 64, "uintptr": 64}

func kindSigned(k string) bool { return k[0] == 'i' }

var reflectKinds = map[string]reflect.Kind{"int": reflect.Int, "int8": reflect.Int8, "int16": reflect.Int16, "int32": reflect.Int32,
	"int64": reflect.Int64, "uint": reflect.Uint, "uint8": reflect.Uint8, "uint16": reflect.Uint16, "uint32": reflect.Uint32,
	"uint64": reflect.Uint64, "uintptr": reflect.Uintptr, "float32": reflect.Float32, "float64": reflect.Float64,
	"complex64": reflect.Complex64, "complex128": reflect.Complex128, "string": reflect.String, "bool": reflect.Bool}

// implRepr calls the real representableConst.
func implRepr(c caseT) (out outcome) {
	defer func() {
		if r := recover(); r != nil {
			out = "crash:" + common.FirstLine(fmt.Sprint(r))
		}
	}()
	v := constant.MakeFromLiteral(c.Value, token.INT, 0)
	if v.Kind() != constant.Int {
		return "bad-literal"
	}
	return fmt.Sprint(interp.VerifRepresentableConst(v, reflectKinds[c.Type]))
}

// typeCheck type-checks a file made of the given declarations and returns the package and the first error.
func typeCheck(src string) (*types.Package, *types.Info, *ast.File, error) {
	fset := token.NewFileSet()
	f, err := parser.ParseFile(fset, "x.go", src, 0)
	if err != nil {
		return nil, nil, nil, fmt.Errorf("parse: %v", err)
	}
	var first error
	conf := types.Config{Error: func(e error) {
		if first == nil {
			first = e
		}
	}}
	info := &types.Info{Types: map[ast.Expr]types.TypeAndValue{}}
	pkg, _ := conf.Check("main", fset, []*ast.File{f}, info)
	return pkg, info, f, first
}

// refRepr asks go/types whether the literal is representable (assignable to a variable of the type).
func refRepr(c caseT) outcome {
	_, _, _, err := typeCheck("package main\nvar _ " + c.Type + " = " + c.Value + "\n")
	return fmt.Sprint(err == nil)
}

// boundaries of a width: every literal whose distance to a power-of-two boundary is ≤ 1
func boundaryValues() []*big.Int {
	var out []*big.Int
	one := big.NewInt(1)
	add := func(v *big.Int) {
		for d := int64(-2); d <= 2; d++ {
			x := new(big.Int).Add(v, big.NewInt(d))
			out = append(out, x, new(big.Int).Neg(x))
		}
	}
	for _, b := range []uint{0, 1, 7, 8, 9, 15, 16, 17, 31, 32, 33, 63, 64, 65, 127, 128, 200} {
		add(new(big.Int).Lsh(one, b))
	}
	out = append(out, big.NewInt(0), big.NewInt(200), big.NewInt(-200), big.NewInt(40000), big.NewInt(-40000))
	return out
}

func genRepr(run *common.Run) []caseT {
	var cases []caseT
	seen := map[string]bool{}
	put := func(k string, v *big.Int) {
		key := k + " " + v.String()
		if !seen[key] {
			seen[key] = true
			cases = append(cases, caseT{Kind: "repr", Type: k, Value: v.String()})
		}
	}
	bv := boundaryValues()
	for _, k := range intKinds {
		for _, v := range bv {
			put(k, v)
		}
	}
	n := 1500
	if run.Thorough() {
		n = 60000
	}
	for i := 0; i < n; i++ {
		k := intKinds[run.Rng.Intn(len(intKinds))]
		// magnitude: uniform in the number of bits up to 200, biased towards the kind's own width
		var bits int
		switch run.Rng.Intn(4) {
		case 0:
			bits = run.Rng.Intn(201)
		case 1:
			bits = int(kindBits[k]) + run.Rng.Intn(3) - 1
		case 2:
			bits = int(kindBits[k]) - 1 + run.Rng.Intn(2)
		default:
			bits = run.Rng.Intn(70)
		}
		v := new(big.Int)
		if bits > 0 {
			v.Rand(run.Rng, new(big.Int).Lsh(big.NewInt(1), uint(bits)))
		}
		if run.Rng.Intn(2) == 0 {
			v.Neg(v)
		}
		put(k, v)
	}
	return cases
}

// formerGap: the class of F03 before its repair (Lean `inSignedGap`): the values of a signed kind that the BitLen test
// let through. No longer a divergence class; used to count how many generated cases exercise the repaired region.
func formerGap(k string, v *big.Int) bool {
	if !kindSigned(k) {
		return false
	}
	b := kindBits[k]
	one := big.NewInt(1)
	lo64 := new(big.Int).Neg(new(big.Int).Lsh(one, 63))
	hi64 := new(big.Int).Lsh(one, 63)
	if v.Cmp(lo64) < 0 || v.Cmp(hi64) >= 0 {
		return false
	}
	max := new(big.Int).Sub(new(big.Int).Lsh(one, b-1), one)
	min := new(big.Int).Neg(new(big.Int).Lsh(one, b-1))
	full := new(big.Int).Lsh(one, b)
	nfull := new(big.Int).Neg(full)
	return (v.Cmp(max) > 0 && v.Cmp(full) < 0) || (v.Cmp(nfull) > 0 && v.Cmp(min) < 0)
}

func reprNontrivial(c caseT) bool {
	v, _ := new(big.Int).SetString(c.Value, 10)
	return v.BitLen() >= 8
}
