package main

import (
	"bufio"
	"encoding/json"
	"fmt"
	"io"
	"os"
	"os/exec"
	"runtime"
	"sync"
	"time"
)

// The interpreter can hang or exhaust memory while compiling a constant expression (a shift by a huge count
// makes go/constant build a gigantic integer that is then printed into an error message), and a Go panic of the
// compile phase escapes Eval. Real-code evaluations therefore run in worker subprocesses of this binary
// (`-worker` as first argument): one JSON case per line in, one outcome line out. The parent kills and restarts a
// worker that stays silent for too long; the case is then reported as "timeout".

func workerMain() {
	in := bufio.NewReaderSize(os.Stdin, 1<<20)
	out := bufio.NewWriter(os.Stdout)
	for {
		line, err := in.ReadBytes('\n')
		if len(line) > 0 {
			var c caseT
			res := "bad-case"
			if json.Unmarshal(line, &c) == nil {
				res = implOfLocal(c)
			}
			fmt.Fprintln(out, res)
			out.Flush()
		}
		if err != nil {
			return
		}
	}
}

type worker struct {
	cmd *exec.Cmd
	in  io.WriteCloser
	out *bufio.Reader
}

func startWorker() (*worker, error) {
	cmd := exec.Command(os.Args[0], "-worker")
	cmd.Env = append(os.Environ(), "GOMEMLIMIT=1GiB", "GOMAXPROCS=2")
	in, err := cmd.StdinPipe()
	if err != nil {
		return nil, err
	}
	outp, err := cmd.StdoutPipe()
	if err != nil {
		return nil, err
	}
	cmd.Stderr = os.Stderr
	if err := cmd.Start(); err != nil {
		return nil, err
	}
	return &worker{cmd: cmd, in: in, out: bufio.NewReaderSize(outp, 1<<20)}, nil
}

func (w *worker) stop() {
	w.in.Close()
	w.cmd.Process.Kill()
	w.cmd.Wait()
}

// ask sends one case and waits for the answer, at most `limit`.
func (w *worker) ask(c caseT, limit time.Duration) (string, string) {
	b, _ := json.Marshal(c)
	if _, err := w.in.Write(append(b, '\n')); err != nil {
		return "", "dead"
	}
	type ans struct {
		s   string
		err error
	}
	ch := make(chan ans, 1)
	go func() {
		s, err := w.out.ReadString('\n')
		ch <- ans{s, err}
	}()
	select {
	case a := <-ch:
		if a.err != nil {
			return "", "dead"
		}
		return a.s[:len(a.s)-1], ""
	case <-time.After(limit):
		return "", "timeout"
	}
}

// implAll evaluates every case with the real code, in parallel worker subprocesses.
func implAll(cases []caseT, errorf func(string, ...interface{})) []outcome {
	res := make([]outcome, len(cases))
	n := runtime.NumCPU()
	if n > 16 {
		n = 16
	}
	if n > len(cases) {
		n = len(cases)
	}
	if n < 1 {
		n = 1
	}
	idx := make(chan int, len(cases))
	for i := range cases {
		idx <- i
	}
	close(idx)
	var wg sync.WaitGroup
	for k := 0; k < n; k++ {
		wg.Add(1)
		go func() {
			defer wg.Done()
			var w *worker
			defer func() {
				if w != nil {
					w.stop()
				}
			}()
			for i := range idx {
				if w == nil {
					var err error
					if w, err = startWorker(); err != nil {
						errorf("worker: %v", err)
						res[i] = "harness-error"
						continue
					}
				}
				s, bad := w.ask(cases[i], 20*time.Second)
				if bad != "" {
					// silent or dead: kill, report, restart lazily. A worker that died (out of memory, fatal
					// error) is reported as a crash of the case it was working on.
					w.stop()
					w = nil
					if bad == "timeout" {
						res[i] = "timeout"
					} else {
						res[i] = "crash"
					}
					continue
				}
				res[i] = s
			}
		}()
	}
	wg.Wait()
	return res
}
