package main

// Conversions of exact constants to float32 / float64 / complex64 / complex128 (seed C03-3: convertConst rounding a
// float32 constant through float64 first). The values are placed exactly at, just below and just above the rounding
// midpoints of both formats, so that round-to-nearest-even of the exact value and any rounding in two steps give
// different bit patterns. Outcomes are compared as exact rationals of the printed value, which for finite non-zero
// floating-point values is the comparison of the bit patterns (`%#v` prints a float32 with the shortest text that
// reads back to the same float32; go/constant's Float32Val / Float64Val give the reference bits).

import (
	"fmt"
	"go/constant"
	"math/big"
	"math/rand"
	"strings"
)

// exactDecimal renders a dyadic rational exactly as a decimal literal (always with a fraction part).
func exactDecimal(q *big.Rat) string {
	d := q.Denom()
	k := d.BitLen() - 1 // the denominator is 2^k
	s := q.FloatString(k)
	if !strings.Contains(s, ".") {
		s += ".0"
	}
	return s
}

func pow2(k int) *big.Rat {
	if k >= 0 {
		return new(big.Rat).SetInt(new(big.Int).Lsh(big.NewInt(1), uint(k)))
	}
	return new(big.Rat).SetFrac(big.NewInt(1), new(big.Int).Lsh(big.NewInt(1), uint(-k)))
}

// midpointValue: a value at distance `off` (in units of the spacing of the format) from the midpoint above a random
// number of the format with `p` bits of precision and binary exponent e.
func midpointValue(r *rand.Rand, p int, e int, odd bool, off *big.Rat) *big.Rat {
	m := new(big.Int).Lsh(big.NewInt(1), uint(p-1))
	m.Add(m, new(big.Int).Rand(r, new(big.Int).Lsh(big.NewInt(1), uint(p-1))))
	if odd != (m.Bit(0) == 1) {
		m.Xor(m, big.NewInt(1))
	}
	ulp := pow2(e - (p - 1))
	v := new(big.Rat).Mul(new(big.Rat).SetInt(m), ulp)       // a number of the format
	v.Add(v, new(big.Rat).Mul(ulp, big.NewRat(1, 2)))         // the midpoint to its successor
	v.Add(v, new(big.Rat).Mul(ulp, off))                      // nudged
	return v
}

// froundExpr: one exact constant expression of the family, untyped.
func froundExpr(r *rand.Rand) *exprT {
	offs := []*big.Rat{
		new(big.Rat),                                  // exactly the midpoint: ties to even
		pow2(-30), new(big.Rat).Neg(pow2(-30)),        // half a float64 ulp away from a float32 midpoint: a float64 tie
		pow2(-31), new(big.Rat).Neg(pow2(-31)),        // closer than half a float64 ulp: lost by a first rounding to float64
		pow2(-36), new(big.Rat).Neg(pow2(-36)),
		pow2(-60), new(big.Rat).Neg(pow2(-60)),
		pow2(-29), new(big.Rat).Neg(pow2(-29)),        // a whole float64 ulp: survives
		pow2(-10), new(big.Rat).Neg(pow2(-10)),
	}
	switch x := r.Intn(12); {
	case x < 5:
		// float32 midpoints, small and large exponents (kept inside the normal range of float32)
		v := midpointValue(r, 24, r.Intn(80)-20, r.Intn(2) == 0, offs[r.Intn(len(offs))])
		if r.Intn(4) == 0 {
			v.Neg(v)
			return un("neg", lit("float", exactDecimal(v.Neg(v))))
		}
		if v.IsInt() && r.Intn(2) == 0 {
			return lit("int", v.Num().String())
		}
		return lit("float", exactDecimal(v))
	case x < 7:
		// float64 midpoints
		off := []*big.Rat{new(big.Rat), pow2(-20), new(big.Rat).Neg(pow2(-20)), pow2(-60), new(big.Rat).Neg(pow2(-60))}[r.Intn(5)]
		v := midpointValue(r, 53, r.Intn(120)-30, r.Intn(2) == 0, off)
		if v.IsInt() && r.Intn(2) == 0 {
			return lit("int", v.Num().String())
		}
		return lit("float", exactDecimal(v))
	case x < 9:
		// the same kind of value written as an expression: 1 + a/2^24 ± 1/2^k
		a := []string{"1.0", "3.0", "5.0"}[r.Intn(3)]
		k := []int{53, 54, 55, 60, 70}[r.Intn(5)]
		op := []string{"add", "sub"}[r.Intn(2)]
		return bin(op, bin("add", lit("int", fmt.Sprint(1+r.Intn(3))), bin("quo", lit("float", a), par(bin("shl", lit("int", "1"), lit("int", "24"))))),
			bin("quo", lit("float", "1.0"), par(bin("shl", lit("int", "1"), lit("int", fmt.Sprint(k))))))
	case x < 11:
		// big integers: 2^a + 2^(a-24) ± 1 and neighbours
		a := 30 + r.Intn(60)
		v := new(big.Int).Lsh(big.NewInt(1), uint(a))
		v.Add(v, new(big.Int).Lsh(big.NewInt(int64(1+2*r.Intn(2))), uint(a-24)))
		v.Add(v, big.NewInt(int64(r.Intn(3)-1)))
		if r.Intn(3) == 0 {
			return bin("add", bin("add", bin("shl", lit("int", "1"), lit("int", fmt.Sprint(a))), bin("shl", lit("int", "1"), lit("int", fmt.Sprint(a-24)))), lit("int", "1"))
		}
		return lit("int", v.String())
	}
	// decimal literals with many digits
	return lit("float", []string{"16777217.000000001", "16777216.999999999", "16777217.0", "16777219.000000001",
		"3.14159265358979323846264338327950288419716939937510582097494459", "0.1000000000000000055511151231257827021181583404541015625",
		"1.00000005960464477539062500000000000000000001", "1.00000005960464477539062499999999999999999999", "1.000000059604644775390625",
		"9007199254740993.0", "9007199254740992.9999", "9007199254740993.0000000001", "0.3333333432674407958984375000000001",
		"33554434.0000000000001", "2.3509887016445750159374730744444913556212e-38"}[r.Intn(15)])
}

// froundCases: the family in every context: conversion in a `var` / `const` declaration, declared type, assignment
// statement, composite literal (impl program only; model and reference see the typed declaration), complex conversion.
func froundCases(r *rand.Rand, n int) []caseT {
	var out []caseT
	for i := 0; i < n; i++ {
		e := fixParens(froundExpr(r))
		t := []string{"float32", "float32", "float32", "float64"}[r.Intn(4)]
		switch r.Intn(8) {
		case 0:
			out = append(out, caseT{Kind: "prog", Ctx: "var", Expr: conv(t, e)})
		case 1:
			out = append(out, caseT{Kind: "prog", Ctx: "const", Expr: conv(t, e)})
		case 2:
			out = append(out, caseT{Kind: "prog", Ctx: "varT", Type: t, Expr: e})
		case 3:
			out = append(out, caseT{Kind: "prog", Ctx: "constT", Type: t, Expr: e})
		case 4:
			out = append(out, caseT{Kind: "prog", Ctx: "varT", Type: t, Expr: e, Form: "assign"})
		case 5:
			out = append(out, caseT{Kind: "prog", Ctx: "varT", Type: t, Expr: e, Form: "complit"})
		case 6:
			// typed arithmetic on the converted constant keeps the exact float32 value
			out = append(out, caseT{Kind: "prog", Ctx: "const", Expr: bin("add", conv(t, e), lit("int", "0"))})
		default:
			out = append(out, caseT{Kind: "cplx", Type: []string{"complex64", "complex64", "complex128"}[r.Intn(3)], Expr: e})
		}
	}
	return out
}

// ---- complex conversions: real code against the reference only (complex constants are not modelled) ----

func (c caseT) cplxSource() string {
	part := "float32"
	if c.Type == "complex128" {
		part = "float64"
	}
	_ = part
	return "package main\n\nimport \"fmt\"\n\nvar c0 = " + c.Type + "(" + c.Expr.src() + ")\n\nfunc main() {\n" +
		"\tfmt.Printf(\"%#v|%T\\n\", real(c0), real(c0))\n\tfmt.Printf(\"%#v|%T\\n\", imag(c0), imag(c0))\n}\n"
}

func refCplx(c caseT) outcome {
	src := "package main\nvar c0 = " + c.Type + "(" + c.Expr.src() + ")\n"
	_, info, file, err := typeCheck(src)
	if err != nil {
		if strings.HasPrefix(err.Error(), "parse:") {
			return "bad-source:" + err.Error()
		}
		return "reject"
	}
	v := varInit(info, file, "c0")
	if v == nil {
		return "ref-not-constant"
	}
	part := "float32"
	if c.Type == "complex128" {
		part = "float64"
	}
	re, err1 := canonFromConst(constant.Real(v), part)
	im, err2 := canonFromConst(constant.Imag(v), part)
	if err1 != nil || err2 != nil {
		return "ref-bad-value"
	}
	return "ok:" + re + ":" + part + "," + im + ":" + part
}
