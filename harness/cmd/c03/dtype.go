package main

// The default type of untyped constants where it matters (seed C03-4: itype.defaultType deciding int / rune from the
// category of the node instead of the kind of the value). The result of a constant shift is an untyped INTEGER
// constant even when the shifted operand is an untyped floating-point or complex constant of integer value
// (`1.0 << 3`, `16.0 >> 2`, `(4+0i) << 1`): `x := 1.0 << 3` is an int. The harness prints every result with %T, so
// the default type is part of each outcome; this family adds the shapes and the contexts in which only the default
// type decides: package-level `var`, `const` used as a value, a short variable declaration inside main, and an
// integer-only use of the variable (`n := c; n % 3`).

import (
	"bytes"
	"fmt"
	"go/ast"
	"go/parser"
	"go/printer"
	"go/token"
	"go/types"
	"math/rand"
	"strings"
)

// floatIntLit: an untyped floating-point constant with an integer value, as a literal or a small expression
func floatIntLit(r *rand.Rand) *exprT {
	switch r.Intn(6) {
	case 0:
		return lit("float", fmt.Sprintf("%d.0", 1<<uint(r.Intn(10))))
	case 1:
		return lit("float", fmt.Sprintf("%de%d", 1+r.Intn(9), r.Intn(4)))
	case 2:
		return par(lit("float", fmt.Sprintf("%d.0", r.Intn(300))))
	case 3:
		return par(bin("mul", lit("float", "0.5"), lit("int", fmt.Sprint(2*r.Intn(100)))))
	case 4:
		return par(bin("add", lit("float", fmt.Sprintf("%d.0", r.Intn(50))), lit("int", fmt.Sprint(r.Intn(50)))))
	}
	return lit("float", fmt.Sprintf("%d.0", r.Intn(1000)))
}

// dtypeExpr: an expression whose default type is decided by a shift of such a constant
func dtypeExpr(r *rand.Rand) *exprT {
	sh := func() *exprT {
		return bin([]string{"shl", "shr"}[r.Intn(2)], floatIntLit(r), lit("int", fmt.Sprint(r.Intn(12))))
	}
	switch r.Intn(8) {
	case 0, 1, 2:
		return sh()
	case 3:
		return bin([]string{"add", "sub", "or", "mul"}[r.Intn(4)], sh(), lit("int", fmt.Sprint(1+r.Intn(9))))
	case 4:
		return bin("add", lit("int", fmt.Sprint(r.Intn(9))), par(sh()))
	case 5:
		return un([]string{"neg", "bitNot", "pos"}[r.Intn(3)], par(sh()))
	case 6:
		return par(sh())
	}
	// the float operand keeps the expression floating-point: the default type is float64
	return bin("add", sh(), lit("float", "0.5"))
}

// dtypeCases: modelled cases (the model and the reference see `var c0 = e` / `const c0 = e`; Form "short" runs
// `c0 := e` inside main) and raw ones (complex operands, integer-only uses), real code against go/types only
func dtypeCases(r *rand.Rand, n int) []caseT {
	var out []caseT
	for i := 0; i < n; i++ {
		e := fixParens(dtypeExpr(r))
		switch r.Intn(6) {
		case 0, 1:
			out = append(out, caseT{Kind: "prog", Ctx: "var", Expr: e})
		case 2:
			out = append(out, caseT{Kind: "prog", Ctx: "const", Expr: e})
		case 3:
			out = append(out, caseT{Kind: "prog", Ctx: "var", Expr: e, Form: []string{"short", "short", "iface", "ifacelocal"}[r.Intn(4)]})
		case 4:
			out = append(out, caseT{Kind: "raw", Ctx: []string{"var", "const", "short", "intuse", "intuse", "iface", "ifacelocal"}[r.Intn(7)], Src: e.src()})
		default:
			// a complex left operand of integer value
			c := fmt.Sprintf("(%d+0i)", 1<<uint(r.Intn(8)))
			src := c + []string{" << ", " >> "}[r.Intn(2)] + fmt.Sprint(r.Intn(6))
			if r.Intn(3) == 0 {
				src += " + 1"
			}
			out = append(out, caseT{Kind: "raw", Ctx: []string{"var", "const", "short", "intuse", "iface", "ifacelocal"}[r.Intn(6)], Src: src})
		}
	}
	return out
}

// ---- raw cases: a constant expression given as source text ----

// rawSource: the program run by the real code
func (c caseT) rawSource() string {
	head := "package main\n\nimport \"fmt\"\n\n"
	pr := "\tfmt.Printf(\"%#v|%T\\n\", c0, c0)\n}\n"
	switch c.Ctx {
	case "var":
		return head + "var c0 = " + c.Src + "\n\nfunc main() {\n" + pr
	case "const":
		return head + "const c0 = " + c.Src + "\n\nfunc main() {\n" + pr
	case "short":
		return head + "func main() {\n\tc0 := " + c.Src + "\n" + pr
	case "intuse":
		// only an integer variable can be the operand of %
		return head + "const x = " + c.Src + "\n\nfunc main() {\n\tn := x\n\tc0 := n % 3\n" + pr
	case "iface":
		return head + "var c0 interface{} = " + c.Src + "\n\nfunc main() {\n" + pr
	case "ifacelocal":
		return head + "func main() {\n\tvar c0 interface{} = " + c.Src + "\n" + pr
	}
	return head + "func main() {}\n"
}

// refRaw: go/types on the equivalent package-level declaration
func refRaw(c caseT) outcome {
	d := caseT{Kind: "prog", Ctx: "var"}
	src := ""
	switch c.Ctx {
	case "var", "short", "iface", "ifacelocal":
		// an interface destination holds the constant converted to its default type
		src = "var c0 = " + c.Src
	case "const":
		src = "const c0 = " + c.Src
		d.Ctx = "const"
	case "intuse":
		// n has the default type of x; the reference value is that of the constant expression in this type
		src = "const x = " + c.Src + "\nvar n = x\nvar _ = n % 3\nconst c0 = x % 3"
		d.Ctx = "const"
	}
	return refSource(src, d.Ctx == "const")
}

// refSource type-checks a declaration of c0 and renders the outcome like refProg
func refSource(decl string, isConst bool) outcome {
	c := caseT{Kind: "prog", Ctx: "rawdecl", Src: decl}
	return refProg(c)
}

var _ = strings.Join

// ---- class F03-23: a constant shift whose left operand is an untyped floating-point or complex constant ----

// floatShift: does the declaration contain a shift whose left operand is, on its own, an untyped floating-point or
// complex constant? Decided on the input with go/parser and go/types (each shifted operand is type-checked alone).
func floatShift(c caseT) bool {
	var d string
	switch c.Kind {
	case "prog":
		d, _ = c.decl()
	case "raw":
		d = "var c0 = " + c.Src
	default:
		return false
	}
	if !strings.Contains(d, "<<") && !strings.Contains(d, ">>") {
		return false
	}
	fset := token.NewFileSet()
	f, err := parser.ParseFile(fset, "x.go", "package main\n"+d+"\n", 0)
	if err != nil {
		return false
	}
	found := false
	ast.Inspect(f, func(n ast.Node) bool {
		be, ok := n.(*ast.BinaryExpr)
		if !ok || (be.Op != token.SHL && be.Op != token.SHR) || found {
			return true
		}
		var b bytes.Buffer
		if printer.Fprint(&b, fset, be.X) != nil {
			return true
		}
		// iota stands for an untyped integer constant
		pkg, _, _, err := typeCheck("package main\nconst ( c0 = " + b.String() + " )\n")
		if err != nil || pkg == nil {
			return true
		}
		if o, ok := pkg.Scope().Lookup("c0").(*types.Const); ok {
			if bt, ok := o.Type().(*types.Basic); ok && (bt.Kind() == types.UntypedFloat || bt.Kind() == types.UntypedComplex) {
				found = true
			}
		}
		return true
	})
	return found
}
