package main

import (
	"fmt"
	"math/big"
	"strconv"
	"strings"

	"verif/harness/common"
)

// exprT is a constant expression tree.
//
//	lit   K ∈ {int,rune,float,bool,str}; V = Go literal text (decimal integer, decimal float, true/false, quoted ASCII string literal)
//	iota
//	un    K = action (neg pos bitNot not); X
//	bin   K = action (add sub mul quo rem and or xor andNot shl shr eq ne lt le gt ge land lor); X, Y
//	conv  K = basic type name; X
//	par   X
//	len   X
type exprT struct {
	Op string `json:"op"`
	K  string `json:"k,omitempty"`
	V  string `json:"v,omitempty"`
	X  *exprT `json:"x,omitempty"`
	Y  *exprT `json:"y,omitempty"`
}

// specT is one ConstSpec of a const block: name = c<i>; Type "" = none; Expr nil = implicit repetition.
type specT struct {
	Type string `json:"type,omitempty"`
	Expr *exprT `json:"expr,omitempty"`
}

var binTok = map[string]string{"add": "+", "sub": "-", "mul": "*", "quo": "/", "rem": "%", "and": "&", "or": "|", "xor": "^",
	"andNot": "&^", "shl": "<<", "shr": ">>", "eq": "==", "ne": "!=", "lt": "<", "le": "<=", "gt": ">", "ge": ">=", "land": "&&", "lor": "||"}
var unTok = map[string]string{"neg": "-", "pos": "+", "bitNot": "^", "not": "!"}

// binary operator precedence (Go)
var prec = map[string]int{"mul": 5, "quo": 5, "rem": 5, "shl": 5, "shr": 5, "and": 5, "andNot": 5,
	"add": 4, "sub": 4, "or": 4, "xor": 4, "eq": 3, "ne": 3, "lt": 3, "le": 3, "gt": 3, "ge": 3, "land": 2, "lor": 1}

// src renders Go source. Parentheses appear only where the tree has a `par` node or where they are needed
// to keep the tree shape: the generator inserts `par` nodes itself, so that the tree the model sees is the
// tree the parser builds.
func (e *exprT) src() string {
	switch e.Op {
	case "lit":
		switch e.K {
		case "rune":
			n := new(big.Int)
			n.SetString(e.V, 10)
			return runeLit(rune(n.Int64()))
		}
		return e.V // str: V is the quoted Go literal itself (ASCII only)
	case "iota":
		return "iota"
	case "un":
		return unTok[e.K] + e.X.src()
	case "bin":
		return e.X.src() + " " + binTok[e.K] + " " + e.Y.src()
	case "conv":
		return e.K + "(" + e.X.src() + ")"
	case "par":
		return "(" + e.X.src() + ")"
	case "len":
		return "len(" + e.X.src() + ")"
	}
	return "?"
}

func runeLit(r rune) string {
	if r >= 0x20 && r < 0x7f && r != '\'' && r != '\\' {
		return "'" + string(r) + "'"
	}
	if r < 0x10000 {
		return fmt.Sprintf("'\\u%04x'", r)
	}
	return fmt.Sprintf("'\\U%08x'", r)
}

// wellFormed: does src() parse back to the same tree? (operands of un/bin that bind less tightly must be `par`)
func (e *exprT) wellFormed() bool {
	switch e.Op {
	case "un":
		// -x where x is binary would re-associate; -(-x) prints "--x" which is a different token
		if e.X.Op == "bin" {
			return false
		}
		if e.X.Op == "un" && e.K == e.X.K && (e.K == "neg" || e.K == "pos") {
			return false // "--x" / "++x" are other tokens
		}
		return e.X.wellFormed()
	case "bin":
		p := prec[e.K]
		if e.X.Op == "bin" && prec[e.X.K] < p {
			return false
		}
		if e.Y.Op == "bin" && prec[e.Y.K] <= p {
			return false
		}
		// "x - -y" is fine, "x + +y" fine; "x & ^y" fine. "x / *y" n/a.
		return e.X.wellFormed() && e.Y.wellFormed()
	case "conv", "par", "len":
		return e.X.wellFormed()
	}
	return true
}

// sexp renders the protocol term.
func (e *exprT) sexp() string {
	switch e.Op {
	case "lit":
		switch e.K {
		case "int", "rune":
			return common.L(e.K, e.V)
		case "float":
			r, ok := new(big.Rat).SetString(e.V)
			if !ok {
				return common.L("bad")
			}
			return common.L("flt", r.Num().String(), r.Denom().String())
		case "bool":
			if e.V == "true" {
				return common.L("bool", "1")
			}
			return common.L("bool", "0")
		case "str":
			u, err := strconv.Unquote(e.V)
			if err != nil {
				return common.L("bad")
			}
			if u == "" {
				return common.L("str", "-")
			}
			return common.L("str", fmt.Sprintf("%x", u))
		}
	case "iota":
		return common.L("iota")
	case "un", "bin":
		if e.Op == "un" {
			return common.L("un", e.K, e.X.sexp())
		}
		return common.L("bin", e.K, e.X.sexp(), e.Y.sexp())
	case "conv":
		return common.L("conv", e.K, e.X.sexp())
	case "par":
		return common.L("par", e.X.sexp())
	case "len":
		return common.L("len", e.X.sexp())
	}
	return common.L("bad")
}

func (e *exprT) depth() int {
	d := 0
	if e.X != nil {
		d = e.X.depth()
	}
	if e.Y != nil {
		if y := e.Y.depth(); y > d {
			d = y
		}
	}
	if e.Op == "par" {
		return d
	}
	return d + 1
}

func (e *exprT) walk(f func(*exprT)) {
	f(e)
	if e.X != nil {
		e.X.walk(f)
	}
	if e.Y != nil {
		e.Y.walk(f)
	}
}

// ---- prog cases ----

func (c caseT) progLine() string {
	switch c.Ctx {
	case "block":
		items := make([]string, len(c.Block))
		for i, s := range c.Block {
			t := s.Type
			if t == "" {
				t = "-"
			}
			if s.Expr == nil {
				items[i] = common.L("spec", t)
			} else {
				items[i] = common.L("spec", t, s.Expr.sexp())
			}
		}
		return "C03 block " + common.L(items...)
	}
	t := c.Type
	if t == "" {
		t = "-"
	}
	return "C03 decl " + c.Ctx + " " + t + " " + c.Expr.sexp()
}

// decl renders the declaration(s) and the names to print.
func (c caseT) decl() (string, []string) {
	switch c.Ctx {
	case "rawdecl":
		return c.Src, []string{"c0"}
	case "var":
		return "var c0 = " + c.Expr.src(), []string{"c0"}
	case "const":
		return "const c0 = " + c.Expr.src(), []string{"c0"}
	case "varT":
		return "var c0 " + c.Type + " = " + c.Expr.src(), []string{"c0"}
	case "constT":
		return "const c0 " + c.Type + " = " + c.Expr.src(), []string{"c0"}
	case "block":
		var b strings.Builder
		var names []string
		b.WriteString("const (\n")
		for i, s := range c.Block {
			n := fmt.Sprintf("c%d", i)
			names = append(names, n)
			b.WriteString("\t" + n)
			if s.Expr != nil {
				if s.Type != "" {
					b.WriteString(" " + s.Type)
				}
				b.WriteString(" = " + s.Expr.src())
			}
			b.WriteString("\n")
		}
		b.WriteString(")")
		return b.String(), names
	}
	return "", nil
}

func (c caseT) progSource() string {
	if c.Kind == "cplx" {
		return c.cplxSource()
	}
	if c.Kind == "raw" {
		return c.rawSource()
	}
	switch c.Form {
	case "iface":
		return "package main\n\nimport \"fmt\"\n\nvar c0 interface{} = " + c.Expr.src() + "\n\nfunc main() {\n" +
			"\tfmt.Printf(\"%#v|%T\\n\", c0, c0)\n}\n"
	case "ifacelocal":
		return "package main\n\nimport \"fmt\"\n\nfunc main() {\n\tvar c0 interface{} = " + c.Expr.src() +
			"\n\tfmt.Printf(\"%#v|%T\\n\", c0, c0)\n}\n"
	case "short":
		return "package main\n\nimport \"fmt\"\n\nfunc main() {\n\tc0 := " + c.Expr.src() +
			"\n\tfmt.Printf(\"%#v|%T\\n\", c0, c0)\n}\n"
	case "assign":
		return "package main\n\nimport \"fmt\"\n\nvar c0 " + c.Type + "\n\nfunc main() {\n\tc0 = " + c.Expr.src() +
			"\n\tfmt.Printf(\"%#v|%T\\n\", c0, c0)\n}\n"
	case "complit":
		return "package main\n\nimport \"fmt\"\n\nvar c0 = []" + c.Type + "{" + c.Expr.src() + "}[0]\n\nfunc main() {\n" +
			"\tfmt.Printf(\"%#v|%T\\n\", c0, c0)\n}\n"
	}
	d, names := c.decl()
	var b strings.Builder
	b.WriteString("package main\n\nimport \"fmt\"\n\n" + d + "\n\nfunc main() {\n")
	for _, n := range names {
		fmt.Fprintf(&b, "\tfmt.Printf(\"%%#v|%%T\\n\", %s, %s)\n", n, n)
	}
	b.WriteString("}\n")
	return b.String()
}
