// C03 correspondence harness: constant expressions.
//
//	impl  = the real code of /repo (built with -tags verif): representableConst through a hook, and
//	        Eval of generated programs that declare and print constants
//	model = Lean `reprY` / `evalY…` over the regenerated facts (y=) and the Lean Go-spec model (g=)
//	ref   = go/types + go/constant on the same source text
//
// Checked on every case: impl = y (correspondence), ref = g (spec validation), impl = ref (the property).
package main

import (
	"encoding/json"
	"fmt"
	"math/big"
	"os"
	"runtime"
	"sync"

	"verif/harness/common"
)

// caseT is one input.
type caseT struct {
	Kind string `json:"kind"` // repr | prog | cplx (complex64/128 conversion of a real constant: real code against the reference only)

	// repr: is the integer constant Value representable in Type (hook on representableConst)
	Type  string `json:"type,omitempty"`
	Value string `json:"value,omitempty"`

	// prog: a declaration context around an expression tree (or a const block)
	Ctx   string  `json:"ctx,omitempty"`   // var | const | varT | constT | block
	Expr  *exprT  `json:"expr,omitempty"`  // var/const/varT/constT
	Block []specT `json:"block,omitempty"` // block

	// Form: how the real program uses the typed declaration `var c0 T = e` ("" as written, "assign": `var c0 T` and an
	// assignment statement `c0 = e`, "complit": `var c0 = []T{e}[0]`, "short": `c0 := e` inside main for `var c0 = e`, "iface" / "ifacelocal": `var c0 interface{} = e` at package level / inside main); the model and the reference see the declaration
	Form string `json:"form,omitempty"`

	// raw: a constant expression as source text (Ctx var | const | short | intuse): real code against go/types only
	Src string `json:"src,omitempty"`
}

// outcome is the canonical observable of one case on one side.
type outcome = string

func (c caseT) key() string {
	b, _ := json.Marshal(c)
	return string(b)
}

type sideResults struct {
	impl, ref outcome
}

func main() {
	if len(os.Args) > 1 && os.Args[1] == "-worker" {
		workerMain()
		return
	}
	run := common.NewRun("C03")
	run.Res.Rule = "cases = (integer kind, integer literal) for representableConst — every boundary of every width (min-1, min, max, max+1, ±2^bits, ±(2^bits-1), 2^63.., 2^64..) plus seeded literals up to 2^200 — and generated programs declaring constants from seeded, type-directed expression trees (depth ≤ 6, every constant operator, conversions to every basic type, untyped int/rune/float/bool/string literals up to 2^200 and around the 512-bit limit of the toolchain, shift counts around 512 and 1074, typed zero divisors, typed floating-point shift counts, string(integer expression), comparisons and logical operators; exact constants at, just below and just above the rounding midpoints of float32 and float64 — dyadic rationals as exact decimal literals and as expressions, big integers, long decimal literals — converted to float32 / float64 / complex64 / complex128 and compared by the exact value of the result, i.e. its bit pattern; constant shifts of untyped floating-point and complex constants of integer value, whose default type is int, observed with %T in package-level, short-declaration and integer-only-use contexts) in the contexts var / const / typed var / typed const / const block with iota and implicit repetition; non-trivial = boundary-distance ≤ 1 or magnitude ≥ 2^8 for repr cases, expression of depth ≥ 2 (or block of ≥ 2 specs) for programs; distinct = distinct protocol line"
	defer run.Finish()
	drv, err := common.StartDriver("C03")
	if err != nil {
		run.Errorf("driver: %v", err)
		return
	}
	defer drv.Close()
	findings, err := common.LoadFindings("C03")
	if err != nil {
		run.Errorf("known findings: %v", err)
	}

	var cases []caseT
	if run.Replay != "" {
		b, err := os.ReadFile(run.Replay)
		if err != nil {
			run.Errorf("replay: %v", err)
			return
		}
		var rp struct {
			Input caseT `json:"input"`
		}
		if err := json.Unmarshal(b, &rp); err != nil {
			run.Errorf("replay: %v", err)
			return
		}
		cases = []caseT{rp.Input}
	} else {
		// listed findings are replayed first
		for _, f := range findings {
			var c caseT
			if err := json.Unmarshal(f.Replay, &c); err != nil {
				run.Errorf("finding %s: bad replay: %v", f.ID, err)
				continue
			}
			im, rf := implAll([]caseT{c}, run.Errorf)[0], refOf(c)
			if c.Kind == "cplx" || c.Kind == "raw" {
				run.Res.Known = append(run.Res.Known, common.KnownReplay{ID: f.ID, Status: f.Status, What: f.What, StillFails: !agree(im, rf),
					Detail: fmt.Sprintf("impl=%s ref=%s", im, rf)})
				continue
			}
			still := !agree(im, rf)
			if f.Status == "fixed" {
				// a repaired finding: its class is gone from the classification, the replay input must now lie in
				// the domain of the theorems (and pass: StillFails is reported as a VIOLATION by tools/check.py)
				if a, err := drv.AskAll([]string{c.line()}); err != nil {
					run.Errorf("fixed finding %s: driver: %v", f.ID, err)
				} else if sig := signature(c, common.Fields(a[0])); sig != "" {
					run.Errorf("fixed finding %s: its replay input has class %q, expected in-domain", f.ID, sig)
				}
			}
			run.Res.Known = append(run.Res.Known, common.KnownReplay{ID: f.ID, Status: f.Status, What: f.What, StillFails: still,
				Detail: fmt.Sprintf("impl=%s ref=%s", im, rf)})
		}
		cases = generate(run)
	}

	// complex conversions are not modelled: real code against the reference only
	{
		var cx, rest []caseT
		for _, c := range cases {
			if c.Kind == "cplx" || c.Kind == "raw" {
				cx = append(cx, c)
			} else {
				rest = append(rest, c)
			}
		}
		cases = rest
		ims := implAll(cx, run.Errorf)
		for i, c := range cx {
			rf := refOf(c)
			run.Count(c.Kind+" "+c.key(), true)
			run.Hit(c.Kind + ":" + c.Type + c.Ctx + ":impl=" + bucket(ims[i]))
			run.Hit("unmodelled")
			if !agree(ims[i], rf) {
				run.Disagree(common.Disagreement{Kind: "impl-vs-ref", Input: c, Impl: ims[i], Ref: rf, Finding: signature(c, nil), Note: c.source()})
				if os.Getenv("VERIF_C03_DUMP") != "" {
					fmt.Fprintf(os.Stderr, "DIFF %-60s impl=%-30s ref=%-30s\n", c.source(), ims[i], rf)
				}
			}
		}
	}

	lines := make([]string, len(cases))
	for i, c := range cases {
		lines[i] = c.line()
	}
	answers, err := drv.AskAll(lines)
	if err != nil {
		run.Errorf("driver: %v", err)
		return
	}

	// real code (in worker subprocesses, each case in its own interpreter) and reference
	impls := implAll(cases, run.Errorf)
	res := make([]sideResults, len(cases))
	var wg sync.WaitGroup
	sem := make(chan struct{}, runtime.NumCPU())
	for i := range cases {
		wg.Add(1)
		sem <- struct{}{}
		go func(i int) {
			defer wg.Done()
			defer func() { <-sem }()
			res[i] = sideResults{impl: impls[i], ref: refOf(cases[i])}
		}(i)
	}
	wg.Wait()

	sampled := map[string]int{}
	for i, c := range cases {
		ans := common.Fields(answers[i])
		y, g, yx := ans["y"], ans["g"], ans["yx"]
		if yx == "" {
			yx = y
		}
		if y == "" || g == "" {
			run.Errorf("driver answered %q to %q", answers[i], lines[i])
			continue
		}
		im, rf := res[i].impl, res[i].ref
		sig := signature(c, ans)
		run.Count(lines[i], nontrivial(c))
		run.Hit(c.Kind + ":" + c.Ctx + ":impl=" + bucket(im))
		run.Hit(c.Kind + ":" + c.Ctx + ":ref=" + bucket(rf))
		if sig != "" {
			run.Hit("class:" + sig)
		} else {
			run.Hit("class:in-domain")
		}
		if c.Kind == "repr" {
			if v, ok := new(big.Int).SetString(c.Value, 10); ok && formerGap(c.Type, v) {
				run.Hit("repr:former-signed-gap(F03, fixed)")
			}
		}
		describe(run, c)
		// samples: up to two of each kind/context, the program ones with some depth
		sk := c.Kind + ":" + c.Ctx
		if sampled[sk] < 2 && (c.Kind == "repr" && reprNontrivial(c) || c.Kind == "prog" && nontrivial(c) && len(c.source()) > 40 && len(c.source()) < 400) {
			sampled[sk]++
			run.Sample(map[string]interface{}{"case": c, "source": c.source(), "impl": im, "model": y, "spec": g, "ref": rf, "class": sig}, 12)
		}
		if c.Form == "iface" || c.Form == "ifacelocal" {
			// an interface destination is a context the Lean model of the interpreter does not describe: the real
			// code is compared with the reference (and the specification model) only
			y, yx = "?", "?"
		}
		modelled := y != "?"
		if modelled && !modelSays(y, im) {
			run.Disagree(common.Disagreement{Kind: "impl-vs-model", Input: c, Impl: im, Model: y, Ref: rf, Note: c.source()})
			if os.Getenv("VERIF_C03_DUMP") != "" {
				fmt.Fprintf(os.Stderr, "IMPL-MODEL %-60s impl=%-30s y=%-30s ref=%s\n", c.source(), im, y, rf)
			}
		}
		if g != "?" && rf != g {
			run.Disagree(common.Disagreement{Kind: "spec-vs-ref", Input: c, Spec: g, Ref: rf, Note: c.source()})
			if os.Getenv("VERIF_C03_DUMP") != "" {
				fmt.Fprintf(os.Stderr, "SPEC-REF %-60s g=%-30s ref=%s\n", c.source(), g, rf)
			}
		}
		if !modelled {
			run.Hit("unmodelled")
		}
		if !agree(im, rf) {
			// a listed class explains the difference only when the implementation still behaves as the
			// model of the *unchanged* code (expected facts, yx=) predicts; otherwise this is a new failing input
			d := common.Disagreement{Kind: "impl-vs-ref", Input: c, Impl: im, Model: yx, Ref: rf, Finding: sig, Note: c.source()}
			if yx != "?" && !modelSays(yx, im) {
				d.Finding, d.Note = "", "differs from the reference and from the model of the unchanged code (class "+sig+"): "+c.source()
			}
			run.Disagree(d)
			if os.Getenv("VERIF_C03_DUMP") != "" {
				fmt.Fprintf(os.Stderr, "DIFF %-60s impl=%-30s ref=%-30s y=%s cls=%s\n", c.source(), im, rf, y, sig)
			}
		} else if sig == "" && yx != "?" && !modelSays(yx, g) {
			// inside the domain (no class) the model of the unchanged code and the spec model must agree
			// (cheap cross-check of the classification)
			run.Errorf("model and spec differ inside the domain on %s: yx=%s g=%s", lines[i], yx, g)
		}
	}
}

// agree: does the implementation's outcome satisfy the property given the reference's outcome?
// Both are canonical strings: "ok:<value>:<type>", "true"/"false" (repr), "reject", "crash:…", "timeout".
func agree(im, rf outcome) bool { return im == rf }

// modelSays: is the outcome one the model of the unchanged code allows? ("reject|crash": the declaration is
// rejected by the first walk of gta; the model does not follow gta's retry, which may panic)
func modelSays(y, im outcome) bool {
	if y == "reject|crash" {
		return im == "reject" || im == "crash"
	}
	return y == im
}

// bucket shortens an outcome for the distribution table.
func bucket(o outcome) string {
	for i := 0; i < len(o); i++ {
		if o[i] == ':' {
			return o[:i]
		}
	}
	return o
}
