package main

import (
	"fmt"
	"math"
	"math/big"
	"sort"
	"strconv"
)

// kindT describes one basic kind of the property's quantifier.
type kindT struct {
	Name   string // Go type name
	Class  string // int | uint | float | complex | string | bool
	Bits   int    // integer width / float width (complex: total)
	Signed bool
	Under  string // for a defined type (`type Di8 int8`): the underlying basic type; "" for the basic types themselves
}

// basic returns the name of the underlying basic type.
func (k kindT) basic() string {
	if k.Under != "" {
		return k.Under
	}
	return k.Name
}

var intKinds = []kindT{
	{"int8", "int", 8, true, ""}, {"int16", "int", 16, true, ""}, {"int32", "int", 32, true, ""}, {"int64", "int", 64, true, ""}, {"int", "int", 64, true, ""},
	{"uint8", "uint", 8, false, ""}, {"uint16", "uint", 16, false, ""}, {"uint32", "uint", 32, false, ""}, {"uint64", "uint", 64, false, ""},
	{"uint", "uint", 64, false, ""}, {"uintptr", "uint", 64, false, ""},
}

var floatKinds = []kindT{{"float32", "float", 32, true, ""}, {"float64", "float", 64, true, ""}}
var complexKinds = []kindT{{"complex64", "complex", 64, true, ""}, {"complex128", "complex", 128, true, ""}}
var stringKind = kindT{"string", "string", 0, false, ""}
var boolKind = kindT{"bool", "bool", 0, false, ""}

// definedKinds: defined types over basic kinds (their operands have yaegi type category linkedT: == and != go through
// the interface-comparison arms of equal / notEqual)
var definedKinds = []kindT{
	{"Di8", "int", 8, true, "int8"}, {"Du16", "uint", 16, false, "uint16"}, {"Di", "int", 64, true, "int"},
	{"Df64", "float", 64, true, "float64"}, {"Ds", "string", 0, false, "string"},
}

var kindByName = map[string]kindT{}

func init() {
	for _, ks := range [][]kindT{intKinds, floatKinds, complexKinds, {stringKind, boolKind}, definedKinds} {
		for _, k := range ks {
			kindByName[k.Name] = k
		}
	}
}

func (k kindT) isInt() bool { return k.Class == "int" || k.Class == "uint" }

// ---------- integer boundary values ----------

func pow2(n int) *big.Int { return new(big.Int).Lsh(big.NewInt(1), uint(n)) }

// intValues returns the boundary set of an integer kind: min, max, −1, 0, 1, powers of two and their
// neighbours. level 0: small set (quick tier), level 1: full set.
func intValues(k kindT, level int) []*big.Int {
	set := map[string]*big.Int{}
	add := func(v *big.Int) {
		lo, hi := k.rangeOf()
		if v.Cmp(lo) >= 0 && v.Cmp(hi) <= 0 {
			set[v.String()] = new(big.Int).Set(v)
		}
	}
	lo, hi := k.rangeOf()
	one := big.NewInt(1)
	for _, v := range []*big.Int{lo, hi, new(big.Int).Add(lo, one), new(big.Int).Sub(hi, one), big.NewInt(-1), big.NewInt(0), one, big.NewInt(2), big.NewInt(3), big.NewInt(-2)} {
		add(v)
	}
	var ks []int
	if level == 0 {
		ks = []int{k.Bits / 2, k.Bits - 2}
	} else {
		for e := 2; e < k.Bits; e++ {
			if e <= 4 || e%8 == 0 || e%8 == 7 || e == k.Bits-2 || e == k.Bits/2 {
				ks = append(ks, e)
			}
		}
	}
	for _, e := range ks {
		p := pow2(e)
		for _, d := range []int64{-1, 0, 1} {
			v := new(big.Int).Add(p, big.NewInt(d))
			add(v)
			if level > 0 || d == 0 {
				add(new(big.Int).Neg(v))
			}
		}
	}
	if level > 0 {
		for _, v := range []int64{5, 7, 10, 100, -3, -7, -10, -100} {
			add(big.NewInt(v))
		}
	}
	var out []*big.Int
	for _, v := range set {
		out = append(out, v)
	}
	sort.Slice(out, func(i, j int) bool { return out[i].Cmp(out[j]) < 0 })
	return out
}

func (k kindT) rangeOf() (lo, hi *big.Int) {
	if k.Signed {
		return new(big.Int).Neg(pow2(k.Bits - 1)), new(big.Int).Sub(pow2(k.Bits-1), big.NewInt(1))
	}
	return big.NewInt(0), new(big.Int).Sub(pow2(k.Bits), big.NewInt(1))
}

// shiftCounts: counts of a given count kind (below, at and above every width; negative ones for signed kinds).
func shiftCounts(ck kindT, level int, negative bool) []*big.Int {
	set := map[string]*big.Int{}
	lo, hi := ck.rangeOf()
	add := func(v int64) {
		b := big.NewInt(v)
		if b.Cmp(lo) >= 0 && b.Cmp(hi) <= 0 {
			set[b.String()] = b
		}
	}
	base := []int64{0, 1, 7, 8, 31, 32, 63, 64, 65}
	if level > 0 {
		base = append(base, 2, 3, 9, 15, 16, 17, 33, 62, 100, 127, 128, 200, 255)
	}
	for _, v := range base {
		add(v)
	}
	set[hi.String()] = hi
	if negative && ck.Signed {
		add(-1)
		add(-3)
		add(-64)
		set[lo.String()] = lo
	}
	var out []*big.Int
	for _, v := range set {
		out = append(out, v)
	}
	sort.Slice(out, func(i, j int) bool { return out[i].Cmp(out[j]) < 0 })
	return out
}

// bitsOf returns the two's-complement pattern of v at width w as a natural number.
func bitsOf(v *big.Int, w int) *big.Int {
	m := pow2(w)
	r := new(big.Int).Mod(v, m)
	if r.Sign() < 0 {
		r.Add(r, m)
	}
	return r
}

// fromBits reads a pattern back as a value of kind k.
func fromBits(n *big.Int, k kindT) *big.Int {
	if k.Signed && n.Cmp(pow2(k.Bits-1)) >= 0 {
		return new(big.Int).Sub(n, pow2(k.Bits))
	}
	return n
}

// ---------- float / complex / string values ----------

// floatExprs: Go expressions of float kind k covering NaN, ±Inf, ±0, subnormals, extremes, rounding cases.
func floatExprs(k kindT, level int) []string {
	var bits []uint64
	if k.Bits == 32 {
		bits = []uint64{0x00000000, 0x80000000, 0x3f800000, 0xbf800000, 0x7f800000, 0xff800000, 0x7fc00000, 0x00000001, 0x7f7fffff, 0x3f000000,
			0x4b800000, 0x4b7fffff, 0x40490fdb, 0x4f000000, 0xcf000000, 0x5f000000, 0x3eaaaaab}
		if level > 0 {
			bits = append(bits, 0x80000001, 0x00800000, 0xff7fffff, 0x4f800000, 0x5f800000, 0xdf000000, 0x3fc00000, 0x40000000, 0x40400000, 0x3dcccccd, 0x4b000001, 0x33800000, 0x7f800001)
		}
	} else {
		bits = []uint64{0x0000000000000000, 0x8000000000000000, 0x3ff0000000000000, 0xbff0000000000000, 0x7ff0000000000000, 0xfff0000000000000,
			0x7ff8000000000000, 0x0000000000000001, 0x7fefffffffffffff, 0x3fe0000000000000, 0x4340000000000000, 0x433fffffffffffff, 0x400921fb54442d18,
			0x43e0000000000000, 0xc3e0000000000000, 0x43f0000000000000, 0x3fd5555555555555, 0x41dfffffffc00000, 0x41e0000000000000}
		if level > 0 {
			bits = append(bits, 0x8000000000000001, 0x0010000000000000, 0xffefffffffffffff, 0x47efffffe0000000, 0x47f0000000000000, 0x36a0000000000000,
				0x3ff8000000000000, 0x4000000000000000, 0x4008000000000000, 0x3fb999999999999a, 0x4330000000000001, 0x3ca0000000000000, 0xc1e0000000000000, 0x7ff0000000000001)
		}
	}
	out := make([]string, len(bits))
	for i, b := range bits {
		if k.Bits == 32 {
			out[i] = fmt.Sprintf("math.Float32frombits(0x%08x)", b)
		} else {
			out[i] = fmt.Sprintf("math.Float64frombits(0x%016x)", b)
		}
	}
	return out
}

// floatConsts: finite literals usable as constants of kind k.
func floatConsts(k kindT, level int) []string {
	out := []string{"0.0", "1.0", "-1.0", "0.5", "2.0", "3.0", "0.1", "1e10", "-2.5", "16777217.0", "1e-3"}
	if k.Bits == 64 {
		out = append(out, "9007199254740993.0", "1e300", "1e-300", "4294967296.0")
	} else {
		out = append(out, "3.4e38", "1e-38")
	}
	if level == 0 {
		return out[:8]
	}
	return out
}

func complexExprs(k kindT, level int) []string {
	var fk kindT
	if k.Bits == 64 {
		fk = floatKinds[0]
	} else {
		fk = floatKinds[1]
	}
	fs := floatExprs(fk, 0)
	pick := []int{0, 1, 2, 3, 4, 6, 8, 12}
	var out []string
	for _, i := range pick {
		for _, j := range pick {
			if level == 0 && (i+j)%3 != 0 {
				continue
			}
			out = append(out, fmt.Sprintf("complex(%s, %s)", fs[i], fs[j]))
		}
	}
	return out
}

func complexConsts(level int) []string {
	out := []string{"0", "1", "1i", "(1 + 2i)", "(-1.5 - 0.5i)", "(3 + 0i)", "2.5", "(0.1 + 1e10i)"}
	if level == 0 {
		return out[:5]
	}
	return out
}

func stringValues(level int) []string {
	out := []string{`""`, `"a"`, `"b"`, `"ab"`, `"abc"`, `"A"`, `"é"`, `"\x00"`, `"a\x00"`, `"\xff"`, `"日本"`, `"aa"`}
	if level == 0 {
		return out[:8]
	}
	return out
}

func quoteInt(v *big.Int) string { return v.String() }

func mustAtoi(s string) int {
	n, err := strconv.Atoi(s)
	if err != nil {
		panic(err)
	}
	return n
}

var _ = math.Pi
