package main

import (
	"fmt"
	"math/big"
	"math/rand"
	"strings"
)

// opT is one operator of the property's quantifier.
type opT struct {
	Name  string // add sub mul quo rem and or xor andnot shl shr eq ne lt le gt ge neg pos bitnot lnot inc dec land lor conv
	Tok   string
	Group string // arith shift cmp unary incdec logic conv
}

var ops = []opT{
	{"add", "+", "arith"}, {"sub", "-", "arith"}, {"mul", "*", "arith"}, {"quo", "/", "arith"}, {"rem", "%", "arith"},
	{"and", "&", "arith"}, {"or", "|", "arith"}, {"xor", "^", "arith"}, {"andnot", "&^", "arith"},
	{"shl", "<<", "shift"}, {"shr", ">>", "shift"},
	{"eq", "==", "cmp"}, {"ne", "!=", "cmp"}, {"lt", "<", "cmp"}, {"le", "<=", "cmp"}, {"gt", ">", "cmp"}, {"ge", ">=", "cmp"},
	{"neg", "-", "unary"}, {"pos", "+", "unary"}, {"bitnot", "^", "unary"}, {"lnot", "!", "unary"},
	{"inc", "++", "incdec"}, {"dec", "--", "incdec"},
	{"land", "&&", "logic"}, {"lor", "||", "logic"},
	{"conv", "", "conv"},
}

var opByName = map[string]opT{}

func init() {
	for _, o := range ops {
		opByName[o.Name] = o
	}
}

// applies: is the operator defined on operands of this kind class?
func (o opT) applies(k kindT) bool {
	switch k.Class {
	case "int", "uint":
		return o.Group != "logic" && o.Name != "lnot"
	case "float":
		switch o.Name {
		case "add", "sub", "mul", "quo", "eq", "ne", "lt", "le", "gt", "ge", "neg", "pos", "inc", "dec", "conv":
			return true
		}
	case "complex":
		switch o.Name {
		case "add", "sub", "mul", "quo", "eq", "ne", "neg", "pos", "inc", "dec", "conv":
			return true
		}
	case "string":
		switch o.Name {
		case "add", "eq", "ne", "lt", "le", "gt", "ge":
			return true
		}
	case "bool":
		switch o.Name {
		case "eq", "ne", "lnot", "land", "lor":
			return true
		}
	}
	return false
}

func (o opT) contexts() []string {
	switch o.Group {
	case "arith", "shift":
		return []string{"assign", "define", "opassign", "ret", "cond", "iface", "arg",
			"assign-global", "assign-elem", "assign-field", "opassign-map", "opassign-elem", "opassign-field", "opassign-ptr"}
	case "cmp":
		return []string{"cond", "assign", "define", "ret", "iface", "arg", "assign-global", "assign-elem", "assign-field"}
	case "unary", "conv":
		return []string{"assign", "define", "ret", "iface", "arg", "assign-global", "assign-elem", "assign-field"}
	case "incdec":
		return []string{"stmt", "stmt-map", "stmt-elem", "stmt-field", "stmt-ptr"}
	case "logic":
		return []string{"cond", "assign", "ret", "iface"}
	}
	return nil
}

// site is one operator expression in a generated program, evaluated on every pair of XS × YS.
type site struct {
	ID                    int      `json:"id"`
	Op                    string   `json:"op"`
	K                     string   `json:"kind"`            // kind of the left / only operand
	K2                    string   `json:"kind2,omitempty"` // kind of the right operand (shift count) or target kind of a conversion
	Form                  string   `json:"form"`            // vv cl cr cc | v c
	CKind                 string   `json:"ckind,omitempty"` // constant operand written as: lit | typed (named typed constant) | untyped (named untyped constant)
	Ctx                   string   `json:"ctx"`
	Spell                 string   `json:"spell,omitempty"` // spelling of an integer constant: "" decimal | hex | float (123.0) | exp (1.23e2) | rune
	CL                    string   `json:"cl,omitempty"`    // constant operand source text
	CR                    string   `json:"cr,omitempty"`
	XS                    []string `json:"xs,omitempty"` // variable operand values (Go expressions; decimal for integers)
	YS                    []string `json:"ys,omitempty"`
	Line                  int      `json:"-"` // line of the operator expression in the program
	First, Last, MainLine int      `json:"-"` // lines owned by the site
}

func (s *site) kind() kindT  { return kindByName[s.K] }
func (s *site) kind2() kindT { return kindByName[s.K2] }
func (s *site) op() opT      { return opByName[s.Op] }

// resultKind: static type of the expression value.
func (s *site) resultKind() kindT {
	switch s.op().Group {
	case "cmp", "logic":
		return boolKind
	case "conv":
		return s.kind2()
	}
	if s.Op == "lnot" {
		return boolKind
	}
	return s.kind()
}

// spelled renders an integer constant (decimal text) in another lexical form of the same value.
func spelled(v, how string, k kindT) string {
	if !k.isInt() || how == "" {
		return v
	}
	n, ok := new(big.Int).SetString(v, 10)
	if !ok {
		return v
	}
	switch how {
	case "hex":
		if n.Sign() < 0 {
			return "-0x" + new(big.Int).Neg(n).Text(16)
		}
		return "0x" + n.Text(16)
	case "float":
		return v + ".0"
	case "exp":
		return v + "e0"
	case "rune":
		if n.Sign() >= 0 && n.Cmp(big.NewInt(126)) <= 0 && n.Cmp(big.NewInt(32)) >= 0 && n.Int64() != 39 && n.Int64() != 92 {
			return "'" + string(rune(n.Int64())) + "'"
		}
	}
	return v
}

func paren(lit string) string {
	if strings.HasPrefix(lit, "-") {
		return "(" + lit + ")"
	}
	return lit
}

// printExpr: how a value of kind k held in Go expression e is printed (floats as bits).
func printExpr(k kindT, e string) string {
	if k.Under != "" && k.Class == "float" {
		e = k.Under + "(" + e + ")"
	}
	switch k.basic() {
	case "float32":
		return "math.Float32bits(" + e + ")"
	case "float64":
		return "math.Float64bits(" + e + ")"
	case "complex64":
		return "math.Float32bits(real(" + e + ")), math.Float32bits(imag(" + e + "))"
	case "complex128":
		return "math.Float64bits(real(" + e + ")), math.Float64bits(imag(" + e + "))"
	case "string":
		return `fmt.Sprintf("%q", ` + e + ")"
	}
	return e
}

// keyExpr prints an operand as ONE field of the output line.
func keyExpr(k kindT, e string) string {
	switch k.Class {
	case "complex":
		return `fmt.Sprint(` + printExpr(k, e) + `)` // "re im" -> two fields would break the key: joined below
	}
	return printExpr(k, e)
}

type progBuilder struct {
	lines  []string
	tables map[string]string // "type|v1,v2,…" -> variable name
	tdecl  []string
	mainB  []string
}

func (p *progBuilder) add(l string) int {
	p.lines = append(p.lines, l)
	return len(p.lines) // 1-based line number of the line just added (after the header is prepended, see finish)
}

func (p *progBuilder) table(typ string, vals []string) string {
	if k := kindByName[typ]; k.Under != "" && k.Class == "float" {
		conv := make([]string, len(vals))
		for i, v := range vals {
			conv[i] = typ + "(" + v + ")"
		}
		vals = conv
	}
	key := typ + "|" + strings.Join(vals, ",")
	if n, ok := p.tables[key]; ok {
		return n
	}
	n := fmt.Sprintf("tb%d", len(p.tables))
	p.tables[key] = n
	p.tdecl = append(p.tdecl, fmt.Sprintf("var %s = []%s{%s}", n, typ, strings.Join(vals, ", ")))
	return n
}

const headerLines = 18

func header() []string {
	h := []string{
		"package main",
		"",
		"import (",
		"\t\"fmt\"",
		"\t\"math\"",
		")",
		"",
		"var _ = math.Pi",
		"",
		"func rec(n int, a, b interface{}) { if r := recover(); r != nil { fmt.Println(n, a, b, \"P:\", r) } }",
		"func cj(a, b interface{}) string { return fmt.Sprint(a) + \"_\" + fmt.Sprint(b) }",
		"",
		"type Di8 int8",
		"type Du16 uint16",
		"type Di int",
		"type Df64 float64",
		"type Ds string",
		"",
	}
	if len(h) != headerLines {
		panic("header")
	}
	return h
}

// operandKey: expression printing operand (kind k, Go expr e) as a single field.
func operandKey(k kindT, e string) string {
	switch k.basic() {
	case "complex64":
		return "cj(math.Float32bits(real(" + e + ")), math.Float32bits(imag(" + e + ")))"
	case "complex128":
		return "cj(math.Float64bits(real(" + e + ")), math.Float64bits(imag(" + e + ")))"
	}
	return printExpr(k, e)
}

func resultPrint(k kindT, e string) string {
	switch k.Class {
	case "complex":
		return operandKey(k, e)
	}
	return printExpr(k, e)
}

// emit renders one site (functions + its loop in main) and records the line of the operator expression.
func (p *progBuilder) emit(s *site) {
	o := s.op()
	k, k2 := s.kind(), s.kind2()
	rk := s.resultKind()
	id := s.ID
	unary := o.Group == "unary" || o.Group == "incdec" || o.Group == "conv"
	// constants
	constL := s.Form == "cl" || s.Form == "cc" || s.Form == "c"
	constR := s.Form == "cr" || s.Form == "cc"
	L, R := "a", "b"
	s.First = len(p.lines) + 1
	defer func() { s.Last = len(p.lines) }()
	// the site function takes INDICES into the value tables (a float −0 passed as a parameter loses its sign in the
	// interpreter, class float-negzero-param); only the `ret` context passes the operands themselves
	var params, args, loops, fetch, vparams, vargs []string
	pa, pb := `"-"`, `"-"`
	if constL {
		txt := spelled(s.CL, s.Spell, k)
		switch s.CKind {
		case "lit":
			L = paren(txt)
		case "typed":
			p.add(fmt.Sprintf("const c%dl %s = %s", id, k.Name, txt))
			L = fmt.Sprintf("c%dl", id)
		case "untyped":
			p.add(fmt.Sprintf("const c%dl = %s", id, txt))
			L = fmt.Sprintf("c%dl", id)
		}
		pa = fmt.Sprintf("%q", strings.ReplaceAll(s.CL, " ", ""))
	} else {
		ta := p.table(k.Name, s.XS)
		params = append(params, "i int")
		args = append(args, "i")
		fetch = append(fetch, "\ta := "+ta+"[i]")
		vparams, vargs = append(vparams, "a "+k.Name), append(vargs, "a")
		loops = append(loops, fmt.Sprintf("for i := range %s {", ta))
		pa = operandKey(k, "a")
	}
	if !unary {
		if constR {
			txt := spelled(s.CR, s.Spell, k2)
			switch s.CKind {
			case "lit":
				R = paren(txt)
			case "typed":
				p.add(fmt.Sprintf("const c%dr %s = %s", id, k2.Name, txt))
				R = fmt.Sprintf("c%dr", id)
			case "untyped":
				p.add(fmt.Sprintf("const c%dr = %s", id, txt))
				R = fmt.Sprintf("c%dr", id)
			}
			pb = fmt.Sprintf("%q", strings.ReplaceAll(s.CR, " ", ""))
		} else {
			tb := p.table(k2.Name, s.YS)
			params = append(params, "j int")
			args = append(args, "j")
			fetch = append(fetch, "\tb := "+tb+"[j]")
			vparams, vargs = append(vparams, "b "+k2.Name), append(vargs, "b")
			loops = append(loops, fmt.Sprintf("for j := range %s {", tb))
			pb = operandKey(k2, "b")
		}
	}
	var expr string
	switch o.Group {
	case "unary":
		expr = o.Tok + L
		if strings.HasPrefix(L, "(") || !constL {
			expr = o.Tok + L
		}
	case "conv":
		expr = k2.Name + "(" + L + ")"
	default:
		expr = L + " " + o.Tok + " " + R
	}
	plist := strings.Join(params, ", ")
	alist := strings.Join(args, ", ")
	vplist := strings.Join(vparams, ", ")
	valist := strings.Join(vargs, ", ")
	out := func(res string) string { return fmt.Sprintf("fmt.Println(%d, %s, %s, %s)", id, pa, pb, res) }

	if s.Ctx == "assign-global" {
		p.add(fmt.Sprintf("var g%d %s", id, rk.Name))
	}
	if s.Ctx == "ret" {
		p.add(fmt.Sprintf("func f%d(%s) %s {", id, vplist, rk.Name))
		s.Line = p.add("\treturn " + expr)
		p.add("}")
	}
	p.add(fmt.Sprintf("func s%d(%s) {", id, plist))
	for _, l := range fetch {
		p.add(l)
	}
	p.add(fmt.Sprintf("\tdefer rec(%d, %s, %s)", id, pa, pb))
	switch s.Ctx {
	case "assign":
		p.add("\tvar r " + rk.Name)
		s.Line = p.add("\tr = " + expr)
		p.add("\t" + out(resultPrint(rk, "r")))
	case "define":
		s.Line = p.add("\tr := " + expr)
		p.add("\t" + out(resultPrint(rk, "r")))
	case "assign-global": // package-level destination
		s.Line = p.add(fmt.Sprintf("\tg%d = %s", id, expr))
		p.add("\t" + out(resultPrint(rk, fmt.Sprintf("g%d", id))))
	case "assign-elem": // slice element destination
		p.add("\tsl := make([]" + rk.Name + ", 2)")
		s.Line = p.add("\tsl[1] = " + expr)
		p.add("\t" + out(resultPrint(rk, "sl[1]")))
	case "assign-field": // struct field destination
		p.add("\tvar st struct{ p bool; f " + rk.Name + " }")
		s.Line = p.add("\tst.f = " + expr)
		p.add("\t" + out(resultPrint(rk, "st.f")))
	case "opassign":
		p.add("\tvar r " + k.Name + " = " + L)
		s.Line = p.add("\tr " + o.Tok + "= " + R)
		p.add("\t" + out(resultPrint(rk, "r")))
	case "opassign-map", "stmt-map": // map entry: the closure writes back with SetMapIndex
		p.add("\tm := map[string]" + k.Name + "{\"k\": " + L + "}")
		if o.Group == "incdec" {
			s.Line = p.add("\tm[\"k\"]" + o.Tok)
		} else {
			s.Line = p.add("\tm[\"k\"] " + o.Tok + "= " + R)
		}
		p.add("\t" + out(resultPrint(rk, "m[\"k\"]")))
	case "opassign-elem", "stmt-elem":
		p.add("\tsl := []" + k.Name + "{0, " + L + "}")
		if o.Group == "incdec" {
			s.Line = p.add("\tsl[1]" + o.Tok)
		} else {
			s.Line = p.add("\tsl[1] " + o.Tok + "= " + R)
		}
		p.add("\t" + out(resultPrint(rk, "sl[1]")))
	case "opassign-field", "stmt-field":
		p.add("\tvar st struct{ p bool; f " + k.Name + " }")
		p.add("\tst.f = " + L)
		if o.Group == "incdec" {
			s.Line = p.add("\tst.f" + o.Tok)
		} else {
			s.Line = p.add("\tst.f " + o.Tok + "= " + R)
		}
		p.add("\t" + out(resultPrint(rk, "st.f")))
	case "opassign-ptr", "stmt-ptr":
		p.add("\tvar v " + k.Name + " = " + L)
		p.add("\tq := &v")
		if o.Group == "incdec" {
			s.Line = p.add("\t(*q)" + o.Tok)
		} else {
			s.Line = p.add("\t*q " + o.Tok + "= " + R)
		}
		p.add("\t" + out(resultPrint(rk, "v")))
	case "stmt": // inc / dec
		p.add("\tr := " + L)
		s.Line = p.add("\tr" + o.Tok)
		p.add("\t" + out(resultPrint(rk, "r")))
	case "ret":
		p.add(fmt.Sprintf("\tr := f%d(%s)", id, valist))
		p.add("\t" + out(resultPrint(rk, "r")))
	case "cond":
		c := expr
		if rk.Name != "bool" {
			c = expr + " != " + zeroOf(rk)
		}
		s.Line = p.add("\tif " + c + " {")
		p.add("\t\t" + out(`"T"`))
		p.add("\t} else {")
		p.add("\t\t" + out(`"F"`))
		p.add("\t}")
	case "iface":
		p.add("\tvar e interface{}")
		s.Line = p.add("\te = " + expr)
		p.add("\t" + out(`fmt.Sprintf("%T:%v", e, e)`))
	case "ifacereuse": // an interface variable that first receives an arithmetic result (class cmp-iface-dest-reused; replay only)
		p.add("\tvar e interface{}")
		p.add("\te = " + L + " + " + R)
		s.Line = p.add("\te = " + expr)
		p.add("\t" + out(`fmt.Sprintf("%T:%v", e, e)`))
	case "arg":
		s.Line = p.add("\t" + out(resultPrint(rk, expr)))
	}
	p.add("}")
	// loop in main
	call := fmt.Sprintf("s%d(%s)", id, alist)
	p.mainB = append(p.mainB, "\t"+strings.Join(loops, " ")+" "+call+" "+strings.Repeat("}", len(loops)))
}

func zeroOf(k kindT) string {
	switch k.Class {
	case "string":
		return `""`
	case "bool":
		return "false"
	}
	return "0"
}

// finish assembles the program; site lines were recorded relative to the body and are shifted here.
func (p *progBuilder) finish(sites []*site) string {
	pre := append(header(), p.tdecl...)
	pre = append(pre, "")
	shift := len(pre)
	for i, s := range sites {
		s.Line += shift
		s.First += shift
		s.Last += shift
		s.MainLine = shift + len(p.lines) + 1 + i + 1
	}
	var b strings.Builder
	for _, l := range pre {
		b.WriteString(l + "\n")
	}
	for _, l := range p.lines {
		b.WriteString(l + "\n")
	}
	b.WriteString("func main() {\n")
	for _, l := range p.mainB {
		b.WriteString(l + "\n")
	}
	b.WriteString("}\n")
	return b.String()
}

func buildProgram(sites []*site) string {
	p := &progBuilder{tables: map[string]string{}}
	for _, s := range sites {
		s.Line = 0
		p.emit(s)
	}
	return p.finish(sites)
}

// evaluations of a site.
func (s *site) nEvals() int {
	n := 1
	if len(s.XS) > 0 {
		n *= len(s.XS)
	}
	if len(s.YS) > 0 {
		n *= len(s.YS)
	}
	return n
}

// ---------- the site generator ----------

func strs(vs []*big.Int) []string {
	out := make([]string, len(vs))
	for i, v := range vs {
		out[i] = v.String()
	}
	return out
}

func valuesOf(k kindT, level int) []string {
	switch k.Class {
	case "int", "uint":
		return strs(intValues(k, level))
	case "float":
		return floatExprs(k, level)
	case "complex":
		return complexExprs(k, level)
	case "string":
		return stringValues(level)
	case "bool":
		return []string{"false", "true"}
	}
	return nil
}

func constsOf(k kindT, level int) []string {
	switch k.Class {
	case "int", "uint":
		return strs(intValues(k, level))
	case "float":
		return floatConsts(k, level)
	case "complex":
		return complexConsts(level)
	case "string":
		return stringValues(level)
	case "bool":
		return []string{"false", "true"}
	}
	return nil
}

var countKinds = []string{"uint8", "uint", "uint64", "uint16", "uint32", "uintptr", "int", "int8", "int64", "int16", "int32"}

func allKinds() []kindT {
	var out []kindT
	out = append(out, intKinds...)
	out = append(out, floatKinds...)
	out = append(out, complexKinds...)
	out = append(out, stringKind, boolKind)
	out = append(out, definedKinds...)
	return out
}

// convTargets: kinds a value of kind k can be converted to.
func convTargets(k kindT) []kindT {
	switch k.Class {
	case "int", "uint":
		out := append([]kindT{}, intKinds...)
		out = append(out, floatKinds...)
		out = append(out, definedKinds[0], definedKinds[1])
		return append(out, stringKind)
	case "float":
		out := append([]kindT{}, intKinds...)
		return append(out, floatKinds...)
	case "complex":
		return complexKinds
	case "string":
		return []kindT{stringKind}
	}
	return nil
}

type genOpts struct {
	level     int     // 0 quick, 1 thorough
	constFrac float64 // fraction of the constant-form sites that are emitted (sampled by seed)
	negCounts bool    // include negative shift counts of signed kinds (class shift-negative-count)
}

// generate returns the sites of a tier. The variable×variable sites cover the whole product
// operator × kind × context on the tier's value tables; constant forms (cl, cr, cc with the constant written as a
// literal, a named typed constant or a named untyped constant) are one site per constant value and are sampled.
func generate(rng *rand.Rand, g genOpts) []*site {
	var out []*site
	add := func(s site) {
		s.ID = len(out) + 1
		if (s.CL != "" || s.CR != "") && (s.kind().isInt() || s.kind2().isInt()) && s.Op != "conv" {
			s.Spell = []string{"", "", "hex", "float", "exp", "rune"}[rng.Intn(6)]
			// an untyped rune constant as left operand of a non-constant shift defaults to rune (int32), not int
			if s.op().Group == "shift" && s.Form == "cl" && s.CKind != "typed" && s.Spell == "rune" {
				s.Spell = "hex"
			}
		}
		// contexts in which the unchanged interpreter generates no closure at all (class iface-dest-no-closure): every
		// evaluation fails the same way, two values per operand are enough to keep the class observed
		if s.Ctx == "iface" && s.resultKind().Under != "" {
			// class defined-type-dynamic-type: the dynamic type is always reported as the underlying type
			if len(s.XS) > 3 {
				s.XS = s.XS[len(s.XS)-3:]
			}
			if len(s.YS) > 3 {
				s.YS = s.YS[len(s.YS)-3:]
			}
		}
		if s.Ctx == "iface" {
			switch s.Op {
			case "rem", "shl", "shr", "neg", "bitnot":
				if len(s.XS) > 2 {
					s.XS = s.XS[len(s.XS)-2:]
				}
				if len(s.YS) > 2 {
					s.YS = s.YS[len(s.YS)-2:]
				}
			}
		}
		out = append(out, &s)
	}
	curCtx := ""
	keep := func() bool {
		f := g.constFrac
		if strings.Contains(curCtx, "-") {
			f *= 0.3 // constant forms in the additional destination contexts
		}
		return f >= 1 || rng.Float64() < f
	}
	// the additional destinations (global, slice element, struct field, map entry, pointer) are sampled in the quick tier
	extraCtx := func(ctx string) bool { return strings.Contains(ctx, "-") }
	skipCtx := func(ctx string) bool { return extraCtx(ctx) && g.level == 0 && rng.Intn(3) != 0 }
	ckinds := []string{"lit", "typed", "untyped"}
	for _, k := range allKinds() {
		vals := valuesOf(k, g.level)
		consts := constsOf(k, g.level)
		// constant-form sites (one per constant value of the tier's FULL boundary set) run over the core boundary set
		// of the variable operand
		cvals := valuesOf(k, 0)
		for _, o := range ops {
			if !o.applies(k) {
				continue
			}
			switch o.Group {
			case "arith", "cmp", "logic":
				for _, ctx := range o.contexts() {
					if skipCtx(ctx) {
						continue
					}
					curCtx = ctx
					add(site{Op: o.Name, K: k.Name, K2: k.Name, Form: "vv", Ctx: ctx, XS: vals, YS: vals})
					for _, c := range consts {
						for _, ck := range ckinds {
							if keep() {
								add(site{Op: o.Name, K: k.Name, K2: k.Name, Form: "cl", CKind: ck, Ctx: ctx, CL: c, YS: cvals})
							}
							if keep() {
								add(site{Op: o.Name, K: k.Name, K2: k.Name, Form: "cr", CKind: ck, Ctx: ctx, CR: c, XS: cvals})
							}
						}
					}
					// both operands constant: folded at compile time (typed constants only; untyped×untyped is C03's subject)
					for i := 0; i < len(consts); i++ {
						if g.constFrac < 1 && rng.Float64() >= g.constFrac*4/float64(len(consts)) {
							continue
						}
						c1, c2 := consts[rng.Intn(len(consts))], consts[rng.Intn(len(consts))]
						if strings.HasPrefix(ctx, "opassign") {
							continue
						}
						add(site{Op: o.Name, K: k.Name, K2: k.Name, Form: "cc", CKind: "typed", Ctx: ctx, CL: c1, CR: c2})
					}
				}
			case "shift":
				for ci, ckn := range countKinds {
					ck := kindByName[ckn]
					if g.level == 0 && ci >= 3 && rng.Intn(4) != 0 {
						continue
					}
					counts := strs(shiftCounts(ck, g.level, g.negCounts))
					for _, ctx := range o.contexts() {
						if extraCtx(ctx) && ci >= 3 {
							continue
						}
						if skipCtx(ctx) {
							continue
						}
						curCtx = ctx
						add(site{Op: o.Name, K: k.Name, K2: ck.Name, Form: "vv", Ctx: ctx, XS: vals, YS: counts})
						for _, c := range consts {
							for _, cf := range ckinds {
								// an untyped constant left operand takes its type from the context: keep contexts that give it kind k
								typedCtx := strings.HasPrefix(ctx, "assign") || ctx == "ret" || strings.HasPrefix(ctx, "opassign")
								if (cf == "typed" || typedCtx || k.Name == "int") && keep() && rng.Intn(3) == 0 {
									add(site{Op: o.Name, K: k.Name, K2: ck.Name, Form: "cl", CKind: cf, Ctx: ctx, CL: c, YS: counts})
								}
							}
						}
						for _, c := range strs(shiftCounts(ck, g.level, false)) {
							for _, cf := range ckinds {
								if keep() && rng.Intn(2) == 0 {
									add(site{Op: o.Name, K: k.Name, K2: ck.Name, Form: "cr", CKind: cf, Ctx: ctx, CR: c, XS: cvals})
								}
							}
						}
					}
				}
			case "unary":
				for _, ctx := range o.contexts() {
					if skipCtx(ctx) {
						continue
					}
					curCtx = ctx
					add(site{Op: o.Name, K: k.Name, K2: k.Name, Form: "v", Ctx: ctx, XS: vals})
					for _, c := range consts {
						if keep() {
							add(site{Op: o.Name, K: k.Name, K2: k.Name, Form: "c", CKind: "typed", Ctx: ctx, CL: c})
						}
					}
				}
				if o.Name == "lnot" {
					add(site{Op: o.Name, K: k.Name, K2: k.Name, Form: "v", Ctx: "cond", XS: vals})
				}
			case "incdec":
				for _, ctx := range o.contexts() {
					add(site{Op: o.Name, K: k.Name, K2: k.Name, Form: "v", Ctx: ctx, XS: vals})
				}
			case "conv":
				for _, t := range convTargets(k) {
					for _, ctx := range o.contexts() {
						if skipCtx(ctx) {
							continue
						}
						curCtx = ctx
						if g.level == 0 && ctx != "assign" && rng.Intn(3) != 0 {
							continue
						}
						add(site{Op: o.Name, K: k.Name, K2: t.Name, Form: "v", Ctx: ctx, XS: vals})
						for _, c := range consts {
							if keep() && rng.Intn(2) == 0 {
								add(site{Op: o.Name, K: k.Name, K2: t.Name, Form: "c", CKind: []string{"lit", "typed"}[rng.Intn(2)], Ctx: ctx, CL: c})
							}
						}
					}
				}
			}
		}
	}
	return out
}
