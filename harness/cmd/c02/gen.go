package main

import (
	"fmt"
	"math/big"
	"math/rand"
	"strings"
)

// opT is one operator of the property's quantifier.
type opT struct {
	Name  string // add sub mul quo rem and or xor andnot shl shr eq ne lt le gt ge neg pos bitnot lnot inc dec land lor conv
	Tok   string
	Group string // arith shift cmp unary incdec logic conv
}

var ops = []opT{
	{"add", "+", "arith"}, {"sub", "-", "arith"}, {"mul", "*", "arith"}, {"quo", "/", "arith"}, {"rem", "%", "arith"},
	{"and", "&", "arith"}, {"or", "|", "arith"}, {"xor", "^", "arith"}, {"andnot", "&^", "arith"},
	{"shl", "<<", "shift"}, {"shr", ">>", "shift"},
	{"eq", "==", "cmp"}, {"ne", "!=", "cmp"}, {"lt", "<", "cmp"}, {"le", "<=", "cmp"}, {"gt", ">", "cmp"}, {"ge", ">=", "cmp"},
	{"neg", "-", "unary"}, {"pos", "+", "unary"}, {"bitnot", "^", "unary"}, {"lnot", "!", "unary"},
	{"inc", "++", "incdec"}, {"dec", "--", "incdec"},
	{"land", "&&", "logic"}, {"lor", "||", "logic"},
	{"conv", "", "conv"},
}

var opByName = map[string]opT{}

func init() {
	for _, o := range ops {
		opByName[o.Name] = o
	}
}

// applies: is the operator defined on operands of this kind class?
func (o opT) applies(k kindT) bool {
	switch k.Class {
	case "int", "uint":
		return o.Group != "logic" && o.Name != "lnot"
	case "float":
		switch o.Name {
		case "add", "sub", "mul", "quo", "eq", "ne", "lt", "le", "gt", "ge", "neg", "pos", "inc", "dec", "conv":
			return true
		}
	case "complex":
		switch o.Name {
		case "add", "sub", "mul", "quo", "eq", "ne", "neg", "pos", "inc", "dec", "conv":
			return true
		}
	case "string":
		switch o.Name {
		case "add", "eq", "ne", "lt", "le", "gt", "ge":
			return true
		}
	case "bool":
		switch o.Name {
		case "eq", "ne", "lnot", "land", "lor":
			return true
		}
	}
	return false
}

// ifaceCtxs: destinations of interface type (repairs 3e0b633, 64aa77b of F02-3, F02-7, F02-8): an assigned variable, a
// variable that held a value of another type before, a var declaration, a struct field, a slice element, a map entry,
// a global, an interface parameter, an interface result (the only one / the second of two).
var ifaceCtxs = []string{"iface", "ifacereuse", "ifacevar", "ifacefield", "ifaceelem", "ifacemap", "ifaceglobal", "ifacearg", "ifaceret", "ifaceret2"}

// retCtxs: the operands are ARGUMENTS of an interpreted function (repair db2d0c1 of F02-5: floating-point -0 arguments,
// alone or inside a struct / array / complex value / variadic slice, through a method value or a function literal).
var retCtxs = []string{"ret", "retstruct", "retarray", "retvariadic", "retmethod", "retclosure"}

func (o opT) contexts() []string {
	var out []string
	switch o.Group {
	case "arith", "shift":
		out = []string{"assign", "define", "opassign", "cond", "arg",
			"assign-global", "assign-elem", "assign-field", "opassign-map", "opassign-elem", "opassign-field", "opassign-ptr"}
	case "cmp":
		out = []string{"cond", "assign", "define", "arg", "assign-global", "assign-elem", "assign-field"}
	case "unary", "conv":
		out = []string{"assign", "define", "arg", "assign-global", "assign-elem", "assign-field"}
	case "incdec":
		return []string{"stmt", "stmt-map", "stmt-elem", "stmt-field", "stmt-ptr"}
	case "logic":
		out = []string{"cond", "assign"}
	default:
		return nil
	}
	out = append(out, retCtxs...)
	return append(out, ifaceCtxs...)
}

// isRetCtx: the operator expression is the result of a callee whose parameters are the operands.
func isRetCtx(ctx string) bool { return strings.HasPrefix(ctx, "ret") }

// site is one operator expression in a generated program, evaluated on every pair of XS × YS.
type site struct {
	ID                    int      `json:"id"`
	Op                    string   `json:"op"`
	K                     string   `json:"kind"`            // kind of the left / only operand
	K2                    string   `json:"kind2,omitempty"` // kind of the right operand (shift count) or target kind of a conversion
	Form                  string   `json:"form"`            // vv cl cr cc | v c
	CKind                 string   `json:"ckind,omitempty"` // constant operand written as: lit | typed (named typed constant) | untyped (named untyped constant)
	Ctx                   string   `json:"ctx"`
	Spell                 string   `json:"spell,omitempty"` // spelling of an integer constant: "" decimal | hex | float (123.0) | exp (1.23e2) | rune
	CL                    string   `json:"cl,omitempty"`    // constant operand source text
	CR                    string   `json:"cr,omitempty"`
	Src                   string   `json:"src,omitempty"` // where the variable operands are read from: "" local variable | field | elem | call | ptr | mvalue | global
	XS                    []string `json:"xs,omitempty"`  // variable operand values (Go expressions; decimal for integers)
	YS                    []string `json:"ys,omitempty"`
	Line                  int      `json:"-"` // line of the operator expression in the program
	First, Last, MainLine int      `json:"-"` // lines owned by the site
}

func (s *site) kind() kindT  { return kindByName[s.K] }
func (s *site) kind2() kindT { return kindByName[s.K2] }
func (s *site) op() opT      { return opByName[s.Op] }

// resultKind: static type of the expression value.
func (s *site) resultKind() kindT {
	switch s.op().Group {
	case "cmp", "logic":
		return boolKind
	case "conv":
		return s.kind2()
	}
	if s.Op == "lnot" {
		return boolKind
	}
	return s.kind()
}

// spelled renders an integer constant (decimal text) in another lexical form of the same value.
func spelled(v, how string, k kindT) string {
	if !k.isInt() || how == "" {
		return v
	}
	n, ok := new(big.Int).SetString(v, 10)
	if !ok {
		return v
	}
	switch how {
	case "hex":
		if n.Sign() < 0 {
			return "-0x" + new(big.Int).Neg(n).Text(16)
		}
		return "0x" + n.Text(16)
	case "float":
		return v + ".0"
	case "exp":
		return v + "e0"
	case "rune":
		if n.Sign() >= 0 && n.Cmp(big.NewInt(126)) <= 0 && n.Cmp(big.NewInt(32)) >= 0 && n.Int64() != 39 && n.Int64() != 92 {
			return "'" + string(rune(n.Int64())) + "'"
		}
	}
	return v
}

func paren(lit string) string {
	if strings.HasPrefix(lit, "-") {
		return "(" + lit + ")"
	}
	return lit
}

// printExpr: how a value of kind k held in Go expression e is printed (floats as bits).
func printExpr(k kindT, e string) string {
	if k.Under != "" && k.Class == "float" {
		e = k.Under + "(" + e + ")"
	}
	switch k.basic() {
	case "float32":
		return "math.Float32bits(" + e + ")"
	case "float64":
		return "math.Float64bits(" + e + ")"
	case "complex64":
		return "math.Float32bits(real(" + e + ")), math.Float32bits(imag(" + e + "))"
	case "complex128":
		return "math.Float64bits(real(" + e + ")), math.Float64bits(imag(" + e + "))"
	case "string":
		return `fmt.Sprintf("%q", ` + e + ")"
	}
	return e
}

// keyExpr prints an operand as ONE field of the output line.
func keyExpr(k kindT, e string) string {
	switch k.Class {
	case "complex":
		return `fmt.Sprint(` + printExpr(k, e) + `)` // "re im" -> two fields would break the key: joined below
	}
	return printExpr(k, e)
}

type progBuilder struct {
	lines  []string
	tables map[string]string // "type|v1,v2,…" -> variable name
	tdecl  []string
	mainB  []string
}

func (p *progBuilder) add(l string) int {
	p.lines = append(p.lines, l)
	return len(p.lines) // 1-based line number of the line just added (after the header is prepended, see finish)
}

func (p *progBuilder) table(typ string, vals []string) string {
	if k := kindByName[typ]; k.Under != "" && k.Class == "float" {
		conv := make([]string, len(vals))
		for i, v := range vals {
			conv[i] = typ + "(" + v + ")"
		}
		vals = conv
	}
	key := typ + "|" + strings.Join(vals, ",")
	if n, ok := p.tables[key]; ok {
		return n
	}
	n := fmt.Sprintf("tb%d", len(p.tables))
	p.tables[key] = n
	p.tdecl = append(p.tdecl, fmt.Sprintf("var %s = []%s{%s}", n, typ, strings.Join(vals, ", ")))
	return n
}

const headerLines = 18

func header() []string {
	h := []string{
		"package main",
		"",
		"import (",
		"\t\"fmt\"",
		"\t\"math\"",
		")",
		"",
		"var _ = math.Pi",
		"",
		"func rec(n int, a, b interface{}) { if r := recover(); r != nil { fmt.Println(n, a, b, \"P:\", r) } }",
		"func cj(a, b interface{}) string { return fmt.Sprint(a) + \"_\" + fmt.Sprint(b) }",
		"",
		"type Di8 int8",
		"type Du16 uint16",
		"type Di int",
		"type Df64 float64",
		"type Ds string",
		"",
	}
	if len(h) != headerLines {
		panic("header")
	}
	return h
}

// operandKey: expression printing operand (kind k, Go expr e) as a single field.
func operandKey(k kindT, e string) string {
	switch k.basic() {
	case "complex64":
		return "cj(math.Float32bits(real(" + e + ")), math.Float32bits(imag(" + e + ")))"
	case "complex128":
		return "cj(math.Float64bits(real(" + e + ")), math.Float64bits(imag(" + e + ")))"
	}
	return printExpr(k, e)
}

func resultPrint(k kindT, e string) string {
	switch k.Class {
	case "complex":
		return operandKey(k, e)
	}
	return printExpr(k, e)
}

// emit renders one site (functions + its loop in main) and records the line of the operator expression.
func (p *progBuilder) emit(s *site) {
	o := s.op()
	k, k2 := s.kind(), s.kind2()
	rk := s.resultKind()
	id := s.ID
	ctx := s.Ctx
	unary := o.Group == "unary" || o.Group == "incdec" || o.Group == "conv"
	// constants
	constL := s.Form == "cl" || s.Form == "cc" || s.Form == "c"
	constR := s.Form == "cr" || s.Form == "cc"
	varL, varR := !constL, !unary && !constR
	L, R := "a", "b" // the operands as written at the site
	s.First = len(p.lines) + 1
	defer func() { s.Last = len(p.lines) }()
	// the site function takes INDICES into the value tables and fetches the operands into locals; the `ret…` contexts
	// pass the operands themselves to a callee
	var params, args, loops, fetch []string
	pa, pb := `"-"`, `"-"`
	if constL {
		txt := spelled(s.CL, s.Spell, k)
		switch s.CKind {
		case "lit":
			L = paren(txt)
		case "typed":
			p.add(fmt.Sprintf("const c%dl %s = %s", id, k.Name, txt))
			L = fmt.Sprintf("c%dl", id)
		case "untyped":
			p.add(fmt.Sprintf("const c%dl = %s", id, txt))
			L = fmt.Sprintf("c%dl", id)
		}
		pa = fmt.Sprintf("%q", strings.ReplaceAll(s.CL, " ", ""))
	} else {
		ta := p.table(k.Name, s.XS)
		params = append(params, "i int")
		args = append(args, "i")
		fetch = append(fetch, "\ta := "+ta+"[i]")
		loops = append(loops, fmt.Sprintf("for i := range %s {", ta))
		pa = operandKey(k, "a")
	}
	if !unary {
		if constR {
			txt := spelled(s.CR, s.Spell, k2)
			switch s.CKind {
			case "lit":
				R = paren(txt)
			case "typed":
				p.add(fmt.Sprintf("const c%dr %s = %s", id, k2.Name, txt))
				R = fmt.Sprintf("c%dr", id)
			case "untyped":
				p.add(fmt.Sprintf("const c%dr = %s", id, txt))
				R = fmt.Sprintf("c%dr", id)
			}
			pb = fmt.Sprintf("%q", strings.ReplaceAll(s.CR, " ", ""))
		} else {
			tb := p.table(k2.Name, s.YS)
			params = append(params, "j int")
			args = append(args, "j")
			fetch = append(fetch, "\tb := "+tb+"[j]")
			loops = append(loops, fmt.Sprintf("for j := range %s {", tb))
			pb = operandKey(k2, "b")
		}
	}
	// where the operator reads its variable operands from
	var setup []string
	switch s.Src {
	case "field":
		fs := "p bool"
		if varL {
			fs += "; x " + k.Name
		}
		if varR {
			fs += "; y " + k2.Name
		}
		setup = append(setup, "\tvar os struct{ "+fs+" }")
		if varL {
			setup, L = append(setup, "\tos.x = a"), "os.x"
		}
		if varR {
			setup, R = append(setup, "\tos.y = b"), "os.y"
		}
	case "elem":
		if varL {
			setup, L = append(setup, "\tox := []"+k.Name+"{a}"), "ox[0]"
		}
		if varR {
			setup, R = append(setup, "\toy := []"+k2.Name+"{b, b}"), "oy[1]"
		}
	case "call":
		if varL {
			setup, L = append(setup, "\tfx := func() "+k.Name+" { return a }"), "fx()"
		}
		if varR {
			setup, R = append(setup, "\tfy := func() "+k2.Name+" { return b }"), "fy()"
		}
	case "ptr":
		if varL {
			setup, L = append(setup, "\tpx := &a"), "*px"
		}
		if varR {
			setup, R = append(setup, "\tpy := &b"), "*py"
		}
	case "mvalue": // method values
		if varL {
			p.add(fmt.Sprintf("type Ox%d struct{ v %s }", id, k.Name))
			p.add(fmt.Sprintf("func (o Ox%d) get() %s { return o.v }", id, k.Name))
			setup, L = append(setup, fmt.Sprintf("\tgx := Ox%d{a}.get", id)), "gx()"
		}
		if varR {
			p.add(fmt.Sprintf("type Oy%d struct{ v %s }", id, k2.Name))
			p.add(fmt.Sprintf("func (o *Oy%d) get() %s { return o.v }", id, k2.Name))
			setup, R = append(setup, fmt.Sprintf("\tgy := (&Oy%d{b}).get", id)), "gy()"
		}
	case "global":
		if varL {
			p.add(fmt.Sprintf("var ga%d %s", id, k.Name))
			setup, L = append(setup, fmt.Sprintf("\tga%d = a", id)), fmt.Sprintf("ga%d", id)
		}
		if varR {
			p.add(fmt.Sprintf("var gb%d %s", id, k2.Name))
			setup, R = append(setup, fmt.Sprintf("\tgb%d = b", id)), fmt.Sprintf("gb%d", id)
		}
	}
	// callee contexts: the operands are parameters of a function whose result is the operator expression
	callee := isRetCtx(ctx) || ctx == "ifaceret" || ctx == "ifaceret2"
	inL, inR := L, R // the operands as written in the operator expression
	cparams, cargs := "", ""
	if callee {
		var ps, as []string
		elemK := k
		if !varL {
			elemK = k2
		}
		switch ctx {
		case "retstruct":
			var fs []string
			if varL {
				fs, as, inL = append(fs, "a "+k.Name), append(as, "a: "+L), "p.a"
			}
			if varR {
				fs, as, inR = append(fs, "b "+k2.Name), append(as, "b: "+R), "p.b"
			}
			p.add(fmt.Sprintf("type P%d struct{ %s }", id, strings.Join(fs, "; ")))
			cparams, cargs = fmt.Sprintf("p P%d", id), fmt.Sprintf("P%d{%s}", id, strings.Join(as, ", "))
		case "retarray", "retvariadic":
			name := "p"
			if ctx == "retvariadic" {
				name = "v"
			}
			if varL {
				as, inL = append(as, L), fmt.Sprintf("%s[%d]", name, len(as))
			}
			if varR {
				as, inR = append(as, R), fmt.Sprintf("%s[%d]", name, len(as))
			}
			if ctx == "retarray" {
				cparams = fmt.Sprintf("p [%d]%s", len(as), elemK.Name)
				cargs = fmt.Sprintf("[%d]%s{%s}", len(as), elemK.Name, strings.Join(as, ", "))
			} else {
				cparams, cargs = "v ..."+elemK.Name, strings.Join(as, ", ")
			}
		default:
			if varL {
				ps, as, inL = append(ps, "a "+k.Name), append(as, L), "a"
			}
			if varR {
				ps, as, inR = append(ps, "b "+k2.Name), append(as, R), "b"
			}
			cparams, cargs = strings.Join(ps, ", "), strings.Join(as, ", ")
		}
	}
	var expr string
	switch o.Group {
	case "unary":
		expr = o.Tok + inL
	case "conv":
		expr = k2.Name + "(" + inL + ")"
	default:
		expr = inL + " " + o.Tok + " " + inR
	}
	plist := strings.Join(params, ", ")
	alist := strings.Join(args, ", ")
	out := func(res string) string { return fmt.Sprintf("fmt.Println(%d, %s, %s, %s)", id, pa, pb, res) }
	dyn := func(e string) string { return `fmt.Sprintf("%T:%v", ` + e + `, ` + e + `)` }

	resT, ret := rk.Name, "\treturn "+expr
	switch ctx {
	case "ifaceret":
		resT = "interface{}"
	case "ifaceret2":
		resT, ret = "(int, interface{})", "\treturn 7, "+expr
	}
	switch {
	case ctx == "assign-global":
		p.add(fmt.Sprintf("var g%d %s", id, rk.Name))
	case ctx == "ifaceglobal":
		p.add(fmt.Sprintf("var g%d interface{}", id))
	case ctx == "ifacearg":
		p.add(fmt.Sprintf("func h%d(e interface{}) string { return %s }", id, dyn("e")))
	case ctx == "retmethod":
		p.add(fmt.Sprintf("type T%d struct{ z int }", id))
		p.add(fmt.Sprintf("func (t T%d) m(%s) %s {", id, cparams, resT))
		s.Line = p.add(ret)
		p.add("}")
	case ctx == "retclosure":
	case callee:
		p.add(fmt.Sprintf("func f%d(%s) %s {", id, cparams, resT))
		s.Line = p.add(ret)
		p.add("}")
	}
	p.add(fmt.Sprintf("func s%d(%s) {", id, plist))
	for _, l := range fetch {
		p.add(l)
	}
	p.add(fmt.Sprintf("\tdefer rec(%d, %s, %s)", id, pa, pb))
	for _, l := range setup {
		p.add(l)
	}
	switch ctx {
	case "assign":
		p.add("\tvar r " + rk.Name)
		s.Line = p.add("\tr = " + expr)
		p.add("\t" + out(resultPrint(rk, "r")))
	case "define":
		s.Line = p.add("\tr := " + expr)
		p.add("\t" + out(resultPrint(rk, "r")))
	case "assign-global": // package-level destination
		s.Line = p.add(fmt.Sprintf("\tg%d = %s", id, expr))
		p.add("\t" + out(resultPrint(rk, fmt.Sprintf("g%d", id))))
	case "assign-elem": // slice element destination
		p.add("\tsl := make([]" + rk.Name + ", 2)")
		s.Line = p.add("\tsl[1] = " + expr)
		p.add("\t" + out(resultPrint(rk, "sl[1]")))
	case "assign-field": // struct field destination
		p.add("\tvar st struct{ p bool; f " + rk.Name + " }")
		s.Line = p.add("\tst.f = " + expr)
		p.add("\t" + out(resultPrint(rk, "st.f")))
	case "opassign":
		p.add("\tvar r " + k.Name + " = " + L)
		s.Line = p.add("\tr " + o.Tok + "= " + R)
		p.add("\t" + out(resultPrint(rk, "r")))
	case "opassign-map", "stmt-map": // map entry: the closure writes back with SetMapIndex
		p.add("\tm := map[string]" + k.Name + "{\"k\": " + L + "}")
		if o.Group == "incdec" {
			s.Line = p.add("\tm[\"k\"]" + o.Tok)
		} else {
			s.Line = p.add("\tm[\"k\"] " + o.Tok + "= " + R)
		}
		p.add("\t" + out(resultPrint(rk, "m[\"k\"]")))
	case "opassign-elem", "stmt-elem":
		p.add("\tsl := []" + k.Name + "{0, " + L + "}")
		if o.Group == "incdec" {
			s.Line = p.add("\tsl[1]" + o.Tok)
		} else {
			s.Line = p.add("\tsl[1] " + o.Tok + "= " + R)
		}
		p.add("\t" + out(resultPrint(rk, "sl[1]")))
	case "opassign-field", "stmt-field":
		p.add("\tvar st struct{ p bool; f " + k.Name + " }")
		p.add("\tst.f = " + L)
		if o.Group == "incdec" {
			s.Line = p.add("\tst.f" + o.Tok)
		} else {
			s.Line = p.add("\tst.f " + o.Tok + "= " + R)
		}
		p.add("\t" + out(resultPrint(rk, "st.f")))
	case "opassign-ptr", "stmt-ptr":
		p.add("\tvar v " + k.Name + " = " + L)
		p.add("\tq := &v")
		if o.Group == "incdec" {
			s.Line = p.add("\t(*q)" + o.Tok)
		} else {
			s.Line = p.add("\t*q " + o.Tok + "= " + R)
		}
		p.add("\t" + out(resultPrint(rk, "v")))
	case "stmt": // inc / dec
		p.add("\tr := " + L)
		s.Line = p.add("\tr" + o.Tok)
		p.add("\t" + out(resultPrint(rk, "r")))
	case "ret", "retstruct", "retarray", "retvariadic":
		p.add(fmt.Sprintf("\tr := f%d(%s)", id, cargs))
		p.add("\t" + out(resultPrint(rk, "r")))
	case "retmethod": // through a method value
		p.add(fmt.Sprintf("\tg := T%d{}.m", id))
		p.add(fmt.Sprintf("\tr := g(%s)", cargs))
		p.add("\t" + out(resultPrint(rk, "r")))
	case "retclosure": // through a function literal
		p.add(fmt.Sprintf("\tf := func(%s) %s {", cparams, resT))
		s.Line = p.add("\t" + ret)
		p.add("\t}")
		p.add(fmt.Sprintf("\tr := f(%s)", cargs))
		p.add("\t" + out(resultPrint(rk, "r")))
	case "cond":
		c := expr
		if rk.Name != "bool" {
			c = expr + " != " + zeroOf(rk)
		}
		s.Line = p.add("\tif " + c + " {")
		p.add("\t\t" + out(`"T"`))
		p.add("\t} else {")
		p.add("\t\t" + out(`"F"`))
		p.add("\t}")
	case "iface":
		p.add("\tvar e interface{}")
		s.Line = p.add("\te = " + expr)
		p.add("\t" + out(dyn("e")))
	case "ifacereuse": // an interface variable that held a value of another dynamic type before
		first := L
		switch {
		case varL && k.Class == "bool":
			first = "!" + L
		case varL:
			first = L + " + " + L
		case varR && k2.Class == "bool":
			first = "!" + R
		case varR:
			first = R + " + " + R
		}
		p.add("\tvar e interface{}")
		p.add("\te = " + first)
		s.Line = p.add("\te = " + expr)
		p.add("\t" + out(dyn("e")))
	case "ifacevar":
		s.Line = p.add("\tvar e interface{} = " + expr)
		p.add("\t" + out(dyn("e")))
	case "ifacefield":
		p.add("\tvar st struct{ p bool; e interface{} }")
		s.Line = p.add("\tst.e = " + expr)
		p.add("\t" + out(dyn("st.e")))
	case "ifaceelem":
		p.add("\tsl := make([]interface{}, 2)")
		s.Line = p.add("\tsl[1] = " + expr)
		p.add("\t" + out(dyn("sl[1]")))
	case "ifacemap":
		p.add("\tm := map[string]interface{}{}")
		s.Line = p.add("\tm[\"k\"] = " + expr)
		p.add("\t" + out(dyn("m[\"k\"]")))
	case "ifaceglobal":
		s.Line = p.add(fmt.Sprintf("\tg%d = %s", id, expr))
		p.add("\t" + out(dyn(fmt.Sprintf("g%d", id))))
	case "ifacearg":
		s.Line = p.add("\t" + out(fmt.Sprintf("h%d(%s)", id, expr)))
	case "ifaceret":
		p.add(fmt.Sprintf("\te := f%d(%s)", id, cargs))
		p.add("\t" + out(dyn("e")))
	case "ifaceret2":
		p.add(fmt.Sprintf("\t_, e := f%d(%s)", id, cargs))
		p.add("\t" + out(dyn("e")))
	case "arg":
		s.Line = p.add("\t" + out(resultPrint(rk, expr)))
	default:
		panic("emit: unknown context " + ctx)
	}
	p.add("}")
	// loop in main
	call := fmt.Sprintf("s%d(%s)", id, alist)
	p.mainB = append(p.mainB, "\t"+strings.Join(loops, " ")+" "+call+" "+strings.Repeat("}", len(loops)))
}

func zeroOf(k kindT) string {
	switch k.Class {
	case "string":
		return `""`
	case "bool":
		return "false"
	}
	return "0"
}

// finish assembles the program; site lines were recorded relative to the body and are shifted here.
func (p *progBuilder) finish(sites []*site) string {
	pre := append(header(), p.tdecl...)
	pre = append(pre, "")
	shift := len(pre)
	for i, s := range sites {
		s.Line += shift
		s.First += shift
		s.Last += shift
		s.MainLine = shift + len(p.lines) + 1 + i + 1
	}
	var b strings.Builder
	for _, l := range pre {
		b.WriteString(l + "\n")
	}
	for _, l := range p.lines {
		b.WriteString(l + "\n")
	}
	b.WriteString("func main() {\n")
	for _, l := range p.mainB {
		b.WriteString(l + "\n")
	}
	b.WriteString("}\n")
	return b.String()
}

func buildProgram(sites []*site) string {
	p := &progBuilder{tables: map[string]string{}}
	for _, s := range sites {
		s.Line = 0
		p.emit(s)
	}
	return p.finish(sites)
}

// evaluations of a site.
func (s *site) nEvals() int {
	n := 1
	if len(s.XS) > 0 {
		n *= len(s.XS)
	}
	if len(s.YS) > 0 {
		n *= len(s.YS)
	}
	return n
}

// ---------- the site generator ----------

func strs(vs []*big.Int) []string {
	out := make([]string, len(vs))
	for i, v := range vs {
		out[i] = v.String()
	}
	return out
}

func valuesOf(k kindT, level int) []string {
	switch k.Class {
	case "int", "uint":
		return strs(intValues(k, level))
	case "float":
		return floatExprs(k, level)
	case "complex":
		return complexExprs(k, level)
	case "string":
		return stringValues(level)
	case "bool":
		return []string{"false", "true"}
	}
	return nil
}

func constsOf(k kindT, level int) []string {
	switch k.Class {
	case "int", "uint":
		return strs(intValues(k, level))
	case "float":
		return floatConsts(k, level)
	case "complex":
		return complexConsts(level)
	case "string":
		return stringValues(level)
	case "bool":
		return []string{"false", "true"}
	}
	return nil
}

// countKinds: kinds of the shift count; the first four are always generated (two signed ones among them: negative
// counts, repair 002dfac of F02), the others are sampled in the quick tier
var countKinds = []string{"uint8", "int", "uint", "int8", "uint64", "uint16", "uint32", "uintptr", "int64", "int16", "int32"}

const coreCountKinds = 4

// operandSources: where the variable operands of a site are read from (site.Src), besides a local variable
var operandSources = []string{"field", "elem", "call", "ptr", "mvalue", "global"}

func allKinds() []kindT {
	var out []kindT
	out = append(out, intKinds...)
	out = append(out, floatKinds...)
	out = append(out, complexKinds...)
	out = append(out, stringKind, boolKind)
	out = append(out, definedKinds...)
	return out
}

// convTargets: kinds a value of kind k can be converted to.
func convTargets(k kindT) []kindT {
	switch k.Class {
	case "int", "uint":
		out := append([]kindT{}, intKinds...)
		out = append(out, floatKinds...)
		out = append(out, definedKinds[0], definedKinds[1])
		return append(out, stringKind)
	case "float":
		out := append([]kindT{}, intKinds...)
		return append(out, floatKinds...)
	case "complex":
		return complexKinds
	case "string":
		return []kindT{stringKind}
	}
	return nil
}

type genOpts struct {
	level     int     // 0 quick, 1 thorough
	constFrac float64 // fraction of the constant-form sites that are emitted (sampled by seed)
	negCounts bool    // include negative shift counts of signed kinds
}

// generate returns the sites of a tier. The variable×variable sites cover the whole product
// operator × kind × context on the tier's value tables; constant forms (cl, cr, cc with the constant written as a
// literal, a named typed constant or a named untyped constant) are one site per constant value and are sampled.
func generate(rng *rand.Rand, g genOpts) []*site {
	var out []*site
	add := func(s site) {
		// contexts a site cannot be written in
		varL := s.Form == "vv" || s.Form == "cr" || s.Form == "v"
		varR := s.Form == "vv" || s.Form == "cl"
		switch s.Ctx {
		case "retstruct", "retarray", "retvariadic":
			if !varL && !varR {
				return
			}
			if s.Ctx != "retstruct" && varL && varR && s.K != s.K2 {
				return // one element type
			}
		}
		s.ID = len(out) + 1
		if (s.CL != "" || s.CR != "") && (s.kind().isInt() || s.kind2().isInt()) && s.Op != "conv" {
			s.Spell = []string{"", "", "hex", "float", "exp", "rune"}[rng.Intn(6)]
			// an untyped rune constant as left operand of a non-constant shift defaults to rune (int32), not int
			if s.op().Group == "shift" && s.Form == "cl" && s.CKind != "typed" && s.Spell == "rune" {
				s.Spell = "hex"
			}
		}
		if isIfaceCtx(s.Ctx) && s.resultKind().Under != "" {
			// class defined-type-dynamic-type: the dynamic type is always reported as the underlying type
			if len(s.XS) > 3 {
				s.XS = s.XS[len(s.XS)-3:]
			}
			if len(s.YS) > 3 {
				s.YS = s.YS[len(s.YS)-3:]
			}
		}
		out = append(out, &s)
	}
	// withSources adds the site again with its variable operands read from somewhere else than a local variable:
	// every source when all is set, one drawn by seed otherwise.
	withSources := func(s site, all bool) {
		if all {
			for _, src := range operandSources {
				c := s
				c.Src = src
				add(c)
			}
			return
		}
		s.Src = operandSources[rng.Intn(len(operandSources))]
		add(s)
	}
	curCtx := ""
	// the contexts added for the repaired findings run on the core boundary set in both tiers (the full set of the
	// thorough tier is kept for the contexts assign … iface, ret)
	newCtx := func(ctx string) bool { return isIfaceCtx(ctx) && ctx != "iface" || isRetCtx(ctx) && ctx != "ret" }
	keep := func() bool {
		f := g.constFrac
		if strings.Contains(curCtx, "-") || newCtx(curCtx) {
			f *= 0.3 // constant forms in the additional destination contexts
		}
		return f >= 1 || rng.Float64() < f
	}
	// the additional destinations (global, slice element, struct field, map entry, pointer) are sampled in the quick tier
	extraCtx := func(ctx string) bool { return strings.Contains(ctx, "-") }
	curFloat := false // float / complex kind: every argument-passing context is kept (-0 arguments, repair db2d0c1 of F02-5)
	skipCtx := func(ctx string) bool {
		if g.level > 0 {
			return false
		}
		switch {
		case extraCtx(ctx):
			return rng.Intn(3) != 0
		case isRetCtx(ctx) && ctx != "ret" && !curFloat:
			return rng.Intn(2) != 0
		}
		return false
	}
	ckinds := []string{"lit", "typed", "untyped"}
	for _, k := range allKinds() {
		curFloat = k.Class == "float" || k.Class == "complex"
		vals := valuesOf(k, g.level)
		consts := constsOf(k, g.level)
		// constant-form sites (one per constant value of the tier's FULL boundary set) run over the core boundary set
		// of the variable operand
		cvals := valuesOf(k, 0)
		for _, o := range ops {
			if !o.applies(k) {
				continue
			}
			switch o.Group {
			case "arith", "cmp", "logic":
				for _, ctx := range o.contexts() {
					if skipCtx(ctx) {
						continue
					}
					curCtx = ctx
					vv := site{Op: o.Name, K: k.Name, K2: k.Name, Form: "vv", Ctx: ctx, XS: vals, YS: vals}
					if newCtx(ctx) {
						vv.XS, vv.YS = cvals, cvals
					}
					add(vv)
					if ctx == "assign" || ctx == "iface" || ctx == "ret" || g.level > 0 && !extraCtx(ctx) && rng.Intn(4) == 0 {
						vv.XS, vv.YS = cvals, cvals
						withSources(vv, g.level > 0 && ctx == "assign")
					}
					for _, c := range consts {
						for _, ck := range ckinds {
							if keep() {
								add(site{Op: o.Name, K: k.Name, K2: k.Name, Form: "cl", CKind: ck, Ctx: ctx, CL: c, YS: cvals})
							}
							if keep() {
								add(site{Op: o.Name, K: k.Name, K2: k.Name, Form: "cr", CKind: ck, Ctx: ctx, CR: c, XS: cvals})
							}
						}
					}
					// the shape of the repaired finding F02-12: typed constants under an interface declaration / result, always present, with the assigned
					// neighbour that is folded
					if (o.Name == "mul" || o.Name == "quo") && k.Under == "" && (ctx == "ifacevar" || ctx == "ifaceret" || ctx == "ifaceret2" || ctx == "iface") {
						switch k.Class {
						case "float":
							add(site{Op: o.Name, K: k.Name, K2: k.Name, Form: "cc", CKind: "typed", Ctx: ctx, CL: "0.0", CR: "-1.0"})
						case "complex":
							add(site{Op: o.Name, K: k.Name, K2: k.Name, Form: "cc", CKind: "typed", Ctx: ctx, CL: "0", CR: "(-1.5 - 0.5i)"})
						}
					}
					// both operands constant: folded at compile time (typed constants only; untyped×untyped is C03's subject)
					for i := 0; i < len(consts); i++ {
						if g.constFrac < 1 && rng.Float64() >= g.constFrac*4/float64(len(consts)) {
							continue
						}
						c1, c2 := consts[rng.Intn(len(consts))], consts[rng.Intn(len(consts))]
						if strings.HasPrefix(ctx, "opassign") {
							continue
						}
						add(site{Op: o.Name, K: k.Name, K2: k.Name, Form: "cc", CKind: "typed", Ctx: ctx, CL: c1, CR: c2})
					}
				}
			case "shift":
				for ci, ckn := range countKinds {
					ck := kindByName[ckn]
					if g.level == 0 && ci >= coreCountKinds && rng.Intn(4) != 0 {
						continue
					}
					counts := strs(shiftCounts(ck, g.level, g.negCounts))
					for _, ctx := range o.contexts() {
						if extraCtx(ctx) && ci >= coreCountKinds {
							continue
						}
						if skipCtx(ctx) {
							continue
						}
						curCtx = ctx
						vv := site{Op: o.Name, K: k.Name, K2: ck.Name, Form: "vv", Ctx: ctx, XS: vals, YS: counts}
						if newCtx(ctx) {
							vv.XS, vv.YS = cvals, strs(shiftCounts(ck, 0, g.negCounts))
						}
						add(vv)
						// the count (and the shifted operand) read from a struct field, a slice element, a call, a pointer, a
						// method value, a global: every source for a signed count kind in the assign / op-assign contexts,
						// one drawn by seed in the other contexts
						if !extraCtx(ctx) && (ci < coreCountKinds || g.level > 0) {
							vv.XS, vv.YS = cvals, strs(shiftCounts(ck, 0, g.negCounts))
							withSources(vv, ck.Signed && (ctx == "assign" || ctx == "opassign") && (ci < coreCountKinds || g.level > 0 && rng.Intn(3) == 0))
						}
						for _, c := range consts {
							for _, cf := range ckinds {
								// an untyped constant left operand takes its type from the context: keep contexts that give it kind k
								typedCtx := strings.HasPrefix(ctx, "assign") || isRetCtx(ctx) || strings.HasPrefix(ctx, "opassign")
								if (cf == "typed" || typedCtx || k.Name == "int") && keep() && rng.Intn(3) == 0 {
									add(site{Op: o.Name, K: k.Name, K2: ck.Name, Form: "cl", CKind: cf, Ctx: ctx, CL: c, YS: counts})
								}
							}
						}
						// the shape of the repaired finding F02-14 (parenthesised constant left operand) and its unparenthesised neighbour, always present
						if k.Name == "int" && ci == 0 && (ctx == "ifacevar" || ctx == "ifaceret" || ctx == "ifaceret2" || ctx == "iface") {
							for _, c := range []string{"-4", "4"} {
								add(site{Op: o.Name, K: k.Name, K2: ck.Name, Form: "cl", CKind: "lit", Ctx: ctx, CL: c, YS: counts})
							}
						}
						for _, c := range strs(shiftCounts(ck, g.level, false)) {
							for _, cf := range ckinds {
								if keep() && rng.Intn(2) == 0 {
									add(site{Op: o.Name, K: k.Name, K2: ck.Name, Form: "cr", CKind: cf, Ctx: ctx, CR: c, XS: cvals})
								}
							}
						}
					}
				}
			case "unary":
				for _, ctx := range o.contexts() {
					if skipCtx(ctx) {
						continue
					}
					curCtx = ctx
					v := site{Op: o.Name, K: k.Name, K2: k.Name, Form: "v", Ctx: ctx, XS: vals}
					if newCtx(ctx) {
						v.XS = cvals
					}
					add(v)
					if ctx == "assign" || ctx == "iface" || ctx == "ret" {
						withSources(v, g.level > 0 && ctx == "assign")
					}
					for _, c := range consts {
						if keep() {
							add(site{Op: o.Name, K: k.Name, K2: k.Name, Form: "c", CKind: "typed", Ctx: ctx, CL: c})
						}
					}
				}
				if o.Name == "lnot" {
					add(site{Op: o.Name, K: k.Name, K2: k.Name, Form: "v", Ctx: "cond", XS: vals})
				}
			case "incdec":
				for _, ctx := range o.contexts() {
					add(site{Op: o.Name, K: k.Name, K2: k.Name, Form: "v", Ctx: ctx, XS: vals})
				}
			case "conv":
				for _, t := range convTargets(k) {
					for _, ctx := range o.contexts() {
						if skipCtx(ctx) {
							continue
						}
						curCtx = ctx
						if g.level == 0 && ctx != "assign" && rng.Intn(3) != 0 {
							continue
						}
						cv := site{Op: o.Name, K: k.Name, K2: t.Name, Form: "v", Ctx: ctx, XS: vals}
						if newCtx(ctx) {
							cv.XS = cvals
						}
						add(cv)
						for _, c := range consts {
							if keep() && rng.Intn(2) == 0 {
								add(site{Op: o.Name, K: k.Name, K2: t.Name, Form: "c", CKind: []string{"lit", "typed"}[rng.Intn(2)], Ctx: ctx, CL: c})
							}
						}
					}
				}
			}
		}
	}
	return out
}
