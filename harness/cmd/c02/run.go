package main

import (
	"bytes"
	"context"
	"fmt"
	"go/ast"
	"go/importer"
	"go/parser"
	"go/token"
	"go/types"
	"regexp"
	"strconv"
	"sync"
	"time"

	"github.com/traefik/yaegi/interp"
	"github.com/traefik/yaegi/stdlib"
)

// yres is what the interpreter did with one generated program.
type yres struct {
	Stdout     string
	CompileErr string // Compile returned an error
	Err        string // Execute returned an error (uncaught panic, …)
	Crash      string // a Go panic escaped the interpreter
	Timeout    bool
	Nodes      []interp.VerifOpNode
}

// runYaegi compiles the program, reads the operator nodes through the verification hook, and executes it.
func runYaegi(src string, timeout time.Duration) (res yres) {
	var so, se bytes.Buffer
	done := make(chan struct{})
	ctx, cancel := context.WithTimeout(context.Background(), timeout)
	defer cancel()
	go func() {
		defer close(done)
		defer func() {
			if r := recover(); r != nil {
				res.Crash = fmt.Sprint(r)
			}
		}()
		i := interp.New(interp.Options{Stdout: &so, Stderr: &se})
		if err := i.Use(stdlib.Symbols); err != nil {
			res.CompileErr = err.Error()
			return
		}
		p, err := i.Compile(src)
		if err != nil {
			res.CompileErr = err.Error()
			return
		}
		res.Nodes = i.VerifOpNodes(p)
		if _, err := i.ExecuteWithContext(ctx, p); err != nil {
			res.Err = err.Error()
			if ctx.Err() != nil {
				res.Timeout = true
			}
		}
	}()
	select {
	case <-done:
	case <-time.After(timeout + 10*time.Second):
		res.Timeout = true
		res.Err = "harness: interpreter did not return after cancellation"
	}
	res.Stdout = so.String()
	return res
}

// ---------- go/types pre-check (constant forms the Go type checker rejects are kept out of the shared program) ----------

var (
	impOnce sync.Once
	imp     types.Importer
	impMu   sync.Mutex
)

// typeErrors returns the line numbers at which go/types reports an error.
func typeErrors(src string) (map[int]string, error) {
	impOnce.Do(func() { imp = importer.ForCompiler(token.NewFileSet(), "source", nil) })
	fset := token.NewFileSet()
	f, err := parser.ParseFile(fset, "p.go", src, 0)
	if err != nil {
		return nil, err
	}
	bad := map[int]string{}
	conf := types.Config{Importer: lockedImporter{}, Error: func(err error) {
		if te, ok := err.(types.Error); ok {
			ln := te.Fset.Position(te.Pos).Line
			if _, dup := bad[ln]; !dup {
				bad[ln] = te.Msg
			}
		}
	}}
	conf.Check("main", fset, []*ast.File{f}, nil)
	return bad, nil
}

type lockedImporter struct{}

func (lockedImporter) Import(path string) (*types.Package, error) {
	impMu.Lock()
	defer impMu.Unlock()
	return imp.Import(path)
}

var yaegiPosRe = regexp.MustCompile(`^(?:_\.go:)?(\d+):(\d+):`)

// errLine extracts the line of a yaegi compile error ("12:3: message").
func errLine(msg string) int {
	if m := yaegiPosRe.FindStringSubmatch(msg); m != nil {
		n, _ := strconv.Atoi(m[1])
		return n
	}
	return 0
}
