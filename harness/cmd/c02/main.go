// C02 correspondence harness: operators and conversions on every basic kind.
//
//	impl  = the real interpreter of /repo (built with -tags verif) evaluating generated Go programs; the verification hook
//	        VerifOpNodes tells which closure of op.go (function, kind class, variant) evaluates each operator expression
//	model = Lean `Ops.evalEntry` run on the entry of the REGENERATED operator table for that closure (y=)
//	spec  = Lean `Spec.GoInt` (g=)
//	ref   = the same programs compiled with the Go toolchain
//
// Checked on every integer evaluation: impl = y (correspondence), ref = g (spec validation), impl = ref (the property).
// Float, complex, string and bool evaluations: impl = ref only (no kernel IEEE model; see props/C02.json).
package main

import (
	"encoding/json"
	"fmt"
	"hash/fnv"
	"math"
	"math/big"
	"os"
	"regexp"
	"runtime"
	"sort"
	"strconv"
	"strings"
	"sync"
	"time"

	"github.com/traefik/yaegi/interp"
	"verif/harness/common"
)

// program is a batch of sites compiled and run together.
type program struct {
	Sites    []*site
	Src      string
	Y        yres
	G        common.GoResult
	Dropped  []*site        // sites the interpreter refused to compile (each is a disagreement)
	Failed   map[int]string // after isolation: site id -> how the interpreter failed on it
	Isolated bool
	DropMsg  map[int]string
	yOut     map[int]map[string]string
	gOut     map[int]map[string]string
}

// lineOwner maps a line of the program to the site it belongs to.
func lineOwner(src string, sites []*site) func(line int) *site {
	return func(line int) *site {
		for _, s := range sites {
			if line >= s.First && line <= s.Last || line == s.MainLine {
				return s
			}
		}
		return nil
	}
}

// prepare builds the source, dropping the sites the Go type checker rejects.
func (p *program) prepare() (rejected int, err error) {
	for iter := 0; iter < 50; iter++ {
		p.Src = buildProgram(p.Sites)
		bad, err := typeErrors(p.Src)
		if err != nil {
			return rejected, fmt.Errorf("generated program does not parse: %v", err)
		}
		if len(bad) == 0 {
			return rejected, nil
		}
		owner := lineOwner(p.Src, p.Sites)
		drop := map[int]bool{}
		for ln, msg := range bad {
			s := owner(ln)
			if s == nil {
				return rejected, fmt.Errorf("type error outside any site, line %d: %s", ln, msg)
			}
			drop[s.ID] = true
		}
		var keep []*site
		for _, s := range p.Sites {
			if !drop[s.ID] {
				keep = append(keep, s)
			}
		}
		rejected += len(p.Sites) - len(keep)
		p.Sites = keep
	}
	return rejected, fmt.Errorf("type errors do not converge")
}

// runImpl runs the interpreter; sites it refuses to compile are dropped one at a time and recorded.
func (p *program) runImpl(timeout time.Duration) {
	p.DropMsg = map[int]string{}
	for iter := 0; iter < 40; iter++ {
		p.Y = runYaegi(p.Src, timeout)
		if p.Y.CompileErr == "" {
			if (p.Y.Crash != "" || p.Y.Err != "" || p.Y.Timeout) && len(p.Sites) > 1 {
				p.isolate(timeout)
			}
			return
		}
		ln := errLine(p.Y.CompileErr)
		s := lineOwner(p.Src, p.Sites)(ln)
		if s == nil {
			return
		}
		p.Dropped = append(p.Dropped, s)
		p.DropMsg[s.ID] = p.Y.CompileErr
		var keep []*site
		for _, t := range p.Sites {
			if t.ID != s.ID {
				keep = append(keep, t)
			}
		}
		p.Sites = keep
		p.Src = buildProgram(p.Sites)
	}
}

// isolate re-runs every site of a program that crashed / failed / timed out on its own, so that the failure is
// attributed to the site that causes it and the other sites keep their results.
func (p *program) isolate(timeout time.Duration) {
	var out strings.Builder
	var nodes []interp.VerifOpNode
	p.Failed = map[int]string{}
	whole := p.Src
	for _, s := range p.Sites {
		src := buildProgram([]*site{s})
		r := runYaegi(src, timeout)
		// node lines refer to the single-site program: remember the site's line there
		line1 := s.Line
		out.WriteString(r.Stdout)
		switch {
		case r.CompileErr != "":
			p.Failed[s.ID] = "compile error: " + r.CompileErr
		case r.Crash != "":
			p.Failed[s.ID] = "Go panic escaped the interpreter: " + common.FirstLine(r.Crash)
		case r.Timeout:
			p.Failed[s.ID] = "timeout"
		case r.Err != "":
			p.Failed[s.ID] = "error: " + common.FirstLine(r.Err)
		}
		for _, n := range r.Nodes {
			if n.Line == line1 {
				n.Line = -s.ID // resolved by findNode through the site id
				nodes = append(nodes, n)
			}
		}
	}
	// restore the line numbers of the whole program
	p.Src = buildProgram(p.Sites)
	_ = whole
	p.Y = yres{Stdout: out.String(), Nodes: nodes}
	p.Isolated = true
}

// parseOut indexes output lines "id a b rest…".
func parseOut(out string) map[int]map[string]string {
	m := map[int]map[string]string{}
	for _, l := range strings.Split(out, "\n") {
		f := strings.SplitN(l, " ", 4)
		if len(f) < 4 {
			continue
		}
		var id int
		if _, err := fmt.Sscanf(f[0], "%d", &id); err != nil {
			continue
		}
		if m[id] == nil {
			m[id] = map[string]string{}
		}
		k := f[1] + " " + f[2]
		if _, dup := m[id][k]; dup {
			m[id][k] += " | " + f[3]
		} else {
			m[id][k] = f[3]
		}
	}
	return m
}

// ---------- attribution of a site to a closure of op.go (inputs of the dispatch read through the hook) ----------

func classOfKindName(k string) string {
	switch k {
	case "int", "int8", "int16", "int32", "int64":
		return "int"
	case "uint", "uint8", "uint16", "uint32", "uint64", "uintptr":
		return "uint"
	case "float32", "float64":
		return "float"
	case "complex64", "complex128":
		return "complex"
	case "string":
		return "string"
	case "bool":
		return "bool"
	case "interface":
		return "interface"
	}
	return "other"
}

var arithFns = map[string]bool{"add": true, "sub": true, "mul": true, "quo": true, "rem": true, "and": true, "or": true, "xor": true, "andNot": true, "shl": true, "shr": true}
var cmpFns = map[string]bool{"equal": true, "notEqual": true, "lower": true, "lowerEqual": true, "greater": true, "greaterEqual": true}
var actionFn = map[string]string{"+": "add", "-": "sub", "*": "mul", "/": "quo", "%": "rem", "&": "and", "|": "or", "^": "xor", "&^": "andNot", "<<": "shl", ">>": "shr"}
var unaryFn = map[string]string{"-": "neg", "+": "pos", "^": "bitNot", "!": "not"}

type closure struct {
	Fn, Cls, Variant, Sub string
}

func (c closure) String() string { return c.Fn + "/" + c.Cls + "/" + c.Variant + "/" + c.Sub }

func variantOf(n interp.VerifOpNode) string {
	switch {
	case n.IsInterface:
		return "iface"
	case n.C0Const:
		return "cl"
	case n.C1Const:
		return "cr"
	}
	return "vv"
}

// attribute mirrors the dispatch at the head of the functions of op.go / run.go: which arm a node takes.
func attribute(n interp.VerifOpNode) (c closure, ok bool) {
	g := n.Gen
	switch {
	case n.Folded && g == "nop" && n.Kind == "binaryExpr":
		base, found := actionFn[n.Action]
		if !found {
			return c, false
		}
		c = closure{Fn: base + "Const", Variant: "fold", Sub: "none"}
		untyped := n.C0ConstVal && n.C1ConstVal
		if base == "shl" || base == "shr" {
			untyped = n.C0ConstVal
		}
		if untyped {
			c.Cls = "untypedConst"
		} else {
			c.Cls = classOfKindName(n.TypKind)
		}
		return c, true
	case n.Folded && g == "nop" && n.Kind == "unaryExpr":
		base, found := unaryFn[n.Action]
		if !found {
			return c, false
		}
		c = closure{Fn: base + "Const", Variant: "fold", Sub: "none"}
		if n.C0ConstVal {
			c.Cls = "untypedConst"
		} else {
			c.Cls = classOfKindName(n.TypKind)
		}
		return c, true
	case arithFns[g]:
		return closure{g, classOfKindName(n.ConcreteKind), variantOf(n), "none"}, true
	case strings.HasSuffix(g, "Assign") && arithFns[strings.TrimSuffix(g, "Assign")]:
		v := "vv"
		if n.C1Const {
			v = "cr"
		}
		return closure{g, classOfKindName(n.TypKind), v, "none"}, true
	case g == "inc" || g == "dec":
		// the unsigned arm lists reflect.Uintptr like every other unsigned arm (repair 517ecf5 of F02-2)
		return closure{g, classOfKindName(n.TypKind), "plain", "none"}, true
	case cmpFns[g]:
		k0, k1 := classOfKindName(n.C0Kind), classOfKindName(n.C1Kind)
		cls := "other"
		if n.Linked && (g == "equal" || g == "notEqual") {
			// `if c0.typ.cat == linkedT || c1.typ.cat == linkedT`: comparison through interface{} values, first in the function
			v := variantOf(n)
			sub := "none"
			if v != "iface" {
				sub = "val"
				if n.HasFnext {
					sub = "br"
				}
			}
			return closure{g, "linked", v, sub}, true
		}
		switch {
		case k0 == "interface" || k1 == "interface":
			sub := "val"
			if n.HasFnext {
				sub = "br"
			}
			return closure{g, "ifaceOperand", "plain", sub}, true
		case k0 == "string" || k1 == "string":
			cls = "string"
		case k0 == "float" || k1 == "float":
			cls = "float"
		case k0 == "uint" || k1 == "uint":
			cls = "uint"
		case k0 == "int" || k1 == "int":
			cls = "int"
		case k0 == "complex" || k1 == "complex":
			cls = "complex"
		}
		if cls == "other" && g != "equal" && g != "notEqual" {
			return c, false
		}
		v := variantOf(n)
		sub := "none"
		if v != "iface" {
			sub = "val"
			if n.HasFnext {
				sub = "br"
			}
		}
		return closure{g, cls, v, sub}, true
	case g == "neg":
		v := "plain"
		if n.IsInterface {
			v = "iface"
		}
		return closure{g, classOfKindName(n.TypKind), v, "none"}, true
	case g == "bitNot":
		v := "plain"
		if n.IsInterface {
			v = "iface"
		}
		return closure{g, classOfKindName(n.ConcreteKind), v, "none"}, true
	case g == "pos":
		return closure{g, "any", "plain", "none"}, true
	case g == "not":
		sub := "val"
		if n.HasFnext {
			sub = "br"
		}
		return closure{g, "any", "plain", sub}, true
	}
	return c, false
}

// findNode picks the hook's node for a site.
func findNode(s *site, nodes []interp.VerifOpNode) (interp.VerifOpNode, bool) {
	o := s.op()
	for _, n := range nodes {
		if n.Line != s.Line && n.Line != -s.ID {
			continue
		}
		switch o.Group {
		case "arith", "shift", "cmp":
			if strings.HasPrefix(s.Ctx, "opassign") {
				if n.Kind == "assignStmt" && n.Action == o.Tok+"=" {
					return n, true
				}
				continue
			}
			if n.Kind == "binaryExpr" && n.Action == o.Tok {
				// `a != b != 0` cannot occur: arithmetic conditions append `!= 0` to a non-comparison operator
				return n, true
			}
		case "unary":
			if n.Kind == "unaryExpr" && n.Action == o.Tok {
				return n, true
			}
		case "incdec":
			if n.Kind == "incDecStmt" {
				return n, true
			}
		case "conv":
			if n.Kind == "callExpr" {
				return n, true
			}
		}
	}
	return interp.VerifOpNode{}, false
}

// ---------- canonical outcomes ----------

// canon turns the tail of an output line into the driver's outcome vocabulary.
func canon(s *site, rest string, present bool) string {
	if !present {
		return "missing"
	}
	if strings.HasPrefix(rest, "P: ") {
		switch {
		case strings.Contains(rest, "divide by zero"):
			return "pdiv"
		case strings.Contains(rest, "negative shift amount"):
			return "pshift"
		}
		return "p:other"
	}
	if strings.Contains(rest, " | ") {
		return "dup:" + rest
	}
	rk := s.resultKind()
	txt := rest
	if isIfaceCtx(s.Ctx) {
		i := strings.IndexByte(rest, ':')
		// a defined type prints as <package>.<Name> in compiled Go (the batch oracle renames package main) and as its
		// underlying type in the interpreter (class defined-type-dynamic-type)
		tn := ""
		if i >= 0 {
			tn = rest[:i]
			if rk.Under != "" {
				if j := strings.LastIndexByte(tn, '.'); j >= 0 {
					tn = tn[j+1:]
				}
			}
		}
		if i < 0 || tn != rk.Name && tn != rk.Under {
			return "type:" + rest
		}
		txt = rest[i+1:]
	}
	if s.Ctx == "cond" {
		if rk.Name == "bool" {
			if txt == "T" {
				return "t"
			}
			return "f"
		}
		if txt == "T" {
			return "nz"
		}
		return "z"
	}
	if rk.Name == "bool" {
		if txt == "true" {
			return "t"
		}
		if txt == "false" {
			return "f"
		}
		return "?" + txt
	}
	if rk.isInt() {
		v, ok := new(big.Int).SetString(txt, 10)
		if !ok {
			return "?" + txt
		}
		return "b:" + bitsOf(v, rk.Bits).String()
	}
	return "x:" + txt
}

// modelMatches: does the interpreter's canonical outcome equal the model's answer?
func modelMatches(s *site, y, im string) bool {
	if s.Ctx == "cond" && s.resultKind().Name != "bool" && strings.HasPrefix(y, "b:") {
		if y == "b:0" {
			return im == "z"
		}
		return im == "nz"
	}
	if s.Ctx == "cond" && s.resultKind().Name != "bool" && strings.HasPrefix(y, "x:") {
		zero := y == "x:0" || y == "x:2147483648" && s.resultKind().Bits == 32 || y == "x:9223372036854775808" && s.resultKind().Bits == 64
		if zero {
			return im == "z"
		}
		return im == "nz"
	}
	if strings.HasPrefix(y, "r:") { // a code point: the interpreter printed the string with %q
		cp, err := strconv.ParseInt(y[2:], 10, 64)
		return err == nil && im == "x:"+strconv.Quote(string(rune(cp)))
	}
	switch y {
	case "preflect":
		return im == "p:other" || im == "missing"
	case "noentry":
		return im == "missing"
	}
	return y == im
}

// ---------- classes of known divergences (decidable on the input) ----------

func classOf(s *site, x, y string) string {
	// (the classes of the repaired findings F02, F02-2 … F02-8, F02-14 are gone: a divergence on a negative shift count, a
	// uintptr ++/--, an interface destination, a -0 argument, `x / 0.0`, `(-4) << b` is a VIOLATION again)
	if isIfaceCtx(s.Ctx) && s.resultKind().Under != "" {
		return "defined-type-dynamic-type"
	}
	// (F02-4, F02-9, F02-10, F02-11, F02-12, F02-14 are repaired — 03fb34b, a1f1717, 149d328, 674fd4c, 48cb9d4 —: `x / 0.0`,
	// string(c) of a constant outside the rune range, -c / c0*c1 / c0/c1 on typed floating-point and complex constants (also
	// under an interface declaration / result) and `(-4) << b` have no class any more; the only class left is the dynamic
	// type of a defined type, F02-13)
	return ""
}

// isIfaceCtx: contexts whose destination is an interface value (the result is printed as %T:%v).
func isIfaceCtx(ctx string) bool { return strings.HasPrefix(ctx, "iface") }

// watched names the input classes of the REPAIRED findings (F02, F02-2 … F02-12, F02-14): they are no
// longer suppressed, only counted, so that the evidence shows the default stream still contains them.
func watched(s *site, x, y string) []string {
	var out []string
	o := s.op()
	if o.Group == "shift" && s.kind2().Signed && s.kind2().isInt() && s.Form != "cr" && s.Form != "cc" && strings.HasPrefix(y, "-") {
		out = append(out, "F02:negative-shift-count/"+s.K2+"/src="+s.Src)
	}
	if o.Group == "incdec" && s.K == "uintptr" {
		out = append(out, "F02-2:incdec-uintptr/"+s.Ctx)
	}
	if isIfaceCtx(s.Ctx) {
		switch {
		case s.Op == "rem" || o.Group == "shift" || s.Op == "neg" || s.Op == "bitnot" || s.Op == "pos":
			out = append(out, "F02-3:iface-dest-operand-typed-op/"+s.Ctx)
		case s.Op == "lnot" || o.Group == "logic":
			out = append(out, "F02-7:iface-dest-bool-op/"+s.Ctx)
		case o.Group == "cmp":
			out = append(out, "F02-8:iface-dest-comparison/"+s.Ctx)
		}
	}
	if s.Op == "quo" && (s.kind().Class == "float" || s.kind().Class == "complex") && (s.Form == "cr" || s.Form == "cc") && isZeroConst(s.CR) {
		out = append(out, "F02-4:float-div-const-zero/"+s.Form)
	}
	if o.Group == "shift" && s.Form == "cl" && s.CKind == "lit" && strings.HasPrefix(s.CL, "-") && (s.Ctx == "ifacevar" || s.Ctx == "ifaceret" || s.Ctx == "ifaceret2") {
		out = append(out, "F02-14:shift-paren-const-left/"+s.Ctx)
	}
	if s.Op == "conv" && s.K2 == "string" && s.Form == "c" && s.kind().isInt() {
		if v, ok := new(big.Int).SetString(s.CL, 10); ok && (v.Sign() < 0 || v.Cmp(big.NewInt(0x10FFFF)) > 0 || v.Cmp(big.NewInt(0xD800)) >= 0 && v.Cmp(big.NewInt(0xDFFF)) <= 0) {
			out = append(out, "F02-9:string-of-invalid-rune-constant/"+s.CKind)
		}
	}
	if s.kind().Class == "complex" && (s.Form == "c" || s.Form == "cc") {
		out = append(out, "F02-11:typed-complex-constant/"+s.Op)
	}
	if s.Op == "neg" && s.Form == "c" && s.kind().Class == "float" && isZeroConst(s.CL) {
		out = append(out, "F02-10:neg-typed-float-zero-constant")
	}
	if s.kind().Class == "float" && s.Form == "cc" && (s.Op == "mul" || s.Op == "quo") && (isZeroConst(s.CL) || isZeroConst(s.CR)) {
		out = append(out, "F02-12:fold-typed-float-zero-constant/"+s.Op)
	}
	if (s.Op == "mul" || s.Op == "quo") && s.Form == "cc" && (s.Ctx == "ifacevar" || s.Ctx == "ifaceret" || s.Ctx == "ifaceret2") && (s.kind().Class == "float" || s.kind().Class == "complex") {
		out = append(out, "F02-12:typed-constants-under-interface-declaration/"+s.kind().Class+"/"+s.Ctx)
	}
	if strings.HasPrefix(s.Ctx, "ret") && (negZero(s.kind(), x) || negZero(s.kind2(), y)) {
		w := "F02-5:negzero-argument/" + s.Ctx
		if (allZero(s.kind(), x) || x == "-") && (allZero(s.kind2(), y) || y == "-") {
			w += "/only-zeros" // every argument (aggregate) holds only ±0: reflect.Value.IsZero is true for it
		}
		out = append(out, w)
	}
	return out
}

// allZero: is the printed key of a float / complex operand ±0 (in both parts)?
func allZero(k kindT, key string) bool {
	nz := "9223372036854775808"
	if k.Bits == 32 || k.Name == "complex64" {
		nz = "2147483648"
	}
	switch k.Class {
	case "float":
		return key == "0" || key == nz
	case "complex":
		f := strings.Split(key, "_")
		return len(f) == 2 && (f[0] == "0" || f[0] == nz) && (f[1] == "0" || f[1] == nz)
	}
	return false
}

// normFloat canonicalises NaN results (sign and payload of a NaN are not specified by the language).
func normFloat(s *site, rest string) string {
	rk := s.resultKind()
	if rk.Class != "float" && rk.Class != "complex" || isIfaceCtx(s.Ctx) || s.Ctx == "cond" || strings.HasPrefix(rest, "P:") {
		return rest
	}
	w := rk.Bits
	if rk.Class == "complex" {
		w /= 2
	}
	parts := strings.Split(rest, "_")
	for i, p := range parts {
		n, ok := new(big.Int).SetString(p, 10)
		if !ok {
			continue
		}
		u := n.Uint64()
		if w == 32 && u&0x7f800000 == 0x7f800000 && u&0x007fffff != 0 || w == 64 && u&0x7ff0000000000000 == 0x7ff0000000000000 && u&0x000fffffffffffff != 0 {
			parts[i] = "NaN"
		}
	}
	return strings.Join(parts, "_")
}

// implDefined: conversions whose result the language leaves to the implementation (a floating-point value that the
// integer target type cannot represent).
func implDefined(s *site, x string) bool {
	if s.Op != "conv" || s.kind().Class != "float" || !s.kind2().isInt() {
		return false
	}
	var f float64
	if s.Form == "c" {
		return false
	}
	n, ok := new(big.Int).SetString(x, 10)
	if !ok {
		return false
	}
	if s.kind().Bits == 32 {
		f = float64(math.Float32frombits(uint32(n.Uint64())))
	} else {
		f = math.Float64frombits(n.Uint64())
	}
	if math.IsNaN(f) || math.IsInf(f, 0) {
		return true
	}
	t, _ := new(big.Float).SetFloat64(math.Trunc(f)).Int(nil)
	lo, hi := s.kind2().rangeOf()
	return t.Cmp(lo) < 0 || t.Cmp(hi) > 0
}

var batchPkgRe = regexp.MustCompile(`^p\d{5}\.`)

func isZeroConst(c string) bool {
	switch strings.Trim(c, "()") {
	case "0", "0.0", "-0.0", "0i", "0 + 0i":
		return true
	}
	return false
}

// negZero: is the printed key of a float / complex operand a value with a negative zero (part)?
func negZero(k kindT, key string) bool {
	nz := "9223372036854775808"
	if k.Bits == 32 || k.Name == "complex64" {
		nz = "2147483648"
	}
	switch k.Class {
	case "float":
		return key == nz
	case "complex":
		f := strings.Split(key, "_")
		return len(f) == 2 && (f[0] == nz || f[1] == nz)
	}
	return false
}

// ---------- main ----------

type evalT struct {
	p      *program
	s      *site
	x, y   string // key fields
	line   string // driver request ("" if not an integer evaluation)
	cl     closure
	attrOK bool
	im, rf string
	imOK   bool
	rfOK   bool
	answer string
	fail   string
}

func sexpArg(constVal bool, k kindT, v string) string {
	if v == "-" || v == "" {
		return "-"
	}
	n, ok := new(big.Int).SetString(v, 10)
	if !ok {
		return "-"
	}
	if constVal {
		return "(u " + n.String() + ")"
	}
	sg := "0"
	if k.Signed {
		sg = "1"
	}
	return fmt.Sprintf("(t %s %d %s)", sg, k.Bits, bitsOf(n, k.Bits).String())
}

func fnv64(s string) string {
	h := fnv.New64a()
	h.Write([]byte(s))
	return string(h.Sum(nil))
}

func oneValue(s *site, x, y string) *site {
	c := *s
	c.XS, c.YS = nil, nil
	if len(s.XS) > 0 {
		c.XS = []string{valueExpr(s, true, x)}
	}
	if len(s.YS) > 0 {
		c.YS = []string{valueExpr(s, false, y)}
	}
	return &c
}

// valueExpr maps a printed key field back to the Go expression of the operand (identity for integers).
func valueExpr(s *site, left bool, key string) string {
	k, vs := s.kind(), s.XS
	if !left {
		k, vs = s.kind2(), s.YS
	}
	if k.isInt() || k.Class == "bool" {
		return key
	}
	for _, v := range vs {
		if keyOf(k, v) == key {
			return v
		}
	}
	return key
}

// keyOf predicts the printed key field of an operand expression (used only to shrink disagreements; best effort).
func keyOf(k kindT, expr string) string {
	var bits uint64
	switch k.Class {
	case "float":
		if n, _ := fmt.Sscanf(expr, "math.Float32frombits(0x%x)", &bits); n == 1 {
			return fmt.Sprint(bits)
		}
		if n, _ := fmt.Sscanf(expr, "math.Float64frombits(0x%x)", &bits); n == 1 {
			return fmt.Sprint(bits)
		}
	case "string":
		return expr
	}
	return expr
}

func main() {
	run := common.NewRun("C02")
	run.Res.Rule = "cases = evaluations of one operator expression (operator x operand kind(s) x operand form {variable, literal, named typed constant, named untyped constant; integer constants also spelled in hex, as 123.0, 123e0 or as a rune} x result context {assign, define, op-assign, return through a function / struct parameter / array parameter / variadic parameter / method value / function literal, branch condition, interface destination {assigned variable, reused variable, var declaration, struct field, slice element, map entry, global, interface parameter, interface result (single and second of two)}, call argument, and the destinations global / slice element / struct field / map entry / pointer} x source of the variable operands {local variable; struct field, slice element, function-literal call, pointer, method value, global: sampled}) on one tuple of boundary values (min, max, -1, 0, 1, 2^k, 2^k+-1; NaN, +-Inf, -0, subnormals, rounding boundaries for floats); every variable x variable site of the product is generated on the tier's value tables, constant-form sites (one per constant value) are sampled by seed (quick 2%, thorough 40%; 30% of that in the additional destination contexts); every integer evaluation is also computed by the Lean model of the closure that ran (regenerated table entry) and by the Lean Go specification; non-trivial = not both operands in {0, 1} (a constant operand always counts); distinct = distinct (operator, kinds, form, constant spelling, context, operand values)"
	defer run.Finish()
	t0 := time.Now()

	findings, err := common.LoadFindings("C02")
	if err != nil {
		run.Errorf("known findings: %v", err)
	}

	var sites []*site
	replaying := run.Replay != ""
	if replaying {
		b, err := os.ReadFile(run.Replay)
		if err != nil {
			run.Errorf("replay: %v", err)
			return
		}
		var rp struct {
			Input site `json:"input"`
		}
		if err := json.Unmarshal(b, &rp); err != nil {
			run.Errorf("replay: %v", err)
			return
		}
		rp.Input.ID = 1
		sites = []*site{&rp.Input}
	} else {
		g := genOpts{level: 0, constFrac: 0.02, negCounts: true}
		if run.Thorough() {
			g = genOpts{level: 1, constFrac: 0.4, negCounts: true}
		}
		sites = generate(run.Rng, g)
		// development aid: VERIF_C02_ONLY="kind=complex64,op=ne" keeps only matching sites (never set by ./check)
		if f := os.Getenv("VERIF_C02_ONLY"); f != "" {
			var keep []*site
			for _, s := range sites {
				ok := true
				for _, c := range strings.Split(f, ",") {
					kv := strings.SplitN(c, "=", 2)
					if len(kv) != 2 {
						continue
					}
					switch kv[0] {
					case "kind":
						ok = ok && s.K == kv[1]
					case "op":
						ok = ok && s.Op == kv[1]
					case "form":
						ok = ok && s.Form == kv[1]
					case "ctx":
						ok = ok && s.Ctx == kv[1]
					case "class":
						ok = ok && s.kind().Class == kv[1]
					}
				}
				if ok {
					keep = append(keep, s)
				}
			}
			sites = keep
		}
	}

	// listed findings are replayed first, each in its own program
	var known []*program
	if !replaying {
		for i, f := range findings {
			var s site
			if err := json.Unmarshal(f.Replay, &s); err != nil {
				run.Errorf("finding %s: bad replay: %v", f.ID, err)
				continue
			}
			s.ID = 900000 + i
			known = append(known, &program{Sites: []*site{&s}})
		}
	}

	// partition into programs
	var progs []*program
	maxEvals, maxSites := 6000, 120
	cur := &program{}
	n := 0
	for _, s := range sites {
		if len(cur.Sites) >= maxSites || (n > 0 && n+s.nEvals() > maxEvals) {
			progs = append(progs, cur)
			cur, n = &program{}, 0
		}
		cur.Sites = append(cur.Sites, s)
		n += s.nEvals()
	}
	if len(cur.Sites) > 0 {
		progs = append(progs, cur)
	}
	all := append(append([]*program{}, known...), progs...)

	// type-check, then run the interpreter, in parallel
	var wg sync.WaitGroup
	sem := make(chan struct{}, runtime.NumCPU())
	var mu sync.Mutex
	rejected := 0
	for _, p := range all {
		wg.Add(1)
		sem <- struct{}{}
		go func(p *program) {
			defer wg.Done()
			defer func() { <-sem }()
			r, err := p.prepare()
			mu.Lock()
			rejected += r
			if err != nil {
				run.Errorf("prepare: %v", err)
			}
			mu.Unlock()
			if err != nil || len(p.Sites) == 0 {
				return
			}
			p.runImpl(120 * time.Second)
		}(p)
	}
	wg.Wait()
	run.Res.Distribution["sites:rejected-by-go-types"] = rejected
	tImpl := time.Since(t0)

	// The programs are processed in batches (one `go build` per batch): reference run, evaluations, Lean drivers,
	// comparison — then the batch's data is dropped, so that memory stays bounded in the thorough tier.
	var live []*program
	for _, p := range all {
		if len(p.Sites) > 0 && p.Src != "" {
			live = append(live, p)
		}
	}
	nd := runtime.NumCPU() / 2
	if nd < 1 {
		nd = 1
	}
	var drivers []*common.Driver
	defer func() {
		for _, d := range drivers {
			d.Close()
		}
	}()
	var tRefD, tDrvD time.Duration
	nInt, nFloat := 0, 0
	knownFail := map[int]string{} // finding site id -> detail
	fatal := false

	process := func(live []*program) {
		var evals []*evalT
		// collect evaluations
		for _, p := range live {
			if p.G.CompileErr != "" {
				run.Errorf("the Go toolchain rejects a generated program (go/types accepted it): %s", common.FirstLine(p.G.CompileErr))
				continue
			}
			if p.G.Timeout {
				run.Errorf("compiled program timed out")
			}
			p.yOut, p.gOut = parseOut(p.Y.Stdout), parseOut(p.G.Stdout)
			for _, s := range p.Dropped {
				run.Disagree(common.Disagreement{Kind: "impl-vs-ref", Input: s, Impl: "compile error: " + p.DropMsg[s.ID], Ref: "compiles",
					Finding: classOf(s, "", "")})
				run.Hit("impl:compile-error")
			}
			for _, s := range p.Sites {
				node, found := findNode(s, p.Y.Nodes)
				var cl closure
				attrOK := false
				if found {
					cl, attrOK = attribute(node)
				}
				keys := map[string]bool{}
				for k := range p.gOut[s.ID] {
					keys[k] = true
				}
				for k := range p.yOut[s.ID] {
					keys[k] = true
				}
				if len(p.gOut[s.ID]) != s.nEvals() {
					run.Errorf("site %d (%s %s %s %s): the compiled program printed %d lines, %d evaluations expected", s.ID, s.Op, s.K, s.Form, s.Ctx, len(p.gOut[s.ID]), s.nEvals())
				}
				sorted := make([]string, 0, len(keys))
				for k := range keys {
					sorted = append(sorted, k)
				}
				sort.Strings(sorted)
				for _, k := range sorted {
					f := strings.SplitN(k, " ", 2)
					e := &evalT{p: p, s: s, x: f[0], y: f[1], cl: cl, attrOK: attrOK}
					e.im, e.imOK = p.yOut[s.ID][k]
					if !e.imOK && p.Failed[s.ID] != "" {
						e.fail = p.Failed[s.ID]
					}
					e.rf, e.rfOK = p.gOut[s.ID][k]
					// integer evaluations go to the Lean driver
					o := s.op()
					if s.kind().isInt() && (s.kind2().isInt() || o.Group == "unary" || o.Group == "incdec") && o.Name != "lnot" {
						if o.Group == "conv" {
							sg := "0"
							if s.kind().Signed {
								sg = "1"
							}
							if v, ok := new(big.Int).SetString(firstNonDash(f[0], s.CL), 10); ok {
								e.line = fmt.Sprintf("C02 conv %s %d %s 0 %d", sg, s.kind().Bits, bitsOf(v, s.kind().Bits).String(), s.kind2().Bits)
							}
						} else if attrOK && found {
							k0, k1 := kindByName[node.C0Kind], kindByName[node.C1Kind]
							a := sexpArg(node.C0ConstVal, k0, firstNonDash(f[0], s.CL))
							b := sexpArg(node.C1ConstVal, k1, firstNonDash(f[1], s.CR))
							if o.Group == "unary" || o.Group == "incdec" {
								b = "-"
							}
							dk := kindByName[node.ConcreteKind]
							if strings.HasSuffix(cl.Fn, "Assign") || cl.Fn == "inc" || cl.Fn == "dec" || cl.Variant == "fold" || cl.Fn == "neg" || cl.Fn == "pos" {
								dk = kindByName[node.TypKind]
							}
							if cmpFns[cl.Fn] {
								dk = s.kind()
							}
							if dk.isInt() {
								sg := "0"
								if dk.Signed {
									sg = "1"
								}
								e.line = fmt.Sprintf("C02 ev %s %s %s %s %s %s %s %d", cl.Fn, cl.Cls, cl.Variant, cl.Sub, a, b, sg, dk.Bits)
							}
						}
					}
					// string(x) of an integer variable: the Lean model of the arm of run.go convert (reflect.Value.Convert)
					if e.line == "" && o.Group == "conv" && s.Form == "v" && s.kind().isInt() && s.kind2().Class == "string" && !isIfaceCtx(s.Ctx) {
						sg := "0"
						if s.kind().Signed {
							sg = "1"
						}
						if v, ok := new(big.Int).SetString(f[0], 10); ok {
							e.line = fmt.Sprintf("C02 convs %s %d %s", sg, s.kind().Bits, bitsOf(v, s.kind().Bits).String())
						}
					}
					if e.line == "" && attrOK && found {
						e.line = floatLine(s, node, cl, f[0], f[1])
					}
					evals = append(evals, e)
				}
			}
			if p.Y.Crash != "" || p.Isolated {
				run.Hit("impl:program-failed-sites-isolated")
			}
			for range p.Failed {
				run.Hit("impl:site-failed")
			}
			if p.Y.Timeout {
				run.Hit("impl:timeout")
			}
		}

		// ask the Lean drivers (several processes, pipelined)
		tA := time.Now()
		var lines []string
		var idx []int
		for i, e := range evals {
			if e.line != "" {
				lines = append(lines, e.line)
				idx = append(idx, i)
			}
		}
		use := nd
		if len(lines) < 2000 {
			use = 1
		}
		for len(drivers) < use {
			drv, err := common.StartDriver("C02")
			if err != nil {
				run.Errorf("driver: %v", err)
				fatal = true
				return
			}
			drivers = append(drivers, drv)
		}
		answers := make([]string, len(lines))
		chunk := (len(lines) + use - 1) / use
		var dwg sync.WaitGroup
		var derr error
		for d := 0; d < use && chunk > 0; d++ {
			lo, hi := d*chunk, (d+1)*chunk
			if lo >= len(lines) {
				break
			}
			if hi > len(lines) {
				hi = len(lines)
			}
			dwg.Add(1)
			go func(drv *common.Driver, lo, hi int) {
				defer dwg.Done()
				ans, err := drv.AskAll(lines[lo:hi])
				if err != nil {
					mu.Lock()
					derr = err
					mu.Unlock()
					return
				}
				copy(answers[lo:hi], ans)
			}(drivers[d], lo, hi)
		}
		dwg.Wait()
		if derr != nil {
			run.Errorf("driver: %v", derr)
			fatal = true
			return
		}
		for j, i := range idx {
			evals[i].answer = answers[j]
			if !strings.HasPrefix(lines[j], "C02 evf") {
				nInt++
			} else {
				nFloat++
			}
		}
		tDrvD += time.Since(tA)

		// compare
		for _, e := range evals {
			s := e.s
			isKnown := s.ID >= 900000
			class := classOf(s, e.x, e.y)
			if implDefined(s, e.x) {
				run.Hit("class:implementation-defined(not compared)")
				continue
			}
			e.im, e.rf = normFloat(s, e.im), normFloat(s, e.rf)
			if isIfaceCtx(s.Ctx) && s.resultKind().Under != "" {
				e.rf = batchPkgRe.ReplaceAllString(e.rf, "main.")
			}
			im, rf := canon(s, e.im, e.imOK), canon(s, e.rf, e.rfOK)
			agreeRef := e.imOK == e.rfOK && e.im == e.rf
			var y, g string
			if e.answer != "" {
				a := common.Fields(e.answer)
				y, g = a["y"], a["g"]
				if y == "" || g == "" {
					run.Errorf("driver answered %q to %q", e.answer, e.line)
				}
			}
			if isKnown {
				if !agreeRef {
					knownFail[s.ID] = fmt.Sprintf("impl=%q ref=%q model=%s", e.im, e.rf, y)
				} else if _, seen := knownFail[s.ID]; !seen {
					knownFail[s.ID] = ""
				}
				continue
			}
			sig := fmt.Sprintf("%s|%s|%s|%s|%s|%s|%s|%s|%s|%s|%s", s.Op, s.K, s.K2, s.Form, s.CKind, s.Ctx, s.CL, s.CR, e.x, e.y, s.Src)
			nontrivial := !((e.x == "0" || e.x == "1" || e.x == "-") && (e.y == "0" || e.y == "1" || e.y == "-")) || s.Form != "vv" && s.Form != "v"
			run.Count(fnv64(sig), nontrivial)
			run.Hit("op:" + s.Op)
			run.Hit("kind:" + s.K)
			run.Hit("form:" + s.Form + "/" + s.CKind)
			run.Hit("ctx:" + s.Ctx)
			if s.Src != "" {
				run.Hit("operand-source:" + s.Src)
			}
			// the inputs of the repaired findings stay observed (counted; a divergence on them is a VIOLATION)
			for _, w := range watched(s, e.x, e.y) {
				run.Hit("watch:" + w)
			}
			if e.attrOK {
				run.Hit("closure:" + e.cl.String())
			}
			switch {
			case strings.HasPrefix(rf, "p"):
				run.Hit("ref:" + rf)
			case rf == "missing":
				run.Hit("ref:missing")
			default:
				run.Hit("ref:value")
			}
			if class != "" {
				run.Hit("class:" + class)
			} else {
				run.Hit("class:in-domain")
			}
			if y != "" && strings.HasPrefix(e.line, "C02 evf") {
				run.Hit("level:impl=model=spec=ref(float, run-time model only)")
			} else if y != "" {
				run.Hit("level:impl=model=spec=ref")
			} else {
				run.Hit("level:impl=ref-only")
			}
			input := oneValue(s, e.x, e.y)
			if h := fnv64(sig); h[0] == 0 && h[1]&0x3f == 0 || len(run.Res.Samples) < 2 {
				run.Sample(map[string]interface{}{"case": input, "closure": e.cl.String(), "impl": e.im, "model": y, "spec": g, "ref": e.rf}, 12)
			}
			modelOK := true
			if y != "" && y != "unmodelled" {
				if !modelMatches(s, y, im) {
					modelOK = false
					run.Disagree(common.Disagreement{Kind: "impl-vs-model", Input: input, Impl: e.im, Model: y, Ref: e.rf, Note: "closure " + e.cl.String()})
				}
			} else if y == "unmodelled" {
				run.Hit("model:unmodelled")
			}
			if g != "" && g != "unmodelled" {
				if !modelMatches(s, g, rf) {
					run.Disagree(common.Disagreement{Kind: "spec-vs-ref", Input: input, Spec: g, Ref: e.rf})
				}
			}
			if !agreeRef {
				d := common.Disagreement{Kind: "impl-vs-ref", Input: input, Impl: e.im, Model: y, Ref: e.rf, Finding: class, Note: "closure " + e.cl.String()}
				if !e.imOK {
					d.Impl = "(no output)"
					if e.fail != "" {
						d.Impl = "(no output) " + e.fail
					}
				}
				run.Hit("diff:" + class + ":" + s.Op + "/" + s.kind().Class + "/" + s.Form + "/" + s.Ctx)
				if !modelOK {
					d.Finding, d.Note = "", "differs from the reference and from the model of the unchanged code; closure "+e.cl.String()
				}
				run.Disagree(d)
			}
		}
	} // process

	const batch = 64
	for i := 0; i < len(live) && !fatal; i += batch {
		j := i + batch
		if j > len(live) {
			j = len(live)
		}
		tR := time.Now()
		srcs := make([]string, 0, j-i)
		for _, p := range live[i:j] {
			srcs = append(srcs, p.Src)
		}
		rs, err := common.RunGoBatch(srcs, 120*time.Second)
		if err != nil {
			run.Errorf("go batch: %v", err)
			return
		}
		for k, r := range rs {
			live[i+k].G = r
		}
		tRefD += time.Since(tR)
		process(live[i:j])
		for _, p := range live[i:j] {
			// drop the batch's data
			p.Y.Stdout, p.Y.Nodes, p.G, p.yOut, p.gOut, p.Src = "", nil, common.GoResult{}, nil, nil, ""
		}
	}
	if fatal {
		return
	}
	if !replaying {
		for i, f := range findings {
			detail, seen := knownFail[900000+i]
			still := seen && detail != ""
			if !seen {
				detail = "replay produced no evaluation"
				// a program the interpreter could not compile / run at all still fails
				for _, p := range known {
					if len(p.Sites) > 0 && p.Sites[0].ID == 900000+i || len(p.Dropped) > 0 && p.Dropped[0].ID == 900000+i {
						if len(p.Dropped) > 0 {
							still, detail = true, "impl: "+p.DropMsg[900000+i]
						}
					}
				}
			}
			run.Res.Known = append(run.Res.Known, common.KnownReplay{ID: f.ID, Status: f.Status, What: f.What, StillFails: still, Detail: detail})
		}
	}
	run.Res.Extra = map[string]interface{}{
		"sites": len(sites), "programs": len(progs),
		"seconds_impl": tImpl.Seconds(), "seconds_ref": tRefD.Seconds(), "seconds_driver": tDrvD.Seconds(),
		"integer_evaluations_checked_against_lean": nInt, "float_evaluations_checked_against_lean_runtime_model": nFloat,
	}
}

// floatLine: the driver request for a float32/float64 evaluation (Model/OpsFloat.lean), "" if not applicable.
func floatLine(s *site, node interp.VerifOpNode, cl closure, x, y string) string {
	o := s.op()
	if s.kind().Class != "float" || isIfaceCtx(s.Ctx) {
		return ""
	}
	if cl.Variant == "fold" {
		return "" // a constant expression: Go evaluates it exactly (go/constant arithmetic, C03), not at float precision
	}
	switch o.Group {
	case "arith", "cmp":
		if s.K2 != s.K {
			return ""
		}
	case "unary", "incdec":
	default:
		return ""
	}
	arg := func(key, c string, k kindT) string {
		if key != "-" && c == "" {
			if _, ok := new(big.Int).SetString(key, 10); ok {
				return fmt.Sprintf("(f %d %s)", k.Bits, key)
			}
			return ""
		}
		if c == "" {
			return "-"
		}
		v, err := strconv.ParseFloat(strings.Trim(c, "()"), k.Bits)
		if err != nil {
			return ""
		}
		if k.Bits == 32 {
			return fmt.Sprintf("(f 32 %d)", math.Float32bits(float32(v)))
		}
		return fmt.Sprintf("(f 64 %d)", math.Float64bits(v))
	}
	a := arg(x, s.CL, s.kind())
	b := "-"
	if o.Group == "arith" || o.Group == "cmp" {
		b = arg(y, s.CR, s.kind2())
	}
	if a == "" || b == "" || a == "-" {
		return ""
	}
	dk := kindByName[node.ConcreteKind]
	if strings.HasSuffix(cl.Fn, "Assign") || cl.Fn == "inc" || cl.Fn == "dec" || cl.Variant == "fold" || cl.Fn == "neg" || cl.Fn == "pos" {
		dk = kindByName[node.TypKind]
	}
	if cmpFns[cl.Fn] {
		dk = s.kind()
	}
	if dk.Class != "float" {
		return ""
	}
	return fmt.Sprintf("C02 evf %s %s %s %s %s %s %d", cl.Fn, cl.Cls, cl.Variant, cl.Sub, a, b, dk.Bits)
}

func firstNonDash(a, b string) string {
	if a != "-" && a != "" {
		// constant operands are printed as their source text, possibly quoted by %q in the key: strip quotes
		return strings.Trim(a, `"`)
	}
	return b
}
