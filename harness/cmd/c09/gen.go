package main

import (
	"fmt"
	"math/rand"
	"strings"
)

// ---- abstract programs of the family ----------------------------------------------------------

// Stmt is one statement of a generated function body.
//
//	tick            h.T(id)                                    a host callback (side effect the harness sees)
//	work            w++
//	call Fn         fnN() / R{}.mN()                           interpreted call
//	hostcb Fn       h.Call(fnN)                                the host calls the function back (wrapper frame)
//	latecb Fn       h.Hold(fnN)                                native code that calls back late: as hostcb, but when the operation
//	                                                           is executed after the cancellation the callback is made only when
//	                                                           everything else has settled (a timer, a handler)
//	go Fn           go fnN()
//	rec N           rec(N)                                     recursion of depth N
//	loop N Body     for i := 0; i < N; i++ { Body }
//	forever Body    for { Body }
//	block Kind      a channel operation that never completes   recv recv2 send range select
//	lit Body        func() { Body }()                          closure made and called on the spot
//	golit Body      go func() { Body }()
//	retrecv         w += func() int { return <-c }()           a receive that is the operand of a return (50c4f88)
type Stmt struct {
	Op   string `json:"op"`
	N    int    `json:"n,omitempty"`
	Fn   int    `json:"fn,omitempty"`
	Kind string `json:"kind,omitempty"`
	Body []Stmt `json:"body,omitempty"`
}

// Fn is a package-level function of the generated program.
type Fn struct {
	Method bool `json:"method,omitempty"` // declared as a method of type R
	Plain  bool `json:"plain,omitempty"`  // compiled by a plain Eval before the EvalWithContext call (F26 class)
	// Earlier: a function value stored by an EARLIER, completed EvalWithContext call (before 1578873 its frame kept
	// the done channel of that evaluation: F09-2). EKind says where it is stored: "" a closure in a package-level
	// variable, "field" a closure in a struct field, "map" a closure in a map, "mv" a method value bound by an init function.
	Earlier bool   `json:"earlier,omitempty"`
	EKind   string `json:"ekind,omitempty"`
	Body    []Stmt `json:"body"`
}

// Prog is one program of the family.
type Prog struct {
	Name    string   `json:"name"`
	Globals []int    `json:"globals,omitempty"` // var gI = fnJ(): functions called by global initialisers
	Inits   [][]Stmt `json:"inits,omitempty"`   // bodies of init functions
	Main    []Stmt   `json:"main"`
	Fns     []Fn     `json:"fns,omitempty"`
}

// role of a tick id in the rendered program
type tickRole struct {
	Role    string // fn | init | main | lit | rec | block | plain
	Fn      int
	Kind    string // for block: the operation that follows
	Plain   bool   // for block: the enclosing function was compiled by a plain Eval
	Earlier bool   // for fn: the function is a closure made by an earlier evaluation
}

type rendered struct {
	Prelude string // evaluated with Eval (no context) first; "" if there are no plain functions
	Earlier string // evaluated with EvalWithContext (never cancelled) next; "" if there are no earlier closures
	Src     string
	Ticks   map[int]tickRole
}

type renderer struct {
	ticks map[int]tickRole
	next  int
	vars  int
}

func (r *renderer) tick(role tickRole) int {
	r.next++
	r.ticks[r.next] = role
	return r.next
}

func (r *renderer) fresh(p string) string {
	r.vars++
	return fmt.Sprintf("%s%d", p, r.vars)
}

func (r *renderer) stmts(b *strings.Builder, body []Stmt, fns []Fn, plain bool, ind string) {
	for _, s := range body {
		switch s.Op {
		case "tick":
			fmt.Fprintf(b, "%sh.T(%d)\n", ind, r.tick(tickRole{Role: "plain"}))
		case "work":
			fmt.Fprintf(b, "%sw++\n", ind)
		case "call":
			fmt.Fprintf(b, "%s%s()\n", ind, fnName(fns, s.Fn))
		case "hostcb":
			fmt.Fprintf(b, "%sh.Call(%s)\n", ind, fnName(fns, s.Fn))
		case "latecb":
			fmt.Fprintf(b, "%sh.Hold(%s)\n", ind, fnName(fns, s.Fn))
		case "go":
			fmt.Fprintf(b, "%sgo %s()\n", ind, fnName(fns, s.Fn))
		case "rec":
			fmt.Fprintf(b, "%srec(%d)\n", ind, s.N)
		case "loop":
			v := r.fresh("i")
			fmt.Fprintf(b, "%sfor %s := 0; %s < %d; %s++ {\n", ind, v, v, s.N, v)
			r.stmts(b, s.Body, fns, plain, ind+"\t")
			fmt.Fprintf(b, "%s}\n", ind)
		case "forever":
			fmt.Fprintf(b, "%sfor {\n", ind)
			r.stmts(b, s.Body, fns, plain, ind+"\t")
			fmt.Fprintf(b, "%s}\n", ind)
		case "block":
			// the channel is made by the interpreter and registered with the host, which closes (or drains) it when
			// the case is over so that a goroutine left blocked does not outlive the case
			id := r.tick(tickRole{Role: "block", Kind: s.Kind, Plain: plain})
			c := fmt.Sprintf("c%d", id)
			fmt.Fprintf(b, "%s%s := make(chan int)\n", ind, c)
			if s.Kind == "send" {
				fmt.Fprintf(b, "%sh.RegS(%s)\n", ind, c)
			} else {
				fmt.Fprintf(b, "%sh.Reg(%s)\n", ind, c)
			}
			if s.Kind == "select" {
				fmt.Fprintf(b, "%s%ss := make(chan int)\n%sh.RegS(%ss)\n", ind, c, ind, c)
			}
			fmt.Fprintf(b, "%sh.T(%d)\n", ind, id)
			switch s.Kind {
			case "recv":
				fmt.Fprintf(b, "%s<-%s\n", ind, c)
			case "recv2":
				// (`_, ok := <-c` trips an unrelated defect of recv2 once a value arrives: both results are named)
				v := r.fresh("ok")
				fmt.Fprintf(b, "%sx%s, %s := <-%s\n%s_, _ = x%s, %s\n", ind, v, v, c, ind, v, v)
			case "send":
				fmt.Fprintf(b, "%s%s <- 1\n", ind, c)
			case "range":
				v := r.fresh("v")
				fmt.Fprintf(b, "%sfor %s := range %s {\n%s\t_ = %s\n%s}\n", ind, v, c, ind, v, ind)
			case "select":
				fmt.Fprintf(b, "%sselect {\n%scase <-%s:\n%scase %ss <- 1:\n%s}\n", ind, ind, c, ind, c, ind)
			}
		case "retrecv":
			id := r.tick(tickRole{Role: "block", Kind: "recv", Plain: plain})
			c := fmt.Sprintf("c%d", id)
			fmt.Fprintf(b, "%s%s := make(chan int)\n%sh.Reg(%s)\n%sh.T(%d)\n", ind, c, ind, c, ind, id)
			fmt.Fprintf(b, "%sw += func() int { return <-%s }()\n", ind, c)
		case "lit":
			fmt.Fprintf(b, "%sfunc() {\n%s\th.T(%d)\n", ind, ind, r.tick(tickRole{Role: "lit"}))
			r.stmts(b, s.Body, fns, plain, ind+"\t")
			fmt.Fprintf(b, "%s}()\n", ind)
		case "golit":
			fmt.Fprintf(b, "%sgo func() {\n%s\th.T(%d)\n", ind, ind, r.tick(tickRole{Role: "lit"}))
			r.stmts(b, s.Body, fns, plain, ind+"\t")
			fmt.Fprintf(b, "%s}()\n", ind)
		}
	}
}

func fnName(fns []Fn, i int) string {
	if i >= 0 && i < len(fns) && fns[i].Method {
		return fmt.Sprintf("R{}.m%d", i)
	}
	if i >= 0 && i < len(fns) && fns[i].Earlier {
		switch fns[i].EKind {
		case "field":
			return fmt.Sprintf("H%d.f", i)
		case "map":
			return fmt.Sprintf("M%d[\"k\"]", i)
		}
		return fmt.Sprintf("E%d", i)
	}
	return fmt.Sprintf("fn%d", i)
}

func usesRec(body []Stmt) bool {
	for _, s := range body {
		if s.Op == "rec" || usesRec(s.Body) {
			return true
		}
	}
	return false
}

// render turns an abstract program into Go source (and the prelude of functions compiled by a plain Eval).
func render(p Prog) rendered {
	r := &renderer{ticks: map[int]tickRole{}}
	var pre, ear, src strings.Builder
	hasPlain, hasEarlier := false, false
	for _, f := range p.Fns {
		hasPlain = hasPlain || f.Plain
		hasEarlier = hasEarlier || f.Earlier
	}
	if hasPlain {
		pre.WriteString("package main\n\nimport \"h\"\n\n")
	}
	if hasEarlier {
		if hasPlain {
			ear.WriteString("package main\n\n")
		} else {
			ear.WriteString("package main\n\nimport \"h\"\n\n")
		}
	}
	if hasPlain || hasEarlier {
		// the prelude has imported "h" into the package scope already (importing it twice is an error)
		src.WriteString("package main\n\n")
	} else {
		src.WriteString("package main\n\nimport \"h\"\n\n")
	}
	fn := func(b *strings.Builder, i int, f Fn) {
		tail := "}\n\n"
		switch {
		case f.Method:
			fmt.Fprintf(b, "func (R) m%d() int {\n", i)
		case f.Earlier && f.EKind == "field":
			fmt.Fprintf(b, "var H%d = struct{ f func() int }{f: func() int {\n", i)
			tail = "}}\n\n"
		case f.Earlier && f.EKind == "map":
			fmt.Fprintf(b, "var M%d = map[string]func() int{\"k\": func() int {\n", i)
			tail = "}}\n\n"
		case f.Earlier && f.EKind == "mv":
			fmt.Fprintf(b, "type RE%d struct{}\n\nvar E%d func() int\n\nfunc init() { E%d = RE%d{}.m }\n\nfunc (RE%d) m() int {\n", i, i, i, i, i)
		case f.Earlier:
			fmt.Fprintf(b, "var E%d = func() int {\n", i)
		default:
			fmt.Fprintf(b, "func fn%d() int {\n", i)
		}
		fmt.Fprintf(b, "\th.T(%d)\n\tw := 0\n", r.tick(tickRole{Role: "fn", Fn: i, Earlier: f.Earlier}))
		r.stmts(b, f.Body, p.Fns, f.Plain, "\t")
		b.WriteString("\treturn w + 1\n" + tail)
	}
	needR, needRPlain := false, false
	for _, f := range p.Fns {
		if f.Method {
			if f.Plain {
				needRPlain = true
			} else {
				needR = true
			}
		}
	}
	if needRPlain {
		pre.WriteString("type R struct{}\n\n")
	} else if needR {
		src.WriteString("type R struct{}\n\n")
	}
	for i, f := range p.Fns {
		if f.Plain {
			fn(&pre, i, f)
		}
		if f.Earlier {
			fn(&ear, i, f)
		}
	}
	for gi, j := range p.Globals {
		fmt.Fprintf(&src, "var g%d = %s()\n\n", gi, fnName(p.Fns, j))
	}
	for i, f := range p.Fns {
		if !f.Plain && !f.Earlier {
			fn(&src, i, f)
		}
	}
	rec := usesRec(p.Main)
	for _, b := range p.Inits {
		rec = rec || usesRec(b)
	}
	for _, f := range p.Fns {
		rec = rec || usesRec(f.Body)
	}
	if rec {
		fmt.Fprintf(&src, "func rec(n int) int {\n\th.T(%d)\n\tif n > 0 {\n\t\treturn rec(n-1) + 1\n\t}\n\treturn 0\n}\n\n", r.tick(tickRole{Role: "rec"}))
	}
	for i, b := range p.Inits {
		fmt.Fprintf(&src, "func init() {\n\th.T(%d)\n\tw := 0\n", r.tick(tickRole{Role: "init", Fn: i}))
		r.stmts(&src, b, p.Fns, false, "\t")
		src.WriteString("\t_ = w\n}\n\n")
	}
	fmt.Fprintf(&src, "func main() {\n\th.T(%d)\n\tw := 0\n", r.tick(tickRole{Role: "main"}))
	r.stmts(&src, p.Main, p.Fns, false, "\t")
	src.WriteString("\t_ = w\n}\n")
	return rendered{Prelude: pre.String(), Earlier: ear.String(), Src: src.String(), Ticks: r.ticks}
}

// ---- shapes (decidable predicates of the input; reported as distribution buckets only: the findings they were
// the class labels of — F26, F09-2, F09-1 — are repaired, the shapes stay in the default streams) -----------

// hasPlainChanOp: the program has a channel operation whose variant is chosen when the closure is
// generated (recv, recv2, send) inside a function compiled by a plain Eval.
func hasPlainChanOp(p Prog) bool {
	var walk func(body []Stmt) bool
	walk = func(body []Stmt) bool {
		for _, s := range body {
			if (s.Op == "block" && (s.Kind == "recv" || s.Kind == "recv2" || s.Kind == "send")) || s.Op == "retrecv" {
				return true
			}
			if walk(s.Body) {
				return true
			}
		}
		return false
	}
	for _, f := range p.Fns {
		if f.Plain && walk(f.Body) {
			return true
		}
	}
	return false
}

// hasEarlierChanOp: the program has a channel operation inside a closure made by an earlier evaluation.
func hasEarlierChanOp(p Prog) bool {
	var walk func(body []Stmt) bool
	walk = func(body []Stmt) bool {
		for _, s := range body {
			if s.Op == "block" || s.Op == "retrecv" || walk(s.Body) {
				return true
			}
		}
		return false
	}
	for _, f := range p.Fns {
		if f.Earlier && walk(f.Body) {
			return true
		}
	}
	return false
}

// reexecGolit: some `go func() {…}()` statement of the program can be executed more than once (it sits in a
// loop, or in a function that is referenced twice or from a loop). While an earlier activation of the literal
// is blocked, the next one shares its slot in the enclosing frame (F09-1, repaired by d26dd9e: the shape is no
// longer gated out of the generated family).
func reexecGolit(p Prog) bool {
	// how often may each function run: 0, 1, many (2)
	refs := make([]int, len(p.Fns))
	var count func(body []Stmt, mult int)
	count = func(body []Stmt, mult int) {
		for _, s := range body {
			switch s.Op {
			case "call", "go", "hostcb", "latecb":
				if s.Fn >= 0 && s.Fn < len(p.Fns) {
					refs[s.Fn] += mult
				}
			case "loop", "forever":
				count(s.Body, 2*mult)
			case "lit", "golit":
				count(s.Body, mult)
			}
		}
	}
	for _, g := range p.Globals {
		if g >= 0 && g < len(refs) {
			refs[g]++
		}
	}
	for _, b := range p.Inits {
		count(b, 1)
	}
	count(p.Main, 1)
	// functions only reference higher-numbered ones: one pass in index order propagates multiplicities
	for i, f := range p.Fns {
		m := 1
		if refs[i] >= 2 {
			m = 2
		}
		if refs[i] > 0 {
			count(f.Body, m)
		}
	}
	var has func(body []Stmt, many bool) bool
	has = func(body []Stmt, many bool) bool {
		for _, s := range body {
			switch s.Op {
			case "golit":
				if many || has(s.Body, many) {
					return true
				}
			case "loop", "forever":
				if has(s.Body, true) {
					return true
				}
			case "lit":
				if has(s.Body, many) {
					return true
				}
			}
		}
		return false
	}
	for _, b := range p.Inits {
		if has(b, false) {
			return true
		}
	}
	if has(p.Main, false) {
		return true
	}
	for i, f := range p.Fns {
		if has(f.Body, refs[i] >= 2) {
			return true
		}
	}
	return false
}

// ---- the seeded family ----------------------------------------------------------------------------

var blockKinds = []string{"recv", "recv2", "send", "range", "select"}

func st(op string) Stmt                   { return Stmt{Op: op} }
func call(f int) Stmt                     { return Stmt{Op: "call", Fn: f} }
func spawn(f int) Stmt                    { return Stmt{Op: "go", Fn: f} }
func hostcb(f int) Stmt                   { return Stmt{Op: "hostcb", Fn: f} }
func latecb(f int) Stmt                   { return Stmt{Op: "latecb", Fn: f} }
func loop(n int, b ...Stmt) Stmt          { return Stmt{Op: "loop", N: n, Body: b} }
func forever(b ...Stmt) Stmt              { return Stmt{Op: "forever", Body: b} }
func block(k string) Stmt                 { return Stmt{Op: "block", Kind: k} }
func lit(b ...Stmt) Stmt                  { return Stmt{Op: "lit", Body: b} }
func golit(b ...Stmt) Stmt                { return Stmt{Op: "golit", Body: b} }
func rec(n int) Stmt                      { return Stmt{Op: "rec", N: n} }
func fnOf(b ...Stmt) Fn                   { return Fn{Body: b} }
func methodOf(b ...Stmt) Fn               { return Fn{Method: true, Body: b} }
func plainOf(b ...Stmt) Fn                { return Fn{Plain: true, Body: b} }
func prog(name string, main ...Stmt) Prog { return Prog{Name: name, Main: main} }

// fixedFamily: one hand-written program per construct of the property's quantifier.
func fixedFamily() []Prog {
	var ps []Prog
	// busy loops
	ps = append(ps, prog("busy-loop", st("tick"), loop(3, st("work"), st("tick")), forever(st("work"))))
	ps = append(ps, prog("tick-loop", forever(st("tick"), st("work"))))
	// nested calls, methods, recursion
	p := prog("nested-calls", call(0), st("tick"), forever(call(2)))
	p.Fns = []Fn{fnOf(st("work"), call(1), st("tick")), methodOf(st("tick"), call(2)), fnOf(st("work"))}
	ps = append(ps, p)
	ps = append(ps, prog("recursion", rec(4), st("tick"), forever(rec(2))))
	// closures
	ps = append(ps, prog("closures", lit(st("tick"), lit(st("work"))), forever(lit(st("work")))))
	// host callbacks
	p = prog("host-callback", hostcb(0), st("tick"), forever(hostcb(1)))
	p.Fns = []Fn{fnOf(st("tick"), call(1)), fnOf(st("work"))}
	ps = append(ps, p)
	// goroutines blocked on every channel construct, main keeps looping
	for _, k := range blockKinds {
		p = prog("blocked-"+k, spawn(0), st("tick"), golit(st("work"), block(k)), forever(st("work")))
		p.Fns = []Fn{fnOf(st("work"), block(k), st("tick"))}
		ps = append(ps, p)
	}
	// everything blocked, main included (cancel at the quiet point too)
	p = prog("all-blocked", spawn(0), spawn(1), golit(block("select")), st("tick"), block("recv"))
	p.Fns = []Fn{fnOf(block("send")), methodOf(call(2)), fnOf(block("range"))}
	ps = append(ps, p)
	// goroutine tree
	p = prog("goroutine-tree", spawn(0), forever(st("work")))
	p.Fns = []Fn{fnOf(spawn(1), spawn(1), block("recv2")), fnOf(spawn(2), loop(2, st("tick")), block("select")), fnOf(block("send"))}
	ps = append(ps, p)
	// a program that terminates
	p = prog("terminating", call(0), loop(2, st("tick")), lit(st("work")))
	p.Fns = []Fn{fnOf(st("tick"))}
	ps = append(ps, p)
	return ps
}

// repairedFamily: programs of the shapes of the findings repaired in round 2 (F09, F26, F09-2, F09-1 and the two
// adjacent defects 50c4f88 and ba001d8): ordinary members of the family now, nothing about them is suppressed.
func repairedFamily() []Prog {
	var ps []Prog
	// F09: cancellation inside a global initialiser or an init function
	p := prog("init-list", st("tick"), loop(2, st("work")))
	p.Globals = []int{0}
	p.Inits = [][]Stmt{{st("tick")}, {call(1)}}
	p.Fns = []Fn{fnOf(st("work"), st("tick")), fnOf(st("tick"))}
	ps = append(ps, p)
	p = prog("init-spawns", spawn(0), st("tick"), block("recv"))
	p.Globals = []int{1}
	p.Inits = [][]Stmt{{spawn(0), st("work")}}
	p.Fns = []Fn{fnOf(block("select")), fnOf(st("work"))}
	ps = append(ps, p)
	// F26: channel operations in functions compiled by a plain Eval
	for _, k := range []string{"recv", "recv2", "send", "range", "select"} {
		p = prog("plain-"+k, spawn(0), st("tick"), forever(st("work")))
		p.Fns = []Fn{plainOf(st("work"), block(k))}
		ps = append(ps, p)
	}
	p = prog("plain-main-blocks", st("tick"), call(0))
	p.Fns = []Fn{plainOf(block("recv"))}
	ps = append(ps, p)
	// an init function that blocks for ever: the quiet point lies in a non-last entry, main is pending
	p = prog("init-blocks", st("tick"), st("work"))
	p.Inits = [][]Stmt{{spawn(0), st("tick"), block("select")}}
	p.Fns = []Fn{fnOf(st("work"), block("recv2"))}
	ps = append(ps, p)
	// F09-2: channel operations in function values stored by an earlier evaluation (closure in a variable, in a
	// struct field, in a map; method value bound by an init function), run in a goroutine and by main itself
	for i, k := range []string{"recv", "send", "range", "select", "recv2"} {
		ek := []string{"", "field", "map", "mv", ""}[i]
		p = prog("earlier-"+k, spawn(0), st("tick"), forever(st("work")))
		p.Fns = []Fn{{Earlier: true, EKind: ek, Body: []Stmt{st("work"), block(k)}}}
		ps = append(ps, p)
	}
	p = prog("earlier-called-by-main", st("tick"), call(0), st("tick"), call(1))
	p.Fns = []Fn{{Earlier: true, EKind: "field", Body: []Stmt{st("work"), st("tick")}}, {Earlier: true, EKind: "map", Body: []Stmt{st("work"), block("select")}}}
	ps = append(ps, p)
	p = prog("earlier-host-callback", hostcb(0), st("tick"), forever(hostcb(1)))
	p.Fns = []Fn{{Earlier: true, Body: []Stmt{st("tick"), st("work")}}, {Earlier: true, EKind: "mv", Body: []Stmt{st("work")}}}
	ps = append(ps, p)
	// native code that calls back late (a timer, a handler), from the goroutine of Execute and from another one: the
	// second is F09-3 without any race (the call is in flight, its frame is made after Execute has returned)
	p = prog("late-callback", spawn(0), st("tick"), latecb(1), block("recv"))
	p.Fns = []Fn{fnOf(st("work"), loop(2, latecb(1), st("work")), block("select")), fnOf(st("tick"), st("work"))}
	ps = append(ps, p)
	p = prog("late-callback-method", spawn(0), forever(st("work")))
	p.Fns = []Fn{fnOf(forever(latecb(1), st("work"))), methodOf(st("tick"), call(2)), fnOf(st("work"), st("tick"))}
	ps = append(ps, p)
	// F09-1: `go func(){…}()` executed again while earlier activations are blocked
	ps = append(ps, prog("golit-loop", loop(3, golit(block("recv")), st("work")), forever(st("work"))))
	ps = append(ps, prog("golit-loop-select", loop(2, golit(st("work"), block("select")), golit(block("range"))), st("tick"), block("recv")))
	p = prog("golit-in-called-fn", loop(3, call(0)), forever(st("work")))
	p.Fns = []Fn{fnOf(golit(block("send")), st("work"))}
	ps = append(ps, p)
	// 50c4f88: a receive that is the operand of a return statement, blocked at the cancellation (in declared functions
	// started by `go f()`, in main, in a function compiled by a plain Eval; the random programs use it anywhere)
	p = prog("return-recv", spawn(0), st("tick"), spawn(1), forever(st("work")))
	p.Fns = []Fn{fnOf(st("work"), st("retrecv"), st("tick")), fnOf(call(2), st("work")), fnOf(st("tick"), st("retrecv"))}
	ps = append(ps, p)
	ps = append(ps, prog("return-recv-main", st("tick"), st("retrecv"), st("tick")))
	p = prog("return-recv-plain", spawn(0), st("tick"), forever(st("work")))
	p.Fns = []Fn{plainOf(st("work"), st("retrecv"))}
	ps = append(ps, p)
	return ps
}

type genCfg struct {
	inits, plain, earlier bool
}

// randomProg builds a program of bounded size from the seed.
func randomProg(r *rand.Rand, name string, cfg genCfg) Prog {
	return randomProg1(r, name, cfg)
}

func randomProg1(r *rand.Rand, name string, cfg genCfg) Prog {
	nf := 1 + r.Intn(4)
	p := Prog{Name: name}
	// functions may call only higher-numbered functions (no unbounded recursion)
	var body func(depth, self int, allowForever, plain bool) []Stmt
	body = func(depth, self int, allowForever, plain bool) []Stmt {
		var out []Stmt
		n := 1 + r.Intn(4)
		for i := 0; i < n; i++ {
			callee := -1
			if self+1 < nf {
				callee = self + 1 + r.Intn(nf-self-1)
				if plain && !p.Fns[callee].Plain {
					callee = -1
				}
				if callee >= 0 && self >= 0 && p.Fns[self].Earlier && !p.Fns[callee].Plain && !p.Fns[callee].Earlier {
					callee = -1 // the earlier evaluation cannot name a function the later one declares
				}
			}
			switch c := r.Intn(12); {
			case c == 0:
				out = append(out, st("tick"))
			case c == 1:
				out = append(out, st("work"))
			case c == 2 && callee >= 0:
				out = append(out, call(callee))
			case c == 3 && callee >= 0:
				out = append(out, spawn(callee))
			case c == 4 && callee >= 0:
				if r.Intn(3) == 0 {
					out = append(out, latecb(callee))
				} else {
					out = append(out, hostcb(callee))
				}
			case c == 5 && depth < 2:
				out = append(out, loop(1+r.Intn(3), body(depth+1, self, false, plain)...))
			case c == 6 && depth < 2:
				out = append(out, lit(body(depth+1, self, false, plain)...))
			case c == 7 && depth < 2:
				out = append(out, golit(append(body(depth+1, self, false, plain), block(blockKinds[r.Intn(5)]))...))
			case c == 8 && !plain && (self < 0 || !p.Fns[self].Earlier):
				out = append(out, rec(r.Intn(3)))
			case c == 9 && r.Intn(3) == 0:
				out = append(out, st("retrecv"))
			default:
				out = append(out, st("work"))
			}
		}
		return out
	}
	// decide plainness first (plain functions are the highest-numbered ones so that they only call plain ones)
	p.Fns = make([]Fn, nf)
	if cfg.plain {
		for i := nf - 1; i >= 0 && r.Intn(2) == 0; i-- {
			p.Fns[i].Plain = true
		}
	}
	if cfg.earlier {
		// function values stored by an earlier evaluation: they may call only later earlier / plain ones, so they are
		// the highest-numbered functions that are not plain
		for i := nf - 1; i >= 0; i-- {
			if p.Fns[i].Plain {
				continue
			}
			if r.Intn(2) == 0 {
				break
			}
			p.Fns[i].Earlier = true
			p.Fns[i].EKind = []string{"", "field", "map", "mv"}[r.Intn(4)]
		}
	}
	for i := nf - 1; i >= 0; i-- {
		p.Fns[i].Method = !p.Fns[i].Plain && !p.Fns[i].Earlier && r.Intn(4) == 0
		b := body(0, i, false, p.Fns[i].Plain)
		if r.Intn(2) == 0 {
			b = append(b, block(blockKinds[r.Intn(5)]))
		}
		p.Fns[i].Body = b
	}
	if cfg.inits {
		if r.Intn(2) == 0 {
			// a global initialiser must terminate: pick a function without a final block, else none
			for i := range p.Fns {
				if !endsBlocked(p, p.Fns[i].Body) {
					p.Globals = append(p.Globals, i)
					break
				}
			}
		}
		for n := r.Intn(3); n > 0; n-- {
			p.Inits = append(p.Inits, terminating(p, body(1, -1, false, false)))
		}
		if len(p.Globals) == 0 && len(p.Inits) == 0 {
			p.Inits = append(p.Inits, []Stmt{st("work")})
		}
	}
	p.Main = body(0, -1, false, false)
	switch r.Intn(3) {
	case 0:
		p.Main = append(p.Main, forever(st("work")))
	case 1:
		p.Main = append(p.Main, block(blockKinds[r.Intn(5)]))
	}
	return p
}

// endsBlocked: does executing the body (in the calling goroutine) certainly not return?
func endsBlocked(p Prog, body []Stmt) bool {
	for _, s := range body {
		switch s.Op {
		case "block", "forever":
			return true
		case "call", "hostcb", "latecb":
			if s.Fn >= 0 && s.Fn < len(p.Fns) && endsBlocked(p, p.Fns[s.Fn].Body) {
				return true
			}
		case "loop", "lit":
			if endsBlocked(p, s.Body) {
				return true
			}
		}
	}
	return false
}

// terminating drops the statements that would keep the calling goroutine from returning.
func terminating(p Prog, body []Stmt) []Stmt {
	var out []Stmt
	for _, s := range body {
		switch s.Op {
		case "block", "forever":
			continue
		case "call", "hostcb", "latecb":
			if s.Fn >= 0 && s.Fn < len(p.Fns) && endsBlocked(p, p.Fns[s.Fn].Body) {
				out = append(out, spawn(s.Fn)) // run it in its own goroutine instead
				continue
			}
		case "loop", "lit":
			s.Body = terminating(p, s.Body)
		}
		out = append(out, s)
	}
	if len(out) == 0 {
		out = []Stmt{st("work")}
	}
	return out
}
