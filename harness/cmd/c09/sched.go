package main

// Lock-step execution of the real interpreter through the step hook.
//
// The hook (interp.VerifSetStepHook) is called by a goroutine after it has passed the run-id guard of
// runCfg and before it executes the operation. Every caller parks there. A coordinator (the goroutine
// that called runOnce) grants one operation at a time, always to the NEWEST parked goroutine, and only
// when every other interpreted goroutine of the run is parked, blocked in a channel operation or gone
// (seen in runtime.Stack). This makes the global operation count k deterministic, so that "cancel at
// operation k" names the same machine state in the calibration run, in the cancel run and in the Lean
// model (Driver/C09.lean uses the same policy).

import (
	"bytes"
	"context"
	"fmt"
	"reflect"
	"regexp"
	"runtime"
	"sort"
	"strconv"
	"strings"
	"sync"
	"time"

	"github.com/traefik/yaegi/interp"
)

type event struct {
	G         int // goroutine (index in creation order; 0 runs Execute)
	Frame     uintptr
	Root      bool // the operation runs on the root frame
	FID       uint64
	RID       uint64
	Ticks     []int  // host ticks issued by the operation
	HostCB    bool   // the operation entered h.Call
	Held      bool   // the operation entered h.Hold: native code that calls the function back late
	Post      bool   // the guard was passed after the cancellation (a fresh operation)
	After     bool   // executed after the cancellation
	Spawn     []int  // goroutines first seen right after this operation
	BlockTick int    // release mode: the operation blocked and was released by the harness; the tick id that announced it
	Site      string // who called runCfg for the frame of this operation: c call, w genFunctionWrapper, l getFunc, e Interpreter.run, g go statement
}

type gstate struct {
	idx      int
	gid      int64
	pending  bool
	post     bool // the pending hook call arrived after the cancellation
	info     interp.VerifStepInfo
	site     string
	lastTick int
	lastRecv chan int // channels registered by the goroutine's latest block statement
	lastSend chan int
	stuck    bool          // release mode: the channel operation it is blocked in cannot be completed by the harness
	held     chan struct{} // parked in h.Hold after the cancellation, until nothing else can move
	grant    chan struct{}
	nOps     int
	lastEv   int
	status   string // last seen: hook | blocked | running | gone
}

type runner struct {
	mu        sync.Mutex
	ip        *interp.Interpreter
	gs        map[int64]*gstate
	order     []*gstate
	old       map[int64]bool
	events    []event
	cancelled bool
	wake      chan struct{}
	chans     []chan int // receive side used by the program: closed when the case is over
	schans    []chan int // send side used by the program: drained when the case is over
	buf       []byte
	newIdx    []int // goroutines registered since the coordinator last looked
	closed    map[chan int]bool
}

var gidRe = regexp.MustCompile(`^goroutine (\d+) \[([^\],]+)`)

func curGID() int64 {
	var b [64]byte
	n := runtime.Stack(b[:], false)
	s := b[:n]
	s = s[len("goroutine "):]
	i := bytes.IndexByte(s, ' ')
	id, _ := strconv.ParseInt(string(s[:i]), 10, 64)
	return id
}

type ginfo struct {
	gid    int64
	status string
	interp bool
}

// dump parses runtime.Stack(all).
func (r *runner) dump() []ginfo {
	for {
		n := runtime.Stack(r.buf, true)
		if n < len(r.buf) {
			var out []ginfo
			for _, blk := range bytes.Split(r.buf[:n], []byte("\n\n")) {
				m := gidRe.FindSubmatch(blk)
				if m == nil {
					continue
				}
				id, _ := strconv.ParseInt(string(m[1]), 10, 64)
				out = append(out, ginfo{gid: id, status: string(m[2]),
					// an interpreted goroutine: it runs runCfg, or it is the goroutine EvalWithContext starts, or it was
					// created by the interpreter (`go runCfg(…)` starts in a compiler-made wrapper)
					interp: bytes.Contains(blk, []byte("interp.runCfg(")) || bytes.Contains(blk, []byte("EvalWithContext.func1")) ||
						bytes.Contains(blk, []byte("created by github.com/traefik/yaegi/interp."))})
			}
			return out
		}
		r.buf = make([]byte, 2*len(r.buf))
	}
}

func (r *runner) register(gid int64) *gstate {
	g := &gstate{idx: len(r.order), gid: gid, grant: make(chan struct{}), lastEv: -1, status: "running"}
	r.gs[gid] = g
	r.order = append(r.order, g)
	r.newIdx = append(r.newIdx, g.idx)
	return g
}

func (r *runner) hook(info interp.VerifStepInfo) {
	if info.Interp != r.ip {
		return
	}
	id := curGID()
	site := runCfgCaller()
	r.mu.Lock()
	g := r.gs[id]
	if g == nil {
		g = r.register(id)
	}
	g.pending, g.info, g.post, g.site = true, info, r.cancelled, site
	r.mu.Unlock()
	select {
	case r.wake <- struct{}{}:
	default:
	}
	<-g.grant
}

// runCfgCaller names the newFrame site of the frame that is executing: the function that called runCfg.
func runCfgCaller() string {
	var pcs [16]uintptr
	n := runtime.Callers(2, pcs[:])
	frames := runtime.CallersFrames(pcs[:n])
	seen := false
	for {
		fr, more := frames.Next()
		if seen {
			switch f := fr.Function; {
			case strings.Contains(f, "interp.genFunctionWrapper"):
				return "w"
			case strings.Contains(f, "interp.getFunc"):
				return "l"
			case strings.Contains(f, "interp.(*Interpreter).run"):
				return "e"
			case strings.Contains(f, "gowrap") || strings.HasPrefix(f, "runtime."):
				return "g"
			case strings.Contains(f, "interp.call"):
				return "c"
			default:
				return "?" + f
			}
		}
		if strings.HasSuffix(fr.Function, "interp.runCfg") {
			seen = true
		}
		if !more {
			return "?"
		}
	}
}

func (r *runner) tick(id int) {
	gid := curGID()
	r.mu.Lock()
	if g := r.gs[gid]; g != nil && g.lastEv >= 0 {
		r.events[g.lastEv].Ticks = append(r.events[g.lastEv].Ticks, id)
		g.lastTick = id
	}
	r.mu.Unlock()
}

func (r *runner) hostcb(f func() int) {
	gid := curGID()
	r.mu.Lock()
	if g := r.gs[gid]; g != nil && g.lastEv >= 0 {
		r.events[g.lastEv].HostCB = true
	}
	r.mu.Unlock()
	f()
}

// hold is h.Hold(f): native code that calls f back. Before the cancellation it calls at once (it is h.Call); an
// operation in flight at the cancellation that enters it is parked until every other goroutine has settled (the
// goroutine of Execute has returned if it can): a timer or a handler that fires late. (An operation whose guard was
// passed after the cancellation — a fresh one, in a goroutine that should not run at all — calls back at once.)
func (r *runner) hold(f func() int) {
	gid := curGID()
	var wait chan struct{}
	r.mu.Lock()
	if g := r.gs[gid]; g != nil && g.lastEv >= 0 {
		r.events[g.lastEv].HostCB, r.events[g.lastEv].Held = true, true
		if r.cancelled && !r.events[g.lastEv].Post {
			wait = make(chan struct{})
			g.held = wait
		}
	}
	r.mu.Unlock()
	if wait != nil {
		select {
		case r.wake <- struct{}{}:
		default:
		}
		<-wait
	}
	f()
}

func (r *runner) reg(c chan int) {
	gid := curGID()
	r.mu.Lock()
	r.chans = append(r.chans, c)
	if g := r.gs[gid]; g != nil {
		g.lastRecv, g.lastSend, g.stuck = c, nil, false
	}
	r.mu.Unlock()
}

func (r *runner) regS(c chan int) {
	gid := curGID()
	r.mu.Lock()
	r.schans = append(r.schans, c)
	if g := r.gs[gid]; g != nil {
		g.lastSend = c
		if r.closed[g.lastRecv] {
			g.lastRecv = nil
		}
	}
	r.mu.Unlock()
}

// regN announces a blocking operation on a channel the harness does not know (it can not be completed in the release
// mode of the calibration: what follows it stays unobserved).
func (r *runner) regN() {
	gid := curGID()
	r.mu.Lock()
	if g := r.gs[gid]; g != nil {
		g.lastRecv, g.lastSend, g.stuck = nil, nil, false
	}
	r.mu.Unlock()
}

// closeOnce closes a receive-side channel (r.mu held).
func (r *runner) closeOnce(c chan int) {
	if c != nil && !r.closed[c] {
		r.closed[c] = true
		close(c)
	}
}

// release completes the channel operation a goroutine is blocked in (release mode of the calibration): the
// receive-side channel of its latest block statement is closed, a value is taken from the send-side one.
func (r *runner) release(g *gstate) {
	r.mu.Lock()
	defer r.mu.Unlock()
	if g.lastEv >= 0 {
		r.events[g.lastEv].BlockTick = g.lastTick
	}
	if (g.lastRecv == nil || r.closed[g.lastRecv]) && g.lastSend == nil {
		g.stuck = true
	}
	r.closeOnce(g.lastRecv) // no effect when it is the (closed) channel of an earlier statement
	if g.lastSend != nil {
		select {
		case <-g.lastSend:
		default:
		}
	}
}

func isBlockedStatus(s string) bool {
	return strings.HasPrefix(s, "chan receive") || strings.HasPrefix(s, "chan send") || strings.HasPrefix(s, "select")
}

// snapshot classifies the interpreted goroutines of this run. It returns true when one of them is
// still running (neither parked in the hook, nor blocked in a channel operation, nor gone).
func (r *runner) snapshot() (running bool) {
	r.mu.Lock()
	defer r.mu.Unlock()
	seen := map[int64]bool{}
	var unknown []int64
	for _, gi := range r.dump() {
		if r.old[gi.gid] {
			continue
		}
		g := r.gs[gi.gid]
		if g == nil {
			if !gi.interp {
				continue
			}
			unknown = append(unknown, gi.gid)
			seen[gi.gid] = true
			continue
		}
		seen[gi.gid] = true
		switch {
		case g.pending:
			g.status = "hook"
		case g.held != nil && isBlockedStatus(gi.status):
			g.status = "held"
		case isBlockedStatus(gi.status):
			g.status = "blocked"
		default:
			g.status = "running"
			running = true
		}
	}
	sort.Slice(unknown, func(i, j int) bool { return unknown[i] < unknown[j] })
	for _, id := range unknown {
		r.register(id)
		running = true // it has not reached its first hook call (or its exit) yet
	}
	for _, g := range r.order {
		if !seen[g.gid] {
			g.status = "gone"
		}
	}
	return running
}

// runCfg is what one run does.
type runCfg struct {
	PauseAt int  // cancel when operation PauseAt is about to execute; 0: never (calibration: run to the end)
	Quiet   bool // cancel when nothing moves any more
	MaxOps  int  // calibration: cancel when this many operations have run
	Budget  int  // fresh operations granted after the cancellation
	Release bool // calibration only: a goroutine that blocks in a channel operation is released at once (the
	// operation completes), so that what follows a blocking operation is measured too
}

type runResult struct {
	Events   []event
	NPre     int    // operations executed before the cancellation
	End      string // returned | cancelled | timeout | noreturn
	Ret      string // ctx | val | err:<…> | none
	Latency  time.Duration
	AtPause  []string // per goroutine, when the cancellation was issued (or at the end): hook | blocked | gone | running
	Final    []string // per goroutine: E | S | R
	NumGDiff int      // runtime.NumGoroutine() after settling minus before the run
	Err      string
}

type evalRet struct {
	err error
	at  time.Time
}

// runOnce evaluates the program on a fresh interpreter under the lock-step policy.
func runOnce(rd rendered, cfg runCfg) (res runResult) {
	r := &runner{gs: map[int64]*gstate{}, old: map[int64]bool{}, wake: make(chan struct{}, 1),
		buf: make([]byte, 1<<18), closed: map[chan int]bool{}}
	ip := interp.New(interp.Options{})
	r.ip = ip
	if err := ip.Use(interp.Exports{"h/h": {
		"T":    reflect.ValueOf(r.tick),
		"Call": reflect.ValueOf(r.hostcb),
		"Reg":  reflect.ValueOf(r.reg),
		"RegS": reflect.ValueOf(r.regS),
		"RegN": reflect.ValueOf(r.regN),
		"Hold": reflect.ValueOf(r.hold),
	}}); err != nil {
		res.Err = "use: " + err.Error()
		return
	}
	if rd.Prelude != "" {
		if _, err := ip.Eval(rd.Prelude); err != nil {
			res.Err = "prelude: " + err.Error()
			return
		}
	}
	if rd.Earlier != "" {
		// an earlier evaluation with a context of its own, which completes and is never cancelled
		if _, err := ip.EvalWithContext(context.Background(), rd.Earlier); err != nil {
			res.Err = "earlier evaluation: " + err.Error()
			return
		}
	}
	// (the goroutine the earlier EvalWithContext started is on its way out: let the count settle)
	before := runtime.NumGoroutine()
	for same := 0; same < 5; {
		time.Sleep(50 * time.Microsecond)
		if n := runtime.NumGoroutine(); n == before {
			same++
		} else {
			before, same = n, 0
		}
	}
	for _, gi := range r.dump() {
		r.old[gi.gid] = true
	}
	interp.VerifSetStepHook(r.hook)
	defer func() {
		// the hook is removed after every case; goroutines still parked in it stay parked for ever
		interp.VerifSetStepHook(nil)
		r.mu.Lock()
		for _, c := range r.chans {
			r.closeOnce(c)
		}
		for _, c := range r.schans {
			select {
			case <-c:
			default:
			}
		}
		r.mu.Unlock()
		// the goroutines released by that (they were blocked for good) now find their frame stale and exit;
		// wait for them so that the next case starts from a settled goroutine count
		parked := 0
		for _, s := range res.Final {
			if s == "R" {
				parked++
			}
		}
		for i := 0; i < 300 && runtime.NumGoroutine()-before > parked; i++ {
			time.Sleep(100 * time.Microsecond)
		}
	}()
	ctx, cancel := context.WithCancel(context.Background())
	defer cancel()
	retCh := make(chan evalRet, 1)
	go func() {
		defer func() {
			if p := recover(); p != nil {
				retCh <- evalRet{fmt.Errorf("crash: %v", p), time.Now()}
			}
		}()
		_, err := ip.EvalWithContext(ctx, rd.Src)
		retCh <- evalRet{err, time.Now()}
	}()

	deadline := time.Now().Add(20 * time.Second)
	granted, freshLeft := 0, cfg.Budget
	post := false
	var lastSpawnEv = -1
	res.End, res.Ret = "timeout", "none"
	returned := false
	doCancel := func(end string) {
		r.mu.Lock()
		r.cancelled = true
		for _, g := range r.order {
			res.AtPause = append(res.AtPause, g.status)
		}
		r.mu.Unlock()
		post = true
		res.NPre = granted
		if returned {
			return
		}
		t0 := time.Now()
		cancel()
		select {
		case er := <-retCh:
			returned = true
			res.Latency = er.at.Sub(t0)
			res.Ret = retString(er.err)
			res.End = end
		case <-time.After(5 * time.Second):
			res.End = "noreturn"
		}
	}
	for time.Now().Before(deadline) {
		if !returned {
			select {
			case er := <-retCh:
				returned = true
				if !post {
					res.End, res.Ret = "returned", retString(er.err)
				}
			default:
			}
		}
		running := r.snapshot()
		r.mu.Lock()
		if len(r.newIdx) > 0 && lastSpawnEv >= 0 {
			r.events[lastSpawnEv].Spawn = append(r.events[lastSpawnEv].Spawn, r.newIdx...)
		}
		r.newIdx = nil
		r.mu.Unlock()
		r.mu.Lock()
		started := len(r.order) > 0
		r.mu.Unlock()
		if running || (!started && !returned) {
			select {
			case <-r.wake:
			case <-time.After(100 * time.Microsecond):
			}
			continue
		}
		if cfg.Release && !post {
			var blk *gstate
			r.mu.Lock()
			for _, g := range r.order {
				if g.status == "blocked" && !g.pending && !g.stuck {
					blk = g
				}
			}
			r.mu.Unlock()
			if blk != nil {
				r.release(blk)
				time.Sleep(20 * time.Microsecond)
				continue
			}
		}
		// everything is parked, blocked or gone: choose the newest goroutine allowed to move
		r.mu.Lock()
		var pick *gstate
		for _, g := range r.order {
			if g.pending && g.status != "gone" && (!g.post || freshLeft > 0) {
				pick = g
			}
		}
		r.mu.Unlock()
		if pick == nil {
			if post {
				// late native callbacks: the newest one goes on now that nothing else can move
				var late *gstate
				r.mu.Lock()
				for _, g := range r.order {
					if g.held != nil && g.status == "held" {
						late = g
					}
				}
				if late != nil {
					close(late.held)
					late.held = nil
					late.status = "running"
				}
				r.mu.Unlock()
				if late != nil {
					time.Sleep(20 * time.Microsecond)
					continue
				}
				break // settled after the cancellation
			}
			if returned {
				break // the program ended before the cancellation point
			}
			// nothing moves and the call has not returned: every goroutine is blocked
			if !returned {
				select {
				case er := <-retCh: // the Eval goroutine has just finished
					returned = true
					res.End, res.Ret = "returned", retString(er.err)
					continue
				case <-time.After(300 * time.Microsecond):
				}
				if again := r.snapshot(); again {
					continue
				}
			}
			if !cfg.Quiet && cfg.PauseAt != 0 {
				doCancel("short")
			} else {
				doCancel("quiet")
			}
			continue
		}
		if !post && ((cfg.PauseAt > 0 && granted+1 == cfg.PauseAt) || (cfg.MaxOps > 0 && granted >= cfg.MaxOps)) {
			if cfg.MaxOps > 0 && granted >= cfg.MaxOps {
				doCancel("truncated")
			} else {
				doCancel("cancelled")
			}
			continue
		}
		// grant one operation
		r.mu.Lock()
		pick.pending = false
		pick.nOps++
		pick.lastEv = len(r.events)
		lastSpawnEv = pick.lastEv
		r.events = append(r.events, event{G: pick.idx, Frame: pick.info.Frame, Root: pick.info.Frame == pick.info.Root,
			FID: pick.info.FrameID, RID: pick.info.RunID, Post: pick.post, After: post, Site: pick.site})
		if pick.post {
			freshLeft--
		}
		r.mu.Unlock()
		granted++
		pick.grant <- struct{}{}
	}
	if !post {
		res.NPre = granted
	}
	// final statuses
	r.snapshot()
	r.mu.Lock()
	for _, g := range r.order {
		s := "E"
		switch {
		case g.status == "gone":
		case g.pending:
			s = "R"
		case g.status == "blocked" || g.status == "held":
			s = "S"
		default:
			s = "R"
		}
		res.Final = append(res.Final, s)
		if !post {
			res.AtPause = append(res.AtPause, g.status)
		}
	}
	res.Events = append([]event(nil), r.events...)
	r.mu.Unlock()
	// settle, then the NumGoroutine delta (cross-check of the per-goroutine statuses): the goroutines of this case
	// that are still alive are exactly the ones reported as S or R
	alive := 0
	for _, s := range res.Final {
		if s != "E" {
			alive++
		}
	}
	for i := 0; i < 200; i++ {
		res.NumGDiff = runtime.NumGoroutine() - before
		if res.NumGDiff == alive {
			break
		}
		time.Sleep(100 * time.Microsecond)
	}
	return res
}

func retString(err error) string {
	switch {
	case err == nil:
		return "val"
	case err == context.Canceled:
		return "ctx"
	}
	return "err:" + strings.ReplaceAll(firstLine(err.Error()), " ", "_")
}

func firstLine(s string) string {
	if i := strings.IndexByte(s, '\n'); i >= 0 {
		return s[:i]
	}
	return s
}
