// C09 correspondence harness: cancellation stops all interpreted activity.
//
// For every program of a seeded family and every cancellation point k (counted in interpreted operations
// over all goroutines, under a deterministic lock-step policy enforced through the step hook):
//
//	impl  = the real interpreter: pause when operation k has passed its guard, cancel the context, wait for
//	        EvalWithContext to return, release, and count per goroutine the in-flight and the fresh operations,
//	        the host ticks after the cancellation, and whether the goroutine exited (E), stayed blocked (S)
//	        or still wants to run (R);
//	model = the Lean run-id machine (Model/RunId.lean) with the facts extracted from the source (y=), run on
//	        the operation tree measured in an uncancelled calibration run of the same program;
//	spec  = the same machine with the ideal facts (g=): what the property demands;
//	ref   = what the property demands, computed here from the calibration trace alone: every goroutine
//	        executes at most its in-flight operation and exits, the call returns the context's error.
//
// Checked on every case: impl = y (correspondence), ref = g (spec validation), impl = ref (the property).
// One race cannot be decided through the step hook: a goroutine started by a `go` statement of a function value
// that the goroutine of Execute has in flight at the cancellation makes its frame before or after Execute returns
// (which refreshes the root id the frame takes). The Lean side computes both (y, y2) and says when the race exists
// (racy); impl = y2 is accepted on those inputs only (since dc95f3e both orders give the same outcome: the frame gets
// the dead id or, for a function value of an earlier evaluation, the new one, whoever comes first). The class label of
// a case (finding F09-5) is the negation of Props.C09.Dom at the moment of the cancellation, computed by the Lean
// side from the input (dom).
package main

import (
	"bufio"
	"encoding/json"
	"flag"
	"fmt"
	"os"
	"os/exec"
	"sort"
	"strings"
	"sync"
	"time"

	"verif/harness/common"
)

const latencyBound = 2 * time.Second

// ---- from the calibration trace to the model's operation tree -------------------------------------

type node struct {
	kind   string // s t c g b
	site   string
	body   []*node
	bk     string
	canc   bool
	hostcb bool
	held   bool
}

type entryT struct {
	root bool
	ops  []*node
}

type calib struct {
	Events  []event // operations of the uncancelled program (fresh operations after the calibration's own cancel excluded)
	N       int     // operations executed before the calibration ended
	End     string  // returned | quiet | truncated
	AtPause []string
	KMax    int
	Line    string // ENTRY… part of the protocol line
	Entry   []int  // Entry[i]: index of the run-list entry that event i of goroutine 0 belongs to (-1 for other goroutines)
	NEntry  int
	Err     string
}

func sexpOps(ns []*node) string {
	var parts []string
	for _, n := range ns {
		switch n.kind {
		case "c":
			parts = append(parts, "(c "+n.site+" "+sexpOps(n.body)+")")
		case "g":
			parts = append(parts, "(g "+n.site+" "+sexpOps(n.body)+")")
		case "b":
			parts = append(parts, fmt.Sprintf("(b %s %s)", n.bk, common.B(n.canc)))
		default:
			parts = append(parts, n.kind)
		}
	}
	return strings.Join(parts, " ")
}

// buildCalib turns the events of a calibration run into entries of operation trees.
func buildCalib(rd rendered, res runResult, atPause []string, release bool) (c calib) {
	c.End, c.N = res.End, res.NPre
	for _, e := range res.Events {
		if !e.Post {
			c.Events = append(c.Events, e)
		}
	}
	byG := map[int][]int{}
	for i, e := range c.Events {
		byG[e.G] = append(byG[e.G], i)
	}
	c.Entry = make([]int, len(c.Events))
	for i := range c.Entry {
		c.Entry[i] = -1
	}
	// is the frame that starts at position p of goroutine g's events the frame of a closure made by an earlier
	// evaluation? (the first tick a function body issues names the function)
	earlierAt := func(evs []int, p int) bool {
		fr := c.Events[evs[p]].Frame
		for q := p; q < len(evs) && c.Events[evs[q]].Frame == fr; q++ {
			if t := c.Events[evs[q]].Ticks; len(t) > 0 {
				return rd.Ticks[t[0]].Earlier
			}
		}
		return false
	}
	// c call, w wrapper, l closure; + "e": the function value was made by an earlier, completed evaluation
	siteOf := func(evs []int, p int) string {
		st := c.Events[evs[p]].Site
		if (st == "l" || st == "w") && earlierAt(evs, p) {
			return st + "e"
		}
		return st
	}
	var entries []entryT
	var build func(g int) []*node
	build = func(g int) []*node {
		evs := byG[g]
		type level struct {
			frame uintptr
			list  *[]*node
		}
		var stack []level
		var base []*node
		var lastTick tickRole
		var last *node
		for pi, ei := range evs {
			e := c.Events[ei]
			pos := -1
			for j := len(stack) - 1; j >= 0; j-- {
				if stack[j].frame == e.Frame {
					pos = j
					break
				}
			}
			if pos >= 0 {
				stack = stack[:pos+1]
			} else {
				// a frame not seen on this goroutine's stack: who called runCfg for it tells what it is
				switch {
				case g == 0 && (len(stack) == 0 || e.Site == "e"):
					entries = append(entries, entryT{root: e.Root})
					stack = []level{{e.Frame, &entries[len(entries)-1].ops}}
				case len(stack) == 0:
					stack = []level{{e.Frame, &base}}
				default:
					if last == nil || (e.Site != "c" && e.Site != "w" && e.Site != "l") {
						c.Err = "calibration: a frame appears without a calling operation (runCfg called by " + e.Site + ")"
						return nil
					}
					last.kind, last.site = "c", siteOf(evs, pi)
					if last.held && last.site != "c" {
						last.site += "h" // native code that calls back late
					}
					stack = append(stack, level{e.Frame, &last.body})
				}
			}
			if g == 0 {
				c.Entry[ei] = len(entries) - 1
			}
			n := &node{kind: "s", hostcb: e.HostCB, held: e.Held}
			if len(e.Ticks) > 0 {
				n.kind = "t"
				lastTick = rd.Ticks[e.Ticks[len(e.Ticks)-1]]
			}
			if e.BlockTick > 0 {
				// the operation blocked (and was released by the calibration): a blocking operation of the kind its
				// block statement announced; what follows in this frame is what runs if it ever completes
				role := rd.Ticks[e.BlockTick]
				if role.Role != "block" {
					c.Err = fmt.Sprintf("calibration: goroutine %d blocked but no block statement was announced", g)
					return nil
				}
				n.kind, n.bk, n.canc = "b", role.Kind, !role.Plain
			}
			for _, sg := range e.Spawn {
				if len(byG[sg]) > 0 {
					// who called runCfg in the new goroutine: the go statement itself (c), a wrapper (w), a closure (l)
					n.kind, n.site = "g", "c"
					if st := siteOf(byG[sg], 0); strings.HasPrefix(st, "w") || strings.HasPrefix(st, "l") {
						n.site = st
					}
					n.body = build(sg)
				}
			}
			top := stack[len(stack)-1].list
			*top = append(*top, n)
			// entries is appended to while pointers into it are held: re-anchor the bottom level
			last = n
			if g == 0 && len(stack) > 0 {
				stack[0].list = &entries[len(entries)-1].ops
			}
		}
		_ = lastTick
		return base
	}
	build(0)
	if c.Err != "" {
		return c
	}
	var parts []string
	for _, en := range entries {
		k := "f"
		if en.root {
			k = "r"
		}
		parts = append(parts, strings.TrimRight("("+k+" "+sexpOps(en.ops), " ")+")")
	}
	c.Line, c.NEntry = strings.Join(parts, " "), len(entries)
	return c
}

// entryAtPause: the entry of the run list the Execute goroutine is in when operation k is about to execute.
func (c calib) entryAtPause(k int) int {
	e := 0
	found := false
	for i := k - 1; i < len(c.Events); i++ { // its pending operation
		if i >= 0 && c.Events[i].G == 0 {
			e, found = c.Entry[i], true
			break
		}
	}
	if !found {
		for i := len(c.Events) - 1; i >= 0; i-- {
			if c.Events[i].G == 0 {
				e = c.Entry[i]
				break
			}
		}
	}
	return e
}

// refOutcome: what the property demands for a cancellation at operation k (k = 0: at the quiet point).
func (c calib) refOutcome(k int) string {
	n := k - 1
	if k == 0 {
		n = c.N
	}
	seen := map[int]bool{}
	for i := 0; i < n && i < len(c.Events); i++ {
		seen[c.Events[i].G] = true
	}
	if k > 0 && k-1 < len(c.Events) {
		seen[c.Events[k-1].G] = true
	}
	var gs []int
	for g := range seen {
		gs = append(gs, g)
	}
	sort.Ints(gs)
	var per []string
	for _, g := range gs {
		s := "i0f0t0E"
		if k > 0 {
			for i := n; i < len(c.Events); i++ {
				if c.Events[i].G == g {
					t := 0
					if len(c.Events[i].Ticks) > 0 {
						t = 1
					}
					s = fmt.Sprintf("i1f0t%dE", t)
					break
				}
			}
		}
		per = append(per, s)
	}
	return fmt.Sprintf("n%d;ctx;%s", n, strings.Join(per, ","))
}

// implOutcome renders what the real run did.
func implOutcome(res runResult) string {
	if res.Err != "" {
		return "error:" + strings.ReplaceAll(res.Err, " ", "_")
	}
	switch res.End {
	case "timeout", "noreturn", "short", "returned", "truncated":
		return res.End
	}
	type acc struct{ ops, infl, fresh, ticks int }
	per := map[int]*acc{}
	var gs []int
	for _, e := range res.Events {
		a := per[e.G]
		if a == nil {
			a = &acc{}
			per[e.G] = a
			gs = append(gs, e.G)
		}
		a.ops++
		if e.After {
			if e.Post {
				a.fresh++
			} else {
				a.infl++
			}
			a.ticks += len(e.Ticks)
		}
	}
	sort.Ints(gs)
	var parts []string
	for _, g := range gs {
		a := per[g]
		st := "?"
		if g < len(res.Final) {
			st = res.Final[g]
		}
		parts = append(parts, fmt.Sprintf("i%df%dt%d%s", a.infl, a.fresh, a.ticks, st))
	}
	out := fmt.Sprintf("n%d;%s;%s", res.NPre, res.Ret, strings.Join(parts, ","))
	if res.Latency > latencyBound {
		out += ";slow"
	}
	return out
}

// ---- one program: calibration and every cancellation point ---------------------------------------

type caseOut struct {
	K       int      `json:"k"` // 0 = the quiet point
	Impl    string   `json:"impl"`
	Ref     string   `json:"ref"`
	Shapes  []string `json:"shapes,omitempty"`
	LatUS   int64    `json:"lat_us"`
	NumGOK  bool     `json:"numg_ok"`
	NumG    int      `json:"numg"`
	EntryAt int      `json:"entry"`
}

type progOut struct {
	Prog    Prog      `json:"prog"`
	Line    string    `json:"line"`
	N       int       `json:"n"`
	End     string    `json:"end"`
	NEntry  int       `json:"nentry"`
	Cases   []caseOut `json:"cases"`
	Err     string    `json:"err,omitempty"`
	Source  string    `json:"source,omitempty"`
	Crashed bool      `json:"crashed,omitempty"`
}

type limits struct {
	KCap     int    `json:"kcap"`    // largest cancellation point tried per program
	Budget   int    `json:"budget"`  // fresh operations granted after the cancellation
	OnlyK    int    `json:"only_k"`  // replay: only this point (-1: all, 0: quiet)
	FromK    int    `json:"from_k"`  // continue after a worker died: first point to run
	CrashK   int    `json:"crash_k"` // the point on which the previous worker died (not run again, reported with CrashMsg)
	CrashMsg string `json:"crash_msg"`
}

// shapesOf: the shapes of the repaired findings a case has (distribution buckets; no longer classes)
func shapesOf(p Prog, c calib, k int) []string {
	var out []string
	if (k > 0 && c.entryAtPause(k) < c.NEntry-1) || (k == 0 && c.entryAtPause(len(c.Events)+1) < c.NEntry-1) {
		out = append(out, "cancel-in-nonlast-entry")
	}
	if hasPlainChanOp(p) {
		out = append(out, "plain-eval-chanop")
	}
	if hasEarlierChanOp(p) {
		out = append(out, "earlier-eval-funcvalue-chanop")
	}
	if reexecGolit(p) {
		out = append(out, "golit-reexecuted")
	}
	return out
}

func sameBefore(a, b []event, n int) bool {
	if len(a) < n || len(b) < n {
		return false
	}
	for i := 0; i < n; i++ {
		if a[i].G != b[i].G || a[i].Root != b[i].Root || fmt.Sprint(a[i].Ticks) != fmt.Sprint(b[i].Ticks) {
			return false
		}
	}
	return true
}

func runProgram(p Prog, lim limits, emit func(caseOut)) (out progOut) {
	out.Prog = p
	rd := render(p)
	out.Source = rd.Prelude + "\n// ----\n" + rd.Earlier + "\n// ----\n" + rd.Src
	// two uncancelled runs: the first as the program runs (blocked goroutines stay blocked) fixes the numbering
	// of the cancellation points; the second releases every blocking operation so that the operation tree also
	// contains what follows a blocking operation and what the callers of a blocked function do afterwards
	cal := runOnce(rd, runCfg{MaxOps: lim.KCap + 60, Budget: lim.Budget})
	if cal.Err != "" {
		out.Err = "calibration: " + cal.Err
		return
	}
	if cal.End == "timeout" || cal.End == "noreturn" || cal.End == "cancelled" || cal.End == "short" {
		out.Err = "calibration: " + cal.End
		return
	}
	if cal.End == "returned" && cal.Ret != "val" {
		out.Err = "calibration: the program does not run: " + cal.Ret + "\n" + rd.Src
		return
	}
	c := buildCalib(rd, cal, cal.AtPause, false)
	if c.Err != "" {
		out.Err = c.Err
		return
	}
	calR := runOnce(rd, runCfg{MaxOps: 4 * (lim.KCap + 60), Budget: lim.Budget, Release: true})
	if calR.Err != "" || calR.End == "timeout" || calR.End == "noreturn" || calR.End == "cancelled" || calR.End == "short" {
		out.Err = "calibration (release mode): " + calR.End + " " + calR.Err
		return
	}
	cR := buildCalib(rd, calR, calR.AtPause, true)
	if cR.Err != "" {
		out.Err = cR.Err
		return
	}
	if cR.NEntry < c.NEntry {
		out.Err = fmt.Sprintf("calibration: %d entries as the program runs, %d with blocking operations released", c.NEntry, cR.NEntry)
		return
	}
	// (an entry that blocks for ever hides the later entries of the run list from the first run)
	c.NEntry = cR.NEntry
	out.Line, out.N, out.End, out.NEntry = cR.Line, c.N, c.End, c.NEntry
	// cancellation points
	kmax := c.N
	switch c.End {
	case "returned":
		kmax = 0
		for i, e := range c.Events {
			if e.G == 0 && i < c.N {
				kmax = i + 1
			}
		}
	case "truncated":
		kmax = c.N - 2
	}
	if kmax > lim.KCap {
		kmax = lim.KCap
	}
	var ks []int
	for k := 1; k <= kmax; k++ {
		ks = append(ks, k)
	}
	if c.End == "quiet" {
		ks = append(ks, 0)
	}
	if lim.OnlyK >= 0 {
		ks = []int{lim.OnlyK}
	}
	bad := 0
	for _, k := range ks {
		if lim.FromK > 0 && (k < lim.FromK && k != 0) {
			continue
		}
		if lim.CrashMsg != "" && k == lim.CrashK {
			co := caseOut{K: k, Impl: lim.CrashMsg, Ref: c.refOutcome(k), Shapes: shapesOf(p, c, k), EntryAt: c.entryAtPause(k)}
			out.Cases = append(out.Cases, co)
			emit(co)
			continue
		}
		if bad >= 3 {
			// the call does not return after a cancellation (three points in a row): every further point would
			// wait for the time-out as well
			co := caseOut{K: k, Impl: "noreturn", Ref: c.refOutcome(k), Shapes: shapesOf(p, c, k), EntryAt: c.entryAtPause(k)}
			out.Cases = append(out.Cases, co)
			emit(co)
			continue
		}
		cfg := runCfg{PauseAt: k, Budget: lim.Budget}
		if k == 0 {
			cfg.Quiet = true
		}
		res := runOnce(rd, cfg)
		co := caseOut{K: k, Impl: implOutcome(res), Ref: c.refOutcome(k), Shapes: shapesOf(p, c, k), LatUS: res.Latency.Microseconds(), EntryAt: c.entryAtPause(k)}
		if res.Err == "" && !sameBefore(res.Events, c.Events, res.NPre) {
			co.Impl = "error:the_run_before_the_cancellation_differs_from_the_calibration_run"
		}
		alive := 0
		for _, s := range res.Final {
			if s != "E" {
				alive++
			}
		}
		co.NumGOK, co.NumG = res.NumGDiff == alive, res.NumGDiff
		if res.End == "noreturn" || res.End == "timeout" {
			bad++
		} else {
			bad = 0
		}
		out.Cases = append(out.Cases, co)
		emit(co)
	}
	return out
}

// ---- worker processes ---------------------------------------------------------------------------------

type job struct {
	Prog Prog   `json:"prog"`
	Lim  limits `json:"lim"`
}

func workerMain() {
	// a worker does not outlive the harness that started it
	parent := os.Getppid()
	go func() {
		for {
			time.Sleep(time.Second)
			if os.Getppid() != parent {
				os.Exit(3)
			}
		}
	}()
	in := bufio.NewReaderSize(os.Stdin, 1<<20)
	out := bufio.NewWriter(os.Stdout)
	line, _ := in.ReadBytes('\n')
	var j job
	if e := json.Unmarshal(line, &j); e != nil {
		fmt.Fprintln(os.Stderr, "worker: bad job:", e)
		os.Exit(2)
	}
	// one line per finished case (so that the harness knows which case killed the worker), then the summary
	po := runProgram(j.Prog, j.Lim, func(c caseOut) {
		b, _ := json.Marshal(c)
		out.WriteString("case ")
		out.Write(b)
		out.WriteByte('\n')
		out.Flush()
	})
	po.Cases = nil
	b, _ := json.Marshal(po)
	out.WriteString("prog ")
	out.Write(b)
	out.WriteByte('\n')
	out.Flush()
}

// runJobs distributes the programs over worker subprocesses (a crash or a leak stays in the worker).
func runJobs(jobs []job, workers int) []progOut {
	outs := make([]progOut, len(jobs))
	var mu sync.Mutex
	next := 0
	var wg sync.WaitGroup
	for w := 0; w < workers; w++ {
		wg.Add(1)
		go func() {
			defer wg.Done()
			for {
				mu.Lock()
				i := next
				next++
				mu.Unlock()
				if i >= len(jobs) {
					return
				}
				outs[i] = oneJob(jobs[i])
			}
		}()
	}
	wg.Wait()
	return outs
}

// oneJob runs one program in worker processes. A worker that dies (a Go panic escaping the interpreter in a
// goroutine cannot be recovered) has died on the case after the last one it reported: that case gets the outcome
// crash:<panic line>, and a new worker continues after it.
func oneJob(j job) progOut {
	var all []caseOut
	var po progOut
	for attempt := 0; attempt < 8; attempt++ {
		cmd := exec.Command(os.Args[0], "-worker")
		b, _ := json.Marshal(j)
		cmd.Stdin = strings.NewReader(string(b) + "\n")
		var errb strings.Builder
		cmd.Stderr = &errb
		done := make(chan struct{})
		var outb []byte
		var err error
		go func() { outb, err = cmd.Output(); close(done) }()
		select {
		case <-done:
		case <-time.After(10 * time.Minute):
			if cmd.Process != nil {
				cmd.Process.Kill()
			}
			<-done
			return progOut{Prog: j.Prog, Err: "worker timed out"}
		}
		finished := false
		var last *caseOut
		for _, ln := range strings.Split(string(outb), "\n") {
			switch {
			case strings.HasPrefix(ln, "case "):
				var c caseOut
				if json.Unmarshal([]byte(ln[5:]), &c) == nil {
					all = append(all, c)
					last = &all[len(all)-1]
				}
			case strings.HasPrefix(ln, "prog "):
				if json.Unmarshal([]byte(ln[5:]), &po) == nil {
					finished = true
				}
			}
		}
		if finished {
			po.Cases = all
			return po
		}
		// the worker died
		msg := "exit: " + fmt.Sprint(err)
		for _, ln := range strings.Split(errb.String(), "\n") {
			if strings.HasPrefix(ln, "panic: ") || strings.HasPrefix(ln, "fatal error: ") {
				msg = ln
				break
			}
		}
		// which case: the one after the last reported (the worker walks the points in the order 1..kmax, quiet)
		next := 1
		if last != nil {
			next = last.K + 1
			if last.K == 0 {
				return progOut{Prog: j.Prog, Err: "worker died after the last case: " + msg, Cases: all}
			}
		} else if j.Lim.FromK > 0 {
			next = j.Lim.FromK
		}
		if j.Lim.OnlyK >= 0 {
			next = j.Lim.OnlyK
		}
		if j.Lim.CrashK == next && j.Lim.CrashMsg != "" {
			return progOut{Prog: j.Prog, Err: "worker died while reporting a crash: " + msg, Cases: all}
		}
		// the next worker reports that point (with the reference outcome and the class) and goes on after it
		j.Lim.FromK, j.Lim.CrashK, j.Lim.CrashMsg = next, next, "crash:"+strings.ReplaceAll(msg, " ", "_")
	}
	return progOut{Prog: j.Prog, Err: "the worker died eight times on this program", Cases: all}
}

// ---- main ---------------------------------------------------------------------------------------------

type replayT struct {
	Prog Prog `json:"prog"`
	K    int  `json:"k"`
}

func main() {
	worker := flag.Bool("worker", false, "internal: run programs read from stdin")
	if len(os.Args) > 1 && os.Args[1] == "-worker" {
		workerMain()
		return
	}
	_ = worker
	run := common.NewRun("C09")
	run.Res.Rule = "cases = (program, cancellation point k): every program of a fixed family (busy loops, nested calls, methods, recursion, closures, host callbacks, goroutines blocked on recv/recv2/send/range/select, goroutine trees, run lists with global initialisers and init functions, functions compiled by a plain Eval, function values — closures in variables, struct fields and maps, method values — stored by an earlier evaluation, `go func(){}()` re-executed in loops, receives that are operands of return statements) plus seeded random programs, and for each every k = 1..min(N, cap) counted in interpreted operations under the newest-first lock-step policy, plus the quiet point when everything is blocked; non-trivial = at least one operation ran before the cancellation and at least one goroutine had an operation in flight or was blocked; distinct = distinct (operation tree, k)"
	defer run.Finish()
	drv, err := common.StartDriver("C09")
	if err != nil {
		run.Errorf("driver: %v", err)
		return
	}
	defer drv.Close()
	findings, err := common.LoadFindings("C09")
	if err != nil {
		run.Errorf("known findings: %v", err)
	}
	lim := limits{KCap: 60, Budget: 150, OnlyK: -1}
	nRandom, nRandomF := 6, 4
	if run.Thorough() {
		lim.KCap = 150
		nRandom, nRandomF = 40, 20
	}
	workers := 6

	// the Lean side of one case: y (machine, extracted facts), y2 (the same with the one undecidable race taken the
	// other way), g (the specification), dom (Props.C09.Dom at the cancellation), racy (is that race possible)
	type leanAns struct {
		y, y2, g  string
		dom, racy bool
	}
	ask := func(line string, k int, budget int) (a leanAns) {
		ks := fmt.Sprint(k)
		if k == 0 {
			ks = "quiet"
		}
		ans, err := drv.Ask(fmt.Sprintf("C09 run %d %s %s", budget, ks, line))
		if err != nil {
			run.Errorf("driver: %v", err)
			return
		}
		f := common.Fields(ans)
		if f["y"] == "" || f["g"] == "" || f["y2"] == "" || f["dom"] == "" {
			run.Errorf("driver answered %q for k=%s %s", ans, ks, line)
		}
		return leanAns{f["y"], f["y2"], f["g"], f["dom"] == "1", f["racy"] == "1"}
	}
	// does the real outcome agree with the model? (y2 only where the race exists)
	agrees := func(impl string, a leanAns) bool { return impl == a.y || (a.racy && impl == a.y2) }
	// the class label of a case: F09-5 = the negation of the theorem's domain, computed by the Lean side from the input
	// (a call or a go statement of a function value of an EARLIER evaluation is in flight at the cancellation)
	classOf := func(a leanAns) string {
		if !a.dom {
			return "earlier-funcvalue-in-flight"
		}
		return ""
	}

	var jobs []job
	if run.Replay != "" {
		b, err := os.ReadFile(run.Replay)
		if err != nil {
			run.Errorf("replay: %v", err)
			return
		}
		var rp struct {
			Input replayT `json:"input"`
		}
		if err := json.Unmarshal(b, &rp); err != nil {
			run.Errorf("replay: %v", err)
			return
		}
		l := lim
		l.OnlyK = rp.Input.K
		if rp.Input.K > l.KCap {
			l.KCap = rp.Input.K
		}
		jobs = []job{{rp.Input.Prog, l}}
	} else {
		// listed findings are replayed first
		for _, f := range findings {
			var rp replayT
			if err := json.Unmarshal(f.Replay, &rp); err != nil {
				run.Errorf("finding %s: bad replay: %v", f.ID, err)
				continue
			}
			l := lim
			l.OnlyK = rp.K
			if rp.K > l.KCap {
				l.KCap = rp.K
			}
			po := oneJob(job{rp.Prog, l})
			still, detail := false, po.Err
			if po.Err == "" && len(po.Cases) == 1 {
				c := po.Cases[0]
				a := ask(po.Line, c.K, lim.Budget)
				still = c.Impl != c.Ref
				detail = fmt.Sprintf("k=%d impl=%s ref=%s", c.K, c.Impl, c.Ref)
				// a repaired finding whose replay lies in the class of another, listed, finding: it has not come back
				// if what differs is exactly what the model of that class predicts
				if still && f.Status == "fixed" && classOf(a) != "" && agrees(c.Impl, a) {
					for _, o := range findings {
						if o.Status == "finding" && o.ID != f.ID {
							still = false
							detail += " (differs only by " + classOf(a) + ", as the model predicts)"
							break
						}
					}
				}
			} else if po.Err == "" {
				detail = "the replay produced no case"
			} else if f.Status == "fixed" {
				still = true
			}
			run.Res.Known = append(run.Res.Known, common.KnownReplay{ID: f.ID, Status: f.Status, What: f.What, StillFails: still, Detail: detail})
		}
		for _, p := range fixedFamily() {
			jobs = append(jobs, job{p, lim})
		}
		for _, p := range repairedFamily() {
			jobs = append(jobs, job{p, lim})
		}
		for i := 0; i < nRandom; i++ {
			jobs = append(jobs, job{randomProg(run.Rng, fmt.Sprintf("random-%d", i), genCfg{}), lim})
		}
		for i := 0; i < nRandomF; i++ {
			jobs = append(jobs, job{randomProg(run.Rng, fmt.Sprintf("random-f-%d", i), genCfg{inits: i%2 == 0, plain: i%2 == 1 || i%4 == 0, earlier: i%3 != 2}), lim})
		}
	}

	outs := runJobs(jobs, workers)
	var maxLat int64
	for _, po := range outs {
		if os.Getenv("C09_DEBUG") != "" {
			fmt.Fprintf(os.Stderr, "%-18s end=%-9s n=%-3d entries=%d cases=%d err=%s\n   %s\n", po.Prog.Name, po.End, po.N, po.NEntry, len(po.Cases), po.Err, po.Line)
		}
		if po.Err != "" {
			if strings.Contains(po.Err, "outside the family") {
				run.Hit("program-rejected")
				continue
			}
			run.Errorf("program %s: %s", po.Prog.Name, po.Err)
			continue
		}
		run.Hit("program-end:" + po.End)
		run.Hit(fmt.Sprintf("program-entries:%d", po.NEntry))
		for _, c := range po.Cases {
			a := ask(po.Line, c.K, lim.Budget)
			if a.y == "" {
				continue
			}
			y, g := a.y, a.g
			class := classOf(a)
			input := replayT{Prog: po.Prog, K: c.K}
			key := fmt.Sprintf("%s|%d", po.Line, c.K)
			nontrivial := !strings.HasPrefix(c.Ref, "n0;") && (strings.Contains(c.Ref, "i1") || strings.Contains(po.Line, "(b "))
			run.Count(key, nontrivial)
			if class != "" {
				run.Hit("class:" + class)
			} else {
				run.Hit("class:in-domain")
			}
			for _, sh := range c.Shapes {
				run.Hit("shape:" + sh)
			}
			if a.racy {
				// the goroutine of Execute has a go statement of a function value in flight: whether the new goroutine
				// makes its frame before or after Execute returns is decided by the Go scheduler, not by the step hook
				switch {
				case a.y == a.y2:
					run.Hit("race:same-outcome-either-way")
				case c.Impl == a.y:
					run.Hit("race:execute-returned-first")
				case c.Impl == a.y2:
					run.Hit("race:new-goroutine-first")
				}
			}
			if c.K == 0 {
				run.Hit("point:quiet")
			} else {
				run.Hit("point:op")
			}
			if c.Impl == c.Ref {
				run.Hit("outcome:stops")
			} else {
				run.Hit("outcome:differs")
			}
			if !c.NumGOK {
				if os.Getenv("C09_DEBUG") != "" {
					fmt.Fprintf(os.Stderr, "numg %s k=%d impl=%s numg=%d\n", po.Prog.Name, c.K, c.Impl, c.NumG)
				}
				run.Hit("numgoroutine-delta-differs-from-statuses")
			}
			if c.LatUS > maxLat {
				maxLat = c.LatUS
			}
			run.Sample(map[string]interface{}{"program": po.Prog.Name, "k": c.K, "tree": po.Line, "impl": c.Impl, "model": y, "spec": g, "ref": c.Ref}, 8)
			if !agrees(c.Impl, a) {
				run.Disagree(common.Disagreement{Kind: "impl-vs-model", Input: input, Impl: c.Impl, Model: y, Ref: c.Ref, Note: po.Line})
			}
			if c.Ref != g {
				run.Disagree(common.Disagreement{Kind: "spec-vs-ref", Input: input, Spec: g, Ref: c.Ref, Note: po.Line})
			}
			if c.Impl != c.Ref {
				d := common.Disagreement{Kind: "impl-vs-ref", Input: input, Impl: c.Impl, Model: y, Ref: c.Ref, Finding: class}
				if !agrees(c.Impl, a) {
					d.Finding, d.Note = "", "differs from the reference and from the model of the unchanged code (class "+class+")"
				}
				run.Disagree(d)
			}
		}
	}
	run.Res.Extra = map[string]interface{}{"max_return_latency_us": maxLat, "latency_bound_us": latencyBound.Microseconds(), "programs": len(jobs)}
}
