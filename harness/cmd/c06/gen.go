package main

// Programs of the C06 mini-language (mirror of lean/YaegiVerif/Model/Unwind.lean `Code`), their
// seeded type-directed generator, the rendering to the line protocol and to Go source, and the
// divergence class labels (decidable predicates of the program).

import (
	"fmt"
	"math/rand"
	"strings"

	"verif/harness/common"
)

// Stmt is one statement; Body (the callee) is used by call / defer.
type Stmt struct {
	Op   string `json:"op"`             // print printarg call defer deferbin deferdel probe panic recover repanic setres setouter deferloop
	S    string `json:"s,omitempty"`    // print / deferbin tag; panic: value kind (str int err fault)
	V    string `json:"v,omitempty"`    // panic: value text (string, decimal, error text, fault kind)
	N    int    `json:"n,omitempty"`    // setres / setouter value; deferdel / probe key; deferloop: iterations
	Arg  string `json:"arg,omitempty"`  // call / defer / deferbin: "param", "res" or a decimal literal
	Show bool   `json:"show,omitempty"` // call: print the result; recover: print the value
	Form string `json:"form,omitempty"` // call / defer: how the callee is written: lit | named | method | pmethod
	Body []Stmt `json:"body,omitempty"`
}

// Prog is a whole program: the body of `top` and the style in which yaegi is driven.
type Prog struct {
	Top   []Stmt `json:"top"`
	Style string `json:"style"` // main: `func main()` run by Eval;  call: definitions, then Eval("Main0()")
}

var faultKinds = []string{"nilMap", "index", "sliceBounds", "nilDeref", "divZero", "typeAssert", "closeClosed"}

// expand desugars `deferloop` (for i := 0; i < N; i++ { defer callee(i) }) into N defer statements with
// literal arguments — the form the Lean model and the class predicates see.
func expand(b []Stmt) []Stmt {
	var out []Stmt
	for _, s := range b {
		if s.Body != nil {
			s.Body = expand(s.Body)
		}
		if s.Op != "deferloop" {
			out = append(out, s)
			continue
		}
		for i := 0; i < s.N; i++ {
			if s.Form == "" {
				out = append(out, Stmt{Op: "deferbin", S: s.S, Arg: fmt.Sprint(i)})
			} else {
				body := s.Body
				if body == nil {
					body = []Stmt{}
				}
				out = append(out, Stmt{Op: "defer", Arg: fmt.Sprint(i), Form: s.Form, Body: body})
			}
		}
	}
	return out
}

// ---------------------------------------------------------------- protocol rendering

func argSexp(a string) string {
	if a == "param" || a == "res" {
		return a
	}
	return "(lit " + a + ")"
}

func bodySexp(b []Stmt) string {
	items := make([]string, 0, len(b))
	for _, s := range b {
		switch s.Op {
		case "print":
			items = append(items, common.L("print", common.Q(s.S)))
		case "printarg":
			items = append(items, "(printarg)")
		case "call":
			items = append(items, common.L("call", bodySexp(s.Body), argSexp(s.Arg), common.B(s.Show)))
		case "defer":
			items = append(items, common.L("defer", bodySexp(s.Body), argSexp(s.Arg)))
		case "deferbin":
			items = append(items, common.L("deferbin", common.Q(s.S), argSexp(s.Arg)))
		case "deferdel":
			items = append(items, common.L("deferdel", fmt.Sprint(s.N)))
		case "probe":
			items = append(items, common.L("probe", fmt.Sprint(s.N)))
		case "panic":
			items = append(items, common.L("panic", common.L(s.S, common.Q(s.V))))
		case "recover":
			items = append(items, common.L("recover", common.B(s.Show)))
		case "repanic":
			items = append(items, "(repanic)")
		case "setres":
			items = append(items, common.L("setres", fmt.Sprint(s.N)))
		case "setouter":
			items = append(items, common.L("setouter", fmt.Sprint(s.N)))
		}
	}
	return common.L(items...)
}

func depthOf(b []Stmt) int {
	d := 0
	for _, s := range b {
		if s.Body != nil || s.Op == "call" || s.Op == "defer" {
			if x := depthOf(s.Body) + 1; x > d {
				d = x
			}
		}
	}
	return d
}

func (p Prog) line() string {
	x := expand(p.Top)
	return fmt.Sprintf("C06 unwind %d %s", depthOf(x)+3, bodySexp(x))
}

// ---------------------------------------------------------------- Go rendering

type renderer struct {
	decls strings.Builder // named functions and methods
	next  int
}

func goArg(a string, depth int) string {
	switch a {
	case "param":
		return fmt.Sprintf("a%d", depth)
	case "res":
		return fmt.Sprintf("r%d", depth)
	}
	return a
}

func faultSnippet(kind string) string {
	switch kind {
	case "nilMap":
		return `{ var m map[string]int; m["k"] = 1 }`
	case "index":
		return `{ s := []int{1, 2, 3}; i := 5; gsink = s[i] }`
	case "sliceBounds":
		return `{ s := []int{1, 2, 3}; i := 5; gsink = len(s[1:i]) }`
	case "nilDeref":
		return `{ var p *T0; gsink = p.n }`
	case "divZero":
		return `{ z := 0; gsink = 10 / z }`
	case "typeAssert":
		return `{ var x interface{} = "s"; gsink = x.(int) }`
	case "closeClosed":
		return `{ c := make(chan int); close(c); close(c) }`
	}
	return `panic("bad fault kind")`
}

func (r *renderer) fnLit(body []Stmt, depth int, ind string) string {
	var b strings.Builder
	fmt.Fprintf(&b, "func(a%d int) (r%d int) {\n", depth, depth)
	r.stmts(&b, body, depth, ind+"\t")
	b.WriteString(ind + "\treturn\n" + ind + "}")
	return b.String()
}

// callee returns the Go expression denoting the callee of a call / defer statement at depth `depth`
// (the callee's own body is at depth+1).
func (r *renderer) callee(s Stmt, depth int, ind string) string {
	switch s.Form {
	case "named":
		r.next++
		name := fmt.Sprintf("fn%d", r.next)
		var b strings.Builder
		fmt.Fprintf(&b, "func %s(a%d int) (r%d int) {\n", name, depth+1, depth+1)
		r.stmts(&b, s.Body, depth+1, "\t")
		b.WriteString("\treturn\n}\n\n")
		r.decls.WriteString(b.String())
		return name
	case "method", "pmethod":
		r.next++
		name := fmt.Sprintf("M%d", r.next)
		recv, expr := "t T0", "T0{1}."+name
		if s.Form == "pmethod" {
			recv, expr = "t *T0", "(&T0{1})."+name
		}
		var b strings.Builder
		fmt.Fprintf(&b, "func (%s) %s(a%d int) (r%d int) {\n", recv, name, depth+1, depth+1)
		r.stmts(&b, s.Body, depth+1, "\t")
		b.WriteString("\treturn\n}\n\n")
		r.decls.WriteString(b.String())
		return expr
	}
	return r.fnLit(s.Body, depth+1, ind)
}

func (r *renderer) stmts(b *strings.Builder, body []Stmt, depth int, ind string) {
	for _, s := range body {
		switch s.Op {
		case "print":
			fmt.Fprintf(b, "%sfmt.Println(%q)\n", ind, s.S)
		case "printarg":
			fmt.Fprintf(b, "%sfmt.Println(\"a\", a%d)\n", ind, depth)
		case "call":
			c := r.callee(s, depth, ind) + "(" + goArg(s.Arg, depth) + ")"
			if s.Show {
				fmt.Fprintf(b, "%sfmt.Println(\"ret\", %s)\n", ind, c)
			} else {
				fmt.Fprintf(b, "%s%s\n", ind, c)
			}
		case "defer":
			fmt.Fprintf(b, "%sdefer %s(%s)\n", ind, r.callee(s, depth, ind), goArg(s.Arg, depth))
		case "deferbin":
			fmt.Fprintf(b, "%sdefer fmt.Println(%q, %s)\n", ind, s.S, goArg(s.Arg, depth))
		case "deferdel":
			fmt.Fprintf(b, "%sdefer delete(gm, %d)\n", ind, s.N)
		case "probe":
			fmt.Fprintf(b, "%sfmt.Println(\"probe\", %d, gm[%d])\n", ind, s.N, s.N)
		case "panic":
			switch s.S {
			case "str":
				fmt.Fprintf(b, "%spanic(%q)\n", ind, s.V)
			case "int":
				fmt.Fprintf(b, "%spanic(%s)\n", ind, s.V)
			case "err":
				fmt.Fprintf(b, "%spanic(errors.New(%q))\n", ind, s.V)
			case "fault":
				fmt.Fprintf(b, "%s%s\n", ind, faultSnippet(s.V))
			}
		case "recover":
			if s.Show {
				fmt.Fprintf(b, "%sfmt.Println(\"rec\", recover())\n", ind)
			} else {
				fmt.Fprintf(b, "%srecover()\n", ind)
			}
		case "repanic":
			fmt.Fprintf(b, "%sif x := recover(); x != nil {\n%s\tpanic(x)\n%s}\n", ind, ind, ind)
		case "deferloop":
			fmt.Fprintf(b, "%sfor i%d := 0; i%d < %d; i%d++ {\n", ind, depth, depth, s.N, depth)
			if s.Form == "" {
				fmt.Fprintf(b, "%s\tdefer fmt.Println(%q, i%d)\n", ind, s.S, depth)
			} else {
				fmt.Fprintf(b, "%s\tdefer %s(i%d)\n", ind, r.callee(s, depth, ind+"\t"), depth)
			}
			fmt.Fprintf(b, "%s}\n", ind)
		case "setres":
			fmt.Fprintf(b, "%sr%d = %d\n", ind, depth, s.N)
		case "setouter":
			fmt.Fprintf(b, "%sr%d = %d\n", ind, depth-1, s.N)
		}
	}
}

// source renders the complete program; entry is "main" (compiled Go; yaegi main style) or "Main0".
func (p Prog) source(entry string) string {
	r := &renderer{}
	var top strings.Builder
	top.WriteString("func top(a0 int) (r0 int) {\n")
	r.stmts(&top, p.Top, 0, "\t")
	top.WriteString("\treturn\n}\n\n")
	var b strings.Builder
	b.WriteString("package main\n\nimport (\n\t\"errors\"\n\t\"fmt\"\n)\n\n")
	b.WriteString("var gm = map[int]bool{0: true, 1: true, 2: true, 3: true}\nvar gsink int\nvar _ = errors.New\nvar _ = fmt.Sprint\n\ntype T0 struct{ n int }\n\n")
	b.WriteString(r.decls.String())
	b.WriteString(top.String())
	fmt.Fprintf(&b, "func %s() {\n\ttop(0)\n\t_ = gsink\n}\n", entry)
	return b.String()
}

// ---------------------------------------------------------------- class labels (predicates of the input)

// mayPanic: the tree contains a panic statement (explicit or fault), anywhere.
func mayPanic(b []Stmt) bool {
	for _, s := range b {
		if s.Op == "panic" || s.Op == "repanic" {
			return true // (statements after a panic are dead)
		}
		if (s.Op == "call" || s.Op == "defer") && mayPanic(s.Body) {
			return true
		}
	}
	return false
}

// pendingPanic: some deferred callee may panic while its frame has another pending deferred call
// (an earlier defer statement of the same body) — mirror of Lean `Props.C06.DomPending`'s complement.
func pendingPanic(b []Stmt) bool {
	seenDefer := false
	for _, s := range b {
		switch s.Op {
		case "panic":
			return false // the rest of the body is dead
		case "defer":
			if seenDefer && mayPanic(s.Body) {
				return true
			}
			if pendingPanic(s.Body) {
				return true
			}
			seenDefer = true
		case "deferbin", "deferdel":
			seenDefer = true
		case "call":
			if pendingPanic(s.Body) {
				return true
			}
		}
	}
	return false
}

// hasRepanic: some live `if x := recover(); x != nil { panic(x) }`.
func hasRepanic(b []Stmt) bool {
	for _, s := range b {
		switch {
		case s.Op == "panic":
			return false // the rest of the body is dead
		case s.Op == "repanic":
			return true
		case (s.Op == "call" || s.Op == "defer") && hasRepanic(s.Body):
			return true
		}
	}
	return false
}

// (Until the repair of F06-1 there was a third class, defer-arg-by-ref: a defer statement whose argument is
// the named result variable. Such programs are inside the proved domain now.)
const (
	classPending = "deferred-panic-pending"
	classRepanic = "repanic-boxed-value"
)

func classOf(p Prog) string {
	x := expand(p.Top)
	switch {
	case pendingPanic(x):
		return classPending
	case hasRepanic(x):
		return classRepanic
	}
	return ""
}

// size counts statements (of the expanded program).
func size(b []Stmt) int {
	n := 0
	for _, s := range b {
		n += 1 + size(s.Body)
	}
	return n
}

// ---------------------------------------------------------------- generator

type genCfg struct {
	rng      *rand.Rand
	allowRe  bool // `if x := recover(); x != nil { panic(x) }` may be generated
	allowPnd bool // a deferred callee may panic although another deferred call is pending
	budget   int  // statements left
	tag      int
}

func (g *genCfg) pick(n int) int { return g.rng.Intn(n) }

func (g *genCfg) newTag(prefix string) string {
	g.tag++
	return fmt.Sprintf("%s%d", prefix, g.tag)
}

func (g *genCfg) panicStmt() Stmt {
	switch g.pick(6) {
	case 0:
		return Stmt{Op: "panic", S: "int", V: fmt.Sprint(100 + g.pick(50))}
	case 1:
		return Stmt{Op: "panic", S: "err", V: g.newTag("e")}
	case 2, 3:
		return Stmt{Op: "panic", S: "fault", V: faultKinds[g.pick(len(faultKinds))]}
	}
	return Stmt{Op: "panic", S: "str", V: g.newTag("p")}
}

func (g *genCfg) arg() string {
	switch g.pick(4) {
	case 0:
		return "param"
	case 1:
		return "res" // the named result variable: assigned before and after the defer statement (F06-1, fixed)
	}
	return fmt.Sprint(g.pick(9) + 1)
}

func (g *genCfg) form(canOuter bool) string {
	if canOuter {
		return "lit"
	}
	return []string{"lit", "lit", "named", "method", "pmethod"}[g.pick(5)]
}

func usesOuter(b []Stmt) bool {
	for _, s := range b {
		if s.Op == "setouter" {
			return true
		}
	}
	return false
}

// body generates a function body. role: "top", "called" (direct callee), "deferred" (deferred callee);
// quiet: the body must not be able to panic (it is a deferred callee registered while another one is pending).
func (g *genCfg) body(depth int, role string, quiet bool) []Stmt {
	var out []Stmt
	n := 1 + g.pick(5)
	if depth == 0 {
		n = 3 + g.pick(5)
	}
	if depth >= 3 {
		n = 1 + g.pick(3)
	}
	hasDefer := false
	for i := 0; i < n && g.budget > 0; i++ {
		g.budget--
		c := g.pick(100)
		switch {
		case c < 14:
			out = append(out, Stmt{Op: "print", S: g.newTag("s")})
		case c < 18:
			out = append(out, Stmt{Op: "printarg"})
		case c < 32 && depth < 4:
			s := Stmt{Op: "call", Arg: g.arg(), Show: g.pick(2) == 0}
			s.Body = g.body(depth+1, "called", quiet)
			s.Form = g.form(usesOuter(s.Body))
			out = append(out, s)
		case c < 56 && depth < 4:
			q := quiet || (hasDefer && !g.allowPnd)
			s := Stmt{Op: "defer", Arg: g.arg()}
			s.Body = g.body(depth+1, "deferred", q)
			s.Form = g.form(usesOuter(s.Body))
			out = append(out, s)
			hasDefer = true
		case c < 59:
			out = append(out, Stmt{Op: "deferbin", S: g.newTag("b"), Arg: g.arg()})
			hasDefer = true
		case c < 62:
			// defers in a loop: the same callee registered N times with the loop variable as argument
			s := Stmt{Op: "deferloop", N: 2 + g.pick(2), S: g.newTag("l")}
			if g.pick(2) == 0 && depth < 4 {
				s.Body = g.body(depth+1, "deferred", quiet || !g.allowPnd)
				if s.Body == nil {
					s.Body = []Stmt{}
				}
				s.Form = g.form(usesOuter(s.Body))
			}
			out = append(out, s)
			hasDefer = true
		case c < 66:
			out = append(out, Stmt{Op: "deferdel", N: g.pick(4)})
			hasDefer = true
		case c < 70:
			out = append(out, Stmt{Op: "probe", N: g.pick(4)})
		case c < 80:
			// recover: mostly where it matters (deferred callee), sometimes elsewhere
			if g.allowRe && (role == "deferred" || g.pick(6) == 0) && !quiet && g.pick(2) == 0 {
				out = append(out, Stmt{Op: "repanic"})
			} else if role == "deferred" || g.pick(4) == 0 {
				out = append(out, Stmt{Op: "recover", Show: g.pick(4) != 0})
			} else {
				out = append(out, Stmt{Op: "print", S: g.newTag("s")})
			}
		case c < 86:
			out = append(out, Stmt{Op: "setres", N: 10 + g.pick(40)})
		case c < 90:
			if depth > 0 {
				out = append(out, Stmt{Op: "setouter", N: 50 + g.pick(40)})
			}
		default:
			if !quiet {
				out = append(out, g.panicStmt())
				if g.pick(4) != 0 {
					return out // usually the panic ends the body; otherwise dead code follows
				}
			}
		}
	}
	return out
}

// generateOne draws one program from the named stream: dom (inside the proved domain),
// pending (F07 class allowed), repanic (re-panic of the recovered value allowed), wild (both).
// In every stream the argument of a call / defer statement may be the named result variable.
func generateOne(rng *rand.Rand, stream string) Prog {
	g := &genCfg{rng: rng, budget: 8 + rng.Intn(24)}
	switch stream {
	case "pending":
		g.allowPnd = true
	case "repanic":
		g.allowRe = true
	case "wild":
		g.allowPnd, g.allowRe = true, true
	}
	p := Prog{Top: g.body(0, "top", false), Style: "main"}
	if rng.Intn(2) == 0 {
		p.Style = "call"
	}
	return p
}

// features lists the constructs a program exercises (for the measured input distribution).
func features(b []Stmt, in string, acc map[string]bool) {
	for _, s := range b {
		switch s.Op {
		case "panic":
			acc["panic:"+s.S] = true
			if s.S == "fault" {
				acc["fault:"+s.V] = true
			}
			acc["panic-in:"+in] = true
		case "recover":
			acc["recover-in:"+in] = true
		case "repanic":
			acc["repanic-in:"+in] = true
		case "deferloop":
			acc["deferloop"] = true
			if s.Form != "" {
				acc["defer:"+s.Form] = true
				features(s.Body, "deferred", acc)
			}
		case "call":
			acc["call:"+s.Form] = true
			features(s.Body, "called", acc)
		case "defer":
			acc["defer:"+s.Form] = true
			if s.Arg == "param" || s.Arg == "res" {
				acc["defer-arg:"+s.Arg] = true
			}
			features(s.Body, "deferred", acc)
		case "deferbin", "deferdel", "setouter", "setres", "probe":
			acc[s.Op] = true
		}
	}
}
