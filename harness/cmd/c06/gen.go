package main

// Programs of the C06 mini-language (mirror of lean/YaegiVerif/Model/Unwind.lean `Code`), their
// seeded type-directed generator, the rendering to the line protocol and to Go source, and the
// divergence class labels (decidable predicates of the program).

import (
	"fmt"
	"math/rand"
	"strings"

	"verif/harness/common"
)

// Stmt is one statement; Body (the callee) is used by call / defer.
type Stmt struct {
	Op   string `json:"op"`             // print printarg call defer defervar deferbin deferbinv deferdel deferpanic probe panic recover recoveris repanic setres setouter deferloop
	S    string `json:"s,omitempty"`    // print / deferbin tag; panic / deferpanic / recoveris: value kind (str int err fault)
	V    string `json:"v,omitempty"`    // panic / deferpanic / recoveris: value text (string, decimal, error text, fault kind)
	N    int    `json:"n,omitempty"`    // setres / setouter value; deferdel / probe key; deferloop: iterations
	Arg  string `json:"arg,omitempty"`  // call / defer / deferbin: "param", "res" or a decimal literal
	Show bool   `json:"show,omitempty"` // call: print the result; recover: print the value
	Form string `json:"form,omitempty"` // call / defer: how the callee is written: lit | named | method | pmethod; defervar: where the literal is held: var | field | slice; recoveris: eq | assert
	Ns   []int  `json:"ns,omitempty"`   // deferbinv: the ints after the tag in the slice that is spread
	Body []Stmt `json:"body,omitempty"`
}

// Prog is a whole program: the body of `top` and the style in which yaegi is driven.
type Prog struct {
	Top   []Stmt `json:"top"`
	Style string `json:"style"` // main: `func main()` run by Eval;  call: definitions, then Eval("Main0()")
}

var faultKinds = []string{"nilMap", "index", "sliceBounds", "nilDeref", "divZero", "typeAssert", "closeClosed"}

// expand desugars `deferloop` (for i := 0; i < N; i++ { defer callee(i) }) into N defer statements with
// literal arguments — the form the Lean model and the class predicates see.
func expand(b []Stmt) []Stmt {
	var out []Stmt
	for _, s := range b {
		if s.Body != nil {
			s.Body = expand(s.Body)
		}
		if s.Op != "deferloop" {
			out = append(out, s)
			continue
		}
		for i := 0; i < s.N; i++ {
			if s.Form == "" {
				out = append(out, Stmt{Op: "deferbin", S: s.S, Arg: fmt.Sprint(i)})
			} else {
				body := s.Body
				if body == nil {
					body = []Stmt{}
				}
				out = append(out, Stmt{Op: "defer", Arg: fmt.Sprint(i), Form: s.Form, Body: body})
			}
		}
	}
	return out
}

// ---------------------------------------------------------------- protocol rendering

func argSexp(a string) string {
	if a == "param" || a == "res" {
		return a
	}
	return "(lit " + a + ")"
}

func bodySexp(b []Stmt) string {
	items := make([]string, 0, len(b))
	for _, s := range b {
		switch s.Op {
		case "print":
			items = append(items, common.L("print", common.Q(s.S)))
		case "printarg":
			items = append(items, "(printarg)")
		case "call":
			items = append(items, common.L("call", bodySexp(s.Body), argSexp(s.Arg), common.B(s.Show)))
		case "defer":
			items = append(items, common.L("defer", bodySexp(s.Body), argSexp(s.Arg)))
		case "defervar":
			items = append(items, common.L("defervar", bodySexp(s.Body), argSexp(s.Arg)))
		case "deferpanic":
			items = append(items, common.L("deferpanic", common.L(s.S, common.Q(s.V))))
		case "recoveris":
			items = append(items, common.L("recoveris", common.L(s.S, common.Q(s.V))))
		case "deferbin":
			items = append(items, common.L("deferbin", common.Q(s.S), argSexp(s.Arg)))
		case "deferbinv":
			ns := make([]string, len(s.Ns))
			for i, n := range s.Ns {
				ns[i] = fmt.Sprint(n)
			}
			items = append(items, common.L("deferbinv", common.Q(s.S), common.L(ns...)))
		case "deferdel":
			items = append(items, common.L("deferdel", fmt.Sprint(s.N)))
		case "probe":
			items = append(items, common.L("probe", fmt.Sprint(s.N)))
		case "panic":
			items = append(items, common.L("panic", common.L(s.S, common.Q(s.V))))
		case "recover":
			items = append(items, common.L("recover", common.B(s.Show)))
		case "repanic":
			items = append(items, "(repanic)")
		case "setres":
			items = append(items, common.L("setres", fmt.Sprint(s.N)))
		case "setouter":
			items = append(items, common.L("setouter", fmt.Sprint(s.N)))
		}
	}
	return common.L(items...)
}

func depthOf(b []Stmt) int {
	d := 0
	for _, s := range b {
		if s.Body != nil || s.Op == "call" || s.Op == "defer" || s.Op == "defervar" {
			if x := depthOf(s.Body) + 1; x > d {
				d = x
			}
		}
	}
	return d
}

func (p Prog) line() string {
	x := expand(p.Top)
	return fmt.Sprintf("C06 unwind %d %s", depthOf(x)+3, bodySexp(x))
}

// ---------------------------------------------------------------- Go rendering

type renderer struct {
	decls strings.Builder // named functions and methods
	next  int
}

func goArg(a string, depth int) string {
	switch a {
	case "param":
		return fmt.Sprintf("a%d", depth)
	case "res":
		return fmt.Sprintf("r%d", depth)
	}
	return a
}

var nilKinds = []string{"ptr", "map", "slice", "func", "chan"}

// nilType: the Go type of a typed nil panic value (native types: their %T is the same in yaegi and in compiled Go).
func nilType(kind string) string {
	switch kind {
	case "map":
		return "map[string]int"
	case "slice":
		return "[]string"
	case "func":
		return "func()"
	case "chan":
		return "chan int"
	}
	return "*int"
}

// goVal renders an explicit panic value.
func goVal(kind, text string) string {
	switch kind {
	case "int":
		return text
	case "err":
		return fmt.Sprintf("errors.New(%q)", text)
	}
	return fmt.Sprintf("%q", text)
}

func faultSnippet(kind string) string {
	switch kind {
	case "nilMap":
		return `{ var m map[string]int; m["k"] = 1 }`
	case "index":
		return `{ s := []int{1, 2, 3}; i := 5; gsink = s[i] }`
	case "sliceBounds":
		return `{ s := []int{1, 2, 3}; i := 5; gsink = len(s[1:i]) }`
	case "nilDeref":
		return `{ var p *T0; gsink = p.n }`
	case "divZero":
		return `{ z := 0; gsink = 10 / z }`
	case "typeAssert":
		return `{ var x interface{} = "s"; gsink = x.(int) }`
	case "closeClosed":
		return `{ c := make(chan int); close(c); close(c) }`
	}
	return `panic("bad fault kind")`
}

func (r *renderer) fnLit(body []Stmt, depth int, ind string) string {
	var b strings.Builder
	fmt.Fprintf(&b, "func(a%d int) (r%d int) {\n", depth, depth)
	r.stmts(&b, body, depth, ind+"\t")
	b.WriteString(ind + "\treturn\n" + ind + "}")
	return b.String()
}

// callee returns the Go expression denoting the callee of a call / defer statement at depth `depth`
// (the callee's own body is at depth+1).
func (r *renderer) callee(s Stmt, depth int, ind string) string {
	switch s.Form {
	case "named":
		r.next++
		name := fmt.Sprintf("fn%d", r.next)
		var b strings.Builder
		fmt.Fprintf(&b, "func %s(a%d int) (r%d int) {\n", name, depth+1, depth+1)
		r.stmts(&b, s.Body, depth+1, "\t")
		b.WriteString("\treturn\n}\n\n")
		r.decls.WriteString(b.String())
		return name
	case "method", "pmethod":
		r.next++
		name := fmt.Sprintf("M%d", r.next)
		recv, expr := "t T0", "T0{1}."+name
		if s.Form == "pmethod" {
			recv, expr = "t *T0", "(&T0{1})."+name
		}
		var b strings.Builder
		fmt.Fprintf(&b, "func (%s) %s(a%d int) (r%d int) {\n", recv, name, depth+1, depth+1)
		r.stmts(&b, s.Body, depth+1, "\t")
		b.WriteString("\treturn\n}\n\n")
		r.decls.WriteString(b.String())
		return expr
	}
	return r.fnLit(s.Body, depth+1, ind)
}

func (r *renderer) stmts(b *strings.Builder, body []Stmt, depth int, ind string) {
	for _, s := range body {
		switch s.Op {
		case "print":
			fmt.Fprintf(b, "%sfmt.Println(%q)\n", ind, s.S)
		case "printarg":
			fmt.Fprintf(b, "%sfmt.Println(\"a\", a%d)\n", ind, depth)
		case "call":
			c := r.callee(s, depth, ind) + "(" + goArg(s.Arg, depth) + ")"
			if s.Show {
				fmt.Fprintf(b, "%sfmt.Println(\"ret\", %s)\n", ind, c)
			} else {
				fmt.Fprintf(b, "%s%s\n", ind, c)
			}
		case "defer":
			fmt.Fprintf(b, "%sdefer %s(%s)\n", ind, r.callee(s, depth, ind), goArg(s.Arg, depth))
		case "defervar":
			// the literal is evaluated as a value (getFunc) and held in a variable, a struct field or a slice
			r.next++
			lit := r.fnLit(s.Body, depth+1, ind)
			switch s.Form {
			case "field":
				fmt.Fprintf(b, "%shs%d := struct{ f func(int) int }{f: %s}\n", ind, r.next, lit)
				fmt.Fprintf(b, "%sdefer hs%d.f(%s)\n", ind, r.next, goArg(s.Arg, depth))
			case "slice":
				fmt.Fprintf(b, "%shl%d := []func(int) int{%s}\n", ind, r.next, lit)
				fmt.Fprintf(b, "%sdefer hl%d[0](%s)\n", ind, r.next, goArg(s.Arg, depth))
			default:
				fmt.Fprintf(b, "%sh%d := %s\n", ind, r.next, lit)
				fmt.Fprintf(b, "%sdefer h%d(%s)\n", ind, r.next, goArg(s.Arg, depth))
			}
		case "deferpanic":
			if s.S == "nil" {
				r.next++
				fmt.Fprintf(b, "%svar nv%d %s\n%sdefer panic(nv%d)\n", ind, r.next, nilType(s.V), ind, r.next)
				break
			}
			fmt.Fprintf(b, "%sdefer panic(%s)\n", ind, goVal(s.S, s.V))
		case "recoveris":
			// is the recovered value the very value `panic` was called with? comparison or type assertion
			var test string
			switch {
			case s.S == "str" && s.Form == "eq":
				test = fmt.Sprintf("ok := x == %q", s.V)
			case s.S == "int" && s.Form == "eq":
				test = fmt.Sprintf("ok := x == %s", s.V)
			case s.S == "nil":
				test = fmt.Sprintf("t, isT := x.(%s); ok := isT && t == nil", nilType(s.V))
			case s.S == "str":
				test = fmt.Sprintf("s, isT := x.(string); ok := isT && s == %q", s.V)
			case s.S == "int":
				test = fmt.Sprintf("n, isT := x.(int); ok := isT && n == %s", s.V)
			default:
				// (x may be nil: the assertion of a nil interface{} to an interface type is false, since bf66b2a in yaegi too)
				test = fmt.Sprintf("e, isT := x.(error); ok := isT && e.Error() == %q", s.V)
			}
			fmt.Fprintf(b, "%s{ x := recover(); %s; fmt.Println(\"is\", ok) }\n", ind, test)
		case "deferbin":
			fmt.Fprintf(b, "%sdefer fmt.Println(%q, %s)\n", ind, s.S, goArg(s.Arg, depth))
		case "deferbinv":
			// a deferred variadic call written with an ellipsis
			elts := []string{fmt.Sprintf("%q", s.S)}
			for _, n := range s.Ns {
				elts = append(elts, fmt.Sprint(n))
			}
			fmt.Fprintf(b, "%sdefer fmt.Println([]interface{}{%s}...)\n", ind, strings.Join(elts, ", "))
		case "deferdel":
			fmt.Fprintf(b, "%sdefer delete(gm, %d)\n", ind, s.N)
		case "probe":
			fmt.Fprintf(b, "%sfmt.Println(\"probe\", %d, gm[%d])\n", ind, s.N, s.N)
		case "panic":
			switch s.S {
			case "str":
				fmt.Fprintf(b, "%spanic(%q)\n", ind, s.V)
			case "int":
				fmt.Fprintf(b, "%spanic(%s)\n", ind, s.V)
			case "err":
				fmt.Fprintf(b, "%spanic(errors.New(%q))\n", ind, s.V)
			case "fault":
				fmt.Fprintf(b, "%s%s\n", ind, faultSnippet(s.V))
			case "nil":
				// a typed nil, through a variable: the panic value is a non-nil interface holding a nil pointer / map / …
				fmt.Fprintf(b, "%s{ var nv %s; panic(nv) }\n", ind, nilType(s.V))
			}
		case "recover":
			if s.Show {
				// value and dynamic type of what recover() returns
				fmt.Fprintf(b, "%s{ x := recover(); fmt.Printf(\"rec %%v |%%T\\n\", x, x) }\n", ind)
			} else {
				fmt.Fprintf(b, "%srecover()\n", ind)
			}
		case "repanic":
			fmt.Fprintf(b, "%sif x := recover(); x != nil {\n%s\tpanic(x)\n%s}\n", ind, ind, ind)
		case "deferloop":
			fmt.Fprintf(b, "%sfor i%d := 0; i%d < %d; i%d++ {\n", ind, depth, depth, s.N, depth)
			if s.Form == "" {
				fmt.Fprintf(b, "%s\tdefer fmt.Println(%q, i%d)\n", ind, s.S, depth)
			} else {
				fmt.Fprintf(b, "%s\tdefer %s(i%d)\n", ind, r.callee(s, depth, ind+"\t"), depth)
			}
			fmt.Fprintf(b, "%s}\n", ind)
		case "setres":
			fmt.Fprintf(b, "%sr%d = %d\n", ind, depth, s.N)
		case "setouter":
			fmt.Fprintf(b, "%sr%d = %d\n", ind, depth-1, s.N)
		}
	}
}

// source renders the complete program; entry is "main" (compiled Go; yaegi main style) or "Main0".
func (p Prog) source(entry string) string {
	r := &renderer{}
	var top strings.Builder
	top.WriteString("func top(a0 int) (r0 int) {\n")
	r.stmts(&top, p.Top, 0, "\t")
	top.WriteString("\treturn\n}\n\n")
	var b strings.Builder
	b.WriteString("package main\n\nimport (\n\t\"errors\"\n\t\"fmt\"\n)\n\n")
	b.WriteString("var gm = map[int]bool{0: true, 1: true, 2: true, 3: true}\nvar gsink int\nvar _ = errors.New\nvar _ = fmt.Sprint\n\ntype T0 struct{ n int }\n\n")
	b.WriteString(r.decls.String())
	b.WriteString(top.String())
	fmt.Fprintf(&b, "func %s() {\n\ttop(0)\n\t_ = gsink\n}\n", entry)
	return b.String()
}

// ---------------------------------------------------------------- class labels (predicates of the input)

// directRecover: recover() — in any of its forms — is written directly in this body, in live code
// (mirror of Lean `directRecover`).
func directRecover(b []Stmt) bool {
	for _, s := range b {
		switch s.Op {
		case "panic":
			return false // the rest of the body is dead
		case "recover", "recoveris", "repanic":
			return true
		}
	}
	return false
}

// heldRecover: some live defer statement defers a function literal held as a value whose body calls recover()
// itself — mirror of the complement of Lean `Dom` (F06-7).
func heldRecover(b []Stmt) bool {
	for _, s := range b {
		switch s.Op {
		case "panic":
			return false // the rest of the body is dead
		case "call", "defer":
			if heldRecover(s.Body) {
				return true
			}
		case "defervar":
			if heldRecover(s.Body) || directRecover(s.Body) {
				return true
			}
		}
	}
	return false
}

// The only class left. (Repaired and therefore gone: defer-arg-by-ref, F06-1; deferred-panic-pending, F07;
// repanic-boxed-value, F06-3. Such programs are inside the proved domain now.)
const classHeldRecover = "defer-closure-variable-recover"

func classOf(p Prog) string {
	if heldRecover(expand(p.Top)) {
		return classHeldRecover
	}
	return ""
}

// size counts statements (of the expanded program).
func size(b []Stmt) int {
	n := 0
	for _, s := range b {
		n += 1 + size(s.Body)
	}
	return n
}

// ---------------------------------------------------------------- generator

type genCfg struct {
	rng     *rand.Rand
	heldRec bool // a function literal held as a value may call recover() itself (F06-7 class)
	hot     bool // deferred callees panic often (several per frame, nested, in loops)
	budget  int  // statements left
	tag     int
	vals    [][2]string // explicit panic values raised so far (kind, text): what recoveris compares with
}

func (g *genCfg) pick(n int) int { return g.rng.Intn(n) }

func (g *genCfg) newTag(prefix string) string {
	g.tag++
	return fmt.Sprintf("%s%d", prefix, g.tag)
}

// explicitVal draws an explicit panic value: string, int or error.
func (g *genCfg) explicitVal() (string, string) {
	var k, v string
	switch g.pick(6) {
	case 0:
		k, v = "int", fmt.Sprint(100+g.pick(50))
	case 1:
		k, v = "err", g.newTag("e")
	case 2:
		k, v = "nil", nilKinds[g.pick(len(nilKinds))] // typed nil: nil *int, nil map, nil slice, nil func, nil chan
	default:
		k, v = "str", g.newTag("p")
	}
	g.vals = append(g.vals, [2]string{k, v})
	return k, v
}

func (g *genCfg) panicStmt() Stmt {
	if g.pick(3) == 0 {
		return Stmt{Op: "panic", S: "fault", V: faultKinds[g.pick(len(faultKinds))]}
	}
	k, v := g.explicitVal()
	return Stmt{Op: "panic", S: k, V: v}
}

// recoverStmt draws one of the forms of recover(): plain / printed, compared with a value, re-panicked.
func (g *genCfg) recoverStmt() Stmt {
	switch g.pick(8) {
	case 0, 1:
		return Stmt{Op: "repanic"}
	case 2, 3:
		var k, v string
		if len(g.vals) > 0 && g.pick(4) != 0 {
			kv := g.vals[g.pick(len(g.vals))]
			k, v = kv[0], kv[1]
		} else {
			k, v = g.explicitVal()
			g.vals = g.vals[:len(g.vals)-1] // not raised anywhere
		}
		form := "assert"
		if k != "err" && k != "nil" && g.pick(2) == 0 {
			form = "eq"
		}
		return Stmt{Op: "recoveris", S: k, V: v, Form: form}
	}
	return Stmt{Op: "recover", Show: g.pick(4) != 0}
}

func (g *genCfg) arg() string {
	switch g.pick(4) {
	case 0:
		return "param"
	case 1:
		return "res" // the named result variable: assigned before and after the defer statement (F06-1, fixed)
	}
	return fmt.Sprint(g.pick(9) + 1)
}

func (g *genCfg) form(canOuter bool) string {
	if canOuter {
		return "lit"
	}
	return []string{"lit", "lit", "named", "method", "pmethod"}[g.pick(5)]
}

func usesOuter(b []Stmt) bool {
	for _, s := range b {
		if s.Op == "setouter" {
			return true
		}
	}
	return false
}

// body generates a function body. role: "top", "called" (direct callee), "deferred" (deferred callee written at
// the defer statement), "held" (deferred function literal held as a value).
func (g *genCfg) body(depth int, role string) []Stmt {
	var out []Stmt
	n := 1 + g.pick(5)
	if depth == 0 {
		n = 3 + g.pick(5)
	}
	if depth >= 3 {
		n = 1 + g.pick(3)
	}
	for i := 0; i < n && g.budget > 0; i++ {
		g.budget--
		c := g.pick(100)
		switch {
		case c < 13:
			out = append(out, Stmt{Op: "print", S: g.newTag("s")})
		case c < 16:
			out = append(out, Stmt{Op: "printarg"})
		case c < 28 && depth < 4:
			s := Stmt{Op: "call", Arg: g.arg(), Show: g.pick(2) == 0}
			s.Body = g.body(depth+1, "called")
			s.Form = g.form(usesOuter(s.Body))
			out = append(out, s)
		case c < 46 && depth < 4:
			s := Stmt{Op: "defer", Arg: g.arg()}
			s.Body = g.body(depth+1, "deferred")
			s.Form = g.form(usesOuter(s.Body))
			out = append(out, s)
		case c < 54 && depth < 4:
			// a function literal held in a variable / a struct field / a slice, then deferred
			s := Stmt{Op: "defervar", Arg: g.arg(), Form: []string{"var", "var", "field", "slice"}[g.pick(4)]}
			s.Body = g.body(depth+1, "held")
			if s.Body == nil {
				s.Body = []Stmt{}
			}
			out = append(out, s)
		case c < 56:
			out = append(out, Stmt{Op: "deferbin", S: g.newTag("b"), Arg: g.arg()})
		case c < 58:
			s := Stmt{Op: "deferbinv", S: g.newTag("v"), Ns: []int{}}
			for k := g.pick(4); k > 0; k-- {
				s.Ns = append(s.Ns, g.pick(90))
			}
			out = append(out, s)
		case c < 61:
			// defers in a loop: the same callee registered N times with the loop variable as argument
			s := Stmt{Op: "deferloop", N: 2 + g.pick(2), S: g.newTag("l")}
			if g.pick(3) != 0 && depth < 4 {
				s.Body = g.body(depth+1, "deferred")
				if s.Body == nil {
					s.Body = []Stmt{}
				}
				s.Form = g.form(usesOuter(s.Body))
			}
			out = append(out, s)
		case c < 64:
			out = append(out, Stmt{Op: "deferdel", N: g.pick(4)})
		case c < 68:
			k, v := g.explicitVal()
			out = append(out, Stmt{Op: "deferpanic", S: k, V: v})
		case c < 71:
			out = append(out, Stmt{Op: "probe", N: g.pick(4)})
		case c < 82:
			// recover: mostly where it matters (deferred callee), sometimes elsewhere
			switch {
			case role == "held" && !g.heldRec:
				out = append(out, Stmt{Op: "print", S: g.newTag("s")})
			case role == "deferred" || role == "held" || g.pick(4) == 0:
				out = append(out, g.recoverStmt())
			default:
				out = append(out, Stmt{Op: "print", S: g.newTag("s")})
			}
		case c < 87:
			out = append(out, Stmt{Op: "setres", N: 10 + g.pick(40)})
		case c < 90:
			if depth > 0 {
				out = append(out, Stmt{Op: "setouter", N: 50 + g.pick(40)})
			}
		default:
			out = append(out, g.panicStmt())
			if g.pick(4) != 0 {
				return out // usually the panic ends the body; otherwise dead code follows
			}
		}
	}
	if g.hot && (role == "deferred" || role == "held") && g.pick(5) < 2 {
		out = append(out, g.panicStmt())
	}
	return out
}

// generateOne draws one program from the named stream: dom (inside the proved domain), dpanic (the same, deferred
// callees panic often), heldrec (a held function literal may call recover() itself: the F06-7 class is allowed).
// In every stream deferred callees may panic whatever else is pending, recovered values may be compared and
// re-panicked, `defer panic(v)` and held literals occur, and a call / defer argument may be the named result.
func generateOne(rng *rand.Rand, stream string) Prog {
	g := &genCfg{rng: rng, budget: 8 + rng.Intn(24)}
	switch stream {
	case "dpanic":
		g.hot = true
	case "heldrec":
		g.heldRec = true
		g.hot = rng.Intn(2) == 0
	}
	top := g.body(0, "top")
	if rng.Intn(3) == 0 {
		// a recovering deferred literal registered first (it runs last): about half of the programs end without a panic
		rec := []Stmt{g.recoverStmt()}
		if rng.Intn(2) == 0 {
			rec = append(rec, Stmt{Op: "setouter", N: 50 + rng.Intn(40)})
		}
		top = append([]Stmt{{Op: "defer", Arg: g.arg(), Form: "lit", Body: rec}}, top...)
	}
	p := Prog{Top: top, Style: "main"}
	if rng.Intn(2) == 0 {
		p.Style = "call"
	}
	return p
}

// features lists the constructs a program exercises (for the measured input distribution).
func features(b []Stmt, in string, acc map[string]bool) {
	for _, s := range b {
		switch s.Op {
		case "panic":
			acc["panic:"+s.S] = true
			if s.S == "nil" {
				acc["typed-nil:"+s.V] = true
			}
			if s.S == "fault" {
				acc["fault:"+s.V] = true
			}
			acc["panic-in:"+in] = true
		case "recover":
			acc["recover-in:"+in] = true
		case "recoveris":
			acc["recoveris-in:"+in] = true
			acc["recoveris:"+s.S+"/"+s.Form] = true
		case "repanic":
			acc["repanic-in:"+in] = true
		case "deferpanic":
			acc["deferpanic:"+s.S] = true
			if s.S == "nil" {
				acc["typed-nil:"+s.V] = true
			}
		case "defervar":
			acc["defervar:"+s.Form] = true
			if mayPanicLive(s.Body) {
				acc["panics:held-literal"] = true
			}
			features(s.Body, "held", acc)
		case "deferloop":
			acc["deferloop"] = true
			if s.Form != "" {
				acc["defer:"+s.Form] = true
				if mayPanicLive(s.Body) {
					acc["panics:deferred-in-loop"] = true
				}
				features(s.Body, "deferred", acc)
			}
		case "call":
			acc["call:"+s.Form] = true
			features(s.Body, "called", acc)
		case "defer":
			acc["defer:"+s.Form] = true
			if s.Arg == "param" || s.Arg == "res" {
				acc["defer-arg:"+s.Arg] = true
			}
			if mayPanicLive(s.Body) {
				acc["panics:deferred"] = true
				if in == "deferred" || in == "held" {
					acc["panics:deferred-nested"] = true
				}
			}
			features(s.Body, "deferred", acc)
		case "deferbin", "deferbinv", "deferdel", "setouter", "setres", "probe":
			acc[s.Op] = true
		}
	}
}

// mayPanicLive: the body (or something it calls or defers) contains a live panic statement.
func mayPanicLive(b []Stmt) bool {
	for _, s := range b {
		switch s.Op {
		case "panic", "deferpanic", "repanic":
			return true
		case "call", "defer", "defervar", "deferloop":
			if mayPanicLive(s.Body) {
				return true
			}
		}
		if s.Op == "panic" {
			return false
		}
	}
	return false
}

// panickingDefers counts the defer statements of one body whose callee may panic (several per frame).
func panickingDefers(b []Stmt) int {
	best := 0
	n := 0
	for _, s := range b {
		if s.Op == "panic" {
			break
		}
		switch s.Op {
		case "defer", "defervar":
			if mayPanicLive(s.Body) {
				n++
			}
		case "deferpanic":
			n++
		case "deferloop":
			if mayPanicLive(s.Body) {
				n += s.N
			}
		}
		if s.Body != nil {
			if m := panickingDefers(s.Body); m > best {
				best = m
			}
		}
	}
	if n > best {
		best = n
	}
	return best
}
