package main

// Runner for the real interpreter (variant of common.RunYaegi that also reports the interp.Panic value
// and whether a further Eval on the same interpreter still works), the canonicalisation of
// observations, and the compiled-Go side.

import (
	"bytes"
	"context"
	"fmt"
	"regexp"
	"strings"
	"sync"
	"time"

	"github.com/traefik/yaegi/interp"
	"github.com/traefik/yaegi/stdlib"
	"verif/harness/common"
)

// obs is a canonical observation: status ~ reusable ~ lines.
type obs struct {
	Status   string
	Reuse    string
	Lines    []string
	HostType string // real interpreter only: %T of interp.Panic.Value (not part of the compared string)
}

// typeTag maps the dynamic type of a panic value as the host sees it to the vocabulary of the Lean driver.
func typeTag(goType string) string {
	switch goType {
	case "string", "int", "reflect.Value":
		return goType
	case "*errors.errorString":
		return "error"
	}
	return strings.ReplaceAll(goType, " ", "_")
}

// goTypedNil: canonVal of `(*int) nil`, `(map[string]int) nil`, `([]string) 0xc000012345`, `(func()) nil`, `(chan int) nil`
var goTypedNil = regexp.MustCompile(`^\((\*int|map\[string\]int|\[\]string|func\(\)|chan_int)\)_(?:nil|0x[0-9a-f]+)$`)

var (
	strText = regexp.MustCompile(`^p\d+$`)
	errText = regexp.MustCompile(`^e\d+$`)
	intText = regexp.MustCompile(`^-?\d+$`)
)

// tagOfText: the generated programs raise strings `p<n>`, errors `e<n>` and ints only, so the text the toolchain
// prints for the value a compiled program died with determines its type.
func tagOfText(text string) string {
	switch {
	case strings.HasPrefix(text, "fault:"):
		return "fault"
	case strText.MatchString(text):
		return "string"
	case errText.MatchString(text):
		return "error"
	case intText.MatchString(text):
		return "int"
	}
	return "string" // any other text: a string written by hand in a replay
}

// typed appends the type tag to a `panic:<text>` status (programs of the mini-language only).
func typed(status, tag string) string {
	if !strings.HasPrefix(status, "panic:") || status == "panic:?" {
		return status
	}
	if strings.HasPrefix(status, "panic:fault:") {
		tag = "fault" // the values of run-time faults are not the Go runtime's (F06-5): observed as kinds only
	}
	return status + ":" + tag
}

func (o obs) String() string { return o.Status + "~" + o.Reuse + "~" + strings.Join(o.Lines, "|") }

var posPrefix = regexp.MustCompile(`^(\S+:)?\d+:\d+: `)

// canonVal maps a printed panic value to the model's vocabulary: run-time faults to `fault:<kind>`
// (the interpreter raises them through reflect, with other texts than the Go runtime), the rest unchanged.
func canonVal(s string) string {
	s = strings.TrimSpace(s)
	s = strings.TrimSuffix(s, " [recovered]")
	s = posPrefix.ReplaceAllString(s, "")
	switch {
	case strings.Contains(s, "assignment to entry in nil map"):
		return "fault:nilMap"
	case strings.Contains(s, "slice bounds out of range"), strings.Contains(s, "slice index out of bounds"):
		return "fault:sliceBounds"
	case strings.Contains(s, "index out of range"):
		return "fault:index"
	case strings.Contains(s, "nil pointer dereference"), strings.Contains(s, "reflect.Value.Field on zero Value"):
		return "fault:nilDeref"
	case strings.Contains(s, "integer divide by zero"):
		return "fault:divZero"
	case strings.Contains(s, "interface conversion"):
		return "fault:typeAssert"
	case strings.Contains(s, "close of closed channel"):
		return "fault:closeClosed"
	}
	return strings.ReplaceAll(s, " ", "_")
}

func canonLines(stdout string) []string {
	var out []string
	for _, l := range strings.Split(stdout, "\n") {
		if l == "" {
			continue
		}
		if strings.HasPrefix(l, "rec ") {
			// `rec <%v> |<%T>` (generated programs): value and dynamic type of what recover() returned
			if i := strings.LastIndex(l, " |"); i >= 4 {
				v := canonVal(l[4:i])
				t := typeTag(l[i+2:])
				if strings.HasPrefix(v, "fault:") {
					t = "fault" // the values of run-time faults are not the Go runtime's (F06-5): kinds only
				}
				out = append(out, "rec_"+v+"|"+t)
				continue
			}
			out = append(out, "rec_"+canonVal(l[4:]))
			continue
		}
		out = append(out, strings.ReplaceAll(l, " ", "_"))
	}
	return out
}

// safeBuf is a bytes.Buffer that may be written by a leaked interpreter goroutine while we read it.
type safeBuf struct {
	mu sync.Mutex
	b  bytes.Buffer
}

func (s *safeBuf) Write(p []byte) (int, error) {
	s.mu.Lock()
	defer s.mu.Unlock()
	return s.b.Write(p)
}
func (s *safeBuf) String() string {
	s.mu.Lock()
	defer s.mu.Unlock()
	return s.b.String()
}
func (s *safeBuf) Reset() {
	s.mu.Lock()
	defer s.mu.Unlock()
	s.b.Reset()
}

type evalRes struct {
	err     error
	crash   string
	timeout bool
}

// evalGuarded runs one Eval under recover, a context deadline and a watchdog.
func evalGuarded(i *interp.Interpreter, src string, timeout time.Duration) (r evalRes) {
	done := make(chan evalRes, 1)
	ctx, cancel := context.WithTimeout(context.Background(), timeout)
	defer cancel()
	go func() {
		var res evalRes
		defer func() {
			if p := recover(); p != nil {
				res.crash = fmt.Sprint(p)
			}
			done <- res
		}()
		_, res.err = i.EvalWithContext(ctx, src)
	}()
	select {
	case r = <-done:
		if ctx.Err() != nil {
			r.timeout = true
		}
	case <-time.After(timeout + 2*time.Second):
		r.timeout = true
	}
	return r
}

// runYaegiSrc evaluates a complete program in a fresh interpreter. entryCall != "" means the program has no
// `main`; the entry point is then called by a second Eval. Afterwards a further Eval checks that the
// interpreter is still usable.
func runYaegiSrc(src, entryCall string, timeout time.Duration) obs {
	so, se := &safeBuf{}, &safeBuf{}
	i := interp.New(interp.Options{Stdout: so, Stderr: se})
	if err := i.Use(stdlib.Symbols); err != nil {
		return obs{Status: "err:use", Reuse: "0"}
	}
	r := evalGuarded(i, src, timeout)
	if entryCall != "" && r.err == nil && r.crash == "" && !r.timeout {
		r = evalGuarded(i, entryCall, timeout)
	}
	o := obs{Lines: canonLines(so.String()), Reuse: "0"}
	switch {
	case r.timeout:
		o.Status = "timeout"
		return o // the interpreter goroutine may still be blocked: no reuse attempt
	case r.crash != "":
		o.Status = "crash"
	case r.err == nil:
		o.Status = "ok"
	default:
		if p, ok := r.err.(interp.Panic); ok {
			o.Status = "panic:" + canonVal(fmt.Sprint(p.Value))
			o.HostType = fmt.Sprintf("%T", p.Value)
			if p.Value == nil { // (a typed nil prints <nil> too, but it is a value: its type is observed)
				o.Status = "panic:?"
			}
		} else {
			o.Status = "err:" + strings.ReplaceAll(common.FirstLine(r.err.Error()), " ", "_")
		}
	}
	// the interpreter must remain usable: a new definition and a call of it
	so.Reset()
	r2 := evalGuarded(i, `func VerifAgain() { fmt.Println("again") }`, timeout)
	if !r2.timeout && r2.crash == "" {
		so.Reset()
		r2 = evalGuarded(i, `VerifAgain()`, timeout)
	}
	if !r2.timeout && r2.crash == "" && strings.HasPrefix(so.String(), "again\n") {
		o.Reuse = "1"
	}
	return o
}

func runYaegiProg(p Prog, timeout time.Duration) obs {
	var o obs
	if p.Style == "call" {
		o = runYaegiSrc(p.source("Main0"), "Main0()", timeout)
	} else {
		o = runYaegiSrc(p.source("main"), "", timeout)
	}
	o.Status = typed(o.Status, typeTag(o.HostType))
	if o.Status == "timeout" {
		o.Status = "hang" // the model's word for "Eval never returns" (the mini-language has no loops of its own)
	}
	return o
}

// goObsTyped: the observation of a compiled program of the mini-language, with the type tag of the value it died with.
func goObsTyped(g common.GoResult) obs {
	o := goObs(g)
	if m := goTypedNil.FindStringSubmatch(strings.TrimPrefix(o.Status, "panic:")); m != nil && strings.HasPrefix(o.Status, "panic:") {
		// the toolchain prints a typed nil it died with as `(T) nil` (`(T) 0x…` for a slice: the address of its header)
		t := strings.ReplaceAll(m[1], "_", " ")
		text := "<nil>"
		switch {
		case strings.HasPrefix(t, "map["):
			text = "map[]"
		case strings.HasPrefix(t, "[]"):
			text = "[]"
		}
		o.Status = "panic:" + text + ":" + typeTag(t)
		return o
	}
	o.Status = typed(o.Status, tagOfText(strings.TrimPrefix(o.Status, "panic:")))
	return o
}

// goObs canonicalises what the compiled program did.
func goObs(g common.GoResult) obs {
	o := obs{Lines: canonLines(g.Stdout), Reuse: "1"}
	switch {
	case g.CompileErr != "":
		o.Status = "cerr:" + strings.ReplaceAll(common.FirstLine(g.CompileErr), " ", "_")
	case g.Timeout:
		o.Status = "timeout"
	case g.Exit == 0:
		o.Status = "ok"
	default:
		// the toolchain prints the chain of panics in flight, the last one is the value the program died with:
		//   panic: first [recovered]
		//   	panic: second
		last := ""
		for _, l := range strings.Split(g.Stderr, "\n") {
			t := strings.TrimLeft(l, "\t ")
			if strings.HasPrefix(t, "panic: ") {
				last = strings.TrimPrefix(t, "panic: ")
				continue
			}
			if strings.HasPrefix(t, "fatal error: ") && last == "" {
				last = t
			}
			if strings.HasPrefix(l, "goroutine ") {
				break
			}
		}
		if last == "" {
			o.Status = fmt.Sprintf("exit:%d", g.Exit)
		} else {
			o.Status = "panic:" + canonVal(last)
		}
	}
	return o
}
