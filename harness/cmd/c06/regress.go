package main

// Raw-source regressions of repaired findings: complete programs on which the interpreter must agree
// with the compiled reference. They reach what the mini-language cannot express (argument types other
// than int, the builtin site). A disagreement is an unlisted failing input (VIOLATION) whose replay
// file (`kind: src`) can be re-run with --replay.

type regression struct {
	ID  string
	Src string
}

// host regressions: programs that end with an unrecovered panic; besides the output, the dynamic type of
// interp.Panic.Value seen by the embedder must be the one given here (F06-3: it was reflect.Value).
type hostRegression struct {
	ID       string
	Src      string
	HostType string // fmt.Sprintf("%T", err.(interp.Panic).Value)
}

var hostRegressions = []hostRegression{
	{"F06-3/host-string", "package main\n\nimport \"fmt\"\n\nvar _ = fmt.Sprint\n\nfunc main() {\n\tpanic(\"p1\")\n}\n", "string"},
	{"F06-3/host-int", "package main\n\nimport \"fmt\"\n\nvar _ = fmt.Sprint\n\nfunc main() {\n\tdefer func() {\n\t\tif x := recover(); x != nil {\n\t\t\tpanic(x)\n\t\t}\n\t}()\n\tpanic(143)\n}\n", "int"},
	{"F06-3/host-error", "package main\n\nimport (\n\t\"errors\"\n\t\"fmt\"\n)\n\nvar _ = fmt.Sprint\n\nfunc main() {\n\tdefer panic(errors.New(\"e1\"))\n}\n", "*errors.errorString"},
	{"F06-3/host-wrapped", "package main\n\nimport (\n\t\"errors\"\n\t\"fmt\"\n)\n\nvar base = errors.New(\"e1\")\n\nfunc main() {\n\tdefer func() { panic(fmt.Errorf(\"e2: %w\", base)) }()\n\tpanic(\"p1\")\n}\n", "*fmt.wrapError"},
}

// F06-1 (fixed): the arguments of a deferred call are those of the defer statement, at each of the three
// registration sites (call: interpreted callee; callBin: native callee; genBuiltinDeferWrapper: builtin)
// and for every kind of value — the variable is assigned again before the function returns.
var regressions = []regression{
	{"F06-1/call", `package main

import "fmt"

type T struct{ a, b int }

type Str interface{ String() string }

type S int

func (s S) String() string { return fmt.Sprint("S", int(s)) }

func (t *T) PM(x int) { fmt.Println("pmethod", x) }

func show(tag string, x int)               { fmt.Println(tag, x) }
func showI(tag string, x interface{})      { fmt.Println(tag, x) }
func showT(tag string, t T)                { fmt.Println(tag, t) }
func showS(tag string, s []int)            { fmt.Println(tag, s) }
func showP(tag string, p *int)             { fmt.Println(tag, *p) }
func showStr(tag string, s Str)            { fmt.Println(tag, s.String()) }
func show2(tag, s string, f float64, b bool) { fmt.Println(tag, s, f, b) }
func showV(tag string, xs ...int)          { fmt.Println(tag, xs) }

func named() (r int) {
	r = 1
	defer show("named-result", r)
	r = 2
	return 3
}

func main() {
	r := 1
	defer show("int", r)
	defer showI("empty-interface-param", r)
	t := T{1, 2}
	defer showT("struct", t)
	defer t.PM(t.a)
	s := []int{1, 2}
	defer showS("slice", s)
	x, y := 1, 5
	p := &x
	defer showP("pointer", p)
	var e interface{} = 1
	defer showI("interface-var", e)
	st := S(1)
	defer showStr("script-interface-param", st)
	var err error
	defer showI("nil-error", err)
	str, fl, b := "a", 1.5, true
	defer show2("string-float-bool", str, fl, b)
	defer showV("variadic", r, r+1)
	for j := 0; j < 3; j++ {
		defer show("loop-temporary", j*10)
	}
	fmt.Println(named())
	r = 2
	t = T{7, 8}
	t.a = 9
	s = []int{5, 6, 7}
	p = &y
	e = "two"
	st = S(2)
	err = fmt.Errorf("boom")
	str = "b"
	fl = 2.5
	b = false
}
`},
	{"F06-1/callBin", `package main

import (
	"fmt"
	"strings"
)

type T struct{ a, b int }

func named() (r int) {
	r = 1
	defer fmt.Println("named-result", r)
	r = 2
	return 3
}

func main() {
	r := 1
	defer fmt.Println("int", r)
	defer fmt.Printf("printf %d %v\n", r, r)
	t := T{1, 2}
	defer fmt.Println("struct", t)
	s := []int{1, 2}
	defer fmt.Println("slice", s)
	var e interface{} = 1
	defer fmt.Println("interface-var", e)
	var err error
	defer fmt.Println("nil-error", err)
	str, fl, b := "a", 1.5, true
	defer fmt.Println("string-float-bool", str, fl, b)
	var sb strings.Builder
	defer func() { fmt.Println("builder", sb.String()) }()
	defer sb.WriteString(str)
	for j := 0; j < 3; j++ {
		defer fmt.Println("loop-temporary", j*10)
	}
	fmt.Println(named())
	r = 2
	t = T{7, 8}
	t.a = 9
	s = []int{5, 6, 7}
	e = "two"
	err = fmt.Errorf("boom")
	str = "b"
	fl = 2.5
	b = false
}
`},
	{"F06-1/builtin", `package main

import "fmt"

func closed(c chan int) bool {
	select {
	case _, ok := <-c:
		return !ok
	default:
		return false
	}
}

func main() {
	m := map[int]int{1: 1, 2: 2}
	k := 1
	defer func() { fmt.Println("delete", m) }()
	defer delete(m, k)
	c1, c2 := make(chan int, 1), make(chan int, 1)
	ch := c1
	defer func() { fmt.Println("close", closed(c1), closed(c2)) }()
	defer close(ch)
	a, src := []int{1, 2, 3}, []int{9, 9, 9}
	defer func() { fmt.Println("copy", a) }()
	defer copy(a, src)
	k = 2
	ch = c2
	src = []int{4}
}
`},
	// F07 (fixed): a panic raised by a deferred call does not skip the deferred calls still pending in the frame;
	// it replaces the current panic — one, several, nested, in loops, in methods, a run-time fault.
	{"F07/deferred-panics", `package main

import (
	"errors"
	"fmt"
)

type T struct{ n int }

func (t T) Boom(tag string)  { fmt.Println("method", tag, t.n); panic("p" + fmt.Sprint(t.n)) }
func (t *T) Quiet(tag string) { fmt.Println("pmethod", tag, t.n) }

func show(tag string) { fmt.Println("show", tag) }

// one deferred call panics, others pending before and after it
func one() {
	defer show("one-first")
	defer func() { panic("p1") }()
	defer show("one-last")
	fmt.Println("one-body")
}

// several deferred calls panic: the last one raised wins, a recover registered first sees it
func several() (r int) {
	defer func() { fmt.Println("several-rec", recover()); r = 7 }()
	defer func() { panic("p2") }()
	defer show("several-mid")
	defer func() { panic(errors.New("e3")) }()
	panic("p4")
}

// nested: the deferred call's own deferred calls panic and recover
func nested() {
	defer show("nested-outer-pending")
	defer func() {
		defer show("nested-inner-pending")
		defer func() {
			fmt.Println("nested-inner-rec", recover())
			panic("p5")
		}()
		panic("p6")
	}()
	fmt.Println("nested-body")
}

// in a loop: every second deferred call panics
func loop() {
	defer func() { fmt.Println("loop-rec", recover()) }()
	for i := 0; i < 5; i++ {
		defer func(k int) {
			fmt.Println("loop", k)
			if k%2 == 1 {
				panic(100 + k)
			}
		}(i)
	}
}

// methods and a run-time fault in a deferred call
func methods() {
	t := T{3}
	defer (&t).Quiet("after")
	defer t.Boom("boom")
	defer func() {
		var m map[string]int
		m["k"] = 1
	}()
	defer show("methods-first-run")
}

// recovered in the middle: the calls after the recovering one run without a panic in flight
func middle() (r int) {
	defer func() { fmt.Println("middle-last", recover()); r++ }()
	defer func() { fmt.Println("middle-rec", recover()); r = 10 }()
	defer func() { panic("p7") }()
	return 1
}

func guard(name string, f func()) {
	defer func() { fmt.Println(name, "ended with", recover()) }()
	f()
}

func main() {
	guard("one", one)
	fmt.Println("several", several())
	guard("nested", nested)
	loop()
	guard("methods", methods)
	fmt.Println("middle", middle())
}
`},
	// F06-3 (fixed): recover() returns the value the panic was raised with: type assertions, type switches,
	// comparisons, errors.Is, re-panic chains.
	{"F06-3/recovered-value", `package main

import (
	"errors"
	"fmt"
)

type Pt struct{ x, y int }

var sentinel = errors.New("e1")

func inspect(tag string, r interface{}) {
	s, isS := r.(string)
	e, isE := r.(error)
	n, isN := r.(int)
	p, isP := r.(Pt)
	fmt.Printf("%s string=%v/%q error=%v int=%v/%d pt=%v/%v\n", tag, isS, s, isE, isN, n, isP, p)
	if isE {
		fmt.Println(tag, "Error()", e.Error(), "is-sentinel", errors.Is(e, sentinel), "unwrap", errors.Unwrap(e) == sentinel)
	}
	switch v := r.(type) {
	case string:
		fmt.Println(tag, "switch string", v, v == "p1")
	case int:
		fmt.Println(tag, "switch int", v+1)
	case Pt:
		fmt.Println(tag, "switch Pt", v.x+v.y)
	default:
		fmt.Println(tag, "switch other")
	}
	fmt.Println(tag, "==", r == "p1", r == 143, r == sentinel, r == Pt{1, 2}, r != nil)
}

func try(tag string, f func()) {
	defer func() { inspect(tag, recover()) }()
	f()
}

// re-panic chains: the value that arrives is the one first raised
func chain(depth int, v interface{}) {
	defer func() {
		if x := recover(); x != nil {
			panic(x)
		}
	}()
	if depth == 0 {
		panic(v)
	}
	chain(depth-1, v)
}

func main() {
	try("string", func() { panic("p1") })
	try("int", func() { panic(143) })
	try("sentinel", func() { panic(sentinel) })
	try("wrapped", func() { panic(fmt.Errorf("ctx: %w", sentinel)) })
	try("struct", func() { panic(Pt{1, 2}) })
	try("chain-string", func() { chain(3, "p1") })
	try("chain-int", func() { chain(2, 143) })
	try("chain-err", func() { chain(1, sentinel) })
	var iface interface{} = "p1"
	try("iface-var", func() { panic(iface) })
	x := 143
	try("int-var", func() { panic(x) })
	try("float", func() { panic(1.5) })
	try("expr", func() { panic("p" + fmt.Sprint(1)) })
	func() {
		defer func() {
			r := recover()
			fmt.Println("nothing", r == nil, r)
		}()
	}()
}
`},
	// F06-4 (fixed): defer panic(v) is deferred, its argument fixed at the defer statement.
	{"F06-4/defer-panic", `package main

import (
	"errors"
	"fmt"
)

// the argument of defer panic(v) is fixed at the defer statement; the rest of the body runs
func fixed() {
	defer func() { fmt.Println("fixed-rec", recover()) }()
	v := "p1"
	defer panic(v)
	v = "p2"
	fmt.Println("fixed-body", v)
}

// the deferred panic replaces the panic of the body; deferred calls registered before it still run
func replaces() {
	defer func() { fmt.Println("replaces-rec", recover()) }()
	defer fmt.Println("replaces-pending")
	defer panic(143)
	panic("p3")
}

// several, in a loop: the last one run (first registered) wins
func loop() {
	defer func() {
		r := recover()
		n, ok := r.(int)
		fmt.Println("loop-rec", r, n, ok)
	}()
	for i := 0; i < 3; i++ {
		defer panic(200 + i)
	}
	fmt.Println("loop-body")
}

// an error value, recovered as an error
func errval() {
	err := errors.New("e4")
	defer func() {
		e, ok := recover().(error)
		fmt.Println("errval-rec", ok, e == err)
	}()
	defer panic(err)
	err = errors.New("e5")
}

// not recovered: it reaches the caller
func escapes() {
	defer fmt.Println("escapes-pending")
	defer panic("p6")
	fmt.Println("escapes-body")
}

func main() {
	fixed()
	replaces()
	loop()
	errval()
	func() {
		defer func() { fmt.Println("main-rec", recover()) }()
		escapes()
	}()
}
`},
	// F06-2 (fixed): function literals held in variables, fields, slices, maps, deferred or called from deferred
	// closures, with and without a panic in flight: Eval returns (no dead-lock on the frame lock).
	{"F06-2/held-literals", `package main

import "fmt"

type S struct {
	f func(int)
	g func() int
}

// deferred from a variable, a field, a slice element, a map element; no panic
func plain() (r int) {
	h := func(a int) { fmt.Println("var", a); r += a }
	defer h(1)
	s := S{f: func(a int) { fmt.Println("field", a); r += a }}
	defer s.f(2)
	fs := []func(int){func(a int) { fmt.Println("slice", a); r += a }}
	defer fs[0](3)
	m := map[string]func(int){"k": func(a int) { fmt.Println("map", a); r += a }}
	defer m["k"](4)
	fmt.Println("plain-body")
	return 100
}

// the same with a panic in flight, recovered by a literal written at an earlier defer statement
func panicking() (r int) {
	defer func() { fmt.Println("panicking-rec", recover()); r += 1000 }()
	h := func(a int) { fmt.Println("var", a); r += a }
	defer h(1)
	s := S{f: func(a int) { fmt.Println("field", a); r += a }}
	defer s.f(2)
	fs := []func(int){func(a int) { fmt.Println("slice", a); r += a }}
	defer fs[0](3)
	panic("p1")
}

// called from a deferred closure (and from a closure called by it)
func fromClosure() {
	h := func(tag string) { fmt.Println("h", tag) }
	k := func(tag string) { h(tag + "-k") }
	defer func() {
		h("closure")
		k("closure")
		fmt.Println("fromClosure-rec", recover())
	}()
	panic("p2")
}

// a held literal that panics itself, others pending
func heldPanics() {
	defer func() { fmt.Println("heldPanics-rec", recover()) }()
	h := func() { fmt.Println("boom"); panic("p3") }
	q := func() { fmt.Println("quiet") }
	defer q()
	defer h()
	defer q()
}

// in a loop, one variable reassigned; deferred in a nested function; returned closure
func loops() {
	var h func(int)
	for i := 0; i < 3; i++ {
		h = func(a int) { fmt.Println("loop", a) }
		defer h(i * 10)
	}
	mk := func(tag string) func() { return func() { fmt.Println("made", tag) } }
	g := mk("g")
	defer g()
	defer mk("inline")()
	func() {
		inner := func() { fmt.Println("inner") }
		defer inner()
	}()
}

// a held literal that defers and recovers on its own (its own frame: works like any function)
func ownDefers() {
	h := func() {
		defer func() { fmt.Println("own-rec", recover()) }()
		panic("p4")
	}
	defer h()
	defer fmt.Println("ownDefers-pending")
}

// method value held in a variable
type T struct{ n int }

func (t T) M(a int) { fmt.Println("method-value", t.n, a) }

func methodValue() {
	t := T{5}
	m := t.M
	defer m(6)
	fmt.Println("methodValue-body")
}

func main() {
	fmt.Println(plain())
	fmt.Println(panicking())
	fromClosure()
	heldPanics()
	loops()
	ownDefers()
	methodValue()
	fmt.Println("done")
}
`},
	// eef6ac5 / 8600fa9 / 3081633 / bf66b2a: a deferred variadic call written with an ellipsis spreads its slice (interpreted,
	// native, method, literal and held callees), a variadic callee without variadic arguments gets a nil slice, the receiver of
	// a deferred method call is the one of the defer statement, a recovered nil asserted to an interface type is false.
	{"deferred-variadic-and-receivers", `package main

import (
	"errors"
	"fmt"
)

type T struct{ a, b int }

func (t T) M(x int)   { fmt.Println("value-method", t.a, t.b, x) }
func (t *T) PM(x int) { fmt.Println("pointer-method", t.a, t.b, x) }

func sum(tag string, xs ...int) {
	s := 0
	for _, x := range xs {
		s += x
	}
	fmt.Println(tag, len(xs), s, xs == nil)
}

type V struct{}

func (V) Spread(tag string, xs ...string) { fmt.Println("method-spread", tag, len(xs), xs) }

func recv() {
	t := T{1, 2}
	p := &t
	defer t.M(1)
	defer t.PM(2)
	defer p.M(3)
	defer p.PM(4)
	t = T{7, 8}
	t.a = 9
}

func variadic() {
	xs := []int{1, 2, 3}
	defer sum("spread", xs...)
	defer sum("listed", 4, 5)
	defer sum("none")
	var none []int
	defer sum("nil-spread", none...)
	args := []interface{}{"println-spread", 1, "two"}
	defer fmt.Println(args...)
	defer fmt.Println("println-listed", 1, "two")
	defer fmt.Printf("%s-%d\n", []interface{}{"printf-spread", 7}...)
	ss := []string{"a", "b"}
	defer V{}.Spread("m", ss...)
	defer func(xs ...int) { fmt.Println("literal-spread", xs) }(xs...)
	h := func(xs ...int) { fmt.Println("held-spread", xs) }
	defer h(xs...)
	xs = []int{9}
	args[1] = 5
	ss = nil
}

func spreadPanics() {
	defer func() { fmt.Println("spreadPanics-rec", recover()) }()
	defer fmt.Println("pending")
	defer func(es ...error) { panic(es[1]) }([]error{errors.New("e1"), errors.New("e2")}...)
}

func nilAssert() {
	defer func() {
		x := recover()
		e, ok := x.(error)
		s, ok2 := x.(fmt.Stringer)
		fmt.Println("nil-assert", e, ok, s, ok2)
	}()
}

func main() {
	recv()
	variadic()
	spreadPanics()
	nilAssert()
}
`},
}
