package main

// Raw-source regressions of repaired findings: complete programs on which the interpreter must agree
// with the compiled reference. They reach what the mini-language cannot express (argument types other
// than int, the builtin site). A disagreement is an unlisted failing input (VIOLATION) whose replay
// file (`kind: src`) can be re-run with --replay.

type regression struct {
	ID  string
	Src string
}

// F06-1 (fixed): the arguments of a deferred call are those of the defer statement, at each of the three
// registration sites (call: interpreted callee; callBin: native callee; genBuiltinDeferWrapper: builtin)
// and for every kind of value — the variable is assigned again before the function returns.
var regressions = []regression{
	{"F06-1/call", `package main

import "fmt"

type T struct{ a, b int }

type Str interface{ String() string }

type S int

func (s S) String() string { return fmt.Sprint("S", int(s)) }

func (t *T) PM(x int) { fmt.Println("pmethod", x) }

func show(tag string, x int)               { fmt.Println(tag, x) }
func showI(tag string, x interface{})      { fmt.Println(tag, x) }
func showT(tag string, t T)                { fmt.Println(tag, t) }
func showS(tag string, s []int)            { fmt.Println(tag, s) }
func showP(tag string, p *int)             { fmt.Println(tag, *p) }
func showStr(tag string, s Str)            { fmt.Println(tag, s.String()) }
func show2(tag, s string, f float64, b bool) { fmt.Println(tag, s, f, b) }
func showV(tag string, xs ...int)          { fmt.Println(tag, xs) }

func named() (r int) {
	r = 1
	defer show("named-result", r)
	r = 2
	return 3
}

func main() {
	r := 1
	defer show("int", r)
	defer showI("empty-interface-param", r)
	t := T{1, 2}
	defer showT("struct", t)
	defer t.PM(t.a)
	s := []int{1, 2}
	defer showS("slice", s)
	x, y := 1, 5
	p := &x
	defer showP("pointer", p)
	var e interface{} = 1
	defer showI("interface-var", e)
	st := S(1)
	defer showStr("script-interface-param", st)
	var err error
	defer showI("nil-error", err)
	str, fl, b := "a", 1.5, true
	defer show2("string-float-bool", str, fl, b)
	defer showV("variadic", r, r+1)
	for j := 0; j < 3; j++ {
		defer show("loop-temporary", j*10)
	}
	fmt.Println(named())
	r = 2
	t = T{7, 8}
	t.a = 9
	s = []int{5, 6, 7}
	p = &y
	e = "two"
	st = S(2)
	err = fmt.Errorf("boom")
	str = "b"
	fl = 2.5
	b = false
}
`},
	{"F06-1/callBin", `package main

import (
	"fmt"
	"strings"
)

type T struct{ a, b int }

func named() (r int) {
	r = 1
	defer fmt.Println("named-result", r)
	r = 2
	return 3
}

func main() {
	r := 1
	defer fmt.Println("int", r)
	defer fmt.Printf("printf %d %v\n", r, r)
	t := T{1, 2}
	defer fmt.Println("struct", t)
	s := []int{1, 2}
	defer fmt.Println("slice", s)
	var e interface{} = 1
	defer fmt.Println("interface-var", e)
	var err error
	defer fmt.Println("nil-error", err)
	str, fl, b := "a", 1.5, true
	defer fmt.Println("string-float-bool", str, fl, b)
	var sb strings.Builder
	defer func() { fmt.Println("builder", sb.String()) }()
	defer sb.WriteString(str)
	for j := 0; j < 3; j++ {
		defer fmt.Println("loop-temporary", j*10)
	}
	fmt.Println(named())
	r = 2
	t = T{7, 8}
	t.a = 9
	s = []int{5, 6, 7}
	e = "two"
	err = fmt.Errorf("boom")
	str = "b"
	fl = 2.5
	b = false
}
`},
	{"F06-1/builtin", `package main

import "fmt"

func closed(c chan int) bool {
	select {
	case _, ok := <-c:
		return !ok
	default:
		return false
	}
}

func main() {
	m := map[int]int{1: 1, 2: 2}
	k := 1
	defer func() { fmt.Println("delete", m) }()
	defer delete(m, k)
	c1, c2 := make(chan int, 1), make(chan int, 1)
	ch := c1
	defer func() { fmt.Println("close", closed(c1), closed(c2)) }()
	defer close(ch)
	a, src := []int{1, 2, 3}, []int{9, 9, 9}
	defer func() { fmt.Println("copy", a) }()
	defer copy(a, src)
	k = 2
	ch = c2
	src = []int{4}
}
`},
}
