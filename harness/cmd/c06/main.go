// C06 correspondence harness: panics, defers and recover.
//
//	impl  = the real interpreter of the repository (fresh interp per program; stdout, the interp.Panic value
//	        returned by Eval, and whether a further Eval on the same interpreter works)
//	model = Lean `runY Generated.C06.facts` (y=) and the Lean Go specification `Spec.run` (g=)
//	ref   = the same source compiled by the installed toolchain (stdout, last `panic:` line, exit status)
//
// Checked on every case: impl = y (correspondence), ref = g (spec validation), impl = ref (the property).
package main

import (
	"bytes"
	"encoding/json"
	"flag"
	"fmt"
	"os"
	"os/exec"
	"runtime"
	"sort"
	"strings"
	"sync"
	"time"

	"verif/harness/common"
)

const perCase = 4 * time.Second

// replayT is the input of a known finding / a replay file: a mini-language program or raw Go source.
type replayT struct {
	Kind  string `json:"kind"` // prog | src | host (raw source evaluated in a child process: may kill the host)
	Prog  *Prog  `json:"prog,omitempty"`
	Src   string `json:"src,omitempty"`
	Class string `json:"class,omitempty"`
}

func parseObs(s string) obs {
	parts := strings.SplitN(s, "~", 3)
	if len(parts) != 3 {
		return obs{Status: "bad:" + s}
	}
	o := obs{Status: parts[0], Reuse: parts[1]}
	if parts[2] != "" {
		o.Lines = strings.Split(parts[2], "|")
	}
	return o
}

// runAllYaegi runs the programs on a pool of goroutines (interpreters are independent).
func runAllYaegi(progs []Prog) []obs {
	res := make([]obs, len(progs))
	var wg sync.WaitGroup
	sem := make(chan struct{}, runtime.NumCPU())
	for i := range progs {
		wg.Add(1)
		sem <- struct{}{}
		go func(i int) {
			defer wg.Done()
			defer func() { <-sem }()
			res[i] = runYaegiProg(progs[i], perCase)
		}(i)
	}
	wg.Wait()
	return res
}

func runAllGo(srcs []string, run *common.Run) []obs {
	res := make([]obs, len(srcs))
	const batch = 400
	for lo := 0; lo < len(srcs); lo += batch {
		hi := lo + batch
		if hi > len(srcs) {
			hi = len(srcs)
		}
		gr, err := runGoBatchNoInline(srcs[lo:hi], 10*time.Second)
		if err != nil {
			run.Errorf("go batch: %v", err)
			for i := lo; i < hi; i++ {
				res[i] = obs{Status: "harness-error"}
			}
			continue
		}
		for i := lo; i < hi; i++ {
			res[i] = goObsTyped(gr[i-lo])
		}
	}
	return res
}

func nontrivial(p Prog) bool {
	f := map[string]bool{}
	features(p.Top, "top", f)
	hasDefer := false
	hasPanic := false
	for k := range f {
		if strings.HasPrefix(k, "defer") {
			hasDefer = true
		}
		if strings.HasPrefix(k, "panic:") {
			hasPanic = true
		}
	}
	return hasDefer && hasPanic
}

// childSrc: when set, this process only evaluates the given source file with the real interpreter and
// prints the observation (used for inputs that may kill the host process).
var childSrc = flag.String("child-src", "", "internal: evaluate this Go source file in a fresh interpreter and print the observation")

// runInChild evaluates src in a child process of this binary; a Go panic that kills the child is the
// observation `host-crash`.
func runInChild(src string) obs {
	f, err := os.CreateTemp("", "verif-c06-*.go")
	if err != nil {
		return obs{Status: "harness-error"}
	}
	defer os.Remove(f.Name())
	f.WriteString(src)
	f.Close()
	cmd := exec.Command(os.Args[0], "-child-src", f.Name())
	var so, se bytes.Buffer
	cmd.Stdout, cmd.Stderr = &so, &se
	done := make(chan error, 1)
	go func() { done <- cmd.Run() }()
	select {
	case err = <-done:
	case <-time.After(30 * time.Second):
		cmd.Process.Kill()
		return obs{Status: "timeout", Reuse: "0"}
	}
	if err != nil {
		if strings.Contains(se.String(), "panic: ") || strings.Contains(se.String(), "fatal error: ") {
			return obs{Status: "host-crash", Reuse: "0", Lines: canonLines(so.String())}
		}
		return obs{Status: "child-error", Reuse: "0"}
	}
	return parseObs(strings.TrimSpace(so.String()))
}

func main() {
	// flag.Parse happens inside NewRun; the child mode is recognised before any other work
	for i, a := range os.Args {
		if (a == "-child-src" || a == "--child-src") && i+1 < len(os.Args) {
			b, err := os.ReadFile(os.Args[i+1])
			if err != nil {
				fmt.Println("err:read~0~")
				return
			}
			fmt.Println(runYaegiSrc(string(b), "", perCase).String())
			return
		}
	}
	run := common.NewRun("C06")
	run.Res.Rule = "cases = programs of the C06 mini-language (call tree of functions func(a int)(r int) over print / call / defer f(arg) / defer of a function literal held in a variable, a struct field or a slice / defer fmt.Println / defer fmt.Println(slice...) / defer delete / defer panic(v) / defers in loops / panic(value of 3 types) / 7 run-time fault kinds / recover / recovered value compared (==) or type-asserted (string, int, error) against a value / re-panic of the recovered value / named-result assignment), generated from a seeded grammar in three streams (dom: inside the proved domain; dpanic: the same with deferred callees that panic often — several per frame, nested, in loops; heldrec: a held literal may call recover() itself, the one modelled divergence class F06-7; in every stream deferred callees may panic with other deferred calls pending, and a call / defer argument may be the named result variable, which is assigned before and after), plus raw-source regressions of repaired findings (F06-1: every argument kind at the three defer sites; F07: panics in deferred calls; F06-3: type assertions, type switches, comparisons, errors.Is, re-panic chains on recovered values, and the dynamic type of interp.Panic.Value seen by the host; F06-4: defer panic(v); F06-2: literals held in variables / fields / slices / maps, deferred or called from deferred closures; deferred variadic calls with an ellipsis at both sites and receivers of deferred method calls), each generated program rendered to Go source with callees as literals, named functions, value and pointer methods, run by yaegi in two driving styles (main run by Eval; definitions then Eval of a call) and compiled natively; the status of a run that ends in a panic carries the printed value and its dynamic type (yaegi: %T of interp.Panic.Value; model: the value's constructor; compiled Go: determined by the text, the generator's strings, errors and ints being textually disjoint); non-trivial = contains at least one defer statement and one panic/fault; distinct = distinct protocol line"
	defer run.Finish()
	drv, err := common.StartDriver("C06")
	if err != nil {
		run.Errorf("driver: %v", err)
		return
	}
	defer drv.Close()
	findings, err := common.LoadFindings("C06")
	if err != nil {
		run.Errorf("known findings: %v", err)
	}

	var progs []Prog
	var streams []string
	if run.Replay != "" {
		b, err := os.ReadFile(run.Replay)
		if err != nil {
			run.Errorf("replay: %v", err)
			return
		}
		var rp struct {
			Input replayT `json:"input"`
		}
		if err := json.Unmarshal(b, &rp); err != nil {
			run.Errorf("replay: %v", err)
			return
		}
		if rp.Input.Kind == "src" {
			im, rf := replaySrc(rp.Input.Src)
			if im.String() != rf.String() {
				run.Disagree(common.Disagreement{Kind: "impl-vs-ref", Input: rp.Input, Impl: im.String(), Ref: rf.String(), Finding: rp.Input.Class})
			}
			run.Count("src", true)
			return
		}
		if rp.Input.Prog == nil {
			run.Errorf("replay: no program")
			return
		}
		progs, streams = []Prog{*rp.Input.Prog}, []string{"replay"}
	} else {
		// listed findings are replayed first
		for _, f := range findings {
			var rp replayT
			if err := json.Unmarshal(f.Replay, &rp); err != nil {
				run.Errorf("finding %s: bad replay: %v", f.ID, err)
				continue
			}
			var im, rf obs
			if rp.Kind == "host" {
				// the property for the embedder: whatever the script does, Eval returns and the host survives
				im = runInChild(rp.Src)
				rf = obs{Status: "host-survives"}
				if im.Status != "host-crash" {
					im = obs{Status: "host-survives"}
				}
			} else if rp.Kind == "src" {
				im, rf = replaySrc(rp.Src)
			} else if rp.Prog != nil {
				im = runYaegiProg(*rp.Prog, perCase)
				rf = runAllGo([]string{rp.Prog.source("main")}, run)[0]
			}
			run.Res.Known = append(run.Res.Known, common.KnownReplay{ID: f.ID, Status: f.Status, What: f.What,
				StillFails: im.String() != rf.String(), Detail: fmt.Sprintf("impl=%s ref=%s", im, rf)})
		}
		// raw-source regressions of repaired findings: any disagreement is an unlisted failing input
		for _, rg := range regressions {
			im, rf := replaySrc(rg.Src)
			run.Count("regression:"+rg.ID, true)
			run.Hit("regression:" + rg.ID)
			if strings.HasPrefix(rf.Status, "harness-error") || strings.HasPrefix(rf.Status, "cerr") {
				run.Errorf("regression %s: the reference did not build: %s", rg.ID, rf.Status)
				continue
			}
			if im.String() != rf.String() {
				// the label is not a listed class (the finding is `fixed`): reported, under its own key, next to
				// whatever the generated programs show
				class := "regression:" + rg.ID
				run.Disagree(common.Disagreement{Kind: "impl-vs-ref", Input: replayT{Kind: "src", Src: rg.Src, Class: class}, Impl: im.String(), Ref: rf.String(),
					Finding: class, Note: "regression of a repaired finding: " + rg.ID})
			}
		}
		// programs that end with an unrecovered panic: what the host finds in interp.Panic.Value
		for _, rg := range hostRegressions {
			im, rf := replaySrc(rg.Src)
			run.Count("regression:"+rg.ID, true)
			run.Hit("regression:" + rg.ID)
			if strings.HasPrefix(rf.Status, "harness-error") || strings.HasPrefix(rf.Status, "cerr") {
				run.Errorf("regression %s: the reference did not build: %s", rg.ID, rf.Status)
				continue
			}
			if im.String() != rf.String() || im.HostType != rg.HostType {
				class := "regression:" + rg.ID
				run.Disagree(common.Disagreement{Kind: "impl-vs-ref", Input: replayT{Kind: "src", Src: rg.Src, Class: class},
					Impl: im.String() + " Panic.Value:" + im.HostType, Ref: rf.String() + " Panic.Value:" + rg.HostType,
					Finding: class, Note: "regression of a repaired finding: " + rg.ID})
			}
		}
		n := 2400
		if run.Thorough() {
			n = 40000
		}
		for i := 0; i < n; i++ {
			stream := "dom"
			switch i % 10 {
			case 5, 6, 8:
				stream = "dpanic"
			case 9:
				stream = "heldrec"
			}
			progs = append(progs, generateOne(run.Rng, stream))
			streams = append(streams, stream)
		}
	}

	lines := make([]string, len(progs))
	srcs := make([]string, len(progs))
	for i, p := range progs {
		lines[i] = p.line()
		srcs[i] = p.source("main")
	}
	answers, err := drv.AskAll(lines)
	if err != nil {
		run.Errorf("driver: %v", err)
		return
	}
	impls := runAllYaegi(progs)
	refs := runAllGo(srcs, run)

	var unlisted []pending
	for i, p := range progs {
		ans := common.Fields(answers[i])
		ys, gs := ans["y"], ans["g"]
		if ys == "" || gs == "" {
			run.Errorf("driver answered %q to %q", answers[i], lines[i])
			continue
		}
		y, g := parseObs(ys), parseObs(gs)
		// the class labels of this harness and the domain of the Lean theorem must meet exactly
		if (classOf(p) == "") != (ans["d"] == "1") {
			run.Errorf("class label %q but Lean Dom=%s on %s", classOf(p), ans["d"], lines[i])
		}
		if ans["d"] == "1" && ys != gs {
			// cannot happen while the extracted facts equal the expected ones (the theorem); with other
			// facts (a mutated source) this is what the violation search looks for
			run.Hit("model:y!=g-inside-dom")
		}
		im, rf := impls[i], refs[i]
		class := classOf(p)
		run.Count(lines[i], nontrivial(p))
		run.Hit("stream:" + streams[i])
		run.Hit("style:" + p.Style)
		run.Hit("impl-status:" + strings.SplitN(im.Status, ":", 2)[0])
		run.Hit("ref-status:" + strings.SplitN(rf.Status, ":", 2)[0])
		run.Hit(fmt.Sprintf("depth:%d", depthOf(expand(p.Top))))
		run.Hit(fmt.Sprintf("size:%02d-%02d", size(expand(p.Top))/5*5, size(expand(p.Top))/5*5+4))
		if class != "" {
			run.Hit("class:" + class)
		} else {
			run.Hit("class:in-domain")
		}
		if ys == gs {
			run.Hit("model:y=g")
		} else {
			run.Hit("model:y!=g")
		}
		fs := map[string]bool{}
		features(p.Top, "top", fs)
		for k := range fs {
			run.Hit("has:" + k)
		}
		if pd := panickingDefers(expand(p.Top)); pd > 0 {
			run.Hit(fmt.Sprintf("panicking-defers-per-frame:%d", min(pd, 4)))
		}
		if i < 8 {
			run.Sample(map[string]interface{}{"prog": p, "impl": im.String(), "model": ys, "spec": gs, "ref": rf.String()}, 8)
		}
		input := replayT{Kind: "prog", Prog: &progs[i], Class: class}
		if im.String() != y.String() {
			run.Disagree(common.Disagreement{Kind: "impl-vs-model", Input: input, Impl: im.String(), Model: ys, Ref: rf.String()})
		}
		if rf.String() != g.String() {
			run.Disagree(common.Disagreement{Kind: "spec-vs-ref", Input: input, Spec: gs, Ref: rf.String()})
		}
		if im.String() != rf.String() {
			d := common.Disagreement{Kind: "impl-vs-ref", Input: input, Impl: im.String(), Model: ys, Ref: rf.String(), Finding: class}
			if im.String() != y.String() {
				d.Finding, d.Note = "", "differs from the reference and from the model of the unchanged code (class "+class+")"
			}
			if d.Finding == "" {
				unlisted = append(unlisted, pending{d, progs[i], class})
			} else {
				run.Disagree(d)
			}
		}
	}
	// failing inputs that no listed class explains: smallest first, the smallest one shrunk further
	sort.SliceStable(unlisted, func(i, j int) bool { return size(expand(unlisted[i].p.Top)) < size(expand(unlisted[j].p.Top)) })
	for i, u := range unlisted {
		if i == 0 && run.Replay == "" {
			sp := shrink(u.p, u.class, run)
			if size(expand(sp.Top)) < size(expand(u.p.Top)) {
				im := runYaegiProg(sp, perCase)
				rf := runAllGo([]string{sp.source("main")}, run)[0]
				run.Disagree(common.Disagreement{Kind: "impl-vs-ref", Input: replayT{Kind: "prog", Prog: &sp, Class: classOf(sp)},
					Impl: im.String(), Ref: rf.String(), Note: "shrunk from a generated case; " + u.d.Note})
			}
		}
		run.Disagree(u.d)
	}
}

type pending struct {
	d     common.Disagreement
	p     Prog
	class string
}

// deletions returns every program obtained by deleting one statement (at any depth) or by replacing a
// call/defer statement by the statements of its callee's body.
func deletions(b []Stmt) [][]Stmt {
	var out [][]Stmt
	for i := range b {
		c := append(append([]Stmt{}, b[:i]...), b[i+1:]...)
		out = append(out, c)
		if b[i].Body != nil {
			for _, nb := range deletions(b[i].Body) {
				c := append([]Stmt{}, b...)
				c[i].Body = nb
				if nb == nil {
					c[i].Body = []Stmt{}
				}
				out = append(out, c)
			}
		}
	}
	return out
}

// shrink: delta debugging on statements; a candidate is kept when the implementation still differs from
// the reference and the candidate is still outside every listed class (or in the same class as before).
func shrink(p Prog, class string, run *common.Run) Prog {
	for round := 0; round < 40; round++ {
		var cands []Prog
		for _, t := range deletions(p.Top) {
			c := Prog{Top: t, Style: p.Style}
			if classOf(c) == class {
				cands = append(cands, c)
			}
		}
		if len(cands) == 0 {
			return p
		}
		srcs := make([]string, len(cands))
		for i, c := range cands {
			srcs[i] = c.source("main")
		}
		ims := runAllYaegi(cands)
		rfs := runAllGo(srcs, run)
		found := false
		for i := range cands {
			if strings.HasPrefix(rfs[i].Status, "cerr") || rfs[i].Status == "harness-error" {
				continue
			}
			if ims[i].String() != rfs[i].String() {
				p, found = cands[i], true
				break
			}
		}
		if !found {
			return p
		}
	}
	return p
}

// replaySrc runs raw Go source (a complete package main) on both sides.
func replaySrc(src string) (obs, obs) {
	im := runYaegiSrc(src, "", perCase)
	gr, err := runGoBatchNoInline([]string{src}, 10*time.Second)
	if err != nil {
		return im, obs{Status: "harness-error:" + err.Error()}
	}
	return im, goObs(gr[0])
}
