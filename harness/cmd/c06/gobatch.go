package main

import (
	"bytes"
	"context"
	"fmt"
	"os"
	"os/exec"
	"path/filepath"
	"regexp"
	"runtime"
	"strconv"
	"strings"
	"sync"
	"time"

	"verif/harness/common"
)

var mainReC06 = regexp.MustCompile(`(?m)^func main\(\)`)
var pkgReC06 = regexp.MustCompile(`(?m)^package main\b`)
var pkgDirReC06 = regexp.MustCompile(`\bp(\d{5})/`)

// runGoBatchNoInline is common.RunGoBatch with one difference: the programs are compiled with the
// inliner switched off (-gcflags=batch/...=-l). Reason (measured with go1.23.5): when a deferred named
// function or method is inlined into its defer wrapper, a recover() in a function literal that the
// deferred function merely CALLS becomes effective, which contradicts the language specification
// ("recover was not called directly by a deferred function" => nil). Without the inliner the toolchain
// follows the specification.
//
// It compiles every program (each a complete `package main` with `func main()`) with the
// installed toolchain — all linked into one dispatcher binary per batch, so a few hundred
// programs cost one `go build` — and runs each in its own process. Scratch files live in a fresh
// temporary directory that is removed before returning.
func runGoBatchNoInline(progs []string, perRun time.Duration) ([]common.GoResult, error) {
	res := make([]common.GoResult, len(progs))
	if len(progs) == 0 {
		return res, nil
	}
	dir, err := os.MkdirTemp("", "verif-gobatch-")
	if err != nil {
		return nil, err
	}
	defer os.RemoveAll(dir)
	if err := os.WriteFile(filepath.Join(dir, "go.mod"), []byte("module batch\n\ngo 1.22\n"), 0o644); err != nil {
		return nil, err
	}
	alive := map[int]bool{}
	for i, src := range progs {
		if !mainReC06.MatchString(src) || !pkgReC06.MatchString(src) {
			res[i].CompileErr = "harness: program lacks `package main` / `func main()`"
			continue
		}
		s := pkgReC06.ReplaceAllString(src, fmt.Sprintf("package p%05d", i))
		s = mainReC06.ReplaceAllString(s, "func Main()")
		d := filepath.Join(dir, fmt.Sprintf("p%05d", i))
		if err := os.MkdirAll(d, 0o755); err != nil {
			return nil, err
		}
		if err := os.WriteFile(filepath.Join(d, "p.go"), []byte(s), 0o644); err != nil {
			return nil, err
		}
		alive[i] = true
	}
	env := append(os.Environ(), "GOFLAGS=-mod=mod", "GOPROXY=off", "GOSUMDB=off", "GOTOOLCHAIN=local", "GO111MODULE=on")
	bin := filepath.Join(dir, "batch.bin")
	for attempt := 0; ; attempt++ {
		var b strings.Builder
		b.WriteString("package main\n\nimport (\n\t\"os\"\n\t\"strconv\"\n")
		for i := range progs {
			if alive[i] {
				fmt.Fprintf(&b, "\tp%05d \"batch/p%05d\"\n", i, i)
			}
		}
		b.WriteString(")\n\nfunc main() {\n\tn, _ := strconv.Atoi(os.Args[1])\n\tswitch n {\n")
		for i := range progs {
			if alive[i] {
				fmt.Fprintf(&b, "\tcase %d:\n\t\tp%05d.Main()\n", i, i)
			}
		}
		b.WriteString("\t}\n}\n")
		if err := os.WriteFile(filepath.Join(dir, "main.go"), []byte(b.String()), 0o644); err != nil {
			return nil, err
		}
		cmd := exec.Command("go", "build", "-gcflags=batch/...=-l", "-o", bin, ".")
		cmd.Dir = dir
		cmd.Env = env
		out, err := cmd.CombinedOutput()
		if err == nil {
			break
		}
		// attribute the errors to packages, drop those, retry
		bad := map[int][]string{}
		for _, l := range strings.Split(string(out), "\n") {
			if m := pkgDirReC06.FindStringSubmatch(l); m != nil {
				n, _ := strconv.Atoi(m[1])
				bad[n] = append(bad[n], l)
			}
		}
		if len(bad) == 0 || attempt > 20 {
			return nil, fmt.Errorf("go build of batch failed: %v\n%s", err, out)
		}
		for n, ls := range bad {
			if len(ls) > 4 {
				ls = ls[:4]
			}
			res[n].CompileErr = strings.Join(ls, "\n")
			delete(alive, n)
		}
	}
	var wg sync.WaitGroup
	sem := make(chan struct{}, runtime.NumCPU())
	for i := range progs {
		if !alive[i] {
			continue
		}
		wg.Add(1)
		sem <- struct{}{}
		go func(i int) {
			defer wg.Done()
			defer func() { <-sem }()
			ctx, cancel := context.WithTimeout(context.Background(), perRun)
			defer cancel()
			cmd := exec.CommandContext(ctx, bin, strconv.Itoa(i))
			cmd.Env = append(os.Environ(), "GOTRACEBACK=single", "GOMEMLIMIT=512MiB")
			var so, se bytes.Buffer
			cmd.Stdout, cmd.Stderr = &so, &se
			err := cmd.Run()
			r := &res[i]
			r.Stdout, r.Stderr = so.String(), se.String()
			if ctx.Err() != nil {
				r.Timeout = true
			}
			if ee, ok := err.(*exec.ExitError); ok {
				r.Exit = ee.ExitCode()
			} else if err != nil {
				r.Exit = -1
			}
		}(i)
	}
	wg.Wait()
	return res, nil
}
