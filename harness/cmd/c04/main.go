// C04 correspondence harness: values are copied or shared exactly as Go prescribes.
//
//	impl  = the real interpreter of the repository (fresh interp per program; stdout lines + panic kind)
//	model = Lean `runY Generated.C04.share` (y=) and the Lean Go specification `Spec.runGo` (g=)
//	ref   = the same source compiled by the installed toolchain
//
// Checked on every case: impl = y (correspondence), ref = g (spec validation), impl = ref (the property).
package main

import (
	"encoding/json"
	"fmt"
	"math/rand"
	"os"
	"runtime"
	"sort"
	"strings"
	"sync"
	"time"

	"verif/harness/common"
)

const perCase = 10 * time.Second

// replayT is the input of a known finding / a replay file: an operation sequence or raw Go source.
type replayT struct {
	Kind  string `json:"kind"` // prog | src
	Prog  *Prog  `json:"prog,omitempty"`
	Src   string `json:"src,omitempty"`
	Class string `json:"class,omitempty"`
}

// The generator has no class switches any more: every finding that used to be a stream (define-lit-in-loop,
// lookup2-define-in-loop, multidefine-redeclared, append-alias-args) has been repaired in the repository; the shapes
// stay in the default stream (gen.go) and 30 % of the programs start with one of them on purpose (shapes.go).

// canonStatus: which run-time fault ended the program is not compared (when a statement has two faulting
// operands the order in which they are detected is not part of the property); that it panicked is.
func canonStatus(st string) string {
	switch st {
	case "index", "bounds", "nilderef", "nilmap":
		return "panic"
	}
	return st
}

func canonObs(o string) string {
	i := strings.IndexByte(o, '~')
	if i < 0 {
		return o
	}
	return canonStatus(o[:i]) + o[i:]
}

func canonErr(s string) string {
	switch {
	case s == "":
		return "ok"
	case strings.Contains(s, "index out of range"), strings.Contains(s, "slice index out of bounds") && !strings.Contains(s, "Slice"):
		return "index"
	case strings.Contains(s, "slice bounds out of range"), strings.Contains(s, "slice index out of bounds"), strings.Contains(s, "Slice3"):
		return "bounds"
	case strings.Contains(s, "nil pointer dereference"), strings.Contains(s, "on zero Value"), strings.Contains(s, "on nil"),
		strings.Contains(s, "Addr of unaddressable value"): // `&*p` with p nil
		return "nilderef"
	case strings.Contains(s, "assignment to entry in nil map"):
		return "nilmap"
	}
	return "other:" + strings.ReplaceAll(common.FirstLine(s), " ", "_")
}

func obsString(status string, stdout string) string {
	stdout = strings.TrimSuffix(stdout, "\n")
	lines := []string{}
	if stdout != "" {
		lines = strings.Split(stdout, "\n")
	}
	return status + "~" + strings.Join(lines, "|")
}

func yaegiObs(src string) string {
	r := common.RunYaegi(src, perCase)
	st := "ok"
	switch {
	case r.Timeout:
		st = "timeout"
	case r.Crash != "":
		st = "crash:" + strings.ReplaceAll(common.FirstLine(r.Crash), " ", "_")
	case r.Err != "":
		st = canonErr(r.Err)
	}
	return obsString(st, r.Stdout)
}

func goObs(g common.GoResult) string {
	st := "ok"
	switch {
	case strings.HasPrefix(g.CompileErr, "toolchain: "):
		return "toolchain-failure:" + strings.ReplaceAll(common.FirstLine(g.CompileErr), " ", "_") + "~"
	case g.CompileErr != "":
		return "cerr:" + strings.ReplaceAll(common.FirstLine(g.CompileErr), " ", "_") + "~"
	case g.Timeout:
		st = "timeout"
	case g.Exit != 0:
		st = canonErr(g.Panic())
		if g.Panic() == "" {
			st = fmt.Sprintf("exit:%d", g.Exit)
		}
	}
	return obsString(st, g.Stdout)
}

func runAllYaegi(srcs []string) []string {
	res := make([]string, len(srcs))
	var wg sync.WaitGroup
	sem := make(chan struct{}, runtime.NumCPU())
	for i := range srcs {
		wg.Add(1)
		sem <- struct{}{}
		go func(i int) {
			defer wg.Done()
			defer func() { <-sem }()
			res[i] = yaegiObs(srcs[i])
		}(i)
	}
	wg.Wait()
	return res
}

// goBatch compiles and runs one batch; when the toolchain fails on the batch as a whole (an internal compiler
// error is not attributed to a package by common.RunGoBatch) the batch is halved until the culprit is alone.
func goBatch(srcs []string) []string {
	out := make([]string, len(srcs))
	gr, err := runGoBatchPrivate(srcs, 20*time.Second)
	if err == nil {
		for i := range srcs {
			out[i] = goObs(gr[i])
		}
		return out
	}
	if len(srcs) == 1 {
		out[0] = "toolchain-failure:" + strings.ReplaceAll(common.FirstLine(strings.TrimPrefix(err.Error(), "go build of batch failed: exit status 1\n")), " ", "_") + "~"
		return out
	}
	h := len(srcs) / 2
	copy(out, goBatch(srcs[:h]))
	copy(out[h:], goBatch(srcs[h:]))
	return out
}

func runAllGo(srcs []string, run *common.Run) []string {
	res := make([]string, len(srcs))
	const batch = 250
	const wave = 4 // `go build` is itself parallel
	type job struct{ lo, hi int }
	var jobs []job
	for lo := 0; lo < len(srcs); lo += batch {
		hi := lo + batch
		if hi > len(srcs) {
			hi = len(srcs)
		}
		jobs = append(jobs, job{lo, hi})
	}
	for w := 0; w < len(jobs); w += wave {
		var wg sync.WaitGroup
		for k := w; k < w+wave && k < len(jobs); k++ {
			wg.Add(1)
			go func(j job) {
				defer wg.Done()
				out := goBatch(srcs[j.lo:j.hi])
				for i := j.lo; i < j.hi; i++ {
					res[i] = out[i-j.lo]
				}
			}(jobs[k])
		}
		wg.Wait()
		trimGoCache()
	}
	// a compiled program that timed out on a loaded machine is run once more, alone and with a longer limit
	for i := range res {
		if strings.HasPrefix(res[i], "timeout~") {
			if gr, err := runGoBatchPrivate(srcs[i:i+1], 120*time.Second); err == nil {
				res[i] = goObs(gr[0])
			}
		}
	}
	return res
}

type caseT struct {
	prog   Prog
	stream string
}

// generateAll builds n programs on a pool of workers, each with its own driver; program i depends only on seed i.
func generateAll(run *common.Run, n int) []caseT {
	seeds := make([]int64, n)
	for i := range seeds {
		seeds[i] = run.Rng.Int63()
	}
	out := make([]caseT, n)
	workers := runtime.NumCPU()
	if workers > 8 {
		workers = 8
	}
	var wg sync.WaitGroup
	var mu sync.Mutex
	next := 0
	for w := 0; w < workers; w++ {
		wg.Add(1)
		go func() {
			defer wg.Done()
			drv, err := startWD()
			if err != nil {
				mu.Lock()
				run.Errorf("driver: %v", err)
				mu.Unlock()
				return
			}
			defer func() { drv.kill() }()
			for {
				mu.Lock()
				i := next
				next++
				mu.Unlock()
				if i >= n {
					return
				}
				rng := rand.New(rand.NewSource(seeds[i]))
				stream, shape := "random", -1
				switch i % 10 {
				case 6, 7, 8:
					shape = (i/10*3 + i%10 - 6) % nShapes
					stream = fmt.Sprintf("seeded-%d", shape)
				}
				p, g := generate(rng, drv, shape)
				out[i] = caseT{p, stream}
				if len(g.ill) > 0 {
					mu.Lock()
					run.Errorf("generator produced an ill-typed operation: %s", g.ill[0])
					mu.Unlock()
				}
			}
		}()
	}
	wg.Wait()
	return out
}

func opKinds(p *Prog) map[string]bool {
	k := map[string]bool{}
	rex := func(r *RExp) {
		for ; r != nil; r = r.A {
			k["expr:"+r.K] = true
		}
	}
	sop := func(o *SOp, where string) {
		k[where+o.K] = true
		if o.Wrap {
			k["in-closure"] = true
		}
		rex(o.R)
		rex(o.S)
		rex(o.D)
		for i := range o.Elems {
			rex(&o.Elems[i].R)
		}
		for i := range o.Rs {
			rex(&o.Rs[i])
		}
		for i := range o.Args {
			rex(&o.Args[i])
		}
	}
	for i := range p.Ops {
		o := &p.Ops[i]
		switch o.K {
		case "":
			sop(o.S, "op:")
		case "rng":
			k["op:range"] = true
			if o.SK != "" {
				k["op:range-"+o.SK] = true
			}
			for j := range o.Body {
				sop(&o.Body[j], "body:")
			}
		case "capt":
			k["op:capture"] = true
		}
	}
	return k
}

// nontrivial: at least one statement that writes through a location that is not a plain variable, or a
// reference-creating expression, after the pool exists (i.e. something that can tell a copy from a share).
func nontrivial(p *Prog) bool {
	k := opKinds(p)
	n := 0
	for _, s := range []string{"expr:adr", "expr:sl", "expr:new", "op:app", "op:apps", "op:cp", "op:ms", "op:call", "op:mul", "op:capture",
		"op:range", "expr:id", "op:muld", "op:lk2", "op:rcv", "op:as2", "op:clit", "op:cnm", "op:rsw"} {
		if k[s] {
			n++
		}
	}
	return n >= 2 && len(p.Ops) >= 5
}

func size(p *Prog) int {
	n := 0
	for i := range p.Ops {
		n += 1 + len(p.Ops[i].Body)
	}
	return n
}

type outcome struct {
	y, g, d, class string
	impl, ref      string
	src            string
	fault          string // the reference's status before canonicalisation
}

// evaluate runs the programs on all four sides.
func evaluate(run *common.Run, drv *common.Driver, progs []Prog) []outcome {
	res := make([]outcome, len(progs))
	lines := make([]string, len(progs))
	srcs := make([]string, len(progs))
	for i := range progs {
		lines[i] = progs[i].line()
		s, err := progs[i].source()
		if err != nil {
			run.Errorf("render: %v on %s", err, lines[i])
			s = "package main\nfunc main() {}\n"
		}
		srcs[i] = s
		res[i].src = s
	}
	answers, err := drv.AskAll(lines)
	if err != nil {
		run.Errorf("driver: %v", err)
		return nil
	}
	impls := runAllYaegi(srcs)
	refs := runAllGo(srcs, run)
	for i := range progs {
		a := common.Fields(answers[i])
		// the observation may contain spaces (one printed line per statement): split on the markers instead
		y, g, d, c := splitAnswer(answers[i])
		_ = a
		res[i].y, res[i].g, res[i].d, res[i].class = canonObs(y), canonObs(g), d, c
		res[i].impl, res[i].ref = canonObs(impls[i]), canonObs(refs[i])
		res[i].fault = strings.SplitN(refs[i], "~", 2)[0]
	}
	return res
}

// splitAnswer parses "y=… g=… d=… c=…" where the observations contain spaces.
func splitAnswer(ans string) (y, g, d, c string) {
	iy, ig, id, ic := strings.Index(ans, "y="), strings.LastIndex(ans, " g="), strings.LastIndex(ans, " d="), strings.LastIndex(ans, " c=")
	if iy != 0 || ig < 0 || id < ig || ic < id {
		return "bad:" + ans, "bad", "", ""
	}
	y, g, d, c = ans[2:ig], ans[ig+3:id], ans[id+3:ic], ans[ic+3:]
	if c == "-" {
		c = ""
	}
	return
}

func main() {
	run := common.NewRun("C04")
	run.Res.Rule = "cases = (a) operation sequences (4–12 statements after a pool of 3–5 declarations) over variables of nested composite types (arrays of structs, structs with array/slice/map/pointer fields, slices of slices and of arrays, pointers to ints/structs/arrays, maps to ints/structs/arrays/slices, slices of pointers), drawn by a seeded type-directed generator from: assign / op-assign to variables, fields, elements and pointees; define (composite literals of every kind, also in loop bodies); multi-assign (swaps, rotations, index variable and element in one statement); multi-define (also redeclaring variables of the same scope); append (in place and growing, operands aliasing the destination), append of a slice, copy (overlapping), 2- and 3-index slicing of slices, arrays and array pointers; map insert / delete / lookup / comma-ok lookup in both forms (declared in loop bodies, with redeclared variables); address-of (also &p[i] through a pointer to an array, &[n]T{…} per iteration), dereference (explicit and automatic, nil pointers feeding map stores); passing to and returning from functions (identity, and one that mutates its parameter); range over arrays, slices and pointers to arrays with mutation in the body; closures capturing a per-iteration variable; statements wrapped in immediately called closures; every declared variable is also assigned to the blank identifier. Each program prints the whole pool (deep rendering: no addresses, len/cap and nil-ness of slices) after every statement. Every statement is checked against the Lean specification model while generating, so sequences are panic-free except for a deliberate share of panicking last statements. 30 % of the programs start with one of nine seeds: the shapes of the findings repaired on 2026-09-26 (F04-4 … F04-12) with random types, values and indices. No class of operation sequences is excluded or suppressed. (b) source templates (16, random types / values / counts / call orders) for shapes outside the operation language: closures over variables declared from literals in loop bodies, &literal per iteration in three-clause loops, v, ok := <-ch with &v, redeclared captured variables, blank assignments, nil dereference whose value is unused, range over pointer to array in its three forms, &p[i]; four of them are the open findings F04-13 … F04-16 (class label = template). non-trivial (a) = at least 5 statements and two different reference-creating or reference-using constructs (address-of, slicing, new, append, copy, map insert, call, multi-assign, capture, range, …), (b) = every template instance; distinct = distinct protocol line / distinct source text"
	defer run.Finish()
	defer setupGoCache(run)()
	drv, err := common.StartDriver("C04")
	if err != nil {
		run.Errorf("driver: %v", err)
		return
	}
	defer drv.Close()
	findings, err := common.LoadFindings("C04")
	if err != nil {
		run.Errorf("known findings: %v", err)
	}

	var cases []caseT
	if run.Replay != "" {
		b, err := os.ReadFile(run.Replay)
		if err != nil {
			run.Errorf("replay: %v", err)
			return
		}
		var rp struct {
			Input replayT `json:"input"`
		}
		if err := json.Unmarshal(b, &rp); err != nil {
			run.Errorf("replay: %v", err)
			return
		}
		if rp.Input.Kind == "src" {
			im := canonObs(yaegiObs(rp.Input.Src))
			rf := canonObs(runAllGo([]string{rp.Input.Src}, run)[0])
			if im != rf {
				run.Disagree(common.Disagreement{Kind: "impl-vs-ref", Input: rp.Input, Impl: im, Ref: rf, Finding: rp.Input.Class})
			}
			run.Count("src", true)
			return
		}
		if rp.Input.Prog == nil {
			run.Errorf("replay: no program")
			return
		}
		if os.Getenv("VERIF_C04_SHOWSRC") != "" {
			src, _ := rp.Input.Prog.source()
			fmt.Fprintln(os.Stderr, rp.Input.Prog.line())
			fmt.Fprintln(os.Stderr, src)
		}
		cases = []caseT{{*rp.Input.Prog, "replay"}}
	} else {
		// listed findings are replayed first
		for _, f := range findings {
			var rp replayT
			if err := json.Unmarshal(f.Replay, &rp); err != nil {
				run.Errorf("finding %s: bad replay: %v", f.ID, err)
				continue
			}
			src := rp.Src
			if rp.Kind != "src" {
				if rp.Prog == nil {
					run.Errorf("finding %s: no program", f.ID)
					continue
				}
				s, err := rp.Prog.source()
				if err != nil {
					run.Errorf("finding %s: %v", f.ID, err)
					continue
				}
				src = s
			}
			im := canonObs(yaegiObs(src))
			rf := canonObs(runAllGo([]string{src}, run)[0])
			run.Res.Known = append(run.Res.Known, common.KnownReplay{ID: f.ID, Status: f.Status, What: f.What,
				StillFails: im != rf, Detail: fmt.Sprintf("impl=%s ref=%s", clip(im), clip(rf))})
		}
		n := 5000
		if run.Thorough() {
			n = 40000
		}
		if v := os.Getenv("VERIF_C04_N"); v != "" {
			fmt.Sscan(v, &n)
		}
		cases = generateAll(run, n)
	}

	progs := make([]Prog, len(cases))
	for i := range cases {
		progs[i] = cases[i].prog
	}
	outs := evaluate(run, drv, progs)
	if outs == nil {
		return
	}
	type pending struct {
		d common.Disagreement
		p Prog
		c string
	}
	var unlisted []pending
	listed := listedClasses()
	for i, p := range progs {
		o := outs[i]
		line := p.line()
		run.Count(line, nontrivial(&p))
		run.Hit("stream:" + cases[i].stream)
		// o.class: the formerly diverging shapes the program contains (coverage only: none is a finding any more)
		if o.class != "" {
			for _, c := range strings.Split(o.class, ",") {
				run.Hit("shape:" + c)
			}
		} else {
			run.Hit("shape:none")
		}
		for k := range opKinds(&p) {
			run.Hit("has:" + k)
		}
		run.Hit(fmt.Sprintf("size:%02d-%02d", size(&p)/4*4, size(&p)/4*4+3))
		run.Hit("impl-status:" + strings.SplitN(strings.SplitN(o.impl, "~", 2)[0], ":", 2)[0])
		run.Hit("ref-status:" + strings.SplitN(strings.SplitN(o.ref, "~", 2)[0], ":", 2)[0])
		run.Hit("ref-fault:" + strings.SplitN(o.fault, ":", 2)[0])
		if o.y == o.g {
			run.Hit("model:y=g")
		} else {
			run.Hit("model:y!=g") // impossible while the extracted facts equal the expected ones (theorem ops_refine)
		}
		if i < 6 {
			run.Sample(map[string]interface{}{"prog": p, "impl": clip(o.impl), "model": clip(o.y), "spec": clip(o.g), "ref": clip(o.ref)}, 6)
		}
		input := replayT{Kind: "prog", Prog: &progs[i]}
		if strings.HasPrefix(o.ref, "toolchain-failure:") {
			run.Hit("toolchain-failure") // the Go compiler itself crashed on this program (seen: "internal compiler error: nilcheck still has 1 uses")
			continue
		}
		if strings.HasPrefix(o.ref, "cerr:") || strings.HasPrefix(o.ref, "harness-error") {
			run.Errorf("generated program does not compile: %s on %s", o.ref, line)
			continue
		}
		if o.impl != o.y {
			run.Disagree(common.Disagreement{Kind: "impl-vs-model", Input: input, Impl: diffClip(o.impl, o.y), Model: diffClip(o.y, o.impl), Ref: diffClip(o.ref, o.impl)})
		}
		if o.ref != o.g {
			run.Disagree(common.Disagreement{Kind: "spec-vs-ref", Input: input, Spec: diffClip(o.g, o.ref), Ref: diffClip(o.ref, o.g)})
		}
		if o.impl != o.ref {
			// no class of operation sequences is a listed finding any more: every such input is a violation
			d := common.Disagreement{Kind: "impl-vs-ref", Input: input, Impl: diffClip(o.impl, o.ref), Model: diffClip(o.y, o.ref), Ref: diffClip(o.ref, o.impl)}
			if o.impl != o.y {
				d.Note = "differs from the reference and from the model of the unchanged code (shapes: " + o.class + ")"
			} else if o.class != "" {
				d.Note = "shapes: " + o.class
			}
			unlisted = append(unlisted, pending{d, p, o.class})
		}
	}
	// failing inputs that no listed class explains: smallest first, the smallest one shrunk further
	sort.SliceStable(unlisted, func(i, j int) bool { return size(&unlisted[i].p) < size(&unlisted[j].p) })
	for i, u := range unlisted {
		if i == 0 && run.Replay == "" {
			sp := shrink(run, drv, u.p, u.c)
			if size(&sp) < size(&u.p) {
				o := evaluate(run, drv, []Prog{sp})
				if o != nil && o[0].impl != o[0].ref {
					run.Disagree(common.Disagreement{Kind: "impl-vs-ref", Input: replayT{Kind: "prog", Prog: &sp},
						Impl: diffClip(o[0].impl, o[0].ref), Ref: diffClip(o[0].ref, o[0].impl), Finding: u.d.Finding, Note: "shrunk from a generated case; " + u.d.Note})
				}
			}
		}
		run.Disagree(u.d)
	}
	if run.Replay == "" {
		nsrc := 480
		if run.Thorough() {
			nsrc = 4000
		}
		if v := os.Getenv("VERIF_C04_NSRC"); v != "" {
			fmt.Sscan(v, &nsrc)
		}
		runSrcStream(run, nsrc, listed)
	}
}

// runSrcStream: the source-level templates (srcgen.go), interpreter against compiled program.
func runSrcStream(run *common.Run, n int, listed map[string]bool) {
	cases := make([]srcCase, n)
	srcs := make([]string, n)
	for i := range cases {
		rng := rand.New(rand.NewSource(run.Rng.Int63()))
		cases[i] = genSrc(rng, i)
		srcs[i] = cases[i].src
	}
	impls := runAllYaegi(srcs)
	refs := runAllGo(srcs, run)
	for i, c := range cases {
		run.Count("src:"+c.src, true)
		run.Hit("stream:source-templates")
		run.Hit("src:" + c.label)
		im, rf := canonObs(impls[i]), canonObs(refs[i])
		if strings.HasPrefix(rf, "toolchain-failure:") {
			run.Hit("toolchain-failure")
			continue
		}
		if strings.HasPrefix(rf, "cerr:") || strings.HasPrefix(rf, "timeout") {
			run.Errorf("source template %s does not compile / run: %s\n%s", c.label, rf, c.src)
			continue
		}
		if im != rf {
			run.Disagree(common.Disagreement{Kind: "impl-vs-ref", Input: replayT{Kind: "src", Src: c.src, Class: c.class},
				Impl: diffClip(im, rf), Ref: diffClip(rf, im), Finding: c.class, Note: "source template " + c.label})
		} else if c.class != "" {
			run.Hit("open-finding-agrees:" + c.class) // the listed finding did not show on this instance
		}
	}
	_ = listed
}

// listedClasses reads the class labels of the listed findings of this property (KNOWN_FINDINGS.json "classes").
func listedClasses() map[string]bool {
	out := map[string]bool{}
	b, err := os.ReadFile(common.VerifDir() + "/KNOWN_FINDINGS.json")
	if err != nil {
		return out
	}
	var all struct {
		Findings []struct {
			Property string   `json:"property"`
			Status   string   `json:"status"`
			Classes  []string `json:"classes"`
		} `json:"findings"`
	}
	if json.Unmarshal(b, &all) != nil {
		return out
	}
	for _, f := range all.Findings {
		if f.Property == "C04" && f.Status == "finding" {
			for _, c := range f.Classes {
				out[c] = true
			}
		}
	}
	return out
}

func clip(s string) string {
	if len(s) > 600 {
		return s[:600] + "…"
	}
	return s
}

// diffClip shows the part of observation a around its first difference with b.
func diffClip(a, b string) string {
	la, lb := strings.Split(a, "|"), strings.Split(b, "|")
	for i := range la {
		if i >= len(lb) || la[i] != lb[i] {
			lo := i - 1
			if lo < 0 {
				lo = 0
			}
			hi := i + 2
			if hi > len(la) {
				hi = len(la)
			}
			return fmt.Sprintf("[line %d] %s", i, clip(strings.Join(la[lo:hi], "|")))
		}
	}
	if len(lb) > len(la) {
		return fmt.Sprintf("[ends after line %d] %s", len(la)-1, clip(la[len(la)-1]))
	}
	return clip(a)
}

// deletions returns every program obtained by deleting one statement (top level or in a loop body).
func deletions(p Prog) []Prog {
	var out []Prog
	for i := range p.Ops {
		c := Prog{Ops: append(append([]Op{}, p.Ops[:i]...), p.Ops[i+1:]...)}
		out = append(out, c)
		if p.Ops[i].K == "rng" && len(p.Ops[i].Body) > 1 {
			for j := range p.Ops[i].Body {
				c := Prog{Ops: append([]Op{}, p.Ops...)}
				o := p.Ops[i]
				o.Body = append(append([]SOp{}, o.Body[:j]...), o.Body[j+1:]...)
				c.Ops[i] = o
				out = append(out, c)
			}
		}
	}
	return out
}

// shrink: delta debugging on statements; a candidate is kept when it is well-formed (compiles), the implementation
// still differs from the reference and the class label is unchanged.
func shrink(run *common.Run, drv *common.Driver, p Prog, class string) Prog {
	deadline := time.Now().Add(90 * time.Second)
	for round := 0; round < 40 && time.Now().Before(deadline); round++ {
		cands := deletions(p)
		if len(cands) == 0 {
			return p
		}
		var ok []Prog
		for _, c := range cands {
			if _, err := c.source(); err == nil {
				ok = append(ok, c)
			}
		}
		if len(ok) == 0 {
			return p
		}
		outs := evaluate(run, drv, ok)
		if outs == nil {
			return p
		}
		found := false
		for i := range ok {
			o := outs[i]
			if strings.HasPrefix(o.ref, "cerr:") || strings.HasPrefix(o.ref, "harness-error") || strings.HasPrefix(o.ref, "toolchain-failure") || strings.HasPrefix(o.g, "ill") {
				continue
			}
			if o.impl != o.ref {
				p, found = ok[i], true
				break
			}
		}
		if !found {
			return p
		}
	}
	return p
}
