package main

// A driver connection with a watchdog, used while generating: a candidate statement can make the
// model's state grow exponentially (a slice appended to itself inside a loop over it); such a candidate
// is abandoned by killing and restarting the driver. (common.Driver has no way to interrupt a request.)

import (
	"bufio"
	"fmt"
	"io"
	"os"
	"os/exec"
	"path/filepath"
	"strings"
	"time"

	"verif/harness/common"
)

type wdDriver struct {
	cmd *exec.Cmd
	in  io.WriteCloser
	out *bufio.Reader
}

func startWD() (*wdDriver, error) {
	bin := filepath.Join(common.VerifDir(), "lean", ".lake", "build", "bin", "driver-C04")
	cmd := exec.Command(bin)
	in, err := cmd.StdinPipe()
	if err != nil {
		return nil, err
	}
	out, err := cmd.StdoutPipe()
	if err != nil {
		return nil, err
	}
	cmd.Stderr = os.Stderr
	if err := cmd.Start(); err != nil {
		return nil, err
	}
	return &wdDriver{cmd: cmd, in: in, out: bufio.NewReaderSize(out, 1<<20)}, nil
}

func (d *wdDriver) kill() {
	d.in.Close()
	d.cmd.Process.Kill()
	d.cmd.Wait()
}

// ask returns the answer, or "" with timedOut when the driver did not answer in time (it is then restarted).
func (d *wdDriver) ask(line string, timeout time.Duration) (ans string, timedOut bool, err error) {
	if strings.ContainsAny(line, "\n\r") {
		return "", false, fmt.Errorf("protocol line contains a newline")
	}
	type res struct {
		s   string
		err error
	}
	ch := make(chan res, 1)
	out := d.out
	go func() {
		if _, err := io.WriteString(d.in, line+"\n"); err != nil {
			ch <- res{"", err}
			return
		}
		s, err := out.ReadString('\n')
		ch <- res{strings.TrimRight(s, "\n"), err}
	}()
	select {
	case r := <-ch:
		return r.s, false, r.err
	case <-time.After(timeout):
		d.kill()
		nd, err := startWD()
		if err != nil {
			return "", true, err
		}
		*d = *nd
		return "", true, nil
	}
}
