package main

// The operation language of the C04 models (Model/Share.lean): JSON form (replays), protocol form (S-expressions
// for the Lean driver) and Go source form (for the interpreter and the toolchain).

import (
	"fmt"
	"strconv"
	"strings"
)

type IExp struct {
	IsVar bool `json:"isvar,omitempty"`
	N     int  `json:"n"` // constant, or variable id
}

type LExp struct {
	K string `json:"k"` // v | f | x | d
	X int    `json:"x,omitempty"`
	L *LExp  `json:"l,omitempty"`
	I int    `json:"i,omitempty"`
	E *IExp  `json:"e,omitempty"`
}

type RExp struct {
	K     string `json:"k"` // lit ld add adr mks mk mkm new sl lk len cap id
	T     string `json:"t"` // Go type of the value
	V     *Val   `json:"v,omitempty"`
	L     *LExp  `json:"l,omitempty"`
	A     *RExp  `json:"a,omitempty"`
	C     int    `json:"c,omitempty"`
	Elems []Val  `json:"elems,omitempty"`
	Keys  []int  `json:"keys,omitempty"`
	Len   int    `json:"len,omitempty"`
	Cap   int    `json:"cap,omitempty"`
	Lo    *IExp  `json:"lo,omitempty"`
	Hi    *IExp  `json:"hi,omitempty"`
	Max   *IExp  `json:"max,omitempty"`
	Ke    *IExp  `json:"ke,omitempty"`
}

// LitElem is one operand of a composite literal with expression operands: the path of the component inside the
// literal (field / element indices) and the expression stored there.
type LitElem struct {
	P []int `json:"p"`
	R RExp  `json:"r"`
}

type SOp struct {
	K     string    `json:"k"` // as op def mul muld app apps cp ms md lk2 call rcv as2 clit cnm rsw
	L     *LExp     `json:"l,omitempty"`
	R     *RExp     `json:"r,omitempty"`
	C     int       `json:"c,omitempty"`
	X     int       `json:"x,omitempty"`
	T     string    `json:"t,omitempty"` // type of the defined variable / of the appended slice
	Ls    []LExp    `json:"ls,omitempty"`
	Rs    []RExp    `json:"rs,omitempty"`
	Xs    []int     `json:"xs,omitempty"`
	Rd    []bool    `json:"rd,omitempty"`
	Ts    []string  `json:"ts,omitempty"`
	IsDef bool      `json:"isdef,omitempty"`
	S     *RExp     `json:"s,omitempty"`
	Args  []RExp    `json:"args,omitempty"`
	D     *RExp     `json:"d,omitempty"`
	M     *LExp     `json:"m,omitempty"`
	Ke    *IExp     `json:"ke,omitempty"`
	Ok    int       `json:"ok,omitempty"`
	Rdx   bool      `json:"rdx,omitempty"`  // lk2 in the := form: x is already declared in the scope (assigned, not created)
	Rdok  bool      `json:"rdok,omitempty"` // … same for ok
	Sel   *LExp     `json:"sel,omitempty"`
	P     *LExp     `json:"p,omitempty"`    // cnm: the variable whose address is passed
	Sel2  *LExp     `json:"sel2,omitempty"` // cnm: r<sel2> = (*q)<sel3>
	Sel3  *LExp     `json:"sel3,omitempty"`
	Vals  []Val     `json:"vals,omitempty"`  // rsw: the two values assigned to the named results
	Elems []LitElem `json:"elems,omitempty"` // clit: the operands of the literal
	Keyed bool      `json:"keyed,omitempty"` // clit: rendered with keys (omitted components are zero)
	Succ  bool      `json:"succ,omitempty"`  // as2: the assertion holds (the interface value holds R); otherwise it holds a string
	Wrap  bool      `json:"wrap,omitempty"`  // rendered inside an immediately called function literal
}

type Op struct {
	K     string `json:"k,omitempty"` // "" (simple) | rng | capt
	S     *SOp   `json:"s,omitempty"`
	Src   *LExp  `json:"src,omitempty"`
	I     int    `json:"i,omitempty"`
	V     int    `json:"v,omitempty"`
	ET    string `json:"et,omitempty"` // element type of the ranged value
	SK    string `json:"sk,omitempty"` // kind of the ranged value: array | slice | ptr (coverage bucket only)
	Body  []SOp  `json:"body,omitempty"`
	X     int    `json:"x,omitempty"`
	Sel   *LExp  `json:"sel,omitempty"`
	C     int    `json:"c,omitempty"`
	Calls []int  `json:"calls,omitempty"`
}

type Prog struct {
	Ops []Op `json:"ops"`
}

// ---- typing ----

type env map[int]*Type

func (e env) clone() env {
	c := env{}
	for k, v := range e {
		c[k] = v
	}
	return c
}

func lexpType(e env, l *LExp) *Type {
	switch l.K {
	case "v":
		t := e[l.X]
		if t == nil {
			panic(fmt.Sprintf("unbound v%d", l.X))
		}
		return t
	case "f":
		t := lexpType(e, l.L)
		if t.K == "ptr" {
			t = t.Elem
		}
		return t.Fields[l.I].T
	case "x":
		t := lexpType(e, l.L)
		if t.K == "ptr" {
			t = t.Elem
		}
		return t.Elem
	case "d":
		return lexpType(e, l.L).Elem
	}
	panic("bad lexp")
}

// ---- protocol form ----

func (i *IExp) sexp() string {
	if i.IsVar {
		return fmt.Sprintf("(v %d)", i.N)
	}
	return strconv.Itoa(i.N)
}

func optI(i *IExp) string {
	if i == nil {
		return "_"
	}
	return i.sexp()
}

func (l *LExp) sexp() string {
	switch l.K {
	case "v":
		return fmt.Sprintf("(v %d)", l.X)
	case "f":
		return fmt.Sprintf("(f %s %d)", l.L.sexp(), l.I)
	case "x":
		return fmt.Sprintf("(x %s %s)", l.L.sexp(), l.E.sexp())
	case "d":
		return fmt.Sprintf("(d %s)", l.L.sexp())
	}
	panic("bad lexp")
}

func valsSexp(vs []Val) string {
	parts := make([]string, len(vs))
	for i, v := range vs {
		parts[i] = v.sexp()
	}
	return strings.Join(parts, " ")
}

func (r *RExp) sexp() string {
	switch r.K {
	case "lit":
		return "(lit " + r.V.sexp() + ")"
	case "ld":
		return "(ld " + r.L.sexp() + ")"
	case "add":
		return fmt.Sprintf("(add %s %d)", r.A.sexp(), r.C)
	case "adr":
		return "(adr " + r.L.sexp() + ")"
	case "mks":
		return strings.TrimSpace("(mks "+valsSexp(r.Elems)) + ")"
	case "mk":
		return fmt.Sprintf("(mk %s %d %d)", zero(ty(r.T).Elem).sexp(), r.Len, r.Cap)
	case "mkm":
		parts := []string{"mkm"}
		for i, k := range r.Keys {
			parts = append(parts, fmt.Sprintf("(%d %s)", k, r.Elems[i].sexp()))
		}
		return "(" + strings.Join(parts, " ") + ")"
	case "new":
		return "(new " + r.V.sexp() + ")"
	case "sl":
		return fmt.Sprintf("(sl %s %s %s %s)", r.L.sexp(), optI(r.Lo), optI(r.Hi), optI(r.Max))
	case "lk":
		return fmt.Sprintf("(lk %s %s %s)", r.L.sexp(), r.Ke.sexp(), zero(ty(r.T)).sexp())
	case "len":
		return "(len " + r.L.sexp() + ")"
	case "cap":
		return "(cap " + r.L.sexp() + ")"
	case "id":
		return "(id " + r.A.sexp() + ")"
	}
	panic("bad rexp " + r.K)
}

func b01(b bool) string {
	if b {
		return "1"
	}
	return "0"
}

func rexpsSexp(rs []RExp) string {
	parts := make([]string, len(rs))
	for i := range rs {
		parts[i] = rs[i].sexp()
	}
	return "(" + strings.Join(parts, " ") + ")"
}

func (o *SOp) sexp() string {
	switch o.K {
	case "as":
		return fmt.Sprintf("(as %s %s)", o.L.sexp(), o.R.sexp())
	case "op":
		return fmt.Sprintf("(op %s %d)", o.L.sexp(), o.C)
	case "def":
		return fmt.Sprintf("(def %d %s)", o.X, o.R.sexp())
	case "mul":
		ls := make([]string, len(o.Ls))
		for i := range o.Ls {
			ls[i] = o.Ls[i].sexp()
		}
		return fmt.Sprintf("(mul (%s) %s)", strings.Join(ls, " "), rexpsSexp(o.Rs))
	case "muld":
		xs, rd, zs := make([]string, len(o.Xs)), make([]string, len(o.Xs)), make([]string, len(o.Xs))
		for i := range o.Xs {
			xs[i], rd[i], zs[i] = strconv.Itoa(o.Xs[i]), b01(o.Rd[i]), zero(ty(o.Ts[i])).sexp()
		}
		return fmt.Sprintf("(muld (%s) (%s) (%s) %s)", strings.Join(xs, " "), strings.Join(rd, " "), strings.Join(zs, " "), rexpsSexp(o.Rs))
	case "app":
		et := ty(o.T).Elem
		return fmt.Sprintf("(app %s %s %s %s %s %d %s)", b01(o.IsDef), o.L.sexp(), o.S.sexp(), rexpsSexp(o.Args), zero(et).sexp(), et.size(), b01(!et.hasPointers()))
	case "apps":
		et := ty(o.T).Elem
		return fmt.Sprintf("(apps %s %s %s %s %s %d %s)", b01(o.IsDef), o.L.sexp(), o.S.sexp(), o.R.sexp(), zero(et).sexp(), et.size(), b01(!et.hasPointers()))
	case "cp":
		return fmt.Sprintf("(cp %s %s)", o.D.sexp(), o.S.sexp())
	case "ms":
		return fmt.Sprintf("(ms %s %s %s)", o.M.sexp(), o.Ke.sexp(), o.R.sexp())
	case "md":
		return fmt.Sprintf("(md %s %s)", o.M.sexp(), o.Ke.sexp())
	case "lk2":
		return fmt.Sprintf("(lk2 %s %d %d %s %s %s %s %s)", b01(o.IsDef), o.X, o.Ok, o.M.sexp(), o.Ke.sexp(), zero(ty(o.T)).sexp(), b01(o.Rdx), b01(o.Rdok))
	case "call":
		return fmt.Sprintf("(call %s %s %s %d %s)", b01(o.IsDef), o.L.sexp(), o.Sel.sexp(), o.C, o.R.sexp())
	case "cnm":
		return fmt.Sprintf("(cnm %s %s %s %s %d %s %s %s)", b01(o.IsDef), o.L.sexp(), o.P.sexp(), o.Sel.sexp(), o.C, o.Sel2.sexp(), o.Sel3.sexp(), zero(ty(o.T)).sexp())
	case "rsw":
		return fmt.Sprintf("(rsw %s %s %s %s %s)", b01(o.IsDef), o.Ls[0].sexp(), o.Ls[1].sexp(), o.Vals[0].sexp(), o.Vals[1].sexp())
	case "rcv":
		return fmt.Sprintf("(rcv %s %s %s)", b01(o.IsDef), o.L.sexp(), o.R.sexp())
	case "clit":
		t := ty(o.T)
		parts := make([]string, len(o.Elems))
		for i := range o.Elems {
			ps := make([]string, len(o.Elems[i].P))
			for j, k := range o.Elems[i].P {
				ps[j] = strconv.Itoa(k)
			}
			parts[i] = "((" + strings.Join(ps, " ") + ") " + o.Elems[i].R.sexp() + ")"
		}
		return fmt.Sprintf("(clit %s %s %s %s (%s))", b01(o.IsDef), o.L.sexp(), b01(t.K == "struct"), zero(t).sexp(), strings.Join(parts, " "))
	case "as2":
		return fmt.Sprintf("(as2 %s %d %d %s %s %s %s %s)", b01(o.IsDef), o.X, o.Ok, o.R.sexp(), b01(o.Succ), zero(ty(o.T)).sexp(), b01(o.Rdx), b01(o.Rdok))
	}
	panic("bad sop " + o.K)
}

func showSexp(vars []int) string {
	parts := []string{"show"}
	for _, v := range vars {
		parts = append(parts, strconv.Itoa(v))
	}
	return "(" + strings.Join(parts, " ") + ")"
}

// binds returns the variables a simple statement declares, with their types.
func (o *SOp) binds() ([]int, []*Type) {
	switch o.K {
	case "def":
		return []int{o.X}, []*Type{ty(o.T)}
	case "muld":
		var xs []int
		var ts []*Type
		for i, x := range o.Xs {
			if !o.Rd[i] {
				xs = append(xs, x)
				ts = append(ts, ty(o.Ts[i]))
			}
		}
		return xs, ts
	case "rsw":
		if o.IsDef {
			return []int{o.Ls[0].X, o.Ls[1].X}, []*Type{ty(o.T), ty(o.T)}
		}
	case "app", "apps", "call", "rcv", "clit", "cnm":
		if o.IsDef {
			return []int{o.L.X}, []*Type{ty(o.T)}
		}
	case "lk2", "as2":
		if o.IsDef {
			var xs []int
			var ts []*Type
			if !o.Rdx {
				xs, ts = append(xs, o.X), append(ts, ty(o.T))
			}
			if !o.Rdok {
				xs, ts = append(xs, o.Ok), append(ts, ty("bool"))
			}
			return xs, ts
		}
	}
	return nil, nil
}

// line renders the program as one protocol line; a `show` of every variable in scope follows each statement.
func (p *Prog) line() string {
	parts := []string{"C04 run"}
	var pool []int
	for i := range p.Ops {
		o := &p.Ops[i]
		switch o.K {
		case "":
			parts = append(parts, o.S.sexp())
			xs, _ := o.S.binds()
			pool = append(pool, xs...)
		case "rng":
			scope := append(append([]int{}, pool...), o.I, o.V)
			body := []string{}
			for j := range o.Body {
				body = append(body, o.Body[j].sexp())
				xs, _ := o.Body[j].binds()
				scope = append(scope, xs...)
				body = append(body, showSexp(scope))
			}
			parts = append(parts, fmt.Sprintf("(rng %s %d %d (%s))", o.Src.sexp(), o.I, o.V, strings.Join(body, " ")))
		case "capt":
			cs := make([]string, len(o.Calls))
			for j, c := range o.Calls {
				cs[j] = strconv.Itoa(c)
			}
			parts = append(parts, fmt.Sprintf("(capt %s %d %s %d (%s))", o.Src.sexp(), o.X, o.Sel.sexp(), o.C, strings.Join(cs, " ")))
		}
		parts = append(parts, showSexp(pool))
	}
	return strings.Join(parts, " ")
}

// ---- Go source form ----

type render struct {
	e     env
	names map[int]string // overrides (the parameter of a generated function)
	funcs []string       // generated helper functions (id / mut / any)
	nchan int            // channels declared so far (rcv)
	seenF map[string]bool
	types map[string]*Type // types that need a show function
}

func (r *render) name(x int) string {
	if n, ok := r.names[x]; ok {
		return n
	}
	return "v" + strconv.Itoa(x)
}

func (r *render) iexp(i *IExp) string {
	if i.IsVar {
		return r.name(i.N)
	}
	return strconv.Itoa(i.N)
}

func (r *render) lexp(l *LExp) string {
	switch l.K {
	case "v":
		return r.name(l.X)
	case "f":
		t := lexpType(r.e, l.L)
		if t.K == "ptr" {
			t = t.Elem
		}
		return r.lexp(l.L) + "." + t.Fields[l.I].Name
	case "x":
		return r.lexp(l.L) + "[" + r.iexp(l.E) + "]"
	case "d":
		return "(*" + r.lexp(l.L) + ")"
	}
	panic("bad lexp")
}

// dest renders an addressable expression in statement position: no outer parentheses (the interpreter lost
// `(*p) = T{…}` until commit 3590fb8: finding F04-8, now fixed; the rendering stays without them)
func (r *render) dest(l *LExp) string {
	s := r.lexp(l)
	if l.K == "d" {
		return s[1 : len(s)-1]
	}
	return s
}

func (r *render) idFunc(t *Type) string {
	fn := "id" + t.mangle()
	if !r.seenF[fn] {
		r.seenF[fn] = true
		r.funcs = append(r.funcs, fmt.Sprintf("func %s(x %s) %s { return x }\n", fn, t.Src, t.Src))
	}
	return fn
}

func (r *render) rexp(x *RExp) string {
	t := ty(x.T)
	switch x.K {
	case "lit":
		return goLit(t, *x.V)
	case "ld":
		return r.lexp(x.L)
	case "add":
		if x.C < 0 {
			return fmt.Sprintf("%s - %d", r.rexp(x.A), -x.C)
		}
		return fmt.Sprintf("%s + %d", r.rexp(x.A), x.C)
	case "adr":
		return "&" + r.dest(x.L)
	case "mks":
		parts := make([]string, len(x.Elems))
		for i, v := range x.Elems {
			parts[i] = goLit(t.Elem, v)
		}
		return t.Src + "{" + strings.Join(parts, ", ") + "}"
	case "mk":
		return fmt.Sprintf("make(%s, %d, %d)", t.Src, x.Len, x.Cap)
	case "mkm":
		parts := make([]string, len(x.Keys))
		for i, k := range x.Keys {
			parts[i] = fmt.Sprintf("%d: %s", k, goLit(t.Elem, x.Elems[i]))
		}
		return t.Src + "{" + strings.Join(parts, ", ") + "}"
	case "new":
		return "&" + goLit(t.Elem, *x.V)
	case "sl":
		s := r.lexp(x.L) + "["
		if x.Lo != nil {
			s += r.iexp(x.Lo)
		}
		s += ":"
		if x.Hi != nil {
			s += r.iexp(x.Hi)
		}
		if x.Max != nil {
			s += ":" + r.iexp(x.Max)
		}
		return s + "]"
	case "lk":
		return r.lexp(x.L) + "[" + r.iexp(x.Ke) + "]"
	case "len":
		return "len(" + r.lexp(x.L) + ")"
	case "cap":
		return "cap(" + r.lexp(x.L) + ")"
	case "id":
		return r.idFunc(t) + "(" + r.rexp(x.A) + ")"
	}
	panic("bad rexp " + x.K)
}

func hasPrefix(p, prefix []int) bool {
	if len(p) < len(prefix) {
		return false
	}
	for i := range prefix {
		if p[i] != prefix[i] {
			return false
		}
	}
	return true
}

// litText renders the component at `prefix` of a composite literal of type t whose expression operands are elems.
func (r *render) litText(t *Type, prefix []int, elems []LitElem, keyed bool) string {
	below := false
	for i := range elems {
		if hasPrefix(elems[i].P, prefix) {
			if len(elems[i].P) == len(prefix) {
				return r.rexp(&elems[i].R)
			}
			below = true
		}
	}
	if !below || (t.K != "struct" && t.K != "array") {
		return goLit(t, zero(t))
	}
	n := t.N
	if t.K == "struct" {
		n = len(t.Fields)
	}
	var parts []string
	for i := 0; i < n; i++ {
		ct := t.Elem
		key := strconv.Itoa(i)
		if t.K == "struct" {
			ct, key = t.Fields[i].T, t.Fields[i].Name
		}
		sub := append(append([]int{}, prefix...), i)
		given := false
		for j := range elems {
			given = given || hasPrefix(elems[j].P, sub)
		}
		switch {
		case keyed && !given:
		case keyed:
			parts = append(parts, key+": "+r.litText(ct, sub, elems, keyed))
		default:
			parts = append(parts, r.litText(ct, sub, elems, keyed))
		}
	}
	return t.Src + "{" + strings.Join(parts, ", ") + "}"
}

func (r *render) rexps(xs []RExp) string {
	parts := make([]string, len(xs))
	for i := range xs {
		parts[i] = r.rexp(&xs[i])
	}
	return strings.Join(parts, ", ")
}

func (r *render) stmt(o *SOp) string {
	asg := " = "
	if o.IsDef {
		asg = " := "
	}
	var s string
	switch o.K {
	case "as":
		s = r.dest(o.L) + " = " + r.rexp(o.R)
	case "op":
		if o.C < 0 {
			s = fmt.Sprintf("%s -= %d", r.dest(o.L), -o.C)
		} else {
			s = fmt.Sprintf("%s += %d", r.dest(o.L), o.C)
		}
	case "def":
		s = r.name(o.X) + " := " + r.rexp(o.R)
	case "mul":
		ls := make([]string, len(o.Ls))
		for i := range o.Ls {
			ls[i] = r.dest(&o.Ls[i])
		}
		s = strings.Join(ls, ", ") + " = " + r.rexps(o.Rs)
	case "muld":
		xs := make([]string, len(o.Xs))
		for i, x := range o.Xs {
			xs[i] = r.name(x)
		}
		s = strings.Join(xs, ", ") + " := " + r.rexps(o.Rs)
	case "app":
		args := ""
		if len(o.Args) > 0 {
			args = ", " + r.rexps(o.Args)
		}
		s = r.dest(o.L) + asg + "append(" + r.rexp(o.S) + args + ")"
	case "apps":
		s = r.dest(o.L) + asg + "append(" + r.rexp(o.S) + ", " + r.rexp(o.R) + "...)"
	case "cp":
		s = "copy(" + r.rexp(o.D) + ", " + r.rexp(o.S) + ")"
	case "ms":
		s = r.lexp(o.M) + "[" + r.iexp(o.Ke) + "] = " + r.rexp(o.R)
	case "md":
		s = "delete(" + r.lexp(o.M) + ", " + r.iexp(o.Ke) + ")"
	case "lk2":
		s = r.name(o.X) + ", " + r.name(o.Ok) + asg + r.lexp(o.M) + "[" + r.iexp(o.Ke) + "]"
	case "cnm":
		// func fN(q *T) (r T) { r<sel1> = k; r<sel2> = (*q)<sel3>; return }
		t := ty(o.T)
		fn := fmt.Sprintf("named%d", len(r.funcs))
		inR := &render{e: env{0: t}, names: map[int]string{0: "r"}}
		inQ := &render{e: env{0: t}, names: map[int]string{0: "(*q)"}}
		r.funcs = append(r.funcs, fmt.Sprintf("func %s(q *%s) (r %s) {\n\t%s = %d\n\t%s = %s\n\treturn\n}\n", fn, t.Src, t.Src,
			inR.dest(o.Sel), o.C, inR.dest(o.Sel2), inQ.lexp(o.Sel3)))
		s = r.dest(o.L) + asg + fn + "(&" + r.lexp(o.P) + ")"
	case "rsw":
		// func swN() (a, b T) { a, b = v1, v2; return b, a }
		t := ty(o.T)
		fn := fmt.Sprintf("swap%d", len(r.funcs))
		r.funcs = append(r.funcs, fmt.Sprintf("func %s() (a, b %s) {\n\ta, b = %s, %s\n\treturn b, a\n}\n", fn, t.Src, goLit(t, o.Vals[0]), goLit(t, o.Vals[1])))
		s = r.dest(&o.Ls[0]) + ", " + r.dest(&o.Ls[1]) + asg + fn + "()"
	case "clit":
		s = r.dest(o.L) + asg + r.litText(ty(o.T), nil, o.Elems, o.Keyed)
	case "rcv":
		// the value travels through a buffered channel of its own
		t := ty(o.T)
		r.nchan++
		c := fmt.Sprintf("c%d", r.nchan)
		s = fmt.Sprintf("%s := make(chan %s, 1); %s <- %s; %s%s<-%s", c, t.Src, c, r.rexp(o.R), r.dest(o.L), asg, c)
	case "as2":
		t := ty(o.T)
		var e string
		if o.Succ {
			fn := "any" + t.mangle()
			if !r.seenF[fn] {
				r.seenF[fn] = true
				r.funcs = append(r.funcs, fmt.Sprintf("func %s(x %s) interface{} { return x }\n", fn, t.Src))
			}
			e = fn + "(" + r.rexp(o.R) + ")"
		} else {
			if !r.seenF["anyNo"] {
				r.seenF["anyNo"] = true
				r.funcs = append(r.funcs, "func anyNo() interface{} { return \"no\" }\n")
			}
			e = "anyNo()"
		}
		s = r.name(o.X) + ", " + r.name(o.Ok) + asg + e + ".(" + t.Src + ")"
	case "call":
		t := ty(o.R.T)
		fn := fmt.Sprintf("mut%d", len(r.funcs))
		inner := &render{e: env{0: t}, names: map[int]string{0: "x"}}
		r.funcs = append(r.funcs, fmt.Sprintf("func %s(x %s) %s {\n\t%s = %d\n\treturn x\n}\n", fn, t.Src, t.Src, inner.dest(o.Sel), o.C))
		s = r.dest(o.L) + asg + fn + "(" + r.rexp(o.R) + ")"
	default:
		panic("bad sop " + o.K)
	}
	if o.Wrap {
		return "func() { " + s + " }()"
	}
	return s
}

func (r *render) show(vars []int) string {
	parts := make([]string, len(vars))
	for i, v := range vars {
		t := r.e[v]
		r.types[t.Src] = t
		parts[i] = fmt.Sprintf("\"%s=\" + sh%s(%s)", "v"+strconv.Itoa(v), t.mangle(), r.name(v))
	}
	return "fmt.Println(" + strings.Join(parts, ", ") + ")"
}

// source renders the program as a complete Go program.
func (p *Prog) source() (src string, err error) {
	defer func() {
		if x := recover(); x != nil {
			err = fmt.Errorf("render: %v", x)
		}
	}()
	r := &render{e: env{}, names: map[int]string{}, seenF: map[string]bool{}, types: map[string]*Type{}}
	var body strings.Builder
	var pool []int
	for i := range p.Ops {
		o := &p.Ops[i]
		switch o.K {
		case "":
			xs, ts := o.S.binds()
			st := r.stmt(o.S)
			for j, x := range xs {
				r.e[x] = ts[j]
			}
			pool = append(pool, xs...)
			body.WriteString("\t" + st + "\n")
			// every declared variable is also assigned to the blank identifier: a sequence of `_ = x` of different
			// types (a blank destination is never a redeclared variable: commit 6ebc898 of the repository)
			for _, x := range xs {
				body.WriteString("\t_ = " + r.name(x) + "\n")
			}
		case "rng":
			saved := r.e.clone()
			et := ty(o.ET)
			src := r.lexp(o.Src)
			r.e[o.I], r.e[o.V] = ty("int"), et
			scope := append(append([]int{}, pool...), o.I, o.V)
			fmt.Fprintf(&body, "\tfor %s, %s := range %s {\n", r.name(o.I), r.name(o.V), src)
			for j := range o.Body {
				xs, ts := o.Body[j].binds()
				st := r.stmt(&o.Body[j])
				for k, x := range xs {
					r.e[x] = ts[k]
				}
				scope = append(scope, xs...)
				body.WriteString("\t\t" + st + "\n")
				for _, x := range xs {
					body.WriteString("\t\t_ = " + r.name(x) + "\n")
				}
				body.WriteString("\t\t" + r.show(scope) + "\n")
			}
			if len(o.Body) == 0 {
				body.WriteString("\t\t" + r.show(scope) + "\n")
			}
			body.WriteString("\t}\n")
			r.e = saved
		case "capt":
			et := ty(o.ET)
			r.types[et.Src] = et
			x := r.name(o.X)
			inner := &render{e: env{0: et}, names: map[int]string{0: x}}
			fmt.Fprintf(&body, "\t{\n\t\tvar fs []func() string\n\t\tfor _, e := range %s {\n\t\t\t%s := e\n\t\t\tfs = append(fs, func() string {\n\t\t\t\t%s += %d\n\t\t\t\treturn sh%s(%s)\n\t\t\t})\n\t\t}\n",
				r.lexp(o.Src), x, inner.dest(o.Sel), o.C, et.mangle(), x)
			parts := make([]string, len(o.Calls))
			for j, c := range o.Calls {
				parts[j] = fmt.Sprintf("\"c%d=\" + fs[%d]()", c, c)
			}
			fmt.Fprintf(&body, "\t\tfmt.Println(%s)\n\t}\n", strings.Join(parts, ", "))
		}
		if len(pool) > 0 {
			body.WriteString("\t" + r.show(pool) + "\n")
		} else {
			body.WriteString("\tfmt.Println()\n")
		}
	}
	var ts []*Type
	for _, t := range r.types {
		ts = append(ts, t)
	}
	// deterministic order
	for i := 0; i < len(ts); i++ {
		for j := i + 1; j < len(ts); j++ {
			if ts[j].Src < ts[i].Src {
				ts[i], ts[j] = ts[j], ts[i]
			}
		}
	}
	shows := showFuncs(ts)
	imports := "import (\n\t\"fmt\"\n"
	if strings.Contains(shows, "sort.") {
		imports += "\t\"sort\"\n"
	}
	if strings.Contains(shows, "strconv.") {
		imports += "\t\"strconv\"\n"
	}
	imports += ")\n\n"
	return "package main\n\n" + imports + typeDecls + "\n" + shows + strings.Join(r.funcs, "\n") + "\nfunc main() {\n" + body.String() + "}\n", nil
}
