package main

// Source-level stream: small complete programs, instantiated from templates with random types, values, counts
// and call orders, for the copy / share shapes that lie outside the operation language of the Lean models
// (closures capturing a variable declared from a literal in a loop body, three-clause loops, channels, recover,
// blank assignments, elided `&` in composite literals, package-level comma-ok declarations). They are compared
// between the interpreter and the compiled program only (impl-vs-ref). Every template of a repaired finding has
// an empty class: any difference is a violation. (The four findings that were still open when the stream was
// written, F04-13 … F04-16, have been repaired since: no template carries a class label any more; the field stays
// for future findings.)

import (
	"fmt"
	"math/rand"
	"strings"
)

type srcCase struct {
	label string // template name (coverage bucket)
	class string // class label of a listed finding, or ""
	src   string
}

type kindT struct {
	typ string                       // Go type
	lit func(a, b int) string        // a literal built from two ints
	mut func(v string, c int) string // a statement that changes the variable named v
}

var srcKinds = []kindT{
	{"[2]int", func(a, b int) string { return fmt.Sprintf("[2]int{%d, %d}", a, b) },
		func(v string, c int) string { return fmt.Sprintf("%s[1] += %d", v, c) }},
	{"[]int", func(a, b int) string { return fmt.Sprintf("[]int{%d, %d}", a, b) },
		func(v string, c int) string { return fmt.Sprintf("%s = append(%s, %d)", v, v, c) }},
	{"map[int]int", func(a, b int) string { return fmt.Sprintf("map[int]int{1: %d, 2: %d}", a, b) },
		func(v string, c int) string { return fmt.Sprintf("%s[3] = %d", v, c) }},
	{"P", func(a, b int) string { return fmt.Sprintf("P{%d, %d}", a, b) },
		func(v string, c int) string { return fmt.Sprintf("%s.Y += %d", v, c) }},
	{"[2]P", func(a, b int) string { return fmt.Sprintf("[2]P{{%d, %d}, {%d, %d}}", a, b, b, a) },
		func(v string, c int) string { return fmt.Sprintf("%s[0].X += %d", v, c) }},
	{"[][2]int", func(a, b int) string { return fmt.Sprintf("[][2]int{{%d, %d}}", a, b) },
		func(v string, c int) string { return fmt.Sprintf("%s[0][1] += %d", v, c) }},
	{"int", func(a, b int) string { return fmt.Sprintf("%d + %d", 10*a, b) },
		func(v string, c int) string { return fmt.Sprintf("%s += %d", v, c) }},
}

// a non-empty interface with two script types implementing it (one by value, one by pointer)
const ifaceHead = "package main\n\nimport \"fmt\"\n\ntype I interface{ Str() string }\n\ntype A string\n\nfunc (a A) Str() string { return \"A:\" + string(a) }\n\ntype B struct{ N int }\n\nfunc (b *B) Str() string { return fmt.Sprint(\"B:\", b.N) }\n\nfunc sh(xs ...I) string {\n\ts := \"\"\n\tfor _, x := range xs {\n\t\ts += x.Str() + \" \"\n\t}\n\treturn s\n}\n\n"

const srcHead = "package main\n\nimport \"fmt\"\n\ntype P struct{ X, Y int }\n\n"

func order(rng *rand.Rand, n int) string {
	k := 2 + rng.Intn(3)
	parts := make([]string, k)
	for i := range parts {
		parts[i] = fmt.Sprint(rng.Intn(n))
	}
	return strings.Join(parts, ", ")
}

// loopHead renders one of the loop forms over n iterations with index variable i.
func loopHead(rng *rand.Rand, n int) string {
	switch rng.Intn(3) {
	case 0:
		return fmt.Sprintf("for i := 0; i < %d; i++ {", n)
	case 1:
		return fmt.Sprintf("for i := range [%d]int{} {", n)
	}
	return fmt.Sprintf("for i := range make([]int, %d) {", n)
}

func genSrc(rng *rand.Rand, k int) srcCase {
	n := 2 + rng.Intn(3)
	a, b, c := 1+rng.Intn(9), 1+rng.Intn(9), 10*(1+rng.Intn(9))
	kd := srcKinds[rng.Intn(len(srcKinds))]
	agg := srcKinds[rng.Intn(len(srcKinds)-1)] // not int
	switch k % 32 {
	case 0: // F04-4: a variable declared from a literal in a loop body, captured by a closure
		return srcCase{"closure-captures-literal-in-loop", "", srcHead + fmt.Sprintf(`func main() {
	var fs []func() string
	%s
		v := %s
		_ = i
		fs = append(fs, func() string {
			%s
			return fmt.Sprint(%s)
		})
	}
	for _, j := range []int{%s} {
		fmt.Println(fs[j]())
	}
}
`, loopHead(rng, n), agg.lit(a, b), agg.mut("v", c), "v", order(rng, n))}
	case 1: // F04-4: … its address kept, the literal depends on the iteration
		return srcCase{"address-of-literal-var-in-loop", "", srcHead + fmt.Sprintf(`func main() {
	var ps []*%s
	%s
		v := %s
		ps = append(ps, &v)
	}
	w := ps[%d]
	%s
	for _, p := range ps {
		fmt.Println(*p)
	}
	fmt.Println(ps[0] == ps[1])
}
`, agg.typ, loopHead(rng, n), strings.ReplaceAll(agg.lit(a, 77777), "77777", "i"), rng.Intn(n), agg.mut("(*w)", c))}
	case 2: // F04-11: `&[n]T{…}` / `&[]T{…}` / `&map…{…}` evaluated at each iteration
		return srcCase{"addr-of-literal-per-iteration", "", srcHead + fmt.Sprintf(`func main() {
	var ps []*%s
	%s
		ps = append(ps, &%s)
	}
	w := ps[%d]
	%s
	for _, p := range ps {
		fmt.Println(*p)
	}
	fmt.Println(ps[0] == ps[1])
}
`, agg.typ, loopHead(rng, n), strings.ReplaceAll(agg.lit(a, 77777), "77777", "i"), rng.Intn(n), agg.mut("(*w)", c))}
	case 3: // F04-12: `v, ok := m[k]` in a loop body with `&v` kept and a closure over ok
		return srcCase{"commaok-map-define-in-loop", "", srcHead + fmt.Sprintf(`func main() {
	m := map[int]%s{0: %s, 2: %s}
	var ps []*%s
	var fs []func() bool
	%s
		v, ok := m[i]
		ps = append(ps, &v)
		fs = append(fs, func() bool { return ok })
	}
	for j, p := range ps {
		fmt.Println(*p, fs[j]())
	}
}
`, kd.typ, kd.lit(a, b), kd.lit(b, a), kd.typ, loopHead(rng, n))}
	case 4: // F04-12: `v, ok := <-ch` in a loop body with `&v` / `&ok` kept
		return srcCase{"commaok-recv-define-in-loop", "", srcHead + fmt.Sprintf(`func main() {
	ch := make(chan %s, %d)
	for i := 0; i < %d; i++ {
		ch <- %s
	}
	close(ch)
	var ps []*%s
	var oks []*bool
	for i := 0; i < %d; i++ {
		v, ok := <-ch
		ps = append(ps, &v)
		oks = append(oks, &ok)
	}
	for j := range ps {
		fmt.Println(*ps[j], *oks[j])
	}
}
`, kd.typ, n, n, strings.ReplaceAll(kd.lit(a, 77777), "77777", "i"), kd.typ, n+1)}
	case 5: // F04-5 / 6ebc898: a multi-define that redeclares a captured variable; blank assignments of several types
		return srcCase{"multidefine-redeclared-captured", "", srcHead + fmt.Sprintf(`func main() {
	a := %s
	f := func() %s { return a }
	_ = a
	_ = f
	pa := &a
	_ = pa
	a, c := %s, %d
	_ = c
	_ = "s"
	fmt.Println(f(), a, c, *pa)
	%s
	fmt.Println(f(), a, *pa)
	a, d, e := %s, a, f
	fmt.Println(a, d, e(), *pa)
}
`, kd.lit(a, b), kd.typ, kd.lit(b, a), c, kd.mut("a", c), kd.lit(a, a))}
	case 6: // F04-6: append whose operands are elements of the array that receives them
		i1, i2, i3 := rng.Intn(3), rng.Intn(3), rng.Intn(3)
		return srcCase{"append-operands-alias-destination", "", srcHead + fmt.Sprintf(`func main() {
	s := []%s{%s, %s, %s}
	t := append(s[:%d], s[%d], s[%d], s[%d])
	fmt.Println(s, t, len(t), cap(t))
	u := [3]%s{%s, %s, %s}
	w := append(u[:0], u[2], u[1], u[0])
	fmt.Println(u, w)
}
`, kd.typ, kd.lit(a, 1), kd.lit(b, 2), kd.lit(c, 3), rng.Intn(2), i1, i2, i3, kd.typ, kd.lit(1, a), kd.lit(2, b), kd.lit(3, c))}
	case 7: // F04-10: a nil pointer dereferenced, the value only stored / passed on
		use := []string{"m[1] = *p", "m[1], n = *p, 2", "s = append(s, *p)", "f(*p)", "_ = *p"}[rng.Intn(5)]
		return srcCase{"nil-deref-value-unused", "", srcHead + fmt.Sprintf(`func f(x %s) {}

func main() {
	defer func() { fmt.Println("recovered:", recover() != nil) }()
	m := map[int]%s{1: %s}
	var s []%s
	n := 0
	var p *%s
	_, _, _ = m, s, n
	%s
	fmt.Println("not reached", m, s, n)
}
`, kd.typ, kd.typ, kd.lit(a, b), kd.typ, kd.typ, use)}
	case 8: // F04-7: range over a pointer to an array (key only, key and value, blank key), then the pointer is used
		head := []string{"for i, v := range pa {\n\t\tfmt.Println(i, v)", "for i := range pa {\n\t\tfmt.Println(i)", "for _, v := range pa {\n\t\tfmt.Println(v)"}[rng.Intn(3)]
		return srcCase{"range-pointer-to-array", "", srcHead + fmt.Sprintf(`func main() {
	a := [3]%s{%s, %s, %s}
	b := %d
	pa := &a
	%s
		a[2] = %s
	}
	pa[1] = %s
	fmt.Println(a, *pa, len(pa), b)
	q := &pa[%d]
	*q = %s
	fmt.Println(a)
}
`, kd.typ, kd.lit(1, a), kd.lit(2, b), kd.lit(3, c), c, head, kd.lit(c, c), kd.lit(b, b), rng.Intn(3), kd.lit(a, a))}
	case 9: // F04-9: `&p[i]` with p a pointer to an array, also below a field
		return srcCase{"addr-of-pointer-index", "", srcHead + fmt.Sprintf(`type T struct{ A *[3]%s }

func main() {
	p := &[3]%s{%s, %s, %s}
	t := T{p}
	q := &p[%d]
	r := &t.A[%d]
	*q = %s
	%s
	fmt.Println(*p, *q, *r)
}
`, kd.typ, kd.typ, kd.lit(1, a), kd.lit(2, b), kd.lit(3, c), rng.Intn(3), rng.Intn(3), kd.lit(c, a), kd.mut("(*r)", c))}
	case 10: // 6ebc898: blank assignments of different types, in several scopes
		return srcCase{"blank-assignments", "", srcHead + fmt.Sprintf(`func g() int { return %d }

func main() {
	x, y := %s, "s"
	_ = x
	_ = y
	_ = g
	_, _ = x, g
	for i := 0; i < 2; i++ {
		_ = i
		_ = x
		_ = g()
	}
	_, z := g(), %s
	fmt.Println(x, y, z, g())
}
`, c, kd.lit(a, b), agg.lit(b, a))}
	case 11: // F04-4 in a function called repeatedly (the literal's slot lives in a new frame each time) and a nested loop
		return srcCase{"literal-in-nested-loop-and-calls", "", srcHead + fmt.Sprintf(`func mk(i int) *%s {
	v := %s
	return &v
}

func main() {
	var ps []*%s
	for i := 0; i < 2; i++ {
		for j := 0; j < %d; j++ {
			w := %s
			ps = append(ps, &w, mk(i+j))
		}
	}
	x := ps[%d]
	%s
	for _, p := range ps {
		fmt.Println(*p)
	}
}
`, agg.typ, strings.ReplaceAll(agg.lit(a, 77777), "77777", "i"), agg.typ, n, strings.ReplaceAll(agg.lit(b, 77777), "77777", "i*10+j"),
			rng.Intn(2*n), agg.mut("(*x)", c))}
	case 12: // F04-13 (repaired by bb375fd): key-only / blank-value range over a nil pointer to an array; with a value it panics
		form := []string{"for i := range pn {\n\t\tfmt.Println(i)", "for i, _ := range pn {\n\t\tfmt.Println(i)", "for range pn {\n\t\tfmt.Println(\"x\")",
			"for i, v := range pn {\n\t\tfmt.Println(i, v)"}[rng.Intn(4)]
		return srcCase{"range-nil-pointer-to-array", "", srcHead + fmt.Sprintf(`func main() {
	defer func() { fmt.Println("recovered:", recover() != nil) }()
	var pn *[%d]%s
	%s
	}
	fmt.Println("done", len(pn), cap(pn))
}
`, n, kd.typ, form)}
	case 13: // F04-14 (repaired by daee744): `v, ok := x.(T)` in a loop body with failing assertions, &v kept, closures over ok
		return srcCase{"commaok-typeassert-define-in-loop", "", srcHead + fmt.Sprintf(`func main() {
	xs := []interface{}{%s, "a", %s, %d, nil, %s}
	var ps []*%s
	var fs []func() bool
	for _, x := range xs {
		v, ok := x.(%s)
		fmt.Println(v, ok)
		ps = append(ps, &v)
		fs = append(fs, func() bool { return ok })
	}
	var w %s
	var wok bool
	for j, x := range xs {
		w, wok = x.(%s)
		fmt.Println(*ps[j], fs[j](), w, wok)
	}
}
`, kd.lit(a, b), kd.lit(b, a), c, kd.lit(a, a), kd.typ, kd.typ, kd.typ, kd.typ)}
	case 14: // F04-15 (repaired by 5b9f6b2): elided & of array / slice / map / struct literals inside literals of pointers
		return srcCase{"elided-addr-literals", "", srcHead + fmt.Sprintf(`func main() {
	ps := []*[2]int{{%d, %d}, {%d}}
	qs := []*[]int{{%d, %d}, {}}
	ms := map[int]*map[int]int{1: {2: %d}}
	ss := [2]*P{{%d, %d}, {Y: %d}}
	var keep []*[2]int
	for i := 0; i < %d; i++ {
		ts := []*[2]int{{i, %d}}
		keep = append(keep, ts[0])
	}
	*ps[0], *ps[1] = *ps[1], *ps[0]
	*qs[1] = append(*qs[0], %d)
	(*ms[1])[3] = %d
	ss[1].X = ss[0].Y
	keep[0][1] += %d
	fmt.Println(*ps[0], *ps[1], *qs[0], *qs[1], *ms[1], *ss[0], *ss[1])
	for _, k := range keep {
		fmt.Println(*k)
	}
}
`, a, b, c, a, b, c, a, b, c, n, a, b, c, c)}
	case 15: // F04-16 (repaired by e4c80e1): package-level comma-ok declarations (map index, type assertion, receive)
		return srcCase{"package-level-commaok-var", "", srcHead + fmt.Sprintf(`var gm = map[string]%s{"x": %s}
var gv, gok = gm[%q]
var gi interface{} = %s
var ga, gaok = gi.(%s)
var gb, gbok = gi.(string)
var gc = func() chan int { c := make(chan int, 1); c <- %d; close(c); return c }()
var gr, grok = <-gc
var gs, gsok = <-gc

func main() {
	fmt.Println(gv, gok, ga, gaok, gb, gbok, gr, grok, gs, gsok)
	p := &gv
	gv, gok = gm["x"]
	fmt.Println(*p, gok)
}
`, kd.typ, kd.lit(a, b), []string{"x", "y"}[rng.Intn(2)], kd.lit(b, a), kd.typ, c)}
	case 16: // F08-7 (repaired by 212dc2e): receive into an aliased variable, an element, a field, a pointee; return <-c
		return srcCase{"receive-into-aliased-destinations", "", srcHead + fmt.Sprintf(`type T struct{ V %s }

func get(c chan %s) %s { return <-c }

func main() {
	c := make(chan %s, 8)
	for i := 0; i < 6; i++ {
		c <- %s
	}
	x := %s
	p := &x
	f := func() %s { return x }
	x = <-c
	fmt.Println(x, *p, f())
	var arr [2]%s
	q := &arr[1]
	arr[1] = <-c
	t := T{}
	pt := &t
	t.V = <-c
	pt.V = <-c
	*p = <-c
	fmt.Println(arr, *q, t, *pt, x, *p, f(), get(c))
}
`, kd.typ, kd.typ, kd.typ, kd.typ, strings.ReplaceAll(kd.lit(a, 77777), "77777", "i"), kd.lit(b, b), kd.typ, kd.typ)}
	case 17: // F52 (repaired by 26ad67e): a short variable declaration of the loop variable's name in the body is a new variable
		return srcCase{"loop-variable-redeclared-in-body", "", srcHead + fmt.Sprintf(`func main() {
	var ps []*int
	var fs []func() int
	for i := 0; i < %d; i++ {
		fs = append(fs, func() int { return i })
		i := i*10 + %d
		ps = append(ps, &i)
		i += %d
	}
	for k, v := range []int{%d, %d} {
		k := k + %d
		v, w := v*2, k
		ps = append(ps, &k, &v, &w)
	}
	for _, p := range ps {
		fmt.Print(*p, " ")
	}
	fmt.Println()
	for _, f := range fs {
		fmt.Print(f(), " ")
	}
	fmt.Println()
}
`, n, a, b, a, b, c)}
	case 18: // F51 (repaired by 716c992): the bound of a range over an integer is evaluated once
		return srcCase{"range-int-bound-copied", "", srcHead + fmt.Sprintf(`func main() {
	n := %d
	pn := &n
	for i := range n {
		n = 1
		*pn += i
		fmt.Println(i, n)
	}
	fmt.Println(n)
}
`, n+1)}
	case 19: // F04-17 (repaired by 2e3bfaf): a blank VALUE variable of a range clause is stored over the first variable of the frame
		src := []string{"s", "a", "&a", "s[:1]"}[rng.Intn(4)]
		return srcCase{"range-blank-value-variable", "", srcHead + fmt.Sprintf(`func main() {
	x := %d
	s := []int{%d, %d}
	a := [2]int{%d, %d}
	for i, _ := range %s {
		fmt.Println(i)
	}
	fmt.Println("done", x, s, a)
}
`, c, a, b, b, a, src)}
	case 20: // F04-18 (repaired by 9df0813): len / cap of a nil pointer to an array are constants of the type
		return srcCase{"len-of-nil-pointer-to-array", "", srcHead + fmt.Sprintf(`func main() {
	var pn *[%d]%s
	fmt.Println(%s(pn))
}
`, n, kd.typ, []string{"len", "cap"}[rng.Intn(2)])}
	case 21: // seeded change C04-3: a literal assigned to a variable / element / field / pointee reads the destination
		return srcCase{"literal-reads-destination", "", srcHead + fmt.Sprintf(`type N struct {
	A, B P
	C    [2]int
}

func main() {
	p := P{%d, %d}
	q := &p
	f := func() P { return p }
	p = P{p.Y, p.X}
	fmt.Println(p, *q, f())
	p = P{Y: q.X, X: q.Y}
	fmt.Println(p, *q)
	p = P{X: p.Y}
	fmt.Println(p, *q)
	*q = P{q.Y + %d, q.X + 1}
	fmt.Println(p, f())
	n := N{P{1, 2}, P{3, 4}, [2]int{5, 6}}
	pn := &n
	n = N{n.B, n.A, [2]int{n.C[1], n.C[0]}}
	fmt.Println(n)
	n = N{A: P{n.B.Y, n.A.X}, C: [2]int{1: pn.C[0]}}
	fmt.Println(n, *pn)
	ps := []P{{%d, 2}, {3, %d}}
	ps[0] = P{ps[0].Y, ps[1].X}
	ps[1], ps[0] = P{ps[0].X, ps[0].Y}, P{ps[1].Y, ps[1].X}
	fmt.Println(ps)
	a := [3]int{%d, 2, 3}
	a = [3]int{a[2], a[0], a[1]}
	a = [3]int{2: a[0], 0: a[2]}
	m := map[int]P{1: {7, 8}}
	m[1] = P{m[1].Y, m[1].X}
	n.A, n.B = P{n.B.X, n.A.Y}, P{X: n.A.X}
	fmt.Println(a, m, n)
	r := P{p.Y, p.X}
	var s P = P{r.Y, r.X}
	fmt.Println(r, s)
}
`, a, b, c, a, b, c)}
	case 22: // F04-19 (repaired by 8544122): `return b, a` with named results a, b
		return srcCase{"return-permutes-named-results", "", srcHead + fmt.Sprintf(`func sw() (a, b int) {
	a, b = %d, %d
	return b, a
}

func rot() (x, y, z P) {
	x, y, z = P{1, 1}, P{2, 2}, P{%d, 3}
	return z, x, y
}

func main() {
	fmt.Println(sw())
	fmt.Println(rot())
}
`, a, b+10, c)}
	case 23: // F04-20 (repaired by 1b5ab85): the named result of a call aliases the variable the call is assigned to
		return srcCase{"call-result-aliases-destination", "", srcHead + fmt.Sprintf(`func f(p *P) (r P) {
	r.X = %d
	r.Y = p.X
	return
}

func main() {
	g := P{%d, %d}
	g = f(&g)
	fmt.Println(g)
}
`, c, a, b)}
	case 24: // F04-21 (repaired by 15ed387): a positional literal operand `pa[i].f` with pa a pointer to an array
		lit := []string{"P{pa[1].Y, 8}", "P{(*pa)[1].Y, 8}", "[2]int{pa[1].Y, 0}", "[]int{pa[0].X}", "*(T{&b[1]}.Pt)", "*(T{&(*b)[0]}.Pt)"}[rng.Intn(6)]
		return srcCase{"literal-operand-pointer-index-selector", "", srcHead + fmt.Sprintf(`type T struct{ Pt *int }

func main() {
	a := [3]P{{%d, 3}, {3, %d}, {4, 3}}
	pa := &a
	b := &[3]int{%d, 5, 6}
	_, _ = pa, b
	x := %s
	fmt.Println(x)
}
`, a, b, c, lit)}
	case 25: // F04-22 (repaired by 7f288e3): the results of a call assigned to two map entries
		return srcCase{"call-results-to-map-entries", "", srcHead + fmt.Sprintf(`func f() (int, int) { return %d, %d }

func main() {
	mp := map[string]int{}
	mp["a"], mp["b"] = f()
	fmt.Println(mp)
}
`, a, b)}
	case 26: // F04-23 (repaired by 28d3d87): a host call among the operands of a return that permutes the named results
		return srcCase{"return-host-call-and-named-result", "", srcHead + fmt.Sprintf(`func g() (a string, b string) {
	a, b = "x%d", "y%d"
	return fmt.Sprint(b), a
}

func main() {
	fmt.Println(g())
}
`, a, b)}
	case 27: // F04-24 (repaired by 790cfa6): a positional literal operand `(*pa)[lo:hi]`
		lit := []string{"T{1, (*pa)[0:]}", "[][]int{(*pa)[:2]}", "T{2, (*pa)[1:2]}"}[rng.Intn(3)]
		return srcCase{"literal-operand-slice-of-deref", "", srcHead + fmt.Sprintf(`type T struct {
	A  int
	Sl []int
}

func main() {
	pa := &[3]int{%d, %d, 9}
	x := %s
	fmt.Println(x)
}
`, a, b, lit)}
	case 28: // interface-typed variables in multi-assignments, swaps and rotations: the shapes that are in the domain
		return srcCase{"multiassign-interface-values", "", ifaceHead + fmt.Sprintf(`func named() (a, b I) {
	a = A("n%d")
	b = &B{%d}
	a, b = b, a
	return
}

func main() {
	var a, b I = A("a%d"), &B{%d}
	a, b = b, a
	fmt.Println(sh(a, b))
	s := []I{A("x"), &B{%d}, A("z")}
	s[0], s[1], s[2] = s[1], s[2], s[0]
	s[0], a = a, s[0]
	fmt.Println(sh(s...), sh(a, b))
	type T struct{ X, Y I }
	v := T{A("p"), &B{7}}
	pv := &v
	v.X, pv.Y = pv.Y, v.X
	fmt.Println(sh(v.X, v.Y), sh(named()))
	var e, f interface{} = 1, "x"
	e, f = %d, "y%d"
	n := 5
	e, n = n, 7
	g := e
	e = f
	f = g
	fmt.Println(e, f, n, g)
	bp := &B{1}
	var c, d I = bp, bp
	c, d = d, c
	bp.N = %d
	fmt.Println(sh(c, d))
}
`, a, b, a, b, c, a, b, c)}
	case 29: // F04-25 (repaired by 8f0dcdc): a multi-assignment storing an interface-typed operand into an interface{} destination
		body := []string{
			"var a, b interface{} = %d, \"x\"\n\ta, b = b, a\n\tfmt.Println(a, b)",
			"var a, b, c interface{} = %d, \"x\", 2.5\n\ta, b, c = b, c, a\n\tfmt.Println(a, b, c)",
			"s := []interface{}{%d, \"x\"}\n\ts[0], s[1] = s[1], s[0]\n\tfmt.Println(s)",
			"type T struct{ X, Y interface{} }\n\tv := T{%d, \"x\"}\n\tv.X, v.Y = v.Y, v.X\n\tfmt.Println(v)",
			"var a, b interface{} = %d, \"x\"\n\tp := &a\n\ta, b = b, *p\n\tfmt.Println(a, b)",
			// (the value is shown through its method: an I held by an interface{} variable and handed to fmt as such is shown as
			// the interpreter's internal wrapper, also after a single assignment — a host-boundary matter of C07, not of this property)
			"var u I = A(\"u%d\")\n\tvar c interface{}\n\tn := 0\n\tc, n = u, 1\n\tfmt.Println(c.(I).Str(), n)",
		}[rng.Intn(6)]
		return srcCase{"multiassign-into-empty-interface", "", ifaceHead + "func main() {\n\t" + fmt.Sprintf(body, a) + "\n}\n"}
	case 30: // F04-26 (repaired by 8f0dcdc): a multi-assignment storing a concrete value into a destination of a non-empty interface type
		body := []string{
			"var a, b I\n\ta, b = A(\"a%d\"), A(\"b\")\n\tfmt.Println(sh(a, b))",
			"var a, b I\n\ta, b = A(\"a%d\"), &B{2}\n\tfmt.Println(sh(a, b))",
			"fmt.Println(sh(namedConc()), %d)",
			"var a I\n\tx := 1\n\ta, x = A(\"q%d\"), 2\n\tfmt.Println(sh(a), x)",
			"var a, b I\n\tu, v := A(\"a%d\"), A(\"b\")\n\ta, b = u, v\n\tfmt.Println(sh(a, b))",
		}[rng.Intn(5)]
		return srcCase{"multiassign-concrete-into-interface", "", ifaceHead + "func namedConc() (a, b I) {\n\ta, b = A(\"a\"), A(\"b\")\n\treturn\n}\n\nfunc main() {\n\t" + fmt.Sprintf(body, a) + "\n}\n"}
	default: // 26ad67e: local blank assignments get their own slots; blank range variables
		return srcCase{"blank-assignments-and-blank-loop-variables", "", srcHead + fmt.Sprintf(`func main() {
	x, s, f := %s, "s", func() int { return %d }
	for _, v := range []%s{x} {
		_ = s
		_ = v
		_ = f
		_, _ = f(), v
	}
	for range [2]int{} {
		_ = x
		_ = f
	}
	_, ok := interface{}(x).(string)
	_, z := f(), %s
	fmt.Println(x, s, f(), ok, z)
}
`, kd.lit(a, b), c, kd.typ, agg.lit(b, a))}
	}
}
