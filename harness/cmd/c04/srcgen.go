package main

// Source-level stream: small complete programs, instantiated from templates with random types, values, counts
// and call orders, for the copy / share shapes that lie outside the operation language of the Lean models
// (closures capturing a variable declared from a literal in a loop body, three-clause loops, channels, recover,
// blank assignments, elided `&` in composite literals, package-level comma-ok declarations). They are compared
// between the interpreter and the compiled program only (impl-vs-ref). Every template of a repaired finding has
// an empty class: any difference is a violation. The four templates of the findings that are still open carry
// the class label of their finding (a property of the template, i.e. of the input).

import (
	"fmt"
	"math/rand"
	"strings"
)

type srcCase struct {
	label string // template name (coverage bucket)
	class string // class label of a listed finding, or ""
	src   string
}

type kindT struct {
	typ string                       // Go type
	lit func(a, b int) string        // a literal built from two ints
	mut func(v string, c int) string // a statement that changes the variable named v
}

var srcKinds = []kindT{
	{"[2]int", func(a, b int) string { return fmt.Sprintf("[2]int{%d, %d}", a, b) },
		func(v string, c int) string { return fmt.Sprintf("%s[1] += %d", v, c) }},
	{"[]int", func(a, b int) string { return fmt.Sprintf("[]int{%d, %d}", a, b) },
		func(v string, c int) string { return fmt.Sprintf("%s = append(%s, %d)", v, v, c) }},
	{"map[int]int", func(a, b int) string { return fmt.Sprintf("map[int]int{1: %d, 2: %d}", a, b) },
		func(v string, c int) string { return fmt.Sprintf("%s[3] = %d", v, c) }},
	{"P", func(a, b int) string { return fmt.Sprintf("P{%d, %d}", a, b) },
		func(v string, c int) string { return fmt.Sprintf("%s.Y += %d", v, c) }},
	{"[2]P", func(a, b int) string { return fmt.Sprintf("[2]P{{%d, %d}, {%d, %d}}", a, b, b, a) },
		func(v string, c int) string { return fmt.Sprintf("%s[0].X += %d", v, c) }},
	{"[][2]int", func(a, b int) string { return fmt.Sprintf("[][2]int{{%d, %d}}", a, b) },
		func(v string, c int) string { return fmt.Sprintf("%s[0][1] += %d", v, c) }},
	{"int", func(a, b int) string { return fmt.Sprintf("%d + %d", 10*a, b) },
		func(v string, c int) string { return fmt.Sprintf("%s += %d", v, c) }},
}

const srcHead = "package main\n\nimport \"fmt\"\n\ntype P struct{ X, Y int }\n\n"

func order(rng *rand.Rand, n int) string {
	k := 2 + rng.Intn(3)
	parts := make([]string, k)
	for i := range parts {
		parts[i] = fmt.Sprint(rng.Intn(n))
	}
	return strings.Join(parts, ", ")
}

// loopHead renders one of the loop forms over n iterations with index variable i.
func loopHead(rng *rand.Rand, n int) string {
	switch rng.Intn(3) {
	case 0:
		return fmt.Sprintf("for i := 0; i < %d; i++ {", n)
	case 1:
		return fmt.Sprintf("for i := range [%d]int{} {", n)
	}
	return fmt.Sprintf("for i := range make([]int, %d) {", n)
}

func genSrc(rng *rand.Rand, k int) srcCase {
	n := 2 + rng.Intn(3)
	a, b, c := 1+rng.Intn(9), 1+rng.Intn(9), 10*(1+rng.Intn(9))
	kd := srcKinds[rng.Intn(len(srcKinds))]
	agg := srcKinds[rng.Intn(len(srcKinds)-1)] // not int
	switch k % 16 {
	case 0: // F04-4: a variable declared from a literal in a loop body, captured by a closure
		return srcCase{"closure-captures-literal-in-loop", "", srcHead + fmt.Sprintf(`func main() {
	var fs []func() string
	%s
		v := %s
		_ = i
		fs = append(fs, func() string {
			%s
			return fmt.Sprint(%s)
		})
	}
	for _, j := range []int{%s} {
		fmt.Println(fs[j]())
	}
}
`, loopHead(rng, n), agg.lit(a, b), agg.mut("v", c), "v", order(rng, n))}
	case 1: // F04-4: … its address kept, the literal depends on the iteration
		return srcCase{"address-of-literal-var-in-loop", "", srcHead + fmt.Sprintf(`func main() {
	var ps []*%s
	%s
		v := %s
		ps = append(ps, &v)
	}
	w := ps[%d]
	%s
	for _, p := range ps {
		fmt.Println(*p)
	}
	fmt.Println(ps[0] == ps[1])
}
`, agg.typ, loopHead(rng, n), strings.ReplaceAll(agg.lit(a, 77777), "77777", "i"), rng.Intn(n), agg.mut("(*w)", c))}
	case 2: // F04-11: `&[n]T{…}` / `&[]T{…}` / `&map…{…}` evaluated at each iteration
		return srcCase{"addr-of-literal-per-iteration", "", srcHead + fmt.Sprintf(`func main() {
	var ps []*%s
	%s
		ps = append(ps, &%s)
	}
	w := ps[%d]
	%s
	for _, p := range ps {
		fmt.Println(*p)
	}
	fmt.Println(ps[0] == ps[1])
}
`, agg.typ, loopHead(rng, n), strings.ReplaceAll(agg.lit(a, 77777), "77777", "i"), rng.Intn(n), agg.mut("(*w)", c))}
	case 3: // F04-12: `v, ok := m[k]` in a loop body with `&v` kept and a closure over ok
		return srcCase{"commaok-map-define-in-loop", "", srcHead + fmt.Sprintf(`func main() {
	m := map[int]%s{0: %s, 2: %s}
	var ps []*%s
	var fs []func() bool
	%s
		v, ok := m[i]
		ps = append(ps, &v)
		fs = append(fs, func() bool { return ok })
	}
	for j, p := range ps {
		fmt.Println(*p, fs[j]())
	}
}
`, kd.typ, kd.lit(a, b), kd.lit(b, a), kd.typ, loopHead(rng, n))}
	case 4: // F04-12: `v, ok := <-ch` in a loop body with `&v` / `&ok` kept
		return srcCase{"commaok-recv-define-in-loop", "", srcHead + fmt.Sprintf(`func main() {
	ch := make(chan %s, %d)
	for i := 0; i < %d; i++ {
		ch <- %s
	}
	close(ch)
	var ps []*%s
	var oks []*bool
	for i := 0; i < %d; i++ {
		v, ok := <-ch
		ps = append(ps, &v)
		oks = append(oks, &ok)
	}
	for j := range ps {
		fmt.Println(*ps[j], *oks[j])
	}
}
`, kd.typ, n, n, strings.ReplaceAll(kd.lit(a, 77777), "77777", "i"), kd.typ, n+1)}
	case 5: // F04-5 / 6ebc898: a multi-define that redeclares a captured variable; blank assignments of several types
		return srcCase{"multidefine-redeclared-captured", "", srcHead + fmt.Sprintf(`func main() {
	a := %s
	f := func() %s { return a }
	_ = a
	_ = f
	pa := &a
	_ = pa
	a, c := %s, %d
	_ = c
	_ = "s"
	fmt.Println(f(), a, c, *pa)
	%s
	fmt.Println(f(), a, *pa)
	a, d, e := %s, a, f
	fmt.Println(a, d, e(), *pa)
}
`, kd.lit(a, b), kd.typ, kd.lit(b, a), c, kd.mut("a", c), kd.lit(a, a))}
	case 6: // F04-6: append whose operands are elements of the array that receives them
		i1, i2, i3 := rng.Intn(3), rng.Intn(3), rng.Intn(3)
		return srcCase{"append-operands-alias-destination", "", srcHead + fmt.Sprintf(`func main() {
	s := []%s{%s, %s, %s}
	t := append(s[:%d], s[%d], s[%d], s[%d])
	fmt.Println(s, t, len(t), cap(t))
	u := [3]%s{%s, %s, %s}
	w := append(u[:0], u[2], u[1], u[0])
	fmt.Println(u, w)
}
`, kd.typ, kd.lit(a, 1), kd.lit(b, 2), kd.lit(c, 3), rng.Intn(2), i1, i2, i3, kd.typ, kd.lit(1, a), kd.lit(2, b), kd.lit(3, c))}
	case 7: // F04-10: a nil pointer dereferenced, the value only stored / passed on
		use := []string{"m[1] = *p", "m[1], n = *p, 2", "s = append(s, *p)", "f(*p)", "_ = *p"}[rng.Intn(5)]
		return srcCase{"nil-deref-value-unused", "", srcHead + fmt.Sprintf(`func f(x %s) {}

func main() {
	defer func() { fmt.Println("recovered:", recover() != nil) }()
	m := map[int]%s{1: %s}
	var s []%s
	n := 0
	var p *%s
	_, _, _ = m, s, n
	%s
	fmt.Println("not reached", m, s, n)
}
`, kd.typ, kd.typ, kd.lit(a, b), kd.typ, kd.typ, use)}
	case 8: // F04-7: range over a pointer to an array (key only, key and value, blank key), then the pointer is used
		head := []string{"for i, v := range pa {\n\t\tfmt.Println(i, v)", "for i := range pa {\n\t\tfmt.Println(i)", "for _, v := range pa {\n\t\tfmt.Println(v)"}[rng.Intn(3)]
		return srcCase{"range-pointer-to-array", "", srcHead + fmt.Sprintf(`func main() {
	a := [3]%s{%s, %s, %s}
	b := %d
	pa := &a
	%s
		a[2] = %s
	}
	pa[1] = %s
	fmt.Println(a, *pa, len(pa), b)
	q := &pa[%d]
	*q = %s
	fmt.Println(a)
}
`, kd.typ, kd.lit(1, a), kd.lit(2, b), kd.lit(3, c), c, head, kd.lit(c, c), kd.lit(b, b), rng.Intn(3), kd.lit(a, a))}
	case 9: // F04-9: `&p[i]` with p a pointer to an array, also below a field
		return srcCase{"addr-of-pointer-index", "", srcHead + fmt.Sprintf(`type T struct{ A *[3]%s }

func main() {
	p := &[3]%s{%s, %s, %s}
	t := T{p}
	q := &p[%d]
	r := &t.A[%d]
	*q = %s
	%s
	fmt.Println(*p, *q, *r)
}
`, kd.typ, kd.typ, kd.lit(1, a), kd.lit(2, b), kd.lit(3, c), rng.Intn(3), rng.Intn(3), kd.lit(c, a), kd.mut("(*r)", c))}
	case 10: // 6ebc898: blank assignments of different types, in several scopes
		return srcCase{"blank-assignments", "", srcHead + fmt.Sprintf(`func g() int { return %d }

func main() {
	x, y := %s, "s"
	_ = x
	_ = y
	_ = g
	_, _ = x, g
	for i := 0; i < 2; i++ {
		_ = i
		_ = x
		_ = g()
	}
	_, z := g(), %s
	fmt.Println(x, y, z, g())
}
`, c, kd.lit(a, b), agg.lit(b, a))}
	case 11: // F04-4 in a function called repeatedly (the literal's slot lives in a new frame each time) and a nested loop
		return srcCase{"literal-in-nested-loop-and-calls", "", srcHead + fmt.Sprintf(`func mk(i int) *%s {
	v := %s
	return &v
}

func main() {
	var ps []*%s
	for i := 0; i < 2; i++ {
		for j := 0; j < %d; j++ {
			w := %s
			ps = append(ps, &w, mk(i+j))
		}
	}
	x := ps[%d]
	%s
	for _, p := range ps {
		fmt.Println(*p)
	}
}
`, agg.typ, strings.ReplaceAll(agg.lit(a, 77777), "77777", "i"), agg.typ, n, strings.ReplaceAll(agg.lit(b, 77777), "77777", "i*10+j"),
			rng.Intn(2*n), agg.mut("(*x)", c))}
	case 12: // open finding: key-only range over a nil pointer to an array
		return srcCase{"range-nil-pointer-to-array-keyonly", "range-nil-ptr-array-keyonly", srcHead + fmt.Sprintf(`func main() {
	var pn *[%d]%s
	for i := range pn {
		fmt.Println(i)
	}
	fmt.Println("done", len(pn))
}
`, n, kd.typ)}
	case 13: // open finding: `v, ok := x.(T)` in a loop body
		return srcCase{"commaok-typeassert-define-in-loop", "typeassert2-define-in-loop", srcHead + fmt.Sprintf(`func main() {
	xs := []interface{}{%d, "a", %d}
	var ps []*int
	for _, x := range xs {
		v, ok := x.(int)
		fmt.Println(v, ok)
		ps = append(ps, &v)
	}
	fmt.Println(*ps[0], *ps[1], *ps[2])
}
`, a, b)}
	case 14: // open finding: elided `&` of an array literal inside a composite literal
		return srcCase{"elided-addr-array-literal", "elided-addr-array-lit", srcHead + fmt.Sprintf(`func main() {
	ps := []*[%d]int{{%d}, {%d}}
	*ps[0], *ps[1] = *ps[1], *ps[0]
	fmt.Println(*ps[0], *ps[1])
}
`, 1+rng.Intn(2), a, b)}
	default: // open finding: package-level comma-ok declaration
		return srcCase{"package-level-commaok-var", "global-commaok-var", srcHead + fmt.Sprintf(`var gm = map[string]int{"x": %d}
var gv, gok = gm[%q]

func main() {
	fmt.Println(gv, gok)
}
`, a, []string{"x", "y"}[rng.Intn(2)])}
	}
}
