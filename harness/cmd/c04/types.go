package main

// Types of the pool variables (harness side only: the Lean models are untyped, zero values and element
// sizes travel inside the operations) and value literals.

import (
	"fmt"
	"strconv"
	"strings"
	"sync"
)

// Type is a Go type of the fixed universe, identified by its Go syntax.
type Type struct {
	K      string // int | bool | array | struct | slice | ptr | map
	Elem   *Type
	N      int
	Name   string // named struct types
	Fields []field
	Src    string // Go syntax
}

type field struct {
	Name string
	T    *Type
}

var typeCache = map[string]*Type{}
var typeMu sync.Mutex

// the named struct types every generated program declares
const typeDecls = `type P struct{ X, Y int }
type Q struct {
	A [2]int
	P P
}
type S struct {
	A  [2]int
	Sl []int
	M  map[int]int
	Pt *int
	In P
}
`

func ty(src string) *Type {
	typeMu.Lock()
	defer typeMu.Unlock()
	return tyLocked(src)
}

func tyLocked(src string) *Type {
	if t, ok := typeCache[src]; ok {
		return t
	}
	t := parseType(src)
	typeCache[src] = t
	return t
}

func parseType(s string) *Type {
	switch {
	case s == "int":
		return &Type{K: "int", Src: s}
	case s == "bool":
		return &Type{K: "bool", Src: s}
	case s == "P":
		return &Type{K: "struct", Name: "P", Src: s, Fields: []field{{"X", tyLocked("int")}, {"Y", tyLocked("int")}}}
	case s == "Q":
		return &Type{K: "struct", Name: "Q", Src: s, Fields: []field{{"A", tyLocked("[2]int")}, {"P", tyLocked("P")}}}
	case s == "S":
		return &Type{K: "struct", Name: "S", Src: s, Fields: []field{{"A", tyLocked("[2]int")}, {"Sl", tyLocked("[]int")}, {"M", tyLocked("map[int]int")},
			{"Pt", tyLocked("*int")}, {"In", tyLocked("P")}}}
	case strings.HasPrefix(s, "[]"):
		return &Type{K: "slice", Elem: tyLocked(s[2:]), Src: s}
	case strings.HasPrefix(s, "*"):
		return &Type{K: "ptr", Elem: tyLocked(s[1:]), Src: s}
	case strings.HasPrefix(s, "map[int]"):
		return &Type{K: "map", Elem: tyLocked(s[len("map[int]"):]), Src: s}
	case strings.HasPrefix(s, "["):
		i := strings.IndexByte(s, ']')
		n, err := strconv.Atoi(s[1:i])
		if err != nil {
			panic("bad type " + s)
		}
		return &Type{K: "array", N: n, Elem: tyLocked(s[i+1:]), Src: s}
	}
	panic("bad type " + s)
}

// mangle gives an identifier for a type (names of the generated show / id / mut functions).
func (t *Type) mangle() string {
	r := strings.NewReplacer("[]", "Sl", "[", "A", "]", "_", "*", "Pt", "map", "M")
	return r.Replace(t.Src)
}

// size in bytes on a 64-bit platform (no padding arises: every component is a multiple of 8)
func (t *Type) size() int {
	switch t.K {
	case "int", "ptr", "map":
		return 8
	case "bool":
		return 1
	case "slice":
		return 24
	case "array":
		return t.N * t.Elem.size()
	case "struct":
		n := 0
		for _, f := range t.Fields {
			n += f.T.size()
		}
		return n
	}
	return 8
}

func (t *Type) hasPointers() bool {
	switch t.K {
	case "ptr", "map", "slice":
		return true
	case "array":
		return t.Elem.hasPointers()
	case "struct":
		for _, f := range t.Fields {
			if f.T.hasPointers() {
				return true
			}
		}
	}
	return false
}

// Val is a reference-free value tree (literals, zero values).
type Val struct {
	K  string `json:"k"` // i | a | s | nil | nils
	N  int    `json:"n,omitempty"`
	Vs []Val  `json:"vs,omitempty"`
}

func (v Val) sexp() string {
	switch v.K {
	case "i":
		return fmt.Sprintf("(i %d)", v.N)
	case "a", "s":
		parts := []string{v.K}
		for _, c := range v.Vs {
			parts = append(parts, c.sexp())
		}
		return "(" + strings.Join(parts, " ") + ")"
	}
	return v.K
}

func zero(t *Type) Val {
	switch t.K {
	case "int", "bool":
		return Val{K: "i"}
	case "array":
		v := Val{K: "a"}
		for i := 0; i < t.N; i++ {
			v.Vs = append(v.Vs, zero(t.Elem))
		}
		return v
	case "struct":
		v := Val{K: "s"}
		for _, f := range t.Fields {
			v.Vs = append(v.Vs, zero(f.T))
		}
		return v
	case "slice":
		return Val{K: "nils"}
	}
	return Val{K: "nil"}
}

// goLit renders a value tree as a Go expression of type t.
func goLit(t *Type, v Val) string {
	switch t.K {
	case "int":
		return strconv.Itoa(v.N)
	case "bool":
		if v.N != 0 {
			return "true"
		}
		return "false"
	case "array":
		parts := make([]string, len(v.Vs))
		for i, c := range v.Vs {
			parts[i] = goLit(t.Elem, c)
		}
		return t.Src + "{" + strings.Join(parts, ", ") + "}"
	case "struct":
		parts := make([]string, len(v.Vs))
		for i, c := range v.Vs {
			parts[i] = goLit(t.Fields[i].T, c)
		}
		return t.Src + "{" + strings.Join(parts, ", ") + "}"
	}
	return "nil"
}

// showFuncs renders the show function of every type in ts (and of the types they are built from).
func showFuncs(ts []*Type) string {
	seen := map[string]bool{}
	var order []*Type
	var visit func(t *Type)
	visit = func(t *Type) {
		if seen[t.Src] {
			return
		}
		seen[t.Src] = true
		if t.Elem != nil {
			visit(t.Elem)
		}
		for _, f := range t.Fields {
			visit(f.T)
		}
		order = append(order, t)
	}
	for _, t := range ts {
		visit(t)
	}
	var b strings.Builder
	for _, t := range order {
		fn := "sh" + t.mangle()
		fmt.Fprintf(&b, "func %s(x %s) string {\n", fn, t.Src)
		switch t.K {
		case "int":
			b.WriteString("\treturn strconv.Itoa(x)\n")
		case "bool":
			b.WriteString("\tif x {\n\t\treturn \"1\"\n\t}\n\treturn \"0\"\n")
		case "array":
			fmt.Fprintf(&b, "\ts := \"[\"\n\tfor i := 0; i < %d; i++ {\n\t\tif i > 0 {\n\t\t\ts += \",\"\n\t\t}\n\t\ts += sh%s(x[i])\n\t}\n\treturn s + \"]\"\n", t.N, t.Elem.mangle())
		case "struct":
			b.WriteString("\treturn \"{\"")
			for i, f := range t.Fields {
				if i > 0 {
					b.WriteString(" + \",\"")
				}
				fmt.Fprintf(&b, " + sh%s(x.%s)", f.T.mangle(), f.Name)
			}
			b.WriteString(" + \"}\"\n")
		case "slice":
			fmt.Fprintf(&b, "\tif x == nil {\n\t\treturn \"nil\"\n\t}\n\ts := \"s\" + strconv.Itoa(len(x)) + \"/\" + strconv.Itoa(cap(x)) + \"[\"\n\tfor i := 0; i < len(x); i++ {\n\t\tif i > 0 {\n\t\t\ts += \",\"\n\t\t}\n\t\ts += sh%s(x[i])\n\t}\n\treturn s + \"]\"\n", t.Elem.mangle())
		case "ptr":
			fmt.Fprintf(&b, "\tif x == nil {\n\t\treturn \"nil\"\n\t}\n\treturn \"&\" + sh%s(*x)\n", t.Elem.mangle())
		case "map":
			fmt.Fprintf(&b, "\tif x == nil {\n\t\treturn \"nil\"\n\t}\n\tks := []int{}\n\tfor k := range x {\n\t\tks = append(ks, k)\n\t}\n\tsort.Ints(ks)\n\ts := \"m[\"\n\tfor i, k := range ks {\n\t\tif i > 0 {\n\t\t\ts += \",\"\n\t\t}\n\t\ts += strconv.Itoa(k) + \":\" + sh%s(x[k])\n\t}\n\treturn s + \"]\"\n", t.Elem.mangle())
		}
		b.WriteString("}\n\n")
	}
	return b.String()
}
