package main

// Seeds of the default stream: the shapes on which the interpreter diverged from Go until the repairs of
// 2026-09-26 (findings F04-4 … F04-12, each with the commit that repaired it). A share of the generated
// programs starts with one of them, with random types, values, indices and iteration counts; the ordinary
// random statements follow and may use the variables the seed declared. Every statement still goes through
// the specification model (g.try), so a seed that would be ill-typed or panic early is simply dropped.

const nShapes = 12

func iv(n int) Val                { return Val{K: "i", N: n} }
func vx(x int) *LExp              { return &LExp{K: "v", X: x} }
func cx(n int) *IExp              { return &IExp{N: n} }
func ix(l *LExp, n int) *LExp     { return &LExp{K: "x", L: l, E: cx(n)} }
func fx(l *LExp, i int) *LExp     { return &LExp{K: "f", L: l, I: i} }
func dx(l *LExp) *LExp            { return &LExp{K: "d", L: l} }
func ldr(t string, l *LExp) *RExp { return &RExp{K: "ld", T: t, L: l} }

// top appends a top-level statement; false when the model rejected it.
func (g *gen) top(o *SOp, panicOK bool) (kept, panicked bool) {
	kept, panicked = g.try(Op{S: o}, panicOK)
	if kept && !panicked {
		g.bind(o, true)
	}
	return
}

func (g *gen) defLit(t *Type) (int, bool) {
	x := g.fresh()
	r := g.freshVal(t)
	if r == nil {
		return 0, false
	}
	k, _ := g.top(&SOp{K: "def", X: x, T: t.Src, R: r}, false)
	return x, k
}

// freshVal: a literal / freshly made value of type t with random contents (never an existing location).
func (g *gen) freshVal(t *Type) *RExp {
	switch t.K {
	case "slice":
		r := &RExp{K: "mks", T: t.Src}
		for i, n := 0, 1+g.pick(3); i < n; i++ {
			r.Elems = append(r.Elems, g.litVal(t.Elem))
		}
		return r
	case "map":
		r := &RExp{K: "mkm", T: t.Src}
		k := 0
		for i, n := 0, 1+g.pick(2); i < n; i++ {
			k += 1 + g.pick(2)
			r.Keys = append(r.Keys, k)
			r.Elems = append(r.Elems, g.litVal(t.Elem))
		}
		return r
	case "ptr":
		if t.Elem.K == "struct" || t.Elem.K == "array" {
			return &RExp{K: "new", T: t.Src, V: ptrVal(g.litVal(t.Elem))}
		}
		return nil
	}
	v := g.litVal(t)
	return &RExp{K: "lit", T: t.Src, V: &v}
}

// intIn: an int component below l (of type t), reached without crossing a reference.
func intIn(g *gen, l *LExp, t *Type) *LExp {
	for t.K != "int" {
		switch t.K {
		case "array":
			l, t = ix(l, g.pick(t.N)), t.Elem
		case "struct":
			var ok []int
			for i, f := range t.Fields {
				if f.T.K == "int" || f.T.K == "array" || f.T.K == "struct" {
					ok = append(ok, i)
				}
			}
			if len(ok) == 0 {
				return nil
			}
			i := ok[g.pick(len(ok))]
			l, t = fx(l, i), t.Fields[i].T
		default:
			return nil
		}
	}
	return l
}

func (g *gen) intSlice() (int, int, bool) {
	n := 2 + g.pick(3)
	r := &RExp{K: "mks", T: "[]int"}
	for i := 0; i < n; i++ {
		r.Elems = append(r.Elems, iv(1+g.pick(4)))
	}
	x := g.fresh()
	k, _ := g.top(&SOp{K: "def", X: x, T: "[]int", R: r}, false)
	return x, n, k
}

// seedShape starts the program with shape k; reports whether the program has ended (a deliberate panic).
func (g *gen) seedShape(k int) (ended bool) {
	pick := func(xs ...string) *Type { return ty(xs[g.pick(len(xs))]) }
	switch k % nShapes {
	case 0, 1:
		// F04-4: a literal of every aggregate kind declared in a loop body, its address kept; then one of the
		// kept variables is changed through its pointer
		K := pick("[1]int", "[2]int", "[3]int", "[]int", "map[int]int", "[2]P", "Q", "[][2]int", "map[int][2]int", "P")
		src, n, ok := g.intSlice()
		if !ok {
			return
		}
		psT := "[]*" + K.Src
		ps := g.fresh()
		if kept, _ := g.top(&SOp{K: "def", X: ps, T: psT, R: &RExp{K: "mks", T: psT}}, false); !kept {
			return
		}
		op := Op{K: "rng", Src: vx(src), I: g.fresh(), V: g.fresh(), ET: "int", SK: "slice"}
		x := g.fresh()
		op.Body = append(op.Body, SOp{K: "def", X: x, T: K.Src, R: g.freshVal(K)})
		// store the iteration value somewhere inside the new variable
		switch K.K {
		case "map":
			if K.Elem.K == "int" {
				op.Body = append(op.Body, SOp{K: "ms", M: vx(x), Ke: cx(1 + g.pick(3)), R: ldr("int", vx(op.V))})
			}
		case "slice":
			if K.Elem.K == "int" {
				op.Body = append(op.Body, SOp{K: "app", L: vx(x), T: K.Src, S: ldr(K.Src, vx(x)), Args: []RExp{*ldr("int", vx(op.V))}})
			}
		default:
			if l := intIn(g, vx(x), K); l != nil {
				op.Body = append(op.Body, SOp{K: "as", L: l, R: ldr("int", vx(op.V))})
			}
		}
		op.Body = append(op.Body, SOp{K: "app", L: vx(ps), T: psT, S: ldr(psT, vx(ps)), Args: []RExp{{K: "adr", T: "*" + K.Src, L: vx(x)}}})
		if g.chance(0.3) {
			op.Body = append(op.Body, SOp{K: "app", L: vx(ps), T: psT, S: ldr(psT, vx(ps)), Args: []RExp{{K: "adr", T: "*" + K.Src, L: vx(x)}}})
		}
		if kept, _ := g.try(op, false); !kept {
			return
		}
		tgt := dx(ix(vx(ps), g.pick(n)))
		c := 100 * (1 + g.pick(5))
		switch K.K {
		case "map":
			v := g.litVal(K.Elem)
			g.top(&SOp{K: "ms", M: tgt, Ke: cx(1 + g.pick(3)), R: &RExp{K: "lit", T: K.Elem.Src, V: &v}}, false)
		case "slice":
			v := g.litVal(K.Elem)
			g.top(&SOp{K: "app", L: tgt, T: K.Src, S: ldr(K.Src, tgt), Args: []RExp{{K: "lit", T: K.Elem.Src, V: &v}}}, false)
		default:
			if l := intIn(g, tgt, K); l != nil {
				g.top(&SOp{K: "op", L: l, C: c}, false)
			}
		}
	case 2:
		// F04-12: `x, ok := m[k]` in a loop body with `&x` kept (or x redeclared in the body and aliased)
		T := pick("int", "P", "[2]int")
		m := g.fresh()
		mt := "map[int]" + T.Src
		mr := &RExp{K: "mkm", T: mt, Keys: []int{1, 3}, Elems: []Val{g.litVal(T), g.litVal(T)}}
		if kept, _ := g.top(&SOp{K: "def", X: m, T: mt, R: mr}, false); !kept {
			return
		}
		src, n, ok := g.intSlice()
		if !ok {
			return
		}
		psT := "[]*" + T.Src
		ps := g.fresh()
		if kept, _ := g.top(&SOp{K: "def", X: ps, T: psT, R: &RExp{K: "mks", T: psT}}, false); !kept {
			return
		}
		op := Op{K: "rng", Src: vx(src), I: g.fresh(), V: g.fresh(), ET: "int", SK: "slice"}
		x, okv := g.fresh(), g.fresh()
		lk := SOp{K: "lk2", IsDef: true, X: x, Ok: okv, M: vx(m), Ke: &IExp{IsVar: true, N: op.V}, T: T.Src}
		if g.chance(0.3) {
			// x declared earlier in the body: the comma-ok form only redeclares it
			v := g.litVal(T)
			op.Body = append(op.Body, SOp{K: "def", X: x, T: T.Src, R: &RExp{K: "lit", T: T.Src, V: &v}})
			op.Body = append(op.Body, SOp{K: "app", L: vx(ps), T: psT, S: ldr(psT, vx(ps)), Args: []RExp{{K: "adr", T: "*" + T.Src, L: vx(x)}}})
			lk.Rdx = true
			op.Body = append(op.Body, lk)
		} else {
			op.Body = append(op.Body, lk)
			op.Body = append(op.Body, SOp{K: "app", L: vx(ps), T: psT, S: ldr(psT, vx(ps)), Args: []RExp{{K: "adr", T: "*" + T.Src, L: vx(x)}}})
		}
		if kept, _ := g.try(op, false); !kept {
			return
		}
		if l := intIn(g, dx(ix(vx(ps), g.pick(n))), T); l != nil {
			g.top(&SOp{K: "op", L: l, C: 100 * (1 + g.pick(5))}, false)
		}
	case 3:
		// F04-5 (and F21): a multi-define that only redeclares an aliased variable, a later source reading it
		T := pick("int", "P", "[2]int", "[]int", "Q")
		a, ok := g.defLit(T)
		if !ok {
			return
		}
		pa := g.fresh()
		if kept, _ := g.top(&SOp{K: "def", X: pa, T: "*" + T.Src, R: &RExp{K: "adr", T: "*" + T.Src, L: vx(a)}}, false); !kept {
			return
		}
		o := &SOp{K: "muld"}
		pos, cnt := g.pick(2), 2+g.pick(2)
		for i := 0; i < cnt; i++ {
			if i == pos {
				o.Xs, o.Rd, o.Ts = append(o.Xs, a), append(o.Rd, true), append(o.Ts, T.Src)
				o.Rs = append(o.Rs, *g.freshVal(T))
				continue
			}
			o.Xs, o.Rd = append(o.Xs, g.fresh()), append(o.Rd, false)
			switch g.pick(3) {
			case 0:
				o.Ts, o.Rs = append(o.Ts, T.Src), append(o.Rs, *ldr(T.Src, vx(a)))
			case 1:
				o.Ts, o.Rs = append(o.Ts, "*"+T.Src), append(o.Rs, *ldr("*"+T.Src, vx(pa)))
			default:
				o.Ts, o.Rs = append(o.Ts, "int"), append(o.Rs, RExp{K: "lit", T: "int", V: ptrVal(iv(g.smallInt()))})
			}
		}
		if kept, _ := g.top(o, false); !kept {
			return
		}
		switch T.K {
		case "slice":
			g.top(&SOp{K: "app", L: dx(vx(pa)), T: T.Src, S: ldr(T.Src, dx(vx(pa))), Args: []RExp{{K: "lit", T: "int", V: ptrVal(iv(77))}}}, false)
		default:
			if l := intIn(g, dx(vx(pa)), T); l != nil {
				g.top(&SOp{K: "op", L: l, C: 100 * (1 + g.pick(5))}, false)
			}
		}
	case 4:
		// F04-6: append whose operands are elements of the backing array that receives them
		E := pick("int", "P", "[2]int")
		sT := "[]" + E.Src
		n := 3 + g.pick(2)
		r := &RExp{K: "mks", T: sT}
		for i := 0; i < n; i++ {
			r.Elems = append(r.Elems, g.litVal(E))
		}
		s := g.fresh()
		if kept, _ := g.top(&SOp{K: "def", X: s, T: sT, R: r}, false); !kept {
			return
		}
		o := &SOp{K: "app", T: sT, S: &RExp{K: "sl", T: sT, L: vx(s), Hi: cx(g.pick(2))}}
		if g.chance(0.5) {
			o.IsDef, o.L = true, vx(g.fresh())
		} else {
			o.L = vx(s)
		}
		for i, k := 0, 2+g.pick(2); i < k; i++ {
			o.Args = append(o.Args, *ldr(E.Src, ix(vx(s), g.pick(n))))
		}
		g.top(o, false)
	case 5:
		// F04-10: a nil pointer dereferenced, the value only stored into a map: panics at the dereference
		T := pick("int", "P", "[2]int")
		mt := "map[int]" + T.Src
		m := g.fresh()
		if kept, _ := g.top(&SOp{K: "def", X: m, T: mt, R: &RExp{K: "mkm", T: mt, Keys: []int{2}, Elems: []Val{g.litVal(T)}}}, false); !kept {
			return
		}
		psT := "[]*" + T.Src
		ps := g.fresh()
		if kept, _ := g.top(&SOp{K: "def", X: ps, T: psT, R: &RExp{K: "mks", T: psT, Elems: []Val{{K: "nil"}}}}, false); !kept {
			return
		}
		// some ordinary statements first, the panic comes last
		for i, k := 0, g.pick(3); i < k; i++ {
			if o := g.sop(false); o != nil {
				if xs, _ := o.binds(); len(xs) == 0 {
					g.top(o, false)
				}
			}
		}
		_, panicked := g.top(&SOp{K: "ms", M: vx(m), Ke: cx(2), R: ldr(T.Src, dx(ix(vx(ps), 0)))}, true)
		return panicked
	case 6:
		// F04-7 + F04-9: range over a pointer to an array (live on the pointee), then the pointer is used:
		// `pa[j] = …`, `q := &pa[i]`, `*q += c`
		E := pick("int", "P", "[2]int")
		aT := ty("[3]" + E.Src)
		a, ok := g.defLit(aT)
		if !ok {
			return
		}
		pa := g.fresh()
		if kept, _ := g.top(&SOp{K: "def", X: pa, T: "*" + aT.Src, R: &RExp{K: "adr", T: "*" + aT.Src, L: vx(a)}}, false); !kept {
			return
		}
		op := Op{K: "rng", Src: vx(pa), I: g.fresh(), V: g.fresh(), ET: E.Src, SK: "ptr"}
		if l := intIn(g, ix(vx(a), 2), E); l != nil {
			op.Body = append(op.Body, SOp{K: "op", L: l, C: 10 * (1 + g.pick(9))})
		}
		if l := intIn(g, ix(vx(pa), 1+g.pick(2)), E); l != nil && g.chance(0.5) {
			op.Body = append(op.Body, SOp{K: "op", L: l, C: 10 * (1 + g.pick(9))})
		}
		if kept, _ := g.try(op, false); !kept {
			return
		}
		v := g.litVal(E)
		g.top(&SOp{K: "as", L: ix(vx(pa), g.pick(3)), R: &RExp{K: "lit", T: E.Src, V: &v}}, false)
		q := g.fresh()
		if kept, _ := g.top(&SOp{K: "def", X: q, T: "*" + E.Src, R: &RExp{K: "adr", T: "*" + E.Src, L: ix(vx(pa), g.pick(3))}}, false); kept {
			if l := intIn(g, dx(vx(q)), E); l != nil {
				g.top(&SOp{K: "op", L: l, C: 100 * (1 + g.pick(5))}, false)
			}
		}
	case 7:
		// F04-9: `&p[i]` with p a pointer to an array obtained from a literal
		E := pick("int", "P")
		aT := ty("[3]" + E.Src)
		p := g.fresh()
		if kept, _ := g.top(&SOp{K: "def", X: p, T: "*" + aT.Src, R: g.freshVal(ty("*" + aT.Src))}, false); !kept {
			return
		}
		q := g.fresh()
		if kept, _ := g.top(&SOp{K: "def", X: q, T: "*" + E.Src, R: &RExp{K: "adr", T: "*" + E.Src, L: ix(vx(p), g.pick(3))}}, false); kept {
			if l := intIn(g, dx(vx(q)), E); l != nil {
				g.top(&SOp{K: "op", L: l, C: 100 * (1 + g.pick(5))}, false)
			}
		}
	case 9:
		// F08-7: receive into an aliased variable, an element, a field and a pointee
		T := pick("int", "P", "[2]int", "Q")
		x, ok := g.defLit(T)
		if !ok {
			return
		}
		p := g.fresh()
		if kept, _ := g.top(&SOp{K: "def", X: p, T: "*" + T.Src, R: &RExp{K: "adr", T: "*" + T.Src, L: vx(x)}}, false); !kept {
			return
		}
		aT := ty("[2]" + T.Src)
		a, ok := g.defLit(aT)
		if !ok {
			return
		}
		g.top(&SOp{K: "rcv", L: vx(x), T: T.Src, R: g.freshVal(T)}, false)
		g.top(&SOp{K: "rcv", L: ix(vx(a), g.pick(2)), T: T.Src, R: ldr(T.Src, vx(x))}, false)
		if l := intIn(g, vx(p), T); l != nil && T.K != "int" {
			g.top(&SOp{K: "rcv", L: l, T: "int", R: &RExp{K: "lit", T: "int", V: ptrVal(iv(100 + g.pick(100)))}}, false)
		}
		g.top(&SOp{K: "rcv", L: dx(vx(p)), T: T.Src, R: ldr(T.Src, ix(vx(a), g.pick(2)))}, false)
	case 10:
		// F04-14: `v, ok := e.(T)` in a loop body, holding and failing, `&v` kept
		T := pick("int", "P", "[2]int")
		src, n, ok := g.intSlice()
		if !ok {
			return
		}
		psT := "[]*" + T.Src
		ps := g.fresh()
		if kept, _ := g.top(&SOp{K: "def", X: ps, T: psT, R: &RExp{K: "mks", T: psT}}, false); !kept {
			return
		}
		op := Op{K: "rng", Src: vx(src), I: g.fresh(), V: g.fresh(), ET: "int", SK: "slice"}
		x, okv := g.fresh(), g.fresh()
		op.Body = append(op.Body, SOp{K: "as2", IsDef: true, X: x, Ok: okv, T: T.Src, R: g.freshVal(T), Succ: g.chance(0.6)})
		op.Body = append(op.Body, SOp{K: "app", L: vx(ps), T: psT, S: ldr(psT, vx(ps)), Args: []RExp{{K: "adr", T: "*" + T.Src, L: vx(x)}}})
		// the assignment form on the same variables, the other outcome
		op.Body = append(op.Body, SOp{K: "as2", X: x, Ok: okv, T: T.Src, R: g.freshVal(T), Succ: g.chance(0.4)})
		if kept, _ := g.try(op, false); !kept {
			return
		}
		if l := intIn(g, dx(ix(vx(ps), g.pick(n))), T); l != nil {
			g.top(&SOp{K: "op", L: l, C: 100 * (1 + g.pick(5))}, false)
		}
	case 11:
		// seeded change C04-3: a literal assigned to a variable / element / pointee whose operands read the destination,
		// directly and through a pointer alias
		T := pick("P", "Q", "[2]int", "[2]P", "[3]int", "S")
		x, ok := g.defLit(T)
		if !ok {
			return
		}
		p := g.fresh()
		if kept, _ := g.top(&SOp{K: "def", X: p, T: "*" + T.Src, R: &RExp{K: "adr", T: "*" + T.Src, L: vx(x)}}, false); !kept {
			return
		}
		for i, k := 0, 1+g.pick(3); i < k; i++ {
			dst := vx(x)
			if g.chance(0.25) {
				dst = dx(vx(p))
			}
			if o := g.fillLit(&SOp{K: "clit", L: dst, T: T.Src}, dst, T); o != nil {
				g.top(o, false)
			}
		}
	default:
		// F04-11: `&[n]T{…}` evaluated at each iteration: a new array each time
		E := pick("int", "P")
		aT := ty("[2]" + E.Src)
		src, n, ok := g.intSlice()
		if !ok {
			return
		}
		psT := "[]*" + aT.Src
		ps := g.fresh()
		if kept, _ := g.top(&SOp{K: "def", X: ps, T: psT, R: &RExp{K: "mks", T: psT}}, false); !kept {
			return
		}
		op := Op{K: "rng", Src: vx(src), I: g.fresh(), V: g.fresh(), ET: "int", SK: "slice"}
		if g.chance(0.5) {
			p := g.fresh()
			op.Body = append(op.Body, SOp{K: "def", X: p, T: "*" + aT.Src, R: g.freshVal(ty("*" + aT.Src))})
			if l := intIn(g, ix(vx(p), 0), E); l != nil {
				op.Body = append(op.Body, SOp{K: "as", L: l, R: ldr("int", vx(op.V))})
			}
			op.Body = append(op.Body, SOp{K: "app", L: vx(ps), T: psT, S: ldr(psT, vx(ps)), Args: []RExp{*ldr("*"+aT.Src, vx(p))}})
		} else {
			op.Body = append(op.Body, SOp{K: "app", L: vx(ps), T: psT, S: ldr(psT, vx(ps)), Args: []RExp{*g.freshVal(ty("*" + aT.Src))}})
		}
		if kept, _ := g.try(op, false); !kept {
			return
		}
		if l := intIn(g, ix(dx(ix(vx(ps), g.pick(n))), 1), E); l != nil {
			g.top(&SOp{K: "op", L: l, C: 100 * (1 + g.pick(5))}, false)
		}
	}
	return false
}
